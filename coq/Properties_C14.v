(* C14 - Letter case and RNA/DNA spelling do not influence the alignment.
   Statements only; proofs in ApiProofs.v and DetectFloatProofs.v. *)
From KV Require Import Base FP Params Sort Detect DetectProofs DetectFloatProofs Weave Api ApiProofs.
Local Open Scope Z_scope.

(* In every alphabet kalign_run converts to, a lower-case letter has the code of its upper-case
   letter (tables regenerated from the built library on every run). *)
Theorem C14_alphabet_case :
  forallb (fun bt => forallb (fun p => codes_agree bt (fst p) (snd p)) upper_lower_pairs)
          [ALN_BIOTYPE_DNA; ALN_BIOTYPE_PROTEIN] = true.
Proof. exact alphabet_case_b. Qed.
Print Assumptions C14_alphabet_case.

(* T, t, U, u share one code in the nucleotide alphabet. *)
Theorem C14_alphabet_TU :
  codes_agree ALN_BIOTYPE_DNA 84 85 = true /\ codes_agree ALN_BIOTYPE_DNA 116 117 = true /\
  codes_agree ALN_BIOTYPE_DNA 84 117 = true /\ codes_agree ALN_BIOTYPE_DNA 116 85 = true.
Proof. exact alphabet_TU_b. Qed.
Print Assumptions C14_alphabet_TU.

Theorem C14_codes_agree_is_equivalence : forall bt ta tamb aa aamb c c',
  alphabets bt = Some ((ta, tamb), (aa, aamb)) -> codes_agree bt c c' = true ->
  equiv_byte ta aa tamb aamb c c'.
Proof. exact codes_agree_equiv. Qed.
Print Assumptions C14_codes_agree_is_equivalence.

(* Main statement: for any core, two inputs whose records have the same names and residues that
   are equivalent byte by byte (same code in both alphabets - in particular any change of case and,
   for nucleotides, any T/U substitution) and that are detected as the same kind of sequence give
   results with the same names in the same order and the same gap pattern in every row; one is
   rejected iff the other is. *)
Theorem C14_respell_invariance : forall core bt ta aa tamb aamb,
  alphabets bt = Some ((ta, tamb), (aa, aamb)) ->
  forall ty gpo gpe tgpe recs recs',
  Forall2 (respelled ta aa tamb aamb) recs recs' ->
  match kalign_run_model core bt ty gpo gpe tgpe recs, kalign_run_model core bt ty gpo gpe tgpe recs' with
  | Some o, Some o' => Forall2 out_rel o o'
  | None, None => True
  | _, _ => False
  end.
Proof. exact respell_invariance. Qed.
Print Assumptions C14_respell_invariance.

(* "detected as the same kind": for the two families of the property the binary64 decision itself is pinned down
   (C13, forward error analysis), so every respelling is detected like the original.  A respelling of a nucleotide
   set (case, T/U) is again spelled with a c g t u n only; a change of case of a protein set keeps the numbers of
   protein-only, nucleotide and U letters. *)
Theorem C14_nucleotide_respellings_detected_alike : forall f1 f2,
  length f1 = 128%nat -> length f2 = 128%nat ->
  Forall (fun c => 0 <= c < 2 ^ 31) f1 -> Forall (fun c => 0 <= c < 2 ^ 31) f2 ->
  hist_only nuc_or_u 0 f1 -> hist_only nuc_or_u 0 f2 -> 0 < total_letters 0 f1 -> 0 < total_letters 0 f2 ->
  detect_alphabet f1 = Some ALN_BIOTYPE_DNA /\ detect_alphabet f2 = Some ALN_BIOTYPE_DNA.
Proof. intros f1 f2 L1 L2 C1 C2 H1 H2 T1 T2. split; apply nucleotide_detected; assumption. Qed.
Print Assumptions C14_nucleotide_respellings_detected_alike.

Theorem C14_protein_respellings_detected_alike : forall f1 f2,
  length f1 = 128%nat -> length f2 = 128%nat ->
  Forall (fun c => 0 <= c < 2 ^ 31) f1 -> Forall (fun c => 0 <= c < 2 ^ 31) f2 ->
  0 < total_letters 0 f1 -> total_letters 0 f1 <= 4 * class_count only_po 0 f1 ->
  class_count is_nuc_letter 0 f1 + class_count only_u 0 f1 + class_count only_po 0 f1 <= total_letters 0 f1 ->
  class_count only_u 0 f1 = 0 ->
  total_letters 0 f2 = total_letters 0 f1 -> class_count only_po 0 f2 = class_count only_po 0 f1 ->
  class_count is_nuc_letter 0 f2 = class_count is_nuc_letter 0 f1 -> class_count only_u 0 f2 = class_count only_u 0 f1 ->
  detect_alphabet f1 = Some ALN_BIOTYPE_PROTEIN /\ detect_alphabet f2 = Some ALN_BIOTYPE_PROTEIN.
Proof.
  intros f1 f2 L1 L2 C1 C2 T Q S U E1 E2 E3 E4. split; apply protein_detected; try assumption; rewrite ?E1, ?E2, ?E3, ?E4; assumption.
Qed.
Print Assumptions C14_protein_respellings_detected_alike.

(* Non-vacuity: "acgu" is a respelling of "ACGT" *)
Example C14_nonvacuous :
  forallb (fun p => codes_agree ALN_BIOTYPE_DNA (fst p) (snd p)) [(65,97);(67,99);(71,103);(84,117)] = true.
Proof. vm_compute. reflexivity. Qed.
