"""C09 - the scoring parameters used are exactly the ones the caller selected."""
import os, re, struct, subprocess, tempfile, shutil, json
import kvlib
import gen

def fbits(x):
    return struct.unpack('<I', struct.pack('<f', x))[0]

def ge0(bits):
    return bits <= 0x7f800000 or bits == 0x80000000

NG = fbits(-1.0)
VALUES = [fbits(-1.0), 0x7fc00000, 0xffc00001, fbits(-0.0), fbits(0.0), fbits(2.5), fbits(8.0), fbits(39.4),
          fbits(1e30), 0x7f800000, 0xff800000, 1]
DNA_FA = ">s1\nACGTACGTTTGACCA\n>s2\nACGTCGTTTGACA\n>s3\nACGTACGTTGACCAGG\n"
PROT_FA = ">p1\nMKVLAAGIWERTYHLP\n>p2\nMKVLAGIWERTYHP\n>p3\nMKILAAGIFERTYHLPQQ\n"
WORDS = {'dna': 0, 'internal': 1, 'rna': 2, 'protein': 3, 'divergent': 4}

def hexs(s):
    return s.encode('latin-1').hex()

def run(ck):
    ck.build(('omp',))
    ck.translate()
    ok = ck.prove()
    kvh = ck.harness('omp', 'kvh')
    kvcli = ck.harness('omp', 'kvcli')
    model = ck.model()
    ck.rule = ('correspondence: aln_param_init on all 3 kinds x 8 type values x 12^3 penalty bit patterns (exhaustive over the value set), '
               'set_aln_type on generated words; witness search: documented defaults, override-replaces-exactly-one, mismatch rejection, '
               'CLI runs for every --type word x subset of --gpo/--gpe/--tgpe with the PARAMS hook; a case is non-trivial when it is accepted '
               'with at least one override or is a mismatch')
    # ---- correspondence: aln_param_init ---------------------------------------------------
    vals = VALUES if ck.tier == 'thorough' else VALUES[:9]
    lines = []
    for bt in (0, 1, 2):
        for ty in range(-1, 7):
            for g in vals:
                for e in vals:
                    for t in vals:
                        lines.append('params %d %d %d %d %d' % (bt, ty, g, e, t))
    dis, impl, mod = ck.correspond('Params.init', lines, kvh)
    full = ['params_full %d %d' % (bt, ty) for bt in (0, 1, 2) for ty in range(-1, 7)]
    dis2, impl_full, mod_full = ck.correspond('Params.init(full matrix)', full, kvh)
    # words
    rng = ck.rng
    words = ['NULL', ''] + [hexs(w) for w in WORDS] + [hexs(w.upper()) for w in WORDS]
    frag = ['rna', 'dna', 'internal', 'protein', 'divergent', 'inter', 'nal', 'x', '-', ' ', 'RNA', 'pro', 'tein', 'd', 'n', 'a']
    for _ in range(300 if ck.tier == 'quick' else 3000):
        k = rng.range(1, 4)
        words.append(hexs(''.join(rng.choice(frag) for _ in range(k))))
    wl = ['typeword ' + w if w else 'typeword' for w in words]
    a = ck.run_lines(kvcli, wl, args=('--kv-typeword',))
    b = ck.run_lines(model, wl)
    dis3 = [(l, x, y) for l, x, y in zip(wl, a, b) if x != y]
    ck.corr['Params.set_aln_type'] = {'cases': len(wl), 'disagreements': len(dis3)}
    ck.evaluations += len(wl)
    corr_broken = dis + dis2 + dis3
    # ---- witness search on the implementation ---------------------------------------------
    # (a) documented defaults / mismatch: the model side prints the *documented* expectation
    doc = ck.run_lines(model, ['doc_params %d %d' % (bt, ty) for bt in (0, 1) for ty in range(0, 6)])
    k = 0
    witnesses = []
    for bt in (0, 1):
        for ty in range(0, 6):
            got = impl_full[(bt * 8) + (ty + 1)]
            want = doc[k]; k += 1
            if want != got:
                witnesses.append({'kind': 'default-or-mismatch', 'biotype': bt, 'type': ty, 'documented': want[:200], 'implementation': got[:200],
                                  'replay': 'aln_param_init(&ap,%d,1,%d,-1,-1,-1)' % (bt, ty)})
            ck.nontriv(('doc', bt, ty))
    # (b) overrides replace exactly one value
    defaults = {}
    for ln, r in zip(full, impl_full):
        _, bt, ty = ln.split()
        defaults[(int(bt), int(ty))] = r.split()[:4] if r.startswith('OK') else None
    for ln, r in zip(lines, impl):
        _, bt, ty, g, e, t = ln.split()
        bt, ty, g, e, t = int(bt), int(ty), int(g), int(e), int(t)
        d = defaults[(bt, ty)]
        if d is None:
            exp = 'FAIL'
        else:
            exp = 'OK %d %d %d subm=default' % (g if ge0(g) else int(d[1]), e if ge0(e) else int(d[2]), t if ge0(t) else int(d[3]))
            if ge0(g) or ge0(e) or ge0(t):
                ck.nontriv(('ovr', bt, ty, g, e, t))
        if r != exp:
            witnesses.append({'kind': 'override', 'case': ln, 'expected': exp, 'implementation': r,
                              'replay': 'aln_param_init with bit patterns gpo=%d gpe=%d tgpe=%d on biotype %d type %d' % (g, e, t, bt, ty)})
    ck.count('aln_param_init cases', len(lines))
    ck.count('type words', len(wl))
    # (b2) the library entry points hand the three penalties on unchanged and in order: kalign() (array API) and
    # kalign_read_input + kalign_run (file API), observed through the PARAMS hook, with three pairwise different overrides
    import tempfile as _tf
    kvh_run = ck.harness('omp', 'kvh')
    dseqs = ['ACGTTGCAACGTAC', 'ACGTGCAACGGTAC', 'ACTTGCAACGTC']; pseqs = ['MKWLEFAHRT', 'MKWLDFAHKT', 'MKWEFAHRTW']
    atmp = _tf.mkdtemp(prefix='kv_c09api_')
    try:
        alines, ameta = [], []
        for bt, sq in ((1, dseqs), (0, pseqs)):
            fa = os.path.join(atmp, 'in%d.fa' % bt); open(fa, 'w').write(gen.fasta(['a', 'b', 'c'], sq))
            for ty in ((0, 1, 2, 5) if bt == 1 else (3, 4, 5)):
                for mask in range(8):
                    vals = [fbits(v) if mask & (1 << i) else gen.NG for i, v in enumerate((3.5, 1.25, 0.75))]
                    alines.append('run 4 1 %d %d %d %d %s' % (ty, vals[0], vals[1], vals[2], ' '.join(gen.hexs(x) for x in sq)))
                    ameta.append(('kalign()', bt, ty, vals))
                    alines.append('runfile 4 1 %d %d %d %d fasta %s %s' % (ty, vals[0], vals[1], vals[2], os.path.join(atmp, 'o.fa'), fa))
                    ameta.append(('kalign_run', bt, ty, vals))
        ares = ck.run_lines(kvh_run, alines, timeout=600)
        ck.evaluations += len(alines)
        for (api, bt, ty, vals), ln, r in zip(ameta, alines, ares):
            d = defaults.get((bt, ty if ty != 5 else (0 if bt == 1 else 3)))
            dd = defaults.get((bt, ty)) or d
            if dd is None: continue
            exp = [vals[i] if ge0(vals[i]) else int(dd[1 + i]) for i in range(3)]
            mo = re.search(r'PARAMS type=(-?\d+) biotype=(\d+) gpo=(\d+) gpe=(\d+) tgpe=(\d+)', r)
            got = [int(mo.group(3)), int(mo.group(4)), int(mo.group(5))] if mo else None
            if got != exp:
                witnesses.append({'kind': 'library-entry-point', 'entry_point': api, 'case': ln[:200], 'expected_gpo_gpe_tgpe_bits': exp, 'observed': r[-160:],
                                  'replay': '%s with type %d and penalties (bit patterns) %r' % (api, ty, vals)})
            elif any(ge0(v) for v in vals):
                ck.nontriv(('api', api, bt, ty, tuple(vals)))
        ck.count('library entry point cases (kalign(), kalign_run)', len(alines))
    finally:
        shutil.rmtree(atmp, ignore_errors=True)
    # (c) CLI end to end
    tmp = tempfile.mkdtemp(prefix='kv_c09_')
    try:
        open(os.path.join(tmp, 'dna.fa'), 'w').write(DNA_FA)
        open(os.path.join(tmp, 'prot.fa'), 'w').write(PROT_FA)
        cli_cases = 0
        for kind, fa, bt in (('dna', 'dna.fa', 1), ('protein', 'prot.fa', 0)):
            outs = {}
            for word in [None] + list(WORDS):
                for mask in range(8):
                    opts = {}
                    if mask & 1: opts['gpo'] = rng.choice(['0', '3.5', '11', '55', '217'])
                    if mask & 2: opts['gpe'] = rng.choice(['0', '1.5', '6', '39.4', '2'])
                    if mask & 4: opts['tgpe'] = rng.choice(['0', '0.5', '8', '292.6', '4'])
                    tr = os.path.join(tmp, 'trace')
                    if os.path.exists(tr): os.remove(tr)
                    outp = os.path.join(tmp, 'out.fa')
                    if os.path.exists(outp): os.remove(outp)
                    cmd = [kvcli, '-i', os.path.join(tmp, fa), '-o', outp, '-f', 'fasta', '-n', '2']
                    if word: cmd += ['--type', word]
                    for o, v in opts.items(): cmd += ['--' + o, v]
                    env = dict(os.environ, KV_TRACE=tr)
                    p = subprocess.run(cmd, stdin=subprocess.DEVNULL, stdout=subprocess.PIPE, stderr=subprocess.PIPE, env=env, timeout=120)
                    cli_cases += 1
                    ty = WORDS[word] if word else 5
                    trace = open(tr).read().strip() if os.path.exists(tr) else ''
                    # expectation from the documented table + the override rule
                    want = doc[(0 if bt == 0 else 6) + ty]
                    if want == 'FAIL':
                        good = p.returncode != 0 and not os.path.exists(outp)
                        exp = 'rejected (non-zero exit, no output)'
                        ck.nontriv(('cli-mismatch', kind, word))
                    else:
                        w = want.split()
                        import struct as _s
                        def fb(s): return fbits(float(s))
                        eg = fb(opts['gpo']) if 'gpo' in opts else int(w[1])
                        ee = fb(opts['gpe']) if 'gpe' in opts else int(w[2])
                        et = fb(opts['tgpe']) if 'tgpe' in opts else int(w[3])
                        exp = 'PARAMS type=%d biotype=%d gpo=%d gpe=%d tgpe=%d subm=%s' % (ty, bt, eg, ee, et, w[4])
                        good = p.returncode == 0 and trace == exp and os.path.exists(outp)
                        if mask: ck.nontriv(('cli', kind, word, mask))
                    if not good:
                        witnesses.append({'kind': 'cli', 'argv': cmd[1:], 'input': fa, 'exit': p.returncode, 'expected': exp[:300], 'observed': trace[:300]})
                    elif want != 'FAIL' and mask == 0:
                        outs[ty] = open(outp).read()
            # explicit defaults == defaults (end to end, bytes of the alignment)
            for word in WORDS:
                ty = WORDS[word]
                want = doc[(0 if bt == 0 else 6) + ty]
                if want == 'FAIL' or ty not in outs: continue
                w = want.split()
                vals_ = [struct.unpack('<f', struct.pack('<I', int(x)))[0] for x in w[1:4]]
                outp = os.path.join(tmp, 'out2.fa')
                cmd = [kvcli, '-i', os.path.join(tmp, fa), '-o', outp, '-f', 'fasta', '--type', word,
                       '--gpo', repr(vals_[0]), '--gpe', repr(vals_[1]), '--tgpe', repr(vals_[2])]
                p = subprocess.run(cmd, stdin=subprocess.DEVNULL, stdout=subprocess.PIPE, stderr=subprocess.PIPE, timeout=120)
                cli_cases += 1
                got = open(outp).read() if os.path.exists(outp) else None
                if got != outs[ty]:
                    witnesses.append({'kind': 'explicit-default-changes-alignment', 'argv': cmd[1:], 'input': fa})
        ck.count('cli runs', cli_cases)
        ck.evaluations += cli_cases
    finally:
        shutil.rmtree(tmp, ignore_errors=True)
    ck.sample({'case': lines[len(lines) // 2], 'implementation': impl[len(lines) // 2], 'model': mod[len(lines) // 2]})
    ck.sample({'case': wl[9], 'implementation': a[9], 'model': b[9]})
    ck.sample({'case': full[12], 'implementation': impl_full[12][:120] + '...', 'documented': doc[6][:120] + '...'})
    # ---- verdict ---------------------------------------------------------------------------
    seen = {}
    for w in witnesses:
        seen[w['kind']] = seen.get(w['kind'], 0) + 1
        if seen[w['kind']] <= 2:
            ck.violation('witness', w)
    if not witnesses:
        if not ok:
            ck.violation('proof', {'what_no_longer_checks': ck.proof['failed'], 'note': 'no failing input found by the witness search'}, nofail=True)
        elif corr_broken:
            ln, x, y = corr_broken[0]
            ck.violation('correspondence', {'what_no_longer_checks': 'correspondence of Model Params with aln_param.c / run_kalign.c',
                                            'first_disagreement': {'case': ln, 'implementation': x, 'model': y},
                                            'disagreements': len(corr_broken)}, nofail=True)

def replay(ck, obj):
    print(json.dumps(obj, indent=1))
    print('Replay: run the shown call / argv against a build of /repo (tools/build_harness.sh omp kvcli).')
    return 0
