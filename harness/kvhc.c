/* kvh with an allocation ledger (C16): malloc/calloc/realloc/free/posix_memalign/aligned_alloc/memalign are
   interposed in this executable and forwarded to glibc's __libc_* entry points; kv_live_blocks counts blocks
   handed out and not yet returned.  Linked against the library variant WITHOUT OpenMP, so that no runtime
   thread pool allocates behind the library's back. */
#define KV_COUNT_ALLOC 1
#include <stddef.h>
#include <errno.h>
long kv_live_blocks = 0;
extern void* __libc_malloc(size_t);
extern void* __libc_calloc(size_t, size_t);
extern void* __libc_realloc(void*, size_t);
extern void  __libc_free(void*);
extern void* __libc_memalign(size_t, size_t);
void* malloc(size_t n){ void* p = __libc_malloc(n); if(p){ __atomic_add_fetch(&kv_live_blocks, 1, __ATOMIC_RELAXED); } return p; }
void* calloc(size_t a, size_t b){ void* p = __libc_calloc(a, b); if(p){ __atomic_add_fetch(&kv_live_blocks, 1, __ATOMIC_RELAXED); } return p; }
void* realloc(void* q, size_t n)
{
        void* p = __libc_realloc(q, n);
        if(!q && p){ __atomic_add_fetch(&kv_live_blocks, 1, __ATOMIC_RELAXED); }
        else if(q && n == 0 && !p){ __atomic_sub_fetch(&kv_live_blocks, 1, __ATOMIC_RELAXED); }
        return p;
}
void free(void* p){ if(p){ __atomic_sub_fetch(&kv_live_blocks, 1, __ATOMIC_RELAXED); } __libc_free(p); }
void* memalign(size_t al, size_t n){ void* p = __libc_memalign(al, n); if(p){ __atomic_add_fetch(&kv_live_blocks, 1, __ATOMIC_RELAXED); } return p; }
void* aligned_alloc(size_t al, size_t n){ return memalign(al, n); }
int posix_memalign(void** out, size_t al, size_t n)
{
        void* p = __libc_memalign(al, n);
        if(!p){ return ENOMEM; }
        __atomic_add_fetch(&kv_live_blocks, 1, __ATOMIC_RELAXED);
        *out = p;
        return 0;
}
#include "kvh.c"
