"""C04 - the result depends only on names and residues, not on how they are presented."""
import json, os, tempfile, shutil
import gen
from props import fmtcommon as fc
from props.runner import FileRunner

def gapify(rng, seqs, density):
    """embed the sequences in a common-width alignment with the given gap density"""
    w = max(len(s) for s in seqs)
    w = max(w + 1, int(w / max(0.05, 1.0 - density)))
    rows = []
    for s in seqs:
        cuts = sorted(rng.below(w - len(s) + 1) for _ in s)
        row, prev = [], 0
        for ch, c in zip(s, cuts):
            row.append('-' * (c - prev)); row.append(ch); prev = c
        row.append('-' * (w - len(s) - prev))
        rows.append(''.join(row))
    return rows

def render_clu(names, rows, width, blank_extra):
    mx = max(len(n) for n in names)
    out = ['CLUSTAL W (1.83) multiple sequence alignment', '']
    for b in range(0, len(rows[0]), width):
        for n, r in zip(names, rows):
            out.append(n + ' ' * (mx + 3 - len(n)) + r[b:b + width])
        out.append(''); out += [''] * blank_extra
    return '\n'.join(out) + '\n'

def render_clu_grouped(names, rows, width, counts):
    """Clustal body as some writers lay it out: the columns of a block in groups of ten separated by blanks, optionally followed
    by the running residue count (the reader ignores blanks and digits inside the residue part: C04_clustal_any_layout)"""
    mx = max(len(n) for n in names)
    out = ['CLUSTAL W (1.83) multiple sequence alignment', '', '']
    done = [0] * len(rows)
    for b in range(0, len(rows[0]), width):
        for k, (n, r) in enumerate(zip(names, rows)):
            seg = r[b:b + width]
            done[k] += sum(1 for ch in seg if ch.isalpha())
            out.append(n + ' ' * (mx + 6 - len(n)) + ' '.join(seg[i:i + 10] for i in range(0, len(seg), 10)) + ((' %d' % done[k]) if counts else ''))
        out.append(' ' * (mx + 6) + ' '.join(('*' * 10,) * (min(width, len(rows[0]) - b) // 10)))
        out.append('')
    return '\n'.join(out) + '\n'

def render_msf(names, rows, width, protein):
    mx = max(len(n) for n in names)
    out = ['!!%s_MULTIPLE_ALIGNMENT 1.0' % ('AA' if protein else 'NA'), '', ' x.msf  MSF: %d  Type: %s  January 01, 2000 00:00  Check: 0  ..' % (len(rows[0]), 'P' if protein else 'N'), '']
    for n in names:
        out.append(' Name: %s  Len: %5d  Check: %4d  Weight: 1.00' % (n.ljust(mx), len(rows[0]), 0))
    out += ['', '//', '']
    for b in range(0, len(rows[0]), width):
        for n, r in zip(names, rows):
            seg = r[b:b + width]
            seg = ' '.join(seg[i:i + 10] for i in range(0, len(seg), 10))     # GCG style: blanks every 10 columns
            out.append(n + ' ' * (mx + 2 - len(n)) + seg.replace('-', '.'))
        out.append('')
    return '\n'.join(out) + '\n'

def run(ck):
    ck.build(('omp',))
    ck.translate()
    ok = ck.prove()
    kvh = ck.harness('omp', 'kvh')
    model = ck.model()
    rng = ck.rng
    ck.rule = ('each record set presented as plain FASTA (reference), FASTA with other line widths/blank lines/CRLF/trailing blanks, aligned FASTA with gap density up to 95%, '
               'Clustal and MSF renderings with several block widths, and split over 2..4 input files; correspondence: kalign_read_input (names, residues, gap vectors, kind, status), '
               'model vs implementation, on all presentations plus a malformed stream; witness: residues/names/kind equal across presentations and the written alignment identical. '
               'Non-trivial = presentation differs from the reference file; distinct by record set x presentation')
    tmp = tempfile.mkdtemp(prefix='kv_c04_')
    wit, dis = [], []
    malbytes = {}
    fr = FileRunner(ck)
    try:
        N = 40 if ck.tier == 'quick' else 400
        groups = []
        rlines = []
        for k in range(N):
            kind = 'dna' if rng.chance(1, 2) else 'protein'
            fam, seqs = gen.family(rng, kind, small=True)
            seqs = [s for s in seqs if s]
            if len(seqs) < 2: continue
            names = fc.gen_names(rng, len(seqs))
            pres = []
            ref = gen.fasta(names, seqs)
            pres.append(('fasta-ref', [ref]))
            pres.append(('fasta-width%d' % 7, [gen.fasta(names, seqs, 7)]))
            pres.append(('fasta-crlf-blank', [ref.replace('\n', '\r\n').replace('>', '\r\n>')[2:] + '\r\n\r\n']))
            pres.append(('fasta-trailing-blank-digits', ['\n'.join((l + '  ' if not l.startswith('>') else l) for l in gen.fasta(names, [''.join(c + ('1' if i % 9 == 8 else '') for i, c in enumerate(s)) for s in seqs]).split('\n'))]))
            pres.append(('fasta-no-final-newline', [ref.rstrip('\n')]))
            for dens in (0.3, 0.95):
                rows = gapify(rng, seqs, dens)
                pres.append(('afa-%d%%' % int(dens * 100), [gen.fasta(names, rows, rng.choice([60, 11, 200]))]))
            rows = gapify(rng, seqs, 0.5)
            pres.append(('clustal-60', [render_clu(names, rows, 60, 0)]))
            pres.append(('clustal-23', [render_clu(names, rows, 23, 2)]))
            pres.append(('clustal-grouped-by-10', [render_clu_grouped(names, rows, 60, False)]))
            pres.append(('clustal-grouped-with-counts', [render_clu_grouped(names, rows, 50, True)]))
            pres.append(('msf-50', [render_msf(names, rows, 50, kind == 'protein')]))
            if len(seqs) >= 4:
                cut = rng.range(2, len(seqs) - 2) if len(seqs) > 4 else 2
                pres.append(('split-2', [gen.fasta(names[:cut], seqs[:cut]), gen.fasta(names[cut:], seqs[cut:])]))
                pres.append(('split-2-first-without-final-newline', [gen.fasta(names[:cut], seqs[:cut]).rstrip('\n'), gen.fasta(names[cut:], seqs[cut:])]))
                pres.append(('split-with-empty-file', [gen.fasta(names[:cut], seqs[:cut]), '', gen.fasta(names[cut:], seqs[cut:])]))
            if k % 8 == 5:
                # boundary presentations aimed at the constants of the readers: the 50-sequence sample once used by
                # detect_aligned, the 512-slot sequence array and 512-byte sequence buffers (resize), 4 KiB lines
                alpha = gen.DNA if kind == 'dna' else gen.PROT
                tail = 'WKW' if kind == 'protein' else ''
                sub = (k // 8) % 4
                if sub == 0:
                    n = rng.choice([51, 52, 60, 80])
                    root = gen.rand_seq(rng, alpha, rng.range(10, 20))
                    seqs = [gen.mutate(rng, root, alpha, 10, 8) + tail for _ in range(n)]
                    names = ['b%d' % i for i in range(n)]
                    late = gapify(rng, seqs[50:], 0.3)
                    pres = [('fasta-ref', [gen.fasta(names, seqs)]),
                            ('late-gaps-after-50', [gen.fasta(names, seqs[:50] + late)]),
                            ('late-gaps-second-file', [gen.fasta(names[:50], seqs[:50]), gen.fasta(names[50:], late)]),
                            ('late-stop-marker', [gen.fasta(names, seqs[:-1] + [seqs[-1] + '*'])])]
                elif sub == 1:
                    n = [530, 514, 1030, 512, 511][(k // 32) % 5]
                    seqs = [gen.rand_seq(rng, alpha, rng.range(3, 6)) + tail for _ in range(n)]
                    names = ['m%d' % i for i in range(n)]
                    rows = gapify(rng, seqs, 0.3)
                    pres = [('fasta-ref', [gen.fasta(names, seqs)]), ('many-clustal', [render_clu(names, rows, 60, 0)]),
                            ('many-msf', [render_msf(names, rows, 50, kind == 'protein')]), ('many-afa', [gen.fasta(names, rows)])]
                    if n >= 513:   # several inputs, the first filling the 512-slot sequence array exactly (merge_msa appends into it)
                        pres.append(('split-first-exactly-512', [gen.fasta(names[:512], seqs[:512]), gen.fasta(names[512:], seqs[512:])]))
                        pres.append(('split-three-512-1-rest', [gen.fasta(names[:512], seqs[:512]), gen.fasta(names[512:513], seqs[512:513]), gen.fasta(names[513:], seqs[513:])] if n > 514 else
                                     [gen.fasta(names[:512], seqs[:512]), gen.fasta(names[512:], seqs[512:])]))
                elif sub == 2:
                    Ls = [rng.choice([511, 512, 513, 1023, 1024, 1025]) for _ in range(3)]
                    seqs = [gen.rand_seq(rng, alpha, L) + tail for L in Ls]
                    names = ['len%d' % i for i in range(3)]
                    rows = gapify(rng, seqs, 0.2)
                    pres = [('fasta-ref', [gen.fasta(names, seqs)]), ('long-clustal', [render_clu(names, rows, 60, 0)]),
                            ('long-msf', [render_msf(names, rows, 50, kind == 'protein')]), ('long-oneline', [gen.fasta(names, seqs, 100000)])]
                else:
                    n = 4
                    root = gen.rand_seq(rng, alpha, rng.choice([4090, 4200, 5000]))
                    seqs = [gen.mutate(rng, root, alpha, 3, 1) + tail for _ in range(n)]
                    names = ['w%d' % i for i in range(n)]
                    rows = gapify(rng, seqs, 0.1)
                    W = len(rows[0])
                    pres = [('fasta-ref', [gen.fasta(names, seqs)]), ('wide-clustal-unwrapped', [render_clu(names, rows, W, 0)]),
                            ('wide-msf-unwrapped', [render_msf(names, rows, W, kind == 'protein')]),
                            ('wide-afa-unwrapped', [gen.fasta(names, rows, W)]), ('wide-fasta-4095', [gen.fasta(names, seqs, 4095)])]
            if k == 0:
                # corpus: the recorded finding C04-split-files-detected-differently (known_findings.json), so that it is reported as
                # KNOWN-FINDING on every run and any OTHER dependence on the split is still a violation
                names = ['A', 'B', 'C', 'D']; kind = 'dna'
                seqs = ['AAAGTADTATAAGCGGCTTDCATGAACAGGGGTG', 'VHAGAAGVTAATASMHCAGCTGCTTGAACGGGAG', 'AAAGTTATAAGCTGGTTGAACAGTG', 'AAAGTASGAAGCTGCATCGAACAGGG']
                pres = [('fasta-ref', [gen.fasta(names, seqs)]), ('split-2', [gen.fasta(names[:2], seqs[:2]), gen.fasta(names[2:], seqs[2:])])]
            ty = rng.choice([0, 1, 2, 5] if kind == 'dna' else [3, 4, 5])
            if k == 0: ty = 5
            ids = []
            for pname, texts in pres:
                paths = []
                for j, t in enumerate(texts):
                    p = os.path.join(tmp, 'g%d_%s_%d' % (k, pname.replace('%', ''), j))
                    open(p, 'wb').write(t.encode('latin-1')); paths.append(p)
                rlines.append('readfiles ' + ' '.join(paths))
                ids.append((pname, len(rlines) - 1, fr.add(texts, 'fasta', 1, ty), texts))
                ck.count('presentation:' + pname.split('-')[0])
            groups.append((names, seqs, kind, ids))
        # malformed stream for the reader correspondence
        mal = []
        malbytes = {}
        base = gen.fasta(['a', 'b', 'c'], ['ACGTACGT', 'ACGTTCGT', 'AGGTACG'])
        for k in range(60 if ck.tier == 'quick' else 800):
            b = bytearray((rng.choice([base, render_clu(['a', 'b'], ['AC-GT', 'ACGGT'], 60, 0), render_msf(['a', 'b'], ['AC-GT', 'ACGGT'], 50, False)])).encode())
            for _ in range(rng.range(1, 6)):
                op = rng.below(4); pos = rng.below(len(b))
                if op == 0: b[pos] = rng.choice([0, 9, 10, 13, 32, 45, 62, 58, 47, 200, 255, 65, 97])
                elif op == 1: del b[pos]
                elif op == 2: b.insert(pos, rng.choice([10, 32, 62, 45, 78]))
                else: b = b[:pos]
                if not b: b = bytearray(b'>')
            p = os.path.join(tmp, 'mal%d' % k); open(p, 'wb').write(bytes(b)); mal.append('readfiles ' + p); malbytes[p] = bytes(b)
        d1, ri, rm = ck.correspond('Formats readers vs msa_io.c (presentations)', rlines, kvh)
        d2, _, _ = ck.correspond('Formats readers vs msa_io.c (malformed stream)', mal, kvh)
        dis = d1 + d2
        res = fr.run()
        for names, seqs, kind, ids in groups:
            ref_read = ri[ids[0][1]]
            ref_out = res[ids[0][2]]['text']
            def recs_of(line):
                if not line.startswith('OK'): return None
                f = dict(t.split('=', 1) for t in line.split() if '=' in t)
                return (f['biotype'], [tuple(r.split(':')[:2]) for r in f['recs'].split(';')])
            for pname, ridx, jidx, texts in ids[1:]:
                if recs_of(ri[ridx]) != recs_of(ref_read):
                    w = {'kind': 'read-differs-across-presentations', 'presentation': pname, 'names': names, 'seqs': seqs, 'reference_read': ref_read[:400], 'read': ri[ridx][:400]}
                    if pname.startswith('split') and ri[ridx].startswith('ERR') and ref_read.startswith('OK'):
                        # known finding: kalign decides DNA/protein per input file and refuses to combine files it classified differently
                        parts = [gen.parse_fasta(t)[1] for t in texts if t.strip()]
                        dl = ck.run_lines(model, ['detect ' + ' '.join(gen.hexs(x) for x in part if x) for part in parts if any(part)])
                        kinds = set(dict(t.split('=', 1) for t in r.split() if '=' in t).get('biotype') for r in dl)
                        if '0' in kinds and '1' in kinds:
                            w['signature_hint'] = 'split-files-detected-differently'
                            w['per_file_detection'] = dl
                    wit.append(w)
                elif res[jidx]['text'] != ref_out:
                    wit.append({'kind': 'alignment-differs-across-presentations', 'presentation': pname, 'names': names, 'seqs': seqs,
                                'reference_output': (ref_out or '')[:600], 'output': (res[jidx]['text'] or res[jidx]['status'])[:600]})
                else:
                    ck.nontriv({'n': names[:2], 's': seqs[:2], 'p': pname})
        if rlines:
            g1 = groups[1] if len(groups) > 1 else groups[0]; i1 = min(4, len(g1[3]) - 1); ck.sample({'presentation': g1[3][i1][0], 'implementation_read': ri[g1[3][i1][1]][:300], 'model_read': rm[g1[3][i1][1]][:300]})
    finally:
        fr.close(); shutil.rmtree(tmp, ignore_errors=True)
    seen = {}
    for w in wit:
        key = (w['kind'], w['presentation'].split('-')[0])
        seen[key] = seen.get(key, 0) + 1
        if seen[key] <= 1 or w.get('signature_hint'):
            ck.violation('witness', w, signature=w.get('signature_hint'))
    if not [w for w in wit if not w.get('signature_hint')]:
        if not ok:
            ck.violation('proof', {'what_no_longer_checks': ck.proof['failed']}, nofail=True)
        elif dis:
            ln, x, y = dis[0]
            fb = malbytes.get(ln.split(' ', 1)[1]) if ' ' in ln else None
            ck.violation('correspondence', {'what_no_longer_checks': 'correspondence of Formats readers with msa_io.c', 'first_disagreement': {'case': ln, 'implementation': x[:600], 'model': y[:600], 'file_bytes_hex': fb.hex() if fb else None}, 'disagreements': len(dis)}, nofail=True)

def replay(ck, obj):
    print(json.dumps(obj, indent=1)[:5000])
    return 0
