"""C13 - nucleotide and protein inputs are recognised from their residue letters."""
import json
import gen

NUC = 'ACGTUNacgtun'
PO = 'DEFHIKLMPQRSVWYdefhiklmpqrsvwy'
OTHER = 'BJOXZbjoxz'
ALL = 'ABCDEFGHIKLMNPQRSTVWYacdefghiklmnpqrstvwyUuBZXJO'

def split_seqs(rng, s):
    k = rng.range(2, 5)
    cuts = sorted(rng.below(len(s) + 1) for _ in range(k - 1))
    parts = [s[a:b] for a, b in zip([0] + cuts, cuts + [len(s)])]
    parts = [p for p in parts if p]
    while len(parts) < 2:
        parts.append(parts[0])
    return parts

def run(ck):
    ck.build(('omp',))
    ck.translate()
    ok = ck.prove()
    kvh = ck.harness('omp', 'kvh')
    rng = ck.rng
    ck.rule = ('correspondence: detect_alphabet sums (bit patterns) and decision, model vs implementation, on random and adversarial compositions '
               '(near the decision boundary, single letters, U-rich, non-letters, bytes >= 0x80); witness search: compositions meeting premise 1 must be '
               'nucleotide, compositions meeting premise 2 must be protein, decision invariant under shuffling the sequences; float decision vs exact '
               'decision monitored. Non-trivial = composition with at least two letter classes')
    cases = []
    N = 600 if ck.tier == 'quick' else 8000
    for k in range(N):
        mode = k % 6
        L = rng.choice([1, 2, 3, 8, 20, 60, 200])
        if mode == 0:      # premise 1
            s = gen.rand_seq(rng, NUC, L + 1); prem = 'p1'
        elif mode == 1:    # premise 2, no U
            npo = rng.range(1, L + 1)
            rest = gen.rand_seq(rng, 'ACGTNacgtnBXZJO' if rng.chance(1, 2) else 'ACGTN', rng.range(0, 3 * npo))
            s = list(gen.rand_seq(rng, PO, npo) + rest); rng.shuffle(s); s = ''.join(s); prem = 'p2'
        elif mode == 2:    # premise 2 with U (the recorded finding lives here)
            npo = rng.range(1, L + 1)
            rest = gen.rand_seq(rng, 'UuACGT', rng.range(0, 3 * npo))
            s = list(gen.rand_seq(rng, PO, npo) + rest); rng.shuffle(s); s = ''.join(s); prem = 'p2u'
        elif mode == 3:    # near the boundary: ~8.5 nucleotide letters per protein-only letter
            npo = rng.range(1, 6)
            s = list(gen.rand_seq(rng, PO, npo) + gen.rand_seq(rng, 'ACGTN', npo * 8 + rng.range(0, npo * 2)))
            rng.shuffle(s); s = ''.join(s); prem = 'none'
        elif mode == 4:    # anything, including non-letters and high bytes
            s = ''.join(chr(rng.choice([rng.range(1, 255), ord(rng.choice(ALL))])) for _ in range(L + 1)).replace('\x00', 'A'); prem = 'none'
        else:
            s = gen.rand_seq(rng, ALL, L + 1); prem = 'none'
        seqs = split_seqs(rng, s)
        cases.append((prem, seqs))
        ck.count('premise:' + prem)
    for kf in ck.known.get('findings', []):
        if kf.get('property') == 'C13' and kf.get('witness'):
            cases.append(('p2u', list(kf['witness'])))
    lines = ['detect ' + ' '.join(gen.hexs(x) for x in seqs) for _, seqs in cases]
    dis, impl, mod = ck.correspond('Detect.detect_alphabet (binary64 sums, decision) vs msa_op.c detect_alphabet', lines, kvh, canon=lambda x: ' '.join(x.split()[:3]))
    # order independence on the implementation: shuffled sequences
    shuf = []
    for prem, seqs in cases:
        s2 = list(seqs); rng.shuffle(s2)
        shuf.append('detect ' + ' '.join(gen.hexs(x) for x in s2))
    impl2 = ck.run_lines(kvh, shuf)
    ck.evaluations += len(shuf)
    wit, monitor_bad = [], []
    for (prem, seqs), ln, r, r2, m in zip(cases, lines, impl, impl2, mod):
        bt = r.split()[0]
        f = dict(t.split('=') for t in m.split() if '=' in t)
        classes = sum(1 for x in (f.get('po'), f.get('u'), f.get('nuc')) if x and x != '0')
        if classes >= 2:
            ck.nontriv(ln)
        if r2.split()[0] != bt:
            wit.append({'kind': 'order-dependent-decision', 'seqs': seqs, 'impl': r, 'impl_shuffled': r2})
        # float decision vs exact decision (monitored premise of the exact theorems)
        exact_bt = {'pos': 'biotype=1', 'neg': 'biotype=0', 'zero': 'biotype=undecided'}.get(f.get('exact'))
        if f.get('total', '0') != '0' and exact_bt != bt:
            monitor_bad.append((ln, r, m))
        if prem == 'p1' and bt != 'biotype=1':
            wit.append({'kind': 'premise1-not-nucleotide', 'seqs': seqs, 'impl': r})
        if prem in ('p2', 'p2u'):
            tot, po, u = int(f['total']), int(f['po']), int(f['u'])
            if tot <= 4 * po and bt != 'biotype=0':
                w = {'kind': 'premise2-not-protein', 'seqs': seqs, 'impl': r, 'counts': m}
                ck.violation('witness', w, signature='U-rich' if u > 0 else None)
    # large data sets, at the level of the letter histogram (counts are C ints; spelling out millions of residues is not needed to
    # exercise the sums): nucleotide-only histograms and protein histograms with counts from 10^6 up to the int range
    hl, hmeta = [], []
    NUCL = 'ACGTUNacgtun'; POL = 'DEFHIKLMPQRSVWYdefhiklmpqrsvwy'
    for k in range(40 if ck.tier == 'quick' else 600):
        big = rng.choice([1000001, 2147484, 2200000, 4300000, 21474837, 300000000, 2147483647])
        if k % 2 == 0:      # premise 1
            letters = [ch for ch in NUCL if rng.chance(2, 3)] or ['A']
            if k % 4 == 0: letters = [x for x in letters if x not in 'Uu'] or ['A']
            cnt = {ch: rng.range(1, big) if rng.chance(1, 2) else rng.range(1, 5000) for ch in letters}
            cnt[rng.choice(letters)] = big if k % 3 else rng.range(big // 2, big)
            prem = 'p1'
        else:               # premise 2 without U: at least a quarter protein-only letters
            po = {ch: rng.range(1, big // 8 + 2) for ch in POL if rng.chance(1, 2)} or {'W': big // 8 + 1}
            npo = sum(po.values())
            oth = {}
            budget = 3 * npo
            for ch in 'ACGTNacgtnBZXbzx':
                if budget > 0 and rng.chance(1, 2):
                    v = rng.range(0, min(budget, 2147483647)); oth[ch] = v; budget -= v
            cnt = dict(po); cnt.update(oth); prem = 'p2'
        cnt = {ch: min(v, 2147483647) for ch, v in cnt.items() if v > 0}
        hl.append('detecth ' + ' '.join('%d:%d' % (ord(ch), v) for ch, v in sorted(cnt.items())))
        hmeta.append((prem, cnt))
        ck.count('histogram-level case (counts up to %s): %s' % ('10^7' if max(cnt.values()) < 10**7 else 'the int range', prem))
    hdis, himpl, hmod = ck.correspond('Detect.detect_alphabet vs msa_op.c detect_alphabet on histograms with large counts', hl, kvh, canon=lambda x: ' '.join(x.split()[:3]))
    dis = list(dis) + list(hdis)
    for (prem, cnt), ln, r, m in zip(hmeta, hl, himpl, hmod):
        bt = r.split()[0]
        if prem == 'p1' and bt != 'biotype=1':
            wit.append({'kind': 'premise1-not-nucleotide', 'letter_counts': cnt, 'impl': r})
        if prem == 'p2' and bt != 'biotype=0':
            wit.append({'kind': 'premise2-not-protein', 'letter_counts': cnt, 'impl': r})
    # the same premises through the readers: residues embedded in gap characters / padding (aligned FASTA, Clustal-like padding)
    from props.runner import FileRunner
    from props.c04 import render_clu, render_msf
    fr = FileRunner(ck)
    try:
        fmeta = []
        for prem, seqs in cases[: (240 if ck.tier == 'quick' else 3000)]:
            if prem not in ('p1', 'p2'):
                continue
            width = max(len(x) for x in seqs) * rng.choice([1, 2, 6, 20])
            rows = []
            for x in seqs:
                pos = sorted(rng.below(width + 1) for _ in x)
                row = []
                prev = 0
                for ch, q in zip(x, pos):
                    row.append(rng.choice('-.') * (q - prev)); row.append(ch); prev = q
                row.append('-' * (width - prev))
                rows.append(''.join(row))
            # names must not count: nucleotide sets get long names made of protein-only letters, protein sets names made of U/ACGT
            nm = [('%s%d' % (gen.rand_seq(rng, 'WFYLIKEDQRSHVMP' if prem == 'p1' else 'UUUUACGTN', rng.choice([3, 40, 120])), i)) for i in range(len(rows))]
            fmtk = rng.choice(['afa', 'afa-named', 'clustal', 'msf'])
            if fmtk == 'afa':
                txt = ''.join('>s%d\n%s\n' % (i, r) for i, r in enumerate(rows))
            elif fmtk == 'afa-named':
                if rng.chance(1, 3):     # header lines far beyond any line buffer (merged database deflines): still names, never residues
                    nm = [n + ' ' + gen.rand_seq(rng, 'WFYLIKEDQRSHVMP ' if prem == 'p1' else 'UUUUACGTN ', rng.choice([4090, 4200, 6000, 9000])) for n in nm]
                    ck.count('reader-format: FASTA header lines of 4 to 9 KiB')
                txt = ''.join('>%s\n%s\n' % (n, r) for n, r in zip(nm, rows))
            elif fmtk == 'clustal':
                txt = render_clu(nm, [r.replace('.', '-') for r in rows], 60, 0)
            else:
                txt = render_msf(nm, [r.replace('.', '-') for r in rows], 50, prem != 'p1')
            fr.add([txt], 'fasta', 1, 5)
            fmeta.append((prem, seqs, txt))
            ck.count('reader-format:' + fmtk)
        # the decisive letters sit in ONE record - the last, the first, or a middle one: every record must be counted
        for k in range(6 if ck.tier == 'quick' else 40):
            tags = [gen.rand_seq(rng, 'ACGT', rng.range(5, 9)) for _ in range(rng.range(3, 7))]
            big = gen.rand_seq(rng, 'WFYLIKEDQRSHVMP', sum(len(t) for t in tags) + rng.range(10, 60))
            pos = [len(tags), 0, len(tags) // 2][k % 3]
            recs = tags[:pos] + [big] + tags[pos:]
            txt = ''.join('>r%d\n%s\n' % (i, r) for i, r in enumerate(recs))
            fr.add([txt], 'fasta', 1, 5)
            fmeta.append(('p2', recs, txt))
            ck.count('reader-format:fasta, decisive record %s' % ['last', 'first', 'middle'][k % 3])
        for (prem, seqs, txt), r in zip(fmeta, fr.run()):
            st = r['status']
            want = 'biotype=1' if prem == 'p1' else 'biotype=0'
            if st.startswith('OK') and want not in st:
                wit.append({'kind': 'gapped-input-misclassified', 'premise': prem, 'file': txt[:2000], 'implementation': st[:200]})
            ck.count('gapped presentations')
    finally:
        fr.close()
    ck.sample({'case': lines[0], 'implementation': impl[0], 'model': mod[0]})
    ck.sample({'case': lines[2], 'implementation': impl[2], 'model': mod[2]})
    for w in wit[:3]:
        ck.violation('witness', w)
    if not wit and not ck.violations:
        if not ok:
            ck.violation('proof', {'what_no_longer_checks': ck.proof['failed']}, nofail=True)
        elif dis:
            ln, x, y = dis[0]
            ck.violation('correspondence', {'what_no_longer_checks': 'correspondence of Detect.detect_alphabet with msa_op.c', 'first_disagreement': {'case': ln, 'implementation': x, 'model': y}, 'disagreements': len(dis)}, nofail=True)
        elif monitor_bad:
            ln, r, m = monitor_bad[0]
            ck.violation('premise', {'what_no_longer_checks': 'monitored premise: the binary64 decision equals the exact decision', 'case': ln, 'implementation': r, 'model': m}, nofail=True)

def replay(ck, obj):
    print(json.dumps(obj, indent=1)[:4000])
    return 0
