"""Shared machinery of the kalign verification checks (see DESIGN.md section 2).

One check run = rebuild the code from /repo's working tree, regenerate the translated Coq files,
re-check the theorems of Properties_<id>.v, run the correspondence (extracted model vs. the
implementation on the same cases) and the implementation-side witness search, write the
evidence file and report."""
import fcntl, hashlib, json, os, re, subprocess, sys, time, tempfile, shutil

VERIF = os.path.dirname(os.path.dirname(os.path.abspath(__file__)))
# developer runs against a scratch tree (tools/seed_eval.sh, tools/try_mutation.sh) work on a private copy of coq/ and ocaml/
# (KV_WORK=<dir holding both>), so that the tables they regenerate from a CHANGED tree never meet a check of /repo itself
COQ = os.path.join(os.environ.get('KV_WORK') or VERIF, 'coq')
OCAML = os.path.join(os.environ.get('KV_WORK') or VERIF, 'ocaml')
OUT = os.path.join(VERIF, 'out')
EVID = os.environ.get('KV_EVID') or os.path.join(VERIF, 'evidence')     # developer runs against scratch trees write elsewhere

TRUSTED_BASE_COMMON = [
    'Coq 8.16.1 kernel (coqc), including its VM (vm_compute); no native_compute',
    'no Axiom/Parameter/Admitted in the development (textual scan on every run); axioms per theorem as printed by Print Assumptions (recorded in this file)',
    'tools/translate.py and harness/dump_tables.c (the translator that regenerates coq/Generated/*.v from the source and the built library)',
    'Coq extraction with ExtrOcamlBasic only (no Extract Constant of ours) + OCaml 4.13.1, for the correspondence check',
    'the correspondence check (differential testing of the hand-written model against the freshly built code); hand-modelled parts are tied by it, not verified',
    'gcc/clang, glibc, libgomp: outside every theorem',
]


# ---------------------------------------------------------------------------------------
class Rng:
    """splitmix64; every random choice of a run derives from VERIF_SEED through this."""
    def __init__(self, seed):
        self.s = seed & 0xFFFFFFFFFFFFFFFF

    def next(self):
        self.s = (self.s + 0x9E3779B97F4A7C15) & 0xFFFFFFFFFFFFFFFF
        z = self.s
        z = ((z ^ (z >> 30)) * 0xBF58476D1CE4E5B9) & 0xFFFFFFFFFFFFFFFF
        z = ((z ^ (z >> 27)) * 0x94D049BB133111EB) & 0xFFFFFFFFFFFFFFFF
        return z ^ (z >> 31)

    def below(self, n):
        return self.next() % n if n > 0 else 0

    def range(self, a, b):
        """inclusive"""
        return a + self.below(b - a + 1)

    def choice(self, l):
        return l[self.below(len(l))]

    def chance(self, num, den):
        return self.below(den) < num

    def shuffle(self, l):
        for i in range(len(l) - 1, 0, -1):
            j = self.below(i + 1)
            l[i], l[j] = l[j], l[i]
        return l

    def fork(self, tag):
        h = hashlib.sha256(('%d/%s' % (self.s, tag)).encode()).digest()
        return Rng(int.from_bytes(h[:8], 'little'))


def sh(cmd, timeout=None, cwd=None, env=None, input=None):
    p = subprocess.run(cmd, shell=isinstance(cmd, str), cwd=cwd, env=env, input=input,
                       stdout=subprocess.PIPE, stderr=subprocess.PIPE, timeout=timeout)
    return p.returncode, p.stdout.decode('utf-8', 'replace'), p.stderr.decode('utf-8', 'replace')


class Lock:
    def __init__(self, name):
        os.makedirs(OUT, exist_ok=True)
        self.path = os.path.join(OUT, name)

    def __enter__(self):
        self.f = open(self.path, 'w')
        fcntl.flock(self.f, fcntl.LOCK_EX)
        return self

    def __exit__(self, *a):
        fcntl.flock(self.f, fcntl.LOCK_UN)
        self.f.close()


# ---------------------------------------------------------------------------------------
class Check:
    def __init__(self, pid, tier, seed):
        self.pid = pid
        self.tier = tier
        self.seed = seed
        self.rng = Rng(seed).fork(pid)
        self.t0 = time.time()
        self.violations = []      # (replay_path, note, nofail)
        self.known_hits = []
        self.coverage = {'samples': []}
        self.assumptions = []
        self.proof = {'obligations': 0, 'discharged': 0, 'theorems': [], 'failed': []}
        self.evaluations = 0
        self.nontrivial = set()
        self.rule = ''
        self.notes = []
        self.bdir = None
        self.bins = {}
        self.corr = {}            # module -> {'cases': n, 'disagreements': n}
        self.dist = {}
        os.makedirs(OUT, exist_ok=True)
        os.makedirs(EVID, exist_ok=True)
        self.replay_dir = os.path.join(OUT, 'replays', pid)
        os.makedirs(self.replay_dir, exist_ok=True)
        kf = os.path.join(VERIF, 'known_findings.json')
        self.known = json.load(open(kf)) if os.path.exists(kf) else {'findings': [], 'fixed': []}

    # ---- build ------------------------------------------------------------------------
    def build(self, variants=('omp',)):
        rc, out, err = sh([os.path.join(VERIF, 'tools', 'build_repo.sh')] + list(variants), timeout=900)
        if rc != 0:
            self.fatal_violation('build', 'kalign no longer builds from the working tree:\n' + err[-3000:])
        self.bdir = out.strip().splitlines()[-1]
        return self.bdir

    def harness(self, variant, prog):
        key = (variant, prog)
        if key in self.bins:
            return self.bins[key]
        rc, out, err = sh([os.path.join(VERIF, 'tools', 'build_harness.sh'), variant, prog], timeout=900)
        if rc != 0:
            self.fatal_violation('harness-build', 'harness %s/%s does not build against the working tree '
                                 '(an internal interface the correspondence relies on changed):\n%s' % (variant, prog, err[-3000:]))
        self.bins[key] = out.strip().splitlines()[-1]
        return self.bins[key]

    # ---- translate + prove ------------------------------------------------------------
    def translate(self):
        """Regenerate coq/Generated/*.v from the source copy and the built library."""
        with Lock('coq.lock'):
            dumper = self.harness('omp', 'dump_tables')
            rc, out, err = sh([dumper], timeout=120)
            if rc != 0 or 'param_table' not in out:
                self.fatal_violation('translator', 'dump_tables failed on the built library:\n' + err[-2000:])
            path = os.path.join(COQ, 'Generated', 'Tables.v')
            old = open(path).read() if os.path.exists(path) else None
            if old != out:
                open(path, 'w').write(out)
            rc, out, err = sh([sys.executable, os.path.join(VERIF, 'tools', 'translate.py'),
                               os.path.join(self.bdir, 'src'), os.path.join(COQ, 'Generated')], timeout=120)
            if rc != 0:
                self.fatal_violation('translator', 'translate.py failed on the source tree:\n' + (out + err)[-2000:])

    def scan_forbidden(self):
        pat = re.compile(r'\b(Admitted|admit|Axiom|Axioms|Parameter|Parameters|Conjecture|Hypothesis|Variable|Unset Guard|bypass_check|Admit Obligations)\b|type-in-type|impredicative-set')
        bad = []
        for root, _, files in os.walk(COQ):
            for f in files:
                if not f.endswith('.v'):
                    continue
                p = os.path.join(root, f)
                txt = open(p).read()
                txt_nc = re.sub(r'\(\*.*?\*\)', '', txt, flags=re.S)
                # Variable/Hypothesis are allowed inside Sections only
                depth = 0
                for ln in txt_nc.splitlines():
                    s = ln.strip()
                    if re.match(r'Section\b', s):
                        depth += 1
                    if re.match(r'End\b', s) and depth > 0:
                        depth -= 1
                    m = pat.search(s)
                    if m:
                        w = m.group(0)
                        if w in ('Variable', 'Hypothesis') and depth > 0:
                            continue
                        if w in ('Variable', 'Hypothesis') and not re.match(r'(Variable|Hypothesis)\b', s):
                            continue
                        bad.append('%s: %s' % (os.path.relpath(p, COQ), s[:100]))
        return bad

    def prove(self, prop_files=None, timeout=1500):
        """make the dependencies, then re-run coqc on Properties_<id>.v capturing Print Assumptions."""
        prop_files = prop_files or ['Properties_%s.v' % self.pid]
        checker_cmds = []
        with Lock('coq.lock'):
            if not os.path.exists(os.path.join(COQ, 'Makefile')):
                sh('coq_makefile -f _CoqProject -o Makefile', cwd=COQ)
            bad = self.scan_forbidden()
            if bad:
                self.proof['failed'].append('forbidden construct in development: ' + '; '.join(bad[:5]))
            for pf in prop_files:
                vo = pf[:-2] + '.vo'
                txt = open(os.path.join(COQ, pf)).read()
                names = re.findall(r'^\s*(?:Theorem|Lemma|Corollary)\s+(\w+)', txt, re.M)
                self.proof['obligations'] += len(names)
                cmd = 'make -k -j16 %s' % vo
                checker_cmds.append('cd coq && ' + cmd + ' && coqc -Q . KV ' + pf)
                rc, out, err = sh('timeout %d %s' % (timeout, cmd), cwd=COQ)
                if rc != 0:
                    # which file failed?
                    m = re.search(r'File "\./([^"]+)", line (\d+)', err)
                    where = '%s line %s' % (m.group(1), m.group(2)) if m else 'unknown location'
                    failed_file = m.group(1) if m else ''
                    if failed_file == pf:
                        line = int(m.group(2))
                        lines = txt.splitlines()
                        done = 0
                        for nm in names:
                            # a theorem counts as discharged if its Qed comes before the error line
                            idx = next((i for i, l in enumerate(lines) if re.match(r'\s*(Theorem|Lemma|Corollary)\s+' + nm + r'\b', l)), None)
                            qed = next((i for i in range(idx, len(lines)) if re.search(r'\bQed\.', lines[i])), len(lines))
                            if qed + 1 < line:
                                done += 1
                                self.proof['theorems'].append({'name': nm, 'status': 'proved'})
                            else:
                                self.proof['theorems'].append({'name': nm, 'status': 'NOT CHECKED'})
                        self.proof['discharged'] += done
                    else:
                        for nm in names:
                            self.proof['theorems'].append({'name': nm, 'status': 'NOT CHECKED (dependency %s failed)' % failed_file})
                    self.proof['failed'].append('%s: proof obligation no longer checks at %s: %s' % (pf, where, err.strip()[-1500:]))
                    continue
                # fresh run of the properties file itself for the assumptions
                rc, out, err = sh('timeout %d coqc -q -Q . KV %s' % (timeout, pf), cwd=COQ)
                if rc != 0:
                    self.proof['failed'].append('%s: %s' % (pf, err.strip()[-1500:]))
                    for nm in names:
                        self.proof['theorems'].append({'name': nm, 'status': 'NOT CHECKED'})
                    continue
                # parse Print Assumptions blocks in order
                pa_names = re.findall(r'^\s*Print Assumptions\s+(\w+)', txt, re.M)
                blocks = re.split(r'(?m)^(?=Closed under the global context|Axioms:)', out)
                blocks = [b.strip() for b in blocks if b.strip().startswith(('Closed under', 'Axioms:'))]
                amap = {}
                for nm, b in zip(pa_names, blocks):
                    amap[nm] = 'none (closed under the global context)' if b.startswith('Closed') else re.sub(r'\s+', ' ', b)
                for nm in names:
                    self.proof['theorems'].append({'name': nm, 'status': 'proved', 'axioms': amap.get(nm, 'not printed')})
                    self.proof['discharged'] += 1
                for nm, a in amap.items():
                    if not a.startswith('none'):
                        self.assumptions.append('axioms of %s: %s' % (nm, a))
        self.proof['checker_cmd'] = ' ; '.join(checker_cmds)
        return not self.proof['failed']

    def coqchk(self, module, timeout=1500):
        rc, out, err = sh('timeout %d coqchk -o -silent -Q . KV KV.%s' % (timeout, module), cwd=COQ)
        self.coverage['coqchk'] = {'module': module, 'rc': rc, 'tail': (out + err)[-1500:]}
        if rc != 0:
            self.proof['failed'].append('coqchk rejected %s: %s' % (module, (out + err)[-800:]))
        return rc == 0

    def model(self):
        """(Re)build the extracted model driver; returns its path."""
        with Lock('coq.lock'):
            rc, out, err = sh('timeout 1500 make -j16 Extract.vo', cwd=COQ)
            if rc != 0:
                self.fatal_violation('extraction', 'the executable model no longer builds:\n' + err[-2000:])
            src = [os.path.join(OCAML, f) for f in ('kvmodel.ml', 'kvmodel.mli', 'kvm.ml')]
            exe = os.path.join(OCAML, 'kvm')
            if not os.path.exists(exe) or any(os.path.getmtime(s) > os.path.getmtime(exe) for s in src):
                rc, out, err = sh('ocamlfind ocamlopt -O2 -w -a kvmodel.mli kvmodel.ml kvm.ml -o kvm.tmp && mv kvm.tmp kvm', cwd=OCAML, timeout=600)
                if rc != 0:
                    self.fatal_violation('extraction', 'the OCaml driver does not compile:\n' + err[-2000:])
        return os.path.join(OCAML, 'kvm')

    # ---- running cases ------------------------------------------------------------------
    def run_lines(self, exe, lines, timeout=600, env=None, args=(), case_timeout=None, _hangs=0):
        """Feed case lines to a line-oriented runner, return its output lines (padded/truncated to len(lines)).
        A runner that dies, or that does not answer one case within [case_timeout] seconds (a hang), gets that case
        marked 'CRASH ...' / 'CRASH rc=-999 TIMEOUT' and is restarted on the remaining cases."""
        import threading, queue
        if case_timeout is None:
            case_timeout = float(os.environ.get('KV_CASE_TIMEOUT', '150'))
        case_timeout = min(case_timeout, timeout)
        data = ('\n'.join(lines) + '\n').encode()
        # a runaway allocation of the code under test must fail in that process, not exhaust the machine: cap the address space of
        # the non-sanitizer runners (ASan reserves terabytes of address space and keeps its own limits)
        def cap():
            if '/asan/' not in exe and '/ubsan/' not in exe and '/san' not in exe:
                import resource
                try: resource.setrlimit(resource.RLIMIT_AS, (24 << 30, 24 << 30))
                except Exception: pass
        p = subprocess.Popen([exe] + list(args), stdin=subprocess.PIPE, stdout=subprocess.PIPE, stderr=subprocess.PIPE, env=env, preexec_fn=cap)
        q = queue.Queue()
        errbuf = []
        def feed():
            try:
                p.stdin.write(data); p.stdin.close()
            except Exception:
                pass
        def read_out():
            for ln in p.stdout:
                if len(ln) > (256 << 20):      # a single answer of more than 256 MB is cut (it cannot be a correct one)
                    ln = ln[:1 << 20] + b' ...TRUNCATED-OVERLONG-ANSWER\n'
                q.put(ln)
            q.put(None)
        def read_err():
            try:
                errbuf.append(p.stderr.read())
            except Exception:
                pass
        ths = [threading.Thread(target=f, daemon=True) for f in (feed, read_out, read_err)]
        for t in ths: t.start()
        out = []
        t_end = time.time() + timeout
        timed_out = False
        while len(out) < len(lines):
            try:
                ln = q.get(timeout=max(0.1, min(case_timeout, t_end - time.time())))
            except queue.Empty:
                timed_out = True
                break
            if ln is None:
                break
            out.append(ln.decode('latin-1').rstrip('\n'))
        if timed_out:
            p.kill()
        try:
            p.wait(timeout=30)
        except Exception:
            p.kill()
        rc = -999 if timed_out else (p.returncode if p.returncode is not None else -998)
        ths[2].join(timeout=5)
        err = 'TIMEOUT' if timed_out else (errbuf[0] or b'').decode('latin-1') if errbuf else ''
        if len(out) < len(lines):
            # the runner died (or hung) on case len(out): mark it and continue after it
            crashed_at = len(out)
            tag = 'CRASH rc=%d %s' % (rc, self.crash_kind(err))
            rest = lines[crashed_at + 1:]
            hangs = _hangs + (1 if timed_out else 0)
            if hangs >= 3 and rest:
                # three cases of this batch hung: the remaining ones are not run (each would cost the watchdog again); they are
                # reported as not answered, which every check treats like a crash of the case
                more = ['CRASH rc=-999 TIMEOUT (not run: the runner hung on three earlier cases of this batch)'] * len(rest)
            else:
                more = self.run_lines(exe, rest, max(1, t_end - time.time()) if timed_out else timeout, env, args, case_timeout, hangs) if rest else []
            out = out + [tag] + more
        return out[:len(lines)]

    def run_lines_sharded(self, exe, lines, shards=12, timeout=3000, env=None, args=(), case_timeout=None):
        """same as run_lines, cases spread over several processes (order preserved)"""
        from concurrent.futures import ThreadPoolExecutor
        if len(lines) < 2 * shards:
            return self.run_lines(exe, lines, timeout, env, args, case_timeout)
        idx = [list(range(k, len(lines), shards)) for k in range(shards)]
        with ThreadPoolExecutor(max_workers=shards) as ex:
            outs = list(ex.map(lambda ix: self.run_lines(exe, [lines[i] for i in ix], timeout, env, args, case_timeout), idx))
        res = [None] * len(lines)
        for ix, o in zip(idx, outs):
            for i, r in zip(ix, o):
                res[i] = r
        return res

    @staticmethod
    def crash_kind(err):
        m = re.search(r'(ERROR: AddressSanitizer: [\w-]+|runtime error: [^\n]{0,120}|ERROR: LeakSanitizer[^\n]*|TIMEOUT)', err)
        if m:
            k = m.group(1)
            loc = re.search(r'#\d+ 0x[0-9a-f]+ in (\w+) [^\n]*?/lib/src/(\w+\.c:\d+)', err)
            loc2 = re.search(r'(\w+\.c:\d+):\d+: runtime error', err)
            return k + (' @' + (loc.group(2) if loc else loc2.group(1) if loc2 else ''))
        return 'signal-or-abort'

    def correspond(self, module, lines, impl_exe, model_exe=None, canon=None, timeout=600, env=None, label=None):
        """Run the same case lines through the implementation runner and the extracted model and
        compare line by line.  Returns list of (case, impl, model) disagreements."""
        model_exe = model_exe or self.model()
        a = self.run_lines(impl_exe, lines, timeout, env)
        b = self.run_lines(model_exe, lines, timeout)
        dis = []
        for ln, x, y in zip(lines, a, b):
            cx, cy = (canon(x), canon(y)) if canon else (x, y)
            if cx != cy:
                dis.append((ln, x, y))
        st = self.corr.setdefault(module, {'cases': 0, 'disagreements': 0})
        st['cases'] += len(lines)
        st['disagreements'] += len(dis)
        self.evaluations += len(lines)
        return dis, a, b

    def count(self, key, n=1):
        self.dist[key] = self.dist.get(key, 0) + n

    def nontriv(self, key):
        self.nontrivial.add(key if isinstance(key, str) else json.dumps(key, sort_keys=True))

    def sample(self, s, limit=8):
        if len(self.coverage['samples']) < limit:
            self.coverage['samples'].append(s)

    # ---- reporting ------------------------------------------------------------------------
    def write_replay(self, name, obj):
        p = os.path.join(self.replay_dir, '%s_%s.json' % (name, hashlib.sha1(json.dumps(obj, sort_keys=True, default=str).encode()).hexdigest()[:10]))
        json.dump(obj, open(p, 'w'), indent=1, default=str)
        return p

    def violation(self, name, obj, nofail=False, signature=None):
        """Record a violation unless it matches a known finding (then record the hit)."""
        if signature is not None:
            for kf in self.known.get('findings', []):
                if kf.get('property') == self.pid and kf.get('signature') == signature:
                    if kf['id'] not in [k['id'] for k in self.known_hits]:
                        self.known_hits.append(kf)
                    return
        obj = dict(obj)
        obj['property'] = self.pid
        obj['seed'] = self.seed
        obj['tier'] = self.tier
        if nofail:
            obj['no_failing_input_found'] = True
        p = self.write_replay(name, obj)
        if len(self.violations) < 20:
            self.violations.append((p, nofail))

    def fatal_violation(self, name, msg):
        self.violation(name, {'kind': name, 'message': msg, 'what_no_longer_checks': name}, nofail=True)
        self.finish()

    def finish(self):
        wall = time.time() - self.t0
        cov = self.coverage
        cov['obligations'] = self.proof['obligations']
        cov['discharged'] = self.proof['discharged']
        cov['checker_cmd'] = self.proof.get('checker_cmd', '') or 'not reached'
        cov['trusted_base'] = TRUSTED_BASE_COMMON + self.notes
        cov['theorems'] = self.proof['theorems']
        cov['proof_failures'] = self.proof['failed']
        cov['evaluations'] = self.evaluations
        cov['distinct_nontrivial'] = len(self.nontrivial)
        cov['rule'] = self.rule
        cov['correspondence'] = self.corr
        cov['input_distribution'] = self.dist
        cov['known_findings_hit'] = [k['id'] for k in self.known_hits]
        if not cov['samples']:
            cov['samples'] = ['(no case was generated: the run stopped before the correspondence phase)']
        ev = {'property_id': self.pid, 'tier': self.tier, 'seed': self.seed, 'level': 'proof',
              'coverage': cov, 'assumptions': self.assumptions, 'wall_s': round(wall, 2),
              'violations': len(self.violations)}
        json.dump(ev, open(os.path.join(EVID, '%s.json' % self.pid), 'w'), indent=1)
        for kf in self.known_hits:
            print('KNOWN-FINDING: property=%s %s' % (self.pid, kf['what']))
        for p, nofail in self.violations:
            print('VIOLATION property=%s replay=%s%s' % (self.pid, p, ' no-failing-input-found' if nofail else ''))
        sys.stdout.flush()
        sys.exit(1 if self.violations else 0)
