(* C02 - Same alignment for every thread count and every schedule.
   Statements only; proofs in ParProofs.v.  The fork-join skeletons nsk_* are REGENERATED from the
   OpenMP pragmas of /repo's sources on every run (tools/translate.py -> Generated/Omp.v): removing a
   taskwait, moving a call above it, or spawning something new changes these terms and the
   [vm_compute] proofs about them stop checking.
   What a theorem cannot exhibit (DESIGN C02): that libgomp implements task/taskwait as specified, and
   data races below the granularity of the modelled actions - those are the purpose of the trace
   validation and the byte-identity runs of the check. *)
From Coq Require Import List String Bool Arith.
From KV Require Import Generated.Omp Par ParProofs.
From KV Require Pipeline CladeTasks TreeSchedule.
Import ListNotations.
Local Open Scope string_scope.

Definition every_call (_ : string) : bool := true.

(* (1) the static check is sound: if it accepts a body, then on EVERY control path of that body no
   critical call happens and the body does not return while a child task may still be running *)
Theorem C02_check_is_sound : forall critical l, well_joined critical l = true ->
  forall tr b, runs l tr b -> trace_ok critical false tr = true /\ (b = false -> trace_out false tr = false).
Proof. exact well_joined_sound. Qed.
Print Assumptions C02_check_is_sound.

(* (2) the generated skeletons pass it, with EVERY call treated as critical: between the creation of
   a task and the taskwait that joins it the creating task calls nothing at all *)
Theorem C02_recursive_aln_joins_children : well_joined every_call nsk_recursive_aln = true.
Proof. vm_compute. reflexivity. Qed.
Print Assumptions C02_recursive_aln_joins_children.
Theorem C02_aln_runner_joins_halves : well_joined every_call nsk_aln_runner = true.
Proof. vm_compute. reflexivity. Qed.
Print Assumptions C02_aln_runner_joins_halves.
Theorem C02_bisecting_kmeans_joins_tasks : well_joined every_call nsk_bisecting_kmeans = true.
Proof. vm_compute. reflexivity. Qed.
Print Assumptions C02_bisecting_kmeans_joins_tasks.
Theorem C02_other_regions_spawn_nothing :
  well_joined every_call nsk_create_msa_tree = true /\ well_joined every_call nsk_build_tree_kmeans = true /\
  well_joined every_call nsk_d_estimation = true.
Proof. vm_compute. repeat split; reflexivity. Qed.
Print Assumptions C02_other_regions_spawn_nothing.

(* hence: "no merge of two groups starts before both groups are complete" and "the forward and backward
   halves are both finished before they are combined", on every control path *)
Theorem C02_no_merge_before_children : forall tr b, runs nsk_recursive_aln tr b -> trace_ok every_call false tr = true.
Proof. intros tr b R. exact (proj1 (well_joined_sound _ _ C02_recursive_aln_joins_children tr b R)). Qed.
Print Assumptions C02_no_merge_before_children.
Theorem C02_no_meetup_before_halves : forall tr b, runs nsk_aln_runner tr b -> trace_ok every_call false tr = true.
Proof. intros tr b R. exact (proj1 (well_joined_sound _ _ C02_aln_runner_joins_halves tr b R)). Qed.
Print Assumptions C02_no_meetup_before_halves.
Print Assumptions C02_no_merge_before_children.

(* the shape from which [unfold] is built: two child tasks, the join, then the merge *)
Theorem C02_recursive_aln_shape : exists tr, runs nsk_recursive_aln tr false /\
  tr = [ESpawn "recursive_aln"; ESpawn "recursive_aln"; EWait; ECall "alloc_aln_mem"; ECall "do_align"; ECall "free_aln_mem"].
Proof.
  eexists. split; [|reflexivity]. unfold nsk_recursive_aln.
  apply (r_maybe_take _ _ [ESpawn "recursive_aln"] _ false); [repeat constructor|].
  apply (r_maybe_take _ _ [ESpawn "recursive_aln"] _ false); [repeat constructor|].
  repeat constructor.
Qed.
Print Assumptions C02_recursive_aln_shape.

(* (3) schedules: for every series-parallel program whose parallel branches have independent
   (commuting) actions, every linearisation - every order in which a runtime may run the tasks -
   reaches the state the serial order reaches *)
Theorem C02_sp_determinism : forall (act state : Type) (exec : act -> state -> state) (indep : act -> act -> Prop),
  (forall a b s, indep a b -> exec b (exec a s) = exec a (exec b s)) ->
  forall t, par_independent act indep t -> forall l, lin act t l -> forall s,
  exec_list act state exec l s = exec_list act state exec (flatten act t) s.
Proof. exact sp_determinism. Qed.
Print Assumptions C02_sp_determinism.

(* (4) the progressive alignment of ANY guide tree with distinct node numbers, ANY per-merge
   computation: every schedule of the task tree yields the same cells as the serial post-order, and the
   merge of a node comes after all merges below it *)
Theorem C02_schedules : forall (cell : Type) (combine : cell -> cell -> cell) t, NoDup (nodes t) ->
  forall l, lin merge (unfold t) l -> forall s : store cell,
  exec_list merge (store cell) (exec_merge cell combine) l s =
  exec_list merge (store cell) (exec_merge cell combine) (flatten merge (unfold t)) s.
Proof. exact tree_schedule_independent. Qed.
Print Assumptions C02_schedules.

Theorem C02_merge_after_children : forall c tl tr l, lin merge (unfold (Node c tl tr)) l ->
  exists l', l = (l' ++ [mkMerge (root_id tl) (root_id tr) c])%list /\ lin merge (ParC (unfold tl) (unfold tr)) l'.
Proof. exact merge_after_children. Qed.
Print Assumptions C02_merge_after_children.

(* Non-vacuity: a 4-leaf tree, a schedule that interleaves the two subtrees differently from the serial order *)
Example C02_nonvacuous :
  let t := Node 6 (Node 4 (Leaf 0) (Leaf 1)) (Node 5 (Leaf 2) (Leaf 3)) in
  NoDup (nodes t) /\
  flatten merge (unfold t) = [mkMerge 0 1 4; mkMerge 2 3 5; mkMerge 4 5 6] /\
  lin merge (unfold t) [mkMerge 2 3 5; mkMerge 0 1 4; mkMerge 4 5 6].
Proof.
  split; [repeat constructor; simpl; intuition congruence|]. split; [reflexivity|].
  simpl. apply (l_seq merge _ _ [mkMerge 2 3 5; mkMerge 0 1 4] [mkMerge 4 5 6]); [|constructor].
  apply (l_par merge _ _ [mkMerge 0 1 4] [mkMerge 2 3 5]).
  - apply (l_seq merge _ _ [] [mkMerge 0 1 4]); [|constructor]. apply (l_par merge _ _ [] []); constructor.
  - apply (l_seq merge _ _ [] [mkMerge 2 3 5]); [|constructor]. apply (l_par merge _ _ [] []); constructor.
  - apply sh_r. apply sh_l. constructor.
Qed.

Local Close Scope string_scope.
Local Open Scope nat_scope.

(* The serial schedule: no merge of two groups starts before both groups are complete.
   label_internal numbers the internal nodes of the guide tree in post-order from numseq, create_tasks emits one task
   (a, b, c) per internal node, sort_tasks(TASK_ORDER_TREE) orders them by c.  For EVERY guide tree over distinct
   leaves: at every position of that serial schedule both operands are complete (an input sequence, or the result of
   an EARLIER task), the two operands differ, no earlier task has consumed either of them or produced c, and c is a
   fresh internal label.  (TreeSchedule.v) *)
Theorem C02_schedule_respects_the_guide_tree : forall t n,
  NoDup (CladeTasks.leaves t) -> (forall i, In i (CladeTasks.leaves t) -> i < n) ->
  forall pre a b c post,
  Pipeline.sort_tasks (Pipeline.tasks_of (fst (Pipeline.label t n))) = (pre ++ (a, b, c) :: post)%list ->
  (a < n \/ exists a1 a2, In (a1, a2, a) pre) /\
  (b < n \/ exists b1 b2, In (b1, b2, b) pre) /\
  a <> b /\ n <= c /\
  (forall x y z, In (x, y, z) pre -> z <> c /\ x <> a /\ x <> b /\ y <> a /\ y <> b).
Proof. exact TreeSchedule.tree_schedule_respects_dependencies. Qed.
Print Assumptions C02_schedule_respects_the_guide_tree.

(* ... and the schedule is complete: one task per internal node (leaves - 1 of them), and every label - input or
   produced - is consumed exactly once except the root, which is what remains. *)
Theorem C02_schedule_is_complete : forall t n,
  NoDup (CladeTasks.leaves t) -> (forall i, In i (CladeTasks.leaves t) -> i < n) ->
  let L := Pipeline.sort_tasks (Pipeline.tasks_of (fst (Pipeline.label t n))) in
  List.length L = List.length (CladeTasks.leaves t) - 1 /\
  Permutation.Permutation (Pipeline.lid (fst (Pipeline.label t n)) :: TreeSchedule.kids L)
                          (CladeTasks.leaves t ++ map TreeSchedule.tc L)%list.
Proof. exact TreeSchedule.tree_schedule_is_complete. Qed.
Print Assumptions C02_schedule_is_complete.

Example C02_schedule_nonvacuous :
  let t := Pipeline.UNode (Pipeline.UNode (Pipeline.ULeaf 3) (Pipeline.ULeaf 0)) (Pipeline.UNode (Pipeline.ULeaf 2) (Pipeline.UNode (Pipeline.ULeaf 1) (Pipeline.ULeaf 4))) in
  Pipeline.tasks_of (fst (Pipeline.label t 5)) = [(5, 7, 8); (3, 0, 5); (2, 6, 7); (1, 4, 6)] /\
  Pipeline.sort_tasks (Pipeline.tasks_of (fst (Pipeline.label t 5))) = [(3, 0, 5); (1, 4, 6); (2, 6, 7); (5, 7, 8)].
Proof. vm_compute. split; reflexivity. Qed.
