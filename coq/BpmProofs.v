From KV Require Import Base Bpm.
Local Open Scope Z_scope.

(* the running minimum only decreases: the result never exceeds the pattern length *)
Lemma sed_fold_le : forall t p col best,
  snd (fold_left (fun st c => let '(col, best) := st in
                              let col' := next_col c p col 0 0 in (col', Z.min best (last col' 0))) t (col, best)) <= best.
Proof.
  induction t as [|c t IH]; intros p col best; simpl; [lia|].
  etransitivity; [apply IH|]. lia.
Qed.

Theorem sed_le_pattern_length t p : sed t p <= Z.of_nat (length p).
Proof.
  unfold sed.
  pose proof (sed_fold_le t p (map (fun i => Z.of_nat i + 1) (seq 0 (length p))) (Z.of_nat (length p))) as H.
  destruct (fold_left _ t _) as [col best]. simpl in H. exact H.
Qed.

(* the empty text: only the empty substring is available *)
Theorem sed_empty_text p : sed [] p = Z.of_nat (length p).
Proof. reflexivity. Qed.
