#!/bin/bash
# Offline setup: build the Coq development (full .vo build), extract the model, compile the OCaml driver.
set -e
cd "$(dirname "$0")/.."
mkdir -p out evidence coq/Generated
# Generated files are needed before coq_makefile's dependency scan; regenerate them from /repo.
B=$(tools/build_repo.sh omp)
D=$(tools/build_harness.sh omp dump_tables)
"$D" > coq/Generated/Tables.v.tmp 2>/dev/null && mv coq/Generated/Tables.v.tmp coq/Generated/Tables.v
python3 tools/translate.py "$B/src" coq/Generated
cd coq
coq_makefile -f _CoqProject -o Makefile
timeout 3000 make -j16
cd ../ocaml
ocamlfind ocamlopt -O2 -w -a kvmodel.mli kvmodel.ml kvm.ml -o kvm
echo "setup ok"
