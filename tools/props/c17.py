"""C17 - the alignment-comparison score is exact."""
import json, os, struct, tempfile, shutil
import gen

def fbits(x):
    return struct.unpack('<I', struct.pack('<f', x))[0]

def random_alignment(rng, seqs, extra):
    """rows of equal width: each sequence with gaps inserted at random positions"""
    w = max(len(s) for s in seqs) + extra
    rows = []
    for s in seqs:
        pos = sorted(rng.below(w - len(s) + 1) for _ in s)
        row, prev, used = [], 0, 0
        gaps_total = w - len(s)
        cuts = sorted(rng.below(gaps_total + 1) for _ in range(len(s)))
        prevc = 0
        for ch, c in zip(s, cuts):
            row.append('-' * (c - prevc)); row.append(ch); prevc = c
        row.append('-' * (gaps_total - prevc))
        rows.append(''.join(row))
    return rows

def insert_allgap(rng, rows, k):
    w = len(rows[0])
    for _ in range(k):
        p = rng.below(w + 1)
        rows = [r[:p] + '-' + r[p:] for r in rows]
        w += 1
    return rows

def spec_score(names_r, rows_r, names_t, rows_t):
    """independent implementation of the definition: relations (residue, partner-or-gap) over ordered pairs"""
    R = dict(zip(names_r, rows_r)); T = dict(zip(names_t, rows_t))
    def rel(x, y):
        out, py = [], 0
        for a, b in zip(x, y):
            if a.isalpha():
                out.append(py if b.isalpha() else -1)
            if b.isalpha():
                py += 1
        return out
    a = b = 0
    names = sorted(R)
    for i, x in enumerate(names):
        for y in names[i + 1:]:
            for (u, v) in ((x, y), (y, x)):
                rr, tt = rel(R[u], R[v]), rel(T[u], T[v])
                b += len(rr)
                a += sum(1 for p, q in zip(rr, tt) if p == q)
    return a, b

def run(ck):
    ck.build(('omp',))
    ck.translate()
    ok = ck.prove()
    kvh = ck.harness('omp', 'kvh')
    rng = ck.rng
    ck.rule = ('pairs of alignments of the same uniquely named sequences written as aligned FASTA/Clustal/MSF files (each with >= 1 gap), compared by kalign_msa_compare; '
               'correspondence: score bit pattern, model (Flocq) vs implementation; witness search: independent Python implementation of the definition, '
               '100 for permuted rows + inserted all-gap columns, range, row-order independence. Non-trivial = the two alignments differ in at least one relation')
    tmp = tempfile.mkdtemp(prefix='kv_c17_')
    wit, lines, mlines, meta = [], [], [], []
    try:
        N = 300 if ck.tier == 'quick' else 3000
        for k in range(N):
            kind = 'dna' if rng.chance(1, 2) else 'protein'
            fam, seqs = gen.family(rng, kind, small=True)
            seqs = [s for s in seqs if s][:7]
            if len(seqs) < 2:
                continue
            names = gen.names_for(rng, len(seqs), rng.choice(['plain', 'punct', 'prefix']))
            if k % 5 == 2:      # FASTA header lines with a description: unique names that share their first token
                genus = rng.choice(['Homo', 'sp|P1', 'seq'])
                names = ['%s %s' % (genus if rng.chance(3, 4) else 'Pan', w) for w in ['sapiens', 'erectus', 'habilis', 'ergaster', 'x y', 'x  y', 'z', 'sapiens 2', 'a|b', '-'][:len(seqs)]]
            rows_r = random_alignment(rng, seqs, rng.range(1, 6))
            mode = k % 4
            if mode == 0:
                rows_t = random_alignment(rng, seqs, rng.range(1, 6)); nt = list(names); expect = None
            elif mode == 1:      # same alignment, rows permuted, all-gap columns inserted
                order = list(range(len(seqs))); rng.shuffle(order)
                rows_t = insert_allgap(rng, [rows_r[i] for i in order], rng.range(0, 4)); nt = [names[i] for i in order]; expect = 100.0
            elif mode == 2:      # small perturbation of one row
                rows_t = list(rows_r); i = rng.below(len(seqs))
                rows_t[i] = random_alignment(rng, [seqs[i]], len(rows_r[0]) - len(seqs[i]))[0]; nt = list(names); expect = None
            else:                # identical
                rows_t = list(rows_r); nt = list(names); expect = 100.0
            if k % 7 == 3:      # a row that consists of gaps only (readers accept it; its (residue, gap) relations count for the others)
                names = list(names) + ['gaponly']; nt = list(nt) + ['gaponly']
                rows_r = list(rows_r) + ['-' * len(rows_r[0])]; rows_t = list(rows_t) + ['-' * len(rows_t[0])]
                seqs = list(seqs) + ['']
            # both files need at least one gap character to be recognised as alignments
            if not any('-' in r for r in rows_r) or not any('-' in r for r in rows_t):
                continue
            # row-order independence: also shuffle the reference file's rows
            order_r = list(range(len(seqs))); rng.shuffle(order_r)
            fr = os.path.join(tmp, 'r%d.fa' % k); ft = os.path.join(tmp, 't%d.fa' % k)
            open(fr, 'w').write(gen.fasta([names[i] for i in order_r], [rows_r[i] for i in order_r]))
            open(ft, 'w').write(gen.fasta(nt, rows_t))
            lines.append('cmp %s %s' % (fr, ft))
            mlines.append('cmp %s %s' % (','.join('%s:%s' % (gen.hexs(names[i]), gen.hexs(rows_r[i])) for i in order_r),
                                         ','.join('%s:%s' % (gen.hexs(n), gen.hexs(r)) for n, r in zip(nt, rows_t))))
            meta.append((names, rows_r, nt, rows_t, expect, mode))
            ck.count('mode:%d' % mode)
        # scale: counters beyond 2^24 and 2^31 relations (C ints, float mantissas): a large alignment against itself with
        # its rows reversed and one all-gap column inserted must score exactly 100 (C17_same_alignment_scores_100 covers
        # all totals below 2^46); too large for the extracted model and the Python definition, so only the closed form
        for (NN, LL) in ([(130, 1000), (4700, 100)] if ck.tier == 'quick' else [(130, 1000), (4700, 100), (1500, 1000), (15000, 12)]):
            big = []
            for i in range(NN):
                sq = gen.rand_seq(rng, gen.DNA, LL); pp = rng.below(LL + 1)
                big.append(sq[:pp] + '-' + sq[pp:])
            hh = rng.below(LL + 1)
            fr = os.path.join(tmp, 'bigr%d_%d.fa' % (NN, LL)); ft = os.path.join(tmp, 'bigt%d_%d.fa' % (NN, LL))
            open(fr, 'w').write(''.join('>s%d\n%s\n' % (i, r) for i, r in enumerate(big)))
            open(ft, 'w').write(''.join('>s%d\n%s\n' % (i, big[i][:hh] + '-' + big[i][hh:]) for i in reversed(range(NN))))
            rb = ck.run_lines(kvh, ['cmp %s %s' % (fr, ft)], timeout=1200)[0]
            ck.evaluations += 1
            ck.count('scale:%dx%d (%d relations)' % (NN, LL, (NN - 1) * NN * LL))
            if not rb.startswith('OK') or int(rb.split()[1]) != fbits(100.0):
                wit.append({'kind': 'not-100-for-same-alignment-at-scale', 'rows': NN, 'residues_per_row': LL, 'relations': (NN - 1) * NN * LL,
                            'generator': 'seed %d: %d random DNA rows of %d residues with one gap each, against the same rows reversed with an all-gap column at %d' % (ck.seed, NN, LL, hh),
                            'implementation': rb[:200]})
        # many rows and DIFFERENT alignments (every pair of rows must be counted: 65, 100, 130, 200 rows against an independent
        # implementation of the definition), and rows of more than 65535 residues (residue indices are C ints)
        big_cases = []
        for NN in ([65, 100, 130] if ck.tier == 'quick' else [65, 100, 127, 130, 200, 257]):
            sq = [gen.rand_seq(rng, gen.PROT, rng.range(12, 30)) for _ in range(NN)]
            big_cases.append((['m%d' % i for i in range(NN)], random_alignment(rng, sq, rng.range(2, 8)), random_alignment(rng, sq, rng.range(2, 8)), 'many-rows'))
            ck.count('different alignments of %d rows' % NN)
        for LL in ([70000] if ck.tier == 'quick' else [66000, 70000, 140000]):
            sq = [gen.rand_seq(rng, gen.DNA, LL), gen.rand_seq(rng, gen.DNA, LL - rng.range(1, 400)), gen.rand_seq(rng, gen.DNA, 300)]
            ra = random_alignment(rng, sq, 3)
            # the test alignment shifts one row by a few columns and another by more than 65536 residues' worth of gaps
            rt = [ra[0] + '-' * 66000, '-' * 66000 + ra[1], ra[2][:200] + '-' * 66000 + ra[2][200:]]
            big_cases.append((['l0', 'l1', 'l2'], ra, rt, 'long-rows'))
            ck.count('different alignments with rows of %d residues' % LL)
        for bi, (bn, ra, rt, tag) in enumerate(big_cases):
            fr = os.path.join(tmp, 'mr%d.fa' % bi); ft = os.path.join(tmp, 'mt%d.fa' % bi)
            open(fr, 'w').write(gen.fasta(bn, ra)); open(ft, 'w').write(gen.fasta(bn, rt))
            rb = ck.run_lines(kvh, ['cmp %s %s' % (fr, ft)], timeout=1200)[0]
            ck.evaluations += 1
            a, b = spec_score(bn, ra, bn, rt)
            want = fbits(100.0 * a / b) if b else None
            if not rb.startswith('OK') or (want is not None and int(rb.split()[1]) != want):
                wit.append({'kind': 'score-differs-from-definition-' + tag, 'rows': len(bn), 'longest_row_residues': max(len(x.replace('-', '')) for x in ra),
                            'implementation': rb[:120], 'definition': (100.0 * a / b) if b else None, 'a': a, 'b': b,
                            'reference': dict(zip(bn, ra)) if tag == 'many-rows' and len(bn) <= 130 else 'see generator (seed %d)' % ck.seed,
                            'test': dict(zip(bn, rt)) if tag == 'many-rows' and len(bn) <= 130 else None})
            if a != b: ck.nontriv(('big', tag, len(bn)))
        impl = ck.run_lines(kvh, lines)
        mod = ck.run_lines(ck.model(), mlines)
        ck.evaluations += len(lines)
        dis = []
        for ln, ml, r, m, (names, rows_r, nt, rows_t, expect, mode) in zip(lines, mlines, impl, mod, meta):
            ri, mi = r.split(), m.split()
            if not r.startswith('OK'):
                wit.append({'kind': 'compare-failed', 'reference': dict(zip(names, rows_r)), 'test': dict(zip(nt, rows_t)), 'implementation': r})
                continue
            if ri[:2] != mi[:2]:
                dis.append((ml, r, m))
            a, b = spec_score(names, rows_r, nt, rows_t)
            want = fbits(100.0 * a / b) if b else None
            got = int(ri[1])
            val = struct.unpack('<f', struct.pack('<I', got))[0]
            if want is not None and got != want:
                wit.append({'kind': 'score-differs-from-definition', 'reference': dict(zip(names, rows_r)), 'test': dict(zip(nt, rows_t)),
                            'implementation_score': val, 'definition': 100.0 * a / b, 'a': a, 'b': b})
            elif expect is not None and val != expect:
                wit.append({'kind': 'not-100-for-same-alignment', 'reference': dict(zip(names, rows_r)), 'test': dict(zip(nt, rows_t)), 'implementation_score': val})
            elif not (0.0 <= val <= 100.0):
                wit.append({'kind': 'out-of-range', 'implementation_score': val})
            if a != b:
                ck.nontriv(ml[:400])
        ck.corr['Cmp.compare_model (score bits) vs msa_cmp.c'] = {'cases': len(lines), 'disagreements': len(dis)}
        if lines:
            ck.sample({'reference': dict(zip(meta[0][0], meta[0][1])), 'test': dict(zip(meta[0][2], meta[0][3])), 'implementation': impl[0], 'model': mod[0]})
    finally:
        shutil.rmtree(tmp, ignore_errors=True)
    seen = {}
    for w in wit:
        seen[w['kind']] = seen.get(w['kind'], 0) + 1
        if seen[w['kind']] <= 2:
            ck.violation('witness', w)
    if not wit:
        if not ok:
            ck.violation('proof', {'what_no_longer_checks': ck.proof['failed']}, nofail=True)
        elif dis:
            ml, r, m = dis[0]
            ck.violation('correspondence', {'what_no_longer_checks': 'correspondence of Cmp.compare_model with kalign_msa_compare', 'first_disagreement': {'case': ml[:2000], 'implementation': r, 'model': m}, 'disagreements': len(dis)}, nofail=True)

def replay(ck, obj):
    print(json.dumps(obj, indent=1)[:4000])
    return 0
