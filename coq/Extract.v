(* Extraction of the executable model for the correspondence check.
   ExtrOcamlBasic only: bool, option, list, prod, unit, sumbool map to OCaml's; Z, N, positive,
   nat stay the extracted inductives.  No Extract Constant of ours. *)
From Coq Require Import Extraction ExtrOcamlBasic.
From KV Require Import DetectDefs Base FP Params ParamsDoc Weave WeaveProofs WeaveCheck Sort Detect Api Cmp Bpm BpmBits Formats Cli Kernels Pipeline.
Extraction Language OCaml.
Set Extraction Optimize.
Extraction "../ocaml/kvmodel.ml"
  f32_ge0 f32_of_Z isalpha ispunct isspace iscntrl toupper
  init select set_aln_type cli_args p_gpo pset_defaults
  fits doc_params
  expand update_gaps add_gap_info mirror_path make_seq merge_step init_wstate run_merges final_rows op_kind
  essential_check with_ranks sort_len_name sort_rank convert alphabets nthZ
  alpha_defDNA alpha_redPROTEIN alpha_ambPROTEIN histogram detect_sums detect_alphabet bits_of_f64
  exact_margin total_letters class_count only_po only_u is_nuc_letter
  compare_model ref_aligned
  bpm_block bpm64 bpm256 sed firstn bpm_block_bits bpm64_bits
  read_inputs rows_of write_fasta write_clu write_msf parse_format read_lines detect_format
  cli_main predicted_run_stage exit_code
  progressive guide_tasks sort_tasks np_of_params alg_f32 distance_matrix bits_of_f32
  kpath_wfb ops_fitb integrity_b subalignment_b strip_allgap degap w_gaps w_sip.
