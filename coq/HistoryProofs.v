(* C16: a call's result depends only on the objects it is given - proofs over History.v. *)
From KV Require Import Base Params Sort Detect Weave Cmp Formats Api History.
Local Open Scope Z_scope.

Section HistProofs.
Variable acore : ambient -> Z -> params -> list (list Z) -> list (list Z) -> list (list nat).
(* The one assumption about the numeric pipeline: of the ambient state it reads at most the two
   fields kalign_run itself sets before starting it (thread count, broadcast mask) - never what
   earlier calls left in memory.  This is the modelling claim the history runs test on the code. *)
Hypothesis acore_prepared : forall G G' t, acore (prepared G t) = acore (prepared G' t).

Notation step := (step acore).
Notation run_history := (run_history acore).

Definition agree (D : list handle) (s1 s2 : store) : Prop := forall h, In h D -> s1 h = s2 h.
Definition sim (D : list handle) (x y : ambient * store) : Prop := agree D (snd x) (snd y).

Lemma upd_same s h v : upd s h v h = v.
Proof. unfold upd. rewrite Nat.eqb_refl. reflexivity. Qed.
Lemma upd_other s h v k : k <> h -> upd s h v k = s k.
Proof. unfold upd. intro N. destruct (Nat.eqb k h) eqn:E; [apply Nat.eqb_eq in E; contradiction|reflexivity]. Qed.

(* frame: a call leaves every object it does not name untouched *)
Lemma step_frame : forall x c h, ~ In h (handles c) -> snd (fst (step x c)) h = snd x h.
Proof.
  intros [G s] c h N. destruct c; simpl in *.
  - destruct (read_files_into _ _) as [cur ok]. simpl. apply upd_other. intuition.
  - destruct (s h0) as [o|]; [|reflexivity].
    destruct (run_object _ _ _ _ _ _ _ _); simpl; [apply upd_other; intuition|reflexivity].
  - destruct (s h0); reflexivity.
  - destruct (s h1) as [a|]; [|reflexivity]. destruct (s h2) as [b|]; [|reflexivity]. simpl.
    rewrite upd_other by intuition. apply upd_other. intuition.
  - apply upd_other. intuition.
  - reflexivity.
Qed.

Lemma run_object_ambient G G' o t ty g e tg : run_object acore G o t ty g e tg = run_object acore G' o t ty g e tg.
Proof. unfold run_object. rewrite (acore_prepared G G'). reflexivity. Qed.

Lemma kalign_array_ambient G G' seqs t ty g e tg : kalign_array acore G seqs t ty g e tg = kalign_array acore G' seqs t ty g e tg.
Proof. unfold kalign_array. destruct (detect_alphabet _); [|reflexivity]. rewrite (acore_prepared G G'). reflexivity. Qed.

(* locality: result and the named objects afterwards depend only on the named objects before -
   not on other objects, not on the ambient state *)
Lemma step_local : forall x y c, sim (handles c) x y ->
  snd (step x c) = snd (step y c) /\ sim (handles c) (fst (step x c)) (fst (step y c)).
Proof.
  intros [G1 s1] [G2 s2] c A. unfold sim, agree in *. simpl in A.
  destruct c; simpl in *.
  - rewrite (A h) by auto. destruct (read_files_into _ _) as [cur ok]. simpl. split; [reflexivity|].
    intros k [<-|[]]. rewrite !upd_same. reflexivity.
  - rewrite (A h) by auto. destruct (s2 h) as [o|]; [|split; [reflexivity|simpl; intros k [<-|[]]; auto]].
    rewrite (run_object_ambient G1 G2). destruct (run_object _ _ _ _ _ _ _ _); simpl.
    + split; [reflexivity|]. intros k [<-|[]]. rewrite !upd_same. reflexivity.
    + split; [reflexivity|]. intros k [<-|[]]. auto.
  - rewrite (A h) by auto. destruct (s2 h); simpl; (split; [reflexivity|intros k [<-|[]]; auto]).
  - rewrite (A h1), (A h2) by auto. destruct (s2 h1) as [a|]; [|split; [reflexivity|simpl; intros k [<-|[<-|[]]]; auto]].
    destruct (s2 h2) as [b|]; [|split; [reflexivity|simpl; intros k [<-|[<-|[]]]; auto]].
    simpl. split; [reflexivity|]. intros k Hk. unfold upd.
    destruct (Nat.eqb k h2); [reflexivity|]. destruct (Nat.eqb k h1); [reflexivity|].
    destruct Hk as [<-|[<-|[]]]; auto.
  - split; [reflexivity|]. intros k [<-|[]]. rewrite !upd_same. reflexivity.
  - rewrite (kalign_array_ambient G1 G2). split; [reflexivity|]. intros k [].
Qed.

Lemma run_app : forall a x b,
  run_history x (a ++ b) =
  let '(x', ra) := run_history x a in let '(x'', rb) := run_history x' b in (x'', ra ++ rb).
Proof.
  induction a as [|c a IH]; intros x b; simpl.
  - destruct (run_history x b). reflexivity.
  - destruct (step x c) as [x1 r]. rewrite IH. destruct (run_history x1 a) as [x2 ra].
    destruct (run_history x2 b) as [x3 rb]. reflexivity.
Qed.

Lemma run_snoc_state x a c : fst (run_history x (a ++ [c])) = fst (step (fst (run_history x a)) c).
Proof.
  rewrite run_app. destruct (run_history x a) as [x1 ra]. simpl.
  destruct (step x1 c) as [x2 r]. reflexivity.
Qed.

Lemma intersects_false a D : intersects a D = false -> forall h, In h D -> ~ In h a.
Proof.
  unfold intersects. intros H h HD Ha.
  assert (existsb (fun x => existsb (Nat.eqb x) D) a = true).
  { apply existsb_exists. exists h. split; [assumption|]. apply existsb_exists. exists h. split; [assumption|apply Nat.eqb_refl]. }
  congruence.
Qed.

(* the state the sliced history reaches agrees with the full history on the handles of interest *)
Lemma slice_rev_sim : forall r D x y, (forall h, snd x h = snd y h) ->
  sim D (fst (run_history x (rev r))) (fst (run_history y (slice_rev D r))).
Proof.
  induction r as [|c r IH]; intros D x y E.
  - simpl. intros h _. apply E.
  - cbn [rev slice_rev]. rewrite run_snoc_state.
    destruct (intersects (handles c) D) eqn:I.
    + rewrite run_snoc_state.
      specialize (IH (handles c ++ D) x y E).
      set (X := fst (run_history x (rev r))) in *. set (Y := fst (run_history y (slice_rev (handles c ++ D) r))) in *.
      assert (L : sim (handles c) X Y) by (intros h Hh; apply IH; apply in_or_app; auto).
      destruct (step_local X Y c L) as [_ S].
      intros h Hh. destruct (in_dec Nat.eq_dec h (handles c)) as [Hc|Hc].
      * apply S. exact Hc.
      * rewrite !step_frame by exact Hc. apply IH. apply in_or_app. auto.
    + specialize (IH D x y E). intros h Hh.
      rewrite step_frame by (eapply intersects_false; eauto). apply IH. exact Hh.
Qed.

(* C16: the result of a call after any history equals its result after only the calls that built
   its arguments, started from any ambient state (a fresh process) with the same initial objects *)
Theorem history_slice : forall pre c x y, (forall h, snd x h = snd y h) ->
  snd (step (fst (run_history x pre)) c) = snd (step (fst (run_history y (slice (handles c) pre))) c).
Proof.
  intros pre c x y E. unfold slice.
  pose proof (slice_rev_sim (rev pre) (handles c) x y E) as S. rewrite rev_involutive in S.
  apply step_local. exact S.
Qed.

Theorem step_ambient_irrelevant : forall G G' s c,
  snd (step (G, s) c) = snd (step (G', s) c) /\
  forall h, snd (fst (step (G, s) c)) h = snd (fst (step (G', s) c)) h.
Proof.
  intros G G' s c.
  (* locality with D = every handle *)
  assert (A : forall D, sim D (G, s) (G', s)) by (intros D h _; reflexivity).
  destruct (step_local (G, s) (G', s) c (A _)) as [R S]. split; [exact R|].
  intro h. destruct (in_dec Nat.eq_dec h (handles c)) as [Hc|Hc]; [apply S; exact Hc|].
  rewrite !step_frame by exact Hc. reflexivity.
Qed.

(* two histories with the same slice towards a call give that call the same result: in particular
   calls on unrelated objects can be inserted or deleted freely *)
Corollary same_slice_same_result : forall pre1 pre2 c x y, (forall h, snd x h = snd y h) ->
  slice (handles c) pre1 = slice (handles c) pre2 ->
  snd (step (fst (run_history x pre1)) c) = snd (step (fst (run_history y pre2)) c).
Proof.
  intros pre1 pre2 c x y E S.
  rewrite (history_slice pre1 c x y E). rewrite S. symmetry. apply history_slice. intro h. reflexivity.
Qed.

(* ---- ledger ------------------------------------------------------------------------------------------ *)
Lemma frees_state : forall L x, let x' := fst (run_history x (map CFree L)) in
  (forall h, In h L -> snd x' h = None) /\ (forall h, ~ In h L -> snd x' h = snd x h).
Proof.
  induction L as [|k L IH]; intros [G s]; simpl.
  - split; [tauto|reflexivity].
  - specialize (IH (G, upd s k None)). simpl in IH.
    destruct (History.run_history acore (G, upd s k None) (map CFree L)) as [x2 rs] eqn:E. simpl in *.
    destruct IH as [I1 I2]. split.
    + intros h [<-|Hh].
      * destruct (in_dec Nat.eq_dec k L) as [Hk|Hk]; [apply I1; exact Hk|]. rewrite I2 by exact Hk. apply upd_same.
      * apply I1. exact Hh.
    + intros h N. rewrite I2 by tauto. apply upd_other. intro; subst; tauto.
Qed.

Lemma filter_none (s : store) : forall L, (forall h, In h L -> s h = None) ->
  filter (fun h => match s h with Some _ => true | None => false end) L = [].
Proof.
  induction L as [|h L IH]; intro F; simpl; [reflexivity|].
  rewrite (F h) by (left; reflexivity). apply IH. intros k Hk. apply F. right. exact Hk.
Qed.

Theorem ledger_empty_after_free : forall cs x n,
  live (snd (fst (run_history (fst (run_history x cs)) (map CFree (seq 0 n))))) n = 0%nat.
Proof.
  intros cs x n. destruct (frees_state (seq 0 n) (fst (run_history x cs))) as [F _].
  unfold live. rewrite filter_none; [reflexivity|exact F].
Qed.

End HistProofs.

(* ---- kalign_write_msa is read-only: it changes neither the store nor the ambient state, so the write calls of a history can
   be dropped without changing any later result ---------------------------------------------------------------------------- *)
Section WriteReadOnly.
Variable acore : ambient -> Z -> params -> list (list Z) -> list (list Z) -> list (list nat).
Definition is_write (c : call) : bool := match c with CWrite _ _ _ _ _ => true | _ => false end.
Definition drop_writes (cs : list call) : list call := filter (fun c => negb (is_write c)) cs.

Lemma step_write_read_only x h fmt b d v : fst (step acore x (CWrite h fmt b d v)) = x.
Proof. destruct x as [G s]. cbn [step]. destruct (s h); reflexivity. Qed.

Lemma run_history_drop_writes : forall cs x, fst (run_history acore x cs) = fst (run_history acore x (drop_writes cs)).
Proof.
  induction cs as [|c cs IH]; intros x; [reflexivity|].
  cbn [run_history drop_writes filter]. destruct (step acore x c) as [x' r] eqn:E.
  destruct (is_write c) eqn:W; cbn [negb].
  - destruct c; try discriminate. pose proof (step_write_read_only x h fmt basename date version) as Q. rewrite E in Q. cbn [fst] in Q. subst x'.
    specialize (IH x). fold (drop_writes cs). destruct (run_history acore x cs) as [y rs]. cbn [fst] in *. exact IH.
  - cbn [run_history]. rewrite E. specialize (IH x'). fold (drop_writes cs).
    destruct (run_history acore x' cs) as [y rs]. destruct (run_history acore x' (drop_writes cs)) as [y2 rs2]. cbn [fst] in *. exact IH.
Qed.
End WriteReadOnly.

(* ---- kalign_free_msa forgets: after CFree h the handle holds nothing, whatever it held before; so, walking a history backwards
   for the calls an object was built by, the walk can stop following h at a CFree h ------------------------------------------- *)
Section FreeForgets.
Variable acore : ambient -> Z -> params -> list (list Z) -> list (list Z) -> list (list nat).
Lemma step_free_forgets x y h :
  (forall h', h' <> h -> snd x h' = snd y h') ->
  snd (step acore x (CFree h)) = snd (step acore y (CFree h)) /\
  forall h', snd (fst (step acore x (CFree h))) h' = snd (fst (step acore y (CFree h))) h'.
Proof.
  destruct x as [G s], y as [G' s']. cbn [snd fst step]. intros H. split; [reflexivity|].
  intros h'. unfold upd. destruct (Nat.eqb_spec h' h) as [->|N]; [rewrite ?Nat.eqb_refl; reflexivity|].
  destruct (Nat.eqb h h') eqn:E; [apply Nat.eqb_eq in E; congruence|]. apply H. exact N.
Qed.
End FreeForgets.
