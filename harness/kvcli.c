/* The real command-line program (src/run_kalign.c + src/parameters.c, unmodified, included
   textually) with two additions: (1) when KV_TRACE names a file, the guarded observation
   callback appends the parameters kalign_run actually used and the detected biotype to it;
   (2) "--kv-typeword" mode exposes the static function set_aln_type for the C09 correspondence. */
#include <stdio.h>
#include <stdlib.h>
#include <string.h>
#include <stdint.h>
#define main kalign_cli_main
#include "run_kalign.c"
#undef main
#include "parameters.c"
#include "aln_param.h"
#include "msa_struct.h"
#include "kalign_verif.h"

static FILE* kv_trace = NULL;
static uint32_t kv_fbits(float f){ uint32_t u; memcpy(&u,&f,4); return u; }

static void kv_cli_cb(int ev, const void* p, const void* q, int x, int y, int z)
{
        (void)y;(void)z;
        if(!kv_trace){ return; }
        if(ev == KV_EV_PARAMS){
                const struct msa* msa = p;
                const struct aln_param* ap = q;
                fprintf(kv_trace, "PARAMS type=%d biotype=%d gpo=%u gpe=%u tgpe=%u subm=", x, (int)msa->biotype, kv_fbits(ap->gpo), kv_fbits(ap->gpe), kv_fbits(ap->tgpe));
                for(int i = 0; i < 23;i++){
                        for(int j = 0; j < 23;j++){ fprintf(kv_trace,"%s%u", j ? ",":"", kv_fbits(ap->subm[i][j])); }
                        if(i != 22){ fprintf(kv_trace,";"); }
                }
                fprintf(kv_trace,"\n");
                fflush(kv_trace);
        }
}

int main(int argc, char* argv[])
{
        if(argc >= 2 && strcmp(argv[1], "--kv-typeword") == 0){
                char* line = NULL; size_t cap = 0; ssize_t n;
                while((n = getline(&line,&cap,stdin)) != -1){
                        if(n && line[n-1] == '\n'){ line[n-1] = 0; }
                        /* "typeword NULL" | "typeword <hex>" | "typeword" (empty string) */
                        char* a = line;
                        if(strncmp(a,"typeword",8) == 0){ a += 8; }
                        while(*a == ' '){ a++; }
                        int type = -99;
                        int r;
                        freopen("/dev/null","w",stderr);
                        if(strcmp(a,"NULL") == 0){
                                r = set_aln_type(NULL, &type);
                        }else{
                                int len = (int)strlen(a) / 2;
                                char* w = malloc(len+1);
                                for(int i = 0; i < len;i++){ unsigned v; sscanf(a+2*i, "%2x", &v); w[i] = (char)v; }
                                w[len] = 0;
                                r = set_aln_type(w, &type);
                                free(w);
                        }
                        if(r == OK){ printf("OK %d\n", type); }else{ printf("FAIL\n"); }
                        fflush(stdout);
                }
                free(line);
                return 0;
        }
        char* tr = getenv("KV_TRACE");
        if(tr){
                kv_trace = fopen(tr, "a");
                kalign_verif_cb = kv_cli_cb;
        }
        int r = kalign_cli_main(argc, argv);
        if(kv_trace){ fclose(kv_trace); }
        return r;
}
