"""Case generators shared by the checks.  Every random choice derives from the check's Rng."""
import struct

DNA = 'ACGT'
DNA_IUPAC = 'ACGTUNRYSWKMBDHV'
PROT = 'ACDEFGHIKLMNPQRSTVWY'
PROT_AMB = PROT + 'BZX'
NG = 3212836864  # -1.0f : "not given"

def fbits(x):
    return struct.unpack('<I', struct.pack('<f', x))[0]

def hexs(s):
    return s.encode('latin-1').hex() if s else '-'

def rand_seq(rng, alphabet, n):
    return ''.join(alphabet[rng.below(len(alphabet))] for _ in range(n))

def mutate(rng, s, alphabet, sub=8, indel=6, maxindel=4):
    """substitutions / indels, rates in percent per position"""
    out = []
    i = 0
    while i < len(s):
        r = rng.below(100)
        if r < sub:
            out.append(alphabet[rng.below(len(alphabet))]); i += 1
        elif r < sub + indel // 2:
            i += rng.range(1, maxindel)                       # deletion
        elif r < sub + indel:
            out.append(rand_seq(rng, alphabet, rng.range(1, maxindel))); out.append(s[i]); i += 1   # insertion
        else:
            out.append(s[i]); i += 1
    r = ''.join(out)
    return r if r else s[:1]

def overhang(rng, s, alphabet, maxo):
    k = rng.below(4)
    if k == 0:
        return rand_seq(rng, alphabet, rng.range(1, maxo)) + s
    if k == 1:
        return s + rand_seq(rng, alphabet, rng.range(1, maxo))
    if k == 2 and len(s) > 4:
        c = rng.range(1, min(maxo, len(s) // 2))
        return s[c:]
    return s

def family(rng, kind='dna', nseq=None, length=None, small=True):
    """Returns (family name, list of sequences).  Structured, mostly valid inputs."""
    alpha = DNA if kind == 'dna' else PROT
    alpha_full = DNA_IUPAC if kind == 'dna' else PROT_AMB
    fam = rng.choice(['evolved', 'evolved', 'evolved', 'identical', 'duplicates', 'containment', 'ratio', 'periodic',
                      'boundary', 'overhang', 'ambiguity', 'case', 'short'])
    n = nseq or (rng.range(2, 9) if small else rng.choice([2, 3, 5, 8, 13, 31, 32, 33]))
    L = length or (rng.range(4, 60) if small else rng.choice([20, 59, 60, 61, 63, 64, 65, 127, 128, 129, 200]))
    root = rand_seq(rng, alpha, L)
    if fam == 'evolved':
        seqs = [root]
        while len(seqs) < n:
            seqs.append(mutate(rng, rng.choice(seqs), alpha))
    elif fam == 'identical':
        seqs = [root] * n
    elif fam == 'duplicates':
        base = [root, mutate(rng, root, alpha), mutate(rng, root, alpha, 20, 10)]
        seqs = [rng.choice(base) for _ in range(n)]
    elif fam == 'containment':
        seqs = [root]
        while len(seqs) < n:
            s = rng.choice(seqs)
            a = rng.below(max(1, len(s) // 2)); b = rng.range(a + 1, len(s))
            seqs.append(s[a:b])
    elif fam == 'ratio':
        seqs = [root * rng.range(2, 5)] + [rand_seq(rng, alpha, rng.range(1, 3)) for _ in range(n - 1)]
    elif fam == 'periodic':
        unit = rand_seq(rng, alpha, rng.range(1, 4))
        seqs = [(unit * (L // len(unit) + 1))[:rng.range(max(1, L - 6), L + 6)] for _ in range(n)]
    elif fam == 'boundary':
        Lb = rng.choice([1, 2, 59, 60, 61, 63, 64, 65, 127, 128, 129]) if not small else rng.choice([1, 2, 3, 59, 60, 61, 63, 64, 65])
        root = rand_seq(rng, alpha, Lb)
        seqs = [root] + [mutate(rng, root, alpha, 5, 3) for _ in range(n - 1)]
    elif fam == 'overhang':
        seqs = [overhang(rng, mutate(rng, root, alpha, 4, 2), alpha, max(2, L)) for _ in range(n)]
    elif fam == 'ambiguity':
        seqs = [mutate(rng, root, alpha_full if kind == 'protein' else 'ACGTACGTACGTACGTACGTACGTACGTACGTUNRYSWKMBDHV', 25 if kind == 'protein' else 12, 6) for _ in range(n)]
    elif fam == 'case':
        seqs = []
        for _ in range(n):
            s = mutate(rng, root, alpha)
            seqs.append(''.join(c.lower() if rng.chance(1, 2) else c for c in s))
    else:  # short
        seqs = [rand_seq(rng, alpha, rng.range(1, 4)) for _ in range(n)]
    # keep the kind unambiguous for detect_alphabet: make sure protein sets contain protein-only letters
    if kind == 'protein':
        po = 'DEFHIKLMPQRSVWYdefhiklmpqrsvwy'
        fixed = []
        for s in seqs:
            k = sum(1 for c in s if c in po)
            while 3 * k < len(s) + 1:            # at least a third protein-only letters in every sequence
                s = s + 'W'; k += 1
            fixed.append(s)
        seqs = fixed
    return fam, seqs

def names_for(rng, n, style=None):
    style = style or rng.choice(['plain', 'plain', 'punct', 'long', 'prefix', 'marker'])
    out = []
    for i in range(n):
        if style == 'plain':
            out.append('seq%d' % (i + 1))
        elif style == 'punct':
            out.append('%s|%d_%s.x-%d' % (rng.choice(['sp', 'tr', 'gi']), rng.below(100000), rand_seq(rng, 'ABCXYZ', 3), i))
        elif style == 'marker':      # names built around the words the format sniffer and the header parsers look for
            out.append(rng.choice(['CLUSTALW_ref_%d', 'my_CLUSTAL.run_%d', 'CLUSTAL_O_%d', 'PileUp.MSF_%d', 'MSF-%d', 'multiple_sequence_alignment_%d',
                                   'Name_%d', 'Len_%d', 'AA_MULTIPLE_ALIGNMENT_%d', 'Check_%d..']) % i)
        elif style == 'long':
            out.append('n%d_' % i + rand_seq(rng, 'abcdefghij0123456789_', rng.range(30, 120)))
        else:
            out.append('s' + '1' * (i + 1))
    return out

def fasta(names, seqs, width=60):
    out = []
    for nm, s in zip(names, seqs):
        out.append('>' + nm)
        for i in range(0, len(s), width):
            out.append(s[i:i + width])
        if not s:
            out.append('')
    return '\n'.join(out) + '\n'

def parse_fasta(text):
    names, rows = [], []
    for ln in text.split('\n'):
        if ln.startswith('>'):
            names.append(ln[1:]); rows.append('')
        elif names:
            rows[-1] += ln.strip()
    return names, rows

def parse_clustal(text):
    """independent minimal Clustal reader: header line, blocks of 'name  residues'."""
    lines = text.split('\n')
    names, rows = [], {}
    header = lines[0] if lines else ''
    for ln in lines[1:]:
        if not ln.strip() or ln[0] in ' \t':
            continue
        parts = ln.split()
        if len(parts) < 2:
            nm, seg = parts[0], ''
        else:
            nm, seg = parts[0], ''.join(parts[1:])
        if nm not in rows:
            names.append(nm); rows[nm] = ''
        rows[nm] += seg
    return header, names, [rows[n] for n in names]

def parse_msf(text):
    """independent minimal MSF reader: returns (header dict, names, rows)."""
    import re
    lines = text.split('\n')
    hdr = {'type_line': lines[0] if lines else '', 'names': [], 'lens': [], 'checks': []}
    i = 0
    while i < len(lines) and not lines[i].startswith('//'):
        ln = lines[i]
        m = re.search(r'MSF:\s*(\d+)\s+Type:\s*(\S)\s+.*Check:\s*(\d+)\s+\.\.', ln)
        if m:
            hdr['msf_len'] = int(m.group(1)); hdr['type'] = m.group(2); hdr['check'] = int(m.group(3))
        m = re.match(r'\s*Name:\s*(\S+)\s+Len:\s*(\d+)\s+Check:\s*(\d+)\s+Weight:\s*(\S+)', ln)
        if m:
            hdr['names'].append(m.group(1)); hdr['lens'].append(int(m.group(2))); hdr['checks'].append(int(m.group(3)))
        i += 1
    names, rows = [], {}
    for ln in lines[i + 1:]:
        if not ln.strip() or ln[0] in ' \t':
            continue
        parts = ln.split()
        nm, seg = parts[0], ''.join(parts[1:])
        if nm not in rows:
            names.append(nm); rows[nm] = ''
        rows[nm] += seg
    return hdr, names, [rows[n] for n in names]

def gcg_checksum(row):
    chk = 0
    for i, c in enumerate(row):
        chk = (chk + (i % 57 + 1) * ord(c.upper())) % 10000
    return chk
