(* C06 / C15: the Clustal and MSF writers against the Clustal and MSF readers, file level. *)
From KV Require Import Base Params Sort Detect Weave WeaveProofs Cmp Formats FormatsProofs.
From Coq Require Import String Lia.
Import Coq.Init.Datatypes.
Import ListNotations.
Local Open Scope list_scope.
Local Open Scope Z_scope.

(* ---- byte-table facts -------------------------------------------------------------------------------- *)
Definition bytes256 : list Z := map (fun i => Z.of_nat i - 128) (seq 0 256).
Lemma in_bytes256 c : -128 <= c < 128 -> In c bytes256.
Proof. intros H. apply in_map_iff. exists (Z.to_nat (c + 128)). split; [lia|]. apply in_seq. lia. Qed.

Lemma ctype_range t c : length t = 256%nat -> ctype_lookup t c = true -> -128 <= c < 128.
Proof.
  intros L H. unfold ctype_lookup, nthZ in H. destruct (c + 128 <? 0) eqn:E; [discriminate|].
  apply Z.ltb_ge in E. destruct (Z_lt_dec c 128); [lia|]. exfalso.
  rewrite nth_overflow in H; [discriminate|]. lia.
Qed.

Lemma space_facts_b : forallb (fun c => if isspace c then iscntrl c || (c =? 32) else true) bytes256 = true.
Proof. vm_compute. reflexivity. Qed.
Lemma isspace_cases c : isspace c = true -> iscntrl c = true \/ c = 32.
Proof.
  intros H. pose proof (ctype_range ctype_isspace c eq_refl H) as R.
  pose proof space_facts_b as T. rewrite forallb_forall in T. specialize (T c (in_bytes256 c R)). rewrite H in T.
  apply orb_true_iff in T. destruct T as [T|T]; [left; exact T|right; apply Z.eqb_eq; exact T].
Qed.

Definition nospace (n : list Z) : Prop := Forall (fun c => isspace c = false) n.
Lemma name_ok_nospace n : name_ok n -> nospace n.
Proof.
  intros (_ & Hc & H32 & _). apply Forall_forall. intros c Hin.
  destruct (isspace c) eqn:E; [|reflexivity]. exfalso.
  destruct (isspace_cases c E) as [K| ->]; [|auto].
  unfold clean_line in Hc. rewrite Forall_forall in Hc. rewrite (Hc c Hin) in K. discriminate.
Qed.

Lemma space_is_space : isspace 32 = true. Proof. vm_compute. reflexivity. Qed.
Lemma space_not_alpha : isalpha 32 = false. Proof. vm_compute. reflexivity. Qed.
Lemma space_not_punct : ispunct 32 = false. Proof. vm_compute. reflexivity. Qed.
Lemma space_not_cntrl : iscntrl 32 = false. Proof. vm_compute. reflexivity. Qed.

Lemma norm_spaces k : norm (repeat space k) = [].
Proof.
  induction k as [|k IH]; [reflexivity|]. unfold norm in *. cbn [repeat flat_map]. rewrite IH.
  unfold norm_byte, space. rewrite space_not_alpha, space_not_punct. reflexivity.
Qed.
Lemma norm_app a b : norm (a ++ b) = norm a ++ norm b.
Proof. unfold norm. apply flat_map_app. Qed.

(* ---- list helpers -------------------------------------------------------------------------------------- *)
Lemma update_nth_app {A} (f : A -> A) : forall pre x suf, update_nth (length pre) f (pre ++ x :: suf) = pre ++ f x :: suf.
Proof. induction pre as [|p pre IH]; intros x suf; cbn [length app update_nth]; [reflexivity|]. rewrite IH. reflexivity. Qed.

Lemma pad_recs_eq l n : pad_recs l n = if (length l <? n)%nat then l ++ repeat (empty_rec []) (n - length l) else l.
Proof. destruct l; reflexivity. Qed.

Lemma firstn_add {A} : forall a k (l : list A), firstn (a + k) l = firstn a l ++ firstn k (skipn a l).
Proof.
  induction a as [|a IH]; intros k l; [reflexivity|]. destruct l as [|x l]; [cbn; rewrite firstn_nil; reflexivity|].
  cbn [Nat.add firstn skipn app]. rewrite IH. reflexivity.
Qed.

Lemma max_name_len_ge rows nr : In nr rows -> (length (cname (fst nr)) <= max_name_len rows)%nat.
Proof.
  unfold max_name_len. induction rows as [|r rows IH]; intros H; [contradiction|].
  cbn [map fold_right]. destruct H as [->|H]; [lia|]. specialize (IH H). lia.
Qed.

(* ---- the block lines ------------------------------------------------------------------------------------- *)
Definition chunk_of (alnlen b : nat) (row : list Z) : list Z := firstn 60 (skipn (60 * b) (firstn alnlen row)).
Definition line_of (mx alnlen b : nat) (nr : list Z * list Z) : list Z := block_line mx (fst nr) (chunk_of alnlen b (snd nr)).

Lemma blocks_eq alnlen rows :
  blocks alnlen rows = flat_map (fun b => map (line_of (max_name_len rows) alnlen b) rows ++ [[nl]]) (seq 0 ((alnlen + 59) / 60)).
Proof. reflexivity. Qed.

Definition blocks2 (alnlen : nat) (rows : list (list Z * list Z)) : list (list Z) :=
  flat_map (fun b => map (line_of (max_name_len rows) alnlen b) rows ++ [[]; []]) (seq 0 ((alnlen + 59) / 60)).

Lemma unlines_app a b : unlines (a ++ b) = unlines a ++ unlines b.
Proof. unfold unlines. apply flat_map_app. Qed.

(* the "\n" the writers print as a line of its own is two empty lines *)
Lemma unlines_blocks2 pre alnlen rows : unlines (pre ++ blocks alnlen rows) = unlines (pre ++ blocks2 alnlen rows).
Proof.
  rewrite !unlines_app. f_equal. rewrite blocks_eq. unfold blocks2.
  induction (seq 0 ((alnlen + 59) / 60)) as [|b l IH]; [reflexivity|].
  cbn [flat_map]. rewrite !unlines_app, IH. reflexivity.
Qed.

(* a row is the concatenation of its chunks *)
Lemma chunk_step alnlen b row : length row = alnlen ->
  firstn (60 * S b) row = firstn (60 * b) row ++ chunk_of alnlen b row.
Proof.
  intros L. unfold chunk_of. rewrite (firstn_all2 (n := alnlen)) by lia.
  replace (60 * S b)%nat with (60 * b + 60)%nat by lia. apply firstn_add.
Qed.

Lemma Forall_firstn {A} (P : A -> Prop) : forall n l, Forall P l -> Forall P (firstn n l).
Proof. induction n as [|n IH]; intros l H; [constructor|]. destruct H; cbn [firstn]; constructor; auto. Qed.
Lemma Forall_skipn {A} (P : A -> Prop) : forall n l, Forall P l -> Forall P (skipn n l).
Proof. induction n as [|n IH]; intros l H; [exact H|]. destruct H; cbn [skipn]; [constructor|auto]. Qed.

Lemma chunk_rowchars alnlen b row : good_row row -> Forall rowchar (chunk_of alnlen b row).
Proof. intros G. unfold chunk_of. apply Forall_firstn, Forall_skipn, Forall_firstn. exact G. Qed.

(* what the readers do with the rest of a block line: blanks are dropped, the chunk is appended *)
Lemma block_line_split mx name chunk : (length name <= 256)%nat ->
  block_line mx name chunk = name ++ repeat space (mx + 5 - length name) ++ chunk.
Proof. intros L. unfold block_line, cname. rewrite firstn_all2 by lia. reflexivity. Qed.

Lemma skipn_app_exact {A} (a b : list A) : skipn (length a) (a ++ b) = b.
Proof. induction a; [reflexivity|]. cbn [length app skipn]. assumption. Qed.
Lemma firstn_app_exact {A} (a b : list A) : firstn (length a) (a ++ b) = a.
Proof. induction a; [reflexivity|]. cbn [length app firstn]. f_equal. assumption. Qed.

Lemma feed_block_rest r mx name chunk : rec_wf r -> (length name <= 256)%nat -> Forall rowchar chunk ->
  let r' := feed_line r (skipn (length name) (block_line mx name chunk)) in
  rec_wf r' /\ row_of r' = row_of r ++ chunk /\ rr_name r' = rr_name r /\ rr_res r' = rr_res r ++ filter isalpha chunk.
Proof.
  intros W L G. cbv zeta. rewrite block_line_split by exact L. rewrite skipn_app_exact.
  destruct (feed_line_row (repeat space (mx + 5 - length name) ++ chunk) r W) as (A & B & C & D).
  split; [exact A|split; [|split; [exact C|]]].
  - rewrite B, norm_app, norm_spaces, norm_rowchars by exact G. reflexivity.
  - rewrite D, filter_app. f_equal.
    assert (E : forall k, filter isalpha (repeat space k) = []).
    { induction k as [|k IH]; [reflexivity|]. cbn [repeat filter]. unfold space at 1. rewrite space_not_alpha. exact IH. }
    rewrite E. reflexivity.
Qed.

(* read_clu's name end: the first blank within the first 255 bytes *)
Lemma first_space_name : forall name i fuel rest, nospace name -> (length name <= fuel)%nat ->
  first_space (name ++ 32 :: rest) i fuel = (i + length name)%nat.
Proof.
  induction name as [|c name IH]; intros i fuel rest Hn Hf.
  - cbn [app length]. destruct fuel; cbn [first_space]; [lia|]. rewrite space_is_space. lia.
  - destruct fuel as [|f]; [cbn [length] in Hf; lia|]. cbn [app first_space].
    inversion Hn as [|? ? Hc Hn']; subst. rewrite Hc. rewrite IH; [cbn [length]; lia|exact Hn'|cbn [length] in Hf; lia].
Qed.

(* ---- Clustal ------------------------------------------------------------------------------------------------ *)
Section Body.
Variable alnlen mx : nat.
Definition row_ok (nr : list Z * list Z) : Prop :=
  name_ok (fst nr) /\ good_row (snd nr) /\ length (snd nr) = alnlen /\ (length (fst nr) <= 200)%nat /\ (length (fst nr) <= mx)%nat.

(* a record before / after block b has been read into it *)
Definition pre_slot (b : nat) (r : rrec) (nr : list Z * list Z) : Prop :=
  rec_wf r /\ row_of r = firstn (60 * b) (snd nr) /\ rr_res r = filter isalpha (firstn (60 * b) (snd nr)).
Definition slot (b : nat) (r : rrec) (nr : list Z * list Z) : Prop :=
  rec_wf r /\ rr_name r = fst nr /\ row_of r = firstn (60 * b) (snd nr) /\ rr_res r = filter isalpha (firstn (60 * b) (snd nr)).

Lemma line_shape b nr : row_ok nr ->
  line_of mx alnlen b nr = fst nr ++ 32 :: (repeat space (mx + 4 - length (fst nr)) ++ chunk_of alnlen b (snd nr)).
Proof.
  intros (_ & _ & _ & L200 & Lmx). unfold line_of. rewrite block_line_split by lia.
  replace (mx + 5 - length (fst nr))%nat with (S (mx + 4 - length (fst nr))) by lia. reflexivity.
Qed.

Lemma clu_step_line recs k h name tl : name <> [] -> nospace name -> (length name <= 255)%nat ->
  clu_step (recs, k, h) (name ++ 32 :: tl) =
  (update_nth k (fun r => feed_line (mkRR name (rr_res r) (rr_gaps r)) (32 :: tl)) (pad_recs recs (S k)), S k, count_line h (32 :: tl)).
Proof.
  intros Hne Hns Hl. destruct name as [|c0 nm]; [congruence|].
  unfold clu_step. cbn [app]. inversion Hns as [|? ? Hc0 _]; subst. rewrite Hc0.
  change (c0 :: nm ++ 32 :: tl) with ((c0 :: nm) ++ 32 :: tl).
  rewrite first_space_name by (assumption || lia). cbn [Nat.add].
  rewrite firstn_app_exact, skipn_app_exact. reflexivity.
Qed.

Lemma clu_rows b : forall rows_suf recs_pre recs_suf h,
  Forall row_ok rows_suf ->
  (Forall2 (pre_slot b) recs_suf rows_suf \/ (recs_suf = [] /\ b = 0%nat)) ->
  exists recs' h',
    fold_left clu_step (map (line_of mx alnlen b) rows_suf) (recs_pre ++ recs_suf, length recs_pre, h) =
      (recs_pre ++ recs', (length recs_pre + length rows_suf)%nat, h') /\
    Forall2 (slot (S b)) recs' rows_suf.
Proof.
  induction rows_suf as [|nr rows' IH]; intros recs_pre recs_suf h Hok Hs.
  - assert (recs_suf = []) as -> by (destruct Hs as [Hs|[Hs _]]; [inversion Hs; reflexivity|exact Hs]).
    exists [], h. cbn [map fold_left length]. rewrite Nat.add_0_r. split; [reflexivity|constructor].
  - inversion Hok as [|? ? Hnr Hok']; subst.
    pose proof Hnr as (Hname & Hgood & Hlen & L200 & Lmx).
    (* the slot being filled, after padding *)
    assert (exists r rs, pad_recs (recs_pre ++ recs_suf) (S (length recs_pre)) = recs_pre ++ r :: rs /\ pre_slot b r nr /\
                         (Forall2 (pre_slot b) rs rows' \/ (rs = [] /\ b = 0%nat))) as (r & rs & Hpad & Hr & Hrs).
    { destruct Hs as [Hs|[-> ->]].
      - inversion Hs as [|r ? rs ? Hr Hrs']; subst. exists r, rs. split; [|split; [exact Hr|left; exact Hrs']].
        rewrite pad_recs_eq. rewrite app_length. cbn [length].
        destruct (Nat.ltb_spec (length recs_pre + S (length rs)) (S (length recs_pre))); [lia|reflexivity].
      - exists (empty_rec []), []. split; [|split; [split; [reflexivity|split; reflexivity]|right; split; reflexivity]].
        rewrite pad_recs_eq, app_nil_r.
        destruct (Nat.ltb_spec (length recs_pre) (S (length recs_pre))); [|lia].
        replace (S (length recs_pre) - length recs_pre)%nat with 1%nat by lia. reflexivity. }
    cbn [map fold_left]. rewrite (line_shape b nr Hnr).
    rewrite clu_step_line; [|destruct Hname as (Hne & _); exact Hne|apply name_ok_nospace; exact Hname|lia].
    rewrite Hpad, update_nth_app.
    set (r1 := feed_line _ _).
    assert (Hr1 : slot (S b) r1 nr).
    { destruct Hr as (W & R & RS).
      pose proof (feed_block_rest (mkRR (fst nr) (rr_res r) (rr_gaps r)) mx (fst nr) (chunk_of alnlen b (snd nr))) as F.
      rewrite block_line_split, skipn_app_exact in F by lia.
      replace (mx + 5 - length (fst nr))%nat with (S (mx + 4 - length (fst nr))) in F by lia.
      specialize (F W ltac:(lia) (chunk_rowchars alnlen b (snd nr) Hgood)). cbv zeta in F.
      assert (E : r1 = feed_line (mkRR (fst nr) (rr_res r) (rr_gaps r))
                         (repeat space (S (mx + 4 - length (fst nr))) ++ chunk_of alnlen b (snd nr))) by reflexivity.
      rewrite E. destruct F as (F1 & F2 & F3 & F4). split; [exact F1|split; [exact F3|split]].
      - rewrite F2. change (row_of (mkRR (fst nr) (rr_res r) (rr_gaps r))) with (row_of r). rewrite R.
        symmetry. apply chunk_step. exact Hlen.
      - rewrite F4. cbn [rr_res]. rewrite RS, <- filter_app. f_equal. symmetry. apply chunk_step. exact Hlen. }
    destruct (IH (recs_pre ++ [r1]) rs (count_line h (32 :: repeat space (mx + 4 - length (fst nr)) ++ chunk_of alnlen b (snd nr))) Hok' Hrs)
      as (recs'' & h'' & Hf & Hall).
    rewrite app_length in Hf. cbn [length] in Hf. rewrite <- app_assoc in Hf. cbn [app] in Hf.
    replace (length recs_pre + 1)%nat with (S (length recs_pre)) in Hf by lia.
    exists (r1 :: recs''), h''. split.
    + rewrite Hf. rewrite <- app_assoc. cbn [app length]. f_equal. f_equal. lia.
    + constructor; assumption.
Qed.
End Body.

Lemma clu_step_blank recs k h : clu_step (recs, k, h) [] = (recs, 0%nat, h).
Proof. reflexivity. Qed.

Lemma clu_block alnlen mx b rows recs h : Forall (row_ok alnlen mx) rows ->
  (Forall2 (pre_slot b) recs rows \/ (recs = [] /\ b = 0%nat)) ->
  exists recs' h', fold_left clu_step (map (line_of mx alnlen b) rows ++ [[]; []]) (recs, 0%nat, h) = (recs', 0%nat, h') /\
                   Forall2 (slot (S b)) recs' rows.
Proof.
  intros Hok Hs. destruct (clu_rows alnlen mx b rows [] recs h Hok Hs) as (recs' & h' & Hf & Hall).
  exists recs', h'. split; [|exact Hall]. rewrite fold_left_app. cbn [app length] in Hf. rewrite Hf.
  cbn [fold_left]. rewrite !clu_step_blank. reflexivity.
Qed.

Lemma Forall2_imp {A B} (P Q : A -> B -> Prop) : (forall x y, P x y -> Q x y) -> forall l l', Forall2 P l l' -> Forall2 Q l l'.
Proof. intros H l l' F. induction F; constructor; auto. Qed.

Lemma slot_pre b r nr : slot b r nr -> pre_slot b r nr.
Proof. intros (A & _ & C & D). split; [|split]; assumption. Qed.

Lemma clu_blocks alnlen mx rows : Forall (row_ok alnlen mx) rows -> forall cnt b recs h,
  (Forall2 (pre_slot b) recs rows \/ (recs = [] /\ b = 0%nat)) ->
  exists recs' h',
    fold_left clu_step (flat_map (fun b => map (line_of mx alnlen b) rows ++ [[]; []]) (seq b cnt)) (recs, 0%nat, h) = (recs', 0%nat, h') /\
    ((cnt = 0%nat /\ recs' = recs) \/ Forall2 (slot (b + cnt)) recs' rows).
Proof.
  intros Hok. induction cnt as [|cnt IH]; intros b recs h Hs.
  - exists recs, h. split; [reflexivity|left; split; reflexivity].
  - cbn [seq flat_map]. rewrite fold_left_app.
    destruct (clu_block alnlen mx b rows recs h Hok Hs) as (r1 & h1 & F1 & A1). rewrite F1.
    destruct (IH (S b) r1 h1) as (r2 & h2 & F2 & A2).
    + left. eapply Forall2_imp; [|exact A1]. intros x y. apply slot_pre.
    + exists r2, h2. split; [exact F2|right]. destruct A2 as [[-> ->]|A2].
      * rewrite Nat.add_1_r. exact A1.
      * replace (b + S cnt)%nat with (S b + cnt)%nat by lia. exact A2.
Qed.

Lemma rows_of_slots alnlen nbk : forall recs rows, (alnlen <= 60 * nbk)%nat ->
  Forall (fun nr => length (snd nr) = alnlen) rows -> Forall2 (slot nbk) recs rows -> rows_of recs = rows.
Proof.
  intros recs rows Hn Hl H. induction H as [|r nr recs rows (W & N & R & _) H IH]; [reflexivity|].
  inversion Hl as [|? ? L Hl']; subst. unfold rows_of in *. cbn [map]. rewrite IH by exact Hl'. f_equal.
  unfold row_of in R. rewrite N, R, firstn_all2 by lia. destruct nr; reflexivity.
Qed.

(* what the aligner receives: names and residues (kalign_run de-aligns first) *)
Definition records_of (recs : list rrec) : list (list Z * list Z) := map (fun r => (rr_name r, rr_res r)) recs.
Definition residues_of (rows : list (list Z * list Z)) : list (list Z * list Z) := map (fun nr => (fst nr, filter isalpha (snd nr))) rows.

Lemma records_of_slots alnlen nbk : forall recs rows, (alnlen <= 60 * nbk)%nat ->
  Forall (fun nr => length (snd nr) = alnlen) rows -> Forall2 (slot nbk) recs rows -> records_of recs = residues_of rows.
Proof.
  intros recs rows Hn Hl H. induction H as [|r nr recs rows (W & N & _ & RS) H IH]; [reflexivity|].
  inversion Hl as [|? ? L Hl']; subst. unfold records_of, residues_of in *. cbn [map]. rewrite IH by exact Hl'. f_equal.
  rewrite N, RS, firstn_all2 by lia. reflexivity.
Qed.

Lemma contains_app_l w : forall x hay, contains hay w = true -> contains (x ++ hay) w = true.
Proof.
  induction x as [|c x IH]; intros hay H; [exact H|]. cbn [app contains]. rewrite (IH hay H). apply orb_true_r.
Qed.

Definition clu_header (version : list Z) : list Z :=
  bytes_of_string "Kalign ("%string ++ version ++ bytes_of_string ") multiple sequence alignment"%string.

Lemma clean_app a b : clean_line a -> clean_line b -> clean_line (a ++ b).
Proof. unfold clean_line. intros. apply Forall_app. split; assumption. Qed.
Lemma clean_spaces k : clean_line (repeat space k).
Proof. induction k; [constructor|]. constructor; [exact space_not_cntrl|assumption]. Qed.
Lemma clean_rowchars l : Forall rowchar l -> clean_line l.
Proof. intros H. eapply Forall_impl; [|exact H]. intros c Hc. apply (rowchar_facts c Hc). Qed.

Lemma line_clean alnlen mx b nr : row_ok alnlen mx nr -> clean_line (line_of mx alnlen b nr).
Proof.
  intros H. pose proof H as ((_ & Hc & _) & Hg & _ & L200 & _). unfold line_of. rewrite block_line_split by lia.
  apply clean_app; [exact Hc|]. apply clean_app; [apply clean_spaces|]. apply clean_rowchars, chunk_rowchars. exact Hg.
Qed.

Lemma blocks2_clean alnlen rows : Forall (row_ok alnlen (max_name_len rows)) rows -> Forall clean_line (blocks2 alnlen rows).
Proof.
  intros Hok. unfold blocks2. induction (seq 0 ((alnlen + 59) / 60)) as [|b l IH]; [constructor|].
  cbn [flat_map]. apply Forall_app. split; [|exact IH]. apply Forall_app. split.
  - apply Forall_forall. intros ln Hin. apply in_map_iff in Hin. destruct Hin as (nr & <- & Hin).
    apply line_clean. rewrite Forall_forall in Hok. apply Hok. exact Hin.
  - repeat constructor.
Qed.

Lemma rows_ok_mx alnlen rows :
  Forall (fun nr => name_ok (fst nr) /\ good_row (snd nr) /\ length (snd nr) = alnlen /\ (length (fst nr) <= 200)%nat) rows ->
  Forall (row_ok alnlen (max_name_len rows)) rows.
Proof.
  intros H. apply Forall_forall. intros nr Hin. rewrite Forall_forall in H. destruct (H nr Hin) as (A & B & C & D).
  repeat split; try assumption; try apply A.
  pose proof (max_name_len_ge rows nr Hin) as M. unfold cname in M. rewrite firstn_all2 in M by lia. exact M.
Qed.

(* C06, Clustal at file level *)
Theorem read_one_written_clu version rows alnlen :
  clean_line version -> rows <> [] ->
  Forall (fun nr => name_ok (fst nr) /\ good_row (snd nr) /\ length (snd nr) = alnlen /\ (length (fst nr) <= 200)%nat) rows ->
  (1 <= alnlen)%nat ->
  exists m, read_one (write_clu version alnlen rows) = Some (Some m) /\ rows_of (m_recs m) = rows /\
            records_of (m_recs m) = residues_of rows.
Proof.
  intros Hv Hne Hall Hlen.
  pose proof (rows_ok_mx alnlen rows Hall) as Hok.
  set (nbk := ((alnlen + 59) / 60)%nat).
  assert (Hnb : (alnlen <= 60 * nbk)%nat /\ (1 <= nbk)%nat).
  { unfold nbk. pose proof (Nat.div_mod (alnlen + 59) 60 ltac:(lia)). pose proof (Nat.mod_upper_bound (alnlen + 59) 60 ltac:(lia)). lia. }
  destruct (clu_blocks alnlen (max_name_len rows) rows Hok nbk 0%nat [] (repeat 0 128)) as (recs & h & Hf & Hs).
  { right. split; reflexivity. }
  destruct Hs as [[Hz _]|Hs]; [lia|]. cbn [Nat.add] in Hs.
  exists (mkM recs h). split.
  - unfold read_one, write_clu. fold (clu_header version).
    change (clu_header version :: [] :: blocks alnlen rows) with ([clu_header version; []] ++ blocks alnlen rows).
    rewrite unlines_blocks2. rewrite read_lines_unlines.
    + cbn [app]. 
      assert (Hl1 : Nat.eqb (length (clu_header version)) 1 = false).
      { unfold clu_header. rewrite app_length. change (length (bytes_of_string "Kalign ("%string)) with 8%nat. reflexivity. }
      rewrite Hl1.
      assert (Hd : detect_format (clu_header version :: [] :: blocks2 alnlen rows) = FORMAT_CLU).
      { unfold detect_format. cbn [firstn existsb].
        assert (hint_clu (clu_header version) = true) as ->.
        { unfold hint_clu, has. unfold clu_header. rewrite app_assoc.
          rewrite (contains_app_l (bytes_of_string s_clu1)); [reflexivity|]. vm_compute. reflexivity. }
        reflexivity. }
      rewrite Hd. change (FORMAT_CLU =? FORMAT_FA) with false. change (FORMAT_CLU =? FORMAT_MSF) with false.
      change (FORMAT_CLU =? FORMAT_CLU) with true. cbv iota.
      unfold read_clu. cbn [tl fold_left]. rewrite clu_step_blank.
      unfold blocks2. fold nbk. rewrite Hf. reflexivity.
    + cbn [app]. constructor; [|constructor; [constructor|apply blocks2_clean; exact Hok]].
      unfold clu_header. apply clean_app; [|apply clean_app; [exact Hv|]];
        (apply Forall_forall; intros c Hc; vm_compute in Hc; repeat (destruct Hc as [<-|Hc]; [vm_compute; reflexivity|]); contradiction).
  - assert (HL : Forall (fun nr => length (snd nr) = alnlen) rows) by (eapply Forall_impl; [|exact Hall]; cbn beta; tauto).
    cbn [m_recs]. split; [apply (rows_of_slots alnlen nbk recs rows); [apply Hnb|exact HL|exact Hs]|].
    apply (records_of_slots alnlen nbk recs rows); [apply Hnb|exact HL|exact Hs].
Qed.

(* ---- MSF ---------------------------------------------------------------------------------------------------- *)
Definition digitish (c : Z) : Prop := c = 45 \/ 48 <= c <= 57.
Lemma digits_fuel_chars : forall fuel n acc, 0 <= n -> Forall digitish acc -> Forall digitish (digits_fuel fuel n acc).
Proof.
  induction fuel as [|f IH]; intros n acc Hn Ha; cbn [digits_fuel]; [exact Ha|].
  destruct (Z.ltb_spec n 10).
  - constructor; [right; lia|exact Ha].
  - apply IH; [apply Z.div_pos; lia|]. constructor; [|exact Ha]. right.
    pose proof (Z.mod_pos_bound n 10 ltac:(lia)). lia.
Qed.
Lemma decimal_chars n : Forall digitish (decimal n).
Proof.
  unfold decimal. destruct (Z.ltb_spec n 0).
  - constructor; [left; reflexivity|]. apply digits_fuel_chars; [lia|constructor].
  - apply digits_fuel_chars; [lia|constructor].
Qed.
Lemma digitish_facts_b : forallb (fun c => if (c =? 45) || ((48 <=? c) && (c <=? 57)) then negb (iscntrl c) && negb (c =? 47) else true) bytes256 = true.
Proof. vm_compute. reflexivity. Qed.
Lemma digitish_facts c : digitish c -> iscntrl c = false /\ c <> 47.
Proof.
  intros H. assert (R : -128 <= c < 128) by (destruct H; lia).
  pose proof digitish_facts_b as T. rewrite forallb_forall in T. specialize (T c (in_bytes256 c R)).
  assert (E : (c =? 45) || ((48 <=? c) && (c <=? 57)) = true).
  { destruct H as [->|H]; [reflexivity|]. apply orb_true_iff. right. apply andb_true_iff. split; apply Z.leb_le; lia. }
  rewrite E in T. apply andb_true_iff in T. destruct T as [T1 T2].
  apply negb_true_iff in T1, T2. apply Z.eqb_neq in T2. split; assumption.
Qed.

(* "tame" byte strings: no control byte and no '/' *)
Definition tame (l : list Z) : Prop := clean_line l /\ ~ In 47 l.
Lemma tame_app a b : tame a -> tame b -> tame (a ++ b).
Proof. intros [A1 A2] [B1 B2]. split; [apply clean_app; assumption|]. intro H. apply in_app_or in H. tauto. Qed.
Lemma tame_nil : tame []. Proof. split; [constructor|intros []]. Qed.
Lemma tame_spaces k : tame (repeat space k).
Proof. split; [apply clean_spaces|]. intro H. apply repeat_spec in H. discriminate. Qed.
Lemma tame_decimal n : tame (decimal n).
Proof.
  pose proof (decimal_chars n) as H. split.
  - eapply Forall_impl; [|exact H]. intros c Hc. apply (digitish_facts c Hc).
  - intro Hin. rewrite Forall_forall in H. destruct (digitish_facts 47 (H _ Hin)) as [_ K]. congruence.
Qed.
Lemma tame_pad w l : tame l -> tame (pad_left w l).
Proof. intros H. unfold pad_left. apply tame_app; [apply tame_spaces|exact H]. Qed.
Lemma tame_rowchars l : Forall rowchar l -> tame l.
Proof.
  intros H. split; [apply clean_rowchars; exact H|]. intro Hin. rewrite Forall_forall in H.
  destruct (H _ Hin) as [K|K]; [|discriminate]. vm_compute in K. discriminate.
Qed.
Lemma tame_b l : forallb (fun c => negb (iscntrl c) && negb (c =? 47)) l = true -> tame l.
Proof.
  intros H. rewrite forallb_forall in H. split.
  - apply Forall_forall. intros c Hc. specialize (H c Hc). apply andb_true_iff in H. destruct H as [H _]. apply negb_true_iff in H. exact H.
  - intro Hc. specialize (H 47 Hc). apply andb_true_iff in H. destruct H as [_ H]. discriminate.
Qed.
Ltac tame_const := apply tame_b; vm_compute; reflexivity.
Ltac tame_split := repeat match goal with |- tame (_ ++ _) => apply tame_app end.

Definition name_line (mx alnlen : nat) (nr : list Z * list Z) : list Z :=
  bytes_of_string " Name: "%string ++ firstn mx (fst nr) ++ repeat space (mx - length (firstn mx (fst nr))) ++
  bytes_of_string "  Len:  "%string ++ pad_left 5 (decimal (Z.of_nat alnlen)) ++
  bytes_of_string "  Check: "%string ++ pad_left 4 (decimal (gcg_checksum (firstn alnlen (snd nr)))) ++
  bytes_of_string "  Weight: 1.00"%string.

Definition msf_title (basename date : list Z) (protein : bool) (alnlen : nat) (rows : list (list Z * list Z)) : list Z :=
  [space] ++ basename ++ bytes_of_string "  MSF: "%string ++ decimal (Z.of_nat alnlen) ++ bytes_of_string "  Type: "%string ++
       [if protein then 80 else 78] ++ bytes_of_string "  "%string ++ date ++ bytes_of_string "  Check: "%string ++
       decimal (gcg_mult alnlen rows) ++ bytes_of_string "  .."%string.

Definition msf_first (protein : bool) : list Z :=
  bytes_of_string (if protein then "!!AA_MULTIPLE_ALIGNMENT 1.0"%string else "!!NA_MULTIPLE_ALIGNMENT 1.0"%string).

Lemma write_msf_eq basename date protein alnlen rows :
  write_msf basename date protein alnlen rows =
  unlines (([msf_first protein; []; msf_title basename date protein alnlen rows; []] ++
            map (name_line (max_name_len rows) alnlen) rows ++ [[]; bytes_of_string "//"%string; []]) ++ blocks alnlen rows).
Proof. reflexivity. Qed.

Definition msf_row_ok (alnlen mx : nat) (nr : list Z * list Z) : Prop := row_ok alnlen mx nr /\ ~ In 47 (fst nr).

Lemma name_line_tame mx alnlen nr : msf_row_ok alnlen mx nr -> tame (name_line mx alnlen nr).
Proof.
  intros (((_ & Hc & _) & _ & _ & _ & Lmx) & H47). unfold name_line. rewrite firstn_all2 by exact Lmx.
  tame_split; try apply tame_spaces; try (apply tame_pad, tame_decimal); try (split; assumption); tame_const.
Qed.

Lemma take_name_name : forall name n t, nospace name -> (length name <= n)%nat -> take_name (name ++ 32 :: t) n = name.
Proof.
  induction name as [|c name IH]; intros n t Hn Hl.
  - cbn [app]. destruct n; cbn [take_name]; [reflexivity|]. rewrite space_is_space. reflexivity.
  - destruct n as [|n]; [cbn [length] in Hl; lia|]. cbn [app take_name].
    inversion Hn as [|? ? Hc Hn']; subst. rewrite Hc. f_equal. apply IH; [exact Hn'|cbn [length] in Hl; lia].
Qed.

Lemma spaces_then_space k X : exists t, repeat space k ++ 32 :: X = 32 :: t.
Proof. destruct k; cbn [repeat app]; eexists; reflexivity. Qed.

Lemma msf_header_name_line mx alnlen nr rest recs : msf_row_ok alnlen mx nr ->
  msf_header (name_line mx alnlen nr :: rest) recs = msf_header rest (recs ++ [empty_rec (fst nr)]).
Proof.
  intros Hok. pose proof (name_line_tame mx alnlen nr Hok) as [_ H47].
  destruct Hok as ((Hname & _ & _ & L200 & Lmx) & _).
  cbn [msf_header]. rewrite (byte_has _ "//"%string 47); [|left; reflexivity|exact H47].
  pose proof (name_ok_nospace _ Hname) as Hns. destruct Hname as (Hne & _).
  unfold name_line. rewrite firstn_all2 by exact Lmx.
  set (R := pad_left 5 _ ++ _).
  change (bytes_of_string " Name: "%string) with [32; 78; 97; 109; 101; 58; 32].
  change (bytes_of_string "  Len:  "%string) with [32; 32; 76; 101; 110; 58; 32; 32].
  set (name := fst nr) in *.
  destruct (spaces_then_space (mx - length name) (32 :: 76 :: 101 :: 110 :: 58 :: 32 :: 32 :: R)) as (t & Ht).
  assert (El : [32; 78; 97; 109; 101; 58; 32] ++ name ++ repeat space (mx - length name) ++ [32; 32; 76; 101; 110; 58; 32; 32] ++ R =
               32 :: 78 :: 97 :: 109 :: 101 :: 58 :: 32 :: (name ++ 32 :: t)).
  { cbn [app]. rewrite <- Ht. reflexivity. }
  assert (Hlen : has ([32; 78; 97; 109; 101; 58; 32] ++ name ++ repeat space (mx - length name) ++ [32; 32; 76; 101; 110; 58; 32; 32] ++ R) "Len:"%string = true).
  { unfold has. rewrite !app_assoc. rewrite <- (app_assoc _ [32; 32; 76; 101; 110; 58; 32; 32] R).
    apply contains_app_l. vm_compute bytes_of_string. cbn [app contains is_prefix Z.eqb Pos.eqb andb orb]. reflexivity. }
  rewrite Hlen. rewrite El.
  assert (Ha : after (bytes_of_string "Name:"%string) (32 :: 78 :: 97 :: 109 :: 101 :: 58 :: 32 :: name ++ 32 :: t) =
               Some (78 :: 97 :: 109 :: 101 :: 58 :: 32 :: name ++ 32 :: t)).
  { vm_compute bytes_of_string. cbn [after is_prefix Z.eqb Pos.eqb andb]. reflexivity. }
  rewrite Ha. cbn [skipn].
  assert (Hs : skip_spaces (32 :: name ++ 32 :: t) = name ++ 32 :: t).
  { cbn [skip_spaces]. rewrite space_is_space. destruct name as [|c0 nm]; [congruence|]. cbn [app skip_spaces].
    inversion Hns as [|? ? Hc0 _]; subst. rewrite Hc0. reflexivity. }
  rewrite Hs. rewrite take_name_name; [reflexivity|exact Hns|].
  cbn [length]. rewrite app_length. lia.
Qed.

Lemma msf_header_inert l rest recs : has l "//"%string = false -> after (bytes_of_string "Name:"%string) l = None ->
  msf_header (l :: rest) recs = msf_header rest recs.
Proof. intros H1 H2. cbn [msf_header]. rewrite H1, H2. reflexivity. Qed.

Lemma msf_header_names mx alnlen rest : forall rows recs, Forall (msf_row_ok alnlen mx) rows ->
  msf_header (map (name_line mx alnlen) rows ++ rest) recs = msf_header rest (recs ++ map (fun nr => empty_rec (fst nr)) rows).
Proof.
  induction rows as [|nr rows IH]; intros recs H.
  - cbn [map app]. rewrite app_nil_r. reflexivity.
  - inversion H as [|? ? Hnr H']; subst. cbn [map app]. rewrite msf_header_name_line by exact Hnr.
    rewrite IH by exact H'. rewrite <- app_assoc. reflexivity.
Qed.

Section MsfBody.
Variable alnlen mx : nat.

Lemma nth_app_exact {A} (pre : list A) x suf d : nth (length pre) (pre ++ x :: suf) d = x.
Proof. induction pre; [reflexivity|]. cbn [length app nth]. assumption. Qed.

Lemma msf_step_line recs_pre r rs h name tl : name <> [] -> nospace name -> (length name <= 255)%nat -> rr_name r = name ->
  msf_step (Some (recs_pre ++ r :: rs, length recs_pre, h)) (name ++ 32 :: tl) =
  Some (recs_pre ++ feed_line r (32 :: tl) :: rs, S (length recs_pre), count_line h (32 :: tl)).
Proof.
  intros Hne Hns Hl Hn. destruct name as [|c0 nm]; [congruence|].
  unfold msf_step. cbn [app]. inversion Hns as [|? ? Hc0 _]; subst. rewrite Hc0.
  rewrite app_length. cbn [length].
  destruct (Nat.leb_spec (length recs_pre + S (length rs)) (length recs_pre)); [lia|].
  rewrite nth_app_exact, Hn. rewrite Nat.min_l by lia.
  change (c0 :: nm ++ 32 :: tl) with ((c0 :: nm) ++ 32 :: tl).
  rewrite skipn_app_exact, update_nth_app. reflexivity.
Qed.

Lemma msf_rows b : forall rows_suf recs_pre recs_suf h,
  Forall (row_ok alnlen mx) rows_suf -> Forall2 (slot b) recs_suf rows_suf ->
  exists recs' h',
    fold_left msf_step (map (line_of mx alnlen b) rows_suf) (Some (recs_pre ++ recs_suf, length recs_pre, h)) =
      Some (recs_pre ++ recs', (length recs_pre + length rows_suf)%nat, h') /\
    Forall2 (slot (S b)) recs' rows_suf.
Proof.
  induction rows_suf as [|nr rows' IH]; intros recs_pre recs_suf h Hok Hs.
  - inversion Hs; subst. exists [], h. cbn [map fold_left length]. rewrite Nat.add_0_r. split; [reflexivity|constructor].
  - inversion Hok as [|? ? Hnr Hok']; subst. inversion Hs as [|r ? rs ? Hr Hrs]; subst.
    pose proof Hnr as (Hname & Hgood & Hlen & L200 & Lmx). destruct Hr as (W & N & R & RS).
    cbn [map fold_left]. rewrite (line_shape alnlen mx b nr Hnr).
    rewrite msf_step_line; [|destruct Hname as (Hne & _); exact Hne|apply name_ok_nospace; exact Hname|lia|exact N].
    set (r1 := feed_line _ _).
    assert (Hr1 : slot (S b) r1 nr).
    { pose proof (feed_block_rest r mx (fst nr) (chunk_of alnlen b (snd nr))) as F.
      rewrite block_line_split, skipn_app_exact in F by lia.
      replace (mx + 5 - length (fst nr))%nat with (S (mx + 4 - length (fst nr))) in F by lia.
      specialize (F W ltac:(lia) (chunk_rowchars alnlen b (snd nr) Hgood)). cbv zeta in F.
      assert (E : r1 = feed_line r (repeat space (S (mx + 4 - length (fst nr))) ++ chunk_of alnlen b (snd nr))) by reflexivity.
      rewrite E. destruct F as (F1 & F2 & F3 & F4). split; [exact F1|split; [rewrite F3; exact N|split]].
      - rewrite F2, R. symmetry. apply chunk_step. exact Hlen.
      - rewrite F4, RS, <- filter_app. f_equal. symmetry. apply chunk_step. exact Hlen. }
    destruct (IH (recs_pre ++ [r1]) rs (count_line h (32 :: repeat space (mx + 4 - length (fst nr)) ++ chunk_of alnlen b (snd nr))) Hok' Hrs)
      as (recs'' & h'' & Hf & Hall).
    rewrite app_length in Hf. cbn [length] in Hf. rewrite <- app_assoc in Hf. cbn [app] in Hf.
    replace (length recs_pre + 1)%nat with (S (length recs_pre)) in Hf by lia.
    exists (r1 :: recs''), h''. split.
    + rewrite Hf. rewrite <- app_assoc. cbn [app length]. f_equal. f_equal. f_equal. lia.
    + constructor; assumption.
Qed.

Lemma msf_step_blank recs k h : msf_step (Some (recs, k, h)) [] = Some (recs, 0%nat, h).
Proof. reflexivity. Qed.

Lemma msf_block b rows recs h : Forall (row_ok alnlen mx) rows -> Forall2 (slot b) recs rows ->
  exists recs' h', fold_left msf_step (map (line_of mx alnlen b) rows ++ [[]; []]) (Some (recs, 0%nat, h)) = Some (recs', 0%nat, h') /\
                   Forall2 (slot (S b)) recs' rows.
Proof.
  intros Hok Hs. destruct (msf_rows b rows [] recs h Hok Hs) as (recs' & h' & Hf & Hall).
  exists recs', h'. split; [|exact Hall]. rewrite fold_left_app. cbn [app length] in Hf. rewrite Hf.
  cbn [fold_left]. rewrite !msf_step_blank. reflexivity.
Qed.

Lemma msf_blocks rows : Forall (row_ok alnlen mx) rows -> forall cnt b recs h, Forall2 (slot b) recs rows ->
  exists recs' h',
    fold_left msf_step (flat_map (fun b => map (line_of mx alnlen b) rows ++ [[]; []]) (seq b cnt)) (Some (recs, 0%nat, h)) = Some (recs', 0%nat, h') /\
    Forall2 (slot (b + cnt)) recs' rows.
Proof.
  intros Hok. induction cnt as [|cnt IH]; intros b recs h Hs.
  - exists recs, h. split; [reflexivity|]. rewrite Nat.add_0_r. exact Hs.
  - cbn [seq flat_map]. rewrite fold_left_app.
    destruct (msf_block b rows recs h Hok Hs) as (r1 & h1 & F1 & A1). rewrite F1.
    destruct (IH (S b) r1 h1 A1) as (r2 & h2 & F2 & A2).
    exists r2, h2. split; [exact F2|]. replace (b + S cnt)%nat with (S b + cnt)%nat by lia. exact A2.
Qed.
End MsfBody.

Definition msf_lines (basename date : list Z) (protein : bool) (alnlen : nat) (rows : list (list Z * list Z)) : list (list Z) :=
  ([msf_first protein; []; msf_title basename date protein alnlen rows; []] ++
   map (name_line (max_name_len rows) alnlen) rows ++ [[]; bytes_of_string "//"%string; []]) ++ blocks2 alnlen rows.

(* the title line carries the output file's base name and a date: it must not look like a header entry *)
Definition title_inert (title : list Z) : Prop :=
  clean_line title /\ has title "//"%string = false /\ after (bytes_of_string "Name:"%string) title = None.

Definition msf_rows_ok (alnlen : nat) (rows : list (list Z * list Z)) : Prop :=
  Forall (fun nr => name_ok (fst nr) /\ good_row (snd nr) /\ length (snd nr) = alnlen /\ (length (fst nr) <= 200)%nat /\ ~ In 47 (fst nr)) rows.

Lemma msf_rows_ok_mx alnlen rows : msf_rows_ok alnlen rows ->
  Forall (msf_row_ok alnlen (max_name_len rows)) rows /\ Forall (row_ok alnlen (max_name_len rows)) rows.
Proof.
  intros H.
  assert (H1 : Forall (row_ok alnlen (max_name_len rows)) rows).
  { apply rows_ok_mx. eapply Forall_impl; [|exact H]. cbn beta. tauto. }
  split; [|exact H1]. apply Forall_forall. intros nr Hin. unfold msf_rows_ok in H. rewrite Forall_forall in H, H1.
  split; [apply H1; exact Hin|apply (H nr Hin)].
Qed.

Theorem read_msf_written basename date protein rows alnlen :
  title_inert (msf_title basename date protein alnlen rows) -> msf_rows_ok alnlen rows -> (1 <= alnlen)%nat ->
  exists m, read_msf (msf_lines basename date protein alnlen rows) = Some m /\ rows_of (m_recs m) = rows /\
            records_of (m_recs m) = residues_of rows.
Proof.
  intros (_ & T1 & T2) Hrows Hlen. destruct (msf_rows_ok_mx alnlen rows Hrows) as [Hm Hok].
  set (nbk := ((alnlen + 59) / 60)%nat).
  assert (Hnb : (alnlen <= 60 * nbk)%nat).
  { unfold nbk. pose proof (Nat.div_mod (alnlen + 59) 60 ltac:(lia)). pose proof (Nat.mod_upper_bound (alnlen + 59) 60 ltac:(lia)). lia. }
  assert (Hslots : Forall2 (slot 0) (map (fun nr => empty_rec (fst nr)) rows) rows).
  { clear. induction rows as [|nr rows IH]; cbn [map]; constructor; [|exact IH]. split; [reflexivity|split; [reflexivity|split; reflexivity]]. }
  destruct (msf_blocks alnlen (max_name_len rows) rows Hok nbk 0%nat _ (repeat 0 128) Hslots) as (recs & h & Hf & Hs).
  cbn [Nat.add] in Hs.
  exists (mkM recs h). split.
  - unfold read_msf, msf_lines. cbn [app].
    rewrite msf_header_inert; [|destruct protein; vm_compute; reflexivity|destruct protein; vm_compute; reflexivity].
    rewrite msf_header_inert; [|vm_compute; reflexivity|vm_compute; reflexivity].
    rewrite msf_header_inert; [|exact T1|exact T2].
    rewrite msf_header_inert; [|vm_compute; reflexivity|vm_compute; reflexivity].
    rewrite <- app_assoc. rewrite msf_header_names by exact Hm. cbn [app].
    rewrite msf_header_inert; [|vm_compute; reflexivity|vm_compute; reflexivity].
    assert (Hsl : has (bytes_of_string "//"%string) "//"%string = true) by (vm_compute; reflexivity).
    cbn [msf_header]. rewrite Hsl. cbn [fold_left]. rewrite msf_step_blank.
    unfold blocks2. fold nbk. rewrite Hf. reflexivity.
  - assert (HL : Forall (fun nr => length (snd nr) = alnlen) rows) by (eapply Forall_impl; [|exact Hrows]; cbn beta; tauto).
    cbn [m_recs]. split; [apply (rows_of_slots alnlen nbk recs rows); [exact Hnb|exact HL|exact Hs]|].
    apply (records_of_slots alnlen nbk recs rows); [exact Hnb|exact HL|exact Hs].
Qed.

Lemma clean_b l : forallb (fun c => negb (iscntrl c)) l = true -> clean_line l.
Proof. intros H. rewrite forallb_forall in H. apply Forall_forall. intros c Hc. specialize (H c Hc). apply negb_true_iff in H. exact H. Qed.

Lemma msf_lines_clean basename date protein rows alnlen :
  clean_line (msf_title basename date protein alnlen rows) -> msf_rows_ok alnlen rows ->
  Forall clean_line (msf_lines basename date protein alnlen rows).
Proof.
  intros Ht Hrows. destruct (msf_rows_ok_mx alnlen rows Hrows) as [Hm Hok]. unfold msf_lines.
  apply Forall_app. split; [|apply blocks2_clean; exact Hok].
  cbn [app]. constructor; [destruct protein; apply clean_b; vm_compute; reflexivity|].
  constructor; [constructor|]. constructor; [exact Ht|]. constructor; [constructor|].
  apply Forall_app. split.
  - apply Forall_forall. intros l Hin. apply in_map_iff in Hin. destruct Hin as (nr & <- & Hin).
    rewrite Forall_forall in Hm. apply (name_line_tame _ _ _ (Hm nr Hin)).
  - constructor; [constructor|]. constructor; [apply clean_b; vm_compute; reflexivity|]. constructor; [constructor|constructor].
Qed.

(* C06, MSF at file level.  Format sniffing looks for Clustal markers first, in the first 100 lines *)
Theorem read_one_written_msf basename date protein rows alnlen :
  title_inert (msf_title basename date protein alnlen rows) -> msf_rows_ok alnlen rows -> (1 <= alnlen)%nat ->
  existsb hint_clu (firstn 100 (msf_lines basename date protein alnlen rows)) = false ->
  exists m, read_one (write_msf basename date protein alnlen rows) = Some (Some m) /\ rows_of (m_recs m) = rows /\
            records_of (m_recs m) = residues_of rows.
Proof.
  intros Ht Hrows Hlen Hclu.
  destruct (read_msf_written basename date protein rows alnlen Ht Hrows Hlen) as (m & Hr & Hm).
  exists m. split; [|exact Hm].
  unfold read_one. rewrite write_msf_eq, unlines_blocks2. fold (msf_lines basename date protein alnlen rows).
  rewrite read_lines_unlines by (apply msf_lines_clean; [apply Ht|exact Hrows]).
  remember (msf_lines basename date protein alnlen rows) as lines eqn:El.
  assert (Hhd : exists rest, lines = msf_first protein :: rest) by (rewrite El; unfold msf_lines; cbn [app]; eexists; reflexivity).
  destruct Hhd as (rest & Hhd). rewrite Hhd at 1.
  assert (Hl1 : Nat.eqb (length (msf_first protein)) 1 = false) by (destruct protein; reflexivity). rewrite Hl1.
  assert (Hd : detect_format lines = FORMAT_MSF).
  { unfold detect_format. rewrite Hclu.
    assert (existsb hint_msf (firstn 100 lines) = true) as ->.
    { rewrite Hhd. cbn [firstn existsb]. assert (hint_msf (msf_first protein) = true) as -> by (destruct protein; vm_compute; reflexivity). reflexivity. }
    reflexivity. }
  rewrite Hd. change (FORMAT_MSF =? FORMAT_FA) with false. change (FORMAT_MSF =? FORMAT_MSF) with true. cbv iota.
  rewrite Hr. reflexivity.
Qed.

(* ---- no Clustal marker in what the MSF writer prints ----------------------------------------------------------
   all three markers contain a letter, ONE blank, a letter; the MSF writer never prints that around a name *)
Fixpoint iso (l : list Z) : bool :=
  match l with
  | [] => false
  | x :: t => (match t with s :: y :: _ => isalpha x && (s =? 32) && isalpha y | _ => false end) || iso t
  end.

Lemma is_prefix_iso : forall w l, is_prefix w l = true -> iso w = true -> iso l = true.
Proof.
  induction w as [|x w IH]; intros l Hp Hi; [discriminate|].
  destruct l as [|x' l]; [discriminate|]. cbn [is_prefix] in Hp. apply andb_true_iff in Hp. destruct Hp as [Hx Hp].
  apply Z.eqb_eq in Hx. subst x'. cbn [iso] in Hi |- *. apply orb_true_iff in Hi. destruct Hi as [Hi|Hi].
  - destruct w as [|s [|y w]]; try discriminate. destruct l as [|s' l]; [discriminate|].
    cbn [is_prefix] in Hp. apply andb_true_iff in Hp. destruct Hp as [Hs Hp]. destruct l as [|y' l]; [discriminate|].
    apply andb_true_iff in Hp. destruct Hp as [Hy _].
    apply Z.eqb_eq in Hs, Hy. subst. rewrite Hi. reflexivity.
  - rewrite (IH l Hp Hi). apply orb_true_r.
Qed.
Lemma contains_iso w : iso w = true -> forall l, contains l w = true -> iso l = true.
Proof.
  intros Hw. induction l as [|c l IH]; intros H; cbn [contains] in H.
  - rewrite orb_false_r in H. apply (is_prefix_iso w [] H Hw).
  - apply orb_true_iff in H. destruct H as [H|H]; [apply (is_prefix_iso w _ H Hw)|].
    cbn [iso]. rewrite (IH H). apply orb_true_r.
Qed.
Lemma iso_c1 : iso (bytes_of_string s_clu1) = true. Proof. vm_compute. reflexivity. Qed.
Lemma iso_c2 : iso (bytes_of_string s_clu2) = true. Proof. vm_compute. reflexivity. Qed.
Lemma iso_c3 : iso (bytes_of_string s_clu3) = true. Proof. vm_compute. reflexivity. Qed.
Lemma no_iso_no_clu l : iso l = false -> hint_clu l = false.
Proof.
  intros H. unfold hint_clu, has.
  destruct (contains l (bytes_of_string s_clu1)) eqn:E1; [rewrite (contains_iso (bytes_of_string s_clu1) iso_c1 l E1) in H; discriminate|].
  destruct (contains l (bytes_of_string s_clu2)) eqn:E2; [rewrite (contains_iso (bytes_of_string s_clu2) iso_c2 l E2) in H; discriminate|].
  destruct (contains l (bytes_of_string s_clu3)) eqn:E3; [rewrite (contains_iso (bytes_of_string s_clu3) iso_c3 l E3) in H; discriminate|].
  reflexivity.
Qed.

Lemma iso_na x t : isalpha x = false -> iso (x :: t) = iso t.
Proof. intros H. cbn [iso]. destruct t as [|s [|y t]]; rewrite ?H; reflexivity. Qed.
Lemma iso_st x s t : s <> 32 -> iso (x :: s :: t) = iso (s :: t).
Proof.
  intros H. cbn [iso]. apply Z.eqb_neq in H. destruct t as [|y t]; [reflexivity|]. rewrite H, andb_false_r. reflexivity.
Qed.
Lemma iso_sp k t : iso (repeat space k ++ t) = iso t.
Proof. induction k as [|k IH]; [reflexivity|]. cbn [repeat app]. rewrite iso_na by exact space_not_alpha. exact IH. Qed.
Lemma iso_ns2 : forall a t, ~ In 32 a -> iso (a ++ 32 :: 32 :: t) = iso t.
Proof.
  induction a as [|x a IH]; intros t H.
  - cbn [app]. rewrite !iso_na by exact space_not_alpha. reflexivity.
  - destruct a as [|x' a].
    + cbn [app]. cbn [iso]. rewrite space_not_alpha, andb_false_r. cbn [orb].
      change (iso (32 :: 32 :: t) = iso t). rewrite !iso_na by exact space_not_alpha. reflexivity.
    + cbn [app]. rewrite iso_st; [|intro E; apply H; right; left; exact E].
      apply (IH t). intro K. apply H. right. exact K.
Qed.
Lemma iso_ns : forall a, ~ In 32 a -> iso a = false.
Proof.
  induction a as [|x a IH]; intros H; [reflexivity|]. destruct a as [|s a]; [reflexivity|].
  rewrite iso_st; [|intro E; apply H; right; left; exact E]. apply IH. intro K. apply H. right. exact K.
Qed.
Lemma rep_comm k X : repeat space k ++ 32 :: X = 32 :: repeat space k ++ X.
Proof. induction k as [|k IH]; [reflexivity|]. cbn [repeat app]. rewrite IH. reflexivity. Qed.

Lemma decimal_no_space n : ~ In 32 (decimal n).
Proof. intro H. pose proof (decimal_chars n) as D. rewrite Forall_forall in D. destruct (D _ H) as [K|K]; lia. Qed.
Lemma rowchars_no_space l : Forall rowchar l -> ~ In 32 l.
Proof. intros H K. rewrite Forall_forall in H. destruct (rowchar_facts 32 (H _ K)) as (_ & E & _). congruence. Qed.

Lemma block_line_no_clu alnlen mx b nr : row_ok alnlen mx nr -> hint_clu (line_of mx alnlen b nr) = false.
Proof.
  intros H. apply no_iso_no_clu. rewrite (line_shape alnlen mx b nr H).
  destruct H as ((_ & _ & H32 & _) & Hg & _ & L200 & Lmx).
  replace (mx + 4 - length (fst nr))%nat with (S (mx + 3 - length (fst nr))) by lia. cbn [repeat app].
  rewrite iso_ns2 by exact H32. rewrite iso_sp. apply iso_ns. apply rowchars_no_space, chunk_rowchars. exact Hg.
Qed.

Ltac iso_walk := repeat first [rewrite iso_na by (vm_compute; reflexivity) | rewrite iso_st by discriminate].

Lemma name_line_no_clu alnlen mx nr : msf_row_ok alnlen mx nr -> hint_clu (name_line mx alnlen nr) = false.
Proof.
  intros (((_ & _ & H32 & _) & _ & _ & _ & Lmx) & _). apply no_iso_no_clu. unfold name_line. rewrite firstn_all2 by exact Lmx.
  change (bytes_of_string " Name: "%string) with [32; 78; 97; 109; 101; 58; 32].
  change (bytes_of_string "  Len:  "%string) with [32; 32; 76; 101; 110; 58; 32; 32].
  change (bytes_of_string "  Check: "%string) with [32; 32; 67; 104; 101; 99; 107; 58; 32].
  change (bytes_of_string "  Weight: 1.00"%string) with (32 :: 32 :: bytes_of_string "Weight: 1.00"%string).
  unfold pad_left. cbn [app]. iso_walk.
  rewrite !rep_comm. rewrite iso_ns2 by exact H32. rewrite iso_sp. iso_walk.
  rewrite <- app_assoc, iso_sp. rewrite iso_ns2 by apply decimal_no_space. iso_walk.
  rewrite <- app_assoc, iso_sp. rewrite iso_ns2 by apply decimal_no_space. vm_compute. reflexivity.
Qed.

Lemma msf_lines_no_clu basename date protein rows alnlen :
  hint_clu (msf_title basename date protein alnlen rows) = false -> msf_rows_ok alnlen rows ->
  Forall (fun l => hint_clu l = false) (msf_lines basename date protein alnlen rows).
Proof.
  intros Ht Hrows. destruct (msf_rows_ok_mx alnlen rows Hrows) as [Hm Hok]. unfold msf_lines.
  apply Forall_app. split.
  - cbn [app]. constructor; [destruct protein; vm_compute; reflexivity|].
    constructor; [reflexivity|]. constructor; [exact Ht|]. constructor; [reflexivity|].
    apply Forall_app. split.
    + apply Forall_forall. intros l Hin. apply in_map_iff in Hin. destruct Hin as (nr & <- & Hin).
      rewrite Forall_forall in Hm. apply (name_line_no_clu _ _ _ (Hm nr Hin)).
    + constructor; [reflexivity|]. constructor; [vm_compute; reflexivity|]. constructor; [reflexivity|constructor].
  - unfold blocks2. induction (seq 0 ((alnlen + 59) / 60)) as [|b l IH]; [constructor|].
    cbn [flat_map]. apply Forall_app. split; [|exact IH]. apply Forall_app. split.
    + apply Forall_forall. intros ln Hin. apply in_map_iff in Hin. destruct Hin as (nr & <- & Hin).
      rewrite Forall_forall in Hok. apply (block_line_no_clu _ _ _ _ (Hok nr Hin)).
    + constructor; [reflexivity|]. constructor; [reflexivity|constructor].
Qed.

(* C06, MSF at file level, complete *)
Theorem msf_roundtrip basename date protein rows alnlen :
  title_inert (msf_title basename date protein alnlen rows) -> hint_clu (msf_title basename date protein alnlen rows) = false ->
  msf_rows_ok alnlen rows -> (1 <= alnlen)%nat ->
  exists m, read_one (write_msf basename date protein alnlen rows) = Some (Some m) /\ rows_of (m_recs m) = rows /\
            records_of (m_recs m) = residues_of rows.
Proof.
  intros Ht Hc Hrows Hlen. apply read_one_written_msf; try assumption.
  apply existsb_firstn_false. apply msf_lines_no_clu; assumption.
Qed.

(* a sufficient condition on the two free texts of the title line: letters, digits and _ . - only *)

(* ---- C15: block structure of the Clustal / MSF body, and what the MSF header declares ---------------------------- *)
Lemma chunks_prefix alnlen row : length row = alnlen -> forall k,
  List.concat (map (fun b => chunk_of alnlen b row) (seq 0 k)) = firstn (60 * k) row.
Proof.
  intros L. induction k as [|k IH]; [reflexivity|].
  rewrite seq_S, map_app, concat_app, IH. cbn [Nat.add map List.concat]. rewrite app_nil_r.
  symmetry. apply chunk_step. exact L.
Qed.

Theorem blocks_cover_row alnlen row : length row = alnlen ->
  List.concat (map (fun b => chunk_of alnlen b row) (seq 0 ((alnlen + 59) / 60))) = row.
Proof.
  intros L. rewrite (chunks_prefix alnlen row L). apply firstn_all2.
  pose proof (Nat.div_mod (alnlen + 59) 60 ltac:(lia)). pose proof (Nat.mod_upper_bound (alnlen + 59) 60 ltac:(lia)). lia.
Qed.

Theorem block_widths alnlen row b : length row = alnlen -> (b < (alnlen + 59) / 60)%nat ->
  (1 <= length (chunk_of alnlen b row) <= 60)%nat /\
  (length (chunk_of alnlen b row) = 60%nat \/ S b = ((alnlen + 59) / 60)%nat).
Proof.
  intros L Hb. unfold chunk_of. rewrite firstn_length, skipn_length, firstn_length, L.
  pose proof (Nat.div_mod (alnlen + 59) 60 ltac:(lia)). pose proof (Nat.mod_upper_bound (alnlen + 59) 60 ltac:(lia)). lia.
Qed.

(* every block lists every sequence, in order, under its (untruncated) name, separated from the residues by blanks *)
Theorem body_structure alnlen rows :
  blocks alnlen rows =
  flat_map (fun b => map (fun nr => block_line (max_name_len rows) (fst nr) (chunk_of alnlen b (snd nr))) rows ++ [[nl]])
           (seq 0 ((alnlen + 59) / 60)).
Proof. reflexivity. Qed.

(* decimal fields mean what they say *)
Definition undecimal (l : list Z) : Z := fold_left (fun acc c => acc * 10 + (c - 48)) l 0.
Lemma undecimal_app a b : undecimal (a ++ b) = fold_left (fun acc c => acc * 10 + (c - 48)) b (undecimal a).
Proof. unfold undecimal. apply fold_left_app. Qed.

Lemma digits_fuel_value : forall fuel n acc, 0 <= n < 10 ^ Z.of_nat fuel -> (fuel >= 1)%nat ->
  exists d, digits_fuel fuel n acc = d ++ acc /\ undecimal d = n /\ (1 <= length d)%nat.
Proof.
  induction fuel as [|f IH]; intros n acc Hn Hf; [lia|]. cbn [digits_fuel].
  destruct (Z.ltb_spec n 10) as [Hs|Hs].
  - exists [48 + n]. split; [reflexivity|split; [unfold undecimal; cbn [fold_left]; lia|cbn [length]; lia]].
  - assert (Hf1 : (f >= 1)%nat).
    { destruct f; [|lia]. cbn in Hn. lia. }
    destruct (IH (n / 10) ((48 + n mod 10) :: acc)) as (d & E & V & Ld).
    + split; [apply Z.div_pos; lia|]. apply Z.div_lt_upper_bound; [lia|].
      replace (Z.of_nat (S f)) with (Z.of_nat f + 1) in Hn by lia. rewrite Z.pow_add_r in Hn by lia. lia.
    + exact Hf1.
    + exists (d ++ [48 + n mod 10]). split; [rewrite E, <- app_assoc; reflexivity|].
      split; [|rewrite app_length; cbn [length]; lia].
      rewrite undecimal_app, V. cbn [fold_left]. pose proof (Z.div_mod n 10 ltac:(lia)). lia.
Qed.

Theorem decimal_value n : 0 <= n < 10 ^ 40 -> undecimal (decimal n) = n.
Proof.
  intros H. unfold decimal. destruct (Z.ltb_spec n 0); [lia|].
  destruct (digits_fuel_value 40 n [] H ltac:(lia)) as (d & E & V & _). rewrite E, app_nil_r. exact V.
Qed.

(* the MSF header: what is declared *)
Theorem msf_header_declares basename date protein alnlen rows :
  exists body, write_msf basename date protein alnlen rows =
    unlines ([bytes_of_string (if protein then "!!AA_MULTIPLE_ALIGNMENT 1.0"%string else "!!NA_MULTIPLE_ALIGNMENT 1.0"%string); [];
              [space] ++ basename ++ bytes_of_string "  MSF: "%string ++ decimal (Z.of_nat alnlen) ++ bytes_of_string "  Type: "%string ++
                [if protein then 80 else 78] ++ bytes_of_string "  "%string ++ date ++ bytes_of_string "  Check: "%string ++
                decimal (gcg_mult alnlen rows) ++ bytes_of_string "  .."%string; []] ++
             map (fun nr => bytes_of_string " Name: "%string ++ firstn (max_name_len rows) (fst nr) ++
                            repeat space (max_name_len rows - length (firstn (max_name_len rows) (fst nr))) ++
                            bytes_of_string "  Len:  "%string ++ pad_left 5 (decimal (Z.of_nat alnlen)) ++
                            bytes_of_string "  Check: "%string ++ pad_left 4 (decimal (gcg_checksum (firstn alnlen (snd nr)))) ++
                            bytes_of_string "  Weight: 1.00"%string) rows ++
             [[]; bytes_of_string "//"%string; []] ++ body) /\ body = blocks alnlen rows.
Proof. exists (blocks alnlen rows). split; [|reflexivity]. unfold write_msf. rewrite <- !app_assoc. reflexivity. Qed.
