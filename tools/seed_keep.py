#!/usr/bin/env python3
"""Developer helper: store a confirmed seeded change under /verif/seeded/<id>/.
Usage: seed_keep.py <id> <property> <diff> <demo script> <needs> <caught_by> [extra files...]"""
import json, os, shutil, sys
V = os.path.dirname(os.path.dirname(os.path.abspath(__file__)))
sid, prop, diff, demo, needs, caught = sys.argv[1:7]
extra = sys.argv[7:]
d = os.path.join(V, 'seeded', sid)
os.makedirs(d, exist_ok=True)
shutil.copy(diff, os.path.join(d, 'patch.diff'))
shutil.copy(demo, os.path.join(d, os.path.basename(demo)))
for e in extra:
    if os.path.isdir(e):
        shutil.copytree(e, os.path.join(d, os.path.basename(e.rstrip('/'))), dirs_exist_ok=True)
    else:
        shutil.copy(e, os.path.join(d, os.path.basename(e)))
meta = {'id': sid, 'breaks_property': prop, 'needs_to_manifest': needs,
        'demonstration': os.path.basename(demo) + ' <kalign source tree>  (exit 0 = property holds)',
        'confirmed': 'tools/seed_eval.sh: patch applies to /repo HEAD, cmake build ok, ctest 12/12 pass with the change, demo exits 0 on the clean tree and non-zero with the change',
        'origin': 'independent sub-agent given only the property text and a scratch worktree',
        'caught_by': caught}
json.dump(meta, open(os.path.join(d, 'meta.json'), 'w'), indent=1)
print(d)
