(* C04 - The result depends only on names and residues, not on how they are presented.
   Statements only; proofs in FormatsProofs.v / DetectProofs.v / ApiProofs.v.
   Proved: (a) gaps and line wrapping do not influence what the reader core extracts (any cutting
   of a row into lines, any punctuation inside it); (b) the run is a function of (name, residues)
   records and the detected kind; (c) the detected kind depends only on the letter counts.
   (d) the same alignment presented as a FASTA, a Clustal or an MSF file (as kalign writes them) is read
   as the same (name, residues) records - so, by (b), it is aligned identically.
   (e) the Clustal reader on ANY block layout (any number of blocks, any widths - also differing from row to row -,
   blanks and digits inside the residue part, consensus lines between blocks) rebuilds for every sequence the
   normalised concatenation of its pieces; two layouts of the same rows are read as the same records.
   The same holds for the body of an MSF file read into the records its header declared (C04_msf_body_any_layout).
   (f) an alignment split over two FASTA inputs gives the records of the first followed by those of the second.
   MSF headers of foreign writers, format sniffing of foreign files and the splitting over several inputs are decided by
   the correspondence of the reader model with msa_io.c on generated presentations and by comparing
   the implementation's results across presentations (DESIGN C04). *)
From KV Require Import Base FP Params Sort Detect DetectProofs Weave WeaveProofs Cmp Formats FormatsProofs FormatsProofs2 FormatsProofs3 Api.
Local Open Scope Z_scope.

(* (a) whatever gap characters are interspersed and however the row is wrapped, the residues read
   are the letters, in order *)
Theorem C04_residues_are_the_letters : forall chunks name,
  rr_res (fold_left feed_line chunks (empty_rec name)) = filter isalpha (concat chunks) /\
  rr_name (fold_left feed_line chunks (empty_rec name)) = name.
Proof.
  intros chunks name.
  destruct (feed_chunks_row chunks (empty_rec name) (empty_rec_wf name)) as (_ & _ & N & S).
  cbv zeta in *. split; [exact S|exact N].
Qed.
Print Assumptions C04_residues_are_the_letters.

(* (b) kalign_run starts by de-aligning: the model of the run receives only (name, residues) *)
Theorem C04_run_depends_on_records_only : forall core bt ty gpo gpe tgpe (m1 m2 : in_msa),
  map (fun r => (rr_name r, rr_res r)) (i_recs m1) = map (fun r => (rr_name r, rr_res r)) (i_recs m2) ->
  kalign_run_model core bt ty gpo gpe tgpe (map (fun r => (rr_name r, rr_res r)) (i_recs m1)) =
  kalign_run_model core bt ty gpo gpe tgpe (map (fun r => (rr_name r, rr_res r)) (i_recs m2)).
Proof. intros. f_equal. assumption. Qed.
Print Assumptions C04_run_depends_on_records_only.

(* (c) the kind decision ignores every non-letter entry of the histogram *)
Theorem C04_kind_ignores_non_letters : forall f1 f2,
  length f1 = length f2 ->
  (forall i, isalpha (Z.of_nat i) = true -> nth i f1 0 = nth i f2 0) ->
  detect_sums f1 = detect_sums f2.
Proof. exact detect_sums_letters_only. Qed.
Print Assumptions C04_kind_ignores_non_letters.


(* (d) one alignment, three file formats: kalign_read_input returns the same names and residues from each *)
Theorem C04_same_records_from_every_format : forall version base date protein rows alnlen,
  clean_line version -> rows <> [] ->
  title_inert (msf_title base date protein alnlen rows) -> hint_clu (msf_title base date protein alnlen rows) = false ->
  Forall (fun nr => name_ok (fst nr) /\ good_row (snd nr) /\ length (snd nr) = alnlen /\ (length (fst nr) <= 200)%nat /\ ~ In 47 (fst nr)) rows ->
  (1 <= alnlen)%nat ->
  exists mf mc mm,
    read_one (write_fasta rows) = Some (Some mf) /\
    read_one (write_clu version alnlen rows) = Some (Some mc) /\
    read_one (write_msf base date protein alnlen rows) = Some (Some mm) /\
    records_of (m_recs mf) = residues_of rows /\ records_of (m_recs mc) = residues_of rows /\
    records_of (m_recs mm) = residues_of rows.
Proof.
  intros version base date protein rows alnlen Hv Hne Ht Hc Hall Hlen.
  assert (Hall2 : Forall (fun nr => name_ok (fst nr) /\ good_row (snd nr) /\ length (snd nr) = alnlen /\ (length (fst nr) <= 200)%nat) rows)
    by (eapply Forall_impl; [|exact Hall]; cbn beta; tauto).
  assert (Hall3 : Forall (fun nr => name_ok (fst nr) /\ good_row (snd nr)) rows)
    by (eapply Forall_impl; [|exact Hall]; cbn beta; tauto).
  destruct (read_one_written_fasta rows Hne Hall3) as (h & Hf).
  destruct (read_one_written_clu version rows alnlen Hv Hne Hall2 Hlen) as (mc & Hc1 & _ & Hc3).
  destruct (msf_roundtrip base date protein rows alnlen Ht Hc Hall Hlen) as (mm & Hm1 & _ & Hm3).
  exists (mkM (map rec_of rows) h), mc, mm. repeat split; try assumption.
  cbn [m_recs]. unfold records_of, residues_of. rewrite map_map. apply map_ext_in. intros nr Hin.
  rewrite Forall_forall in Hall3. destruct (Hall3 nr Hin) as [_ Hg].
  destruct (rec_of_props nr Hg) as (N & _ & S & _). rewrite N, S. reflexivity.
Qed.
Print Assumptions C04_same_records_from_every_format.

(* (e) any Clustal layout.  A row is its name and its pieces (one per block); block j shows piece j of every row
   after the name and one blank; [seps j] are the lines after block j: empty lines and lines starting with white
   space (consensus), at least one empty; [lead] are such lines before the first block; [hdr] is any first line. *)
Theorem C04_clustal_any_layout : forall (rows : list lrow) k seps hdr lead,
  Forall (fun row => gname_ok (fst row)) rows -> Forall (fun row => length (snd row) = k) rows ->
  (forall j, seps_ok (seps j)) -> (1 <= k)%nat -> Forall sep_line lead ->
  exists recs h, read_clu (hdr :: lead ++ body_lines rows k seps) = Some (mkM recs h) /\
    Forall2 (fun r row => rr_name r = fst row /\ row_of r = norm (List.concat (snd row)) /\
                          rr_res r = filter isalpha (List.concat (snd row))) recs rows.
Proof. intros rows k seps hdr lead N P S K L. exact (read_clu_layout rows k seps N P S hdr lead K L). Qed.
Print Assumptions C04_clustal_any_layout.

Theorem C04_clustal_layouts_agree : forall rows1 rows2 k1 k2 seps1 seps2 hdr1 hdr2 lead1 lead2,
  Forall (fun row => gname_ok (fst row)) rows1 -> Forall (fun row => length (snd row) = k1) rows1 -> (forall j, seps_ok (seps1 j)) ->
  Forall (fun row => gname_ok (fst row)) rows2 -> Forall (fun row => length (snd row) = k2) rows2 -> (forall j, seps_ok (seps2 j)) ->
  (1 <= k1)%nat -> (1 <= k2)%nat -> Forall sep_line lead1 -> Forall sep_line lead2 ->
  map (fun row => (fst row, filter isalpha (List.concat (snd row)))) rows1 =
  map (fun row => (fst row, filter isalpha (List.concat (snd row)))) rows2 ->
  exists m1 m2, read_clu (hdr1 :: lead1 ++ body_lines rows1 k1 seps1) = Some m1 /\
                read_clu (hdr2 :: lead2 ++ body_lines rows2 k2 seps2) = Some m2 /\
                records_of (m_recs m1) = records_of (m_recs m2).
Proof. exact clu_layouts_agree. Qed.
Print Assumptions C04_clustal_layouts_agree.

(* the MSF body in any layout, read into the records the header declared (read_msf's second phase) *)
Theorem C04_msf_body_any_layout : forall (rows : list lrow) k seps lead h0,
  Forall (fun row => gname_ok (fst row)) rows -> Forall (fun row => length (snd row) = k) rows ->
  (forall j, seps_ok (seps j)) -> Forall sep_line lead ->
  exists recs h, fold_left msf_step (lead ++ body_lines rows k seps)
                           (Some (map (fun row => empty_rec (fst row)) rows, 0%nat, h0)) = Some (recs, 0%nat, h) /\
    Forall2 (fun r row => rr_name r = fst row /\ row_of r = norm (List.concat (snd row)) /\
                          rr_res r = filter isalpha (List.concat (snd row))) recs rows.
Proof. intros rows k seps lead h0 N P S L. exact (msf_body_layout rows k seps N P S lead h0 L). Qed.
Print Assumptions C04_msf_body_any_layout.

(* (f) an alignment split over two FASTA inputs is read as the records of the first followed by those of the second -
   the same records as from the single file - provided the two files are detected as the same (defined) kind; whatever
   histograms h1, h2 the two reads produce *)
Theorem C04_split_over_two_inputs : forall rows1 rows2,
  (2 <= length rows1)%nat -> rows2 <> [] ->
  Forall (fun nr => name_ok (fst nr) /\ good_row (snd nr)) rows1 -> Forall (fun nr => name_ok (fst nr) /\ good_row (snd nr)) rows2 ->
  forall h1 h2, read_one (write_fasta rows1) = Some (Some (mkM (map rec_of rows1) h1)) ->
                read_one (write_fasta rows2) = Some (Some (mkM (map rec_of rows2) h2)) ->
  biotype_of ALN_BIOTYPE_UNDEF h1 <> ALN_BIOTYPE_UNDEF ->
  biotype_of ALN_BIOTYPE_UNDEF h2 = biotype_of ALN_BIOTYPE_UNDEF h1 ->
  exists m, read_inputs [write_fasta rows1; write_fasta rows2] = ROk m /\
            records_of (i_recs m) = residues_of (rows1 ++ rows2).
Proof.
  intros rows1 rows2 L1 N2 H1 H2 h1 h2 R1 R2 B1 B2.
  destruct (read_two_fasta rows1 rows2 L1 N2 H1 H2 h1 h2 R1 R2 B1 B2) as (m & E & I). exists m. split; [exact E|].
  rewrite I. apply records_of_rec_of. apply Forall_app. split; [eapply Forall_impl; [|exact H1]|eapply Forall_impl; [|exact H2]]; cbn beta; tauto.
Qed.
Print Assumptions C04_split_over_two_inputs.

(* non-vacuity: two layouts of the same two rows - blocks of 3+2 columns with a consensus line, and one block with
   blanks and digits inside *)
Example C04_layouts_instance :
  let r1 : list lrow := [([115;49], [[65;67;45]; [71;84]]); ([115;50], [[97;45;45]; [71;116]])] in
  let r2 : list lrow := [([115;49], [[65;67;32;45;71;84;32;53]]); ([115;50], [[97;45;45;32;71;116;32;53]])] in
  let sp := fun _ : nat => [[32;42;42]; []] in
  (exists m1 m2, read_clu ([67] :: [[]] ++ body_lines r1 2 sp) = Some m1 /\ read_clu ([67] :: [] ++ body_lines r2 1 sp) = Some m2 /\
                 records_of (m_recs m1) = records_of (m_recs m2) /\ rows_of (m_recs m1) = rows_of (m_recs m2)).
Proof. eexists. eexists. split; [vm_compute; reflexivity|split; [vm_compute; reflexivity|split; vm_compute; reflexivity]]. Qed.
