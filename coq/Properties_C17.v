(* C17 - The alignment-comparison score is exact.
   Statements only; proofs in CmpProofs.v / CmpProofs2.v.
   The counters are proved at full generality; the final "100.0 * a / b" (binary64, stored into a
   float) is part of the executable model (Flocq) and tied bit for bit by the correspondence; that
   a = b gives exactly 100.0f and a <= b gives a value in [0,100] follows from correct rounding and
   is checked at run time on every case (DESIGN C17). *)
From KV Require Import Base FP Sort Weave Cmp CmpProofs CmpProofs2.
From Coq Require Import Permutation.
Local Open Scope Z_scope.

(* what the two per-pair tables list: one relation (partner index or gap) per residue of each row;
   the reference totals are exactly the number of listed relations *)
Theorem C17_reference_totals_count_relations : forall x y,
  (fst (pair_totals x y) + snd (pair_totals x y) =
   N.of_nat (length (codes1 x y 0)) + N.of_nat (length (codes1 y x 0)))%N.
Proof. intros. apply pair_totals_codes. Qed.
Print Assumptions C17_reference_totals_count_relations.

(* range: never more reproduced relations than reference relations (so 0 <= a/b <= 1) *)
Theorem C17_range_counters : forall r t,
  (ident_total (compare_counters r t) <= ref_total (compare_counters r t))%N.
Proof. exact counters_range. Qed.
Print Assumptions C17_range_counters.

(* the order of the rows in either alignment does not matter (unique names) *)
Theorem C17_row_order : forall r r' t t',
  names_distinct r -> names_distinct t -> Permutation r r' -> Permutation t t' ->
  compare_counters r' t' = compare_counters r t.
Proof. exact compare_row_order. Qed.
Print Assumptions C17_row_order.

(* all-gap columns are invisible to the relation tables *)
Theorem C17_allgap_columns_invisible : forall x y ng p,
  length x = length y -> length ng = S (length x) ->
  codes1 (expand ng x) (expand ng y) p = codes1 x y p.
Proof. exact codes1_expand. Qed.

(* same alignment up to row order and all-gap columns: every reference relation is reproduced,
   i.e. a = b and the score is 100 * a / a *)
Theorem C17_same_alignment_reproduces_everything : forall ng1 ng2 w,
  length ng1 = S w -> length ng2 = S w ->
  forall R T0 T, names_distinct R -> names_distinct T0 ->
  Forall2 (same_row ng1 ng2 w) R T0 -> Permutation T0 T ->
  ident_total (compare_counters R T) = ref_total (compare_counters R T).
Proof. intros ng1 ng2 w H1 H2 R T0 T HR HT Hrel Hp. exact (same_alignment_all_relations_reproduced ng1 ng2 w H1 H2 R T0 HR HT T Hrel Hp). Qed.
Print Assumptions C17_same_alignment_reproduces_everything.

(* Non-vacuity and the float end of the computation on a concrete pair: score 100.0f = 0x42c80000 *)
Example C17_nonvacuous :
  let r := [([97], [65;67;45;71;84]); ([98], [65;67;71;71;84]); ([99], [65;45;45;71;84])] in
  let t := [([99], [65;45;45;45;71;84]); ([97], [65;67;45;45;71;84]); ([98], [65;67;45;71;71;84])] in
  snd (compare_model r t) = 1120403456%N /\
  ident_total (fst (compare_model r t)) = ref_total (fst (compare_model r t)).
Proof. vm_compute. split; reflexivity. Qed.
