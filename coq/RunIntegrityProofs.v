(* C01 at the level of the whole run (kalign_run / kalign, Api.v): whatever the numeric core returns - as long as it
   returns one gap vector of len+1 counters per sequence - the result has one row per non-empty input sequence, in
   input order, under the input name, and deleting the gap characters of a row gives back the input residues.
   This is where the rank recorded before sorting and restored after (msa_sort_rank) is proved to work. *)
From KV Require Import Base Params Sort SortProofs Detect Weave WeaveProofs Api.
From Coq Require Import Permutation Sorted Lia.
Local Open Scope Z_scope.

Lemma perm_Forall2 {A B} (R : A -> B -> Prop) : forall l1 l1', Permutation l1 l1' ->
  forall l2, Forall2 R l1 l2 -> exists l2', Permutation l2 l2' /\ Forall2 R l1' l2'.
Proof.
  induction 1 as [|x l l' Hp IH|x y l|l l' l'' H1 IH1 H2 IH2]; intros l2 HF.
  - inversion HF; subst. exists []. split; constructor.
  - inversion HF as [|? b ? l2' Hxb HF']; subst. destruct (IH l2' HF') as (m & Pm & Fm).
    exists (b :: m). split; [constructor; exact Pm|constructor; assumption].
  - inversion HF as [|? b ? l2' Hyb HF']; subst. inversion HF' as [|? c ? l2'' Hxc HF'']; subst.
    exists (c :: b :: l2''). split; [apply perm_swap|constructor; [exact Hxc|constructor; assumption]].
  - destruct (IH1 l2 HF) as (m1 & P1 & F1). destruct (IH2 m1 F1) as (m2 & P2 & F2).
    exists m2. split; [eapply Permutation_trans; eassumption|exact F2].
Qed.

Lemma sorted_filter {A} (R : A -> A -> Prop) (p : A -> bool) : forall l, StronglySorted R l -> StronglySorted R (filter p l).
Proof.
  induction 1 as [|x l S IH F]; [constructor|]. cbn [filter]. destruct (p x); [|exact IH].
  constructor; [exact IH|]. rewrite Forall_forall in *. intros y Hy. apply filter_In in Hy. apply F. apply Hy.
Qed.

Lemma with_ranks_sorted : forall recs i,
  StronglySorted (fun x y => r_rank x < r_rank y) (with_ranks i recs) /\ Forall (fun x => i <= r_rank x) (with_ranks i recs).
Proof.
  induction recs as [|[nm res] recs IH]; intros i; cbn [with_ranks]; [split; constructor|].
  destruct (IH (i + 1)) as [S F]. split.
  - constructor; [exact S|]. eapply Forall_impl; [|exact F]. intros a Ha. simpl in *. lia.
  - constructor; [simpl; lia|]. eapply Forall_impl; [|exact F]. intros a Ha. simpl in *. lia.
Qed.

Lemma cmp_rank_le x y : cmp_rank x y <= 0 <-> r_rank x <= r_rank y.
Proof. unfold cmp_rank. destruct (Z.ltb_spec (r_rank y) (r_rank x)); lia. Qed.

Lemma sort_rank_sorted l : StronglySorted (fun x y => r_rank x <= r_rank y) (sort_rank l).
Proof.
  assert (H : StronglySorted (fun x y => cmp_rank x y <= 0) (sort_rank l)).
  { apply (msort_sorted cmp_rank (fun _ => True)).
    - intros x y z _ _ _ H1 H2. apply cmp_rank_le in H1, H2. apply cmp_rank_le. lia.
    - apply Forall_forall. intros; exact I.
    - intros l1 l2 x y _ _ _. destruct (Z.le_ge_cases (r_rank x) (r_rank y)); [left|right]; apply cmp_rank_le; lia. }
  clear -H. induction H as [|x l' S IH F]; constructor; [exact IH|].
  eapply Forall_impl; [|exact F]. intros y Hy. apply cmp_rank_le. exact Hy.
Qed.

(* what relates an aligned record to the input record it came from *)
Definition came_from (a r : srec) : Prop :=
  r_rank a = r_rank r /\ r_name a = r_name r /\ degap (r_res a) = r_res r.

Lemma aligned_from : forall gaps sorted,
  Forall2 (fun g r => length g = S (length (r_res r))) gaps sorted ->
  Forall (fun r => Forall (fun c => c <> dash) (r_res r)) sorted ->
  Forall2 came_from (map (fun gr => mkS (r_rank (snd gr)) (r_name (snd gr)) (expand (fst gr) (r_res (snd gr)))) (combine gaps sorted)) sorted.
Proof.
  induction 1 as [|g r gaps sorted Hg H IH]; intros Hd; cbn [combine map]; [constructor|].
  inversion Hd as [|? ? Hr Hd']; subst. constructor; [|apply IH; exact Hd'].
  split; [reflexivity|split; [reflexivity|]]. cbn [r_res fst snd]. apply degap_expand; assumption.
Qed.

(* restoring the input order: sorting by rank whatever came back, in whatever order *)
Theorem rank_restores_order : forall kept aligned sorted,
  StronglySorted (fun x y => r_rank x < r_rank y) kept ->
  Permutation sorted kept -> Forall2 came_from aligned sorted ->
  Forall2 came_from (sort_rank aligned) kept.
Proof.
  intros kept aligned sorted Hk Hp HF.
  destruct (perm_Forall2 came_from aligned (sort_rank aligned) (Permutation_sym (msort_perm cmp_rank aligned)) sorted HF) as (S' & PS & FS).
  assert (S' = kept); [|subst; exact FS].
  apply (sorted_perm_unique (fun x y => r_rank x <= r_rank y)).
  - (* antisymmetry on S': its elements are those of kept, whose ranks are distinct *)
    intros x y Hx Hy H1 H2.
    assert (Hin : forall z, In z S' -> In z kept) by (intros z Hz; eapply Permutation_in; [|exact Hz]; eapply Permutation_trans; [apply Permutation_sym; exact PS|exact Hp]).
    apply Hin in Hx, Hy. cbv beta in H1, H2. assert (E : r_rank x = r_rank y) by lia. clear -Hk Hx Hy E.
    induction Hk as [|z l S IH F]; [contradiction|]. rewrite Forall_forall in F.
    destruct Hx as [<-|Hx]; destruct Hy as [<-|Hy]; try reflexivity.
    + specialize (F _ Hy). cbv beta in F. lia.
    + specialize (F _ Hx). cbv beta in F. lia.
    + apply IH; assumption.
  - (* S' is sorted by rank because sort_rank aligned is and ranks agree position by position *)
    pose proof (sort_rank_sorted aligned) as Hs. clear -Hs FS. revert Hs.
    induction FS as [|a r la lr Har H IH]; intros Hs; [constructor|].
    inversion Hs as [|? ? Hs' Fa]; subst. constructor; [apply IH; exact Hs'|].
    clear -Fa H Har. induction H as [|a' r' la lr Har' H IH]; [constructor|].
    inversion Fa as [|? ? Hle Fa']; subst. constructor; [|apply IH; exact Fa'].
    destruct Har as (E & _). destruct Har' as (E' & _). cbv beta in Hle. lia.
  - clear -Hk. induction Hk as [|z l S IH F]; constructor; [exact IH|]. eapply Forall_impl; [|exact F]. intros a Ha; cbv beta in *; lia.
  - eapply Permutation_trans; [apply Permutation_sym; exact PS|exact Hp].
  - intros; right; exact I.
Qed.

Lemma shape_map (f : srec -> list Z) : (forall r, length (f r) = length (r_res r)) -> forall gaps sorted,
  Forall2 (fun g s => length g = S (length s)) gaps (map f sorted) ->
  Forall2 (fun (g : list nat) r => length g = S (length (r_res r))) gaps sorted.
Proof.
  intros Hf gaps sorted. revert gaps. induction sorted as [|r sorted IH]; intros gaps H; cbn [map] in H; inversion H; subst; constructor.
  - rewrite <- Hf. assumption.
  - apply IH. assumption.
Qed.

Section Run.
Variable core : Z -> params -> list (list Z) -> list (list Z) -> list (list nat).
(* the only thing asked of the numeric core: one vector of len+1 gap counters per sequence *)
Hypothesis core_shape : forall bt p t a, length t = length a ->
  Forall2 (fun g s => length g = S (length s)) (core bt p t a) a.

Lemma filter_with_ranks : forall recs i,
  map (fun r => (r_name r, r_res r)) (filter nonempty_rec (with_ranks i recs)) =
  filter (fun nr => match snd nr with [] => false | _ => true end) recs.
Proof.
  induction recs as [|[nm res] recs IH]; intros i; [reflexivity|]. cbn [with_ranks filter snd].
  unfold nonempty_rec at 1. cbn [r_res]. destruct res; [apply IH|]. cbn [map r_name r_res]. f_equal. apply IH.
Qed.

Theorem run_model_integrity bt ty gpo gpe tgpe recs out :
  Forall (fun nr => Forall (fun c => c <> dash) (snd nr)) recs ->
  kalign_run_model core bt ty gpo gpe tgpe recs = Some out ->
  let kept := filter (fun nr => match snd nr with [] => false | _ => true end) recs in
  map fst out = map fst kept /\ map (fun o => degap (snd o)) out = map snd kept /\ (2 <= length out)%nat.
Proof.
  intros Hd H. unfold kalign_run_model in H.
  destruct (essential_check (with_ranks 0 recs)) as [kept'|] eqn:E; [|discriminate].
  destruct (alphabets bt) as [[[ta tamb] [aa aamb]]|]; [|discriminate].
  destruct (init bt ty gpo gpe tgpe) as [p|]; [|discriminate]. injection H as <-.
  unfold essential_check in E. destruct (length (with_ranks 0 recs) <=? 1)%nat; [discriminate|].
  destruct (Nat.leb_spec (length (filter nonempty_rec (with_ranks 0 recs))) 1) as [|Hlen]; [discriminate|]. injection E as <-.
  set (kept' := filter nonempty_rec (with_ranks 0 recs)) in *.
  set (sorted := sort_len_name kept').
  assert (Hp : Permutation sorted kept') by apply msort_perm.
  assert (Hk : StronglySorted (fun x y => r_rank x < r_rank y) kept') by (apply sorted_filter, with_ranks_sorted).
  assert (Hd' : Forall (fun r => Forall (fun c => c <> dash) (r_res r)) sorted).
  { apply Forall_forall. intros r Hr. apply (Permutation_in _ Hp) in Hr. apply filter_In in Hr. destruct Hr as [Hr _].
    clear -Hd Hr. revert Hr. generalize 0. induction recs as [|[nm res] recs IH]; intros i Hr; [contradiction|].
    inversion Hd as [|? ? H1 H2]; subst. destruct Hr as [<-|Hr]; [exact H1|]. apply (IH H2 (i + 1)). exact Hr. }
  set (gaps := core bt p (map (fun r => convert ta tamb (r_res r)) sorted) (map (fun r => convert aa aamb (r_res r)) sorted)).
  assert (Hg : Forall2 (fun g r => length g = S (length (r_res r))) gaps sorted).
  { pose proof (core_shape bt p (map (fun r => convert ta tamb (r_res r)) sorted) (map (fun r => convert aa aamb (r_res r)) sorted)) as C.
    rewrite !map_length in C. specialize (C eq_refl). fold gaps in C.
    apply (shape_map (fun r => convert aa aamb (r_res r))); [|exact C].
    intros r. unfold convert. apply map_length. }
  pose proof (rank_restores_order kept' _ sorted Hk Hp (aligned_from gaps sorted Hg Hd')) as R.
  fold sorted. fold gaps. set (outs := sort_rank _) in *.
  rewrite <- (filter_with_ranks recs 0). fold kept'. cbv zeta.
  assert (L : length outs = length kept') by (clear -R; induction R; cbn [length]; congruence).
  split; [|split; [|rewrite map_length; lia]]; rewrite !map_map; cbn [fst snd]; clear -R; induction R as [|a r la lr (E1 & E2 & E3) R IH]; cbn [map]; try reflexivity; f_equal; assumption.
Qed.
End Run.
