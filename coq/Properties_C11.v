(* C11 - The bit-parallel distance kernel equals the edit distance it stands for.
   STATUS: the full statements are written down below as Definitions; they are NOT yet theorems
   (the Myers block-invariant proof is not finished).  What is tied on every run: the executable
   models bpm_block / bpm64 / bpm256 (Bpm.v, a literal restatement of bpm.c including add256 and
   the 256-bit shift) are compared with the implementation (both the AVX2 and the scalar build),
   and the specification [sed] (the plain semi-global DP below) is evaluated next to them,
   exhaustively for small alphabets/lengths and at random around every 64-symbol boundary and the
   1024 cap.  Proved so far: basic facts about the specification. *)
From KV Require Import Base Bpm BpmProofs.
Local Open Scope Z_scope.

Definition symbols13 (l : list Z) : Prop := Forall (fun c => 0 <= c < 13) l.

Definition C11_block_full_statement : Prop := forall t p,
  symbols13 t -> symbols13 p -> (1 <= length p <= length t)%nat ->
  bpm_block t p = sed t (firstn 1024 p).
Definition C11_bpm64_full_statement : Prop := forall t p,
  symbols13 t -> symbols13 p -> (1 <= length p <= 63)%nat -> (length p <= length t)%nat ->
  bpm64 t p = sed t p.
Definition C11_bpm256_full_statement : Prop := forall t p,
  symbols13 t -> symbols13 p -> (1 <= length p <= 255)%nat -> (length p <= length t)%nat ->
  bpm256 t p = sed t p.

(* the specification is the distance it claims to be, at its two ends *)
Theorem C11_spec_upper_bound : forall t p, sed t p <= Z.of_nat (length p).
Proof. exact sed_le_pattern_length. Qed.
Print Assumptions C11_spec_upper_bound.

Theorem C11_spec_empty_text : forall p, sed [] p = Z.of_nat (length p).
Proof. exact sed_empty_text. Qed.

(* instances of the full statements, by evaluation (tests of the statements, not proofs of them) *)
Example C11_instances :
  let t := [0;1;2;3;4;5;6;0;1;2;3;4;5;6;7;8;9;10;11;12;0;0;1;1;2] in
  let p := [2;3;9;5;6;0;1] in
  bpm_block t p = sed t p /\ bpm64 t p = sed t p /\ bpm256 t p = sed t p /\
  let p2 := (p ++ p ++ p ++ p ++ p ++ p ++ p ++ p ++ p ++ p)%list in
  let t2 := (t ++ t ++ t ++ t)%list in
  bpm_block t2 p2 = sed t2 p2 /\ bpm256 t2 p2 = sed t2 p2.
Proof. vm_compute. repeat split; reflexivity. Qed.
