(* C05 - No memory error, crash or hang on any input; failures are reported as failures.
   Statements only; proofs in SafetyProofs.v.
   PARTIAL by nature (DESIGN C05): what is proved is the logic that decides whether an access is in
   range, what the readers hand on, and which exit status is produced - for every byte string and
   every option value, on the executable model.  What only the machine can show (allocator state,
   real uninitialised bytes, int overflow, libc) is left to the sanitizer runs of the
   correspondence harness, which are tests.  All model functions are structurally recursive Coq
   functions (no fuel, no partiality): on the model side "terminates" holds by construction. *)
From KV Require Import Base Params Sort Detect Weave WeaveProofs WeaveCheck PathProofs Cmp Formats FormatsProofs Api Cli SafetyProofs.
Local Open Scope Z_scope.

(* Every byte of a sequence - not only the letters the readers accept - is mapped to a class that
   is a valid index of the tables it is used with: Peq[13]/B[13] for the tree alphabet,
   subm[23][23] and the profile columns for the alignment alphabet.  The alphabet tables are
   regenerated from the built library on every run. *)
Theorem C05_residue_codes_defined : forall bt ta tamb aa aamb,
  alphabets bt = Some ((ta, tamb), (aa, aamb)) ->
  forall c : Z, 0 <= code_of ta tamb c < tree_L bt /\ 0 <= code_of aa aamb c < aln_L bt.
Proof. exact codes_defined. Qed.
Print Assumptions C05_residue_codes_defined.

Theorem C05_converted_sequences_index_in_range : forall bt ta tamb aa aamb res,
  alphabets bt = Some ((ta, tamb), (aa, aamb)) ->
  Forall (fun k => 0 <= k < 13) (convert ta tamb res) /\ Forall (fun k => 0 <= k < 23) (convert aa aamb res).
Proof. exact converted_codes_in_range. Qed.
Print Assumptions C05_converted_sequences_index_in_range.

(* kalign_read_input over any list of inputs, each any byte string: an error, "nothing
   recognisable", or at least two records each carrying exactly len+1 gap counters (the invariant
   every later index computation on gaps[] relies on) *)
Theorem C05_read_outcome : forall files : list (list Z),
  match read_inputs files with
  | RErr => True
  | RNone => True
  | ROk m => (2 <= length (i_recs m))%nat /\ Forall (fun r => length (rr_gaps r) = S (length (rr_res r))) (i_recs m)
  end.
Proof. exact read_inputs_outcome. Qed.
Print Assumptions C05_read_outcome.

(* the expanded path of every well-formed raw path fits the len_a+len_b+2 cells of path[] *)
Theorem C05_expanded_path_fits : forall lb path ops,
  kpath_wfb lb path = true -> add_gap_info lb path = Some ops ->
  (length ops + 2 <= length path + Z.to_nat lb + 2)%nat /\ (1 <= length ops)%nat.
Proof. exact expanded_path_fits. Qed.
Print Assumptions C05_expanded_path_fits.

(* every sequence line of the Clustal/MSF writers, with its terminating NUL, fits the line buffer
   of max(256, max_name_len+5+60+2) bytes, whatever the names *)
Theorem C05_writer_line_fits : forall rows nr chunk,
  In nr rows -> (length chunk <= 60)%nat ->
  (length (block_line (max_name_len rows) (fst nr) chunk) + 1 <= Nat.max 256 (max_name_len rows + 5 + 60 + 2))%nat.
Proof. exact block_line_fits. Qed.
Print Assumptions C05_writer_line_fits.

(* exit status: success with an alignment only if every stage succeeded; any failing stage of an
   aligning invocation gives EXIT_FAILURE *)
Theorem C05_success_means_written : forall a reads run write,
  cli_main a reads run write = Exit0_written ->
  Forall (fun s => s = SOk) reads /\ run = SOk /\ write = SOk /\ (1 <= a_nthreads a) /\ a_ninputs a <> 0%nat.
Proof. exact cli_success_means_written. Qed.
Print Assumptions C05_success_means_written.

Theorem C05_failure_is_reported : forall a reads run write,
  a_version a = false -> a_showw a = false -> a_help a = false -> a_ninputs a <> 0%nat ->
  (a_nthreads a < 1 \/ format_string_ok (a_format a) = false \/ set_aln_type (a_type a) = None \/
   In SFail reads \/ run = SFail \/ write = SFail) ->
  exit_code (cli_main a reads run write) = 1.
Proof. exact cli_failure_is_reported. Qed.
Print Assumptions C05_failure_is_reported.

(* Non-vacuity: a protein input with J, O, U and a byte >= 0x80 converts to defined classes; a
   concrete malformed file is rejected and a concrete good one accepted *)
Example C05_nonvacuous :
  (exists ta tamb aa aamb, alphabets ALN_BIOTYPE_PROTEIN = Some ((ta, tamb), (aa, aamb)) /\
     convert ta tamb [74; 79; 85; -56; 65] = [12; 12; 12; 12; 0] /\ convert aa aamb [74; 79; 85; -56; 65] = [22; 22; 22; 22; 0]) /\
  read_inputs [[67; 76; 85; 83; 84; 65; 76; 32; 87; 32; 58; 49]] = RErr /\
  (exists m, read_inputs [[62; 97; 10; 65; 67; 10; 62; 98; 10; 65; 45; 67; 10]] = ROk m /\ length (i_recs m) = 2%nat).
Proof.
  split; [do 4 eexists; split; [reflexivity|]; vm_compute; split; reflexivity|].
  split; [vm_compute; reflexivity|]. eexists. vm_compute. split; reflexivity.
Qed.
