(* C14 - Letter case and RNA/DNA spelling do not influence the alignment.
   Statements only; proofs in ApiProofs.v. *)
From KV Require Import Base Params Sort Weave Api ApiProofs.
Local Open Scope Z_scope.

(* In every alphabet kalign_run converts to, a lower-case letter has the code of its upper-case
   letter (tables regenerated from the built library on every run). *)
Theorem C14_alphabet_case :
  forallb (fun bt => forallb (fun p => codes_agree bt (fst p) (snd p)) upper_lower_pairs)
          [ALN_BIOTYPE_DNA; ALN_BIOTYPE_PROTEIN] = true.
Proof. exact alphabet_case_b. Qed.
Print Assumptions C14_alphabet_case.

(* T, t, U, u share one code in the nucleotide alphabet. *)
Theorem C14_alphabet_TU :
  codes_agree ALN_BIOTYPE_DNA 84 85 = true /\ codes_agree ALN_BIOTYPE_DNA 116 117 = true /\
  codes_agree ALN_BIOTYPE_DNA 84 117 = true /\ codes_agree ALN_BIOTYPE_DNA 116 85 = true.
Proof. exact alphabet_TU_b. Qed.
Print Assumptions C14_alphabet_TU.

Theorem C14_codes_agree_is_equivalence : forall bt ta tamb aa aamb c c',
  alphabets bt = Some ((ta, tamb), (aa, aamb)) -> codes_agree bt c c' = true ->
  equiv_byte ta aa tamb aamb c c'.
Proof. exact codes_agree_equiv. Qed.
Print Assumptions C14_codes_agree_is_equivalence.

(* Main statement: for any core, two inputs whose records have the same names and residues that
   are equivalent byte by byte (same code in both alphabets - in particular any change of case and,
   for nucleotides, any T/U substitution) and that are detected as the same kind of sequence give
   results with the same names in the same order and the same gap pattern in every row; one is
   rejected iff the other is. *)
Theorem C14_respell_invariance : forall core bt ta aa tamb aamb,
  alphabets bt = Some ((ta, tamb), (aa, aamb)) ->
  forall ty gpo gpe tgpe recs recs',
  Forall2 (respelled ta aa tamb aamb) recs recs' ->
  match kalign_run_model core bt ty gpo gpe tgpe recs, kalign_run_model core bt ty gpo gpe tgpe recs' with
  | Some o, Some o' => Forall2 out_rel o o'
  | None, None => True
  | _, _ => False
  end.
Proof. exact respell_invariance. Qed.
Print Assumptions C14_respell_invariance.

(* Non-vacuity: "acgu" is a respelling of "ACGT" *)
Example C14_nonvacuous :
  forallb (fun p => codes_agree ALN_BIOTYPE_DNA (fst p) (snd p)) [(65,97);(67,99);(71,103);(84,117)] = true.
Proof. vm_compute. reflexivity. Qed.
