(* C04: the Clustal and MSF readers on ANY block layout - any number of blocks, any block widths (also different
   from block to block and from row to row), blanks and digits anywhere in the residue part, consensus lines -
   rebuild, per sequence, the normalised concatenation of its pieces.  Hence two layouts of the same rows are
   read as the same records. *)
From KV Require Import Base Params Sort Detect Weave WeaveProofs Cmp Formats FormatsProofs FormatsProofs2.
From Coq Require Import String Lia.
Import Coq.Init.Datatypes.
Import ListNotations.
Local Open Scope list_scope.
Local Open Scope Z_scope.

Definition gname_ok (n : list Z) : Prop := n <> [] /\ nospace n /\ (length n <= 255)%nat.

(* a separator between blocks: empty lines and lines that start with white space (consensus lines), at least one empty *)
Definition sep_line (l : list Z) : Prop := l = [] \/ exists c t, l = c :: t /\ isspace c = true.
Definition seps_ok (seps : list (list Z)) : Prop := Forall sep_line seps /\ In [] seps.

Lemma clu_step_sep recs k h l : sep_line l -> clu_step (recs, k, h) l = (recs, (if match l with [] => true | _ => false end then 0%nat else k), h).
Proof. intros [->|(c & t & -> & Hc)]; [reflexivity|]. unfold clu_step. rewrite Hc. reflexivity. Qed.

Lemma clu_seps : forall seps recs k h, Forall sep_line seps -> (In [] seps \/ k = 0%nat) ->
  fold_left clu_step seps (recs, k, h) = (recs, 0%nat, h).
Proof.
  induction seps as [|l seps IH]; intros recs k h Hs Hin.
  - destruct Hin as [Hin|Hk]; [destruct Hin|subst k; reflexivity].
  - inversion Hs as [|? ? Hl Hs']; subst. cbn [fold_left]. rewrite (clu_step_sep recs k h l Hl).
    apply IH; [exact Hs'|]. destruct l as [|c t]; [right; reflexivity|].
    destruct Hin as [[E|Hin]|Hk]; [discriminate|left; exact Hin|right; exact Hk].
Qed.

Lemma filter_norm l : filter isalpha (norm l) = filter isalpha l.
Proof.
  induction l as [|c l IH]; [reflexivity|]. unfold norm in *. cbn [flat_map]. rewrite filter_app.
  apply (eq_trans (f_equal (fun t => filter isalpha (norm_byte c) ++ t) IH)).
  unfold norm_byte. cbn [filter]. destruct (isalpha c) eqn:E; cbn [filter app]; [rewrite E; reflexivity|].
  destruct (ispunct c); cbn [filter app]; [rewrite isalpha_dash'; reflexivity|reflexivity].
Qed.

(* an item of a block: name, the bytes after the first blank, and what the record holds before the block *)
Definition item := (list Z * list Z * list Z)%type.
Definition it_name (x : item) := fst (fst x).
Definition it_payload (x : item) := snd (fst x).
Definition it_acc (x : item) := snd x.
Definition it_line (x : item) : list Z := it_name x ++ 32 :: it_payload x.

Definition gpre (r : rrec) (x : item) : Prop := rec_wf r /\ row_of r = it_acc x /\ rr_res r = filter isalpha (it_acc x).
Definition gpost (r : rrec) (x : item) : Prop :=
  rec_wf r /\ rr_name r = it_name x /\ row_of r = it_acc x ++ norm (it_payload x) /\
  rr_res r = filter isalpha (it_acc x ++ norm (it_payload x)).

Lemma feed_payload r p : rec_wf r ->
  let r' := feed_line r (32 :: p) in
  rec_wf r' /\ row_of r' = row_of r ++ norm p /\ rr_name r' = rr_name r /\ rr_res r' = rr_res r ++ filter isalpha (norm p).
Proof.
  intros W. destruct (feed_line_row (32 :: p) r W) as (A & B & C & D). cbv zeta.
  split; [exact A|split; [|split; [exact C|]]].
  - rewrite B. unfold norm at 1. cbn [flat_map]. unfold norm_byte at 1. rewrite space_not_alpha, space_not_punct. reflexivity.
  - rewrite D. cbn [filter]. rewrite space_not_alpha, filter_norm. reflexivity.
Qed.

Lemma clu_rows_g : forall items recs_pre recs_suf h,
  Forall (fun x => gname_ok (it_name x)) items ->
  (Forall2 gpre recs_suf items \/ (recs_suf = [] /\ Forall (fun x => it_acc x = []) items)) ->
  exists recs' h',
    fold_left clu_step (map it_line items) (recs_pre ++ recs_suf, length recs_pre, h) =
      (recs_pre ++ recs', (length recs_pre + length items)%nat, h') /\
    Forall2 gpost recs' items.
Proof.
  induction items as [|x items IH]; intros recs_pre recs_suf h Hok Hs.
  - assert (recs_suf = []) as -> by (destruct Hs as [Hs|[Hs _]]; [inversion Hs; reflexivity|exact Hs]).
    exists [], h. cbn [map fold_left length]. rewrite Nat.add_0_r. split; [reflexivity|constructor].
  - inversion Hok as [|? ? (Hne & Hns & Hl) Hok']; subst.
    assert (exists r rs, pad_recs (recs_pre ++ recs_suf) (S (length recs_pre)) = recs_pre ++ r :: rs /\ gpre r x /\
                         (Forall2 gpre rs items \/ (rs = [] /\ Forall (fun x => it_acc x = []) items))) as (r & rs & Hpad & Hr & Hrs).
    { destruct Hs as [Hs|[-> Hacc]].
      - inversion Hs as [|r ? rs ? Hr Hrs']; subst. exists r, rs. split; [|split; [exact Hr|left; exact Hrs']].
        rewrite pad_recs_eq. rewrite app_length. cbn [length].
        destruct (Nat.ltb_spec (length recs_pre + S (length rs)) (S (length recs_pre))); [lia|reflexivity].
      - inversion Hacc as [|? ? Hx Hacc']; subst. exists (empty_rec []), []. split; [|split; [|right; split; [reflexivity|exact Hacc']]].
        + rewrite pad_recs_eq, app_nil_r.
          destruct (Nat.ltb_spec (length recs_pre) (S (length recs_pre))); [|lia].
          replace (S (length recs_pre) - length recs_pre)%nat with 1%nat by lia. reflexivity.
        + unfold gpre. rewrite Hx. split; [reflexivity|split; reflexivity]. }
    cbn [map fold_left]. change (it_line x) with (it_name x ++ 32 :: it_payload x).
    rewrite clu_step_line by assumption. rewrite Hpad, update_nth_app.
    set (r1 := feed_line _ _).
    assert (Hr1 : gpost r1 x).
    { destruct Hr as (W & R & RS).
      destruct (feed_payload (mkRR (it_name x) (rr_res r) (rr_gaps r)) (it_payload x) W) as (F1 & F2 & F3 & F4).
      fold r1 in F1, F2, F3, F4. split; [exact F1|split; [exact F3|split]].
      - rewrite F2. change (row_of (mkRR (it_name x) (rr_res r) (rr_gaps r))) with (row_of r). rewrite R. reflexivity.
      - rewrite F4. cbn [rr_res]. rewrite RS, filter_app. reflexivity. }
    destruct (IH (recs_pre ++ [r1]) rs (count_line h (32 :: it_payload x)) Hok' Hrs) as (recs'' & h'' & Hf & Hall).
    rewrite app_length in Hf. cbn [length] in Hf. rewrite <- app_assoc in Hf. cbn [app] in Hf.
    replace (length recs_pre + 1)%nat with (S (length recs_pre)) in Hf by lia.
    exists (r1 :: recs''), h''. split.
    + rewrite Hf. rewrite <- app_assoc. cbn [app length]. f_equal. f_equal. lia.
    + constructor; assumption.
Qed.

(* a layout, row-wise: each row is its name and its pieces, one per block; block j shows piece j of every row *)
Definition lrow := (list Z * list (list Z))%type.
Definition item_of (j : nat) (row : lrow) : item := (fst row, nth j (snd row) [], norm (List.concat (firstn j (snd row)))).

Lemma firstn_S_nth {X} (d : X) : forall j (l : list X), (j < length l)%nat -> firstn (S j) l = firstn j l ++ [nth j l d].
Proof.
  induction j as [|j IH]; intros l H; destruct l as [|x l]; cbn [length] in H; try lia; [reflexivity|].
  cbn [firstn nth app]. f_equal. apply IH. lia.
Qed.

Lemma acc_step j (row : lrow) : (j < length (snd row))%nat ->
  it_acc (item_of (S j) row) = it_acc (item_of j row) ++ norm (it_payload (item_of j row)).
Proof.
  intros H. unfold item_of, it_acc, it_payload. cbn [fst snd].
  rewrite (firstn_S_nth [] j (snd row) H), concat_app, norm_app. cbn [List.concat]. rewrite app_nil_r. reflexivity.
Qed.

Section Layout.
Variable rows : list lrow.
Variable k : nat.                                   (* number of blocks *)
Variable seps : nat -> list (list Z).               (* what follows block j *)
Hypothesis names_ok : Forall (fun row => gname_ok (fst row)) rows.
Hypothesis pieces : Forall (fun row => length (snd row) = k) rows.
Hypothesis seps_good : forall j, seps_ok (seps j).

Definition block_lines (j : nat) : list (list Z) := map it_line (map (item_of j) rows) ++ seps j.
Definition body_lines : list (list Z) := flat_map block_lines (seq 0 k).

(* the record of a row after the first j blocks *)
Definition after_blocks (j : nat) (r : rrec) (row : lrow) : Prop :=
  rec_wf r /\ rr_name r = fst row /\ row_of r = norm (List.concat (firstn j (snd row))) /\
  rr_res r = filter isalpha (norm (List.concat (firstn j (snd row)))).

Lemma after_is_gpre j : forall recs rws, Forall2 (after_blocks j) recs rws -> Forall2 gpre recs (map (item_of j) rws).
Proof.
  intros recs rws H. induction H as [|r row recs rws (W & _ & R & RS) H IH]; cbn [map]; constructor; [|exact IH].
  split; [exact W|split; [exact R|exact RS]].
Qed.

Lemma gpost_is_after j : (j < k)%nat -> forall recs rws, Forall (fun row => length (snd row) = k) rws ->
  Forall2 gpost recs (map (item_of j) rws) -> Forall2 (after_blocks (S j)) recs rws.
Proof.
  intros Hj recs rws Hp H. remember (map (item_of j) rws) as its eqn:E. revert rws Hp E.
  induction H as [|r x recs its (W & N & R & RS) H IH]; intros rws Hp E; destruct rws as [|row rws]; try discriminate; [constructor|].
  cbn [map] in E. injection E as -> ->. inversion Hp as [|? ? Hl Hp']; subst.
  constructor; [|apply IH; [exact Hp'|reflexivity]].
  pose proof (acc_step j row ltac:(lia)) as A. unfold it_acc at 1 in A. unfold item_of at 1 in A. cbn [snd] in A.
  split; [exact W|split; [exact N|split]]; rewrite A; assumption.
Qed.

Lemma clu_block_g j recs h : (j < k)%nat ->
  (Forall2 (after_blocks j) recs rows \/ (recs = [] /\ j = 0%nat)) ->
  exists recs' h', fold_left clu_step (block_lines j) (recs, 0%nat, h) = (recs', 0%nat, h') /\ Forall2 (after_blocks (S j)) recs' rows.
Proof.
  intros Hj Hs.
  destruct (clu_rows_g (map (item_of j) rows) [] recs h) as (recs' & h' & Hf & Hall).
  - apply Forall_forall. intros x Hin. apply in_map_iff in Hin. destruct Hin as (row & <- & Hin).
    rewrite Forall_forall in names_ok. apply (names_ok row Hin).
  - destruct Hs as [Hs|[-> ->]]; [left; apply after_is_gpre; exact Hs|right; split; [reflexivity|]].
    apply Forall_forall. intros x Hin. apply in_map_iff in Hin. destruct Hin as (row & <- & _). reflexivity.
  - exists recs', h'. split; [|apply gpost_is_after; assumption].
    unfold block_lines. rewrite fold_left_app. cbn [app length] in Hf. rewrite Hf.
    destruct (seps_good j) as [S1 S2]. apply clu_seps; [exact S1|left; exact S2].
Qed.

Lemma clu_blocks_g : forall cnt j recs h, (j + cnt <= k)%nat ->
  (Forall2 (after_blocks j) recs rows \/ (recs = [] /\ j = 0%nat)) ->
  exists recs' h', fold_left clu_step (flat_map block_lines (seq j cnt)) (recs, 0%nat, h) = (recs', 0%nat, h') /\
                   ((cnt = 0%nat /\ recs' = recs) \/ Forall2 (after_blocks (j + cnt)) recs' rows).
Proof.
  induction cnt as [|cnt IH]; intros j recs h Hk Hs.
  - exists recs, h. split; [reflexivity|left; split; reflexivity].
  - cbn [seq flat_map]. rewrite fold_left_app.
    destruct (clu_block_g j recs h ltac:(lia) Hs) as (r1 & h1 & F1 & A1). rewrite F1.
    destruct (IH (S j) r1 h1 ltac:(lia) (or_introl A1)) as (r2 & h2 & F2 & A2).
    exists r2, h2. split; [exact F2|right]. destruct A2 as [[-> ->]|A2].
    + rewrite Nat.add_1_r. exact A1.
    + replace (j + S cnt)%nat with (S j + cnt)%nat by lia. exact A2.
Qed.

(* read_clu on: any header line, any separator lines, then the blocks *)
Theorem read_clu_layout hdr lead : (1 <= k)%nat -> Forall sep_line lead ->
  exists recs h, read_clu (hdr :: lead ++ body_lines) = Some (mkM recs h) /\
    Forall2 (fun r row => rr_name r = fst row /\ row_of r = norm (List.concat (snd row)) /\
                          rr_res r = filter isalpha (List.concat (snd row))) recs rows.
Proof.
  intros Hk Hlead.
  destruct (clu_blocks_g k 0%nat [] (repeat 0 128) ltac:(lia) (or_intror (conj eq_refl eq_refl))) as (recs & h & Hf & Hs).
  destruct Hs as [[Hz _]|Hs]; [lia|]. cbn [Nat.add] in Hs.
  exists recs, h. split.
  - unfold read_clu. cbn [tl]. rewrite fold_left_app. rewrite (clu_seps lead [] 0%nat (repeat 0 128) Hlead (or_intror eq_refl)).
    unfold body_lines. rewrite Hf. reflexivity.
  - clear Hf. revert Hs. generalize pieces. clear. intros Hp Hs.
    induction Hs as [|r row recs rws (W & N & R & RS) H IH]; [constructor|].
    inversion Hp as [|? ? Hl Hp']; subst. constructor; [|apply IH; exact Hp'].
    rewrite firstn_all2 in R, RS by lia. split; [exact N|split; [exact R|]]. rewrite RS. apply filter_norm.
Qed.
End Layout.

(* C04 at file level for Clustal: two layouts of the same rows - different block widths, blanks, digits, consensus
   lines - are read as the same names and residues *)
Theorem clu_layouts_agree rows1 rows2 k1 k2 seps1 seps2 hdr1 hdr2 lead1 lead2 :
  Forall (fun row => gname_ok (fst row)) rows1 -> Forall (fun row => length (snd row) = k1) rows1 -> (forall j, seps_ok (seps1 j)) ->
  Forall (fun row => gname_ok (fst row)) rows2 -> Forall (fun row => length (snd row) = k2) rows2 -> (forall j, seps_ok (seps2 j)) ->
  (1 <= k1)%nat -> (1 <= k2)%nat -> Forall sep_line lead1 -> Forall sep_line lead2 ->
  map (fun row => (fst row, filter isalpha (List.concat (snd row)))) rows1 =
  map (fun row => (fst row, filter isalpha (List.concat (snd row)))) rows2 ->
  exists m1 m2, read_clu (hdr1 :: lead1 ++ body_lines rows1 k1 seps1) = Some m1 /\
                read_clu (hdr2 :: lead2 ++ body_lines rows2 k2 seps2) = Some m2 /\
                records_of (m_recs m1) = records_of (m_recs m2).
Proof.
  intros N1 P1 S1 N2 P2 S2 K1 K2 L1 L2 E.
  destruct (read_clu_layout rows1 k1 seps1 N1 P1 S1 hdr1 lead1 K1 L1) as (r1 & h1 & R1 & A1).
  destruct (read_clu_layout rows2 k2 seps2 N2 P2 S2 hdr2 lead2 K2 L2) as (r2 & h2 & R2 & A2).
  exists (mkM r1 h1), (mkM r2 h2). split; [exact R1|split; [exact R2|]]. cbn [m_recs].
  assert (Q : forall recs rws, Forall2 (fun r (row : lrow) => rr_name r = fst row /\ row_of r = norm (List.concat (snd row)) /\
                          rr_res r = filter isalpha (List.concat (snd row))) recs rws ->
              records_of recs = map (fun row => (fst row, filter isalpha (List.concat (snd row)))) rws).
  { intros recs rws H. induction H as [|r row recs rws (A & _ & C) H IH]; [reflexivity|].
    unfold records_of in *. cbn [map]. rewrite IH, A, C. reflexivity. }
  rewrite (Q _ _ A1), (Q _ _ A2). exact E.
Qed.

(* ---- the same for the MSF body (names come from the header; see FormatsProofs2 for kalign's own header) ------------ *)
Lemma msf_step_sep recs k h l : sep_line l ->
  msf_step (Some (recs, k, h)) l = Some (recs, (if match l with [] => true | _ => false end then 0%nat else k), h).
Proof. intros [->|(c & t & -> & Hc)]; [reflexivity|]. unfold msf_step. rewrite Hc. reflexivity. Qed.

Lemma msf_seps : forall seps recs k h, Forall sep_line seps -> (In [] seps \/ k = 0%nat) ->
  fold_left msf_step seps (Some (recs, k, h)) = Some (recs, 0%nat, h).
Proof.
  induction seps as [|l seps IH]; intros recs k h Hs Hin.
  - destruct Hin as [Hin|Hk]; [destruct Hin|subst k; reflexivity].
  - inversion Hs as [|? ? Hl Hs']; subst. cbn [fold_left]. rewrite (msf_step_sep recs k h l Hl).
    apply IH; [exact Hs'|]. destruct l as [|c t]; [right; reflexivity|].
    destruct Hin as [[E|Hin]|Hk]; [discriminate|left; exact Hin|right; exact Hk].
Qed.

Definition gpre_n (r : rrec) (x : item) : Prop := gpre r x /\ rr_name r = it_name x.

Lemma msf_rows_g : forall items recs_pre recs_suf h,
  Forall (fun x => gname_ok (it_name x)) items -> Forall2 gpre_n recs_suf items ->
  exists recs' h',
    fold_left msf_step (map it_line items) (Some (recs_pre ++ recs_suf, length recs_pre, h)) =
      Some (recs_pre ++ recs', (length recs_pre + length items)%nat, h') /\
    Forall2 gpost recs' items.
Proof.
  induction items as [|x items IH]; intros recs_pre recs_suf h Hok Hs.
  - inversion Hs; subst. exists [], h. cbn [map fold_left length]. rewrite Nat.add_0_r. split; [reflexivity|constructor].
  - inversion Hok as [|? ? (Hne & Hns & Hl) Hok']; subst. inversion Hs as [|r ? rs ? ((W & R & RS) & N) Hrs]; subst.
    cbn [map fold_left]. change (it_line x) with (it_name x ++ 32 :: it_payload x).
    rewrite msf_step_line by assumption.
    set (r1 := feed_line _ _).
    assert (Hr1 : gpost r1 x).
    { destruct (feed_payload r (it_payload x) W) as (F1 & F2 & F3 & F4). fold r1 in F1, F2, F3, F4.
      split; [exact F1|split; [rewrite F3; exact N|split]].
      - rewrite F2, R. reflexivity.
      - rewrite F4, RS, filter_app. reflexivity. }
    destruct (IH (recs_pre ++ [r1]) rs (count_line h (32 :: it_payload x)) Hok' Hrs) as (recs'' & h'' & Hf & Hall).
    rewrite app_length in Hf. cbn [length] in Hf. rewrite <- app_assoc in Hf. cbn [app] in Hf.
    replace (length recs_pre + 1)%nat with (S (length recs_pre)) in Hf by lia.
    exists (r1 :: recs''), h''. split.
    + rewrite Hf. rewrite <- app_assoc. cbn [app length]. f_equal. f_equal. f_equal. lia.
    + constructor; assumption.
Qed.

Section MsfLayout.
Variable rows : list lrow.
Variable k : nat.
Variable seps : nat -> list (list Z).
Hypothesis names_ok : Forall (fun row => gname_ok (fst row)) rows.
Hypothesis pieces : Forall (fun row => length (snd row) = k) rows.
Hypothesis seps_good : forall j, seps_ok (seps j).

Lemma after_is_gpre_n j : forall recs rws, Forall2 (after_blocks j) recs rws -> Forall2 gpre_n recs (map (item_of j) rws).
Proof.
  intros recs rws H. induction H as [|r row recs rws (W & N & R & RS) H IH]; cbn [map]; constructor; [|exact IH].
  split; [split; [exact W|split; [exact R|exact RS]]|exact N].
Qed.

Lemma msf_block_g j recs h : (j < k)%nat -> Forall2 (after_blocks j) recs rows ->
  exists recs' h', fold_left msf_step (block_lines rows seps j) (Some (recs, 0%nat, h)) = Some (recs', 0%nat, h') /\
                   Forall2 (after_blocks (S j)) recs' rows.
Proof.
  intros Hj Hs.
  destruct (msf_rows_g (map (item_of j) rows) [] recs h) as (recs' & h' & Hf & Hall).
  - apply Forall_forall. intros x Hin. apply in_map_iff in Hin. destruct Hin as (row & <- & Hin).
    rewrite Forall_forall in names_ok. apply (names_ok row Hin).
  - apply after_is_gpre_n. exact Hs.
  - exists recs', h'. split; [|eapply gpost_is_after; eassumption].
    unfold block_lines. rewrite fold_left_app. cbn [app length] in Hf. rewrite Hf.
    destruct (seps_good j) as [S1 S2]. apply msf_seps; [exact S1|left; exact S2].
Qed.

Lemma msf_blocks_g : forall cnt j recs h, (j + cnt <= k)%nat -> Forall2 (after_blocks j) recs rows ->
  exists recs' h', fold_left msf_step (flat_map (block_lines rows seps) (seq j cnt)) (Some (recs, 0%nat, h)) = Some (recs', 0%nat, h') /\
                   Forall2 (after_blocks (j + cnt)) recs' rows.
Proof.
  induction cnt as [|cnt IH]; intros j recs h Hk Hs.
  - exists recs, h. split; [reflexivity|]. rewrite Nat.add_0_r. exact Hs.
  - cbn [seq flat_map]. rewrite fold_left_app.
    destruct (msf_block_g j recs h ltac:(lia) Hs) as (r1 & h1 & F1 & A1). rewrite F1.
    destruct (IH (S j) r1 h1 ltac:(lia) A1) as (r2 & h2 & F2 & A2).
    exists r2, h2. split; [exact F2|]. replace (j + S cnt)%nat with (S j + cnt)%nat by lia. exact A2.
Qed.

(* the body of an MSF file in any layout, read into the records the header declared *)
Theorem msf_body_layout lead h0 : Forall sep_line lead ->
  exists recs h, fold_left msf_step (lead ++ body_lines rows k seps) (Some (map (fun row => empty_rec (fst row)) rows, 0%nat, h0)) = Some (recs, 0%nat, h) /\
    Forall2 (fun r row => rr_name r = fst row /\ row_of r = norm (List.concat (snd row)) /\
                          rr_res r = filter isalpha (List.concat (snd row))) recs rows.
Proof.
  intros Hlead.
  assert (H0 : Forall2 (after_blocks 0) (map (fun row => empty_rec (fst row)) rows) rows).
  { clear. induction rows as [|row rws IH]; cbn [map]; constructor; [|exact IH].
    split; [reflexivity|split; [reflexivity|split; reflexivity]]. }
  destruct (msf_blocks_g k 0%nat _ h0 ltac:(lia) H0) as (recs & h & Hf & Hs). cbn [Nat.add] in Hs.
  exists recs, h. split.
  - rewrite fold_left_app. rewrite (msf_seps lead _ 0%nat h0 Hlead (or_intror eq_refl)). unfold body_lines. exact Hf.
  - clear Hf H0. revert Hs. generalize pieces. clear. intros Hp Hs.
    induction Hs as [|r row recs rws (W & N & R & RS) H IH]; [constructor|].
    inversion Hp as [|? ? Hl Hp']; subst. constructor; [|apply IH; exact Hp'].
    rewrite firstn_all2 in R, RS by lia. split; [exact N|split; [exact R|]]. rewrite RS. apply filter_norm.
Qed.
End MsfLayout.

(* ---- several inputs -------------------------------------------------------------------------------------------- *)
(* two FASTA files written by kalign, read as two inputs: the records of the first followed by the records of the second *)
Theorem read_two_fasta rows1 rows2 :
  (2 <= length rows1)%nat -> rows2 <> [] ->
  Forall (fun nr => name_ok (fst nr) /\ good_row (snd nr)) rows1 -> Forall (fun nr => name_ok (fst nr) /\ good_row (snd nr)) rows2 ->
  forall h1 h2, read_one (write_fasta rows1) = Some (Some (mkM (map rec_of rows1) h1)) ->
                read_one (write_fasta rows2) = Some (Some (mkM (map rec_of rows2) h2)) ->
  biotype_of ALN_BIOTYPE_UNDEF h1 <> ALN_BIOTYPE_UNDEF ->
  biotype_of ALN_BIOTYPE_UNDEF h2 = biotype_of ALN_BIOTYPE_UNDEF h1 ->
  exists m, read_inputs [write_fasta rows1; write_fasta rows2] = ROk m /\ i_recs m = map rec_of (rows1 ++ rows2).
Proof.
  intros L1 N2 H1 H2 h1 h2 R1 R2 B1 B2. unfold read_inputs. cbn [fold_left]. unfold read_step at 2. rewrite R1. cbn [m_recs m_freq].
  rewrite map_length. destruct (Nat.ltb_spec (length rows1) 2) as [|_]; [lia|].
  unfold read_step. rewrite R2. cbn [m_recs m_freq i_biotype i_recs i_freq].
  rewrite B2. destruct (Z.eqb_spec (biotype_of ALN_BIOTYPE_UNDEF h1) ALN_BIOTYPE_UNDEF) as [E|_]; [contradiction|]. cbn [negb andb].
  rewrite Z.eqb_refl. cbn [negb andb].
  rewrite app_length, !map_length. destruct (Nat.ltb_spec (length rows1 + length rows2) 2) as [|_]; [lia|].
  eexists. split; [reflexivity|]. cbn [i_recs]. rewrite map_app. reflexivity.
Qed.

Lemma records_of_rec_of rows : Forall (fun nr => good_row (snd nr)) rows -> records_of (map rec_of rows) = residues_of rows.
Proof.
  intros H. unfold records_of, residues_of. rewrite map_map. apply map_ext_in. intros nr Hin.
  rewrite Forall_forall in H. destruct (rec_of_props nr (H nr Hin)) as (N & _ & S & _). rewrite N, S. reflexivity.
Qed.
