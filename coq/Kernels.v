(* Model of the dynamic-programming kernels and of the Hirschberg controller:
   lib/src/aln_seqseq.c, aln_seqprofile.c, aln_profileprofile.c (forward, backward, meetup) and
   lib/src/aln_controller.c (aln_runner_serial / aln_runner, aln_continue).

   The three kernels have one loop structure - a rolling array s[startb..endb] of three states
   (a, ga, gb) updated row by row with the registers pa, pga, pgb, ca, xa, xga - and differ only in
   where the costs come from (constants, profile columns).  The text is therefore written ONCE,
   over (i) an arithmetic [alg] (binary32 for the instance that runs against the C code; exact
   integers for reasoning) and (ii) a [costs] record of accessors; the backward pass is the same
   pass run over the reversed rows and columns with the two border tests exchanged - its
   cost accessors (prof[91] instead of prof[-37], column j+1 instead of j) are part of the record.
   Executable; no proofs here. *)
From Coq Require Import ZArith List Bool Lia.
Import ListNotations.
Local Open Scope Z_scope.

Record alg := mkAlg {
  T : Type;
  add : T -> T -> T;
  mul : T -> T -> T;
  neg : T -> T;
  gt : T -> T -> bool;          (* C '>' *)
  nonzero : T -> bool;          (* C truth value of a float *)
  zero : T;
  negmax : T;                   (* -FLT_MAX *)
  of_int : Z -> T;              (* (float) of an int *)
  tiebreak : Z -> Z -> Z -> T   (* startb endb i |-> fabsf(((float)(endb-startb)/2.0F + (float)startb) - (float)i) / 1000.0F *)
}.

Section Generic.
Variable A : alg.
Notation T := (T A).
Notation "x +. y" := (add A x y) (at level 50, left associativity).
Definition mx (x y : T) : T := if gt A x y then x else y.          (* MAX(a,b) (a > b ? a : b) *)
Definition mx3 (x y z : T) : T := mx (mx x y) z.                   (* MAX3 *)

Definition cell := (T * T * T)%type.     (* a, ga, gb *)
Definition c_a (c : cell) := fst (fst c).
Definition c_ga (c : cell) := snd (fst c).
Definition c_gb (c : cell) := snd c.
Definition dead : cell := (negmax A, negmax A, negmax A).

(* cost accessors of one pass: R = what a row contributes, C = what a column contributes *)
Variables R C : Type.
Record costs := mkCosts {
  k_match : R -> C -> T -> T;      (* pa += ... (one or several additions) *)
  k_ga_to_a : C -> T;              (* added to pga inside MAX3 *)
  k_gb_to_a : R -> T;              (* added to pgb inside MAX3 *)
  k_ga_ext : C -> T; k_ga_open : C -> T; k_ga_text : C -> T;
  k_gb_ext : R -> T; k_gb_open : R -> T; k_gb_text : R -> T
}.
Variable K : costs.

(* first row of the array: s[start] = input states; then ga runs along the border *)
Fixpoint init_cells (border_internal : bool) (prev : cell) (cols : list C) : list cell :=
  match cols with
  | [] => []
  | [_] => [dead]                               (* s[endb] = (-FLT_MAX, -FLT_MAX, -FLT_MAX) *)
  | c :: rest =>
    let ga := if border_internal then mx (c_ga prev +. k_ga_ext K c) (c_a prev +. k_ga_open K c)
              else mx (c_ga prev) (c_a prev) +. k_ga_text K c in
    let cur := (negmax A, ga, negmax A) in
    cur :: init_cells border_internal cur rest
  end.

(* the inner loop over the columns of one row; registers (pa, pga, pgb, xa, xga) *)
Fixpoint row_cells (last_internal : bool) (r : R) (pa pga pgb xa xga : T) (old : list cell) (cols : list C) : list cell :=
  match old, cols with
  | [o], [c] =>       (* the last column *)
    let na := k_match K r c (mx3 pa (pga +. k_ga_to_a K c) (pgb +. k_gb_to_a K r)) in
    let ngb := if last_internal then mx (c_gb o +. k_gb_ext K r) (c_a o +. k_gb_open K r)
               else mx (c_gb o) (c_a o) +. k_gb_text K r in
    [(na, negmax A, ngb)]
  | o :: old', c :: cols' =>
    let na := k_match K r c (mx3 pa (pga +. k_ga_to_a K c) (pgb +. k_gb_to_a K r)) in
    let nga := mx (xga +. k_ga_ext K c) (xa +. k_ga_open K c) in
    let ngb := mx (c_gb o +. k_gb_ext K r) (c_a o +. k_gb_open K r) in
    (na, nga, ngb) :: row_cells last_internal r (c_a o) (c_ga o) (c_gb o) na nga old' cols'
  | _, _ => []
  end.

Definition row_step (first_internal last_internal : bool) (cells : list cell) (cols : list C) (r : R) : list cell :=
  match cells with
  | [] => []
  | o0 :: old =>
    let gb0 := if first_internal then mx (c_gb o0 +. k_gb_ext K r) (c_a o0 +. k_gb_open K r)
               else mx (c_gb o0) (c_a o0) +. k_gb_text K r in
    (negmax A, negmax A, gb0) :: row_cells last_internal r (c_a o0) (c_ga o0) (c_gb o0) (negmax A) (negmax A) old cols
  end.

(* one pass: [cols] are the columns of the cells after the first one, in processing order *)
Definition pass (first_internal last_internal : bool) (s0 : cell) (rows : list R) (cols : list C) : list cell :=
  fold_left (fun cells r => row_step first_internal last_internal cells cols r) rows
            (s0 :: init_cells first_internal s0 cols).
End Generic.

(* ---- meetup ---------------------------------------------------------------------------------------- *)
Section Meetup.
Variable A : alg.
Notation T := (T A).
Notation "x +. y" := (add A x y) (at level 50, left associativity).
(* costs of the six transitions at column i (the C text subtracts gpo etc.; the accessors return the
   value that is ADDED, i.e. already negated where the text subtracts) *)
Record mcosts := mkM {
  m_a_ga : Z -> T;        (* 2: f.a + b.ga + .. *)
  m_a_gb : T;             (* 3 *)
  m_ga_a : Z -> T;        (* 5 *)
  m_gb_gb_int : T;        (* 6, internal *)
  m_gb_gb_term : T;       (* 6, terminal *)
  m_gb_a : T              (* 7 *)
}.
Variable M : mcosts.

Definition better (cand : T) (code : Z) (i : Z) (best : T * Z * Z) : T * Z * Z :=
  let '(mxv, tr, c) := best in if gt A cand mxv then (cand, code, i) else best.

(* one column i < endb: candidates in the order of the C text *)
Definition meet_col (startb_zero : bool) (sub : T) (i : Z) (f b : cell A) (best : T * Z * Z) : T * Z * Z :=
  let ns := neg A sub in
  let best := better (c_a A f +. c_a A b +. ns) 1 i best in
  let best := better (c_a A f +. c_ga A b +. m_a_ga M i +. ns) 2 i best in
  let best := better (c_a A f +. c_gb A b +. m_a_gb M +. ns) 3 i best in
  let best := better (c_ga A f +. c_a A b +. m_ga_a M i +. ns) 5 i best in
  let best := better (c_gb A f +. c_gb A b +. (if startb_zero then m_gb_gb_term M else m_gb_gb_int M) +. ns) 6 i best in
  better (c_gb A f +. c_a A b +. m_gb_a M +. ns) 7 i best.

Definition meet_last (endb_is_len : bool) (sub : T) (i : Z) (f b : cell A) (best : T * Z * Z) : T * Z * Z :=
  let ns := neg A sub in
  let best := better (c_a A f +. c_gb A b +. m_a_gb M +. ns) 3 i best in
  better (c_gb A f +. c_gb A b +. (if endb_is_len then m_gb_gb_term M else m_gb_gb_int M) +. ns) 6 i best.

Fixpoint meet_scan (startb_zero endb_is_len : bool) (startb endb i : Z) (fs bs : list (cell A)) (best : T * Z * Z) : T * Z * Z :=
  match fs, bs with
  | [f], [b] => meet_last endb_is_len (tiebreak A startb endb i) i f b best
  | f :: fs', b :: bs' =>
    meet_scan startb_zero endb_is_len startb endb (i + 1) fs' bs'
              (meet_col (i =? 0) (tiebreak A startb endb i) i f b best)
  | _, _ => best
  end.

(* returns (max, transition, meet); transition -1 / meet -1 when no candidate exceeds -FLT_MAX *)
Definition meetup (startb_zero endb_is_len : bool) (startb endb : Z) (fs bs : list (cell A)) : T * Z * Z :=
  meet_scan startb_zero endb_is_len startb endb startb fs bs (negmax A, -1, -1).
End Meetup.

(* ---- controller ---------------------------------------------------------------------------------------- *)
Section Controller.
Variable A : alg.
Notation T := (T A).
(* a kernel instance: how to run the two passes and the meetup of a sub-problem given in the
   coordinates of the C code (rows starta+1..enda, columns startb+1..endb, 1-based) *)
Record kernel := mkKernel {
  k_forward : Z -> Z -> Z -> Z -> cell A -> list (cell A);      (* starta enda(=mid) startb endb f0 -> f[startb..endb] *)
  k_backward : Z -> Z -> Z -> Z -> cell A -> list (cell A);     (* starta_2(=mid) enda_2 startb endb b0 -> b[startb..endb] *)
  k_meetup : Z -> Z -> Z -> list (cell A) -> list (cell A) -> T * Z * Z   (* mid startb endb f b *)
}.
Variable Kn : kernel.

Definition live0 : cell A := (zero A, negmax A, negmax A).     (* (0, -FLT_MAX, -FLT_MAX) *)
Definition ga0 : cell A := (negmax A, zero A, negmax A).
Definition gb0 : cell A := (negmax A, negmax A, zero A).

(* path assignments in the order they are made: (index, value) *)
Fixpoint runner (fuel : nat) (starta enda startb endb : Z) (f0 b0 : cell A) : option (list (Z * Z)) :=
  match fuel with
  | O => None
  | S fu =>
    if (enda <=? starta) || (endb <=? startb) then Some []
    else
      let mid := (enda - starta) / 2 + starta in
      let fs := k_forward Kn starta mid startb endb f0 in
      let bs := k_backward Kn mid enda startb endb b0 in
      let '(_, tr, meet) := k_meetup Kn mid startb endb fs bs in
      let sub2 (w1 : list (Z * Z)) (a1 e1 s1 n1 : Z) (bb : cell A) (a2 e2 s2 n2 : Z) (ff : cell A) :=
        match runner fu a1 e1 s1 n1 f0 bb with
        | None => None
        | Some p1 => match runner fu a2 e2 s2 n2 ff b0 with
                     | None => None
                     | Some p2 => Some (w1 ++ p1 ++ p2)
                     end
        end in
      if tr =? 1 then sub2 [(mid, meet); (mid + 1, meet + 1)] starta (mid - 1) startb (meet - 1) live0 (mid + 1) enda (meet + 1) endb live0
      else if tr =? 2 then sub2 [(mid, meet)] starta (mid - 1) startb (meet - 1) live0 mid enda (meet + 1) endb ga0
      else if tr =? 3 then sub2 [(mid, meet)] starta (mid - 1) startb (meet - 1) live0 (mid + 1) enda meet endb gb0
      else if tr =? 5 then sub2 [(mid + 1, meet + 1)] starta mid startb (meet - 1) ga0 (mid + 1) enda (meet + 1) endb live0
      else if tr =? 6 then sub2 [] starta (mid - 1) startb meet gb0 (mid + 1) enda meet endb gb0
      else if tr =? 7 then sub2 [(mid + 1, meet + 1)] starta (mid - 1) startb meet gb0 (mid + 1) enda (meet + 1) endb live0
      else Some []          (* transition -1: nothing is written, no recursion *)
  end.

(* the same recursion, also recording every meetup (max, transition, meet) in the order they are made *)
Fixpoint runner2 (fuel : nat) (starta enda startb endb : Z) (f0 b0 : cell A) : option (list (Z * Z) * list (T * Z * Z)) :=
  match fuel with
  | O => None
  | S fu =>
    if (enda <=? starta) || (endb <=? startb) then Some ([], [])
    else
      let mid := (enda - starta) / 2 + starta in
      let fs := k_forward Kn starta mid startb endb f0 in
      let bs := k_backward Kn mid enda startb endb b0 in
      let mt := k_meetup Kn mid startb endb fs bs in
      let '(_, tr, meet) := mt in
      let sub2 (w1 : list (Z * Z)) (a1 e1 s1 n1 : Z) (bb : cell A) (a2 e2 s2 n2 : Z) (ff : cell A) :=
        match runner2 fu a1 e1 s1 n1 f0 bb with
        | None => None
        | Some (p1, m1) => match runner2 fu a2 e2 s2 n2 ff b0 with
                           | None => None
                           | Some (p2, m2) => Some (w1 ++ p1 ++ p2, mt :: m1 ++ m2)
                           end
        end in
      if tr =? 1 then sub2 [(mid, meet); (mid + 1, meet + 1)] starta (mid - 1) startb (meet - 1) live0 (mid + 1) enda (meet + 1) endb live0
      else if tr =? 2 then sub2 [(mid, meet)] starta (mid - 1) startb (meet - 1) live0 mid enda (meet + 1) endb ga0
      else if tr =? 3 then sub2 [(mid, meet)] starta (mid - 1) startb (meet - 1) live0 (mid + 1) enda meet endb gb0
      else if tr =? 5 then sub2 [(mid + 1, meet + 1)] starta mid startb (meet - 1) ga0 (mid + 1) enda (meet + 1) endb live0
      else if tr =? 6 then sub2 [] starta (mid - 1) startb meet gb0 (mid + 1) enda meet endb gb0
      else if tr =? 7 then sub2 [(mid + 1, meet + 1)] starta (mid - 1) startb meet gb0 (mid + 1) enda (meet + 1) endb live0
      else Some ([], [mt])
  end.

Definition meet_trace (len_a len_b : Z) : list (T * Z * Z) :=
  match runner2 (Z.to_nat (len_a + len_b + 2)) 0 len_a 0 len_b live0 live0 with
  | None => []
  | Some (_, ms) => ms
  end.

Fixpoint set_nthZ (l : list Z) (i : nat) (v : Z) : list Z :=
  match l, i with
  | _ :: t, O => v :: t
  | x :: t, S i' => x :: set_nthZ t i' v
  | [], _ => []
  end.

(* path[1..len_a] after aln_runner on a fresh aln_mem (path[] = -1 everywhere) *)
Definition raw_path (len_a len_b : Z) : option (list Z) :=
  match runner (Z.to_nat (len_a + len_b + 2)) 0 len_a 0 len_b live0 live0 with
  | None => None
  | Some ws =>
    let full := fold_left (fun p w => if (0 <=? fst w) then set_nthZ p (Z.to_nat (fst w)) (snd w) else p) ws
                          (repeat (-1) (Z.to_nat (Z.max len_a len_b + 2))) in
    Some (firstn (Z.to_nat len_a) (tl full))
  end.
End Controller.
