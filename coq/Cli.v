(* Model of the exit-status logic of src/run_kalign.c (main, run_kalign) and of the outcome
   classification of the library entry points.  The outcome of each stage is an argument: the
   stages themselves are modelled elsewhere (Formats.read_inputs, Params.init/set_aln_type,
   Formats.parse_format); here only the control flow that turns stage results into the process
   exit status is restated, in the order of the C text.  Executable; no proofs here. *)
From KV Require Import Base Params Sort Detect Weave Cmp Formats.
From Coq Require Import String.
Import Coq.Init.Datatypes.
Import ListNotations.
Local Open Scope list_scope.
Local Open Scope Z_scope.

Inductive stage := SOk | SFail.

Record cli_args := mkCli {
  a_version : bool;          (* -v / -V / --version *)
  a_showw : bool;            (* --showw *)
  a_help : bool;             (* -h / --help *)
  a_nthreads : Z;            (* -n, default 4 (atoi of the argument) *)
  a_ninputs : nat;           (* stdin if not a tty + -i + positional arguments *)
  a_format : option (list Z);(* -f / --format *)
  a_type : option (list Z)   (* --type *)
}.

Inductive cli_result :=
| Exit0_info               (* version / warranty / help / no input: nothing is aligned, status 0 *)
| Exit1                    (* EXIT_FAILURE *)
| Exit0_written.           (* an alignment was written, status 0 *)

(* check_msa_format_string (parameters.c:73): same word list as parse_format_argument *)
Definition format_string_ok (f : option (list Z)) : bool :=
  match f with
  | None => true
  | Some s => has s "msf"%string || has s "clu"%string || has s "fasta"%string || has s "fa"%string
  end.

(* run_kalign: read every input in order (first failure aborts), kalign_run, kalign_write_msa *)
Definition run_kalign_status (reads : list stage) (run write : stage) : stage :=
  if forallb (fun s => match s with SOk => true | SFail => false end) reads then
    match run with
    | SFail => SFail
    | SOk => write
    end
  else SFail.

Definition cli_main (a : cli_args) (reads : list stage) (run write : stage) : cli_result :=
  if a_version a then Exit0_info
  else if a_showw a then Exit0_info
  else if a_help a then Exit0_info
  else if a_nthreads a <? 1 then Exit1
  else if (a_ninputs a =? 0)%nat then Exit0_info
  else if negb (format_string_ok (a_format a)) then Exit1
  else match set_aln_type (a_type a) with
       | None => Exit1
       | Some _ =>
         match run_kalign_status reads run write with
         | SOk => Exit0_written
         | SFail => Exit1
         end
       end.

Definition exit_code (r : cli_result) : Z := match r with Exit1 => 1 | _ => 0 end.

(* The read stage of one process, from the bytes of its inputs (Formats.read_inputs), and the
   run stage as far as the parameter logic decides it (Params.init on the detected kind).
   kalign_run on NULL (nothing readable in any input) fails its first assertion. *)
Definition predicted_run_stage (files : list (list Z)) (ty : Z) (gpo gpe tgpe : N) : stage * stage :=
  match read_inputs files with
  | RErr => (SFail, SFail)
  | RNone => (SOk, SFail)
  | ROk m =>
    (SOk,
     if (length (filter (fun r => negb (length (rr_res r) =? 0)%nat) (i_recs m)) <=? 1)%nat then SFail
     else if (i_biotype m =? ALN_BIOTYPE_UNDEF) then SFail
     else match init (i_biotype m) ty gpo gpe tgpe with
          | None => SFail
          | Some _ => SOk
          end)
  end.
