From KV Require Import Base Weave.
From Coq Require Import Permutation.
Local Open Scope nat_scope.

(* ================================================================================== *)
(* 1. update_gaps refines column insertion                                              *)
(* ================================================================================== *)

Lemma sum_nat_app a b : sum_nat (a ++ b) = sum_nat a + sum_nat b.
Proof. induction a; simpl; lia. Qed.

Lemma repeat_add {A} (x : A) a b : repeat x (a + b) = repeat x a ++ repeat x b.
Proof. induction a; simpl; congruence. Qed.

Lemma expand_cons_cons n ng x rest :
  expand (n :: ng) (x :: rest) = repeat dash n ++ x :: expand ng rest.
Proof. reflexivity. Qed.

(* inserting per-slot gap counts [ng] into a row that starts with k dashes *)
Lemma expand_dashes : forall k ng rest,
  k <= length ng ->
  expand ng (repeat dash k ++ rest) =
  repeat dash (k + sum_nat (firstn k ng)) ++ expand (skipn k ng) rest.
Proof.
  induction k as [|k IH]; intros ng rest Hk.
  - reflexivity.
  - destruct ng as [|n ng]; [simpl in Hk; lia|].
    simpl repeat. rewrite <- app_comm_cons, expand_cons_cons.
    rewrite IH by (simpl in Hk; lia).
    simpl firstn. simpl skipn. simpl sum_nat.
    change (dash :: repeat dash (k + (n + sum_nat (firstn k ng))))
      with (repeat dash (S (k + (n + sum_nat (firstn k ng))))).
    replace (S (k + (n + sum_nat (firstn k ng)))) with (n + S (k + sum_nat (firstn k ng))) by lia.
    rewrite (repeat_add dash n). simpl. rewrite <- app_assoc. reflexivity.
Qed.

Lemma firstn_S_sum : forall k (ng : list nat), k < length ng ->
  sum_nat (firstn (S k) ng) = sum_nat (firstn k ng) + nth k ng 0.
Proof.
  induction k as [|k IH]; intros [|n ng] H; simpl in *; try lia.
  specialize (IH ng ltac:(lia)). simpl in IH. rewrite IH. lia.
Qed.

Lemma skipn_S_nth : forall k (ng : list nat), k < length ng ->
  skipn k ng = nth k ng 0 :: skipn (S k) ng.
Proof.
  induction k as [|k IH]; intros [|n ng] H; simpl in *; try lia; auto.
  apply IH; lia.
Qed.

Lemma expand_length : forall res g, length g = S (length res) ->
  length (expand g res) = length res + sum_nat g.
Proof.
  induction res as [|r res IH]; intros [|g0 g] H; simpl in *; try lia.
  - destruct g; simpl in *; try lia. rewrite repeat_length. lia.
  - rewrite app_length, repeat_length. simpl. rewrite IH by lia. lia.
Qed.

Theorem update_gaps_refines : forall res g ng,
  length g = S (length res) ->
  length ng = S (length (expand g res)) ->
  expand (update_gaps g ng) res = expand ng (expand g res).
Proof.
  induction res as [|r res IH]; intros g ng Hg Hn.
  - destruct g as [|gl [|? ?]]; simpl in Hg; try lia.
    cbn [expand update_gaps] in *. rewrite repeat_length in Hn.
    pose proof (expand_dashes gl ng [] ltac:(lia)) as E.
    rewrite app_nil_r in E. rewrite E.
    rewrite (skipn_S_nth gl ng) by lia. cbn [expand].
    rewrite <- repeat_add.
    rewrite (firstn_S_sum gl ng) by lia.
    f_equal. lia.
  - destruct g as [|g0 g]; simpl in Hg; [lia|].
    cbn [update_gaps]. rewrite expand_cons_cons.
    cbn [expand] in Hn |- *.
    rewrite app_length, repeat_length in Hn. simpl in Hn.
    rewrite expand_dashes by lia.
    rewrite (skipn_S_nth g0 ng) by lia.
    rewrite expand_cons_cons.
    rewrite IH.
    + rewrite (firstn_S_sum g0 ng) by lia.
      rewrite app_assoc, <- repeat_add. f_equal. f_equal. lia.
    + lia.
    + rewrite skipn_length. lia.
Qed.

(* ================================================================================== *)
(* 2. column view of a merge: weaving ops into rows                                    *)
(* ================================================================================== *)

(* the row of a member of group a after the merge: a dash wherever the op is "gap in a" *)
Fixpoint weave_a (ops : list opk) (row : list Z) : list Z :=
  match ops with
  | [] => []
  | OGA :: t => dash :: weave_a t row
  | ONONE :: t => weave_a t row
  | _ :: t => match row with x :: r => x :: weave_a t r | [] => [] end
  end.

Fixpoint weave_b (ops : list opk) (row : list Z) : list Z :=
  match ops with
  | [] => []
  | OGB :: t => dash :: weave_b t row
  | ONONE :: t => weave_b t row
  | _ :: t => match row with x :: r => x :: weave_b t r | [] => [] end
  end.

Definition cnt (k : opk -> bool) (ops : list opk) : nat := length (filter k ops).
Definition is_M o := match o with OM => true | _ => false end.
Definition is_GA o := match o with OGA => true | _ => false end.
Definition is_GB o := match o with OGB => true | _ => false end.
Definition is_NONE o := match o with ONONE => true | _ => false end.

(* ops are well-formed for widths (la, lb): a's columns = #M + #GB, b's columns = #M + #GA *)
Definition ops_fit (ops : list opk) (la lb : nat) : Prop :=
  cnt is_M ops + cnt is_GB ops = la /\ cnt is_M ops + cnt is_GA ops = lb /\ cnt is_NONE ops = 0.

Lemma expand_gapvec_a : forall ops c row,
  cnt is_M ops + cnt is_GB ops = length row -> cnt is_NONE ops = 0 ->
  expand (gapvec_a ops c) row = repeat dash c ++ weave_a ops row.
Proof.
  unfold cnt.
  induction ops as [|o ops IH]; intros c row H HN.
  - simpl in *. destruct row; [|simpl in H; lia]. simpl. rewrite app_nil_r. reflexivity.
  - destruct o; simpl in H, HN; cbn [gapvec_a gapvec_b weave_a weave_b].
    + destruct row as [|x row]; [simpl in H; lia|]. rewrite expand_cons_cons.
      rewrite IH by (simpl in H; lia). reflexivity.
    + rewrite IH by assumption.
      change (dash :: weave_a ops row) with ([dash] ++ weave_a ops row).
      rewrite app_assoc. f_equal.
      change (S c) with (1 + c). rewrite Nat.add_comm, repeat_add. reflexivity.
    + destruct row as [|x row]; [simpl in H; lia|]. rewrite expand_cons_cons.
      rewrite IH by (simpl in H; lia). reflexivity.
    + lia.
Qed.

Lemma expand_gapvec_b : forall ops c row,
  cnt is_M ops + cnt is_GA ops = length row -> cnt is_NONE ops = 0 ->
  expand (gapvec_b ops c) row = repeat dash c ++ weave_b ops row.
Proof.
  unfold cnt.
  induction ops as [|o ops IH]; intros c row H HN.
  - simpl in *. destruct row; [|simpl in H; lia]. simpl. rewrite app_nil_r. reflexivity.
  - destruct o; simpl in H, HN; cbn [gapvec_a gapvec_b weave_a weave_b].
    + destruct row as [|x row]; [simpl in H; lia|]. rewrite expand_cons_cons.
      rewrite IH by (simpl in H; lia). reflexivity.
    + destruct row as [|x row]; [simpl in H; lia|]. rewrite expand_cons_cons.
      rewrite IH by (simpl in H; lia). reflexivity.
    + rewrite IH by assumption.
      change (dash :: weave_b ops row) with ([dash] ++ weave_b ops row).
      rewrite app_assoc. f_equal.
      change (S c) with (1 + c). rewrite Nat.add_comm, repeat_add. reflexivity.
    + lia.
Qed.

Lemma gapvec_a_length : forall ops c, cnt is_NONE ops = 0 ->
  length (gapvec_a ops c) = S (cnt is_M ops + cnt is_GB ops).
Proof.
  unfold cnt. induction ops as [|o ops IH]; intros c HN; simpl in *; auto.
  destruct o; simpl in *; rewrite ?IH; try lia.
Qed.

Lemma gapvec_b_length : forall ops c, cnt is_NONE ops = 0 ->
  length (gapvec_b ops c) = S (cnt is_M ops + cnt is_GA ops).
Proof.
  unfold cnt. induction ops as [|o ops IH]; intros c HN; simpl in *; auto.
  destruct o; simpl in *; rewrite ?IH; try lia.
Qed.

Lemma weave_a_length : forall ops row,
  cnt is_M ops + cnt is_GB ops = length row -> cnt is_NONE ops = 0 ->
  length (weave_a ops row) = length ops.
Proof.
  unfold cnt. induction ops as [|o ops IH]; intros row H HN; simpl in *; auto.
  destruct o; simpl in *; try lia.
  - destruct row; simpl in *; [lia|]. rewrite IH; lia.
  - rewrite IH; lia.
  - destruct row; simpl in *; [lia|]. rewrite IH; lia.
Qed.

Lemma weave_b_length : forall ops row,
  cnt is_M ops + cnt is_GA ops = length row -> cnt is_NONE ops = 0 ->
  length (weave_b ops row) = length ops.
Proof.
  unfold cnt. induction ops as [|o ops IH]; intros row H HN; simpl in *; auto.
  destruct o; simpl in *; try lia.
  - destruct row; simpl in *; [lia|]. rewrite IH; lia.
  - destruct row; simpl in *; [lia|]. rewrite IH; lia.
  - rewrite IH; lia.
Qed.

(* the effect of make_seq on one member of group a, in terms of rows *)
Theorem member_a_row : forall ops g res,
  length g = S (length res) ->
  ops_fit ops (length (expand g res)) (cnt is_M ops + cnt is_GA ops) ->
  expand (update_gaps g (gapvec_a ops 0)) res = weave_a ops (expand g res).
Proof.
  intros ops g res Hg (Ha & _ & HN).
  rewrite update_gaps_refines; auto.
  - rewrite expand_gapvec_a; auto.
  - rewrite gapvec_a_length; auto.
Qed.

Theorem member_b_row : forall ops g res,
  length g = S (length res) ->
  ops_fit ops (cnt is_M ops + cnt is_GB ops) (length (expand g res)) ->
  expand (update_gaps g (gapvec_b ops 0)) res = weave_b ops (expand g res).
Proof.
  intros ops g res Hg (_ & Hb & HN).
  rewrite update_gaps_refines; auto.
  - rewrite expand_gapvec_b; auto.
  - rewrite gapvec_b_length; auto.
Qed.

Lemma update_gaps_length : forall g ng, length (update_gaps g ng) = length g.
Proof. induction g; intros; simpl; auto. Qed.

(* ================================================================================== *)
(* 3. what weaving preserves: residues, and finished sub-alignments (C01, C10)          *)
(* ================================================================================== *)
Local Open Scope Z_scope.
Definition is_dash (c : Z) : bool := c =? dash.
Definition degap (row : list Z) : list Z := filter (fun c => negb (is_dash c)) row.

Lemma degap_cons x l : degap (x :: l) = if negb (is_dash x) then x :: degap l else degap l.
Proof. reflexivity. Qed.
Lemma degap_dash l : degap (dash :: l) = degap l.
Proof. reflexivity. Qed.
Arguments degap : simpl never.

Lemma degap_weave_a : forall ops row, degap (weave_a ops row) = degap (firstn (cnt is_M ops + cnt is_GB ops) row).
Proof.
  unfold cnt.
  induction ops as [|o ops IH]; intros row; [reflexivity|].
  destruct o; cbn [weave_a filter is_M is_GB length Nat.add].
  - destruct row as [|x row]; [reflexivity|]. cbn [firstn]. rewrite !degap_cons, IH. reflexivity.
  - rewrite degap_dash. apply IH.
  - destruct row as [|x row]; [rewrite firstn_nil; reflexivity|].
    rewrite Nat.add_succ_r. cbn [firstn]. rewrite !degap_cons, IH. reflexivity.
  - apply IH.
Qed.

Lemma degap_weave_b : forall ops row, degap (weave_b ops row) = degap (firstn (cnt is_M ops + cnt is_GA ops) row).
Proof.
  unfold cnt.
  induction ops as [|o ops IH]; intros row; [reflexivity|].
  destruct o; cbn [weave_b filter is_M is_GA length Nat.add].
  - destruct row as [|x row]; [reflexivity|]. cbn [firstn]. rewrite !degap_cons, IH. reflexivity.
  - destruct row as [|x row]; [rewrite firstn_nil; reflexivity|].
    rewrite Nat.add_succ_r. cbn [firstn]. rewrite !degap_cons, IH. reflexivity.
  - rewrite degap_dash. apply IH.
  - apply IH.
Qed.

Lemma degap_expand : forall res g, length g = S (length res) ->
  Forall (fun c => c <> dash) res -> degap (expand g res) = res.
Proof.
  induction res as [|r res IH]; intros [|g0 g] Hg Hres; simpl in Hg; try lia.
  - destruct g; simpl in Hg; try lia. simpl.
    induction g0; simpl; auto.
  - rewrite expand_cons_cons. unfold degap. rewrite filter_app.
    inversion Hres as [|? ? Hr Hres']; subst.
    assert (filter (fun c => negb (is_dash c)) (repeat dash g0) = []) as ->.
    { clear. induction g0; simpl; auto. }
    simpl. unfold is_dash at 1. destruct (Z.eqb_spec r dash); [contradiction|]. simpl.
    f_equal. apply IH; auto.
Qed.

Local Open Scope nat_scope.
(* --- column masks: which columns of a block of rows consist of gaps only --- *)
Fixpoint and_mask (a b : list bool) : list bool :=
  match a, b with
  | x :: a', y :: b' => (x && y) :: and_mask a' b'
  | _, _ => []
  end.

Definition row_mask (row : list Z) : list bool := map is_dash row.

(* mask of a non-empty block *)
Fixpoint block_mask (first : list Z) (rest : list (list Z)) : list bool :=
  match rest with
  | [] => row_mask first
  | r :: rest' => and_mask (row_mask first) (block_mask r rest')
  end.

Fixpoint drop_masked {A} (m : list bool) (row : list A) : list A :=
  match m, row with
  | true :: m', _ :: r => drop_masked m' r
  | false :: m', x :: r => x :: drop_masked m' r
  | _, _ => []
  end.

(* rows of a group with the columns that are gaps in all of them removed *)
Definition strip_allgap (rows : list (list Z)) : list (list Z) :=
  match rows with
  | [] => []
  | r :: rest => map (drop_masked (block_mask r rest)) rows
  end.

(* mask transformer of a weave: inserted columns are all-gap *)
Fixpoint weave_mask_a (ops : list opk) (m : list bool) : list bool :=
  match ops with
  | [] => []
  | OGA :: t => true :: weave_mask_a t m
  | ONONE :: t => weave_mask_a t m
  | _ :: t => match m with x :: r => x :: weave_mask_a t r | [] => [] end
  end.
Fixpoint weave_mask_b (ops : list opk) (m : list bool) : list bool :=
  match ops with
  | [] => []
  | OGB :: t => true :: weave_mask_b t m
  | ONONE :: t => weave_mask_b t m
  | _ :: t => match m with x :: r => x :: weave_mask_b t r | [] => [] end
  end.

Lemma row_mask_weave_a : forall ops row, row_mask (weave_a ops row) = weave_mask_a ops (row_mask row).
Proof.
  induction ops as [|o ops IH]; intros row; simpl; auto.
  destruct o; simpl; rewrite ?IH; auto; destruct row; simpl; rewrite ?IH; auto.
Qed.
Lemma row_mask_weave_b : forall ops row, row_mask (weave_b ops row) = weave_mask_b ops (row_mask row).
Proof.
  induction ops as [|o ops IH]; intros row; simpl; auto.
  destruct o; simpl; rewrite ?IH; auto; destruct row; simpl; rewrite ?IH; auto.
Qed.

Lemma and_mask_weave_a : forall ops m1 m2, length m1 = length m2 ->
  and_mask (weave_mask_a ops m1) (weave_mask_a ops m2) = weave_mask_a ops (and_mask m1 m2).
Proof.
  induction ops as [|o ops IH]; intros m1 m2 H; simpl; auto.
  destruct o; simpl; try (rewrite IH; auto; fail);
  destruct m1, m2; simpl in *; try lia; auto; rewrite IH; auto.
Qed.
Lemma and_mask_weave_b : forall ops m1 m2, length m1 = length m2 ->
  and_mask (weave_mask_b ops m1) (weave_mask_b ops m2) = weave_mask_b ops (and_mask m1 m2).
Proof.
  induction ops as [|o ops IH]; intros m1 m2 H; simpl; auto.
  destruct o; simpl; try (rewrite IH; auto; fail);
  destruct m1, m2; simpl in *; try lia; auto; rewrite IH; auto.
Qed.

Lemma and_mask_length : forall a b, length a = length b -> length (and_mask a b) = length a.
Proof. induction a; intros [|y b] H; simpl in *; try lia; auto. Qed.

Lemma block_mask_length : forall rest first w,
  length first = w -> Forall (fun r => length r = w) rest -> length (block_mask first rest) = w.
Proof.
  induction rest as [|r rest IH]; intros first w Hf Hr; simpl.
  - unfold row_mask. rewrite map_length. auto.
  - inversion Hr; subst. rewrite and_mask_length; unfold row_mask; rewrite map_length; auto.
    symmetry. apply IH; auto.
Qed.

Lemma block_mask_weave_a : forall ops rest first w,
  length first = w -> Forall (fun r => length r = w) rest ->
  block_mask (weave_a ops first) (map (weave_a ops) rest) = weave_mask_a ops (block_mask first rest).
Proof.
  induction rest as [|r rest IH]; intros first w Hf Hr; simpl.
  - apply row_mask_weave_a.
  - inversion Hr as [|? ? H1 H2]; subst.
    assert (Forall (fun r0 => length r0 = length r) rest) as H2'
      by (eapply Forall_impl; [|exact H2]; simpl; intros; congruence).
    rewrite (IH r (length r) eq_refl H2').
    rewrite row_mask_weave_a. apply and_mask_weave_a.
    unfold row_mask. rewrite map_length.
    rewrite (block_mask_length rest r (length r) eq_refl H2'). congruence.
Qed.
Lemma block_mask_weave_b : forall ops rest first w,
  length first = w -> Forall (fun r => length r = w) rest ->
  block_mask (weave_b ops first) (map (weave_b ops) rest) = weave_mask_b ops (block_mask first rest).
Proof.
  induction rest as [|r rest IH]; intros first w Hf Hr; simpl.
  - apply row_mask_weave_b.
  - inversion Hr as [|? ? H1 H2]; subst.
    assert (Forall (fun r0 => length r0 = length r) rest) as H2'
      by (eapply Forall_impl; [|exact H2]; simpl; intros; congruence).
    rewrite (IH r (length r) eq_refl H2').
    rewrite row_mask_weave_b. apply and_mask_weave_b.
    unfold row_mask. rewrite map_length.
    rewrite (block_mask_length rest r (length r) eq_refl H2'). congruence.
Qed.

Lemma drop_weave_a : forall ops m row, length m = length row ->
  cnt is_M ops + cnt is_GB ops = length row ->
  drop_masked (weave_mask_a ops m) (weave_a ops row) = drop_masked m row.
Proof.
  unfold cnt.
  induction ops as [|o ops IH]; intros m row Hm H; simpl in *.
  - destruct row; simpl in *; try lia. destruct m; simpl in *; try lia. reflexivity.
  - destruct o; simpl in *; try (apply IH; auto; fail);
    destruct m as [|x m], row as [|y row]; simpl in *; try lia;
    destruct x; rewrite IH; auto; lia.
Qed.
Lemma drop_weave_b : forall ops m row, length m = length row ->
  cnt is_M ops + cnt is_GA ops = length row ->
  drop_masked (weave_mask_b ops m) (weave_b ops row) = drop_masked m row.
Proof.
  unfold cnt.
  induction ops as [|o ops IH]; intros m row Hm H; simpl in *.
  - destruct row; simpl in *; try lia. destruct m; simpl in *; try lia. reflexivity.
  - destruct o; simpl in *; try (apply IH; auto; fail);
    destruct m as [|x m], row as [|y row]; simpl in *; try lia;
    destruct x; rewrite IH; auto; lia.
Qed.

(* C10 core: a later merge only inserts whole gap columns into a block of rows. *)
Theorem strip_weave_a : forall ops rows w,
  Forall (fun r => length r = w) rows -> cnt is_M ops + cnt is_GB ops = w ->
  strip_allgap (map (weave_a ops) rows) = strip_allgap rows.
Proof.
  intros ops [|first rest] w Hall Hw; [reflexivity|].
  inversion Hall as [|? ? Hf Hr]; clear Hall.
  cbn [strip_allgap map].
  rewrite (block_mask_weave_a ops rest first w Hf Hr).
  assert (length (block_mask first rest) = w) as Hm by (apply block_mask_length; auto).
  f_equal.
  - apply drop_weave_a; congruence.
  - rewrite map_map. apply map_ext_in. intros r Hin.
    rewrite Forall_forall in Hr. specialize (Hr r Hin). apply drop_weave_a; congruence.
Qed.
Theorem strip_weave_b : forall ops rows w,
  Forall (fun r => length r = w) rows -> cnt is_M ops + cnt is_GA ops = w ->
  strip_allgap (map (weave_b ops) rows) = strip_allgap rows.
Proof.
  intros ops [|first rest] w Hall Hw; [reflexivity|].
  inversion Hall as [|? ? Hf Hr]; clear Hall.
  cbn [strip_allgap map].
  rewrite (block_mask_weave_b ops rest first w Hf Hr).
  assert (length (block_mask first rest) = w) as Hm by (apply block_mask_length; auto).
  f_equal.
  - apply drop_weave_b; congruence.
  - rewrite map_map. apply map_ext_in. intros r Hin.
    rewrite Forall_forall in Hr. specialize (Hr r Hin). apply drop_weave_b; congruence.
Qed.

(* ================================================================================== *)
(* 4. one merge, in terms of rows                                                       *)
(* ================================================================================== *)
Definition memb (i : nat) (l : list nat) : bool := existsb (Nat.eqb i) l.

Lemma memb_In i l : memb i l = true <-> In i l.
Proof.
  unfold memb. rewrite existsb_exists. split.
  - intros (x & Hx & E). apply Nat.eqb_eq in E. subst; auto.
  - intro H. exists i. split; auto. apply Nat.eqb_refl.
Qed.

Lemma upd_member_length ng ms gaps : length (upd_member ng ms gaps) = length gaps.
Proof. unfold upd_member. rewrite map_length, combine_length, seq_length. lia. Qed.

Lemma upd_member_nth ng ms gaps i : i < length gaps ->
  nth i (upd_member ng ms gaps) [] =
  if memb i ms then update_gaps (nth i gaps []) ng else nth i gaps [].
Proof.
  intro Hi. unfold upd_member.
  set (f := fun ig : nat * list nat => if existsb (Nat.eqb (fst ig)) ms then update_gaps (snd ig) ng else snd ig).
  replace (@nil nat) with (f (length gaps, [])) at 1.
  2:{ unfold f. simpl. destruct (existsb _ ms); reflexivity. }
  rewrite map_nth. rewrite combine_nth by (rewrite seq_length; reflexivity).
  rewrite seq_nth by assumption. unfold f. simpl. reflexivity.
Qed.

Section Assembly.
Variable seqs : list (list Z).
Notation n := (length seqs).

Definition row_of (st : wstate) (i : nat) : list Z := expand (nth i (w_gaps st) []) (nth i seqs []).
Definition members (st : wstate) (x : nat) : list nat := nth x (w_sip st) [].
Definition width_ok (st : wstate) (x w : nat) : Prop :=
  forall i, In i (members st x) -> length (row_of st i) = w.

Record Inv (st : wstate) (act : list nat) : Prop := {
  inv_len : length (w_gaps st) = n;
  inv_glen : forall i, i < n -> length (nth i (w_gaps st) []) = S (length (nth i seqs []));
  inv_mem : forall x i, In x act -> In i (members st x) -> i < n;
  inv_disj : forall x y i, In x act -> In y act -> In i (members st x) -> In i (members st y) -> x = y
}.

Lemma merge_step_rows st act a b c ops wa wb :
  Inv st act -> In a act -> In b act -> a <> b ->
  width_ok st a wa -> width_ok st b wb -> ops_fit (map op_kind ops) wa wb ->
  forall i, i < n ->
    row_of (merge_step st a b c ops) i =
      if memb i (members st a) then weave_a (map op_kind ops) (row_of st i)
      else if memb i (members st b) then weave_b (map op_kind ops) (row_of st i)
      else row_of st i.
Proof.
  intros HI Ha Hb Hab Wa Wb Hfit i Hi.
  destruct HI as [Hlen Hglen Hmem Hdisj].
  unfold row_of, merge_step, make_seq. cbn [w_gaps].
  fold (members st a). fold (members st b).
  rewrite upd_member_nth by (rewrite upd_member_length; lia).
  rewrite upd_member_nth by lia.
  destruct (memb i (members st a)) eqn:Ea.
  - assert (memb i (members st b) = false) as Eb.
    { destruct (memb i (members st b)) eqn:Eb; auto.
      apply memb_In in Ea, Eb. exfalso. apply Hab. eapply Hdisj; eauto. }
    rewrite Eb. apply memb_In in Ea.
    apply member_a_row; auto.
    destruct Hfit as (F1 & F2 & F3). specialize (Wa i Ea). unfold row_of in Wa.
    repeat split; auto. rewrite Wa. exact F1.
  - destruct (memb i (members st b)) eqn:Eb; auto.
    apply memb_In in Eb.
    apply member_b_row; auto.
    destruct Hfit as (F1 & F2 & F3). specialize (Wb i Eb). unfold row_of in Wb.
    repeat split; auto. rewrite Wb. exact F2.
Qed.

Lemma set_nth_length {A} : forall k (x : A) l, length (set_nth k x l) = length l.
Proof. induction k; intros x [|h t]; simpl; auto. Qed.

Lemma set_nth_same {A} : forall k (x d : A) l, k < length l -> nth k (set_nth k x l) d = x.
Proof. induction k; intros x d [|h t] H; simpl in *; try lia; auto. apply IHk; lia. Qed.

Lemma set_nth_other {A} : forall k j (x d : A) l, j <> k -> nth j (set_nth k x l) d = nth j l d.
Proof.
  induction k; intros j x d [|h t] H; simpl; auto; destruct j; try lia; auto.
Qed.

Lemma members_step_c st a b c ops : c < length (w_sip st) ->
  members (merge_step st a b c ops) c = rev (members st a) ++ rev (members st b).
Proof. intro H. unfold members, merge_step. cbn [w_sip]. apply set_nth_same; auto. Qed.

Lemma members_step_other st a b c ops x : x <> c ->
  members (merge_step st a b c ops) x = members st x.
Proof. intro H. unfold members, merge_step. cbn [w_sip]. apply set_nth_other; auto. Qed.

Definition act_after (act : list nat) (a b c : nat) : list nat :=
  c :: remove Nat.eq_dec a (remove Nat.eq_dec b act).

Lemma in_act_after act a b c x :
  In x (act_after act a b c) <-> x = c \/ (In x act /\ x <> a /\ x <> b).
Proof.
  unfold act_after. simpl. split.
  - intros [<-|H]; auto. apply in_remove in H as [H Hx]. apply in_remove in H as [H Hx']. auto.
  - intros [->|(H & H1 & H2)]; auto. right. apply in_in_remove; auto. apply in_in_remove; auto.
Qed.

Lemma merge_step_inv st act a b c ops wa wb :
  Inv st act -> In a act -> In b act -> a <> b -> ~ In c act -> c < length (w_sip st) ->
  width_ok st a wa -> width_ok st b wb -> ops_fit (map op_kind ops) wa wb ->
  Inv (merge_step st a b c ops) (act_after act a b c).
Proof.
  intros HI Ha Hb Hab Hc Hcl Wa Wb Hfit.
  pose proof HI as [Hlen Hglen Hmem Hdisj].
  assert (c <> a) as Hca by (intro; subst; auto).
  assert (c <> b) as Hcb by (intro; subst; auto).
  constructor.
  - unfold merge_step, make_seq. cbn [w_gaps]. rewrite !upd_member_length. exact Hlen.
  - intros i Hi. unfold merge_step, make_seq. cbn [w_gaps].
    rewrite upd_member_nth by (rewrite upd_member_length; lia).
    rewrite upd_member_nth by lia.
    destruct (memb i (nth b (w_sip st) [])); destruct (memb i (nth a (w_sip st) []));
      rewrite ?update_gaps_length; auto.
  - intros x i Hx Hin. apply in_act_after in Hx as [->|(Hx & Hxa & Hxb)].
    + rewrite members_step_c in Hin by assumption.
      apply in_app_or in Hin as [Hin|Hin]; apply in_rev in Hin; eauto.
    + rewrite members_step_other in Hin by (intro; subst; auto). eauto.
  - intros x y i Hx Hy Hix Hiy.
    apply in_act_after in Hx as [->|(Hx & Hxa & Hxb)];
    apply in_act_after in Hy as [->|(Hy & Hya & Hyb)]; auto.
    + rewrite members_step_c in Hix by assumption.
      rewrite members_step_other in Hiy by (intro; subst; auto).
      exfalso. apply in_app_or in Hix as [Hix|Hix]; apply in_rev in Hix.
      * apply Hya. eapply Hdisj; eauto.
      * apply Hyb. eapply Hdisj; eauto.
    + rewrite members_step_c in Hiy by assumption.
      rewrite members_step_other in Hix by (intro; subst; auto).
      exfalso. apply in_app_or in Hiy as [Hiy|Hiy]; apply in_rev in Hiy.
      * apply Hxa. eapply Hdisj; eauto.
      * apply Hxb. eapply Hdisj; eauto.
    + rewrite members_step_other in Hix by (intro; subst; auto).
      rewrite members_step_other in Hiy by (intro; subst; auto).
      eapply Hdisj; eauto.
Qed.

Lemma ops_fit_len ks wa wb : ops_fit ks wa wb -> cnt is_M ks + cnt is_GA ks + cnt is_GB ks = length ks.
Proof.
  intros (_ & _ & HN). revert HN. unfold cnt.
  induction ks as [|o ks IH]; simpl; auto. destruct o; simpl; intros; try lia.
Qed.

(* the new node: all rows have width |ops| *)
Lemma merge_step_width st act a b c ops wa wb :
  Inv st act -> In a act -> In b act -> a <> b -> ~ In c act -> c < length (w_sip st) ->
  width_ok st a wa -> width_ok st b wb -> ops_fit (map op_kind ops) wa wb ->
  width_ok (merge_step st a b c ops) c (length ops).
Proof.
  intros HI Ha Hb Hab Hc Hcl Wa Wb Hfit i Hin.
  rewrite members_step_c in Hin by assumption.
  pose proof HI as [Hlen Hglen Hmem Hdisj].
  pose proof Hfit as (F1 & F2 & F3).
  assert (i < n) as Hi by (apply in_app_or in Hin as [H|H]; apply in_rev in H; eauto).
  rewrite (merge_step_rows st act a b c ops wa wb); auto.
  apply in_app_or in Hin as [Hin|Hin]; apply in_rev in Hin.
  - rewrite (proj2 (memb_In i (members st a)) Hin).
    rewrite weave_a_length; rewrite ?map_length; auto. rewrite (Wa i Hin). exact F1.
  - assert (memb i (members st a) = false) as ->.
    { destruct (memb i (members st a)) eqn:E; auto. apply memb_In in E. exfalso. apply Hab. eapply Hdisj; eauto. }
    rewrite (proj2 (memb_In i (members st b)) Hin).
    rewrite weave_b_length; rewrite ?map_length; auto. rewrite (Wb i Hin). exact F2.
Qed.

(* other active nodes keep their rows *)
Lemma merge_step_row_other st act a b c ops wa wb x i :
  Inv st act -> In a act -> In b act -> a <> b ->
  width_ok st a wa -> width_ok st b wb -> ops_fit (map op_kind ops) wa wb ->
  In x act -> x <> a -> x <> b -> In i (members st x) ->
  row_of (merge_step st a b c ops) i = row_of st i.
Proof.
  intros HI Ha Hb Hab Wa Wb Hfit Hx Hxa Hxb Hin.
  pose proof HI as [Hlen Hglen Hmem Hdisj].
  rewrite (merge_step_rows st act a b c ops wa wb); eauto.
  assert (memb i (members st a) = false) as ->.
  { destruct (memb i (members st a)) eqn:E; auto. apply memb_In in E. exfalso. apply Hxa. eapply Hdisj; eauto. }
  assert (memb i (members st b) = false) as ->.
  { destruct (memb i (members st b)) eqn:E; auto. apply memb_In in E. exfalso. apply Hxb. eapply Hdisj; eauto. }
  reflexivity.
Qed.

(* ================================================================================== *)
(* 5. a whole progressive run                                                           *)
(* ================================================================================== *)
Definition task := (nat * nat * nat * list Z)%type.

Inductive valid_run : wstate -> list nat -> list task -> Prop :=
| vr_nil st act : valid_run st act []
| vr_cons st act a b c ops rest wa wb :
    In a act -> In b act -> a <> b -> ~ In c act -> c < length (w_sip st) ->
    width_ok st a wa -> width_ok st b wb -> ops_fit (map op_kind ops) wa wb ->
    valid_run (merge_step st a b c ops) (act_after act a b c) rest ->
    valid_run st act ((a, b, c, ops) :: rest).

Definition run_from (st : wstate) (tasks : list task) : wstate :=
  fold_left (fun st t => let '(a, b, c, ops) := t in merge_step st a b c ops) tasks st.

Lemma degap_firstn_all (row : list Z) k : k = length row -> degap (firstn k row) = degap row.
Proof. intros ->. rewrite firstn_all. reflexivity. Qed.

(* C01, residues: whatever the tree and the (fitting) paths, no row ever loses or gains a residue *)
Theorem run_preserves_residues : forall tasks st act,
  Inv st act -> valid_run st act tasks ->
  (forall i, i < n -> exists x, In x act /\ In i (members st x)) ->
  forall i, i < n -> degap (row_of (run_from st tasks) i) = degap (row_of st i).
Proof.
  induction tasks as [|t tasks IH]; intros st act HI HV Hcov i Hi; [reflexivity|].
  inversion HV as [|? ? a b c ops rest wa wb Ha Hb Hab Hc Hcl Wa Wb Hfit HV']; subst.
  cbn [run_from fold_left]. fold (run_from (merge_step st a b c ops) tasks).
  pose proof (merge_step_inv st act a b c ops wa wb HI Ha Hb Hab Hc Hcl Wa Wb Hfit) as HI'.
  rewrite (IH _ _ HI' HV'); auto.
  - rewrite (merge_step_rows st act a b c ops wa wb); auto.
    pose proof Hfit as (F1 & F2 & F3).
    destruct (memb i (members st a)) eqn:Ea.
    + apply memb_In in Ea. rewrite degap_weave_a. apply degap_firstn_all.
      rewrite (Wa i Ea). exact F1.
    + destruct (memb i (members st b)) eqn:Eb; auto.
      apply memb_In in Eb. rewrite degap_weave_b. apply degap_firstn_all.
      rewrite (Wb i Eb). exact F2.
  - intros j Hj. destruct (Hcov j Hj) as (x & Hx & Hjx).
    destruct (Nat.eq_dec x a) as [->|Hxa]; [|destruct (Nat.eq_dec x b) as [->|Hxb]].
    + exists c. split; [apply in_act_after; auto|].
      rewrite members_step_c by assumption. apply in_or_app. left. apply -> in_rev. exact Hjx.
    + exists c. split; [apply in_act_after; auto|].
      rewrite members_step_c by assumption. apply in_or_app. right. apply -> in_rev. exact Hjx.
    + exists x. split; [apply in_act_after; auto|].
      rewrite members_step_other; auto. intro; subst; auto.
Qed.

(* C10: the rows of any set of sequences that lies inside one active group only ever receive
   whole columns of gaps: stripped of its all-gap columns the block never changes again. *)
Theorem run_preserves_blocks : forall tasks st act,
  Inv st act -> valid_run st act tasks ->
  forall S x w, In x act -> incl S (members st x) -> width_ok st x w ->
  strip_allgap (map (row_of (run_from st tasks)) S) = strip_allgap (map (row_of st) S).
Proof.
  induction tasks as [|t tasks IH]; intros st act HI HV S x w Hx HS Wx; [reflexivity|].
  inversion HV as [|? ? a b c ops rest wa wb Ha Hb Hab Hc Hcl Wa Wb Hfit HV']; subst.
  cbn [run_from fold_left]. fold (run_from (merge_step st a b c ops) tasks).
  pose proof (merge_step_inv st act a b c ops wa wb HI Ha Hb Hab Hc Hcl Wa Wb Hfit) as HI'.
  pose proof (merge_step_width st act a b c ops wa wb HI Ha Hb Hab Hc Hcl Wa Wb Hfit) as Wc.
  pose proof HI as [Hlen Hglen Hmem Hdisj].
  pose proof Hfit as (F1 & F2 & F3).
  assert (forall i, In i S -> i < n) as HSn by (intros i Hi; eauto).
  destruct (Nat.eq_dec x a) as [->|Hxa]; [|destruct (Nat.eq_dec x b) as [->|Hxb]].
  - (* S inside group a: its rows are woven with the a-side of the path *)
    rewrite (IH _ _ HI' HV' S c (length ops)).
    + assert (map (row_of (merge_step st a b c ops)) S = map (weave_a (map op_kind ops)) (map (row_of st) S)) as ->.
      { rewrite map_map. apply map_ext_in. intros i Hi.
        rewrite (merge_step_rows st act a b c ops wa wb); auto.
        rewrite (proj2 (memb_In i (members st a)) (HS i Hi)). reflexivity. }
      apply (strip_weave_a _ _ wa); auto.
      rewrite Forall_forall. intros r Hr. apply in_map_iff in Hr as (i & <- & Hi). auto.
    + apply in_act_after; auto.
    + intros i Hi. rewrite members_step_c by assumption. apply in_or_app. left. apply -> in_rev. auto.
    + exact Wc.
  - rewrite (IH _ _ HI' HV' S c (length ops)).
    + assert (map (row_of (merge_step st a b c ops)) S = map (weave_b (map op_kind ops)) (map (row_of st) S)) as ->.
      { rewrite map_map. apply map_ext_in. intros i Hi.
        rewrite (merge_step_rows st act a b c ops wa wb); auto.
        assert (memb i (members st a) = false) as ->.
        { destruct (memb i (members st a)) eqn:E; auto. apply memb_In in E. exfalso. apply Hab.
          eapply Hdisj; eauto. }
        rewrite (proj2 (memb_In i (members st b)) (HS i Hi)). reflexivity. }
      apply (strip_weave_b _ _ wb); auto.
      rewrite Forall_forall. intros r Hr. apply in_map_iff in Hr as (i & <- & Hi). auto.
    + apply in_act_after; auto.
    + intros i Hi. rewrite members_step_c by assumption. apply in_or_app. right. apply -> in_rev. auto.
    + exact Wc.
  - assert (x <> c) as Hxc by (intro; subst; auto).
    rewrite (IH _ _ HI' HV' S x w).
    + f_equal. apply map_ext_in. intros i Hi.
      apply (merge_step_row_other st act a b c ops wa wb x i); auto.
    + apply in_act_after; auto.
    + rewrite members_step_other; auto.
    + intros i Hi. rewrite members_step_other in Hi by auto.
      rewrite (merge_step_row_other st act a b c ops wa wb x i); auto.
Qed.

End Assembly.
