(* C08 in exact arithmetic, the whole progressive run: groups of copies of one string keep an explicit profile through
   make_profile / set_gap_penalties / update_profile, every merge of two such groups (whichever kernel do_align picks,
   mirrored or not) returns the diagonal path and all-match operations, for every task list. *)
From Coq Require Import ZArith List Bool Lia.
From KV Require Import Weave Kernels Pipeline DupProofs ExactDiag ExactDiagInst ExactDiagProf.
Import ListNotations.
Local Open Scope Z_scope.

(* ---- columns: pget / pset / col_add over integers-with-minus-infinity ---------------------------------------------- *)
Section Cols.
Variable unit : Z.
Notation AXu := (AX unit).
Notation colX := (column AXu).

Lemma pset_length : forall (c : colX) i v, length (pset AXu c i v) = length c.
Proof. induction c as [|y c IH]; intros [|i] v; cbn [pset length]; try reflexivity. rewrite IH. reflexivity. Qed.
Lemma pget_pset_same : forall (c : colX) i v, (i < length c)%nat -> pget AXu (pset AXu c i v) i = v.
Proof. unfold pget. induction c as [|y c IH]; intros [|i] v H; cbn [length] in H; try lia; cbn [pset nth]; [reflexivity|]. apply IH. lia. Qed.
Lemma pget_pset_other : forall (c : colX) i j v, i <> j -> pget AXu (pset AXu c i v) j = pget AXu c j.
Proof. unfold pget. induction c as [|y c IH]; intros [|i] [|j] v H; cbn [pset nth]; try reflexivity; try congruence. apply IH. congruence. Qed.

Lemma pget_col_add (a b : colX) j : length a = length b -> (j < length a)%nat ->
  pget AXu (col_add AXu a b) j = xadd (pget AXu a j) (pget AXu b j).
Proof.
  intros L H. unfold pget, col_add.
  rewrite (nth_indep _ (zero AXu) ((fun ab : XT * XT => xadd (fst ab) (snd ab)) (zero AXu, zero AXu))) by (rewrite map_length, combine_length; lia).
  rewrite (map_nth (fun ab : XT * XT => xadd (fst ab) (snd ab))). rewrite combine_nth by exact L. reflexivity.
Qed.
Lemma col_add_length (a b : colX) : length a = length b -> length (col_add AXu a b) = length a.
Proof. intros L. unfold col_add. rewrite map_length, combine_length. lia. Qed.
End Cols.

Section Run.
Variable unit : Z.
Hypothesis unit_pos : 0 <= unit.
Variable S : list (list Z).
Variables gpo gpe tgpe gam : Z.
Variable dim : nat.
Variable mx : Z.
Hypothesis Hok : scheme_ok unit S gpo gpe tgpe gam dim mx = true.
Hypothesis Hdim : (dim <= 23)%nat.
Variable x : list Z.
Hypothesis Hx : Forall (fun c => inr dim c = true) x.
Hypothesis HL : (1 <= length x)%nat.
Notation AXu := (AX unit).
Notation PXu := (PX unit S gpo gpe tgpe).
Notation colX := (column AXu).
Notation L := (length x).
Notation resKu := (resK unit S).
Notation gapsKu := (gapsK unit gpo gpe tgpe).
Notation profKu := (profK unit S gpo gpe tgpe x).

(* the unprepared profile of k copies: what make_profile / update_profile leave in the entries that are read later *)
Definition rawcol (k : Z) (col : colX) : Prop :=
  length col = 64%nat /\ pget AXu col 55 = Some (- (k * gpo)) /\ pget AXu col 56 = Some (- (k * gpe)) /\ pget AXu col 57 = Some (- (k * tgpe)).
Definition rawK (k : Z) (p : list colX) : Prop :=
  length p = (L + 2)%nat /\ (forall j, (j < L + 2)%nat -> rawcol k (nth j p [])) /\
  (forall j, (j < L)%nat -> resKu k (Z.to_nat (nth j x 0%Z)) (nth (Datatypes.S j) p [])).

Lemma code_lt23 j : (j < L)%nat -> (Z.to_nat (nth j x 0%Z) < 23)%nat.
Proof. intros H. rewrite Forall_forall in Hx. specialize (Hx (nth j x 0) (nth_In _ _ H)). unfold inr in Hx. apply Nat.ltb_lt in Hx. lia. Qed.

(* make_profile *)
Lemma border_raw : rawcol 1 (border_col AXu PXu).
Proof.
  unfold rawcol, border_col. rewrite !pset_length. split; [reflexivity|].
  assert (L64 : length (zero_col AXu) = 64%nat) by reflexivity.
  split; [|split].
  - rewrite !pget_pset_other by lia. rewrite pget_pset_same by (rewrite L64; lia). cbn [neg n_gpo n_gpe n_tgpe PX AX alg_X xneg nth]; apply (f_equal (@Some Z)); lia.
  - rewrite pget_pset_other by lia. rewrite pget_pset_same by (rewrite pset_length, L64; lia). cbn [neg n_gpo n_gpe n_tgpe PX AX alg_X xneg nth]; apply (f_equal (@Some Z)); lia.
  - rewrite pget_pset_same by (rewrite !pset_length, L64; lia). cbn [neg n_gpo n_gpe n_tgpe PX AX alg_X xneg nth]; apply (f_equal (@Some Z)); lia.
Qed.

Lemma residue_raw c : (Z.to_nat c < 23)%nat -> rawcol 1 (residue_col AXu PXu c) /\ resKu 1 (Z.to_nat c) (residue_col AXu PXu c).
Proof.
  intros Hc. unfold residue_col.
  set (counts := pset AXu (repeat (zero AXu) 32) (Z.to_nat c) (add AXu (zero AXu) (of_int AXu 1))).
  set (scores := map (fun j => sub_score AXu PXu c (Z.of_nat j)) (seq 0 23)).
  assert (Lc : length counts = 32%nat) by (unfold counts; rewrite pset_length; reflexivity).
  assert (Ls : length scores = 23%nat) by (unfold scores; rewrite map_length; reflexivity).
  split.
  - unfold rawcol. rewrite !app_length, Lc, Ls. split; [reflexivity|]. unfold pget.
    split; [|split].
    + rewrite app_nth2 by lia. rewrite Lc. rewrite app_nth2 by (rewrite Ls; lia). rewrite Ls. cbn [neg n_gpo n_gpe n_tgpe PX AX alg_X xneg nth]; apply (f_equal (@Some Z)); lia.
    + rewrite app_nth2 by lia. rewrite Lc. rewrite app_nth2 by (rewrite Ls; lia). rewrite Ls. cbn [neg n_gpo n_gpe n_tgpe PX AX alg_X xneg nth]; apply (f_equal (@Some Z)); lia.
    + rewrite app_nth2 by lia. rewrite Lc. rewrite app_nth2 by (rewrite Ls; lia). rewrite Ls. cbn [neg n_gpo n_gpe n_tgpe PX AX alg_X xneg nth]; apply (f_equal (@Some Z)); lia.
  - split; intros j Hj.
    + unfold pget. rewrite app_nth1 by lia. fold (pget AXu counts j). unfold counts.
      destruct (Nat.eqb_spec j (Z.to_nat c)) as [->|N].
      * rewrite pget_pset_same by (rewrite repeat_length; lia). reflexivity.
      * rewrite pget_pset_other by congruence. unfold pget. rewrite nth_repeat. reflexivity.
    + unfold pget. rewrite app_nth2 by lia. rewrite Lc. replace (32 + j - 32)%nat with j by lia. rewrite app_nth1 by lia.
      unfold scores. rewrite (nth_indep _ (zero AXu) ((fun j => sub_score AXu PXu c (Z.of_nat j)) 0%nat)) by (rewrite map_length, seq_length; lia).
      rewrite (map_nth (fun j => sub_score AXu PXu c (Z.of_nat j))), seq_nth by lia. cbn [Nat.add].
      rewrite sub_score_X. rewrite Nat2Z.id. f_equal. lia.
Qed.

Lemma make_profile_raw : rawK 1 (make_profile AXu PXu x).
Proof.
  unfold make_profile, rawK. split; [cbn [length]; rewrite app_length, map_length; cbn [length]; lia|].
  assert (Hn : forall j, (j < L)%nat -> nth (Datatypes.S j) (border_col AXu PXu :: map (residue_col AXu PXu) x ++ [border_col AXu PXu]) [] = residue_col AXu PXu (nth j x 0)).
  { intros j Hj. cbn [nth]. rewrite app_nth1 by (rewrite map_length; exact Hj).
    rewrite (nth_indep _ [] (residue_col AXu PXu 0)) by (rewrite map_length; exact Hj). apply map_nth. }
  split.
  - intros j Hj. destruct j as [|j]; [apply border_raw|]. destruct (Nat.ltb_spec j L) as [Lt|Ge].
    + rewrite Hn by exact Lt. apply residue_raw. apply code_lt23. exact Lt.
    + cbn [nth]. rewrite app_nth2 by (rewrite map_length; exact Ge). rewrite map_length. replace (j - L)%nat with 0%nat by lia. apply border_raw.
  - intros j Hj. rewrite Hn by exact Hj. apply residue_raw. apply code_lt23. exact Hj.
Qed.

(* set_gap_penalties *)
Definition sgp_col (n : Z) (c : colX) : colX :=
  pset AXu (pset AXu (pset AXu c 27 (mul AXu (pget AXu c 55) (of_int AXu n))) 28 (mul AXu (pget AXu c 56) (of_int AXu n))) 29 (mul AXu (pget AXu c 57) (of_int AXu n)).
Lemma sgp_nth p n j : nth j (set_gap_penalties AXu p n) [] = sgp_col n (nth j p []).
Proof. unfold set_gap_penalties. change (@nil (T AXu)) with (sgp_col n []) at 1. apply (map_nth (sgp_col n)). Qed.

Lemma sgp_col_facts k n c : rawcol k c -> rawcol k (sgp_col n c) /\ gapsKu k n (sgp_col n c) /\ (forall cd, resKu k cd c -> resKu k cd (sgp_col n c)).
Proof.
  intros (L64 & A55 & A56 & A57). unfold sgp_col. rewrite A55, A56, A57. cbn [mul of_int AX alg_X xmul].
  split; [|split].
  - unfold rawcol. rewrite !pset_length. split; [exact L64|]. rewrite !pget_pset_other by lia. auto.
  - unfold gapsK. split; [|split].
    + rewrite !pget_pset_other by lia. rewrite pget_pset_same by (rewrite L64; lia). reflexivity.
    + rewrite pget_pset_other by lia. rewrite pget_pset_same by (rewrite pset_length, L64; lia). reflexivity.
    + rewrite pget_pset_same by (rewrite !pset_length, L64; lia). reflexivity.
  - intros cd (Q1 & Q2). split; intros j Hj; rewrite !pget_pset_other by lia; [apply Q1|apply Q2]; exact Hj.
Qed.

Lemma set_gap_penalties_prof k n p : rawK k p -> profKu k n (set_gap_penalties AXu p n) /\ rawK k (set_gap_penalties AXu p n).
Proof.
  intros (Lp & Rc & Rs). split.
  - split; [unfold set_gap_penalties; rewrite map_length; exact Lp|]. split.
    + intros j Hj. rewrite sgp_nth. apply sgp_col_facts. apply Rc. exact Hj.
    + intros j Hj. rewrite sgp_nth. apply (sgp_col_facts k n _ (Rc (Datatypes.S j) ltac:(lia))). apply Rs. exact Hj.
  - split; [unfold set_gap_penalties; rewrite map_length; exact Lp|]. split.
    + intros j Hj. rewrite sgp_nth. apply sgp_col_facts. apply Rc. exact Hj.
    + intros j Hj. rewrite sgp_nth. apply (sgp_col_facts k n _ (Rc (Datatypes.S j) ltac:(lia))). apply Rs. exact Hj.
Qed.

(* update_profile on all-match operations adds the two profiles column by column *)
Lemma update_cols_all_match sa sb : forall n (pa pb : list colX), length pa = Datatypes.S n -> length pb = Datatypes.S n ->
  update_cols AXu PXu (repeat 0 n) pa pb sa sb = map (fun ab => col_add AXu (fst ab) (snd ab)) (combine pa pb).
Proof.
  induction n as [|n IH]; intros pa pb La Lb.
  - destruct pa as [|a [|? ?]]; try discriminate. destruct pb as [|b [|? ?]]; try discriminate. reflexivity.
  - destruct pa as [|a pa]; [discriminate|]. destruct pb as [|b pb]; [discriminate|]. cbn [repeat update_cols Z.eqb combine map fst snd].
    f_equal. apply IH; cbn [length] in *; lia.
Qed.

Lemma update_profile_all_match sa sb (pa pb : list colX) : length pa = (L + 2)%nat -> length pb = (L + 2)%nat ->
  update_profile AXu PXu (repeat 0 L) pa pb sa sb = map (fun ab => col_add AXu (fst ab) (snd ab)) (combine pa pb).
Proof.
  intros La Lb. destruct pa as [|a pa]; [cbn [length] in La; lia|]. destruct pb as [|b pb]; [cbn [length] in Lb; lia|]. cbn [update_profile combine map fst snd].
  f_equal. apply update_cols_all_match; cbn [length] in *; lia.
Qed.

Lemma combine_add_nth (pa pb : list colX) j : length pa = length pb -> (j < length pa)%nat ->
  nth j (map (fun ab => col_add AXu (fst ab) (snd ab)) (combine pa pb)) [] = col_add AXu (nth j pa []) (nth j pb []).
Proof.
  intros Le Hj. rewrite (nth_indep _ [] ((fun ab : colX * colX => col_add AXu (fst ab) (snd ab)) ([], []))) by (rewrite map_length, combine_length; lia).
  rewrite (map_nth (fun ab : colX * colX => col_add AXu (fst ab) (snd ab))). rewrite combine_nth by exact Le. reflexivity.
Qed.

Lemma col_add_raw k1 k2 a b : rawcol k1 a -> rawcol k2 b -> rawcol (k1 + k2) (col_add AXu a b) /\
  (forall cd, resKu k1 cd a -> resKu k2 cd b -> resKu (k1 + k2) cd (col_add AXu a b)).
Proof.
  intros (La & A5 & A6 & A7) (Lb & B5 & B6 & B7). assert (Le : length a = length b) by congruence. split.
  - unfold rawcol. rewrite col_add_length by exact Le. split; [exact La|].
    rewrite !pget_col_add by (try exact Le; lia). rewrite A5, A6, A7, B5, B6, B7. cbn [xadd].
    repeat split; apply (f_equal (@Some Z)); ring.
  - intros cd (P1 & P2) (Q1 & Q2). split; intros j Hj.
    + rewrite pget_col_add by (try exact Le; lia). rewrite P1, Q1 by exact Hj. cbn [xadd]. apply (f_equal (@Some Z)). destruct (j =? cd)%nat; ring.
    + rewrite pget_col_add by (try exact Le; lia). rewrite P2, Q2 by exact Hj. cbn [xadd]. apply (f_equal (@Some Z)). ring.
Qed.

Lemma update_profile_raw k1 k2 sa sb pa pb : rawK k1 pa -> rawK k2 pb -> rawK (k1 + k2) (update_profile AXu PXu (repeat 0 L) pa pb sa sb).
Proof.
  intros (La & Ca & Ra) (Lb & Cb & Rb). rewrite update_profile_all_match by assumption.
  split; [rewrite map_length, combine_length; lia|]. split.
  - intros j Hj. rewrite combine_add_nth by lia. apply col_add_raw; [apply Ca|apply Cb]; exact Hj.
  - intros j Hj. rewrite combine_add_nth by lia. apply (col_add_raw k1 k2 _ _ (Ca (Datatypes.S j) ltac:(lia)) (Cb (Datatypes.S j) ltac:(lia))); [apply Ra|apply Rb]; exact Hj.
Qed.

(* mirror_path of the diagonal is the diagonal *)
Lemma set_nth_app {X} (pre : list X) v y post : set_nth (length pre) v (pre ++ y :: post) = pre ++ v :: post.
Proof. induction pre as [|p pre IH]; [reflexivity|]. cbn [length app set_nth]. rewrite IH. reflexivity. Qed.
Lemma diag_S j : diag (Datatypes.S j) = diag j ++ [Z.of_nat j + 1].
Proof. unfold diag. rewrite seq_S, map_app. reflexivity. Qed.
Lemma diag_length j : length (diag j) = j. Proof. unfold diag. rewrite map_length, seq_length. reflexivity. Qed.

Lemma mirror_fill_diag : forall m j,
  mirror_fill (Z.of_nat j + 1) (map (fun i => Z.of_nat i + 1) (seq j m)) (diag j ++ repeat (-1) m) = diag (j + m).
Proof.
  induction m as [|m IH]; intros j; [cbn [seq map mirror_fill repeat]; rewrite app_nil_r, Nat.add_0_r; reflexivity|].
  cbn [seq map mirror_fill repeat]. destruct (Z.eqb_spec (Z.of_nat j + 1) (-1)) as [E|_]; [lia|].
  replace (Z.to_nat (Z.of_nat j + 1 - 1)) with (length (diag j)) by (rewrite diag_length; lia).
  rewrite set_nth_app. replace (Z.of_nat j + 1 + 1) with (Z.of_nat (Datatypes.S j) + 1) by lia.
  replace (diag j ++ (Z.of_nat j + 1) :: repeat (-1) m) with (diag (Datatypes.S j) ++ repeat (-1) m) by (rewrite diag_S, <- app_assoc; reflexivity).
  rewrite IH. f_equal. lia.
Qed.
Lemma mirror_diag n : mirror_path (Z.of_nat n) (diag n) = diag n.
Proof. unfold mirror_path. rewrite Nat2Z.id. apply (mirror_fill_diag n 0). Qed.

(* groups of copies *)
Definition grpK (k : Z) (g : group AXu) : Prop :=
  g_nsip AXu g = k /\ g_len AXu g = Z.of_nat L /\
  ((g_codes AXu g = Some x /\ k = 1) \/ (g_codes AXu g = None /\ rawK k (g_prof AXu g))).

Lemma prepared_raw k g n : grpK k g -> rawK k (prepared_profile AXu PXu g n).
Proof.
  intros (_ & _ & [(Ec & ->)|(Ec & Rw)]); unfold prepared_profile; rewrite Ec; [apply make_profile_raw|apply set_gap_penalties_prof; exact Rw].
Qed.

Lemma do_align_copies k1 k2 ga gb is_last : 1 <= k1 -> 1 <= k2 -> grpK k1 ga -> grpK k2 gb ->
  exists mo, do_align AXu PXu ga gb is_last = Some mo /\ mo_raw AXu mo = diag L /\ mo_ops AXu mo = repeat 0 L /\
             (is_last = false -> grpK (k1 + k2) (mo_group AXu mo)).
Proof.
  intros H1 H2 Ga Gb. pose proof (prepared_raw k1 ga (g_nsip AXu gb) Ga) as Ra. pose proof (prepared_raw k2 gb (g_nsip AXu ga) Gb) as Rb.
  destruct Ga as (Na & La & Ca). destruct Gb as (Nb & Lb & Cb).
  assert (Hraw : align_pair AXu PXu (mkGroup AXu (g_codes AXu ga) (prepared_profile AXu PXu ga (g_nsip AXu gb)) (g_nsip AXu ga) (g_len AXu ga))
                                    (mkGroup AXu (g_codes AXu gb) (prepared_profile AXu PXu gb (g_nsip AXu ga)) (g_nsip AXu gb) (g_len AXu gb)) = Some (diag L)).
  { unfold align_pair, kernel_of. cbn [g_codes g_len g_prof g_nsip]. rewrite La, Lb, Z.ltb_irrefl.
    destruct Ca as [(Eca & K1)|(Eca & Rwa)]; destruct Cb as [(Ecb & K2)|(Ecb & Rwb)]; rewrite Eca, Ecb.
    - (* two single copies: sequence-sequence *)
      pose proof (ss_identical_diagonal unit unit_pos S gpo gpe tgpe gam dim mx Hok x Hx) as D. cbv zeta in D. rewrite D. cbn [option_map].
      rewrite seq1_diag. rewrite mirror_diag. reflexivity.
    - (* a copy and a group: sequence-profile, mirrored *)
      unfold prepared_profile at 1. rewrite Ecb. rewrite Na, Nb, K1.
      pose proof (sp_identical_diagonal unit unit_pos S gpo gpe tgpe gam dim mx Hok Hdim x Hx k2 H2 (set_gap_penalties AXu (g_prof AXu gb) 1)
                    (proj1 (set_gap_penalties_prof k2 1 _ Rwb))) as D. cbv zeta in D. rewrite D. cbn [option_map]. rewrite mirror_diag. reflexivity.
    - (* a group and a copy: sequence-profile *)
      unfold prepared_profile at 1. rewrite Eca. rewrite Na, Nb, K2.
      pose proof (sp_identical_diagonal unit unit_pos S gpo gpe tgpe gam dim mx Hok Hdim x Hx k1 H1 (set_gap_penalties AXu (g_prof AXu ga) 1)
                    (proj1 (set_gap_penalties_prof k1 1 _ Rwa))) as D. cbv zeta in D. rewrite D. reflexivity.
    - (* two groups: profile-profile, mirrored *)
      unfold prepared_profile. rewrite Eca, Ecb, Na, Nb.
      pose proof (pp_identical_diagonal unit unit_pos S gpo gpe tgpe gam dim mx Hok Hdim x Hx k2 k1
                    (set_gap_penalties AXu (g_prof AXu gb) k1) (set_gap_penalties AXu (g_prof AXu ga) k2) H2 H1
                    (proj1 (set_gap_penalties_prof k2 k1 _ Rwb)) (proj1 (set_gap_penalties_prof k1 k2 _ Rwa))) as D. cbv zeta in D. rewrite D. cbn [option_map].
      rewrite mirror_diag. reflexivity. }
  unfold do_align. rewrite Hraw. rewrite Lb. rewrite (diagonal_path_all_match L HL).
  eexists. split; [reflexivity|]. cbn [mo_raw mo_ops mo_group]. split; [reflexivity|]. split; [reflexivity|].
  intros ->. unfold grpK. cbn [g_nsip g_len g_codes g_prof]. rewrite repeat_length, Na, Nb. split; [reflexivity|]. split; [reflexivity|]. right. split; [reflexivity|].
  apply update_profile_raw; [rewrite <- Nb; exact Ra|rewrite <- Na; exact Rb].
Qed.

(* every task list: all merges are diagonal and all-match *)
Definition diag_entry (e : nat * nat * nat * list Z * list Z * list (T AXu * Z * Z)) : Prop :=
  snd (fst (fst e)) = diag L /\ snd (fst e) = repeat 0 L.
Definition copies_groups (groups : list (option (group AXu))) : Prop :=
  forall i g, nth i groups None = Some g -> exists k, 1 <= k /\ grpK k g.

Lemma set_group_nth (gs : list (option (group AXu))) c g i : nth i (set_group AXu gs c g) None = if (i =? c)%nat then (if (c <? length gs)%nat then Some g else None) else nth i gs None.
Proof.
  revert c i; induction gs as [|y gs IH]; intros c i.
  - destruct c; cbn [set_group length]; destruct i; cbn [nth]; destruct (_ =? _)%nat; reflexivity.
  - destruct c as [|c]; destruct i as [|i]; cbn [set_group nth length]; try reflexivity. rewrite IH.
    change (Datatypes.S i =? Datatypes.S c)%nat with (i =? c)%nat. change (Datatypes.S c <? Datatypes.S (length gs))%nat with (c <? length gs)%nat. reflexivity.
Qed.

Theorem run_tasks_copies : forall tasks groups out, copies_groups groups ->
  run_tasks AXu PXu groups tasks = Some out -> Forall diag_entry out.
Proof.
  induction tasks as [|[[a b] c] rest IH]; intros groups out Hg Hr.
  - cbn [run_tasks] in Hr. inversion Hr; subst. constructor.
  - cbn [run_tasks] in Hr. destruct (nth a groups None) as [ga|] eqn:Ea; [|discriminate]. destruct (nth b groups None) as [gb|] eqn:Eb; [|discriminate].
    destruct (Hg a ga Ea) as (k1 & H1 & Ga). destruct (Hg b gb Eb) as (k2 & H2 & Gb).
    destruct (do_align_copies k1 k2 ga gb (match rest with [] => true | _ => false end) H1 H2 Ga Gb) as (mo & Em & Eraw & Eops & Egrp).
    rewrite Em in Hr. destruct (run_tasks AXu PXu (set_group AXu groups c (mo_group AXu mo)) rest) as [r|] eqn:Er; [|discriminate].
    inversion Hr; subst. constructor; [split; assumption|].
    destruct rest as [|t rest']; [cbn [run_tasks] in Er; inversion Er; constructor|].
    apply (IH (set_group AXu groups c (mo_group AXu mo))); [|exact Er].
    intros i g Hi. rewrite set_group_nth in Hi. destruct (i =? c)%nat.
    + destruct (c <? length groups)%nat; [|discriminate]. inversion Hi; subst. exists (k1 + k2). split; [lia|]. apply Egrp. reflexivity.
    + apply (Hg i g Hi).
Qed.

(* the same inside a larger run: the groups at the indices marked by [cp] are groups of copies of x; tasks either stay
   inside the marked indices (a, b and c marked) or write to an unmarked index; then every marked merge is diagonal and
   all-match, whatever the other merges do *)
Definition clade_tasks (cp : nat -> bool) (tasks : list (nat * nat * nat)) : Prop :=
  Forall (fun t => let '(a, b, c) := t in (cp a = true /\ cp b = true /\ cp c = true) \/ cp c = false) tasks.

Theorem run_tasks_clade (cp : nat -> bool) : forall tasks groups out,
  (forall i g, cp i = true -> nth i groups None = Some g -> exists k, 1 <= k /\ grpK k g) ->
  clade_tasks cp tasks ->
  run_tasks AXu PXu groups tasks = Some out ->
  Forall (fun e => cp (snd (fst (fst (fst e)))) = true -> diag_entry e) out.
Proof.
  induction tasks as [|[[a b] c] rest IH]; intros groups out Hg Ht Hr.
  - cbn [run_tasks] in Hr. inversion Hr; subst. constructor.
  - inversion Ht as [|? ? Hc Hrest]; subst.
    cbn [run_tasks] in Hr. destruct (nth a groups None) as [ga|] eqn:Ea; [|discriminate]. destruct (nth b groups None) as [gb|] eqn:Eb; [|discriminate].
    destruct (do_align AXu PXu ga gb (match rest with [] => true | _ => false end)) as [mo|] eqn:Em; [|discriminate].
    destruct (run_tasks AXu PXu (set_group AXu groups c (mo_group AXu mo)) rest) as [r|] eqn:Er; [|discriminate].
    inversion Hr; subst.
    destruct Hc as [(Ca & Cb & Cc)|Cc].
    + destruct (Hg a ga Ca Ea) as (k1 & H1 & Ga). destruct (Hg b gb Cb Eb) as (k2 & H2 & Gb).
      destruct (do_align_copies k1 k2 ga gb (match rest with [] => true | _ => false end) H1 H2 Ga Gb) as (mo' & Em' & Eraw & Eops & Egrp).
      rewrite Em in Em'. inversion Em'; subst mo'.
      constructor; [intros _; split; assumption|].
      destruct rest as [|t rest']; [cbn [run_tasks] in Er; inversion Er; constructor|].
      apply (IH (set_group AXu groups c (mo_group AXu mo))); [|exact Hrest|exact Er].
      intros i g Ci Hi. rewrite set_group_nth in Hi. destruct (i =? c)%nat.
      * destruct (c <? length groups)%nat; [|discriminate]. inversion Hi; subst. exists (k1 + k2). split; [lia|]. apply Egrp. reflexivity.
      * apply (Hg i g Ci Hi).
    + constructor; [cbn [fst snd]; intros Q; congruence|].
      apply (IH (set_group AXu groups c (mo_group AXu mo))); [|exact Hrest|exact Er].
      intros i g Ci Hi. rewrite set_group_nth in Hi. destruct (Nat.eqb_spec i c) as [->|N]; [congruence|]. apply (Hg i g Ci Hi).
Qed.

Theorem progressive_copies n tasks out :
  progressive AXu PXu (repeat x n) tasks = Some out -> Forall diag_entry out.
Proof.
  unfold progressive. apply run_tasks_copies. intros i g Hi.
  destruct (Nat.ltb_spec i (length (map (fun c => Some (leaf_group AXu c)) (repeat x n)))) as [Lt|Ge].
  - rewrite app_nth1 in Hi by exact Lt. rewrite map_length, repeat_length in Lt.
    rewrite (nth_indep _ None ((fun c => Some (leaf_group AXu c)) x)) in Hi by (rewrite map_length, repeat_length; exact Lt).
    rewrite (map_nth (fun c => Some (leaf_group AXu c))), nth_repeat in Hi. inversion Hi; subst. exists 1. split; [lia|].
    unfold grpK, leaf_group. cbn [g_nsip g_len g_codes]. split; [reflexivity|]. split; [reflexivity|]. left. split; reflexivity.
  - rewrite app_nth2 in Hi by exact Ge. rewrite nth_repeat in Hi. discriminate.
Qed.
End Run.
