(* C07 - The DP kernels return the optimum whenever it is certifiably unique.
   PARTIAL.  What is proved here holds for EVERY arithmetic the kernel text is run over (binary32
   included, for ALL parameter values) and concerns the control structure of the three kernels and of
   the Hirschberg controller; the optimality statement itself is not yet a theorem.  It is decided on every run by (i) the bit-exact correspondence of the executable
   binary32 model (Kernels.v, Pipeline.v - Flocq arithmetic, extracted) with the implementation on
   every merge's raw and expanded path, for the sequence-sequence, sequence-profile and
   profile-profile kernels, and (ii) planted alignments whose unique optimality is certified by an
   exact full-matrix computation and which the implementation must return exactly (DESIGN C07). *)
From Coq Require Import ZArith List Bool Lia.
From KV Require Import Base FP Params Weave Kernels Pipeline KernelProofs PipelineProofs CostProofs.
Import ListNotations.
Local Open Scope Z_scope.

(* the rolling array of a pass has one cell per column plus the border cell: every f[j] / b[j] the
   meetup reads exists *)
Theorem C07_pass_shape : forall (A : alg) (R C : Type) (K : costs A R C) rows cols fi li s0,
  length (pass A R C K fi li s0 rows cols) = S (length cols).
Proof. exact pass_length. Qed.
Print Assumptions C07_pass_shape.

(* whatever the numbers, a meetup names a column of its sub-problem and one of the six transition
   codes (or -1/-1), and the transitions that write path[mid+1] = meet+1 are never chosen at the last column *)
Theorem C07_meetup_range : forall (A : alg) (M : mcosts A) sz el startb endb fs bs, startb < endb ->
  Z.of_nat (length fs) = endb - startb + 1 -> length bs = length fs ->
  okbest A startb endb (meetup A M sz el startb endb fs bs).
Proof. exact meetup_range. Qed.
Print Assumptions C07_meetup_range.

(* the Hirschberg recursion terminates within rows+columns+1 levels (rows alone do not decrease:
   transition a->ga keeps the row) and every path[] write lies inside the sub-problem *)
Theorem C07_recursion_terminates : forall (A : alg) (Kn : kernel A) LB,
  (forall starta mid enda startb endb f0 b0, 0 <= startb -> startb < endb -> endb <= LB ->
     okbest A startb endb (k_meetup A Kn mid startb endb (k_forward A Kn starta mid startb endb f0) (k_backward A Kn mid enda startb endb b0))) ->
  forall fuel starta enda startb endb f0 b0, enough fuel starta enda startb endb -> 0 <= startb -> endb <= LB ->
  exists ws, runner A Kn fuel starta enda startb endb f0 b0 = Some ws /\ writes_in ws starta enda startb endb.
Proof. exact runner_total. Qed.
Print Assumptions C07_recursion_terminates.

(* all three kernel instances meet that premise: aln_runner on a fresh aln_mem always ends and leaves a
   path - for all operands and ALL parameter values (huge, infinite and NaN penalties included: then the
   path may be all -1, which is where the recorded finding C05-huge-gap-penalty starts) *)
Theorem C07_seqseq_runs : forall (A : alg) (P : nparams A) seq1 seq2,
  exists p, raw_path A (ss_kernel A P seq1 seq2) (Z.of_nat (length seq1)) (Z.of_nat (length seq2)) = Some p.
Proof. exact ss_total. Qed.
Print Assumptions C07_seqseq_runs.
Theorem C07_seqprofile_runs : forall (A : alg) (P : nparams A) prof1 seq2 sip len_a, 0 <= len_a ->
  exists p, raw_path A (sp_kernel A P prof1 seq2 sip) len_a (Z.of_nat (length seq2)) = Some p.
Proof. exact sp_total. Qed.
Print Assumptions C07_seqprofile_runs.
Theorem C07_profileprofile_runs : forall (A : alg) prof1 prof2 len_a, 0 <= len_a -> (2 <= length prof2)%nat ->
  exists p, raw_path A (pp_kernel A prof1 prof2) len_a (Z.of_nat (length prof2) - 2) = Some p.
Proof. exact pp_total. Qed.
Print Assumptions C07_profileprofile_runs.
Print Assumptions C07_seqseq_runs.

(* The full statement - "if an alignment beats every other alignment of a and b by a safe margin under every
   admissible costing of terminal runs, raw_path returns it" - needs the exact objective of DESIGN C07 and the
   Gotoh/Hirschberg optimality argument over the exact arithmetic; it is NOT stated as a theorem here. *)

(* A necessary condition of optimality that concerns the kernel text only: the meetup must charge a gap crossing the middle
   row what the passes charge for the same step.  The gb update of cell j of a row uses the terminal extension exactly in
   the first cell of a pass that starts at the left border and in the last cell of one that ends at the right border ... *)
Theorem C07_pass_terminal_cells : forall (A : alg) (R C : Type) (K : costs A R C) cells cols fi li r j,
  length cells = S (length cols) -> (1 <= length cols)%nat -> (j <= length cols)%nat ->
  c_gb A (nth j (row_step A R C K fi li cells cols r) (dead A)) =
  gb_update A R C K (pass_terminal fi li (length cols) j) (nth j cells (dead A)) r.
Proof. exact row_step_gb. Qed.
Print Assumptions C07_pass_terminal_cells.

(* ... and the meetup's scan (meet_col with the flag i = 0 below endb, meet_last at endb) uses it at exactly the same
   columns, for every sub-problem.  The condition the C text used before fix b57ad5d ("the sub-problem starts at column 0")
   does not have this property: with it Hirschberg returned non-optimal alignments (DESIGN section 11). *)
Theorem C07_meetup_and_passes_agree_on_terminal_columns : forall startb endb len_b i,
  0 <= startb -> startb < endb -> endb <= len_b -> startb <= i <= endb ->
  meet_terminal_col endb len_b i = pass_terminal_col startb endb len_b i.
Proof. exact meetup_and_passes_agree_on_terminal_columns. Qed.
Print Assumptions C07_meetup_and_passes_agree_on_terminal_columns.

Theorem C07_meetup_scan_flags : forall (A : alg) (M : mcosts A) sz el startb endb i f b fs bs best,
  fs <> [] -> bs <> [] ->
  meet_scan A M sz el startb endb i (f :: fs) (b :: bs) best =
  meet_scan A M sz el startb endb (i + 1) fs bs (meet_col A M (i =? 0) (tiebreak A startb endb i) i f b best).
Proof. exact meet_scan_flags. Qed.
Print Assumptions C07_meetup_scan_flags.

Theorem C07_old_meetup_condition_refuted :
  exists startb endb len_b i, 0 <= startb /\ startb < endb /\ endb <= len_b /\ startb <= i < endb /\
    (startb =? 0) <> pass_terminal_col startb endb len_b i.
Proof. exact old_meetup_condition_refuted. Qed.
Print Assumptions C07_old_meetup_condition_refuted.

(* Non-vacuity / instance by evaluation: two DNA sequences under the 'dna' parameter set (5/-4, gpo 8,
   gpe 6, tgpe 0): the model returns the path with the single deletion *)
Example C07_instance :
  let f := fun z => f32_of_Z z in
  let P := mkNP alg_f32 (f 8) (f 6) (f 0) (map (fun i => map (fun j => if (i =? j)%nat then f 5 else f (-4)) (seq 0 23)) (seq 0 23)) in
  raw_path alg_f32 (ss_kernel alg_f32 P [0;1;2;3;0;1] [0;1;2;2;3;0;1]) 6 7 = Some [1; 2; 3; 5; 6; 7].
Proof. vm_compute. reflexivity. Qed.
