(* Proofs about the DP model that hold for EVERY arithmetic (binary32 included): shapes of the rolling
   arrays, what the meetup can return, termination of the Hirschberg recursion and the range of every
   path[] write. *)
From Coq Require Import ZArith List Bool Lia.
From KV Require Import Kernels.
Import ListNotations.
Local Open Scope Z_scope.

Section Shapes.
Variable A : alg.
Variables R C : Type.
Variable K : costs A R C.

Lemma init_cells_length : forall cols fi prev, length (init_cells A R C K fi prev cols) = length cols.
Proof.
  induction cols as [|c cols IH]; intros fi prev; [reflexivity|].
  destruct cols as [|c2 cols']; [reflexivity|].
  cbn [init_cells]. cbn [length]. f_equal. apply IH.
Qed.

Lemma row_cells_length : forall cols old li r pa pga pgb xa xga, length old = length cols ->
  length (row_cells A R C K li r pa pga pgb xa xga old cols) = length cols.
Proof.
  induction cols as [|c cols IH]; intros old li r pa pga pgb xa xga H.
  - destruct old; [reflexivity|discriminate].
  - destruct old as [|o old]; [discriminate|]. simpl in H. injection H as H.
    destruct cols as [|c2 cols'].
    + destruct old; [reflexivity|discriminate].
    + destruct old as [|o2 old']; [discriminate|].
      cbn [row_cells]. cbn [length]. f_equal. apply (IH (o2 :: old')). exact H.
Qed.

Lemma row_step_length : forall cells cols fi li r, length cells = S (length cols) ->
  length (row_step A R C K fi li cells cols r) = S (length cols).
Proof.
  intros cells cols fi li r H. destruct cells as [|o0 old]; [discriminate|].
  simpl in H. injection H as H. unfold row_step. cbn [length]. f_equal. apply row_cells_length. exact H.
Qed.

(* the array a pass returns has one cell per column plus the border cell, whatever the rows *)
Theorem pass_length : forall rows cols fi li s0,
  length (pass A R C K fi li s0 rows cols) = S (length cols).
Proof.
  intros rows cols fi li s0. unfold pass.
  assert (H : length (s0 :: init_cells A R C K fi s0 cols) = S (length cols))
    by (cbn [length]; rewrite init_cells_length; reflexivity).
  revert H. generalize (s0 :: init_cells A R C K fi s0 cols).
  induction rows as [|r rows IH]; intros cells H; simpl; [exact H|].
  apply IH. apply row_step_length. exact H.
Qed.
End Shapes.

(* ---- what the meetup can return ---------------------------------------------------------------------- *)
Section MeetProofs.
Variable A : alg.
Variable M : mcosts A.

(* (transition, column) pairs the scan may hold after looking at columns startb..i-1 *)
Definition okbest (startb endb : Z) (best : T A * Z * Z) : Prop :=
  let '(_, tr, c) := best in
  (tr = -1 /\ c = -1) \/
  (startb <= c <= endb /\ (tr = 1 \/ tr = 2 \/ tr = 3 \/ tr = 5 \/ tr = 6 \/ tr = 7) /\
   ((tr = 1 \/ tr = 2 \/ tr = 5 \/ tr = 7) -> c < endb)).

Lemma better_ok startb endb cand code i best :
  okbest startb endb best -> startb <= i <= endb ->
  (code = 1 \/ code = 2 \/ code = 3 \/ code = 5 \/ code = 6 \/ code = 7) ->
  ((code = 1 \/ code = 2 \/ code = 5 \/ code = 7) -> i < endb) ->
  okbest startb endb (better A cand code i best).
Proof.
  intros H Hi Hc Hl. unfold better. destruct best as [[mxv tr] c].
  destruct (gt A cand mxv); [|exact H]. right. repeat split; try lia; auto.
Qed.

Lemma meet_col_ok startb endb sz sub i f b best :
  okbest startb endb best -> startb <= i < endb -> okbest startb endb (meet_col A M sz sub i f b best).
Proof.
  intros H Hi. unfold meet_col.
  repeat (apply better_ok; [|lia|tauto|intros; lia]). exact H.
Qed.

Lemma meet_last_ok startb endb el sub f b best :
  okbest startb endb best -> startb <= endb -> okbest startb endb (meet_last A M el sub endb f b best).
Proof.
  intros H Hi. unfold meet_last.
  repeat (apply better_ok; [|lia|tauto|intros [E|[E|[E|E]]]; discriminate]). exact H.
Qed.

Lemma meet_scan_ok : forall fs bs sz el startb endb i best,
  okbest startb endb best -> startb <= i -> i + Z.of_nat (length fs) = endb + 1 -> length bs = length fs ->
  okbest startb endb (meet_scan A M sz el startb endb i fs bs best).
Proof.
  induction fs as [|f fs IH]; intros bs sz el startb endb i best H Hi Hl Hb.
  - destruct bs; simpl; exact H.
  - destruct bs as [|b bs]; [discriminate|]. simpl in Hb. injection Hb as Hb.
    destruct fs as [|f2 fs'].
    + destruct bs; [|discriminate]. cbn [meet_scan]. simpl in Hl.
      assert (i = endb) by lia. subst i. apply meet_last_ok; [exact H|lia].
    + destruct bs as [|b2 bs']; [discriminate|].
      change (meet_scan A M sz el startb endb i (f :: f2 :: fs') (b :: b2 :: bs') best)
        with (meet_scan A M sz el startb endb (i + 1) (f2 :: fs') (b2 :: bs')
                        (meet_col A M (i =? 0) (tiebreak A startb endb i) i f b best)).
      apply IH; [|lia|cbn [length] in *; lia|exact Hb].
      apply meet_col_ok; [exact H|cbn [length] in Hl; lia].
Qed.

Theorem meetup_range : forall sz el startb endb fs bs, startb < endb ->
  Z.of_nat (length fs) = endb - startb + 1 -> length bs = length fs ->
  okbest startb endb (meetup A M sz el startb endb fs bs).
Proof.
  intros. unfold meetup. apply meet_scan_ok; [left; split; reflexivity|lia|lia|assumption].
Qed.
End MeetProofs.

(* ---- the traced recursion computes the same path writes ---------------------------------------------------------- *)
Lemma runner2_writes (A : alg) (Kn : kernel A) : forall fuel starta enda startb endb f0 b0,
  option_map fst (runner2 A Kn fuel starta enda startb endb f0 b0) = runner A Kn fuel starta enda startb endb f0 b0.
Proof.
  induction fuel as [|fu IH]; intros; [reflexivity|].
  cbn [runner runner2]. destruct ((enda <=? starta) || (endb <=? startb)); [reflexivity|].
  destruct (k_meetup A Kn _ startb endb _ _) as [[mxv tr] meet].
  assert (S2 : forall w1 a1 e1 s1 n1 bb a2 e2 s2 n2 ff mt,
    option_map fst
      match runner2 A Kn fu a1 e1 s1 n1 f0 bb with
      | None => None
      | Some (p1, m1) => match runner2 A Kn fu a2 e2 s2 n2 ff b0 with
                         | None => None
                         | Some (p2, m2) => Some (w1 ++ p1 ++ p2, mt :: m1 ++ m2)
                         end
      end =
    match runner A Kn fu a1 e1 s1 n1 f0 bb with
    | None => None
    | Some p1 => match runner A Kn fu a2 e2 s2 n2 ff b0 with
                 | None => None
                 | Some p2 => Some (w1 ++ p1 ++ p2)
                 end
    end).
  { intros. rewrite <- (IH a1 e1 s1 n1 f0 bb), <- (IH a2 e2 s2 n2 ff b0).
    destruct (runner2 A Kn fu a1 e1 s1 n1 f0 bb) as [[p1 m1]|]; [|reflexivity]. simpl.
    destruct (runner2 A Kn fu a2 e2 s2 n2 ff b0) as [[p2 m2]|]; reflexivity. }
  destruct (tr =? 1); [apply S2|]. destruct (tr =? 2); [apply S2|]. destruct (tr =? 3); [apply S2|].
  destruct (tr =? 5); [apply S2|]. destruct (tr =? 6); [apply S2|]. destruct (tr =? 7); [apply S2|]. reflexivity.
Qed.

(* ---- the Hirschberg recursion ------------------------------------------------------------------------------ *)
Section RunnerProofs.
Variable A : alg.
Variable Kn : kernel A.
Variable LB : Z.       (* len_b of the aln_mem: columns of every sub-problem lie in 0..LB *)
(* the one property of the kernel instance the controller relies on: on the arrays its own two passes
   return for a sub-problem inside 0..LB, the meetup names a column of the sub-problem (and, for the
   transitions that consume column meet+1, not the last one) - whatever the numbers *)
Hypothesis meet_ok : forall starta mid enda startb endb f0 b0, 0 <= startb -> startb < endb -> endb <= LB ->
  okbest A startb endb (k_meetup A Kn mid startb endb (k_forward A Kn starta mid startb endb f0)
                                                       (k_backward A Kn mid enda startb endb b0)).

(* fuel: rows + columns of the sub-problem, plus one *)
Definition enough (fuel : nat) (starta enda startb endb : Z) : Prop :=
  Z.max 0 (enda - starta) + Z.max 0 (endb - startb) < Z.of_nat fuel.

Definition writes_in (ws : list (Z * Z)) (starta enda startb endb : Z) : Prop :=
  Forall (fun w => starta <= fst w <= enda /\ startb <= snd w <= endb) ws.

Theorem runner_total : forall fuel starta enda startb endb f0 b0,
  enough fuel starta enda startb endb -> 0 <= startb -> endb <= LB ->
  exists ws, runner A Kn fuel starta enda startb endb f0 b0 = Some ws /\ writes_in ws starta enda startb endb.
Proof.
  induction fuel as [|fu IH]; intros starta enda startb endb f0 b0 E B0 BL.
  - unfold enough in E. simpl in E. lia.
  - cbn [runner].
    destruct ((enda <=? starta) || (endb <=? startb)) eqn:Stop.
    { exists []. split; [reflexivity|constructor]. }
    apply orb_false_iff in Stop as [S1 S2]. apply Z.leb_gt in S1, S2.
    set (mid := (enda - starta) / 2 + starta).
    assert (Hmid : starta <= mid < enda).
    { unfold mid. assert (0 <= (enda - starta) / 2 < enda - starta) by (split; [apply Z.div_pos; lia|apply Z.div_lt_upper_bound; lia]). lia. }
    pose proof (meet_ok starta mid enda startb endb f0 b0 B0 S2 BL) as MO.
    destruct (k_meetup A Kn mid startb endb _ _) as [[mxv tr] meet]. unfold okbest in MO.
    unfold enough in E.
    assert (SUB : forall w1 a1 e1 s1 n1 bb a2 e2 s2 n2 ff,
      enough fu a1 e1 s1 n1 -> enough fu a2 e2 s2 n2 ->
      writes_in w1 starta enda startb endb ->
      starta <= a1 -> e1 <= enda -> startb <= s1 -> n1 <= endb ->
      starta <= a2 -> e2 <= enda -> startb <= s2 -> n2 <= endb ->
      exists ws,
        match runner A Kn fu a1 e1 s1 n1 f0 bb with
        | None => None
        | Some p1 => match runner A Kn fu a2 e2 s2 n2 ff b0 with
                     | None => None
                     | Some p2 => Some (w1 ++ p1 ++ p2)
                     end
        end = Some ws /\ writes_in ws starta enda startb endb).
    { intros w1 a1 e1 s1 n1 bb a2 e2 s2 n2 ff E1 E2 W1 B1 B2 B3 B4 B5 B6 B7 B8.
      destruct (IH a1 e1 s1 n1 f0 bb E1) as (p1 & R1 & W1'); [lia|lia|].
      destruct (IH a2 e2 s2 n2 ff b0 E2) as (p2 & R2 & W2'); [lia|lia|].
      rewrite R1, R2. eexists. split; [reflexivity|].
      unfold writes_in in *. apply Forall_app. split; [exact W1|]. apply Forall_app. split.
      - eapply Forall_impl; [|exact W1']. simpl. intros w Hw.
        destruct (Z_le_gt_dec a1 e1); destruct (Z_le_gt_dec s1 n1); lia.
      - eapply Forall_impl; [|exact W2']. simpl. intros w Hw.
        destruct (Z_le_gt_dec a2 e2); destruct (Z_le_gt_dec s2 n2); lia. }
    destruct MO as [[Et Em]|(Hc & Htr & Hlt)].
    { subst tr meet. simpl. exists []. split; [reflexivity|constructor]. }
    assert (W2 : forall i v, starta <= i <= enda -> startb <= v <= endb -> writes_in [(i, v)] starta enda startb endb)
      by (intros; constructor; [simpl; lia|constructor]).
    destruct Htr as [Et|[Et|[Et|[Et|[Et|Et]]]]]; subst tr; cbn [Z.eqb Pos.eqb].
    + specialize (Hlt (or_introl eq_refl)).
      apply (SUB [(mid, meet); (mid + 1, meet + 1)]); try (unfold enough; lia).
      constructor; [simpl; lia|]. constructor; [simpl; lia|constructor].
    + specialize (Hlt (or_intror (or_introl eq_refl))).
      apply (SUB [(mid, meet)]); try (unfold enough; lia). apply W2; lia.
    + apply (SUB [(mid, meet)]); try (unfold enough; lia). apply W2; lia.
    + specialize (Hlt (or_intror (or_intror (or_introl eq_refl)))).
      apply (SUB [(mid + 1, meet + 1)]); try (unfold enough; lia). apply W2; lia.
    + apply (SUB []); try (unfold enough; lia). constructor.
    + specialize (Hlt (or_intror (or_intror (or_intror eq_refl)))).
      apply (SUB [(mid + 1, meet + 1)]); try (unfold enough; lia). apply W2; lia.
Qed.

(* aln_runner on a fresh aln_mem never runs out of fuel and leaves a path *)
Theorem raw_path_total : forall len_a, 0 <= len_a -> 0 <= LB ->
  exists p, raw_path A Kn len_a LB = Some p.
Proof.
  intros len_a Ha Hb. unfold raw_path.
  destruct (runner_total (Z.to_nat (len_a + LB + 2)) 0 len_a 0 LB (live0 A) (live0 A)) as (ws & R & _); try lia.
  { unfold enough. rewrite Z2Nat.id by lia. lia. }
  rewrite R. eexists. reflexivity.
Qed.
End RunnerProofs.
