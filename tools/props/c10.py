"""C10 - progressive merging never re-aligns a finished sub-alignment."""
import json
from props import weavecommon as wc

def run(ck):
    ck.build(('omp',))
    ck.translate()
    ok = ck.prove()
    n = 260 if ck.tier == 'quick' else 2500
    cases = wc.make_cases(ck, n, small=True)
    # more sequences -> more internal nodes, caterpillar/balanced shapes come from the families
    for c in wc.make_cases(ck, 40 if ck.tier == 'quick' else 400, small=False):
        cases.append(c)
    # groups of >= 64 members in alignments of >= 512 columns, thread counts that do not divide the group sizes
    import gen
    for k in range(2 if ck.tier == 'quick' else 12):
        nseq = ck.rng.choice([70, 75, 99]); L = ck.rng.range(530, 600)
        alpha = gen.DNA if k % 2 == 0 else gen.PROT
        root = gen.rand_seq(ck.rng, alpha, L)
        seqs = [gen.mutate(ck.rng, root, alpha, 6, 3) + ('WKW' if k % 2 else '') for _ in range(nseq)]
        cases.append({'kind': 'dna' if k % 2 == 0 else 'protein', 'family': 'large-groups', 'seqs': seqs, 'type': 5, 'pens': [gen.NG] * 3, 'threads': ck.rng.choice([3, 4, 7])})
        ck.count('family:large-groups (>= 64 members, >= 512 columns)')
    # >= 100 sequences (bisecting k-means): two tight families plus small outlier clusters of 1..3 sequences related to one family,
    # so that the bisection peels off clusters of one, two and three leaves below the top split
    for k in range(2 if ck.tier == 'quick' else 10):
        alpha = gen.PROT if k % 2 == 0 else gen.DNA
        tail = 'WKW' if k % 2 == 0 else ''
        f1 = gen.rand_seq(ck.rng, alpha, ck.rng.range(130, 160)); core = gen.rand_seq(ck.rng, alpha, ck.rng.range(100, 125))
        seqs = [gen.mutate(ck.rng, f1, alpha, 4, 0) + tail for _ in range(110)] + [gen.mutate(ck.rng, core, alpha, 4, 0) + tail for _ in range(110)]
        for grp in range(ck.rng.range(1, 3)):
            ins = gen.rand_seq(ck.rng, alpha, ck.rng.range(35, 45)); cut = len(core) // 2
            o = core[:cut] + ins + core[cut:]
            seqs += [gen.mutate(ck.rng, o, alpha, 30, 2) + tail for _ in range([2, 1, 3][(k + grp) % 3])]
        ck.rng.shuffle(seqs)
        cases.append({'kind': 'protein' if k % 2 == 0 else 'dna', 'family': 'kmeans-outlier-clusters', 'seqs': seqs, 'type': 5, 'pens': [gen.NG] * 3, 'threads': ck.rng.choice([1, 4])})
        ck.count('family:kmeans-outlier-clusters (>= 100 sequences)')
    # alignments of >= 1024 columns in which a finished group has a member with a long run of trailing (or leading) gaps and a later
    # merge inserts columns INSIDE that run: every member of the group must receive the same columns
    for k in range(2 if ck.tier == 'quick' else 12):
        alpha = gen.PROT if k % 2 == 0 else gen.DNA
        tail = 'WKW' if k % 2 == 0 else ''
        L = ck.rng.choice([1040, 1100, 1200])
        full = gen.rand_seq(ck.rng, alpha, L)
        cut = ck.rng.range(L // 2, 700)
        short = full[:cut] if k % 4 < 2 else full[L - cut:]
        # the insertion lies inside the gap run AND inside the first 1024 residues (the distance kernel looks at no more, and the
        # guide tree has to join 'full' and 'short' first)
        pos = ck.rng.range(cut + 60, 980) if k % 4 < 2 else ck.rng.range(40, L - cut - 60)
        ins = full[:pos] + gen.rand_seq(ck.rng, alpha, ck.rng.range(15, 40)) + full[pos:]
        seqs = [full + tail, short + tail, ins + tail, gen.mutate(ck.rng, ins, alpha, 3, 1) + tail][:ck.rng.choice([3, 4])]
        ck.rng.shuffle(seqs)
        cases.append({'kind': 'protein' if k % 2 == 0 else 'dna', 'family': 'long-trailing-gaps', 'seqs': seqs, 'type': 5, 'pens': [gen.NG] * 3, 'threads': ck.rng.choice([1, 4])})
        ck.count('family:>= 1024 columns, insertion inside the terminal gap run of a finished group')
    # corpus: an input on which the bisecting k-means isolates a cluster of exactly two sequences below the top split
    # (kept from the seeded round, seeded/C10-E)
    import os
    cf = os.path.join(os.path.dirname(os.path.dirname(os.path.dirname(os.path.abspath(__file__)))), 'gen', 'corpus_c10_two_families_outlier_pair.fa')
    if os.path.exists(cf):
        cn, cs = gen.parse_fasta(open(cf).read())
        cases.insert(0, {'kind': 'protein', 'family': 'corpus:two-families-outlier-pair', 'seqs': cs, 'type': 5, 'pens': [gen.NG] * 3, 'threads': 4})
        ck.count('family:corpus two families + outlier pair (222 sequences)')
    ck.rule = ('end-to-end runs with the NODE_DONE hook: at completion of every internal node the member rows are snapshotted; model merge_step '
               'replayed per merge on the observed ops and compared with every snapshot; extracted subalignment_b (strip of the final projection = snapshot) '
               'evaluated on the implementation data for every node; threads 1..16. Non-trivial = run with >= 2 internal nodes; distinct by input+settings')
    res = wc.campaign(ck, cases)
    corr_bad, wit, prem_bad = [], [], []
    nodes = 0
    for c, o, d, v in res:
        if not o.startswith('OK'):
            continue
        k = int(d.get('nodes', '0'))
        nodes += k
        if k >= 2:
            ck.nontriv({'s': c['seqs'], 't': c['type'], 'p': c['pens'], 'n': c['threads']})
        if d.get('weave') != 'ok':
            corr_bad.append(('weave', c, v))
        for key in ('fit',):
            if d.get(key) != 'ok':
                prem_bad.append((key, c, v))
        if d.get('c10') != 'ok':
            wit.append({'kind': 'sub-alignment-changed', 'case': c, 'verdict': v, 'implementation': o[:1500]})
    ck.count('internal nodes checked', nodes)
    ck.corr['Weave.merge_step vs make_seq/update_gaps/do_align member lists'] = {'cases': len(res), 'disagreements': len(corr_bad)}
    c0, o0, d0, v0 = res[0]
    ck.sample({'input': c0, 'observed': o0[:600], 'model_verdict': v0})
    for w in wit[:3]:
        ck.violation('witness', w)
    if not wit:
        if not ok:
            ck.violation('proof', {'what_no_longer_checks': ck.proof['failed']}, nofail=True)
        elif corr_bad:
            key, c, v = corr_bad[0]
            ck.violation('correspondence', {'what_no_longer_checks': 'correspondence of Model Weave.merge_step with make_seq/update_gaps',
                                            'first_disagreement': {'case': c, 'verdict': v}, 'disagreements': len(corr_bad)}, nofail=True)
        elif prem_bad:
            key, c, v = prem_bad[0]
            ck.violation('premise', {'what_no_longer_checks': 'monitored premise ops_fit of C10_finished_blocks_are_preserved fails on an observed merge', 'case': c, 'verdict': v}, nofail=True)

def replay(ck, obj):
    print(json.dumps(obj, indent=1)[:3000])
    return 0
