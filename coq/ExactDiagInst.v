(* C08, sequence-sequence kernel in exact arithmetic: ss_kernel of Pipeline.v (the kernel text of Kernels.v with the
   accessors of aln_seqseq.c) over integers-with-minus-infinity returns the diagonal when both operands are the same
   residue string, for every length, under a finite checkable condition on the scoring scheme.  Units: everything is
   scaled by 2000 so that kalign's tie-break |(endb-startb)/2 + startb - i| / 1000 is the integer |endb + startb - 2 i|. *)
From Coq Require Import ZArith List Bool Lia.
From KV Require Import Kernels Pipeline DupProofs ExactDiag.
Import ListNotations.
Local Open Scope Z_scope.

Lemma seq1_diag L : map Z.of_nat (seq 1 L) = diag L.
Proof. unfold diag. rewrite <- seq_shift, map_map. apply map_ext. intros i. lia. Qed.

(* the unit: 1/2000 is [unit] integer steps (a power of two when the parameters are binary32 values, see the end) *)
Section Unit.
Variable unit : Z.
Hypothesis unit_pos : 0 <= unit.
Definition tbk (a b i : Z) : Z := unit * Z.abs (b + a - 2 * i).
Lemma tbk_nonneg a b i : 0 <= tbk a b i. Proof. unfold tbk. apply Z.mul_nonneg_nonneg; lia. Qed.
Definition AX := alg_X tbk.

Lemma skipn_add {X} : forall p a (l : list X), skipn (p + a) l = skipn p (skipn a l).
Proof.
  intros p a; revert p. induction a as [|a IH]; intros p l; [rewrite Nat.add_0_r; reflexivity|].
  rewrite Nat.add_succ_r. destruct l as [|x l]; [cbn [skipn]; rewrite skipn_nil; reflexivity|]. cbn [skipn]. apply IH.
Qed.
Lemma firstn_add {X} : forall p q (l : list X), firstn (p + q) l = firstn p l ++ firstn q (skipn p l).
Proof.
  induction p as [|p IH]; intros q l; [reflexivity|]. destruct l as [|x l]; cbn [Nat.add firstn skipn app].
  - rewrite firstn_nil. reflexivity.
  - f_equal. apply IH.
Qed.
Lemma slice_app {X} (l : list X) a m b : 0 <= a <= m -> m <= b -> slice l a b = slice l a m ++ slice l m b.
Proof.
  intros H1 H2. unfold slice.
  replace (Z.to_nat (b - a)) with (Z.to_nat (m - a) + Z.to_nat (b - m))%nat by lia.
  replace (Z.to_nat m) with (Z.to_nat (m - a) + Z.to_nat a)%nat by lia.
  rewrite skipn_add. apply firstn_add.
Qed.
Lemma slice_length {X} (l : list X) a b : 0 <= a <= b -> b <= Z.of_nat (length l) -> length (slice l a b) = Z.to_nat (b - a).
Proof. intros H1 H2. unfold slice. rewrite firstn_length, skipn_length. lia. Qed.
Lemma nth_error_app_l {X} (a b : list X) t x : nth_error a t = Some x -> nth_error (a ++ b) t = Some x.
Proof. intros H. rewrite nth_error_app1; [exact H|]. apply nth_error_Some. congruence. Qed.

Lemma In_firstn {X} : forall n (l : list X) r, In r (firstn n l) -> In r l.
Proof. induction n as [|n IH]; intros [|y l] r H; cbn [firstn] in H; try destruct H as [H|H]; try (destruct H; fail); [left; exact H|right; apply IH; exact H]. Qed.
Lemma In_skipn {X} : forall n (l : list X) r, In r (skipn n l) -> In r l.
Proof. induction n as [|n IH]; intros [|y l] r H; cbn [skipn] in H; try exact H. right. apply IH. exact H. Qed.

Section SS.
Variable S : list (list Z).             (* the substitution matrix, scaled; kalign's is float subm[23][23] *)
Variables gpo gpe tgpe gam : Z.
Variable dim : nat.                     (* the residue codes in use are 0 .. dim-1 *)
Variable mx : Z.                        (* a bound on every entry of S (rows and columns outside dim included) *)
Definition sc (a b : nat) : Z := nth b (nth a S []) 0.
Definition PX : nparams AX := mkNP AX (Some gpo) (Some gpe) (Some tgpe) (map (map (@Some Z)) S).

(* the finite condition on the scheme: 2 s(i,j) <= s(i,i) + s(j,j) and every self-score outweighs every gap cost by
   2*gam over the codes in use; gam exceeds the tie-break at the middle column (at most one unit) *)
Definition row_ok (i : nat) : bool :=
  forallb (fun j => 2 * sc i j <=? sc i i + sc j j) (seq 0 dim) && (0 <=? sc i i + 2 * gam) &&
  (2 * gam <=? sc i i + 2 * gpo) && (2 * gam <=? sc i i + 2 * gpe) && (2 * gam <=? sc i i + 2 * tgpe).
Definition scheme_ok : bool :=
  forallb row_ok (seq 0 dim) && (0 <=? gpo) && (0 <=? gpe) && (0 <=? tgpe) && (unit <? gam) && (0 <? gam) &&
  forallb (forallb (fun v => v <=? mx)) S && (0 <=? mx).

Hypothesis Hok : scheme_ok = true.

Definition inr (c : Z) : bool := (Z.to_nat c <? dim)%nat.
Definition pot (c : Z) : Z := if inr c then sc (Z.to_nat c) (Z.to_nat c) else 2 * gam + 2 * mx.
Definition dp (r c : Z) : Prop := r = c /\ inr r = true.

Lemma sub_score_X a b : sub_score AX PX a b = Some (sc (Z.to_nat a) (Z.to_nat b)).
Proof.
  unfold sub_score, sc. cbn [n_subm PX].
  change (@nil (T AX)) with (map (@Some Z) []). rewrite (map_nth (map (@Some Z))). apply (map_nth (@Some Z)).
Qed.

Lemma ok_facts : 0 <= gpo /\ 0 <= gpe /\ 0 <= tgpe /\ (unit < gam /\ 0 < gam) /\ 0 <= mx /\ (forall i j, sc i j <= mx) /\
  forall i, (i < dim)%nat -> (forall j, (j < dim)%nat -> 2 * sc i j <= sc i i + sc j j) /\ 0 <= sc i i + 2 * gam /\
     2 * gam <= sc i i + 2 * gpo /\ 2 * gam <= sc i i + 2 * gpe /\ 2 * gam <= sc i i + 2 * tgpe.
Proof.
  unfold scheme_ok in Hok. rewrite !andb_true_iff in Hok. destruct Hok as (((((((H1 & H2) & H3) & H4) & H5) & H6) & H7) & H8).
  split; [lia|]. split; [lia|]. split; [lia|]. split; [lia|]. split; [lia|]. split.
  - intros i j. unfold sc. destruct (Nat.ltb_spec i (length S)) as [Li|Li].
    + rewrite forallb_forall in H7. specialize (H7 (nth i S []) (nth_In _ _ Li)).
      destruct (Nat.ltb_spec j (length (nth i S []))) as [Lj|Lj].
      * rewrite forallb_forall in H7. specialize (H7 _ (nth_In _ 0 Lj)). lia.
      * rewrite (nth_overflow (nth i S [])) by exact Lj. lia.
    + rewrite (nth_overflow S) by exact Li. destruct j; cbn [nth]; lia.
  - intros i Hi.
    rewrite forallb_forall in H1. specialize (H1 i ltac:(apply in_seq; lia)). unfold row_ok in H1. rewrite !andb_true_iff in H1.
    destruct H1 as ((((Q1 & Q5) & Q2) & Q3) & Q4). repeat split; try lia.
    intros j Hj. rewrite forallb_forall in Q1. specialize (Q1 j ltac:(apply in_seq; lia)). lia.
Qed.

Lemma pot_gap c g : (g = gpo \/ g = gpe \/ g = tgpe) -> 2 * (- g) <= pot c - 2 * gam.
Proof.
  destruct ok_facts as (G1 & G2 & G3 & G4 & G5 & G6 & F). intros Hg. unfold pot, inr. destruct (Nat.ltb_spec (Z.to_nat c) dim) as [L|L]; cbv iota.
  - destruct (F _ L) as (_ & _ & A1 & A2 & A3). destruct Hg as [->|[->| ->]]; lia.
  - destruct Hg as [->|[->| ->]]; lia.
Qed.

Lemma pot_ge_0 c : 0 <= pot c + 2 * gam.
Proof.
  destruct ok_facts as (G1 & G2 & G3 & G4 & G5 & G6 & F). unfold pot, inr. destruct (Nat.ltb_spec (Z.to_nat c) dim) as [L|L]; cbv iota; [|lia].
  destruct (F _ L) as (_ & Q & _). lia.
Qed.

Lemma match_ub r c : 2 * sc (Z.to_nat r) (Z.to_nat c) <= pot r + pot c.
Proof.
  destruct ok_facts as (G1 & G2 & G3 & G4 & G5 & G6 & F). pose proof (pot_ge_0 r) as Pr. pose proof (pot_ge_0 c) as Pc.
  pose proof (G6 (Z.to_nat r) (Z.to_nat c)) as Hm. unfold pot, inr in *.
  destruct (Nat.ltb_spec (Z.to_nat r) dim) as [Lr|Lr]; destruct (Nat.ltb_spec (Z.to_nat c) dim) as [Lc|Lc]; cbv iota in *; try lia.
  destruct (F _ Lr) as (Q & _). apply Q. exact Lc.
Qed.

Notation KS := (ss_costs AX PX).
Notation MS := (ss_meet AX PX).

Lemma ng_X g : ng AX (Some g) = Some (- g). Proof. reflexivity. Qed.

Theorem ss_square x o e : Forall (fun c => inr c = true) x -> 0 <= o -> o < e -> e <= Z.of_nat (length x) ->
  let Kn := ss_kernel AX PX x x in
  let mid := (e - o) / 2 + o in
  exists v, k_meetup AX Kn mid o e (k_forward AX Kn o mid o e (live0 AX)) (k_backward AX Kn mid e o e (live0 AX)) = (v, 1, mid).
Proof.
  intros Hx Ho Hoe He. cbv zeta. set (mid := (e - o) / 2 + o).
  assert (Hmid : o <= mid < e) by (unfold mid; pose proof (Z.div_pos (e - o) 2); pose proof (Z.mul_div_le (e - o) 2); pose proof (Z.mul_succ_div_gt (e - o) 2); lia).
  destruct ok_facts as (G1 & G2 & G3 & G4 & G5 & G6 & F).
  cbn [ss_kernel k_meetup k_forward k_backward]. unfold meetup.
  change (negmax AX, -1, -1) with (@None Z, -1, -1). change (live0 AX) with (live tbk).
  set (RF := slice x o mid). set (RB := rev (slice x mid e)). set (CF := slice x o e).
  assert (LRF : length RF = Z.to_nat (mid - o)) by (apply slice_length; lia).
  assert (LRB : length RB = Z.to_nat (e - mid)) by (unfold RB; rewrite rev_length; apply slice_length; lia).
  assert (LCF : length CF = Z.to_nat (e - o)) by (apply slice_length; lia).
  assert (SP : CF = RF ++ slice x mid e) by (apply slice_app; lia).
  assert (INx : forall a b t r, nth_error (slice x a b) t = Some r -> inr r = true).
  { intros a b t r H. apply nth_error_In in H. unfold slice in H. apply In_firstn, In_skipn in H.
    rewrite Forall_forall in Hx. apply Hx. exact H. }
  destruct (square_meet tbk tbk_nonneg Z Z KS pot pot (fun r => sc (Z.to_nat r) (Z.to_nat r)) gam dp) with
    (M := MS) (RF := RF) (RB := RB) (CF := CF) (CB := rev CF)
    (fi := negb (o =? 0)) (li := negb (e =? Z.of_nat (length x))) (fi' := negb (e =? Z.of_nat (length x))) (li' := negb (o =? 0))
    (sz := (o =? 0)) (el := (e =? Z.of_nat (length x))) (sb := o) (eb := e) (i0 := o) as (E & HE).
  - lia.
  - (* match step bounded *)
    intros r c v u Hu. cbn [k_match ss_costs]. rewrite sub_score_X. destruct v as [v|]; [|exact I]. cbn [add AX alg_X xadd ub2] in *.
    pose proof (match_ub r c). lia.
  - (* match step exact on the diagonal *)
    intros r c v (-> & Hr). cbn [k_match ss_costs]. rewrite sub_score_X. split; [reflexivity|]. unfold pot. rewrite Hr. lia.
  - intros c. exists (- gpe), (- gpo), (- tgpe). cbn [k_ga_ext k_ga_open k_ga_text ss_costs PX n_gpo n_gpe n_tgpe]. rewrite !ng_X.
    repeat split; apply pot_gap; auto.
  - intros r. exists (- gpe), (- gpo), (- tgpe). cbn [k_gb_ext k_gb_open k_gb_text ss_costs PX n_gpo n_gpe n_tgpe]. rewrite !ng_X.
    repeat split; apply pot_gap; auto.
  - intros c. exists (- gpo). cbn [k_ga_to_a ss_costs PX n_gpo]. rewrite ng_X. split; [reflexivity|lia].
  - intros r. exists (- gpo). cbn [k_gb_to_a ss_costs PX n_gpo]. rewrite ng_X. split; [reflexivity|lia].
  - intros i. exists (- gpo). cbn [m_a_ga ss_meet PX n_gpo]. rewrite ng_X. split; [reflexivity|lia].
  - exists (- gpo). cbn [m_a_gb ss_meet PX n_gpo]. rewrite ng_X. split; [reflexivity|lia].
  - intros i. exists (- gpo). cbn [m_ga_a ss_meet PX n_gpo]. rewrite ng_X. split; [reflexivity|lia].
  - exists (- gpe). cbn [m_gb_gb_int ss_meet PX n_gpe]. rewrite ng_X. split; [reflexivity|lia].
  - exists (- tgpe). cbn [m_gb_gb_term ss_meet PX n_tgpe]. rewrite ng_X. split; [reflexivity|lia].
  - exists (- gpo). cbn [m_gb_a ss_meet PX n_gpo]. rewrite ng_X. split; [reflexivity|lia].
  - lia.
  - lia.
  - reflexivity.
  - (* forward rows pair with the leading columns *)
    intros t r c Hr Hc. rewrite SP in Hc. rewrite (nth_error_app_l _ _ _ _ Hr) in Hc. inversion Hc; subst. split; [reflexivity|].
    apply (INx o mid t c Hr).
  - (* backward rows pair with the trailing columns *)
    intros t r c Hr Hc. rewrite SP, rev_app_distr in Hc. fold RB in Hc. rewrite (nth_error_app_l _ _ _ _ Hr) in Hc. inversion Hc; subst. split; [reflexivity|].
    unfold RB in Hr. apply nth_error_In, in_rev, In_nth_error in Hr. destruct Hr as (t' & Hr). apply (INx mid e t' c Hr).
  - rewrite LRF. unfold tbk. replace (o + Z.of_nat (Z.to_nat (mid - o))) with mid by lia.
    assert (Hab : Z.abs (e + o - 2 * mid) <= 1) by (unfold mid; pose proof (Z.mul_div_le (e - o) 2); pose proof (Z.mul_succ_div_gt (e - o) 2); lia).
    assert (Hu : unit * Z.abs (e + o - 2 * mid) <= unit * 1) by (apply Z.mul_le_mono_nonneg_l; [exact unit_pos|exact Hab]). lia.
  - exists (Some E). etransitivity; [exact HE|]. rewrite LRF. replace (o + Z.of_nat (Z.to_nat (mid - o))) with mid by lia. reflexivity.
Qed.

Theorem ss_identical_diagonal x : Forall (fun c => inr c = true) x ->
  let n := Z.of_nat (length x) in
  raw_path AX (ss_kernel AX PX x x) n n = Some (map Z.of_nat (seq 1 (length x))).
Proof.
  intros Hx. cbv zeta. rewrite <- (Nat2Z.id (length x)) at 3. apply (raw_path_diag tbk); [|lia].
  intros o e Ho Hoe He. apply ss_square; assumption.
Qed.
End SS.
End Unit.

(* ---- kalign's own schemes, as the built code has them now (Generated/Tables.v): exact values of the binary32 parameters -- *)
From KV Require Import Base Params.
Definition KX : Z := 40.                      (* every value is scaled by 2000 * 2^40 *)
Definition unitX : Z := 2 ^ KX.
(* the real value of a binary32 bit pattern times 2000 * 2^40, when that is an integer (|v| = 0 or |v| >= 2^-17, finite) *)
Definition exact_of_bits (b : N) : option Z :=
  let z := Z.of_N b in
  let sign := Z.testbit z 31 in
  let ex := Z.land (Z.shiftr z 23) 255 in
  let man := Z.land z 8388607 in
  if ex =? 255 then None
  else if ex =? 0 then (if man =? 0 then Some 0 else None)
  else let sh := ex - 150 + KX in
       if sh <? 0 then None
       else let v := 2000 * (8388608 + man) * 2 ^ sh in Some (if sign then - v else v).

Fixpoint all_some {X} (l : list (option X)) : option (list X) :=
  match l with
  | [] => Some []
  | Some x :: t => match all_some t with Some r => Some (x :: r) | None => None end
  | None :: _ => None
  end.

Definition exact_scheme (p : params) : option (list (list Z) * Z * Z * Z) :=
  match all_some (map (fun row => all_some (map exact_of_bits row)) (p_subm p)),
        exact_of_bits (p_gpo p), exact_of_bits (p_gpe p), exact_of_bits (p_tgpe p) with
  | Some m, Some a, Some b, Some c => Some (m, a, b, c)
  | _, _, _, _ => None
  end.

(* the largest gamma the scheme admits: half of min_i (s(i,i) + 2 min(gpo, gpe, tgpe)) *)
Definition gam_of (d : nat) (m : list (list Z)) (gpo gpe tgpe : Z) : Z :=
  let g := Z.min gpo (Z.min gpe tgpe) in
  let diag := map (fun i => nth i (nth i m []) 0) (seq 0 d) in
  match diag with
  | [] => unitX + 1
  | d :: ds => (fold_left Z.min ds d + 2 * g) / 2
  end.

Definition scheme_of (s : pset) : option (list (list Z) * Z * Z * Z) :=
  match pset_defaults s with Some p => exact_scheme p | None => None end.

(* residue codes in use: 0..L-1 with L the size of the alphabet the built code uses for that kind (Generated/Tables.v:
   5 for nucleotides - A C G T/U and one code for N and the ambiguity letters - and 23 for proteins - 20 amino acids, B, Z, X) *)
Definition dim_of (s : pset) : nat := Z.to_nat (match s with PS_DNA | PS_DNA_INTERNAL | PS_RNA => alpha_defDNA_L | PS_PROTEIN | PS_GON => alpha_ambPROTEIN_L end).
Definition mx_of (m : list (list Z)) : Z := fold_left Z.max (List.concat m) 0.

Definition default_scheme_ok (s : pset) : bool :=
  match scheme_of s with
  | Some (m, a, b, c) => scheme_ok unitX m a b c (gam_of (dim_of s) m a b c) (dim_of s) (mx_of m)
  | None => false
  end.
