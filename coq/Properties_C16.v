(* C16 - A library call's result does not depend on the calls made before it.
   Statements only; proofs in HistoryProofs.v.  The model (History.v) wires the per-call models
   (readers, kalign_run_model around the numeric pipeline, writers, comparison) to a store of msa
   objects and to an explicit ambient state.  The theorems hold for EVERY numeric pipeline [acore]
   that, of the ambient state, reads at most what kalign_run sets itself before starting it
   (premise [reads_prepared_only]) - that premise, and the claim that the per-call models take
   nothing but their argument objects, are what the history runs test on the code. *)
From KV Require Import Base Params Sort Detect Weave Cmp Formats Api History HistoryProofs.
Local Open Scope Z_scope.

Definition reads_prepared_only (acore : ambient -> Z -> params -> list (list Z) -> list (list Z) -> list (list nat)) : Prop :=
  forall G G' t, acore (prepared G t) = acore (prepared G' t).

(* one call: the ambient state left by earlier calls influences neither the result nor any object *)
Theorem C16_ambient_state_is_irrelevant : forall acore, reads_prepared_only acore ->
  forall G G' s c,
  snd (step acore (G, s) c) = snd (step acore (G', s) c) /\
  forall h, snd (fst (step acore (G, s) c)) h = snd (fst (step acore (G', s) c)) h.
Proof. exact step_ambient_irrelevant. Qed.
Print Assumptions C16_ambient_state_is_irrelevant.

(* one call: objects it does not name are untouched; result and named objects depend only on the named objects *)
Theorem C16_frame : forall acore x c h, ~ In h (handles c) -> snd (fst (step acore x c)) h = snd x h.
Proof. exact step_frame. Qed.
Print Assumptions C16_frame.

Theorem C16_locality : forall acore, reads_prepared_only acore -> forall x y c,
  (forall h, In h (handles c) -> snd x h = snd y h) ->
  snd (step acore x c) = snd (step acore y c) /\
  (forall h, In h (handles c) -> snd (fst (step acore x c)) h = snd (fst (step acore y c)) h).
Proof. exact step_local. Qed.
Print Assumptions C16_locality.

(* histories: after ANY finite sequence of calls, a call gives the result it gives in a fresh process
   (any ambient state, same initial objects) that made only the calls its arguments were built by *)
Theorem C16_history : forall acore, reads_prepared_only acore -> forall pre c x y,
  (forall h, snd x h = snd y h) ->
  snd (step acore (fst (run_history acore x pre)) c) =
  snd (step acore (fst (run_history acore y (slice (handles c) pre))) c).
Proof. exact history_slice. Qed.
Print Assumptions C16_history.

(* kalign_write_msa is read-only: a write leaves every object and the ambient state as they were, so the fresh process
   need not repeat the writes of the history either - the call gives what it gives after the slice of the write-free history *)
Theorem C16_write_is_read_only : forall acore x h fmt b d v, fst (step acore x (CWrite h fmt b d v)) = x.
Proof. exact step_write_read_only. Qed.
Print Assumptions C16_write_is_read_only.

Theorem C16_history_without_writes : forall acore, reads_prepared_only acore -> forall pre c x y,
  (forall h, snd x h = snd y h) ->
  snd (step acore (fst (run_history acore x pre)) c) =
  snd (step acore (fst (run_history acore y (slice (handles c) (drop_writes pre)))) c).
Proof.
  intros acore Hc pre c x y Hxy. rewrite (run_history_drop_writes acore pre x). apply (history_slice acore Hc). exact Hxy.
Qed.
Print Assumptions C16_history_without_writes.

(* kalign_free_msa forgets: after it the handle holds nothing, whatever it held before - so the calls that produced a freed
   object are not among the calls a later object under the same handle was built by (the check's backward walk stops
   following a handle at its free; the sliced-history theorem above is proved for the coarser walk that does not) *)
Theorem C16_free_forgets : forall acore x y h,
  (forall h', h' <> h -> snd x h' = snd y h') ->
  snd (step acore x (CFree h)) = snd (step acore y (CFree h)) /\
  forall h', snd (fst (step acore x (CFree h))) h' = snd (fst (step acore y (CFree h))) h'.
Proof. exact step_free_forgets. Qed.
Print Assumptions C16_free_forgets.

(* ledger, at object granularity: once every handle is freed no object is left, whatever happened before *)
Theorem C16_ledger : forall acore cs x n,
  live (snd (fst (run_history acore (fst (run_history acore x cs)) (map CFree (seq 0 n))))) n = 0%nat.
Proof. exact ledger_empty_after_free. Qed.
Print Assumptions C16_ledger.

(* Non-vacuity: a pipeline that reads nothing from the ambient state (it inserts no gaps), and a
   concrete history in which the last call's slice drops two calls on another object *)
Definition toy_core (_ : ambient) (_ : Z) (_ : params) (codes _ : list (list Z)) : list (list nat) :=
  map (fun c => repeat 0%nat (S (length c))) codes.
Example C16_nonvacuous :
  reads_prepared_only toy_core /\
  let f1 := [62; 97; 10; 65; 67; 71; 84; 10; 62; 98; 10; 65; 67; 71; 10] in
  let f2 := [62; 99; 10; 65; 65; 10; 62; 100; 10; 65; 67; 10] in
  let ng := 3212836864%N in
  let pre := [CRead 0%nat [f1]; CRead 1%nat [f2]; CRun 1%nat 4 5 ng ng ng; CRun 0%nat 2 5 ng ng ng; CFree 1%nat] in
  let c := CWrite 0%nat None [] [] [] in
  slice (handles c) pre = [CRead 0%nat [f1]; CRun 0%nat 2 5 ng ng ng] /\
  snd (step toy_core (fst (run_history toy_core (mkG 1 false 0, empty_store) pre)) c) =
  RBytes [62; 97; 10; 65; 67; 71; 84; 10; 62; 98; 10; 65; 67; 71; 10].
Proof. split; [intros G G' t; reflexivity|]. vm_compute. split; reflexivity. Qed.
