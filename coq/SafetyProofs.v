(* C05: the logic that decides whether an access is in range, whether a reader accepts, and which
   exit status is produced.  Proofs over the reader/writer model (Formats.v), the conversion model
   (Api.v), the path expansion (Weave.v) and the exit-status model (Cli.v). *)
From KV Require Import Base Params Sort Detect Weave WeaveProofs WeaveCheck PathProofs Cmp Formats FormatsProofs Api Cli.
Local Open Scope Z_scope.

(* ---- 1. every residue byte gets a defined class ------------------------------------------------ *)
Definition alpha_in_range (alpha : list Z) (L : Z) : bool := forallb (fun v => (-1 <=? v) && (v <? L)) alpha.

Lemma nthZ_range alpha L c : alpha_in_range alpha L = true -> 0 < L -> -1 <= nthZ (-1) alpha c < L.
Proof.
  intros H HL. unfold nthZ. destruct (c <? 0); [lia|].
  unfold alpha_in_range in H. rewrite forallb_forall in H.
  destruct (nth_in_or_default (Z.to_nat c) alpha (-1)) as [I|E].
  - specialize (H _ I). apply andb_true_iff in H as [H1 H2]. apply Z.leb_le in H1. apply Z.ltb_lt in H2. lia.
  - rewrite E. lia.
Qed.

Lemma code_of_range alpha L amb c :
  alpha_in_range alpha L = true -> 0 <= amb < L -> 0 <= code_of alpha amb c < L.
Proof.
  intros H Ha. unfold code_of.
  assert (R : -1 <= (if c <? 0 then -1 else nthZ (-1) alpha c) < L).
  { destruct (c <? 0); [lia|]. apply nthZ_range; [assumption|lia]. }
  destruct ((if c <? 0 then -1 else nthZ (-1) alpha c) =? -1) eqn:E; [assumption|].
  apply Z.eqb_neq in E. lia.
Qed.

Lemma tables_in_range :
  alpha_in_range alpha_defDNA 5 = true /\ alpha_in_range alpha_redPROTEIN 13 = true /\
  alpha_in_range alpha_ambPROTEIN 23 = true /\
  (0 <=? nthZ (-1) alpha_defDNA 78) && (nthZ (-1) alpha_defDNA 78 <? 5) = true /\
  (0 <=? nthZ (-1) alpha_redPROTEIN 88) && (nthZ (-1) alpha_redPROTEIN 88 <? 13) = true /\
  (0 <=? nthZ (-1) alpha_ambPROTEIN 88) && (nthZ (-1) alpha_ambPROTEIN 88 <? 23) = true.
Proof. vm_compute. repeat split; reflexivity. Qed.

(* sizes of the tables indexed with the codes: Peq[13]/B[13] in bpm.c (nucleotide codes < 5 < 13),
   subm[23][23] and the 64-float profile column in the aligner *)
Definition tree_L (bt : Z) : Z := if bt =? ALN_BIOTYPE_DNA then 5 else 13.
Definition aln_L (bt : Z) : Z := if bt =? ALN_BIOTYPE_DNA then 5 else 23.

Theorem codes_defined : forall bt ta tamb aa aamb,
  alphabets bt = Some ((ta, tamb), (aa, aamb)) ->
  forall c : Z, 0 <= code_of ta tamb c < tree_L bt /\ 0 <= code_of aa aamb c < aln_L bt.
Proof.
  intros bt ta tamb aa aamb H c.
  destruct tables_in_range as (R1 & R2 & R3 & A1 & A2 & A3).
  apply andb_true_iff in A1 as [A1 A1']. apply andb_true_iff in A2 as [A2 A2']. apply andb_true_iff in A3 as [A3 A3'].
  apply Z.leb_le in A1, A2, A3. apply Z.ltb_lt in A1', A2', A3'.
  unfold alphabets, tree_L, aln_L in *.
  destruct (bt =? ALN_BIOTYPE_DNA) eqn:E1.
  - inversion H; subst. split; apply code_of_range; auto; lia.
  - destruct (bt =? ALN_BIOTYPE_PROTEIN); [|discriminate].
    inversion H; subst. split; apply code_of_range; auto; lia.
Qed.

Corollary converted_codes_in_range : forall bt ta tamb aa aamb res,
  alphabets bt = Some ((ta, tamb), (aa, aamb)) ->
  Forall (fun k => 0 <= k < 13) (convert ta tamb res) /\ Forall (fun k => 0 <= k < 23) (convert aa aamb res).
Proof.
  intros bt ta tamb aa aamb res H. unfold convert.
  split; apply Forall_forall; intros k I; apply in_map_iff in I as (c & <- & _);
    destruct (codes_defined _ _ _ _ _ H c) as [C1 C2]; unfold tree_L, aln_L in *;
    destruct (bt =? ALN_BIOTYPE_DNA); lia.
Qed.

(* ---- 2. what the readers hand on ---------------------------------------------------------------- *)
Definition recs_wf (l : list rrec) : Prop := Forall rec_wf l.

Lemma feed_line_wf l r : rec_wf r -> rec_wf (feed_line r l).
Proof. intro H. destruct (feed_line_row l r H) as (W & _). exact W. Qed.

Lemma bump_length : forall l i, length (bump l i) = length l.
Proof. induction l as [|x l IH]; intros [|i]; simpl; auto. Qed.

Lemma count_byte_length h c : length (count_byte h c) = length h.
Proof. unfold count_byte. destruct ((0 <=? c) && (c <? 128)); [apply bump_length|reflexivity]. Qed.

Lemma count_line_length : forall l h, length (count_line h l) = length h.
Proof.
  unfold count_line. induction l as [|c l IH]; intro h; simpl; [reflexivity|].
  rewrite IH. apply count_byte_length.
Qed.

(* FASTA *)
Definition fasta_inv (st : option (list rrec * option rrec * list Z)) : Prop :=
  match st with
  | None => True
  | Some (done, cur, h) => recs_wf done /\ (match cur with Some r => rec_wf r | None => True end) /\ length h = 128%nat
  end.

Lemma fasta_step_inv st l : fasta_inv st -> fasta_inv (fasta_step st l).
Proof.
  destruct st as [[[done cur] h]|]; simpl; [|auto].
  intros (D & C & Hh). destruct (hint_fa l).
  - simpl. split; [|split; [apply empty_rec_wf|assumption]].
    destruct cur; [constructor; assumption|assumption].
  - destruct cur as [r|].
    + simpl. split; [assumption|]. split; [apply feed_line_wf; assumption|]. rewrite count_line_length. assumption.
    + destruct (existsb isalpha l); simpl; auto. split; [assumption|]. split; [exact I|]. rewrite count_line_length. assumption.
Qed.

Lemma fold_fasta_inv : forall lines st, fasta_inv st -> fasta_inv (fold_left fasta_step lines st).
Proof. induction lines as [|l ls IH]; intros st H; simpl; [assumption|]. apply IH, fasta_step_inv, H. Qed.

Lemma read_fasta_wf lines m : read_fasta lines = Some m -> recs_wf (m_recs m) /\ length (m_freq m) = 128%nat.
Proof.
  unfold read_fasta. intro H.
  pose proof (fold_fasta_inv lines (Some ([], None, repeat 0 128))) as I.
  assert (I0 : fasta_inv (Some ([], None, repeat 0 128))).
  { simpl. split; [constructor|]. split; [exact Logic.I|]. first [apply repeat_length | reflexivity]. }
  specialize (I I0). destruct (fold_left fasta_step lines _) as [[[done cur] h]|]; [|discriminate].
  inversion H; subst; simpl in *. destruct I as (D & C & Hh). split; [|assumption].
  apply Forall_rev. destruct cur; [constructor; assumption|assumption].
Qed.

(* Clustal *)
Lemma update_nth_Forall {A} (P : A -> Prop) (f : A -> A) : (forall x, P x -> P (f x)) ->
  forall n l, Forall P l -> Forall P (update_nth n f l).
Proof.
  intros Hf n. induction n as [|n IH]; intros [|x l] H; simpl; auto;
    inversion H; subst; constructor; auto.
Qed.

Lemma pad_recs_wf l n : recs_wf l -> recs_wf (pad_recs l n).
Proof.
  intro H.
  assert (E : pad_recs l n = if (length l <? n)%nat then l ++ repeat (empty_rec []) (n - length l) else l)
    by (destruct l; reflexivity).
  rewrite E. destruct (length l <? n)%nat; [|assumption].
  apply Forall_app. split; [assumption|]. apply Forall_forall. intros x I.
  apply repeat_spec in I. subst. apply empty_rec_wf.
Qed.

Definition clu_inv (st : list rrec * nat * list Z) : Prop :=
  let '(recs, _, h) := st in recs_wf recs /\ length h = 128%nat.

Lemma clu_step_inv st l : clu_inv st -> clu_inv (clu_step st l).
Proof.
  destruct st as [[recs active] h]. unfold clu_inv, clu_step. intros (R & Hh).
  destruct l as [|c t]; [auto|]. destruct (isspace c); [auto|].
  split; [|rewrite count_line_length; assumption].
  apply update_nth_Forall; [|apply pad_recs_wf; assumption].
  intros x Hx. apply feed_line_wf. exact Hx.
Qed.

Lemma read_clu_wf lines m : read_clu lines = Some m -> recs_wf (m_recs m) /\ length (m_freq m) = 128%nat.
Proof.
  unfold read_clu. intro H.
  assert (I : forall ls st, clu_inv st -> clu_inv (fold_left clu_step ls st)).
  { induction ls as [|l ls IH]; intros st Hs; simpl; [assumption|]. apply IH, clu_step_inv, Hs. }
  specialize (I (tl lines) ([], 0%nat, repeat 0 128)).
  assert (I0 : clu_inv ([], 0%nat, repeat 0 128)) by (simpl; split; [constructor|first [apply repeat_length | reflexivity]]).
  specialize (I I0). destruct (fold_left clu_step (tl lines) _) as [[recs a] h].
  inversion H; subst; simpl in *. exact I.
Qed.

(* MSF *)
Lemma msf_header_wf : forall lines recs recs' body, recs_wf recs -> msf_header lines recs = (recs', body) -> recs_wf recs'.
Proof.
  induction lines as [|l rest IH]; intros recs recs' body W H; simpl in H.
  - inversion H; subst; assumption.
  - destruct (has l _); [inversion H; subst; assumption|].
    destruct (after _ l) as [p|]; [|eapply IH; eauto].
    destruct (has l _); [|eapply IH; eauto].
    eapply IH; [|exact H]. apply Forall_app. split; [assumption|]. constructor; [apply empty_rec_wf|constructor].
Qed.

Definition msf_inv (st : option (list rrec * nat * list Z)) : Prop :=
  match st with None => True | Some (recs, _, h) => recs_wf recs /\ length h = 128%nat end.

Lemma msf_step_inv st l : msf_inv st -> msf_inv (msf_step st l).
Proof.
  destruct st as [[[recs active] h]|]; simpl; [|auto]. intros (R & Hh).
  destruct l as [|c t]; [simpl; auto|]. destruct (isspace c); [simpl; auto|].
  destruct (length recs <=? active)%nat; [exact I|]. simpl.
  split; [|rewrite count_line_length; assumption].
  apply update_nth_Forall; [|assumption]. intros x Hx. apply feed_line_wf. exact Hx.
Qed.

Lemma read_msf_wf lines m : read_msf lines = Some m -> recs_wf (m_recs m) /\ length (m_freq m) = 128%nat.
Proof.
  unfold read_msf. intro H. destruct (msf_header lines []) as [recs body] eqn:Hh.
  pose proof (msf_header_wf lines [] recs body (Forall_nil _) Hh) as W.
  assert (I : forall ls st, msf_inv st -> msf_inv (fold_left msf_step ls st)).
  { induction ls as [|l ls IH]; intros st Hs; simpl; [assumption|]. apply IH, msf_step_inv, Hs. }
  specialize (I body (Some (recs, 0%nat, repeat 0 128))).
  assert (I0 : msf_inv (Some (recs, 0%nat, repeat 0 128))) by (simpl; split; [assumption|first [apply repeat_length | reflexivity]]).
  specialize (I I0). destruct (fold_left msf_step body _) as [[[r a] h]|]; [|discriminate].
  inversion H; subst; simpl in *. exact I.
Qed.

Lemma read_one_wf bytes m : read_one bytes = Some (Some m) -> recs_wf (m_recs m) /\ length (m_freq m) = 128%nat.
Proof.
  unfold read_one. destruct (read_lines bytes) as [|l0 ls]; [discriminate|].
  destruct (length l0 =? 1)%nat; [discriminate|].
  set (lines := l0 :: ls).
  destruct (detect_format lines =? FORMAT_FA).
  { destruct (read_fasta lines) eqn:E; simpl; intro H; inversion H; subst. eapply read_fasta_wf; eauto. }
  destruct (detect_format lines =? FORMAT_MSF).
  { destruct (read_msf lines) eqn:E; simpl; intro H; inversion H; subst. eapply read_msf_wf; eauto. }
  destruct (detect_format lines =? FORMAT_CLU).
  { destruct (read_clu lines) eqn:E; simpl; intro H; inversion H; subst. eapply read_clu_wf; eauto. }
  discriminate.
Qed.

Definition acc_inv (acc : option (option in_msa)) : Prop :=
  match acc with
  | Some (Some m) => (2 <= length (i_recs m))%nat /\ recs_wf (i_recs m)
  | _ => True
  end.

Lemma read_step_inv acc bytes : acc_inv acc -> acc_inv (read_step acc bytes).
Proof.
  destruct acc as [cur|]; simpl; [|auto]. intro H.
  destruct (read_one bytes) as [[m|]|] eqn:E; [|exact H|exact I].
  destruct (read_one_wf _ _ E) as (W & _).
  destruct cur as [d|].
  - destruct (negb (i_biotype d =? ALN_BIOTYPE_UNDEF) && negb (i_biotype d =? _)); [exact I|].
    destruct (length (i_recs d ++ m_recs m) <? 2)%nat eqn:L; [exact I|]. simpl.
    apply Nat.ltb_ge in L. split; [exact L|]. apply Forall_app. split; [apply H|exact W].
  - destruct (length (m_recs m) <? 2)%nat eqn:L; [exact I|]. simpl.
    apply Nat.ltb_ge in L. split; [exact L|exact W].
Qed.

(* kalign_read_input over any list of byte strings: an error, nothing, or at least two records
   each of which has len+1 gap counters *)
Theorem read_inputs_outcome : forall files,
  match read_inputs files with
  | RErr => True
  | RNone => True
  | ROk m => (2 <= length (i_recs m))%nat /\ recs_wf (i_recs m)
  end.
Proof.
  intro files. unfold read_inputs.
  assert (I : forall fs acc, acc_inv acc -> acc_inv (fold_left read_step fs acc)).
  { induction fs as [|f fs IH]; intros acc H; simpl; [assumption|]. apply IH, read_step_inv, H. }
  specialize (I files (Some None) Logic.I).
  destruct (fold_left read_step files (Some None)) as [[m|]|]; auto.
Qed.

(* ---- 3. the expanded path fits its buffer ----------------------------------------------------------- *)
(* path / tmp_path have len_a + len_b + 2 cells; the expansion writes path[0], one cell per op and
   the terminator *)
Lemma cnt_total : forall ks, (cnt is_M ks + cnt is_GA ks + cnt is_GB ks + cnt is_NONE ks = length ks)%nat.
Proof.
  unfold cnt. induction ks as [|k ks IH]; simpl; [reflexivity|].
  destruct k; simpl; lia.
Qed.

Theorem expanded_path_fits : forall lb path ops,
  kpath_wfb lb path = true -> add_gap_info lb path = Some ops ->
  (length ops + 2 <= length path + Z.to_nat lb + 2)%nat /\ (1 <= length ops)%nat.
Proof.
  intros lb path ops W H. destruct (expand_path_counts lb path W) as (ops' & H' & F1 & F2 & F3).
  rewrite H in H'. inversion H'; subst ops'.
  pose proof (cnt_total (map op_kind ops)) as T. rewrite map_length in T.
  split; [lia|].
  unfold kpath_wfb in W. destruct path as [|p1 ps]; [discriminate|]. simpl in F1. lia.
Qed.

(* ---- 4. the Clustal/MSF line buffer --------------------------------------------------------------- *)
(* line_length = max(256, max_name_len + 5 + 60 + 2) bytes per out_line; a sequence line is the
   name, blanks up to column max_name_len+5, at most 60 columns and the terminating NUL *)
Lemma cname_le_max rows nr : In nr rows -> (length (cname (fst nr)) <= max_name_len rows)%nat.
Proof.
  unfold max_name_len. induction rows as [|x rows IH]; simpl; [tauto|].
  intros [->|I]; [lia|]. specialize (IH I). lia.
Qed.

Theorem block_line_fits : forall rows nr chunk,
  In nr rows -> (length chunk <= 60)%nat ->
  (length (block_line (max_name_len rows) (fst nr) chunk) + 1 <= Nat.max 256 (max_name_len rows + 5 + 60 + 2))%nat.
Proof.
  intros rows nr chunk I Hc. pose proof (cname_le_max rows nr I) as Hn.
  unfold block_line. rewrite !app_length, repeat_length. lia.
Qed.

Lemma max_name_len_le_256 rows : (max_name_len rows <= 256)%nat.
Proof.
  unfold max_name_len. induction rows as [|x rows IH]; simpl; [lia|].
  assert (length (cname (fst x)) <= 256)%nat by (unfold cname; rewrite firstn_length; lia). lia.
Qed.

(* ---- 5. exit status ---------------------------------------------------------------------------------- *)
Theorem cli_success_means_written : forall a reads run write,
  cli_main a reads run write = Exit0_written ->
  Forall (fun s => s = SOk) reads /\ run = SOk /\ write = SOk /\ (1 <= a_nthreads a) /\ a_ninputs a <> 0%nat.
Proof.
  intros a reads run write. unfold cli_main.
  destruct (a_version a); [discriminate|]. destruct (a_showw a); [discriminate|]. destruct (a_help a); [discriminate|].
  destruct (a_nthreads a <? 1) eqn:T; [discriminate|]. destruct (a_ninputs a =? 0)%nat eqn:N; [discriminate|].
  destruct (negb (format_string_ok (a_format a))); [discriminate|].
  destruct (set_aln_type (a_type a)); [|discriminate].
  unfold run_kalign_status. destruct (forallb _ reads) eqn:R; [|discriminate].
  destruct run; [|discriminate]. destruct write; [|discriminate]. intros _.
  apply Z.ltb_ge in T. apply Nat.eqb_neq in N. repeat split; auto; try lia.
  rewrite forallb_forall in R. apply Forall_forall. intros s Hs. specialize (R s Hs). destruct s; [reflexivity|discriminate].
Qed.

Theorem cli_failure_is_reported : forall a reads run write,
  a_version a = false -> a_showw a = false -> a_help a = false -> a_ninputs a <> 0%nat ->
  (a_nthreads a < 1 \/ format_string_ok (a_format a) = false \/ set_aln_type (a_type a) = None \/
   In SFail reads \/ run = SFail \/ write = SFail) ->
  exit_code (cli_main a reads run write) = 1.
Proof.
  intros a reads run write V W H N F. unfold cli_main. rewrite V, W, H.
  destruct (a_nthreads a <? 1) eqn:T; [reflexivity|]. apply Z.ltb_ge in T.
  apply Nat.eqb_neq in N. rewrite N.
  destruct (format_string_ok (a_format a)) eqn:Fm; simpl; [|reflexivity].
  destruct (set_aln_type (a_type a)) eqn:Ty; [|reflexivity].
  unfold run_kalign_status.
  destruct (forallb _ reads) eqn:R; [|reflexivity].
  destruct F as [F|[F|[F|[F|[F|F]]]]]; try lia; try discriminate.
  - rewrite forallb_forall in R. specialize (R _ F). discriminate.
  - subst run. reflexivity.
  - subst write. destruct run; reflexivity.
Qed.
