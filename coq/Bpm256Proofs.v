(* C11, the 256-bit routine bpm_256 (AVX2): four 64-bit lanes with Yee's carry trick for the addition.
   Part A: the bit-level Myers/Hyyro step at ANY word width w, started from an all-ones VP (as bpm_256 does),
           returns the column recurrence for patterns of 1..w symbols (generalises Section Text of BpmBitsProofs).
   Part B: the lane operations of Bpm.v (N modulo 2^64 per lane: and/or/xor/not, add256, shl256, testz, the
           match-mask construction) ARE the 256-bit word operations.
   Part C: bpm256 t p = sed t p. *)
From Coq Require Import ZArith NArith List Bool Lia.
From KV Require Import Base Bpm BpmProofs BpmBits BpmBitsProofs.
Import ListNotations.
Local Open Scope Z_scope.

(* ---- Part A ------------------------------------------------------------------------------------------------------- *)
Definition eq_word_w (w : nat) (c : Z) (p : list Z) : word :=
  map (fun i => match nth_error p i with Some x => x =? c | None => false end) (seq 0 w).

Definition bpm_step_w (w : nat) (p : list Z) (m : nat) (st : word * word * Z * Z) (c : Z) : word * word * Z * Z :=
  let '(VP, VN, diff, k) := st in
  let X := wor (eq_word_w w c p) VN in
  let D0 := wor (wxor (wadd_c VP (wand X VP) false) VP) X in
  let HN := wand VP D0 in
  let HP := wor VN (wnotb (wor VP D0)) in
  let X1 := wshl_in HP false in
  let VN' := wand X1 D0 in
  let VP' := wor (wshl_in HN false) (wnotb (wor X1 D0)) in
  let diff' := diff + b2z (wbit HP (m - 1)) - b2z (wbit HN (m - 1)) in
  (VP', VN', diff', if diff' <? k then diff' else k).

Definition bpmw_bits (w : nat) (t p : list Z) : Z :=
  let m := length p in
  let '(_, _, _, k) := fold_left (bpm_step_w w p m) t (repeat true w, repeat false w, Z.of_nat m, Z.of_nat m) in
  k.

Lemma eq_word_w_firstn w c p : (length p <= w)%nat -> firstn (length p) (eq_word_w w c p) = map (fun x => x =? c) p.
Proof. intro H. unfold eq_word_w. rewrite firstn_map, firstn_seq0 by exact H. apply eq_rows. Qed.

Section TextW.
Variable w : nat.
Variable p : list Z.
Let m := length p.
Hypothesis Hm : (1 <= m <= w)%nat.

Definition InvW (st : word * word * Z * Z) (cb : list Z * Z) : Prop :=
  let '(VP, VN, diff, k) := st in
  let '(col, best) := cb in
  length VP = w /\ length VN = w /\ valid VP VN /\
  col = vals 0 (firstn m VP) (firstn m VN) /\ diff = nth (m - 1) col 0 /\ k = best.

Lemma bpm_step_w_is_word_step c VP VN diff k :
  bpm_step_w w p m (VP, VN, diff, k) c =
  let r := word_step (eq_word_w w c p) VP VN false false false in
  let diff' := diff + b2z (wbit (fst (snd r)) (m - 1)) - b2z (wbit (snd (snd r)) (m - 1)) in
  (fst (fst r), snd (fst r), diff', if diff' <? k then diff' else k).
Proof. reflexivity. Qed.

Lemma step_inv_w : forall st cb c, InvW st cb ->
  InvW (bpm_step_w w p m st c)
       (let col' := next_col c p (fst cb) 0 0 in (col', Z.min (snd cb) (last col' 0))).
Proof.
  intros [[[VP VN] diff] k] [col best] c (L1 & L2 & V & Hc & Hd & Hk).
  rewrite bpm_step_w_is_word_step.
  assert (LE : length (eq_word_w w c p) = w) by (unfold eq_word_w; rewrite map_length, seq_length; reflexivity).
  rewrite (word_step_serial (eq_word_w w c p) VP VN false false) by (rewrite ?LE; assumption).
  set (r := serial (eq_word_w w c p) VP VN false false).
  destruct (serial_length (eq_word_w w c p) VP VN false false) as (A1 & A2 & A3 & A4); try (rewrite LE; assumption).
  fold r in A1, A2, A3, A4. rewrite LE in A1, A2, A3, A4.
  pose proof (serial_valid (eq_word_w w c p) VP VN false false V eq_refl) as V'. fold r in V'.
  pose proof (serial_firstn m (eq_word_w w c p) VP VN false false) as F. cbn zeta in F. fold r in F.
  assert (mW : (m <= w)%nat) by lia.
  unfold m in F at 1. rewrite (eq_word_w_firstn w c p mW) in F. fold m in F.
  assert (Lp1 : length (firstn m VP) = length p) by (rewrite firstn_length; fold m; lia).
  assert (Lp2 : length (firstn m VN) = length p) by (rewrite firstn_length; fold m; lia).
  pose proof (serial_next_col c p (firstn m VP) (firstn m VN) false false 0 Lp1 Lp2 (valid_firstn m VP VN V) eq_refl) as S.
  assert (Z0 : 0 + dv false false = 0) by reflexivity.
  cbn zeta in S. rewrite F in S. cbn [fst snd] in S. rewrite !Z0 in S. rewrite <- Hc in S.
  destruct S as (S1 & S2 & S3 & S4 & S5 & S6 & S7).
  assert (Lnew : length (next_col c p col 0 0) = m).
  { rewrite S1. rewrite vals_length; [rewrite S4; reflexivity|rewrite S5, S4; reflexivity]. }
  assert (Lcol : length col = m) by (rewrite Hc; rewrite vals_length; [exact Lp1|rewrite Lp2, Lp1; reflexivity]).
  pose proof (f_equal (fun l => nth (m - 1) l 0) S3) as E. cbn beta in E.
  rewrite nth_zipdv in E by (rewrite ?S6, ?S7; fold m; lia).
  rewrite nth_zipsub in E by (rewrite ?Lnew, ?Lcol; lia).
  rewrite !nth_firstn_lt in E by lia.
  unfold dv in E.
  set (d' := diff + b2z (wbit (fst (snd r)) (m - 1)) - b2z (wbit (snd (snd r)) (m - 1))).
  assert (D' : d' = nth (m - 1) (next_col c p col 0 0) 0) by (unfold d', wbit; lia).
  cbn [fst snd]. unfold InvW. split; [exact A1|]. split; [exact A2|]. split; [exact V'|].
  split; [exact S1|]. split; [exact D'|].
  rewrite Hk, last_nth, Lnew, <- D'. subst d'.
  match goal with |- (if ?x <? _ then _ else _) = _ => destruct (Z.ltb_spec x best) as [Hlt|Hge] end.
  - rewrite Z.min_r; [reflexivity|apply Z.lt_le_incl; exact Hlt].
  - rewrite Z.min_l; [reflexivity|exact Hge].
Qed.

Lemma firstn_repeat {X} (x : X) : forall k n, (k <= n)%nat -> firstn k (repeat x n) = repeat x k.
Proof. induction k as [|k IH]; intros n H; [reflexivity|]. destruct n; [lia|]. cbn [repeat firstn]. f_equal. apply IH. lia. Qed.

Lemma init_inv_w : InvW (repeat true w, repeat false w, Z.of_nat m, Z.of_nat m)
                        (map (fun i => Z.of_nat i + 1) (seq 0 m), Z.of_nat m).
Proof.
  unfold InvW. assert (mW : (m <= w)%nat) by lia.
  split; [|split; [|split; [|split; [|split; [|reflexivity]]]]].
  - apply repeat_length.
  - apply repeat_length.
  - clear. induction w as [|k IH]; [exact I|]. cbn [repeat valid]. split; [reflexivity|exact IH].
  - rewrite !firstn_repeat by exact mW.
    assert (G : forall k a, vals a (repeat true k) (repeat false k) = map (fun i => a + Z.of_nat i + 1) (seq 0 k)).
    { induction k as [|k IH]; intro a; [reflexivity|]. cbn [repeat vals seq map]. unfold dv at 1. cbn [b2z].
      f_equal; [lia|]. rewrite IH. rewrite <- seq_shift, map_map. apply map_ext. intro i. unfold dv. cbn [b2z]. lia. }
    rewrite G. apply map_ext. intro i. lia.
  - rewrite (nth_indep _ 0 (Z.of_nat (m - 1) + 1)) by (rewrite map_length, seq_length; lia).
    rewrite (map_nth (fun i => Z.of_nat i + 1)). rewrite seq_nth by lia. lia.
Qed.

Theorem bpmw_bits_is_sed : forall t, bpmw_bits w t p = sed t p.
Proof.
  intro t. unfold bpmw_bits, sed. fold m.
  assert (G : forall t st cb, InvW st cb ->
    InvW (fold_left (bpm_step_w w p m) t st)
         (fold_left (fun st c => let '(col, best) := st in let col' := next_col c p col 0 0 in (col', Z.min best (last col' 0))) t cb)).
  { induction t0 as [|c t0 IH]; intros st cb H; [exact H|]. cbn [fold_left]. apply IH.
    destruct cb as [col best]. apply (step_inv_w st (col, best) c H). }
  specialize (G t _ _ init_inv_w).
  destruct (fold_left (bpm_step_w w p m) t _) as [[[VP VN] diff] k].
  destruct (fold_left _ t (map _ _, Z.of_nat m)) as [col best].
  destruct G as (_ & _ & _ & _ & _ & E). exact E.
Qed.
End TextW.

(* ---- Part B: lanes are words -------------------------------------------------------------------------------------- *)
Local Open Scope N_scope.

Fixpoint nbits (k : nat) (x : N) : word :=
  match k with O => [] | S k' => N.odd x :: nbits k' (N.div2 x) end.
Definition lbits (l : lanes) : word := concat (map (nbits 64) l).
Definition lanes_ok (l : lanes) : Prop := length l = 4%nat /\ Forall (fun x => x < w64) l.

Lemma nbits_length k : forall x, length (nbits k x) = k.
Proof. induction k as [|k IH]; intro x; [reflexivity|]. cbn [nbits length]. rewrite IH. reflexivity. Qed.

Lemma odd_land a b : N.odd (N.land a b) = N.odd a && N.odd b.
Proof. rewrite <- !N.bit0_odd. apply N.land_spec. Qed.
Lemma odd_lor a b : N.odd (N.lor a b) = N.odd a || N.odd b.
Proof. rewrite <- !N.bit0_odd. apply N.lor_spec. Qed.
Lemma odd_lxor a b : N.odd (N.lxor a b) = xorb (N.odd a) (N.odd b).
Proof. rewrite <- !N.bit0_odd. apply N.lxor_spec. Qed.
Lemma div2_land a b : N.div2 (N.land a b) = N.land (N.div2 a) (N.div2 b).
Proof. rewrite !N.div2_spec. apply N.shiftr_land. Qed.
Lemma div2_lor a b : N.div2 (N.lor a b) = N.lor (N.div2 a) (N.div2 b).
Proof. rewrite !N.div2_spec. apply N.shiftr_lor. Qed.
Lemma div2_lxor a b : N.div2 (N.lxor a b) = N.lxor (N.div2 a) (N.div2 b).
Proof. rewrite !N.div2_spec. apply N.shiftr_lxor. Qed.

Lemma nbits_land k : forall a b, nbits k (N.land a b) = wand (nbits k a) (nbits k b).
Proof. induction k as [|k IH]; intros a b; [reflexivity|]. cbn [nbits]. unfold wand in *. cbn [wzip]. rewrite odd_land, div2_land, IH. reflexivity. Qed.
Lemma nbits_lor k : forall a b, nbits k (N.lor a b) = wor (nbits k a) (nbits k b).
Proof. induction k as [|k IH]; intros a b; [reflexivity|]. cbn [nbits]. unfold wor in *. cbn [wzip]. rewrite odd_lor, div2_lor, IH. reflexivity. Qed.
Lemma nbits_lxor k : forall a b, nbits k (N.lxor a b) = wxor (nbits k a) (nbits k b).
Proof. induction k as [|k IH]; intros a b; [reflexivity|]. cbn [nbits]. unfold wxor in *. cbn [wzip]. rewrite odd_lxor, div2_lxor, IH. reflexivity. Qed.

Lemma wzip_app f : forall a1 b1 a2 b2, length a1 = length b1 ->
  wzip f (a1 ++ a2) (b1 ++ b2) = wzip f a1 b1 ++ wzip f a2 b2.
Proof.
  induction a1 as [|x a1 IH]; intros b1 a2 b2 H; destruct b1 as [|y b1]; try discriminate; [reflexivity|].
  cbn [app wzip]. f_equal. apply IH. cbn [length] in H. lia.
Qed.

Lemma lbits_lmap2 (f : N -> N -> N) (g : bool -> bool -> bool) :
  (forall a b, nbits 64 (f a b) = wzip g (nbits 64 a) (nbits 64 b)) ->
  forall A B, length A = length B -> lbits (lmap2 f A B) = wzip g (lbits A) (lbits B).
Proof.
  intros H. unfold lbits, lmap2. induction A as [|a A IH]; intros B L; destruct B as [|b B]; try discriminate; [reflexivity|].
  cbn [combine map concat fst snd]. rewrite wzip_app by (rewrite !nbits_length; reflexivity). rewrite H. f_equal. apply IH. cbn [length] in L. lia.
Qed.

Lemma lbits_and A B : length A = length B -> lbits (l_and A B) = wand (lbits A) (lbits B).
Proof. apply lbits_lmap2. intros; apply nbits_land. Qed.
Lemma lbits_or A B : length A = length B -> lbits (l_or A B) = wor (lbits A) (lbits B).
Proof. apply lbits_lmap2. intros; apply nbits_lor. Qed.
Lemma lbits_xor A B : length A = length B -> lbits (l_xor A B) = wxor (lbits A) (lbits B).
Proof. apply lbits_lmap2. intros; apply nbits_lxor. Qed.

Lemma nbits_ones64 : nbits 64 ones64 = repeat true 64.
Proof. vm_compute. reflexivity. Qed.
Lemma wxor_ones : forall w, wxor w (repeat true (length w)) = wnotb w.
Proof. induction w as [|x w IH]; [reflexivity|]. cbn [length repeat]. unfold wxor, wnotb in *. cbn [wzip map]. rewrite IH. destruct x; reflexivity. Qed.
Lemma lbits_not A : lbits (l_not A) = wnotb (lbits A).
Proof.
  unfold lbits, l_not, wnot. induction A as [|a A IH]; [reflexivity|]. cbn [map concat]. rewrite IH.
  unfold wnotb. rewrite map_app. f_equal. rewrite nbits_lxor, nbits_ones64.
  rewrite <- (nbits_length 64 a) at 2. apply wxor_ones.
Qed.

Lemma lbits_length A : length (lbits A) = (64 * length A)%nat.
Proof. unfold lbits. induction A as [|a A IH]; [reflexivity|]. cbn [map concat length]. rewrite app_length, nbits_length, IH. lia. Qed.

(* ---- addition: the ripple-carry adder on the bits of numbers ----------------------------------------------------- *)
Require Import ZifyBool ZifyN.
Ltac Zify.zify_post_hook ::= Z.div_mod_to_equations.

Definition b2n (b : bool) : N := if b then 1 else 0.

Lemma odd_mod2 x : b2n (N.odd x) = x mod 2.
Proof. rewrite <- N.bit0_odd. unfold b2n. pose proof (N.bit0_mod x) as H. destruct (N.testbit x 0); cbn in H; exact H. Qed.

Lemma full_adder x y c :
  N.odd (x + y + b2n c) = xorb (xorb (N.odd x) (N.odd y)) c /\
  N.div2 (x + y + b2n c) = N.div2 x + N.div2 y + b2n (maj (N.odd x) (N.odd y) c).
Proof.
  pose proof (odd_mod2 x) as Hx. pose proof (odd_mod2 y) as Hy. pose proof (odd_mod2 (x + y + b2n c)) as Hs.
  rewrite !N.div2_div.
  destruct (N.odd (x + y + b2n c)), (N.odd x), (N.odd y), c; cbn [b2n xorb maj andb orb] in *; split; try reflexivity; lia.
Qed.

Fixpoint carry_out (a b : word) (c : bool) : bool :=
  match a, b with
  | x :: a', y :: b' => carry_out a' b' (maj x y c)
  | _, _ => c
  end.

Lemma wadd_app : forall a1 b1 a2 b2 c, length a1 = length b1 ->
  wadd_c (a1 ++ a2) (b1 ++ b2) c = wadd_c a1 b1 c ++ wadd_c a2 b2 (carry_out a1 b1 c).
Proof.
  induction a1 as [|x a1 IH]; intros b1 a2 b2 c H; destruct b1 as [|y b1]; try discriminate; [reflexivity|].
  cbn [app wadd_c carry_out]. f_equal. apply IH. cbn [length] in H. lia.
Qed.

Lemma wadd_nbits k : forall x y c, wadd_c (nbits k x) (nbits k y) c = nbits k (x + y + b2n c).
Proof.
  induction k as [|k IH]; intros x y c; [reflexivity|]. cbn [nbits wadd_c].
  destruct (full_adder x y c) as [E1 E2]. rewrite E1, E2, IH. reflexivity.
Qed.

Lemma carry_nbits k : forall x y c, x < 2 ^ N.of_nat k -> y < 2 ^ N.of_nat k ->
  carry_out (nbits k x) (nbits k y) c = (2 ^ N.of_nat k <=? x + y + b2n c).
Proof.
  induction k as [|k IH]; intros x y c Hx Hy.
  - cbn [nbits carry_out]. change (2 ^ N.of_nat 0) with 1 in *. destruct c; cbn [b2n]; destruct (N.leb_spec 1 (x + y + 1)), (N.leb_spec 1 (x + y + 0)); try reflexivity; lia.
  - cbn [nbits carry_out].
    assert (P : 2 ^ N.of_nat (S k) = 2 * 2 ^ N.of_nat k) by (rewrite Nat2N.inj_succ, N.pow_succ_r'; reflexivity).
    rewrite P in *. rewrite IH by (rewrite N.div2_div; lia).
    destruct (full_adder x y c) as [_ E2]. rewrite <- E2. rewrite N.div2_div.
    destruct (N.leb_spec (2 ^ N.of_nat k) ((x + y + b2n c) / 2)), (N.leb_spec (2 * 2 ^ N.of_nat k) (x + y + b2n c)); try reflexivity; lia.
Qed.

Lemma nbits_mod k : forall x, nbits k (x mod 2 ^ N.of_nat k) = nbits k x.
Proof.
  induction k as [|k IH]; intro x; [reflexivity|]. cbn [nbits].
  assert (P : 2 ^ N.of_nat (S k) = 2 * 2 ^ N.of_nat k) by (rewrite Nat2N.inj_succ, N.pow_succ_r'; reflexivity).
  rewrite P. assert (Q : 2 ^ N.of_nat k <> 0) by (apply N.pow_nonzero; discriminate).
  rewrite N.mod_mul_r by (try discriminate; exact Q).
  set (t := (x / 2) mod 2 ^ N.of_nat k).
  f_equal.
  - pose proof (odd_mod2 x). pose proof (odd_mod2 (x mod 2 + 2 * t)).
    destruct (N.odd x), (N.odd (x mod 2 + 2 * t)); cbn [b2n] in *; try reflexivity; lia.
  - rewrite <- (IH (N.div2 x)). f_equal. rewrite !N.div2_div. fold t. lia.
Qed.

(* lanes chained by their carries *)
Fixpoint ripple_lanes (A B : lanes) (c : bool) : lanes :=
  match A, B with
  | a :: A', b :: B' => (a + b + b2n c) mod w64 :: ripple_lanes A' B' (w64 <=? a + b + b2n c)
  | _, _ => []
  end.

Lemma w64_pow : w64 = 2 ^ N.of_nat 64. Proof. reflexivity. Qed.

Lemma wadd_lbits : forall A B c, Forall (fun x => x < w64) A -> Forall (fun x => x < w64) B ->
  wadd_c (lbits A) (lbits B) c = lbits (ripple_lanes A B c).
Proof.
  induction A as [|a A IH]; intros B c HA HB; destruct B as [|b B]; cbn [ripple_lanes]; unfold lbits; cbn [map concat].
  - reflexivity.
  - reflexivity.
  - match goal with |- wadd_c ?X [] c = [] => destruct X; reflexivity end.
  - inversion HA as [|? ? Ha HA']; subst. inversion HB as [|? ? Hb HB']; subst.
    rewrite wadd_app by (rewrite !nbits_length; reflexivity).
    rewrite wadd_nbits, carry_nbits by (rewrite <- w64_pow; assumption). rewrite <- w64_pow.
    rewrite w64_pow at 2. rewrite nbits_mod. f_equal. apply (IH B _ HA' HB').
Qed.

(* ---- add256: Yee's carry trick is the 256-bit addition ---------------------------------------------------------- *)
Lemma land_small_pow a n : a < 2 ^ n -> N.land a (2 ^ n) = 0.
Proof.
  intros H. apply N.bits_inj. intro k. rewrite N.land_spec, N.pow2_bits_eqb, N.bits_0.
  destruct (N.eqb_spec n k) as [<-|Hk]; [|apply andb_false_r].
  rewrite <- (N.mod_small a (2 ^ n) H). rewrite N.mod_pow2_bits_high by lia. reflexivity.
Qed.

Lemma xor_high a : a < w64 -> N.lxor a high_bit = (a + high_bit) mod w64.
Proof.
  intros H. change high_bit with (2 ^ 63). destruct (N.lt_ge_cases a (2 ^ 63)) as [L|G].
  - rewrite <- N.add_nocarry_lxor by (apply land_small_pow; exact L). rewrite N.mod_small; [reflexivity|]. unfold w64 in *. lia.
  - set (a' := a - 2 ^ 63). assert (Ha : a = a' + 2 ^ 63) by (unfold a'; lia).
    assert (L : a' < 2 ^ 63) by (unfold a', w64 in *; lia).
    rewrite Ha at 1. rewrite (N.add_nocarry_lxor a' (2 ^ 63)) by (apply land_small_pow; exact L).
    rewrite N.lxor_assoc, N.lxor_nilpotent, N.lxor_0_r. unfold w64 in *. lia.
Qed.

Lemma lane_facts a b : a < w64 -> b < w64 ->
  let A' := N.lxor a high_bit in let s := wadd A' b in
  ((sgn64 s <? sgn64 A')%Z = (w64 <=? a + b)) /\
  (N.eqb s 9223372036854775807 = ((a + b) mod w64 =? w64 - 1)) /\
  (forall cin, wadd s (high_bit + b2n cin) = (a + b + b2n cin) mod w64).
Proof.
  intros Ha Hb. cbv zeta. rewrite (xor_high a Ha). unfold wadd, sgn64, w64, high_bit in *.
  split; [|split].
  - destruct (N.leb_spec 18446744073709551616 (a + b));
    destruct (N.ltb_spec (((a + 9223372036854775808) mod 18446744073709551616 + b) mod 18446744073709551616) 9223372036854775808);
    destruct (N.ltb_spec ((a + 9223372036854775808) mod 18446744073709551616) 9223372036854775808);
    match goal with |- (?x <? ?y)%Z = _ => destruct (Z.ltb_spec x y) end; try reflexivity; lia.
  - destruct (N.eqb_spec (((a + 9223372036854775808) mod 18446744073709551616 + b) mod 18446744073709551616) 9223372036854775807);
    destruct (N.eqb_spec ((a + b) mod 18446744073709551616) (18446744073709551616 - 1)); try reflexivity; lia.
  - intros cin. destruct cin; cbn [b2n]; lia.
Qed.

Lemma carry_gp a b cin : a < w64 -> b < w64 ->
  (w64 <=? a + b + b2n cin) = (w64 <=? a + b) || (((a + b) mod w64 =? w64 - 1) && cin).
Proof.
  intros Ha Hb. unfold w64 in *.
  destruct (N.leb_spec 18446744073709551616 (a + b + b2n cin)), (N.leb_spec 18446744073709551616 (a + b)),
           (N.eqb_spec ((a + b) mod 18446744073709551616) (18446744073709551616 - 1)), cin; cbn [b2n orb andb] in *; try reflexivity; lia.
Qed.

Lemma gp_exclusive a b : a < w64 -> b < w64 -> (w64 <=? a + b) && ((a + b) mod w64 =? w64 - 1) = false.
Proof.
  intros Ha Hb. unfold w64 in *.
  destruct (N.leb_spec 18446744073709551616 (a + b)), (N.eqb_spec ((a + b) mod 18446744073709551616) (18446744073709551616 - 1)); cbn [andb]; try reflexivity; lia.
Qed.

Definition tonum (bits : list N) : N := fold_right (fun b acc => b + 2 * acc) 0 bits.

Lemma yee_trick (g0 g1 g2 g3 p0 p1 p2 p3 : bool) :
  g0 && p0 = false -> g1 && p1 = false -> g2 && p2 = false -> g3 && p3 = false ->
  let c := tonum [b2n g0; b2n g1; b2n g2; b2n g3] in
  let m := tonum [b2n p0; b2n p1; b2n p2; b2n p3] in
  let m2 := N.land (N.lxor m (m + 2 * c)) 15 in
  N.testbit m2 0 = false /\ N.testbit m2 1 = g0 /\ N.testbit m2 2 = g1 || (p1 && g0) /\
  N.testbit m2 3 = g2 || (p2 && (g1 || (p1 && g0))).
Proof.
  destruct g0, g1, g2, g3, p0, p1, p2, p3; cbn [andb]; intros; try discriminate; vm_compute; repeat split; reflexivity.
Qed.

Lemma add256_ripple a0 a1 a2 a3 b0 b1 b2 b3 :
  a0 < w64 -> a1 < w64 -> a2 < w64 -> a3 < w64 -> b0 < w64 -> b1 < w64 -> b2 < w64 -> b3 < w64 ->
  add256 [a0; a1; a2; a3] [b0; b1; b2; b3] = ripple_lanes [a0; a1; a2; a3] [b0; b1; b2; b3] false.
Proof.
  intros A0 A1 A2 A3 B0 B1 B2 B3.
  destruct (lane_facts a0 b0 A0 B0) as (G0 & P0 & F0). destruct (lane_facts a1 b1 A1 B1) as (G1 & P1 & F1).
  destruct (lane_facts a2 b2 A2 B2) as (G2 & P2 & F2). destruct (lane_facts a3 b3 A3 B3) as (G3 & P3 & F3).
  cbv zeta in *.
  unfold add256. cbn [map combine lmap2 fst snd seq].
  rewrite G0, G1, G2, G3, P0, P1, P2, P3.
  set (g0 := w64 <=? a0 + b0) in *. set (g1 := w64 <=? a1 + b1) in *. set (g2 := w64 <=? a2 + b2) in *. set (g3 := w64 <=? a3 + b3) in *.
  set (p0 := (a0 + b0) mod w64 =? w64 - 1) in *. set (p1 := (a1 + b1) mod w64 =? w64 - 1) in *.
  set (p2 := (a2 + b2) mod w64 =? w64 - 1) in *. set (p3 := (a3 + b3) mod w64 =? w64 - 1) in *.
  change (if g0 then 1 else 0) with (b2n g0). change (if g1 then 1 else 0) with (b2n g1).
  change (if g2 then 1 else 0) with (b2n g2). change (if g3 then 1 else 0) with (b2n g3).
  change (if p0 then 1 else 0) with (b2n p0). change (if p1 then 1 else 0) with (b2n p1).
  change (if p2 then 1 else 0) with (b2n p2). change (if p3 then 1 else 0) with (b2n p3).
  pose proof (yee_trick g0 g1 g2 g3 p0 p1 p2 p3 (gp_exclusive a0 b0 A0 B0) (gp_exclusive a1 b1 A1 B1) (gp_exclusive a2 b2 A2 B2) (gp_exclusive a3 b3 A3 B3)) as Y.
  cbv zeta in Y. unfold tonum in Y.
  destruct Y as (Y0 & Y1 & Y2 & Y3).
  change (N.of_nat 0) with 0. change (N.of_nat 1) with 1. change (N.of_nat 2) with 2. change (N.of_nat 3) with 3.
  rewrite Y0, Y1, Y2, Y3.
  change (if g0 then 1 else 0) with (b2n g0).
  change (high_bit + 0) with (high_bit + b2n false).
  change (if g1 || p1 && g0 then 1 else 0) with (b2n (g1 || p1 && g0)).
  change (if g2 || p2 && (g1 || p1 && g0) then 1 else 0) with (b2n (g2 || p2 && (g1 || p1 && g0))).
  rewrite F0, F1, F2, F3.
  cbn [ripple_lanes]. 
  rewrite (carry_gp a0 b0 false A0 B0). fold g0 p0. rewrite andb_false_r, orb_false_r.
  rewrite (carry_gp a1 b1 g0 A1 B1). fold g1 p1.
  rewrite (carry_gp a2 b2 (g1 || p1 && g0) A2 B2). fold g2 p2.
  reflexivity.
Qed.

(* ---- shl256 by one bit ------------------------------------------------------------------------------------------- *)
Lemma last_cons_default {X} : forall (a : list X) x c, last (x :: a) c = last a x.
Proof.
  induction a as [|y a IH]; intros x c; [reflexivity|].
  change (last (x :: y :: a) c) with (last (y :: a) c). rewrite (IH y c), (IH y x). reflexivity.
Qed.
Lemma wshl_app : forall a b c, wshl_in (a ++ b) c = wshl_in a c ++ wshl_in b (last a c).
Proof.
  induction a as [|x a IH]; intros b c; [reflexivity|]. cbn [app wshl_in]. f_equal. rewrite IH. f_equal.
  rewrite last_cons_default. reflexivity.
Qed.

Lemma wshl_nbits k : forall x c, wshl_in (nbits k x) c = nbits k (2 * x + b2n c).
Proof.
  induction k as [|k IH]; intros x c; [reflexivity|]. cbn [nbits wshl_in]. rewrite IH.
  pose proof (odd_mod2 x) as Hx. pose proof (odd_mod2 (2 * x + b2n c)) as Hs. rewrite !N.div2_div.
  f_equal.
  - destruct c, (N.odd (2 * x + b2n true)), (N.odd (2 * x + b2n false)); cbn [b2n] in *; try reflexivity; lia.
  - f_equal. destruct (N.odd x), c; cbn [b2n] in *; lia.
Qed.

Lemma last_nbits k : forall x d, last (nbits (S k) x) d = N.odd (x / 2 ^ N.of_nat k).
Proof.
  induction k as [|k IH]; intros x d.
  - cbn [nbits last]. change (2 ^ N.of_nat 0) with 1. rewrite N.div_1_r. reflexivity.
  - change (nbits (S (S k)) x) with (N.odd x :: nbits (S k) (N.div2 x)).
    change (last (N.odd x :: nbits (S k) (N.div2 x)) d) with (last (nbits (S k) (N.div2 x)) d).
    rewrite IH. rewrite N.div2_div, N.div_div by (try discriminate; apply N.pow_nonzero; discriminate).
    rewrite Nat2N.inj_succ, N.pow_succ_r'. reflexivity.
Qed.

Lemma lor_even_bit e c : e mod 2 = 0 -> c <= 1 -> N.lor e c = e + c.
Proof.
  intros He Hc. rewrite <- N.lxor_lor.
  - symmetry. apply N.add_nocarry_lxor. destruct (N.eq_dec c 0) as [->|Hn]; [apply N.land_0_r|].
    assert (c = 1) as -> by lia. change 1 with (N.ones 1). rewrite N.land_ones. exact He.
  - destruct (N.eq_dec c 0) as [->|Hn]; [apply N.land_0_r|].
    assert (c = 1) as -> by lia. change 1 with (N.ones 1). rewrite N.land_ones. exact He.
Qed.

Fixpoint shl1_lanes (d : lanes) (cin : N) : lanes :=
  match d with
  | x :: d' => N.lor ((N.shiftl x 1) mod w64) cin :: shl1_lanes d' (N.shiftr x 63)
  | [] => []
  end.

Lemma shl256_one x0 x1 x2 x3 : shl256 [x0; x1; x2; x3] 1 = shl1_lanes [x0; x1; x2; x3] 0.
Proof. unfold shl256. cbn [map lmap2 combine fst snd shl1_lanes]. change (64 - 1) with 63. rewrite !N.lor_0_r. reflexivity. Qed.

Lemma lbits_shl1 : forall d cin, Forall (fun x => x < w64) d ->
  lbits (shl1_lanes d (b2n cin)) = wshl_in (lbits d) cin.
Proof.
  induction d as [|x d IH]; intros cin H; [reflexivity|]. inversion H as [|? ? Hx H']; subst.
  unfold lbits in *. cbn [shl1_lanes map concat]. rewrite wshl_app, wshl_nbits.
  assert (Hs : N.shiftr x 63 = b2n (last (nbits 64 x) cin)).
  { change 64%nat with (S 63). rewrite last_nbits. rewrite N.shiftr_div_pow2. change (N.of_nat 63) with 63.
    assert (x / 2 ^ 63 <= 1) by (unfold w64 in Hx; change (2 ^ 63) with 9223372036854775808; lia).
    pose proof (odd_mod2 (x / 2 ^ 63)). destruct (N.odd (x / 2 ^ 63)); cbn [b2n] in *; lia. }
  rewrite Hs, IH by exact H'. f_equal.
  rewrite N.shiftl_mul_pow2. change (2 ^ 1) with 2.
  rewrite lor_even_bit.
  - rewrite <- (nbits_mod 64 (2 * x + b2n cin)). f_equal. rewrite <- w64_pow. unfold w64. destruct cin; cbn [b2n]; lia.
  - unfold w64. lia.
  - destruct cin; cbn [b2n]; lia.
Qed.

(* ---- single bits: the MASK, testz, and the match masks ------------------------------------------------------------ *)
Lemma nth_nbits k : forall r x, (r < k)%nat -> nth r (nbits k x) false = N.testbit x (N.of_nat r).
Proof.
  induction k as [|k IH]; intros r x H; [lia|]. cbn [nbits]. destruct r as [|r].
  - cbn [nth]. rewrite <- N.bit0_odd. reflexivity.
  - cbn [nth]. rewrite IH by lia. rewrite Nat2N.inj_succ, N.div2_spec, N.shiftr_spec by lia.
    f_equal. lia.
Qed.

Lemma wbit_lbits : forall l i, (i < 64 * length l)%nat ->
  wbit (lbits l) i = N.testbit (nth (i / 64) l 0) (N.of_nat (i mod 64)).
Proof.
  unfold wbit, lbits. induction l as [|x l IH]; intros i H; [cbn [length] in H; lia|].
  cbn [map concat]. destruct (Nat.lt_ge_cases i 64) as [L|G].
  - rewrite app_nth1 by (rewrite nbits_length; exact L). rewrite Nat.div_small, Nat.mod_small by exact L.
    cbn [nth]. apply nth_nbits. exact L.
  - rewrite app_nth2 by (rewrite nbits_length; exact G). rewrite nbits_length.
    rewrite IH by (cbn [length] in H; lia).
    replace i with ((i - 64) + 1 * 64)%nat at 3 4 by lia.
    rewrite Nat.div_add, Nat.mod_add by lia. replace ((i - 64) / 64 + 1)%nat with (S ((i - 64) / 64)) by lia. reflexivity.
Qed.

Lemma land_pow2_zero x r : (N.land x (2 ^ r) =? 0) = negb (N.testbit x r).
Proof.
  destruct (N.testbit x r) eqn:E; cbn [negb].
  - apply N.eqb_neq. intro H. assert (T : N.testbit (N.land x (2 ^ r)) r = true) by (rewrite N.land_spec, E, N.pow2_bits_true; reflexivity).
    rewrite H, N.bits_0 in T. discriminate.
  - apply N.eqb_eq. apply N.bits_inj. intro n. rewrite N.land_spec, N.pow2_bits_eqb, N.bits_0.
    destruct (N.eqb_spec r n) as [<-|]; [rewrite E; reflexivity|apply andb_false_r].
Qed.

(* the MASK of bpm_256 for a pattern of m symbols: only bit m-1 is set (finite check over m = 1..255) *)
Definition mask_of (m : nat) : lanes :=
  let mask0 : lanes := [1; 0; 0; 0] in
  let mask1 := Nat.iter ((m - 1) / 64) (fun x => shl256 x 64) mask0 in
  if ((m - 1) mod 64 =? 0)%nat then mask1 else shl256 mask1 (N.of_nat ((m - 1) mod 64)).
Definition single_bit (i : nat) : lanes :=
  map (fun k => if (k =? i / 64)%nat then 2 ^ N.of_nat (i mod 64) else 0) (seq 0 4).
Definition lanes_eqb (a b : lanes) : bool := forallb (fun xy => N.eqb (fst xy) (snd xy)) (combine a b) && Nat.eqb (length a) (length b).

Lemma mask_check : forallb (fun m => lanes_eqb (mask_of m) (single_bit (m - 1))) (seq 1 255) = true.
Proof. vm_compute. reflexivity. Qed.

Lemma lanes_eqb_eq : forall a b, lanes_eqb a b = true -> a = b.
Proof.
  unfold lanes_eqb. induction a as [|x a IH]; intros [|y b] H; cbn in H; try discriminate; [reflexivity|].
  apply andb_true_iff in H. destruct H as [H L]. apply andb_true_iff in H. destruct H as [E H].
  apply N.eqb_eq in E. subst. f_equal. apply IH. rewrite H, L. reflexivity.
Qed.

Lemma mask_is_single_bit m : (1 <= m <= 255)%nat -> mask_of m = single_bit (m - 1).
Proof.
  intros H. pose proof mask_check as C. rewrite forallb_forall in C. apply lanes_eqb_eq. apply C. apply in_seq. lia.
Qed.

Lemma testz_single_bit x0 x1 x2 x3 i : (i < 256)%nat ->
  l_testz [x0; x1; x2; x3] (single_bit i) = negb (wbit (lbits [x0; x1; x2; x3]) i).
Proof.
  intros H. rewrite wbit_lbits by (cbn [length]; lia).
  unfold l_testz, single_bit. cbn [seq map combine forallb fst snd].
  assert (K : (i / 64 < 4)%nat) by (apply Nat.div_lt_upper_bound; lia).
  destruct (i / 64)%nat as [|[|[|[|k]]]] eqn:E; try lia; cbn [Nat.eqb nth]; rewrite ?N.land_0_r, ?N.eqb_refl, ?andb_true_r, ?andb_true_l; cbn [andb];
    apply land_pow2_zero.
Qed.

(* ---- the match masks: lanes_of_bits sets bit i of the 256-bit word iff p[i] = c ---------------------------------- *)
Lemma testbit_add_pow2 x r n : x < 2 ^ r -> N.testbit (x + 2 ^ r) n = N.testbit x n || (r =? n).
Proof.
  intros H. rewrite (N.add_nocarry_lxor x (2 ^ r)) by (apply land_small_pow; exact H).
  rewrite N.lxor_spec, N.pow2_bits_eqb.
  destruct (N.eqb_spec r n) as [<-|Hn]; [|rewrite xorb_false_r, orb_false_r; reflexivity].
  rewrite <- (N.mod_small x (2 ^ r) H), N.mod_pow2_bits_high by lia. reflexivity.
Qed.

Definition ematch (c : Z) (P : list Z) (j : nat) : bool := match nth_error P j with Some x => (x =? c)%Z | None => false end.

(* after the first i pattern symbols: lane k holds exactly the matches at positions 64k .. min(64k+63, i-1) *)
Definition lob_inv (c : Z) (P : list Z) (i : nat) (acc : lanes) : Prop :=
  length acc = 4%nat /\
  forall k, (k < 4)%nat ->
    nth k acc 0 < 2 ^ N.of_nat (Nat.min 64 (i - 64 * k)) /\
    forall r, (r < 64)%nat -> N.testbit (nth k acc 0) (N.of_nat r) = (64 * k + r <? i)%nat && ematch c P (64 * k + r).

Lemma nth_update_lanes acc i k : length acc = 4%nat -> (k < 4)%nat ->
  nth k (map (fun li : nat * N => if (fst li =? i / 64)%nat then snd li + 2 ^ N.of_nat (i mod 64) else snd li) (combine (seq 0 4) acc)) 0 =
  if (k =? i / 64)%nat then nth k acc 0 + 2 ^ N.of_nat (i mod 64) else nth k acc 0.
Proof.
  intros L K. destruct acc as [|a0 [|a1 [|a2 [|a3 [|]]]]]; try discriminate.
  destruct k as [|[|[|[|k]]]]; try lia; reflexivity.
Qed.

Lemma lob_step c P : forall p i acc, (i + length p <= 256)%nat -> skipn i P = p -> lob_inv c P i acc ->
  lob_inv c P (i + length p) (lanes_of_bits c p i acc).
Proof.
  induction p as [|x p IH]; intros i acc Hb Hs J.
  - cbn [lanes_of_bits length]. rewrite Nat.add_0_r. exact J.
  - cbn [lanes_of_bits length]. replace (i + S (length p))%nat with (S i + length p)%nat by lia.
    assert (Hx : nth_error P i = Some x).
    { clear -Hs. revert P Hs. induction i as [|i IH]; intros [|y P] Hs; cbn [skipn] in Hs; try discriminate; [injection Hs as -> _; reflexivity|].
      cbn [nth_error]. apply IH. exact Hs. }
    assert (Hs' : skipn (S i) P = p).
    { clear -Hs. revert P Hs. induction i as [|i IH]; intros [|y P] Hs; cbn [skipn] in Hs; try discriminate; [injection Hs as _ ->; reflexivity|].
      change (skipn (S (S i)) (y :: P)) with (skipn (S i) P). apply IH. exact Hs. }
    apply IH; [cbn [length] in Hb; lia|exact Hs'|].
    destruct J as [L J]. 
    assert (Hi : (i < 256)%nat) by (cbn [length] in Hb; lia).
    assert (Hk : (i / 64 < 4)%nat) by (apply Nat.div_lt_upper_bound; lia).
    pose proof (Nat.div_mod i 64 ltac:(lia)) as DM. pose proof (Nat.mod_upper_bound i 64 ltac:(lia)) as MB.
    destruct (Z.eqb_spec x c) as [E|NE].
    + (* a match: bit i is set *)
      split; [rewrite map_length, combine_length, seq_length, L; reflexivity|].
      intros k K. rewrite nth_update_lanes by assumption. destruct (J k K) as [B T].
      destruct (Nat.eqb_spec k (i / 64)) as [->|Nk].
      * assert (Bi : nth (i / 64) acc 0 < 2 ^ N.of_nat (i mod 64)).
        { replace (Nat.min 64 (i - 64 * (i / 64))) with (i mod 64)%nat in B by lia. exact B. }
        split.
        -- replace (Nat.min 64 (S i - 64 * (i / 64))) with (S (i mod 64)) by lia.
           rewrite Nat2N.inj_succ, N.pow_succ_r'. lia.
        -- intros r R. rewrite testbit_add_pow2 by exact Bi. rewrite (T r R).
           destruct (N.eqb_spec (N.of_nat (i mod 64)) (N.of_nat r)) as [Er|Nr].
           ++ apply Nat2N.inj in Er. assert (Ei : (64 * (i / 64) + r)%nat = i) by lia. rewrite Ei.
              unfold ematch. rewrite Hx, E, Z.eqb_refl.
              destruct (Nat.ltb_spec i i); [lia|]. destruct (Nat.ltb_spec i (S i)); [reflexivity|lia].
           ++ rewrite orb_false_r. assert (Ni : (64 * (i / 64) + r)%nat <> i) by (intro Q; apply Nr; f_equal; lia).
              destruct (Nat.ltb_spec (64 * (i / 64) + r) i), (Nat.ltb_spec (64 * (i / 64) + r) (S i)); try reflexivity; lia.
      * split.
        -- eapply N.lt_le_trans; [exact B|]. apply N.pow_le_mono_r; [discriminate|]. lia.
        -- intros r R. rewrite (T r R). assert (Ni : (64 * k + r)%nat <> i) by (intro Q; apply Nk; subst i; rewrite Nat.mul_comm, Nat.div_add_l by lia; rewrite Nat.div_small by lia; lia).
           destruct (Nat.ltb_spec (64 * k + r) i), (Nat.ltb_spec (64 * k + r) (S i)); try reflexivity; lia.
    + (* no match *)
      split; [exact L|]. intros k K. destruct (J k K) as [B T]. split.
      * eapply N.lt_le_trans; [exact B|]. apply N.pow_le_mono_r; [discriminate|]. lia.
      * intros r R. rewrite (T r R).
        destruct (Nat.eq_dec (64 * k + r) i) as [Ei|Ni].
        -- rewrite Ei. unfold ematch. rewrite Hx. destruct (Z.eqb_spec x c); [contradiction|]. rewrite !andb_false_r. reflexivity.
        -- destruct (Nat.ltb_spec (64 * k + r) i), (Nat.ltb_spec (64 * k + r) (S i)); try reflexivity; lia.
Qed.

Lemma lob_init c P : lob_inv c P 0 [0; 0; 0; 0].
Proof.
  split; [reflexivity|]. intros k K. split.
  - destruct k as [|[|[|[|k]]]]; try lia; cbn; lia.
  - intros r R. destruct k as [|[|[|[|k]]]]; try lia; cbn [nth]; rewrite N.bits_0; reflexivity.
Qed.

Lemma nth_map_seq_b (f : nat -> bool) s n r d : (r < n)%nat -> nth r (map f (seq s n)) d = f (s + r)%nat.
Proof.
  intros H. rewrite (nth_indep _ d (f 0%nat)) by (rewrite map_length, seq_length; exact H).
  rewrite map_nth, seq_nth by exact H. reflexivity.
Qed.

Lemma seq_app4 : seq 0 256 = seq 0 64 ++ seq 64 64 ++ seq 128 64 ++ seq 192 64.
Proof. reflexivity. Qed.

Lemma lbits_lanes_of_bits c P : (length P <= 256)%nat ->
  lbits (lanes_of_bits c P 0 [0; 0; 0; 0]) = eq_word_w 256 c P.
Proof.
  intros H. pose proof (lob_step c P P 0 [0; 0; 0; 0] ltac:(cbn [Nat.add]; exact H) eq_refl (lob_init c P)) as [L J].
  cbn [Nat.add] in L, J.
  set (R := lanes_of_bits c P 0 [0; 0; 0; 0]) in *.
  destruct R as [|l0 [|l1 [|l2 [|l3 [|]]]]]; try discriminate.
  assert (Q : forall k lk, (k < 4)%nat -> nth k [l0; l1; l2; l3] 0 = lk ->
     nbits 64 lk = map (fun i => match nth_error P i with Some x => (x =? c)%Z | None => false end) (seq (64 * k) 64)).
  { intros k lk K E. destruct (J k K) as [_ T]. rewrite E in T.
    apply (nth_ext _ _ false false).
    - rewrite nbits_length, map_length, seq_length. reflexivity.
    - intros r Hr. rewrite nbits_length in Hr. rewrite nth_nbits by exact Hr. rewrite (T r Hr).
      rewrite nth_map_seq_b by exact Hr. unfold ematch.
      destruct (Nat.ltb_spec (64 * k + r) (length P)) as [Lt|Ge]; [reflexivity|].
      cbn [andb]. destruct (nth_error P (64 * k + r)) eqn:En; [|reflexivity].
      exfalso. assert (nth_error P (64 * k + r) <> None) by congruence. apply nth_error_Some in H0. lia. }
  unfold lbits, eq_word_w. cbn [map concat]. rewrite seq_app4, !map_app, app_nil_r.
  rewrite (Q 0%nat l0), (Q 1%nat l1), (Q 2%nat l2), (Q 3%nat l3) by (try lia; reflexivity). reflexivity.
Qed.

(* ---- lanes stay lanes: four values below 2^64 ----------------------------------------------------------------------- *)
Lemma lt_pow2_bits x n : (forall m, n <= m -> N.testbit x m = false) -> x < 2 ^ n.
Proof.
  intros H. assert (E : x mod 2 ^ n = x).
  { apply N.bits_inj. intro m. destruct (N.lt_ge_cases m n) as [L|G].
    - apply N.mod_pow2_bits_low. exact L.
    - rewrite N.mod_pow2_bits_high by exact G. symmetry. apply H. exact G. }
  rewrite <- E. apply N.mod_lt. apply N.pow_nonzero. discriminate.
Qed.
Lemma bits_lt_pow2 x n m : x < 2 ^ n -> n <= m -> N.testbit x m = false.
Proof. intros H L. rewrite <- (N.mod_small x (2 ^ n) H). apply N.mod_pow2_bits_high. exact L. Qed.

Lemma land_lt a b : a < w64 -> b < w64 -> N.land a b < w64.
Proof. intros A B. change w64 with (2 ^ 64) in *. apply lt_pow2_bits. intros m H. rewrite N.land_spec, (bits_lt_pow2 a 64 m A H). reflexivity. Qed.
Lemma lor_lt a b : a < w64 -> b < w64 -> N.lor a b < w64.
Proof. intros A B. change w64 with (2 ^ 64) in *. apply lt_pow2_bits. intros m H. rewrite N.lor_spec, (bits_lt_pow2 a 64 m A H), (bits_lt_pow2 b 64 m B H). reflexivity. Qed.
Lemma lxor_lt a b : a < w64 -> b < w64 -> N.lxor a b < w64.
Proof. intros A B. change w64 with (2 ^ 64) in *. apply lt_pow2_bits. intros m H. rewrite N.lxor_spec, (bits_lt_pow2 a 64 m A H), (bits_lt_pow2 b 64 m B H). reflexivity. Qed.

Definition ok4 (l : lanes) : Prop := exists x0 x1 x2 x3, l = [x0; x1; x2; x3] /\ x0 < w64 /\ x1 < w64 /\ x2 < w64 /\ x3 < w64.

Lemma ok4_forall l : ok4 l -> Forall (fun x => x < w64) l /\ length l = 4%nat.
Proof. intros (x0 & x1 & x2 & x3 & -> & A & B & C & D). split; [repeat constructor; assumption|reflexivity]. Qed.

Lemma ok4_lmap2 (f : N -> N -> N) : (forall a b, a < w64 -> b < w64 -> f a b < w64) -> forall A B, ok4 A -> ok4 B -> ok4 (lmap2 f A B).
Proof.
  intros H A B (a0 & a1 & a2 & a3 & -> & A0 & A1 & A2 & A3) (b0 & b1 & b2 & b3 & -> & B0 & B1 & B2 & B3).
  exists (f a0 b0), (f a1 b1), (f a2 b2), (f a3 b3). split; [reflexivity|]. repeat split; apply H; assumption.
Qed.
Lemma ok4_and A B : ok4 A -> ok4 B -> ok4 (l_and A B). Proof. apply ok4_lmap2. exact land_lt. Qed.
Lemma ok4_or A B : ok4 A -> ok4 B -> ok4 (l_or A B). Proof. apply ok4_lmap2. exact lor_lt. Qed.
Lemma ok4_xor A B : ok4 A -> ok4 B -> ok4 (l_xor A B). Proof. apply ok4_lmap2. exact lxor_lt. Qed.
Lemma ok4_not A : ok4 A -> ok4 (l_not A).
Proof.
  intros (a0 & a1 & a2 & a3 & -> & A0 & A1 & A2 & A3). exists (wnot a0), (wnot a1), (wnot a2), (wnot a3).
  split; [reflexivity|]. unfold wnot. repeat split; apply lxor_lt; try assumption; reflexivity.
Qed.

Lemma add256_ok A B : ok4 A -> ok4 B -> add256 A B = ripple_lanes A B false /\ ok4 (add256 A B).
Proof.
  intros (a0 & a1 & a2 & a3 & -> & A0 & A1 & A2 & A3) (b0 & b1 & b2 & b3 & -> & B0 & B1 & B2 & B3).
  rewrite add256_ripple by assumption. split; [reflexivity|]. cbn [ripple_lanes].
  eexists _, _, _, _. split; [reflexivity|]. repeat split; apply N.mod_lt; discriminate.
Qed.

Lemma shl1_ok A : ok4 A -> lbits (shl256 A 1) = wshl_in (lbits A) false /\ ok4 (shl256 A 1).
Proof.
  intros H. pose proof (ok4_forall A H) as [F _]. destruct H as (a0 & a1 & a2 & a3 & -> & A0 & A1 & A2 & A3).
  rewrite shl256_one. split; [apply (lbits_shl1 [a0; a1; a2; a3] false F)|].
  cbn [shl1_lanes]. eexists _, _, _, _. split; [reflexivity|].
  assert (S : forall x, x < w64 -> N.shiftr x 63 < w64).
  { intros x Hx. rewrite N.shiftr_div_pow2. unfold w64 in *. change (2 ^ 63) with 9223372036854775808. lia. }
  repeat split; apply lor_lt; try (apply N.mod_lt; discriminate); try (apply S; assumption). reflexivity.
Qed.

Lemma ok4_lanes_of_bits c P : (length P <= 256)%nat -> ok4 (lanes_of_bits c P 0 [0; 0; 0; 0]).
Proof.
  intros H. pose proof (lob_step c P P 0 [0; 0; 0; 0] ltac:(cbn [Nat.add]; exact H) eq_refl (lob_init c P)) as [L J].
  destruct (lanes_of_bits c P 0 [0; 0; 0; 0]) as [|l0 [|l1 [|l2 [|l3 [|]]]]]; try discriminate.
  exists l0, l1, l2, l3. split; [reflexivity|].
  assert (B : forall k, (k < 4)%nat -> nth k [l0; l1; l2; l3] 0 < w64).
  { intros k K. destruct (J k K) as [B _]. eapply N.lt_le_trans; [exact B|]. change w64 with (2 ^ 64).
    apply N.pow_le_mono_r; [discriminate|]. lia. }
  repeat split; [apply (B 0%nat)|apply (B 1%nat)|apply (B 2%nat)|apply (B 3%nat)]; lia.
Qed.

(* ---- Part C: bpm_256 is the 256-bit word algorithm, hence the recurrence ------------------------------------------- *)
Local Open Scope Z_scope.

Definition step256 (p : list Z) (mask : lanes) (st : lanes * lanes * Z * Z) (c : Z) : lanes * lanes * Z * Z :=
  let '(VP, VN, diff, k) := st in
  let X := l_or (lanes_of_bits c p 0 [0; 0; 0; 0]%N) VN in
  let D0 := l_or (l_xor (add256 VP (l_and X VP)) VP) X in
  let HN := l_and VP D0 in
  let HP := l_or VN (l_not (l_or VP D0)) in
  let X1 := shl256 HP 1 in
  let VN' := l_and X1 D0 in
  let VP' := l_or (shl256 HN 1) (l_not (l_or X1 D0)) in
  let diff' := (diff + (if l_testz HP mask then 0 else 1) - (if l_testz HN mask then 0 else 1))%Z in
  (VP', VN', diff', if (diff' <? k)%Z then diff' else k).

Lemma bpm256_unfold t p0 :
  bpm256 t p0 =
  let p := firstn 255 p0 in let m := length p in
  let '(_, _, _, k) := fold_left (step256 p (mask_of m)) t ([ones64; ones64; ones64; ones64], [0; 0; 0; 0]%N, Z.of_nat m, Z.of_nat m) in k.
Proof. reflexivity. Qed.

Lemma testz_bit A i : ok4 A -> (i < 256)%nat -> (if l_testz A (single_bit i) then 0 else 1) = b2z (wbit (lbits A) i).
Proof.
  intros (a0 & a1 & a2 & a3 & -> & _) H. rewrite testz_single_bit by exact H.
  destruct (wbit (lbits [a0; a1; a2; a3]) i); reflexivity.
Qed.

Lemma step_sim p : let m := length p in (1 <= m <= 255)%nat -> forall VP VN diff k c, ok4 VP -> ok4 VN ->
  exists VP' VN' d' k', step256 p (mask_of m) (VP, VN, diff, k) c = (VP', VN', d', k') /\ ok4 VP' /\ ok4 VN' /\
    bpm_step_w 256 p m (lbits VP, lbits VN, diff, k) c = (lbits VP', lbits VN', d', k').
Proof.
  intros m Hm VP VN diff k c OP ON. unfold step256.
  rewrite (mask_is_single_bit m Hm).
  assert (OB : ok4 (lanes_of_bits c p 0 [0; 0; 0; 0]%N)) by (apply ok4_lanes_of_bits; fold m; lia).
  set (B := lanes_of_bits c p 0 [0; 0; 0; 0]%N) in *.
  set (X := l_or B VN). assert (OX : ok4 X) by (apply ok4_or; assumption).
  assert (OXP : ok4 (l_and X VP)) by (apply ok4_and; assumption).
  destruct (add256_ok VP (l_and X VP) OP OXP) as [EA OA].
  set (S := add256 VP (l_and X VP)) in *.
  set (D0 := l_or (l_xor S VP) X). assert (OD : ok4 D0) by (apply ok4_or; [apply ok4_xor|]; assumption).
  set (HN := l_and VP D0). assert (OHN : ok4 HN) by (apply ok4_and; assumption).
  set (HP := l_or VN (l_not (l_or VP D0))). assert (OHP : ok4 HP) by (apply ok4_or; [assumption|apply ok4_not, ok4_or; assumption]).
  destruct (shl1_ok HP OHP) as [EX1 OX1]. destruct (shl1_ok HN OHN) as [EHN1 OHN1].
  set (X1 := shl256 HP 1) in *.
  eexists _, _, _, _. split; [reflexivity|].
  split; [apply ok4_or; [exact OHN1|apply ok4_not, ok4_or; assumption]|].
  split; [apply ok4_and; assumption|].
  (* the bit-level step on the images *)
  pose proof (fun A HA => proj2 (ok4_forall A HA)) as LEN.
  assert (L4 : forall A B, ok4 A -> ok4 B -> length A = length B) by (intros A0 B0 HA HB; rewrite (LEN _ HA), (LEN _ HB); reflexivity).
  unfold bpm_step_w.
  assert (EB : lbits B = eq_word_w 256 c p) by (apply lbits_lanes_of_bits; fold m; lia).
  assert (EXb : lbits X = wor (eq_word_w 256 c p) (lbits VN)) by (unfold X; rewrite lbits_or by (apply L4; assumption); rewrite EB; reflexivity).
  assert (ES : lbits S = wadd_c (lbits VP) (wand (lbits X) (lbits VP)) false).
  { rewrite EA. rewrite <- (lbits_and X VP) by (apply L4; assumption). symmetry.
    apply wadd_lbits; [apply (ok4_forall VP OP)|apply (ok4_forall _ OXP)]. }
  assert (ED : lbits D0 = wor (wxor (lbits S) (lbits VP)) (lbits X)).
  { unfold D0. rewrite lbits_or by (apply L4; [apply ok4_xor|]; assumption). rewrite lbits_xor by (apply L4; assumption). reflexivity. }
  assert (EHN : lbits HN = wand (lbits VP) (lbits D0)) by (unfold HN; apply lbits_and, L4; assumption).
  assert (EHP : lbits HP = wor (lbits VN) (wnotb (wor (lbits VP) (lbits D0)))).
  { unfold HP. rewrite lbits_or by (apply L4; [assumption|apply ok4_not, ok4_or; assumption]).
    rewrite lbits_not, lbits_or by (apply L4; assumption). reflexivity. }
  rewrite <- EXb, <- ES, <- ED, <- EHN, <- EHP, <- EX1, <- EHN1.
  rewrite (testz_bit HP (m - 1) OHP) by lia. rewrite (testz_bit HN (m - 1) OHN) by lia.
  assert (E1 : lbits (l_or (shl256 HN 1) (l_not (l_or X1 D0))) = wor (lbits (shl256 HN 1)) (wnotb (wor (lbits X1) (lbits D0)))).
  { rewrite lbits_or by (apply L4; [exact OHN1|apply ok4_not, ok4_or; assumption]).
    rewrite lbits_not, lbits_or by (apply L4; assumption). reflexivity. }
  assert (E2 : lbits (l_and X1 D0) = wand (lbits X1) (lbits D0)) by (apply lbits_and, L4; assumption).
  rewrite E1, E2. reflexivity.
Qed.

Theorem bpm256_is_sed : forall t p, (1 <= length p)%nat -> bpm256 t p = sed t (firstn 255 p).
Proof.
  intros t p0 H0. rewrite bpm256_unfold. cbv zeta.
  set (p := firstn 255 p0). set (m := length p).
  assert (Hm : (1 <= m <= 255)%nat).
  { unfold m, p. rewrite firstn_length. destruct p0; [cbn [length] in H0; lia|]. cbn [length] in *. lia. }
  rewrite <- (bpmw_bits_is_sed 256 p ltac:(fold m; lia) t). unfold bpmw_bits. fold m.
  assert (G : forall t VP VN diff k, ok4 VP -> ok4 VN ->
     let '(_, _, _, k1) := fold_left (step256 p (mask_of m)) t (VP, VN, diff, k) in
     let '(_, _, _, k2) := fold_left (bpm_step_w 256 p m) t (lbits VP, lbits VN, diff, k) in k1 = k2).
  { induction t0 as [|c t0 IH]; intros VP VN diff k OP ON; [reflexivity|]. cbn [fold_left].
    destruct (step_sim p Hm VP VN diff k c OP ON) as (VP' & VN' & d' & k' & E1 & O1 & O2 & E2). fold m in E1, E2.
    rewrite E1, E2. apply IH; assumption. }
  assert (O1 : ok4 [ones64; ones64; ones64; ones64]) by (eexists _, _, _, _; split; [reflexivity|repeat split; reflexivity]).
  assert (O0 : ok4 [0; 0; 0; 0]%N) by (eexists _, _, _, _; split; [reflexivity|repeat split; reflexivity]).
  specialize (G t _ _ (Z.of_nat m) (Z.of_nat m) O1 O0).
  assert (E1 : lbits [ones64; ones64; ones64; ones64] = repeat true 256) by (vm_compute; reflexivity).
  assert (E0 : lbits [0; 0; 0; 0]%N = repeat false 256) by (vm_compute; reflexivity).
  rewrite E1, E0 in G.
  destruct (fold_left (step256 p (mask_of m)) t _) as [[[? ?] ?] k1].
  destruct (fold_left (bpm_step_w 256 p m) t _) as [[[? ?] ?] k2]. exact G.
Qed.
