#!/usr/bin/env python3
"""Regenerates MANIFEST.json from the table below (kept here so that the manifest stays valid
and consistent while checks are added)."""
import json, os
V = os.path.dirname(os.path.dirname(os.path.abspath(__file__)))
ENGINE = 'coq-model+correspondence'
TRUST = ('Trusted: Coq 8.16.1 kernel + VM; the translator (harness/dump_tables.c, tools/translate.py); extraction (ExtrOcamlBasic only) and OCaml; '
         'the correspondence harness. Nothing in the C is verified directly: hand-modelled parts are tied by differential runs against the freshly built code. ')
CLAIMS = {
 'C01': dict(
   text='Theorems (all trees, all well-formed paths, all sequence sets, no size bound): update_gaps = column insertion; make_linear_sequence reproduces residues; '
        'add_gap_info_to_path_n expands every well-formed raw path to ops that fit both sides; the progressive assembly keeps every row\'s residues, gives equal row lengths and no all-gap column (C01_assembly_integrity). '
        'Tie: the weave model is replayed on the implementation-observed task list and raw paths (NODE_DONE hook) and compared per merge and on the final rows; the premises kpath_wfb/valid task list are monitored on every observed path/tree; '
        'extracted integrity_b is evaluated on the output of both entry points and all three formats.',
   note=TRUST + 'Layer 1 only: that the float DP kernels always emit well-formed paths and the tree builder a valid task list is a monitored premise (checked on every run of the correspondence), not yet a theorem. Rank-order restoration and name preservation are checked on the implementation output, not proved.',
   tech='Coq proof (induction over paths, merges and task lists) + parametric correspondence via hooks'),
 'C03': dict(
   text='Theorems: the merge-sort model returns a permutation for every comparator; (length desc, strncmp 256) is a strict total order on pairwise distinguishable records, so two orders of the same records sort to the same list (C03_canonical_order_unique); for ANY core (guide tree + progressive alignment as a function of the canonically ordered codes) the named rows of two input orders are permutations of each other and acceptance coincides (C03_order_invariance). '
        'Tie: canonical order and internal codes compared model vs implementation on adversarial name sets; the modelling claim that nothing after the sort reads ranks/names is tested by aligning every input in several record orders through the file API below and above the 100-sequence switch.',
   note=TRUST + 'glibc qsort is modelled as its merge sort (msort.c); the claim that the downstream code is a function of the canonically ordered codes only (no pointer comparison, no index-dependent tie-break) is tied by the permutation runs, not proved. Names are compared on their first 256 bytes (premise of the theorem; longer common prefixes: see DESIGN section 6, D15).',
   tech='Coq proof (sorting uniqueness + parametric pipeline) + permutation runs'),
 'C13': dict(
   text='Theorems over the exact values of the binary64 tables the running code holds (regenerated on every run): per-letter margins (C13_exact_margins); premise 1 implies DNA wins for all counts (C13_nucleotide_exact); premise 2 implies protein wins whenever 11.21*#u + 1.204*#acgtn < 10.27*#protein_only, in particular without U (C13_protein_exact); the property as worded is refuted for U-rich protein (C13_premise2_refuted_by_U, recorded finding); the histogram, hence the decision, is invariant under permutation of the sequences (C13_order_independent). '
        'Tie: the binary64 sums and the decision of the Flocq model are compared bit for bit with detect_alphabet (hook); float decision vs exact decision monitored on every case; premises replayed through the readers with gap-rich presentations.',
   note=TRUST + 'Partial: that the binary64 summation (<= 52 terms) decides like the exact sum is monitored at run time and tied bit-exactly, not proved (no float error analysis yet). Axioms of the refutation theorem (it evaluates Flocq operations): ClassicalDedekindReals.sig_forall_dec, sig_not_dec, functional_extensionality_dep, Classical_Prop.classic.',
   tech='Coq proof in exact arithmetic over regenerated tables + bit-exact Flocq correspondence'),
 'C14': dict(
   text='Theorems: in every alphabet kalign_run uses, lower case has the code of upper case and T/t/U/u share one nucleotide code (finite, by vm_compute over tables regenerated from the built library on every run); for ANY core, inputs whose records are byte-wise code-equivalent (any case change, any T/U substitution) and of the same detected kind yield the same names, order and gap pattern, and are accepted or rejected alike (C14_respell_invariance). '
        'Tie: internal codes of both spellings compared model vs implementation; kalign() run on each input and a random respelling, gap patterns and letters compared.',
   note=TRUST + 'The biotype of the two spellings is a premise (equal by C13 premise 1 for nucleotide input; for protein the two likelihood tables are case-symmetric, C13_tables_case_symmetric, but the float sums are taken in index order, so equality of the decision near a tie is monitored, not proved).',
   tech='Coq proof (relational invariance of the pipeline) + regenerated alphabet tables'),
 'C17': dict(
   text='Theorems over the model of compare_pair/kalign_msa_compare for all alignments: the reference totals count exactly the (residue, partner-or-gap) relations the two per-pair tables list; reproduced relations never exceed reference relations (C17_range_counters); all-gap columns are invisible; the score counters do not depend on the row order of either file (canonical name order, C17_row_order); two alignments that are the same up to row order and all-gap columns reproduce every relation, a = b (C17_same_alignment_reproduces_everything). '
        'Tie: score bit pattern of the Flocq model vs kalign_msa_compare on file pairs (each with >= 1 gap); independent Python implementation of the definition as witness oracle.',
   note=TRUST + 'The final 100.0*a/b in binary64 stored to float is executed in the model (Flocq) and compared bit for bit; that a=b yields exactly 100.0f and a<=b a value in [0,100] is checked on every case, not proved. The six counters are internal to the C function: only the score is observed.',
   tech='Coq proof (induction over columns, pairs, canonical sorting) + bit-exact score correspondence'),
 'C04': dict(
   text='PARTIAL. Theorems: (a) the reader core shared by read_fasta/read_clu/read_msf extracts exactly the letters, in order, whatever punctuation (gaps) is interspersed and however the row is cut into lines (C04_residues_are_the_letters, all chunkings, all bytes); (b) kalign_run_model receives only (name, residues) records - gaps, status and histogram do not reach it (C04_run_depends_on_records_only); (c) the DNA/protein decision depends only on the letter entries of the histogram (C04_kind_ignores_non_letters, after fix b495129). '
        'The block layouts of Clustal/MSF, format sniffing and the merging of several inputs are NOT yet theorems: they are decided on every run by the correspondence of the executable reader model (Formats.v) with kalign_read_input on >= 11 presentations per record set (line widths, CRLF, blanks, digits, gap density up to 95%, Clustal/MSF renderings, 2..3 input files incl. an empty one) plus a malformed stream, and by comparing the implementation\'s alignments across presentations.',
   note=TRUST + 'The composition "read(render X R) has records R" is proved for FASTA only (C06_fasta_roundtrip); for Clustal/MSF layouts it rests on the correspondence. stdin is not exercised separately: read_file_stdin uses the same getline loop for a FILE* and stdin.',
   tech='Coq proof (reader core, run parametricity, histogram restriction) + reader-model correspondence on generated presentations'),
 'C06': dict(
   text='PARTIAL. Theorems: the reader core rebuilds any gapped row from any cutting into lines, keeping case and gap positions (C06_reader_core); rows over letters and \'-\' are fixed points of the reader\'s normalisation; read_file_stdin inverts the writers\' line output (C06_lines_roundtrip); the complete file-level FASTA round trip for any number of rows, any width incl. multiples of 60 and any admissible names (C06_fasta_roundtrip). '
        'The file-level Clustal and MSF round trips are stated in Properties_C06.v as Definitions (full statements) and are not yet theorems; they are decided on every run by byte-exact correspondence of write_msa_clu/msf/fasta and the three readers with the executable model and by round-trip runs over all nine ordered format pairs on the implementation.',
   note=TRUST + 'Names of 1..200 bytes from [A-Za-z0-9_.|-]. The implementation side goes through kalign_read_input + finalise_alignment + kalign_write_msa (kalignfmt cannot write what it read).',
   tech='Coq proof (reader core for all formats, FASTA file round trip) + byte-exact writer/reader correspondence over 9 format pairs'),
 'C15': dict(
   text='PARTIAL. Theorems: FASTA rows are wrapped into lines of exactly 60 columns except a last one of 1..60 (C15_fasta_wrapped_at_60), the pieces concatenate to the row, and the FASTA file is exactly the header/sequence line list (C15_fasta_file_is_lines). '
        'The Clustal/MSF block structure and the MSF header fields (true alignment length, per-row GCG checksum over the whole row, molecule type) are NOT yet theorems: the executable writer model (Formats.v write_clu/write_msf/gcg_checksum) is compared byte for byte with kalign_write_msa on every run, and independent parsers check header, block sizes, every-sequence-in-every-block, declared length, checksums and type label on the implementation\'s files.',
   note=TRUST + 'The date in the MSF header is masked. Defects D4-D6 were found by this check and repaired (known_findings.json).',
   tech='Coq proof (FASTA wrapping) + byte-exact writer-model correspondence + independent structural parsers'),
 'C05': dict(
   text='PARTIAL by nature. Theorems (all bytes, all byte strings, all option values, on the executable model): every byte of a sequence is mapped to a class that is a valid index of the tables it is used with, in both alphabets of both kinds - tables regenerated from the built library (C05_residue_codes_defined, C05_converted_sequences_index_in_range); kalign_read_input over any list of inputs yields an error, nothing, or >= 2 records each with exactly len+1 gap counters (C05_read_outcome); the expansion of every well-formed raw path fits path[] (C05_expanded_path_fits); every Clustal/MSF sequence line fits the line buffer for any names (C05_writer_line_fits); the modelled main()/run_kalign returns status 0 with an alignment only if every stage succeeded and EXIT_FAILURE whenever a stage of an aligning invocation fails (C05_success_means_written, C05_failure_is_reported). All model functions are structurally recursive (termination by construction). '
        'Tie: reader model vs kalign_read_input of the ASan+UBSan build on a corpus of minimised past failures + byte/line mutations of valid files in three formats; every accepted input aligned under the sanitizers with random types, penalties and output formats (result must be FAIL or a valid alignment of what was read); the ASan+LSan command-line binary under generated option strings, missing inputs and unwritable outputs: exit status vs the model, no leak report on success, a message on failure; valgrind sample in the thorough tier.',
   note=TRUST + 'What only the machine can show - allocator state, real uninitialised bytes, int overflow, libc/libgomp internals, malloc failure - is covered by the sanitizer and valgrind runs, which are tests, not proofs. The DP kernels\' index ranges are not modelled yet (C01 layer 2). Known finding: penalties >= 1e37 crash (known_findings.json C05-huge-gap-penalty). Nine C05 defects were found and repaired (known_findings.json, fixed:).',
   tech='Coq proof (index ranges, reader outcome, exit-status logic) + reader/CLI model correspondence against the ASan/UBSan/LSan builds'),
 'C16': dict(
   text='Theorems over the state-machine model of the library (History.v: a store of msa objects addressed by handles, an explicit ambient state - OpenMP thread count, broadcast-mask table, heap garbage -, one step per public call wired to the reader / kalign_run / writer / comparison models), for EVERY numeric pipeline that reads of the ambient state at most what kalign_run sets itself before starting it: the ambient state left by earlier calls influences neither result nor objects (C16_ambient_state_is_irrelevant); a call leaves objects it does not name untouched and its result depends only on the objects it names (C16_frame, C16_locality); after ANY finite history a call returns what it returns in a fresh process that made only the calls of its backward slice (C16_history, induction over the history); once every handle is freed no object is left (C16_ledger). '
        'Tie: random histories of 3..30 calls over 4 handles (read of 1..3 inputs incl. malformed/missing ones, run with varying type/penalties/threads, write, compare, free, kalign()), all executed back to back in one process; every call is repeated in a fresh process with its slice and the result tokens (status + digest of records / rows / file bytes / score bits) must be equal; ledger: each history twice in a build without OpenMP whose allocator is interposed - live blocks after freeing every handle must be back to the start, and the second run must repeat the first.',
   note=TRUST + 'The premise reads_prepared_only and the claim that the per-call models take nothing but their argument objects are modelling claims tested by the history runs, not proved about the C. The slice used by the harness is a Python restatement of History.slice. The ledger theorem is at object granularity; block-level accounting is the interposed-allocator test (libgomp excluded by linking without OpenMP). Three defects found by this check were repaired (known_findings.json).',
   tech='Coq proof (frame + locality + induction over histories) + history-vs-fresh-process differential runs + interposed allocation ledger'),
 'C02': dict(
   text='Theorems: (1) a static join check over fork-join task bodies is SOUND for every control path (conditionals taken or not, loops any number of times, early returns): if it accepts a body, no call happens and the body does not return while a child task may be outstanding (C02_check_is_sound, induction over the trace semantics); (2) the skeletons of recursive_aln, aln_runner, bisecting_kmeans, create_msa_tree, build_tree_kmeans, d_estimation - REGENERATED from the OpenMP pragmas of the source on every run - pass it with every call treated as critical (C02_*_joins_*), hence no merge starts before both child tasks are joined and no meetup before both DP halves (C02_no_merge_before_children, C02_no_meetup_before_halves); (3) for every series-parallel program whose parallel branches have commuting actions, EVERY linearisation reaches the state of the serial order (C02_sp_determinism); (4) instantiated to the progressive alignment of ANY guide tree with distinct node numbers and ANY per-merge computation with the footprint of do_align (reads cells a, b; writes cell c): every schedule yields the serial result and a merge follows all merges below it (C02_schedules, C02_merge_after_children). '
        'Tie: the skeleton is a translation of the current source; the footprints are hand-modelled, so every logged run is validated against the model\'s happens-before constraints on the hook trace (MERGE_BEGIN/END, FWD/BWD/MEET BEGIN/END per aln_mem); byte identity of the result for n_threads 1,2,3,8,16,64, injected delays that permute task completion, OMP_WAIT_POLICY/OMP_DYNAMIC variations and the build without OpenMP/AVX2, on inputs reaching every parallel region (>= 100 sequences, >= 500 columns).',
   note=TRUST + 'Outside every theorem: that libgomp implements task/taskwait/static for as specified; data races below the granularity of the modelled actions (two tasks sharing a scratch buffer the model keeps private) - these are what the trace validation and identity runs are for. The thread-count independence of the functional model is by construction (kalign_run_model has no thread argument); the k-means split tasks and the omp-for distance matrix are covered by the join theorems and the identity runs, their footprints are not modelled. C02_schedules uses functional_extensionality_dep (stores are functions).',
   tech='Coq proof (sound join check over regenerated OpenMP skeleton + series-parallel determinism for arbitrary guide trees) + hook-trace validation + schedule/thread-count identity runs'),
 'C11': dict(
   text='PARTIAL. The full statements (bpm_block = sed on the first 1024 pattern symbols; bpm/bpm_256 = sed up to 63/255) are written in Properties_C11.v as Definitions, not yet theorems; proved so far are only basic facts of the specification. '
        'What decides the property on every run: literal executable models of bpm_block, bpm and bpm_256 (lane-level add256 and 256-bit shift included) are compared with the implementation on both the AVX2 and the scalar build, and the implementation is compared with the extracted specification sed, exhaustively for alphabets {2,3} and small lengths (17k cases) and at random around every multiple of 64 up to the 1024 cap.',
   note=TRUST + 'Until the Myers block-invariant proof is finished this check is differential testing against an executable specification, labelled as such; category stays proof because the deciding artefacts are the Coq model and specification, but the unbounded claim is NOT established.',
   tech='executable Coq model + specification, exhaustive-small and boundary-random correspondence (proof of the Myers invariant pending)'),
 'C09': dict(
   text='Theorems C09_defaults/override/explicit_default/mismatch/type_words/cli_defaults over the model of aln_param_init and set_aln_type, for all type constants, both kinds and ALL binary32 bit patterns of the three penalties; '
        'the parameter tables inside the theorems are regenerated from the built library and README.md on every run; the hand-written switch/override logic is tied by an exhaustive correspondence over 3 kinds x 8 types x value set^3 and by CLI runs observed through the PARAMS hook.',
   note=TRUST + 'getopt_long_only/atof are exercised only by the CLI runs, not modelled. CorBLOSUM66_13plus, Gonnet250 and the RNA set have no second source in the repository: the reference is the committed snapshot coq/Snapshot.v.',
   tech='Coq proof over executable model + regenerated tables + exhaustive correspondence'),
 'C10': dict(
   text='Theorems for every sequence set, every valid continuation of a run (any guide tree, any fitting paths) and every block of rows inside one group: one merge applies one column insertion to all rows of a group (C10_merge_is_uniform) and the block, stripped of its all-gap columns, never changes again (C10_finished_blocks_are_preserved). '
        'Tie: merge_step replayed on the observed ops for every merge and compared with the member rows snapshotted by the NODE_DONE hook; extracted subalignment_b evaluated on every internal node of every run, threads 1..16.',
   note=TRUST + 'The premise "ops fit the two group widths" is monitored on every observed merge.',
   tech='Coq proof (induction over merges) + per-merge correspondence via hooks'),
}
REASON_PENDING = 'check under construction in this round (design in DESIGN.md section 5); not yet claimed'

def main():
    props = [json.loads(l) for l in open(os.path.join(V, 'properties.jsonl'))]
    man = {
     'version': 1,
     'setup_cmd': 'tools/setup.sh',
     'hooks': {'guard': 'KALIGN_VERIF',
               'enable': "tools/build_repo.sh compiles lib/src/*.c from /repo's working tree with -DKALIGN_VERIF (variants omp/plain/asan) into /verif/.build/<content-hash>/",
               'baseline_off_cmd': 'tools/baseline_off.sh', 'source_commits': ['34a9a85', '8f635f3'], 'add_only': True},
     'engines': [{'name': ENGINE, 'path': 'tools/check', 'serves_properties': sorted(CLAIMS),
                  'kind_free_text': 'Coq 8.16.1 theorems over an executable Gallina model (coq/), regenerated tables/skeleton (tools/translate.py, harness/dump_tables.c), extracted model (ocaml/) run against the freshly built library (harness/)'}],
     'checks': [], 'not_applicable': [],
     'notes': 'See DESIGN.md. known_findings.json lists recorded and fixed defects.'}
    for p in props:
        pid = p['id']
        if pid in CLAIMS:
            c = CLAIMS[pid]
            man['checks'].append({
              'property_id': pid, 'quick_cmd': 'tools/check %s quick' % pid, 'thorough_cmd': 'tools/check %s thorough' % pid,
              'evidence_file': 'evidence/%s.json' % pid, 'replay_cmd_template': 'tools/check %s --replay {path}' % pid, 'engine': ENGINE,
              'level_claimed': {'category': 'proof', 'text': c['text'], 'design_ref': 'DESIGN.md section 5 ' + pid},
              'level_note': c['note'], 'technique': c['tech']})
        else:
            man['not_applicable'].append({'property_id': pid, 'reason': REASON_PENDING})
    json.dump(man, open(os.path.join(V, 'MANIFEST.json'), 'w'), indent=1)

if __name__ == '__main__':
    main()
