(* Exact-arithmetic facts about detect_alphabet's tables and decision (C13, C14, C04). *)
From KV Require Import Base FP Detect.
From KV Require Export DetectDefs.
From Coq Require Import Permutation.
Local Open Scope Z_scope.

(* exact value of a finite binary64, scaled by 2^1074 (always an integer) *)


(* per-character exact margin DNA[i] - protein[i], scaled by 2^1074 *)



(* C13_exact_margins: in nats, scaled.  1.2039 < nucleotide < 1.2040, 11.20 < u < 11.21,
   -10.28 < protein-only < -10.27, -0.2763 < other letter < -0.2762 *)
Lemma exact_margins_b :
  forallb (fun c =>
    (if is_nuc_letter c then (12039 * unit1074 <? 10000 * margin_at c) && (10000 * margin_at c <? 12040 * unit1074) else true) &&
    (if is_u_letter c then (1120 * unit1074 <? 100 * margin_at c) && (100 * margin_at c <? 1121 * unit1074) else true) &&
    (if is_protein_only c then (-1028 * unit1074 <? 100 * margin_at c) && (100 * margin_at c <? -1027 * unit1074) else true) &&
    (if is_other_letter c then (-2763 * unit1074 <? 10000 * margin_at c) && (10000 * margin_at c <? -2762 * unit1074) else true)) idx128 = true
  /\ forallb is_finite64 detect_DNA = true /\ forallb is_finite64 detect_protein = true
  /\ length detect_DNA = 128%nat /\ length detect_protein = 128%nat.
Proof. vm_compute. repeat split; reflexivity. Qed.

(* the tables do not distinguish upper from lower case *)
Lemma tables_case_symmetric_b :
  forallb (fun c => if (65 <=? c) && (c <=? 90) then
     N.eqb (nthZ 0%N detect_DNA c) (nthZ 0%N detect_DNA (c + 32)) &&
     N.eqb (nthZ 0%N detect_protein c) (nthZ 0%N detect_protein (c + 32)) else true) idx128 = true.
Proof. vm_compute. reflexivity. Qed.

(* the exact decision value of a histogram: sum over letters of count * margin *)

(* a histogram whose counted letters all satisfy [good] *)



Lemma margin_pos_nuc c : 0 <= c < 128 -> nuc_or_u c = true -> 12039 * unit1074 < 10000 * margin_at c.
Proof.
  intros Hc H. destruct exact_margins_b as (Hb & _).
  rewrite forallb_forall in Hb.
  assert (In c idx128) as Hin.
  { unfold idx128. apply in_map_iff. exists (Z.to_nat c). split; [lia|]. apply in_seq. lia. }
  specialize (Hb c Hin).
  repeat (apply andb_true_iff in Hb as [Hb ?]).
  unfold nuc_or_u in H. apply orb_true_iff in H as [H|H].
  - rewrite H in Hb. apply andb_true_iff in Hb as [Hb _]. apply Z.ltb_lt in Hb. exact Hb.
  - match goal with E : (if is_u_letter c then _ else _) = true |- _ => rewrite H in E; apply andb_true_iff in E as [E _]; apply Z.ltb_lt in E end.
    assert (0 < unit1074) by (unfold unit1074; apply Z.pow_pos_nonneg; lia). lia.
Qed.

Lemma skipn_cons_inv : forall n (l : list Z) x t, skipn n l = x :: t -> skipn (S n) l = t /\ nth n l 0 = x.
Proof.
  induction n as [|n IH]; intros [|y l] x t H; simpl in *; try discriminate.
  - inversion H; auto.
  - apply IH. exact H.
Qed.

(* C13, premise 1, exact arithmetic: if every counted residue letter is one of A C G T U N
   (either case) and there is at least one residue, the DNA model wins - for all counts. *)
Lemma exact_nucleotide_loop : forall freq i ms,
  0 <= i -> i + Z.of_nat (length freq) <= 128 ->
  ms = skipn (Z.to_nat i) margins ->
  hist_only nuc_or_u i freq ->
  12039 * unit1074 * total_letters i freq <= 10000 * exact_loop i freq ms.
Proof.
  induction freq as [|c freq IH]; intros i ms Hi Hlen Hms Hh.
  - simpl. lia.
  - cbn [length] in Hlen. cbn [hist_only] in Hh. destruct Hh as (Hc & Hgood & Hrest).
    assert (length margins = 128%nat) as Hml.
    { unfold margins. rewrite map_length, combine_length.
      destruct exact_margins_b as (_ & _ & _ & -> & ->). reflexivity. }
    destruct ms as [|m ms'].
    { exfalso. assert (length (skipn (Z.to_nat i) margins) = 0%nat) as E by (rewrite <- Hms; reflexivity).
      rewrite skipn_length in E. lia. }
    cbn [exact_loop total_letters].
    destruct (skipn_cons_inv (Z.to_nat i) margins m ms' (eq_sym Hms)) as (Hms' & Hm).
    assert (m = margin_at i) as ->.
    { unfold margin_at, nthZ. destruct (i <? 0) eqn:E; [apply Z.ltb_lt in E; lia|]. symmetry. exact Hm. }
    replace (S (Z.to_nat i)) with (Z.to_nat (i + 1)) in Hms' by lia. symmetry in Hms'.
    specialize (IH (i + 1) ms' ltac:(lia) ltac:(lia) Hms' Hrest).
    assert (0 < unit1074) as Hu by (unfold unit1074; apply Z.pow_pos_nonneg; lia).
    destruct (isalpha i) eqn:Ea.
    + destruct (c =? 0) eqn:Ec.
      * apply Z.eqb_eq in Ec. subst c. cbn [negb andb]. lia.
      * apply Z.eqb_neq in Ec. cbn [negb andb].
        pose proof (margin_pos_nuc i ltac:(lia) (Hgood Ec eq_refl)) as Hmp.
        set (u := unit1074) in *. set (mi := margin_at i) in *.
        assert (12039 * u * c <= 10000 * mi * c) by (apply Z.mul_le_mono_nonneg_r; lia).
        lia.
    + rewrite andb_false_r. lia.
Qed.

Theorem exact_nucleotide freq :
  length freq = 128%nat -> hist_only nuc_or_u 0 freq -> 0 < total_letters 0 freq ->
  0 < exact_margin freq.
Proof.
  intros Hl Hh Ht. unfold exact_margin.
  pose proof (exact_nucleotide_loop freq 0 margins ltac:(lia) ltac:(rewrite Hl; lia) eq_refl Hh) as H.
  assert (0 < unit1074) as Hu by (unfold unit1074; apply Z.pow_pos_nonneg; lia). nia.
Qed.

(* ---- the histogram does not depend on the order of the sequences (nor on their names) ---- *)
Lemma bump_comm : forall l i j, bump (bump l i) j = bump (bump l j) i.
Proof.
  induction l as [|x l IH]; intros [|i] [|j]; simpl; auto. f_equal. apply IH.
Qed.

Lemma count_byte_comm h a b : count_byte (count_byte h a) b = count_byte (count_byte h b) a.
Proof.
  unfold count_byte. destruct ((0 <=? a) && (a <? 128)), ((0 <=? b) && (b <? 128)); auto. apply bump_comm.
Qed.

Lemma fold_count_comm : forall s h a, fold_left count_byte s (count_byte h a) = count_byte (fold_left count_byte s h) a.
Proof.
  induction s as [|b s IH]; intros h a; simpl; auto. rewrite count_byte_comm. apply IH.
Qed.

Lemma fold_count_swap : forall s1 s2 h,
  fold_left count_byte s2 (fold_left count_byte s1 h) = fold_left count_byte s1 (fold_left count_byte s2 h).
Proof.
  induction s1 as [|a s1 IH]; intros s2 h; simpl; auto.
  rewrite IH. rewrite fold_count_comm. reflexivity.
Qed.

Lemma histogram_from_perm : forall l1 l2, Permutation l1 l2 -> forall h,
  fold_left (fun h s => fold_left count_byte s h) l1 h = fold_left (fun h s => fold_left count_byte s h) l2 h.
Proof.
  induction 1; intros h; simpl; auto.
  - rewrite fold_count_swap. reflexivity.
  - rewrite IHPermutation1. apply IHPermutation2.
Qed.

Theorem histogram_perm l1 l2 : Permutation l1 l2 -> histogram l1 = histogram l2.
Proof. intro H. unfold histogram. apply histogram_from_perm. exact H. Qed.

(* ---- a linear upper bound of the exact margin by letter classes ----------------------------- *)


Lemma class_bounds c : 0 <= c < 128 -> isalpha c = true ->
  (is_nuc_letter c = true /\ 10000 * margin_at c < 12040 * unit1074) \/
  (is_u_letter c = true /\ is_nuc_letter c = false /\ 100 * margin_at c < 1121 * unit1074) \/
  (is_protein_only c = true /\ is_nuc_letter c = false /\ is_u_letter c = false /\ 100 * margin_at c < -1027 * unit1074) \/
  (is_other_letter c = true /\ is_nuc_letter c = false /\ is_u_letter c = false /\ is_protein_only c = false /\ 10000 * margin_at c < -2762 * unit1074).
Proof.
  intros Hc Ha. destruct exact_margins_b as (Hb & _).
  rewrite forallb_forall in Hb.
  assert (In c idx128) as Hin.
  { unfold idx128. apply in_map_iff. exists (Z.to_nat c). split; [lia|]. apply in_seq. lia. }
  specialize (Hb c Hin).
  repeat (apply andb_true_iff in Hb as [Hb ?]).
  destruct (is_nuc_letter c) eqn:E1.
  { left. split; auto. apply andb_true_iff in Hb as [_ Hb]. apply Z.ltb_lt in Hb. exact Hb. }
  destruct (is_u_letter c) eqn:E2.
  { right; left. repeat split; auto.
    match goal with E : (_ <? _) && (100 * margin_at c <? 1121 * unit1074) = true |- _ => apply andb_true_iff in E as [_ E]; apply Z.ltb_lt in E; exact E end. }
  destruct (is_protein_only c) eqn:E3.
  { right; right; left. repeat split; auto.
    match goal with E : (_ <? _) && (100 * margin_at c <? -1027 * unit1074) = true |- _ => apply andb_true_iff in E as [_ E]; apply Z.ltb_lt in E; exact E end. }
  right; right; right.
  assert (is_other_letter c = true) as E4 by (unfold is_other_letter; rewrite Ha, E1, E2, E3; reflexivity).
  rewrite E4 in *. repeat split; auto.
  match goal with E : (_ <? _) && (10000 * margin_at c <? -2762 * unit1074) = true |- _ => apply andb_true_iff in E as [_ E]; apply Z.ltb_lt in E; exact E end.
Qed.


Lemma exact_upper_loop : forall freq i ms,
  0 <= i -> i + Z.of_nat (length freq) <= 128 ->
  ms = skipn (Z.to_nat i) margins -> hist_nonneg freq ->
  10000 * exact_loop i freq ms <=
  unit1074 * (12040 * class_count is_nuc_letter i freq + 112100 * class_count only_u i freq
              - 102700 * class_count only_po i freq).
Proof.
  induction freq as [|c freq IH]; intros i ms Hi Hlen Hms Hh.
  - simpl. lia.
  - cbn [length] in Hlen. cbn [hist_nonneg] in Hh. destruct Hh as (Hc & Hrest).
    assert (length margins = 128%nat) as Hml.
    { unfold margins. rewrite map_length, combine_length.
      destruct exact_margins_b as (_ & _ & _ & -> & ->). reflexivity. }
    destruct ms as [|m ms'].
    { exfalso. assert (length (skipn (Z.to_nat i) margins) = 0%nat) as E by (rewrite <- Hms; reflexivity).
      rewrite skipn_length in E. lia. }
    cbn [exact_loop class_count].
    destruct (skipn_cons_inv (Z.to_nat i) margins m ms' (eq_sym Hms)) as (Hms' & Hm).
    assert (m = margin_at i) as ->.
    { unfold margin_at, nthZ. destruct (i <? 0) eqn:E; [apply Z.ltb_lt in E; lia|]. symmetry. exact Hm. }
    replace (S (Z.to_nat i)) with (Z.to_nat (i + 1)) in Hms' by lia. symmetry in Hms'.
    specialize (IH (i + 1) ms' ltac:(lia) ltac:(lia) Hms' Hrest).
    assert (0 < unit1074) as Hu by (unfold unit1074; apply Z.pow_pos_nonneg; lia).
    set (u := unit1074) in *. set (mi := margin_at i) in *.
    set (N := class_count is_nuc_letter (i + 1) freq) in *.
    set (U := class_count only_u (i + 1) freq) in *.
    set (PO := class_count only_po (i + 1) freq) in *.
    set (E := exact_loop (i + 1) freq ms') in *.
    destruct (isalpha i) eqn:Ea; cbn [andb].
    + destruct (c =? 0) eqn:Ec.
      * apply Z.eqb_eq in Ec. subst c. cbn [negb andb].
        destruct (is_nuc_letter i), (only_u i), (only_po i); lia.
      * cbn [negb].
        destruct (class_bounds i ltac:(lia) Ea) as [(C1 & B)|[(C2 & C1 & B)|[(C3 & C1 & C2 & B)|(C4 & C1 & C2 & C3 & B)]]];
          unfold only_u, only_po; rewrite ?C1, ?C2, ?C3; cbn [negb andb].
        -- destruct (is_u_letter i), (is_protein_only i); cbn [negb andb];
           assert (10000 * mi * c <= 12040 * u * c) by (apply Z.mul_le_mono_nonneg_r; lia); lia.
        -- destruct (is_protein_only i); cbn [negb andb];
           assert (100 * mi * c <= 1121 * u * c) by (apply Z.mul_le_mono_nonneg_r; lia); lia.
        -- assert (100 * mi * c <= -1027 * u * c) by (apply Z.mul_le_mono_nonneg_r; lia). lia.
        -- assert (10000 * mi * c <= -2762 * u * c) by (apply Z.mul_le_mono_nonneg_r; lia).
           assert (0 <= u * c) by (apply Z.mul_nonneg_nonneg; lia). lia.
    + rewrite andb_false_r. lia.
Qed.

(* C13, premise 2, exact arithmetic.  If at least a quarter of the residue letters occur only in
   proteins, the protein model wins - provided the U/u letters are few enough (U weighs +11.2 for
   the DNA model; see the refutation below for what happens otherwise). *)
Theorem exact_protein freq :
  length freq = 128%nat -> hist_nonneg freq ->
  let total := total_letters 0 freq in
  let po := class_count only_po 0 freq in
  let uc := class_count only_u 0 freq in
  let nuc := class_count is_nuc_letter 0 freq in
  0 < total -> total <= 4 * po -> nuc + uc + po <= total ->
  112100 * uc + 12040 * nuc < 102700 * po ->
  exact_margin freq < 0.
Proof.
  intros Hl Hh total po uc nuc Ht Hq Hsum Hu.
  pose proof (exact_upper_loop freq 0 margins ltac:(lia) ltac:(rewrite Hl; lia) eq_refl Hh) as H.
  fold po uc nuc in H. unfold exact_margin.
  assert (0 < unit1074) as Hu1 by (unfold unit1074; apply Z.pow_pos_nonneg; lia).
  assert (unit1074 * (12040 * nuc + 112100 * uc - 102700 * po) < 0) by (apply Z.mul_pos_neg; lia).
  lia.
Qed.

(* with no U at all the premise of the property suffices *)
Corollary exact_protein_no_u freq :
  length freq = 128%nat -> hist_nonneg freq ->
  0 < total_letters 0 freq -> total_letters 0 freq <= 4 * class_count only_po 0 freq ->
  class_count is_nuc_letter 0 freq + class_count only_u 0 freq + class_count only_po 0 freq <= total_letters 0 freq ->
  class_count only_u 0 freq = 0 ->
  exact_margin freq < 0.
Proof.
  intros Hl Hh Ht Hq Hsum Hu0. apply exact_protein; auto. rewrite Hu0. lia.
Qed.

(* the property as worded (premise 2 alone) is false: three quarters U, one quarter E *)
Definition u_rich : list (list Z) := [[85;85;85;69;85;85;85;69]; [85;85;85;69;85;85;85;69]]%Z.
Lemma u_rich_refutes_premise2 :
  let h := histogram u_rich in
  (total_letters 0 h <=? 4 * class_count only_po 0 h) = true /\ (0 <? exact_margin h) = true /\
  detect_alphabet h = Some ALN_BIOTYPE_DNA.
Proof. vm_compute. repeat split; reflexivity. Qed.

(* the sums look at letter entries only *)
Lemma detect_loop_letters_only : forall f1 f2 i dna prot sd sp,
  length f1 = length f2 ->
  (forall k, isalpha (i + Z.of_nat k) = true -> nth k f1 0 = nth k f2 0) ->
  detect_loop i f1 dna prot sd sp = detect_loop i f2 dna prot sd sp.
Proof.
  induction f1 as [|c1 f1 IH]; intros [|c2 f2] i dna prot sd sp Hl H; simpl in Hl; try lia; [reflexivity|].
  cbn [detect_loop]. destruct dna as [|d dna]; [reflexivity|]. destruct prot as [|p prot]; [reflexivity|].
  assert (forall k, isalpha (i + 1 + Z.of_nat k) = true -> nth k f1 0 = nth k f2 0) as H'.
  { intros k Hk. apply (H (S k)). rewrite <- Hk. f_equal. lia. }
  destruct (isalpha i) eqn:Ea.
  - assert (c1 = c2) as -> by (apply (H 0%nat); rewrite <- Ea; f_equal; lia).
    destruct (negb (c2 =? 0)); cbn [andb]; apply IH; auto; lia.
  - rewrite !andb_false_r. apply IH; auto; lia.
Qed.

Theorem detect_sums_letters_only f1 f2 :
  length f1 = length f2 ->
  (forall i, isalpha (Z.of_nat i) = true -> nth i f1 0 = nth i f2 0) ->
  detect_sums f1 = detect_sums f2.
Proof. intros Hl H. unfold detect_sums. apply detect_loop_letters_only; auto. Qed.
