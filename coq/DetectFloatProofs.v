(* C13 / C14, the floating-point side: the two binary64 sums of detect_alphabet are within 2^-38 * n of the exact sums
   (n = number of counted letters), so the comparison decides like the exact margin whenever the latter is not tiny. *)
From Coq Require Import ZArith NArith List Reals Lra Lia.
From Flocq Require Import Core IEEE754.BinarySingleNaN IEEE754.Binary IEEE754.Bits.
From Flocq.Prop Require Import Relative.
From KV Require Import Base FP Detect DetectProofs CmpFloatProofs.
Import ListNotations.
Local Open Scope Z_scope.

Local Notation fexp64 := (SpecFloat.fexp 53 1024).
Local Notation rnd := (round_mode mode_NE).

Lemma u53 : (/ 2 * bpow radix2 (-53 + 1) = / 9007199254740992)%R.
Proof. change (-53 + 1) with (-52). change (bpow radix2 (-52)) with (/ IZR (Z.pow_pos 2 52))%R. change (Z.pow_pos 2 52) with 4503599627370496. lra. Qed.

Lemma eta_small : (/ 2 * bpow radix2 (-1074) <= / 1152921504606846976)%R.   (* 2^-60 *)
Proof.
  assert (H : (bpow radix2 (-1074) <= bpow radix2 (-59))%R) by (apply bpow_le; lia).
  change (bpow radix2 (-59)) with (/ IZR (Z.pow_pos 2 59))%R in H. change (Z.pow_pos 2 59) with 576460752303423488 in H. lra.
Qed.

(* one rounding: relative error 2^-53 plus an absolute 2^-60 *)
Lemma round_err x : (Rabs (round radix2 fexp64 rnd x - x) <= / 9007199254740992 * Rabs x + / 1152921504606846976)%R.
Proof.
  destruct (error_N_FLT radix2 (-1074) 53 ltac:(lia) (fun z => negb (Z.even z)) x) as (eps & eta & He & Ht & _ & E).
  change (round radix2 fexp64 rnd x) with (round radix2 (FLT_exp (-1074) 53) (Znearest (fun z => negb (Z.even z))) x).
  rewrite E. assert (He' : (Rabs eps <= / 9007199254740992)%R) by (eapply Rle_trans; [exact He|right; exact u53]).
  clear He. rename He' into He. pose proof eta_small as Hs.
  replace (x * (1 + eps) + eta - x)%R with (x * eps + eta)%R by ring.
  eapply Rle_trans; [apply Rabs_triang|]. rewrite Rabs_mult.
  assert (Rabs x * Rabs eps <= Rabs x * / 9007199254740992)%R by (apply Rmult_le_compat_l; [apply Rabs_pos|exact He]).
  lra.
Qed.

Lemma no_overflow x : (Rabs x <= bpow radix2 60)%R -> Rlt_bool (Rabs (round radix2 fexp64 rnd x)) (bpow radix2 1024) = true.
Proof.
  intros H. apply Rlt_bool_true. eapply Rle_lt_trans.
  - apply abs_round_le_generic; [apply FLT_exp_valid; reflexivity|apply valid_rnd_N| |exact H].
    apply generic_format_FLT_bpow; [reflexivity|vm_compute; intro; discriminate].
  - apply bpow_lt. lia.
Qed.

Lemma bpow60 : bpow radix2 60 = 1152921504606846976%R.
Proof. change (bpow radix2 60) with (IZR (Z.pow_pos 2 60)). reflexivity. Qed.

(* one iteration of the loop: acc + table[i] * (double)count *)
Lemma step_err (acc tb : f64) (c : Z) (S E NN rvv : R) :
  is_finite 53 1024 acc = true -> is_finite 53 1024 tb = true -> B2R 53 1024 tb = rvv -> (Rabs rvv <= 32)%R ->
  0 < c < 2 ^ 31 -> (IZR c <= NN)%R -> (1 <= NN <= 1099511627776)%R ->
  (Rabs (B2R 53 1024 acc - S) <= E)%R -> (0 <= E <= NN)%R -> (Rabs S <= 32 * NN)%R ->
  let acc' := f64_add acc (f64_mul tb (f64_of_Z c)) in
  is_finite 53 1024 acc' = true /\ (Rabs (B2R 53 1024 acc' - (S + rvv * IZR c)) <= E + / 35184372088832 * NN)%R.
Proof.
  intros Fa Ft Ht Hr Hc HcN HN He HE HS. cbv zeta.
  destruct (of_Z_exact c) as (Vc & Fc & _); [change (2 ^ 53) with (4194304 * 2 ^ 31); lia|].
  assert (C0 : (0 < IZR c)%R) by (apply IZR_lt; lia).
  (* the product *)
  set (t := f64_mul tb (f64_of_Z c)).
  assert (Pm : B2R 53 1024 t = round radix2 fexp64 rnd (rvv * IZR c) /\ is_finite 53 1024 t = true).
  { unfold t, f64_mul, b64_mult.
    match goal with |- context [Bmult ?p ?e ?h1 ?h2 ?nan ?md ?x ?y] => pose proof (Bmult_correct p e h1 h2 nan md x y) as H end.
    rewrite Ht, Vc in H. rewrite no_overflow in H.
    - destruct H as (A & B & _). rewrite Ft, Fc in B. split; assumption.
    - rewrite bpow60, Rabs_mult, (Rabs_pos_eq (IZR c)) by lra.
      assert (Rabs rvv * IZR c <= 32 * NN)%R by (apply Rmult_le_compat; [apply Rabs_pos|lra|exact Hr|exact HcN]). lra. }
  destruct Pm as [Vt Ftt].
  pose proof (round_err (rvv * IZR c)) as Rt. rewrite <- Vt in Rt.
  assert (Bt : (Rabs (rvv * IZR c) <= 32 * NN)%R).
  { rewrite Rabs_mult, (Rabs_pos_eq (IZR c)) by lra. apply Rmult_le_compat; [apply Rabs_pos|lra|exact Hr|exact HcN]. }
  (* the sum *)
  unfold f64_add, b64_plus.
  match goal with |- context [Bplus ?p ?e ?h1 ?h2 ?nan ?md ?x ?y] => pose proof (Bplus_correct p e h1 h2 nan md x y Fa Ftt) as H end.
  set (x := (B2R 53 1024 acc + B2R 53 1024 t)%R) in *.
  assert (Bx : (Rabs x <= 100 * NN)%R).
  { unfold x. apply Rabs_le_inv in He. apply Rabs_le_inv in HS. apply Rabs_le_inv in Bt.
    assert (Rabs (B2R 53 1024 t - rvv * IZR c) <= 1 * NN)%R.
    { eapply Rle_trans; [exact Rt|]. apply Rabs_le in Bt. lra. }
    apply Rabs_le_inv in H0. apply Rabs_le. lra. }
  rewrite no_overflow in H by (rewrite bpow60; lra).
  destruct H as (A & B & _). split; [exact B|]. rewrite A.
  pose proof (round_err x) as Rx.
  replace (round radix2 fexp64 rnd x - (S + rvv * IZR c))%R
    with ((round radix2 fexp64 rnd x - x) + (B2R 53 1024 acc - S) + (B2R 53 1024 t - rvv * IZR c))%R by (unfold x; ring).
  eapply Rle_trans; [apply Rabs_triang|]. eapply Rle_trans; [apply Rplus_le_compat_r, Rabs_triang|].
  lra.
Qed.

(* ---- the table entries as real numbers ------------------------------------------------------------------------------ *)
Definition rv (b : N) : R := (IZR (f64_scaled b) * bpow radix2 (-1074))%R.

Definition entry_ok (b : N) : bool :=
  match f64_of_bits b with
  | B754_finite _ _ s m e _ => (f64_scaled b =? SpecFloat.cond_Zopp s (Zpos m) * 2 ^ (e + 1074)) && (-1074 <=? e) && (Z.abs (f64_scaled b) <=? 32 * 2 ^ 1074)
  | B754_zero _ _ _ => f64_scaled b =? 0
  | _ => false
  end.

Lemma tables_ok : forallb entry_ok detect_DNA = true /\ forallb entry_ok detect_protein = true.
Proof. vm_compute. split; reflexivity. Qed.

Lemma entry_ok_spec b : entry_ok b = true ->
  B2R 53 1024 (f64_of_bits b) = rv b /\ is_finite 53 1024 (f64_of_bits b) = true /\ (Rabs (rv b) <= 32)%R.
Proof.
  unfold entry_ok, rv. destruct (f64_of_bits b) as [s|s|s pl Hp|s m e Hb] eqn:Eb; try discriminate; intros H.
  - apply Z.eqb_eq in H. rewrite H. cbn. split; [ring|split; [reflexivity|]]. rewrite Rmult_0_l, Rabs_R0. lra.
  - apply andb_true_iff in H. destruct H as [H H3]. apply andb_true_iff in H. destruct H as [H1 H2].
    apply Z.eqb_eq in H1. apply Z.leb_le in H2, H3.
    split; [|split; [reflexivity|]].
    + unfold B2R, F2R. cbn [Fnum Fexp]. rewrite H1, mult_IZR. rewrite (IZR_Zpower radix2) by lia.
      rewrite Rmult_assoc, <- bpow_plus. f_equal. f_equal. lia.
    + rewrite Rabs_mult, <- abs_IZR. rewrite (Rabs_pos_eq (bpow radix2 (-1074))) by apply bpow_ge_0.
      apply IZR_le in H3. rewrite mult_IZR in H3.
      assert (E1074 : IZR (2 ^ 1074) = bpow radix2 1074) by (apply (IZR_Zpower radix2); lia). rewrite E1074 in H3.
      assert (P : (0 < bpow radix2 (-1074))%R) by apply bpow_gt_0.
      assert (Q : (bpow radix2 1074 * bpow radix2 (-1074) = 1)%R) by (rewrite <- bpow_plus; reflexivity).
      apply (Rmult_le_compat_r (bpow radix2 (-1074))) in H3; [|lra]. rewrite Rmult_assoc, Q in H3. lra.
Qed.

(* ---- the loop ----------------------------------------------------------------------------------------------------- *)
Fixpoint rloop (i : Z) (freq : list Z) (tab : list N) : R :=
  match freq, tab with
  | c :: f', d :: t' => ((if negb (c =? 0) && isalpha i then IZR c * rv d else 0) + rloop (i + 1) f' t')%R
  | _, _ => 0%R
  end.

Lemma total_nonneg : forall freq i, Forall (fun c => 0 <= c < 2 ^ 31) freq -> 0 <= total_letters i freq.
Proof.
  induction freq as [|c f IH]; intros i H; [reflexivity|]. inversion H as [|? ? Hc H']; subst. cbn [total_letters].
  specialize (IH (i + 1) H'). destruct (isalpha i); lia.
Qed.

Definition delta (NN : R) : R := (/ 35184372088832 * NN)%R.

Lemma loop_err : forall freq dna prot i sd sp Sd Sp E nk NNz,
  Forall (fun b => entry_ok b = true) dna -> Forall (fun b => entry_ok b = true) prot ->
  length dna = length freq -> length prot = length freq ->
  Forall (fun c => 0 <= c < 2 ^ 31) freq ->
  0 <= nk -> nk + total_letters i freq = NNz -> 1 <= NNz <= 2 ^ 40 ->
  is_finite 53 1024 sd = true -> is_finite 53 1024 sp = true ->
  (Rabs (B2R 53 1024 sd - Sd) <= E)%R -> (Rabs (B2R 53 1024 sp - Sp) <= E)%R ->
  (Rabs Sd <= 32 * IZR nk)%R -> (Rabs Sp <= 32 * IZR nk)%R -> (0 <= E)%R ->
  (E + IZR (Z.of_nat (length freq)) * delta (IZR NNz) <= IZR NNz)%R ->
  let r := detect_loop i freq dna prot sd sp in
  is_finite 53 1024 (fst r) = true /\ is_finite 53 1024 (snd r) = true /\
  (Rabs (B2R 53 1024 (fst r) - (Sd + rloop i freq dna)) <= E + IZR (Z.of_nat (length freq)) * delta (IZR NNz))%R /\
  (Rabs (B2R 53 1024 (snd r) - (Sp + rloop i freq prot)) <= E + IZR (Z.of_nat (length freq)) * delta (IZR NNz))%R.
Proof.
  induction freq as [|c freq IH]; intros dna prot i sd sp Sd Sp E nk NNz Hd Hp Ld Lp Hf Hn Ht HN Fd Fp Ed Ep Bd Bp HE Cap.
  - destruct dna; [|discriminate]. destruct prot; [|discriminate]. cbn [detect_loop rloop fst snd length Z.of_nat].
    rewrite Rmult_0_l, !Rplus_0_r. repeat split; assumption.
  - destruct dna as [|d dna]; [discriminate|]. destruct prot as [|p prot]; [discriminate|].
    apply Forall_cons_iff in Hd. destruct Hd as [Od Hd']. apply Forall_cons_iff in Hp. destruct Hp as [Op Hp'].
    apply Forall_cons_iff in Hf. destruct Hf as [Hc Hf'].
    cbn [length] in Ld, Lp. injection Ld as Ld. injection Lp as Lp.
    assert (NNpos : (1 <= IZR NNz <= 1099511627776)%R).
    { split; [apply (IZR_le 1); lia|apply (IZR_le _ (2 ^ 40)); lia]. }
    assert (Dpos : (0 <= delta (IZR NNz))%R) by (unfold delta; lra).
    set (len := Z.of_nat (length freq)) in *.
    assert (Elen : IZR (Z.of_nat (length (c :: freq))) = (IZR len + 1)%R).
    { cbn [length]. rewrite Nat2Z.inj_succ. unfold len. rewrite succ_IZR. reflexivity. }
    rewrite Elen in *.
    assert (Lpos : (0 <= IZR len)%R) by (apply (IZR_le 0); unfold len; lia).
    set (q := (IZR len * delta (IZR NNz))%R) in *.
    assert (Qpos : (0 <= q)%R) by (unfold q; apply Rmult_le_pos; assumption).
    replace ((IZR len + 1) * delta (IZR NNz))%R with (q + delta (IZR NNz))%R in * by (unfold q; ring).
    pose proof (total_nonneg freq (i + 1) Hf') as Tn.
    cbn [detect_loop rloop total_letters] in *.
    destruct (negb (c =? 0) && isalpha i) eqn:Cond.
    + apply andb_true_iff in Cond. destruct Cond as [Cz Ca]. apply negb_true_iff, Z.eqb_neq in Cz. rewrite Ca in Ht.
      assert (Cp : 0 < c < 2 ^ 31) by lia.
      assert (CN : (IZR c <= IZR NNz)%R) by (apply IZR_le; lia).
      destruct (entry_ok_spec d Od) as (Vd & Fdd & Rd). destruct (entry_ok_spec p Op) as (Vp & Fpp & Rp).
      assert (Bdn : (Rabs Sd <= 32 * IZR NNz)%R) by (eapply Rle_trans; [exact Bd|]; apply Rmult_le_compat_l; [lra|apply IZR_le; lia]).
      assert (Bpn : (Rabs Sp <= 32 * IZR NNz)%R) by (eapply Rle_trans; [exact Bp|]; apply Rmult_le_compat_l; [lra|apply IZR_le; lia]).
      assert (EN : (0 <= E <= IZR NNz)%R) by lra.
      destruct (step_err sd (f64_of_bits d) c Sd E (IZR NNz) (rv d) Fd Fdd Vd Rd Cp CN NNpos Ed EN Bdn) as (F1 & E1).
      destruct (step_err sp (f64_of_bits p) c Sp E (IZR NNz) (rv p) Fp Fpp Vp Rp Cp CN NNpos Ep EN Bpn) as (F2 & E2).
      fold (delta (IZR NNz)) in E1, E2.
      assert (B1 : forall S r, (Rabs S <= 32 * IZR nk)%R -> (Rabs r <= 32)%R -> (Rabs (S + r * IZR c) <= 32 * IZR (nk + c))%R).
      { intros S r HS Hr. rewrite plus_IZR. eapply Rle_trans; [apply Rabs_triang|]. rewrite Rabs_mult, (Rabs_pos_eq (IZR c)) by (apply (IZR_le 0); lia).
        assert (Rabs r * IZR c <= 32 * IZR c)%R by (apply Rmult_le_compat_r; [apply (IZR_le 0); lia|exact Hr]). lra. }
      specialize (IH dna prot (i + 1) _ _ (Sd + rv d * IZR c)%R (Sp + rv p * IZR c)%R (E + delta (IZR NNz))%R (nk + c) NNz
                     Hd' Hp' Ld Lp Hf' ltac:(lia) ltac:(lia) HN F1 F2 E1 E2 (B1 _ _ Bd Rd) (B1 _ _ Bp Rp) ltac:(lra)).
      fold len q in IH. specialize (IH ltac:(lra)). cbv zeta in IH. destruct IH as (G1 & G2 & G3 & G4).
      split; [exact G1|split; [exact G2|split]].
      * replace (Sd + (IZR c * rv d + rloop (i + 1) freq dna))%R with (Sd + rv d * IZR c + rloop (i + 1) freq dna)%R by ring. lra.
      * replace (Sp + (IZR c * rv p + rloop (i + 1) freq prot))%R with (Sp + rv p * IZR c + rloop (i + 1) freq prot)%R by ring. lra.
    + assert (Ht' : nk + total_letters (i + 1) freq = NNz).
      { apply andb_false_iff in Cond. destruct Cond as [Cz|Ca].
        - apply negb_false_iff, Z.eqb_eq in Cz. subst c. destruct (isalpha i); lia.
        - rewrite Ca in Ht. lia. }
      specialize (IH dna prot (i + 1) sd sp Sd Sp E nk NNz Hd' Hp' Ld Lp Hf' Hn Ht' HN Fd Fp Ed Ep Bd Bp HE).
      fold len q in IH. specialize (IH ltac:(lra)). cbv zeta in IH. destruct IH as (G1 & G2 & G3 & G4).
      split; [exact G1|split; [exact G2|split]].
      * rewrite Rplus_0_l. lra.
      * rewrite Rplus_0_l. lra.
Qed.

(* ---- exact margin = difference of the two exact sums ----------------------------------------------------------------- *)
Lemma rloop_margin : forall freq dna prot i, length dna = length freq -> length prot = length freq ->
  (rloop i freq dna - rloop i freq prot =
   IZR (exact_loop i freq (map (fun dp => (f64_scaled (fst dp) - f64_scaled (snd dp))%Z) (combine dna prot))) * bpow radix2 (-1074))%R.
Proof.
  induction freq as [|c freq IH]; intros dna prot i Ld Lp.
  - destruct dna, prot; cbn; ring.
  - destruct dna as [|d dna]; [discriminate|]. destruct prot as [|p prot]; [discriminate|].
    cbn [length] in Ld, Lp. injection Ld as Ld. injection Lp as Lp.
    cbn [rloop combine map exact_loop fst snd]. rewrite plus_IZR, Rmult_plus_distr_r, <- (IH dna prot (i + 1) Ld Lp).
    destruct (negb (c =? 0) && isalpha i); [|cbn; ring].
    unfold rv. rewrite mult_IZR, minus_IZR. ring.
Qed.

Lemma total_bound : forall freq i, Forall (fun c => 0 <= c < 2 ^ 31) freq -> total_letters i freq <= Z.of_nat (length freq) * 2 ^ 31.
Proof.
  induction freq as [|c f IH]; intros i H; [reflexivity|]. apply Forall_cons_iff in H. destruct H as [Hc H'].
  cbn [total_letters length]. specialize (IH (i + 1) H'). rewrite Nat2Z.inj_succ. destruct (isalpha i); lia.
Qed.

Lemma compare64 (x y : f64) : is_finite 53 1024 x = true -> is_finite 53 1024 y = true ->
  b64_compare x y = Some (Rcompare (B2R 53 1024 x) (B2R 53 1024 y)).
Proof. intros Fx Fy. unfold b64_compare. apply Bcompare_correct; assumption. Qed.

(* the binary64 comparison decides like the exact margin unless that margin is tiny (below 2^-37 per counted letter) *)
Theorem float_decides_like_exact freq :
  length freq = 128%nat -> Forall (fun c => 0 <= c < 2 ^ 31) freq ->
  let n := total_letters 0 freq in
  1 <= n -> n * unit1074 < 2 ^ 37 * Z.abs (exact_margin freq) ->
  detect_alphabet freq = Some (if 0 <? exact_margin freq then ALN_BIOTYPE_DNA else ALN_BIOTYPE_PROTEIN).
Proof.
  intros Hl Hf n Hn Hm.
  destruct tables_ok as [TD TP]. rewrite forallb_forall in TD, TP.
  assert (FD : Forall (fun b => entry_ok b = true) detect_DNA) by (apply Forall_forall; exact TD).
  assert (FP : Forall (fun b => entry_ok b = true) detect_protein) by (apply Forall_forall; exact TP).
  destruct exact_margins_b as (_ & _ & _ & LD & LP).
  assert (Nb : 1 <= n <= 2 ^ 40).
  { split; [exact Hn|]. pose proof (total_bound freq 0 Hf) as B. rewrite Hl in B. fold n in B.
    change (Z.of_nat 128 * 2 ^ 31) with (2 ^ 38) in B. assert (2 ^ 38 < 2 ^ 40) by reflexivity. lia. }
  pose proof (loop_err freq detect_DNA detect_protein 0 f64_zero f64_zero 0%R 0%R 0%R 0 n FD FP
                ltac:(rewrite LD, Hl; reflexivity) ltac:(rewrite LP, Hl; reflexivity) Hf ltac:(lia) ltac:(reflexivity) Nb
                eq_refl eq_refl) as L.
  assert (Z0 : B2R 53 1024 f64_zero = 0%R) by reflexivity.
  rewrite Z0, Rminus_0_r, Rabs_R0 in L.
  assert (NR : (1 <= IZR n <= 1099511627776)%R) by (split; [apply (IZR_le 1); lia|apply (IZR_le _ (2 ^ 40)); lia]).
  rewrite Hl in L. change (IZR (Z.of_nat 128)) with 128%R in L. unfold delta in L.
  specialize (L ltac:(lra) ltac:(lra) ltac:(try rewrite Rabs_R0; cbn; lra) ltac:(try rewrite Rabs_R0; cbn; lra) ltac:(lra) ltac:(lra)).
  cbv zeta in L. fold (detect_sums freq) in L.
  destruct (detect_sums freq) as [sd sp] eqn:Es. cbn [fst snd] in L. destruct L as (Fd & Fp & Ed & Ep).
  rewrite !Rplus_0_l in Ed, Ep.
  pose proof (rloop_margin freq detect_DNA detect_protein 0 ltac:(rewrite LD, Hl; reflexivity) ltac:(rewrite LP, Hl; reflexivity)) as RM.
  fold margins in RM. fold (exact_margin freq) in RM.
  set (D := rloop 0 freq detect_DNA) in *. set (P := rloop 0 freq detect_protein) in *.
  set (mg := exact_margin freq) in *.
  (* the margin in real terms *)
  assert (U : (0 < bpow radix2 (-1074))%R) by apply bpow_gt_0.
  assert (UU : (IZR unit1074 * bpow radix2 (-1074) = 1)%R).
  { unfold unit1074. assert (E : IZR (2 ^ 1074) = bpow radix2 1074) by (apply (IZR_Zpower radix2); lia). rewrite E, <- bpow_plus. reflexivity. }
  assert (Big : (IZR n < 137438953472 * (Rabs (IZR mg) * bpow radix2 (-1074)))%R).
  { apply IZR_lt in Hm. rewrite !mult_IZR in Hm. change (IZR (2 ^ 37)) with 137438953472%R in Hm. rewrite abs_IZR in Hm.
    apply (Rmult_lt_compat_r (bpow radix2 (-1074))) in Hm; [|exact U]. rewrite Rmult_assoc, UU in Hm. lra. }
  unfold detect_alphabet. rewrite Es. unfold f64_eq, f64_gt.
  rewrite (compare64 sd sp Fd Fp), (compare64 sp sd Fp Fd).
  apply Rabs_le_inv in Ed. apply Rabs_le_inv in Ep.
  destruct (Z.ltb_spec 0 mg) as [Pos|Neg].
  - assert (G : (B2R 53 1024 sp < B2R 53 1024 sd)%R).
    { rewrite Rabs_pos_eq in Big by (apply (IZR_le 0); lia). lra. }
    rewrite (Rcompare_Gt _ _ G). reflexivity.
  - assert (Hz : mg <> 0) by (intro Q; rewrite Q in Hm; cbn in Hm; lia).
    assert (G : (B2R 53 1024 sd < B2R 53 1024 sp)%R).
    { rewrite Rabs_left in Big by (apply (IZR_lt _ 0); lia). lra. }
    rewrite (Rcompare_Lt _ _ G), (Rcompare_Gt _ _ G). reflexivity.
Qed.

(* ---- the two premises of C13, now about the binary64 computation itself ----------------------------------------- *)
Lemma unit_pos : 0 < unit1074. Proof. unfold unit1074. apply Z.pow_pos_nonneg; lia. Qed.

Theorem nucleotide_detected freq :
  length freq = 128%nat -> Forall (fun c => 0 <= c < 2 ^ 31) freq -> hist_only nuc_or_u 0 freq -> 0 < total_letters 0 freq ->
  detect_alphabet freq = Some ALN_BIOTYPE_DNA.
Proof.
  intros Hl Hf Hh Ht.
  pose proof (exact_nucleotide_loop freq 0 margins ltac:(lia) ltac:(rewrite Hl; lia) eq_refl Hh) as H.
  fold (exact_margin freq) in H. pose proof unit_pos as U.
  set (n := total_letters 0 freq) in *. set (mg := exact_margin freq) in *. set (u := unit1074) in *.
  assert (Hnu : 0 < u * n) by (apply Z.mul_pos_pos; assumption).
  assert (Pm : 0 < mg) by lia.
  pose proof (float_decides_like_exact freq Hl Hf ltac:(fold n; lia)) as D. fold n mg u in D.
  rewrite D.
  - destruct (Z.ltb_spec 0 mg); [reflexivity|lia].
  - rewrite Z.abs_eq by lia. change (2 ^ 37) with 137438953472. lia.
Qed.

Lemma hist_nonneg_of : forall freq, Forall (fun c => 0 <= c < 2 ^ 31) freq -> hist_nonneg freq.
Proof. induction freq as [|c f IH]; intros H; [exact I|]. apply Forall_cons_iff in H. destruct H as [Hc H']. split; [lia|apply IH; exact H']. Qed.

Theorem protein_detected freq :
  length freq = 128%nat -> Forall (fun c => 0 <= c < 2 ^ 31) freq ->
  0 < total_letters 0 freq -> total_letters 0 freq <= 4 * class_count only_po 0 freq ->
  class_count is_nuc_letter 0 freq + class_count only_u 0 freq + class_count only_po 0 freq <= total_letters 0 freq ->
  class_count only_u 0 freq = 0 ->
  detect_alphabet freq = Some ALN_BIOTYPE_PROTEIN.
Proof.
  intros Hl Hf Ht Hq Hsum Hu0. pose proof (hist_nonneg_of freq Hf) as Hh.
  pose proof (exact_upper_loop freq 0 margins ltac:(lia) ltac:(rewrite Hl; lia) eq_refl Hh) as H.
  fold (exact_margin freq) in H. pose proof unit_pos as U. rewrite Hu0 in *.
  set (n := total_letters 0 freq) in *. set (mg := exact_margin freq) in *. set (u := unit1074) in *.
  set (po := class_count only_po 0 freq) in *. set (nuc := class_count is_nuc_letter 0 freq) in *.
  (* 12040 nuc - 102700 po <= 12040 (n - po) - 102700 po <= 12040 n - 114740 n / 4 = -16645 n *)
  assert (B : 12040 * nuc + 112100 * 0 - 102700 * po <= - 16645 * n) by lia.
  assert (Hm : 10000 * mg <= u * (- 16645 * n)) by (eapply Z.le_trans; [exact H|]; apply Z.mul_le_mono_nonneg_l; lia).
  assert (Hnu : 0 < u * n) by (apply Z.mul_pos_pos; assumption).
  assert (Nm : mg < 0) by lia.
  pose proof (float_decides_like_exact freq Hl Hf ltac:(fold n; lia)) as D. fold n mg u in D.
  rewrite D.
  - destruct (Z.ltb_spec 0 mg); [lia|reflexivity].
  - rewrite Z.abs_neq by lia. change (2 ^ 37) with 137438953472. lia.
Qed.
