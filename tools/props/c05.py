"""C05 - no memory error, crash or hang on any input; failures are reported as failures."""
import json, os, re, shutil, struct, subprocess, tempfile
from concurrent.futures import ThreadPoolExecutor
import gen
from props import fmtcommon as fc
from props.c04 import render_clu, render_msf, gapify

HUGE = 1e37          # penalties at or above this magnitude (or infinite): recorded finding D12

def f32bits(x):
    try:
        return struct.unpack('<I', struct.pack('<f', x))[0]
    except OverflowError:
        return 0x7f800000 if x > 0 else 0xff800000

def atof(s):
    m = re.match(r'\s*[+-]?(inf(inity)?|nan|(\d+\.?\d*([eE][+-]?\d+)?|\.\d+([eE][+-]?\d+)?))', s, re.I)
    if not m:
        return 0.0
    try:
        return float(m.group(0))
    except ValueError:
        return 0.0

def atoi(s):
    m = re.match(r'\s*[+-]?\d+', s)
    return int(m.group(0)) if m else 0

def base_files(rng):
    """valid files in the three formats over the real alphabets incl. letters without a class"""
    out = []
    for kind in ('dna', 'protein'):
        for _ in range(2):
            fam, seqs = gen.family(rng, kind, small=True)
            seqs = [s for s in seqs if s][:6]
            if len(seqs) < 2:
                seqs = ['ACGTACGT', 'ACGTTCGT'] if kind == 'dna' else ['MKLWEEF', 'MKIWEDF']
            odd = 'XJOUBZ' if kind == 'protein' else 'XNRYEFIJLOPQZ'
            seqs = [''.join(c if not rng.chance(1, 12) else rng.choice(odd) for c in s) for s in seqs]
            if kind == 'protein':
                seqs = [s + 'WKW' for s in seqs]
            names = fc.gen_names(rng, len(seqs))
            rows = gapify(rng, seqs, 0.3)
            out.append(('fasta', kind, gen.fasta(names, seqs)))
            out.append(('afa', kind, gen.fasta(names, rows, rng.choice([60, 7]))))
            out.append(('clustal', kind, render_clu(names, rows, 60, 0)))
            out.append(('msf', kind, render_msf(names, rows, 50, kind == 'protein')))
    return out

def mutate_bytes(rng, b):
    b = bytearray(b)
    for _ in range(rng.range(1, 6)):
        op = rng.below(9)
        pos = rng.below(max(1, len(b)))
        if op == 0 and b: b[pos] = rng.choice([0, 9, 10, 13, 32, 45, 46, 62, 58, 47, 200, 255, 128, 65, 97, 33, 42])
        elif op == 1 and b: del b[pos]
        elif op == 2: b.insert(pos, rng.choice([10, 32, 62, 45, 78, 255, 0]))
        elif op == 3: b = b[:pos]
        elif op == 4:           # drop a whole line
            ls = bytes(b).split(b'\n');
            if len(ls) > 1: del ls[rng.below(len(ls))]
            b = bytearray(b'\n'.join(ls))
        elif op == 5:           # duplicate a line
            ls = bytes(b).split(b'\n'); i = rng.below(len(ls)); ls.insert(i, ls[i]); b = bytearray(b'\n'.join(ls))
        elif op == 6:           # a very long name / token
            b[pos:pos] = bytes([rng.choice([65, 78, 95])]) * rng.choice([255, 256, 257, 600, 5000])
        elif op == 7:           # a line of punctuation / a stray Name: line
            ins = rng.choice([b'----\n', b'....\n', b' Name: zz Len: 5\n', b' Name:zzLen:5\n', b'//\n', b'>\n', b'\n\n\n'])
            ls = bytes(b).split(b'\n'); i = rng.below(len(ls) + 1); ls.insert(i, ins[:-1]); b = bytearray(b'\n'.join(ls))
        else:                   # swap two lines
            ls = bytes(b).split(b'\n')
            if len(ls) > 2:
                i, j = rng.below(len(ls)), rng.below(len(ls)); ls[i], ls[j] = ls[j], ls[i]
            b = bytearray(b'\n'.join(ls))
    return bytes(b)

PEN_VALUES = [None, None, None, 0.0, 0.5, 5.0, 55.0, 1e10, 1e30, 3e38, float('inf'), float('nan'), -0.0, -3.0]

def parse_recs(line):
    """records of a readfiles OK line -> [(name, residues)]"""
    f = dict(t.split('=', 1) for t in line.split() if '=' in t)
    recs = []
    for r in f['recs'].split(';'):
        nm, res, _ = r.split(':')
        recs.append((bytes.fromhex(nm).decode('latin-1') if nm != '-' else '', bytes.fromhex(res).decode('latin-1') if res != '-' else ''))
    return f, recs

def integrity(recs, names, rows, fmt):
    """the written alignment is a valid alignment of the sequences read (non-empty ones, in input order)"""
    kept = [(n, s) for n, s in recs if s]
    if len(rows) != len(kept):
        return 'row count %d != %d non-empty sequences read' % (len(rows), len(kept))
    if len(set(len(r) for r in rows)) > 1:
        return 'rows of different lengths'
    for (n, s), nm, r in zip(kept, names, rows):
        if r.replace('-', '').replace('.', '') != s:
            return 'row of %r does not spell its sequence' % n[:30]
        if fmt == 'fasta' and nm != n:
            return 'name changed: %r -> %r' % (n[:40], nm[:40])
    return None

def run(ck):
    ck.build(('omp', 'asan', 'asancli'))
    ck.translate()
    ok = ck.prove()
    kvh = ck.harness('asan', 'kvh')
    model = ck.model()
    cli = os.path.join(ck.bdir, 'asan', 'kalign')
    rng = ck.rng
    quick = ck.tier == 'quick'
    ck.rule = ('(A) byte strings as input files: a hand-kept corpus of minimised past failures, then byte- and line-level mutations of valid FASTA / aligned FASTA / Clustal / MSF files '
               '(control bytes, bytes >= 0x80, NUL, truncation, dropped/duplicated/swapped lines, 255..5000-byte tokens, stray punctuation and Name: lines) over alphabets that include letters '
               'without a residue class (X in DNA; J, O, U, B, Z in protein): kalign_read_input of the ASan+UBSan build vs the extracted reader model (ERR / NONE / OK + records); a sanitizer report, '
               'signal or timeout is a violation. (B) every accepted input is aligned by the ASan+UBSan build under random type / penalties (0, small, 1e10, 1e30, 3e38, inf, nan, -0.0, negative) / output format: '
               'outcome must be FAIL or a valid alignment of the sequences read. (C) the ASan+LSan command-line binary under option strings (type words, penalties, -n, -f, missing input, unwritable output, '
               'several inputs, -h/-v/--showw): exit status vs the modelled main(); status 0 must come with a valid alignment and no leak report, a failure status with a message. '
               'Non-trivial = input differs from every valid base file, or option set not the default; distinct by file bytes + options')
    tmp = tempfile.mkdtemp(prefix='kv_c05_')
    env = dict(os.environ, ASAN_OPTIONS='detect_leaks=0:abort_on_error=0', UBSAN_OPTIONS='print_stacktrace=1', KV_KEEP_STDERR='1')
    viol = []       # (name, obj, signature)
    dis = []
    try:
        # ---------------- A: readers --------------------------------------------------------------------
        files = []   # (tag, bytes)
        for ln in open(os.path.join(ck_dir(), 'gen', 'corpus_c05.txt')):
            ln = ln.strip()
            if ln and not ln.startswith('#'):
                tag, hx = ln.split()
                files.append(('corpus:' + tag, bytes.fromhex(hx)))
        bases = base_files(rng)
        for fmt, kind, txt in bases:
            files.append(('valid:' + fmt, txt.encode('latin-1')))
        # sequences whose residue count sits on the growth steps of the per-sequence buffers (512, 1024, ...): one byte
        # past a heap block is invisible without the sanitizer
        for L in ([511, 512, 513, 1024] if quick else [511, 512, 513, 1023, 1024, 1025, 1536, 2048]):
            for kind2 in ('dna', 'protein'):
                al = gen.DNA if kind2 == 'dna' else gen.PROT
                sq = [gen.rand_seq(rng, al, L) + ('' if kind2 == 'dna' else '')] + [gen.rand_seq(rng, al, rng.choice([L, L - 1, 40])) for _ in range(2)]
                if kind2 == 'protein': sq = [x[:-3] + 'WKW' for x in sq]
                nm3 = ['len%d_%d' % (L, i) for i in range(3)]
                rows3 = gapify(rng, sq, 0.05)
                files.append(('valid:boundary-fasta', gen.fasta(nm3, sq, rng.choice([60, 100000])).encode('latin-1')))
                files.append(('valid:boundary-clustal', render_clu(nm3, rows3, 60, 0).encode('latin-1')))
                files.append(('valid:boundary-msf', render_msf(nm3, rows3, 50, kind2 == 'protein').encode('latin-1')))
        nmut = 700 if quick else 8000
        for k in range(nmut):
            fmt, kind, txt = rng.choice(bases)
            files.append(('mutated:' + fmt, mutate_bytes(rng, txt.encode('latin-1'))))
        for k in range(20 if quick else 300):
            n = rng.choice([0, 1, 2, 5, 30, 200])
            files.append(('random-bytes', bytes(rng.choice([62, 10, 65, 67, 71, 84, 45, 32, 0, 255, 78, 58, 47, rng.below(256)]) for _ in range(n))))
        paths = []
        for i, (tag, b) in enumerate(files):
            p = os.path.join(tmp, 'f%d' % i)
            open(p, 'wb').write(b); paths.append(p)
            ck.count('input:' + tag.split(':')[0] + ':' + (tag.split(':')[1] if tag.startswith(('valid', 'mutated')) else ''))
        rl = ['readfiles ' + p for p in paths]
        # a few multi-file reads
        for k in range(20 if quick else 200):
            a, b, c = rng.below(len(paths)), rng.below(len(paths)), rng.below(len(paths))
            rl.append('readfiles %s %s %s' % (paths[a], paths[b], paths[c]))
        # several inputs whose earlier files fill the sequence array exactly (512-slot growth steps of alloc_msa / resize_msa)
        for (n1, n2, n3) in ([(512, 2, 0), (512, 512, 3)] if quick else [(512, 2, 0), (512, 512, 3), (1024, 1, 1), (511, 1, 512), (512, 0, 2)]):
            ps = []
            for j, nn in enumerate((n1, n2, n3)):
                pth = os.path.join(tmp, 'slots_%d_%d_%d_%d' % (n1, n2, n3, j))
                open(pth, 'w').write(''.join('>q%d_%d\n%s\n' % (j, i, gen.rand_seq(rng, 'ACGT', rng.range(3, 9))) for i in range(nn)))
                ps.append(pth)
            rl.append('readfiles ' + ' '.join(ps))
            ck.count('input:several files at the 512-slot boundary')
        ri = ck.run_lines_sharded(kvh, rl, shards=12, timeout=900, env=env)
        rm = ck.run_lines_sharded(model, rl, shards=12, timeout=900)
        st = ck.corr.setdefault('Formats readers vs msa_io.c (ASan+UBSan build, malformed stream)', {'cases': 0, 'disagreements': 0})
        st['cases'] += len(rl); ck.evaluations += len(rl)
        valid_bytes = set(b for t, b in files if t.startswith('valid'))
        for i, (ln, a, b) in enumerate(zip(rl, ri, rm)):
            fb = [open(p, 'rb').read() for p in ln.split()[1:]]
            if a.startswith('CRASH'):
                viol.append(('reader-crash', {'kind': 'memory error / crash / hang in kalign_read_input', 'implementation': a, 'model': b[:300],
                                              'files_hex': [x.hex() for x in fb]}, None))
            elif a != b:
                st['disagreements'] += 1
                dis.append((ln, a, b, [x.hex() for x in fb]))
            if any(x not in valid_bytes for x in fb):
                ck.nontriv(ln and hash(tuple(fb)))
            ck.count('read-outcome:' + a.split()[0])
        ck.sample({'file_hex': files[len(files) // 2][1][:200].hex(), 'implementation': ri[len(files) // 2][:200], 'model': rm[len(files) // 2][:200]})
        # ---------------- B: run under the sanitizers ---------------------------------------------------------
        jobs = []
        for i, (ln, a, b) in enumerate(zip(rl, ri, rm)):
            if not a.startswith('OK') or a != b:
                continue
            if quick and len(jobs) >= 320:
                break
            f, recs = parse_recs(a)
            bt = int(f['biotype'])
            ty = rng.choice([5, 5, 0, 1, 2, 3, 4, 6, -1])
            pens = [rng.choice(PEN_VALUES) for _ in range(3)]
            if rng.chance(3, 4):
                pens = [p if (p is None or p < HUGE) else None for p in pens]
            fmt = rng.choice(['fasta', 'msf', 'clu', 'fasta', 'xyz'])
            outp = os.path.join(tmp, 'o%d' % i)
            pb = [gen.NG if p is None else f32bits(p) for p in pens]
            jobs.append({'line': 'runfile 0 1 %d %d %d %d %s %s %s' % (ty, pb[0], pb[1], pb[2], fmt, outp, ' '.join(ln.split()[1:])),
                         'recs': recs, 'bt': bt, 'ty': ty, 'pens': pens, 'fmt': fmt, 'out': outp, 'files': ln.split()[1:]})
        rr = ck.run_lines_sharded(kvh, [j['line'] for j in jobs], shards=14, timeout=1800, env=env)
        ck.evaluations += len(jobs)
        for j, r in zip(jobs, rr):
            huge = any(p is not None and (p >= HUGE) for p in j['pens'])
            ck.count('run-outcome:' + r.split()[0] + (':' + r.split()[1] if r.startswith('FAIL') and len(r.split()) > 1 else ''))
            desc = {'files_hex': [open(p, 'rb').read().hex() for p in j['files']], 'type': j['ty'], 'penalties': [repr(p) for p in j['pens']], 'format': j['fmt']}
            if r.startswith('CRASH'):
                viol.append(('run-crash', dict(desc, kind='memory error / crash / hang in kalign_run or kalign_write_msa', implementation=r), 'huge-penalty' if huge else None))
            elif r.startswith('OK'):
                txt = fc.read_text(j['out'])
                if txt is None:
                    viol.append(('run-no-output', dict(desc, kind='success reported but nothing written'), None)); continue
                if j['fmt'] == 'fasta': names, rows = gen.parse_fasta(txt)
                elif j['fmt'] == 'msf': _, names, rows = gen.parse_msf(txt)
                else: _, names, rows = gen.parse_clustal(txt)
                if j['fmt'] != 'fasta' and (any((' ' in n or '\t' in n or not n) for n, s in j['recs'] if s) or len(set(n for n, s in j['recs'] if s)) < len([1 for n, s in j['recs'] if s])):
                    continue     # block formats cannot be parsed back by name when names hold blanks or repeat
                why = integrity(j['recs'], names, rows, j['fmt'])
                if why:
                    viol.append(('run-invalid-alignment', dict(desc, kind='success reported but the result is not a valid alignment of the sequences read: ' + why, output=txt[:800]), 'huge-penalty' if huge else None))
                else:
                    ck.nontriv(('run', j['line'].split(' ', 8)[:8], tuple(j['files'])).__repr__())
        # ---------------- C: command line -----------------------------------------------------------------------
        okfiles = [ln.split()[1] for ln, a in zip(rl[:len(paths)], ri) if a.startswith('OK')]
        okkind = {ln.split()[1]: ('dna' if ' biotype=1 ' in a else 'protein') for ln, a in zip(rl[:len(paths)], ri) if a.startswith('OK')}
        badfiles = [ln.split()[1] for ln, a in zip(rl[:len(paths)], ri) if a.startswith(('ERR', 'NONE'))]
        cases = []
        ncli = 220 if quick else 1500
        for k in range(ncli):
            args = []; m = {'v': 0, 'w': 0, 'h': 0, 'nt': 4, 'fmt': None, 'ty': None, 'pens': [None, None, None], 'files': ['STDIN-EMPTY'], 'wok': 1}
            r = rng.below(20)
            if r == 0: args.append(rng.choice(['-v', '-V', '--version'])); m['v'] = 1
            elif r == 1: args.append('--showw'); m['w'] = 1
            elif r == 2: args.append(rng.choice(['-h', '--help'])); m['h'] = 1
            if rng.chance(1, 4):
                s = rng.choice(['1', '2', '16', '64', '1', '2', '0', '-1', 'x']); args += [rng.choice(['-n', '--nthreads']), s]; m['nt'] = atoi(s)
            if rng.chance(1, 2):
                s = rng.choice(['fasta', 'fa', 'msf', 'clu', 'clustal', 'afa', 'fasta', 'msf', 'clu', 'xyz', 'MSF', '']); args += [rng.choice(['-f', '--format']), s]; m['fmt'] = s
            typed = rng.chance(1, 2)
            for pi, on in enumerate(['--gpo', '--gpe', '--tgpe']):
                if rng.chance(1, 4):
                    s = rng.choice(['0', '5', '0.5', '55', '1e10', '-3', 'abc', '1e30', '3e38', 'inf', 'nan', '1e40'] if rng.chance(1, 3) else ['0', '5', '0.5', '55', '1e10', '-3', 'abc'])
                    args += [on, s]; m['pens'][pi] = atof(s)
            nfiles = rng.choice([1, 1, 1, 2, 3, 0])
            ifile, positional = None, []          # read order of run_kalign: stdin, the -i file, then the positional arguments
            for q in range(nfiles):
                kind = rng.below(10)
                if kind < 6 and okfiles: p, tag = rng.choice(okfiles), None
                elif kind < 8 and badfiles: p, tag = rng.choice(badfiles), None
                elif kind == 8: p = os.path.join(tmp, 'does_not_exist_%d_%d' % (k, q)); tag = 'MISSING:' + p
                else: p, tag = rng.choice(paths), None
                if q == 0 and rng.chance(1, 2): ifile = (p, tag or p)
                else: positional.append((p, tag or p))
            if typed:
                first = (ifile or (positional[0] if positional else None))
                kd = okkind.get(first[0]) if first else None
                if kd and rng.chance(2, 3): s2 = rng.choice(['dna', 'rna', 'internal'] if kd == 'dna' else ['protein', 'divergent'])
                else: s2 = rng.choice(['dna', 'rna', 'internal', 'protein', 'divergent', 'pfasum', 'DNA', 'xdnax', ''])
                args += ['--type', s2]; m['ty'] = s2
            if k < 9 and okfiles:      # every output format against an output path that cannot be opened, and against a directory
                args = ['-f', ['fasta', 'msf', 'clu'][k % 3]]; m.update({'v': 0, 'w': 0, 'h': 0, 'nt': 4, 'fmt': ['fasta', 'msf', 'clu'][k % 3], 'ty': None, 'pens': [None, None, None]})
                ifile, positional = (okfiles[k % len(okfiles)], okfiles[k % len(okfiles)]), []
            outp = os.path.join(tmp, 'cli%d.out' % k)
            if rng.chance(1, 8) or (k < 9 and okfiles):
                outp = os.path.join(tmp, 'no_such_dir_%d' % k, 'out'); m['wok'] = 0
            tail = [x[0] for x in positional]
            if ifile:
                if rng.chance(1, 2): args += ['-i', ifile[0]] + tail
                else: args += tail + [rng.choice(['-i', '--input', '--in']), ifile[0]]
            else:
                args += tail
            args += [rng.choice(['-o', '--out']), outp]
            m['files'] = ['STDIN-EMPTY'] + ([ifile[1]] if ifile else []) + [x[1] for x in positional]
            pb = [gen.NG if p is None else f32bits(p) for p in m['pens']]
            enc = lambda s: 'NULL' if s is None else (s.encode().hex() if s else '-')
            mline = 'cli %d %d %d %d %s %s %d %d %d %d %s' % (m['v'], m['w'], m['h'], m['nt'], enc(m['fmt']), enc(m['ty']), pb[0], pb[1], pb[2], m['wok'], ' '.join(m['files']))
            cases.append({'args': args, 'model_line': mline, 'out': outp, 'm': m})
        mres = ck.run_lines(model, [c['model_line'] for c in cases], timeout=900)
        cenv = dict(os.environ, ASAN_OPTIONS='detect_leaks=1', UBSAN_OPTIONS='print_stacktrace=1')
        def run_cli(c):
            try:
                p = subprocess.run([cli] + c['args'], stdin=subprocess.DEVNULL, stdout=subprocess.PIPE, stderr=subprocess.PIPE, timeout=300, env=cenv)
                return p.returncode, p.stdout.decode('latin-1'), p.stderr.decode('latin-1')
            except subprocess.TimeoutExpired:
                return -999, '', 'TIMEOUT'
        with ThreadPoolExecutor(max_workers=14) as ex:
            cres = list(ex.map(run_cli, cases))
        st = ck.corr.setdefault('Cli.cli_main (+ reader/params models) vs the kalign binary: exit status', {'cases': 0, 'disagreements': 0})
        st['cases'] += len(cases); ck.evaluations += len(cases)
        for c, mr, (rc, so, se) in zip(cases, mres, cres):
            huge = any(p is not None and p >= HUGE for p in c['m']['pens'])
            desc = {'argv': c['args'], 'files_hex': {p: open(p, 'rb').read().hex()[:4000] for p in c['m']['files'] if os.path.exists(p)}, 'exit_status': rc, 'model': mr,
                    'stderr_tail': se[-1500:]}
            sig = 'huge-penalty' if huge else None
            san = re.search(r'(ERROR: AddressSanitizer: [\w-]+|runtime error: [^\n]{0,160}|ERROR: LeakSanitizer[^\n]*|TIMEOUT)', se)
            pred = int(re.match(r'exit=(\d+)', mr).group(1)) if mr.startswith('exit=') else None
            written = mr.endswith('written')
            ck.count('cli-outcome:' + (mr.split()[1] if pred is not None else 'model-error') + ':rc=%d' % (rc if rc in (0, 1) else 99))
            if rc not in (0, 1) or (san and not (san.group(1).startswith('ERROR: LeakSanitizer') and rc != 0 and pred == 1)):
                if san and san.group(1).startswith('ERROR: LeakSanitizer') and pred == 1:
                    continue      # leaks on failure paths are outside the property
                viol.append(('cli-crash', dict(desc, kind='sanitizer report / signal / hang in the command-line program: ' + (san.group(1) if san else 'rc=%d' % rc)), sig))
                continue
            if pred is None or rc != pred:
                st['disagreements'] += 1
                dis.append((' '.join(c['args']), 'exit=%d' % rc, mr, []))
                # decide whether it is a property violation by itself
                if rc == 0 and pred == 1 and written is False and not os.path.exists(c['out']):
                    # status 0 without an alignment although an aligning invocation failed
                    viol.append(('cli-silent-failure', dict(desc, kind='exit status 0 but no alignment was written'), sig))
                continue
            if rc == 0 and written:
                txt = fc.read_text(c['out'])
                if txt is None:
                    viol.append(('cli-no-output', dict(desc, kind='exit status 0 but no alignment was written'), sig))
                else:
                    ck.nontriv(('cli', c['args']).__repr__())
            if rc == 1 and not (se.strip() or so.strip()):
                viol.append(('cli-silent', dict(desc, kind='failure status without any message'), sig))
        # ---------------- C2: fixed-size buffers on the way: very long option values, paths and names that end up in messages; outputs
        # whose line count crosses the 1024-line growth step of the block writers (header + one line per sequence + separators)
        extra = []
        longs = ''.join(rng.choice('abcdefghijklmnopqrstuvwxyz0123456789') for _ in range(rng.choice([1000, 1100, 1500])))
        if okfiles:
            extra.append((['-i', os.path.join(tmp, longs[:240], longs)[:4000], '-o', os.path.join(tmp, 'x1.out')], 'missing input with a very long path'))
            extra.append((['-i', okfiles[0], '--format', longs, '-o', os.path.join(tmp, 'x2.out')], 'very long --format value'))
            extra.append((['-i', okfiles[0], '--type', longs, '-o', os.path.join(tmp, 'x3.out')], 'very long --type value'))
        ln_in = os.path.join(tmp, 'longname_empty.fa')
        open(ln_in, 'w').write('>%s\n\n>a\nACGTACGTTGCA\n>b\nACGTTCGTGCA\n>%s\nACGTACGTGCA\n' % (longs, longs[::-1]))
        extra.append((['-i', ln_in, '-o', os.path.join(tmp, 'x4.out')], 'a header-only record and a record with names of 1000+ bytes'))
        for nseq in ([1016, 1017] if quick else [1000, 1015, 1016, 1017, 1018, 1022, 1023, 1024, 2040]):
            root = gen.rand_seq(rng, gen.DNA, rng.range(24, 40))
            mf = os.path.join(tmp, 'many%d.fa' % nseq)
            open(mf, 'w').write(gen.fasta(['q%d' % i for i in range(nseq)], [gen.mutate(rng, root, gen.DNA, 8, 4) for _ in range(nseq)]))
            for f2 in (('msf', 'clu') if not quick or nseq == 1016 else ('msf',)):
                extra.append((['-i', mf, '-f', f2, '-n', '4', '-o', os.path.join(tmp, 'many%d.%s' % (nseq, f2))], '%d sequences written as %s' % (nseq, f2)))
        def run_extra(e):
            try:
                p = subprocess.run([cli] + e[0], stdin=subprocess.DEVNULL, stdout=subprocess.PIPE, stderr=subprocess.PIPE, timeout=600, env=cenv)
                return p.returncode, p.stderr.decode('latin-1')
            except subprocess.TimeoutExpired:
                return -999, 'TIMEOUT'
        with ThreadPoolExecutor(max_workers=8) as ex:
            eres = list(ex.map(run_extra, extra))
        ck.evaluations += len(extra)
        for (argv, what), (rc, se) in zip(extra, eres):
            ck.count('cli-extra:' + what.split(' written')[0][:60])
            san = re.search(r'(ERROR: AddressSanitizer: [\w-]+|runtime error: [^\n]{0,160}|TIMEOUT)', se)
            if rc not in (0, 1) or san:
                viol.append(('cli-crash', {'argv': [a if len(a) < 300 else a[:120] + '...(%d bytes)' % len(a) for a in argv], 'what': what, 'exit_status': rc,
                                           'kind': 'sanitizer report / signal / hang in the command-line program: ' + (san.group(1) if san else 'rc=%d' % rc), 'stderr_tail': se[-1500:]}, None))
        if cases:
            ck.sample({'argv': cases[0]['args'], 'exit_status': cres[0][0], 'model': mres[0]})
        # ---------------- D (thorough): valgrind on a sample -----------------------------------------------------------
        if not quick and shutil.which('valgrind'):
            ck.build(('plaincli',))
            pcli = os.path.join(ck.bdir, 'plain', 'kalign')
            sample = okfiles[:40]
            def vg(p):
                q = subprocess.run(['valgrind', '-q', '--error-exitcode=77', '--leak-check=no', pcli, '-i', p, '-o', p + '.vg.out'], stdin=subprocess.DEVNULL,
                                   stdout=subprocess.PIPE, stderr=subprocess.PIPE, timeout=600)
                return q.returncode, q.stderr.decode('latin-1')
            with ThreadPoolExecutor(max_workers=14) as ex:
                vres = list(ex.map(vg, sample))
            for p, (rc, se) in zip(sample, vres):
                ck.count('valgrind:' + ('clean' if rc != 77 else 'error'))
                if rc == 77:
                    viol.append(('valgrind', {'kind': 'valgrind memcheck error (uninitialised value or invalid access)', 'file_hex': open(p, 'rb').read().hex(), 'report': se[-2000:]}, None))
            ck.evaluations += len(sample)
    finally:
        shutil.rmtree(tmp, ignore_errors=True)
    seen = {}
    for name, obj, sig in viol:
        key = (name, sig)
        seen[key] = seen.get(key, 0) + 1
        if seen[key] <= 2:
            ck.violation(name, obj, signature=sig)
    if not [v for v in viol if v[2] is None]:
        if not ok:
            ck.violation('proof', {'what_no_longer_checks': ck.proof['failed']}, nofail=True)
        elif dis:
            ln, x, y, fb = dis[0]
            ck.violation('correspondence', {'what_no_longer_checks': 'correspondence of the reader / exit-status model with the implementation',
                                            'first_disagreement': {'case': ln[:600], 'implementation': x[:600], 'model': y[:600], 'files_hex': fb}, 'disagreements': len(dis)}, nofail=True)

def ck_dir():
    return os.path.dirname(os.path.dirname(os.path.dirname(os.path.abspath(__file__))))

def replay(ck, obj):
    print(json.dumps(obj, indent=1)[:6000])
    return 0
