(* C17 - The alignment-comparison score is exact.
   Statements only; proofs in CmpProofs.v / CmpProofs2.v.
   The counters are proved at full generality, and so is the floating-point end: the final
   "100.0 * a / b" (binary64 multiply and divide, stored into a float; Flocq's IEEE-754 model) gives
   exactly 100.0f when a = b and a finite float in [0, 100] whenever a <= b, for all counter values
   below 2^46 (they are C ints).  The model of that expression is also tied bit for bit to
   kalign_msa_compare by the correspondence. *)
From KV Require Import Base FP Sort Weave Cmp CmpProofs CmpProofs2 CmpFloatProofs.
From Coq Require Import Reals.
From Flocq Require Import Core IEEE754.Binary.
From Coq Require Import Permutation.
Local Open Scope Z_scope.

(* what the two per-pair tables list: one relation (partner index or gap) per residue of each row;
   the reference totals are exactly the number of listed relations *)
Theorem C17_reference_totals_count_relations : forall x y,
  (fst (pair_totals x y) + snd (pair_totals x y) =
   N.of_nat (length (codes1 x y 0)) + N.of_nat (length (codes1 y x 0)))%N.
Proof. intros. apply pair_totals_codes. Qed.
Print Assumptions C17_reference_totals_count_relations.

(* range: never more reproduced relations than reference relations (so 0 <= a/b <= 1) *)
Theorem C17_range_counters : forall r t,
  (ident_total (compare_counters r t) <= ref_total (compare_counters r t))%N.
Proof. exact counters_range. Qed.
Print Assumptions C17_range_counters.

(* the order of the rows in either alignment does not matter (unique names) *)
Theorem C17_row_order : forall r r' t t',
  names_distinct r -> names_distinct t -> Permutation r r' -> Permutation t t' ->
  compare_counters r' t' = compare_counters r t.
Proof. exact compare_row_order. Qed.
Print Assumptions C17_row_order.

(* all-gap columns are invisible to the relation tables *)
Theorem C17_allgap_columns_invisible : forall x y ng p,
  length x = length y -> length ng = S (length x) ->
  codes1 (expand ng x) (expand ng y) p = codes1 x y p.
Proof. exact codes1_expand. Qed.
Print Assumptions C17_allgap_columns_invisible.

(* same alignment up to row order and all-gap columns: every reference relation is reproduced,
   i.e. a = b and the score is 100 * a / a *)
Theorem C17_same_alignment_reproduces_everything : forall ng1 ng2 w,
  length ng1 = S w -> length ng2 = S w ->
  forall R T0 T, names_distinct R -> names_distinct T0 ->
  Forall2 (same_row ng1 ng2 w) R T0 -> Permutation T0 T ->
  ident_total (compare_counters R T) = ref_total (compare_counters R T).
Proof. intros ng1 ng2 w H1 H2 R T0 T HR HT Hrel Hp. exact (same_alignment_all_relations_reproduced ng1 ng2 w H1 H2 R T0 HR HT T Hrel Hp). Qed.
Print Assumptions C17_same_alignment_reproduces_everything.

(* the floating-point end, for all counter values: a = b > 0 gives exactly 100.0f = 0x42c80000 ... *)
Theorem C17_equal_counters_give_exactly_100 : forall c,
  ident_total c = ref_total c -> (0 < ref_total c < 2 ^ 46)%N -> score_of c = 1120403456%N.
Proof. exact score_equal_is_100. Qed.
Print Assumptions C17_equal_counters_give_exactly_100.

(* ... hence: the same alignment up to row order and all-gap columns scores exactly 100 *)
Theorem C17_same_alignment_scores_100 : forall ng1 ng2 w,
  length ng1 = S w -> length ng2 = S w ->
  forall R T0 T, names_distinct R -> names_distinct T0 ->
  Forall2 (same_row ng1 ng2 w) R T0 -> Permutation T0 T ->
  (0 < ref_total (compare_counters R T) < 2 ^ 46)%N ->
  score_of (compare_counters R T) = 1120403456%N.
Proof.
  intros ng1 ng2 w H1 H2 R T0 T HR HT Hrel Hp Hb. apply score_equal_is_100; [|exact Hb].
  exact (same_alignment_all_relations_reproduced ng1 ng2 w H1 H2 R T0 HR HT T Hrel Hp).
Qed.
Print Assumptions C17_same_alignment_scores_100.

(* ... and every score is a finite float between 0 and 100 (the counters always satisfy a <= b) *)
Theorem C17_score_between_0_and_100 : forall r t,
  (0 < ref_total (compare_counters r t) < 2 ^ 46)%N ->
  exists x : f32, score_of (compare_counters r t) = bits_of_f32 x /\ is_finite 24 128 x = true /\
                  (0 <= B2R 24 128 x <= 100)%R.
Proof. intros r t Hb. apply score_in_range; [apply counters_range|exact Hb]. Qed.
Print Assumptions C17_score_between_0_and_100.

(* Non-vacuity and the float end of the computation on a concrete pair: score 100.0f = 0x42c80000 *)
Example C17_nonvacuous :
  let r := [([97], [65;67;45;71;84]); ([98], [65;67;71;71;84]); ([99], [65;45;45;71;84])] in
  let t := [([99], [65;45;45;45;71;84]); ([97], [65;67;45;45;71;84]); ([98], [65;67;45;71;71;84])] in
  snd (compare_model r t) = 1120403456%N /\
  ident_total (fst (compare_model r t)) = ref_total (fst (compare_model r t)).
Proof. vm_compute. split; reflexivity. Qed.
