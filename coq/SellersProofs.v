(* C11, specification side: the column recurrence [sed] IS the minimum, over all substrings u of the text, of
   the edit distance between u and the pattern (Sellers 1980).  Edit distance is defined the standard way, as
   the least cost of an edit script: [script c a b] says that a can be turned into b with c unit-cost
   substitutions, deletions and insertions. *)
From Coq Require Import ZArith List Bool Lia.
From KV Require Import Base Bpm BpmProofs.
Import ListNotations.
Local Open Scope Z_scope.

Inductive script : Z -> list Z -> list Z -> Prop :=
| s_nil : script 0 [] []
| s_keep x a b c : script c a b -> script c (x :: a) (x :: b)
| s_sub x y a b c : script c a b -> script (c + 1) (x :: a) (y :: b)
| s_del x a b c : script c a b -> script (c + 1) (x :: a) b
| s_ins y a b c : script c a b -> script (c + 1) a (y :: b).

Lemma script_nonneg c a b : script c a b -> 0 <= c.
Proof. induction 1; lia. Qed.

Lemma script_nil_l : forall b c, script c [] b -> c = Z.of_nat (length b).
Proof.
  induction b as [|y b IH]; intros c H; inversion H; subst; [reflexivity|].
  cbn [length]. match goal with Hs : script _ [] b |- _ => rewrite (IH _ Hs) end. lia.
Qed.
Lemma script_nil_r : forall a c, script c a [] -> c = Z.of_nat (length a).
Proof.
  induction a as [|x a IH]; intros c H; inversion H; subst; [reflexivity|].
  cbn [length]. match goal with Hs : script _ a [] |- _ => rewrite (IH _ Hs) end. lia.
Qed.
Lemma script_ins_all : forall b, script (Z.of_nat (length b)) [] b.
Proof.
  induction b as [|y b IH]; [constructor|]. cbn [length]. replace (Z.of_nat (S (length b))) with (Z.of_nat (length b) + 1) by lia.
  constructor. exact IH.
Qed.
Lemma script_del_all : forall a, script (Z.of_nat (length a)) a [].
Proof.
  induction a as [|y b IH]; [constructor|]. cbn [length]. replace (Z.of_nat (S (length b))) with (Z.of_nat (length b) + 1) by lia.
  constructor. exact IH.
Qed.

Definition delta (x y : Z) : Z := if x =? y then 0 else 1.

(* scripts can be extended at the END *)
Lemma script_snoc_pair : forall c a b x y, script c a b -> script (c + delta x y) (a ++ [x]) (b ++ [y]).
Proof.
  intros c a b x y H. induction H; cbn [app].
  - unfold delta. destruct (Z.eqb_spec x y) as [->|N]; [constructor; constructor|]. apply (s_sub x y [] [] 0). constructor.
  - constructor. exact IHscript.
  - replace (c + 1 + delta x y) with (c + delta x y + 1) by lia. constructor. exact IHscript.
  - replace (c + 1 + delta x y) with (c + delta x y + 1) by lia. constructor. exact IHscript.
  - replace (c + 1 + delta x y) with (c + delta x y + 1) by lia. constructor. exact IHscript.
Qed.
Lemma script_snoc_del : forall c a b x, script c a b -> script (c + 1) (a ++ [x]) b.
Proof.
  intros c a b x H. induction H; cbn [app].
  - apply (s_del x [] [] 0). constructor.
  - constructor. exact IHscript.
  - apply s_sub. exact IHscript.
  - apply s_del. exact IHscript.
  - apply s_ins. exact IHscript.
Qed.
Lemma script_snoc_ins : forall c a b y, script c a b -> script (c + 1) a (b ++ [y]).
Proof.
  intros c a b y H. induction H; cbn [app].
  - apply (s_ins y [] [] 0). constructor.
  - constructor. exact IHscript.
  - apply s_sub. exact IHscript.
  - apply s_del. exact IHscript.
  - apply s_ins. exact IHscript.
Qed.

(* ... and decomposed at the END: the last operation of a script between a ++ [x] and b ++ [y] *)
Lemma script_last : forall c a' b', script c a' b' -> forall a x b y, a' = a ++ [x] -> b' = b ++ [y] ->
  (exists c0, script c0 a b /\ c0 + delta x y <= c) \/
  (exists c0, script c0 a (b ++ [y]) /\ c0 + 1 <= c) \/
  (exists c0, script c0 (a ++ [x]) b /\ c0 + 1 <= c).
Proof.
  induction 1 as [|x0 a0 b0 c H IH|x0 y0 a0 b0 c H IH|x0 a0 b0 c H IH|y0 a0 b0 c H IH]; intros a x b y Ea Eb.
  - destruct a; discriminate.
  - destruct a as [|a1 a]; destruct b as [|b1 b]; cbn [app] in Ea, Eb; inversion Ea; inversion Eb; subst.
    + inversion H; subst. left. exists 0. split; [constructor|]. unfold delta. rewrite Z.eqb_refl. lia.
    + right. right. exists (Z.of_nat (length b)). split.
      * cbn [app]. constructor. apply script_ins_all.
      * apply script_nil_l in H. rewrite app_length in H. cbn [length] in H. lia.
    + right. left. exists (Z.of_nat (length a)). split.
      * cbn [app]. constructor. apply script_del_all.
      * apply script_nil_r in H. rewrite app_length in H. cbn [length] in H. lia.
    + destruct (IH a x b y eq_refl eq_refl) as [(c0 & S0 & L0)|[(c0 & S0 & L0)|(c0 & S0 & L0)]].
      * left. exists c0. split; [constructor; exact S0|exact L0].
      * right. left. exists c0. split; [cbn [app]; constructor; exact S0|exact L0].
      * right. right. exists c0. split; [cbn [app]; constructor; exact S0|exact L0].
  - destruct a as [|a1 a]; destruct b as [|b1 b]; cbn [app] in Ea, Eb; inversion Ea; inversion Eb; subst.
    + inversion H; subst. left. exists 0. split; [constructor|]. unfold delta. destruct (x =? y); lia.
    + right. right. exists (Z.of_nat (length b) + 1). split.
      * cbn [app]. apply s_sub. apply script_ins_all.
      * apply script_nil_l in H. rewrite app_length in H. cbn [length] in H. lia.
    + right. left. exists (Z.of_nat (length a) + 1). split.
      * cbn [app]. apply s_sub. apply script_del_all.
      * apply script_nil_r in H. rewrite app_length in H. cbn [length] in H. lia.
    + destruct (IH a x b y eq_refl eq_refl) as [(c0 & S0 & L0)|[(c0 & S0 & L0)|(c0 & S0 & L0)]].
      * left. exists (c0 + 1). split; [apply s_sub; exact S0|lia].
      * right. left. exists (c0 + 1). split; [cbn [app]; apply s_sub; exact S0|lia].
      * right. right. exists (c0 + 1). split; [cbn [app]; apply s_sub; exact S0|lia].
  - destruct a as [|a1 a]; cbn [app] in Ea; inversion Ea; subst.
    + right. left. exists c. split; [exact H|lia].
    + destruct (IH a x b y eq_refl eq_refl) as [(c0 & S0 & L0)|[(c0 & S0 & L0)|(c0 & S0 & L0)]].
      * left. exists (c0 + 1). split; [apply s_del; exact S0|lia].
      * right. left. exists (c0 + 1). split; [apply s_del; exact S0|lia].
      * right. right. exists (c0 + 1). split; [cbn [app]; apply s_del; exact S0|lia].
  - destruct b as [|b1 b]; cbn [app] in Eb; inversion Eb; subst.
    + right. right. exists c. split; [exact H|lia].
    + destruct (IH a x b y eq_refl eq_refl) as [(c0 & S0 & L0)|[(c0 & S0 & L0)|(c0 & S0 & L0)]].
      * left. exists (c0 + 1). split; [apply s_ins; exact S0|lia].
      * right. left. exists (c0 + 1). split; [cbn [app]; apply s_ins; exact S0|lia].
      * right. right. exists (c0 + 1). split; [apply s_ins; exact S0|lia].
Qed.

(* D(T, P) = d: d is the least cost of a script from some SUFFIX of T to P *)
Definition isD (T P : list Z) (d : Z) : Prop :=
  (exists w v, T = w ++ v /\ script d v P) /\ (forall w v c, T = w ++ v -> script c v P -> d <= c).

Lemma isD_row0 T : isD T [] 0.
Proof.
  split.
  - exists T, []. split; [symmetry; apply app_nil_r|constructor].
  - intros w v c _ S. eapply script_nonneg; exact S.
Qed.
Lemma isD_col0 P : isD [] P (Z.of_nat (length P)).
Proof.
  split.
  - exists [], []. split; [reflexivity|apply script_ins_all].
  - intros w v c E S. symmetry in E. apply app_eq_nil in E. destruct E as [_ ->]. apply script_nil_l in S. lia.
Qed.

Lemma snoc_cases : forall (v : list Z), v = [] \/ exists v' x, v = v' ++ [x].
Proof.
  intros v. destruct v as [|h t]; [left; reflexivity|right].
  destruct (@exists_last _ (h :: t)) as (v' & x & E); [discriminate|]. exists v', x. exact E.
Qed.

(* one cell of the recurrence *)
Lemma cell_isD T P c pi dg up lf :
  isD T P dg -> isD T (P ++ [pi]) up -> isD (T ++ [c]) P lf ->
  isD (T ++ [c]) (P ++ [pi]) (Z.min (Z.min (dg + (if pi =? c then 0 else 1)) (up + 1)) (lf + 1)).
Proof.
  intros [(w1 & v1 & E1 & S1) M1] [(w2 & v2 & E2 & S2) M2] [(w3 & v3 & E3 & S3) M3].
  assert (Hd : (if pi =? c then 0 else 1) = delta c pi) by (unfold delta; rewrite Z.eqb_sym; reflexivity).
  rewrite Hd. split.
  - destruct (Z.min_spec (Z.min (dg + delta c pi) (up + 1)) (lf + 1)) as [[_ ->]|[_ ->]].
    + destruct (Z.min_spec (dg + delta c pi) (up + 1)) as [[_ ->]|[_ ->]].
      * exists w1, (v1 ++ [c]). split; [rewrite E1, app_assoc; reflexivity|apply script_snoc_pair; exact S1].
      * exists w2, (v2 ++ [c]). split; [rewrite E2, app_assoc; reflexivity|apply script_snoc_del; exact S2].
    + exists w3, v3. split; [exact E3|apply script_snoc_ins; exact S3].
  - intros w v c0 E S.
    destruct (snoc_cases v) as [->|(v' & x & ->)].
    + apply script_nil_l in S. rewrite app_length in S. cbn [length] in S.
      assert (lf <= Z.of_nat (length P)).
      { apply (M3 (T ++ [c]) []); [symmetry; apply app_nil_r|apply script_ins_all]. }
      lia.
    + rewrite app_assoc in E. apply app_inj_tail in E. destruct E as [ET <-].
      destruct (script_last _ _ _ S v' c P pi eq_refl eq_refl) as [(c1 & S' & L)|[(c1 & S' & L)|(c1 & S' & L)]].
      * pose proof (M1 w v' c1 ET S'). lia.
      * pose proof (M2 w v' c1 ET S'). lia.
      * assert (lf <= c1). { apply (M3 w (v' ++ [c])); [rewrite ET, app_assoc; reflexivity|exact S']. } lia.
Qed.

(* one column *)
Lemma next_col_isD T c : forall p_rest P_done prev dg lf,
  length prev = length p_rest ->
  isD T P_done dg -> isD (T ++ [c]) P_done lf ->
  (forall i, (i < length p_rest)%nat -> isD T (P_done ++ firstn (S i) p_rest) (nth i prev 0)) ->
  length (next_col c p_rest prev dg lf) = length p_rest /\
  forall i, (i < length p_rest)%nat -> isD (T ++ [c]) (P_done ++ firstn (S i) p_rest) (nth i (next_col c p_rest prev dg lf) 0).
Proof.
  induction p_rest as [|pi p' IH]; intros P_done prev dg lf HL Hdg Hlf Hprev.
  - split; [reflexivity|]. intros i Hi. cbn [length] in Hi. lia.
  - destruct prev as [|up prev']; [discriminate|]. cbn [next_col].
    set (v := Z.min (Z.min (dg + (if pi =? c then 0 else 1)) (up + 1)) (lf + 1)).
    assert (Hup : isD T (P_done ++ [pi]) up) by (apply (Hprev 0%nat); cbn [length]; lia).
    assert (Hv : isD (T ++ [c]) (P_done ++ [pi]) v) by (apply cell_isD; assumption).
    destruct (IH (P_done ++ [pi]) prev' up v) as [IL IN].
    + cbn [length] in HL. lia.
    + exact Hup.
    + exact Hv.
    + intros i Hi. rewrite <- app_assoc. cbn [app]. apply (Hprev (S i)). cbn [length]. lia.
    + split; [cbn [length]; rewrite IL; reflexivity|].
      intros [|i] Hi.
      * cbn [nth firstn]. exact Hv.
      * cbn [nth]. specialize (IN i). rewrite <- app_assoc in IN. cbn [app] in IN. apply IN. cbn [length] in Hi. lia.
Qed.

Definition col_ok (T p col : list Z) : Prop :=
  length col = length p /\ forall i, (i < length p)%nat -> isD T (firstn (S i) p) (nth i col 0).

Lemma col_step T p col c : col_ok T p col -> col_ok (T ++ [c]) p (next_col c p col 0 0).
Proof.
  intros [HL HC]. destruct (next_col_isD T c p [] col 0 0 HL (isD_row0 T) (isD_row0 (T ++ [c]))) as [A B].
  - intros i Hi. cbn [app]. apply HC. exact Hi.
  - split; [exact A|]. intros i Hi. apply (B i Hi).
Qed.

Lemma nth_map_seq (f : nat -> Z) n i d : (i < n)%nat -> nth i (map f (seq 0 n)) d = f i.
Proof.
  intros Hi. rewrite (nth_indep _ d (f 0%nat)) by (rewrite map_length, seq_length; exact Hi).
  rewrite map_nth, seq_nth by exact Hi. reflexivity.
Qed.

Lemma col_init p : col_ok [] p (map (fun i => Z.of_nat i + 1) (seq 0 (length p))).
Proof.
  split; [rewrite map_length, seq_length; reflexivity|].
  intros i Hi.
  rewrite nth_map_seq by exact Hi.
  pose proof (isD_col0 (firstn (S i) p)) as H. rewrite firstn_length_le in H by lia.
  replace (Z.of_nat i + 1) with (Z.of_nat (S i)) by lia. exact H.
Qed.

Lemma col_last T p col : col_ok T p col -> isD T p (last col 0).
Proof.
  intros [HL HC]. destruct p as [|p0 p'].
  - destruct col; [|discriminate]. apply isD_row0.
  - assert (Hn : col <> []) by (destruct col; [discriminate|discriminate]).
    destruct (exists_last Hn) as (c' & x & E). subst col. rewrite last_last.
    rewrite app_length in HL. cbn [length] in HL.
    specialize (HC (length c')). rewrite app_nth2, Nat.sub_diag in HC by lia. cbn [nth] in HC.
    replace (S (length c')) with (length (p0 :: p')) in HC by (cbn [length]; lia).
    rewrite firstn_all in HC. apply HC. cbn [length]. lia.
Qed.

(* the running minimum over all columns = least cost over all SUBSTRINGS *)
Definition bestOK (T p : list Z) (best : Z) : Prop :=
  (exists pre u post, T = pre ++ u ++ post /\ script best u p) /\
  (forall pre u post c, T = pre ++ u ++ post -> script c u p -> best <= c).

Lemma best_init p : bestOK [] p (Z.of_nat (length p)).
Proof.
  split.
  - exists [], [], []. split; [reflexivity|apply script_ins_all].
  - intros pre u post c E S. symmetry in E. apply app_eq_nil in E. destruct E as [_ E]. apply app_eq_nil in E. destruct E as [-> _].
    apply script_nil_l in S. lia.
Qed.

Lemma best_step T p best d c : bestOK T p best -> isD (T ++ [c]) p d -> bestOK (T ++ [c]) p (Z.min best d).
Proof.
  intros [(pre & u & post & E & S) M] [(w & v & Ev & Sv) Mv]. split.
  - destruct (Z.min_spec best d) as [[_ ->]|[_ ->]].
    + exists pre, u, (post ++ [c]). split; [rewrite E, <- !app_assoc; reflexivity|exact S].
    + exists w, v, []. split; [rewrite app_nil_r; exact Ev|exact Sv].
  - intros pre' u' post' c0 E' S'.
    destruct (snoc_cases post') as [->|(q & x & ->)].
    + rewrite app_nil_r in E'. pose proof (Mv pre' u' c0 E' S'). lia.
    + rewrite !app_assoc in E'. apply app_inj_tail in E'. destruct E' as [ET _].
      rewrite <- app_assoc in ET. pose proof (M pre' u' q c0 ET S'). lia.
Qed.

Lemma sed_fold_inv p : forall rest T col best, col_ok T p col -> bestOK T p best ->
  bestOK (T ++ rest) p (snd (fold_left (fun st c => let '(col, best) := st in
                              let col' := next_col c p col 0 0 in (col', Z.min best (last col' 0))) rest (col, best))).
Proof.
  induction rest as [|c rest IH]; intros T col best HC HB.
  - rewrite app_nil_r. exact HB.
  - cbn [fold_left]. replace (T ++ c :: rest) with ((T ++ [c]) ++ rest) by (rewrite <- app_assoc; reflexivity).
    apply IH.
    + apply col_step. exact HC.
    + apply best_step; [exact HB|]. apply col_last. apply col_step. exact HC.
Qed.

(* Sellers: sed t p is attained by a substring of t, and no substring does better *)
Theorem sed_is_min_substring_edit_distance t p :
  (exists pre u post, t = pre ++ u ++ post /\ script (sed t p) u p) /\
  (forall pre u post c, t = pre ++ u ++ post -> script c u p -> sed t p <= c).
Proof.
  pose proof (sed_fold_inv p t [] _ _ (col_init p) (best_init p)) as H. cbn [app] in H.
  unfold sed. destruct (fold_left _ t _) as [col best]. exact H.
Qed.

(* the executable Levenshtein distance is the least script cost, so the theorem can also be read as
   sed t p = min { lev u p | u substring of t } *)
Fixpoint lev (a : list Z) : list Z -> Z :=
  match a with
  | [] => fun b => Z.of_nat (length b)
  | x :: a' => fix levb (b : list Z) : Z :=
      match b with
      | [] => Z.of_nat (length a') + 1
      | y :: b' => Z.min (Z.min (lev a' b' + delta x y) (lev a' b + 1)) (levb b' + 1)
      end
  end.

Lemma lev_nil_r a : lev a [] = Z.of_nat (length a).
Proof. destruct a; cbn [lev length]; lia. Qed.
Lemma lev_cons_cons x a y b :
  lev (x :: a) (y :: b) = Z.min (Z.min (lev a b + delta x y) (lev a (y :: b) + 1)) (lev (x :: a) b + 1).
Proof. reflexivity. Qed.

Lemma lev_script : forall a b, script (lev a b) a b.
Proof.
  induction a as [|x a IHa]; intros b.
  - apply script_ins_all.
  - induction b as [|y b IHb].
    + rewrite lev_nil_r. apply script_del_all.
    + rewrite lev_cons_cons.
      destruct (Z.min_spec (Z.min (lev a b + delta x y) (lev a (y :: b) + 1)) (lev (x :: a) b + 1)) as [[_ ->]|[_ ->]].
      * destruct (Z.min_spec (lev a b + delta x y) (lev a (y :: b) + 1)) as [[_ ->]|[_ ->]].
        -- unfold delta. destruct (Z.eqb_spec x y) as [->|N].
           ++ rewrite Z.add_0_r. apply s_keep. apply IHa.
           ++ apply s_sub. apply IHa.
        -- apply s_del. apply IHa.
      * apply s_ins. exact IHb.
Qed.

Lemma lev_min : forall c a b, script c a b -> lev a b <= c.
Proof.
  induction 1 as [|x a b c H IH|x y a b c H IH|x a b c H IH|y a b c H IH].
  - cbn. lia.
  - rewrite lev_cons_cons. unfold delta. rewrite Z.eqb_refl. lia.
  - rewrite lev_cons_cons. unfold delta. destruct (x =? y); lia.
  - destruct b as [|y b]; [rewrite lev_nil_r in *; cbn [length]; lia|]. rewrite lev_cons_cons. lia.
  - destruct a as [|x a]; [cbn [lev length] in *; lia|]. rewrite lev_cons_cons. lia.
Qed.

Theorem sed_is_min_substring_lev t p :
  (exists pre u post, t = pre ++ u ++ post /\ lev u p = sed t p) /\
  (forall pre u post, t = pre ++ u ++ post -> sed t p <= lev u p).
Proof.
  destruct (sed_is_min_substring_edit_distance t p) as [(pre & u & post & E & S) M]. split.
  - exists pre, u, post. split; [exact E|]. apply Z.le_antisymm; [apply lev_min; exact S|].
    apply (M pre u post); [exact E|apply lev_script].
  - intros pre' u' post' E'. apply (M pre' u' post'); [exact E'|apply lev_script].
Qed.

(* ---- distance 0 = containment ---------------------------------------------------------------------------------------- *)
Lemma script_zero_eq : forall c a b, script c a b -> c = 0 -> a = b.
Proof.
  induction 1 as [|x a b c H IH|x y a b c H IH|x a b c H IH|y a b c H IH]; intros E; try (pose proof (script_nonneg _ _ _ H); lia).
  - reflexivity.
  - f_equal. apply IH. exact E.
Qed.
Lemma script_refl : forall a, script 0 a a.
Proof. induction a as [|x a IH]; [constructor|apply s_keep; exact IH]. Qed.

Theorem sed_zero_iff_contained t p : sed t p = 0 <-> exists pre post, t = pre ++ p ++ post.
Proof.
  destruct (sed_is_min_substring_edit_distance t p) as [(pre & u & post & E & S) M]. split.
  - intros Z0. rewrite Z0 in S. exists pre, post. rewrite <- (script_zero_eq _ _ _ S eq_refl). exact E.
  - intros (pre' & post' & E'). apply Z.le_antisymm; [apply (M pre' p post' 0 E' (script_refl p))|apply (script_nonneg _ _ _ S)].
Qed.
