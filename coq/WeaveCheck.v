(* Executable predicates over observed data (raw paths, task lists, rows): the statements of the
   weave-layer theorems as boolean functions.  Used (extracted) as the oracle of the
   implementation-side witness search and to monitor theorem premises on observed values. *)
From KV Require Import Base Weave WeaveProofs.
Local Open Scope Z_scope.

(* ---- well-formed raw path (derived from aln_setup.c:140-190, see DESIGN C01) --------------- *)
(* cur = number of side-2 columns consumed so far; b = previous entry *)
Fixpoint wf_rest (lb cur b : Z) (ps : list Z) : bool :=
  match ps with
  | [] => if b =? -1 then cur =? lb else b <=? lb
  | p :: ps' =>
    if p =? -1 then wf_rest lb cur p ps'
    else if b =? -1 then (p =? cur + 1) && wf_rest lb p p ps'
    else (b <? p) && wf_rest lb p p ps'
  end.

Definition kpath_wfb (lb : Z) (path : list Z) : bool :=
  match path with
  | [] => false
  | p1 :: ps =>
    existsb (fun p => negb (p =? -1)) path &&
    (if p1 =? -1 then wf_rest lb 0 p1 ps else (1 <=? p1) && wf_rest lb p1 p1 ps)
  end.

(* ---- ops fit two widths ------------------------------------------------------------------- *)
Definition ops_fitb (ks : list opk) (la lb : nat) : bool :=
  Nat.eqb (cnt is_M ks + cnt is_GB ks) la && Nat.eqb (cnt is_M ks + cnt is_GA ks) lb &&
  Nat.eqb (cnt is_NONE ks) 0.

Lemma ops_fitb_ok ks la lb : ops_fitb ks la lb = true -> ops_fit ks la lb.
Proof.
  unfold ops_fitb, ops_fit. intro H.
  apply andb_true_iff in H as [H H3]. apply andb_true_iff in H as [H1 H2].
  apply Nat.eqb_eq in H1, H2, H3. auto.
Qed.

(* ---- alignment integrity of a result (C01) -------------------------------------------------- *)
Definition nonempty (s : list Z) : bool := match s with [] => false | _ => true end.

Fixpoint all_same_length (rows : list (list Z)) : bool :=
  match rows with
  | [] => true
  | r :: rest => forallb (fun r' => Nat.eqb (length r') (length r)) rest
  end.

Definition no_allgap_b (rows : list (list Z)) : bool :=
  match rows with
  | [] => true
  | r :: rest => negb (existsb (fun b => b) (block_mask r rest))
  end.

Fixpoint forall2b {A B} (f : A -> B -> bool) (a : list A) (b : list B) : bool :=
  match a, b with
  | [], [] => true
  | x :: a', y :: b' => f x y && forall2b f a' b'
  | _, _ => false
  end.

Definition integrity_b (inputs rows : list (list Z)) : bool :=
  forall2b (fun inp row => list_eqb Z.eqb (degap row) inp) (filter nonempty inputs) rows &&
  all_same_length rows && no_allgap_b rows.

(* ---- finished sub-alignments stay intact (C10) ---------------------------------------------- *)
Definition rows_eqb (a b : list (list Z)) : bool := list_eqb (list_eqb Z.eqb) a b.

(* snapshot: member indices and their rows when the node completed; final: all final rows *)
Definition subalignment_b (final : list (list Z)) (snap : list nat * list (list Z)) : bool :=
  rows_eqb (strip_allgap (map (fun i => nth i final []) (fst snap))) (snd snap).
