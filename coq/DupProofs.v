(* Weave-level theorems for C08 (identical inputs) and C12 (duplicates):
   - a merge whose expanded path consists of matches only inserts no gap anywhere;
   - two rows of one group that are equal stay equal through every later merge.
   Pure lists, no floats. *)
From KV Require Import Base Weave WeaveProofs WeaveCheck AssemblyProofs.
Local Open Scope nat_scope.

(* ---- all-match paths ----------------------------------------------------------------------------------- *)
Lemma sum_nat_zeros k : sum_nat (repeat 0 k) = 0.
Proof. induction k; simpl; auto. Qed.

Lemma firstn_zeros k m : firstn k (repeat 0 m) = repeat 0 (Nat.min k m).
Proof. revert m; induction k; intros [|m]; simpl; auto. f_equal. apply IHk. Qed.
Lemma skipn_zeros k m : skipn k (repeat 0 m) = repeat 0 (m - k).
Proof. revert m; induction k; intros [|m]; simpl; auto. Qed.

Lemma update_gaps_zeros : forall gis m, update_gaps gis (repeat 0 m) = gis.
Proof.
  induction gis as [|g gis IH]; intro m; [reflexivity|].
  cbn [update_gaps]. rewrite firstn_zeros, sum_nat_zeros, Nat.add_0_r, skipn_zeros, IH. reflexivity.
Qed.

Lemma gapvec_a_matches k c : gapvec_a (repeat OM k) c = c :: repeat 0 k.
Proof. revert c; induction k; intro c; simpl; [reflexivity|]. rewrite IHk. reflexivity. Qed.
Lemma gapvec_b_matches k c : gapvec_b (repeat OM k) c = c :: repeat 0 k.
Proof. revert c; induction k; intro c; simpl; [reflexivity|]. rewrite IHk. reflexivity. Qed.

Lemma upd_member_zeros m ms gaps : upd_member (repeat 0 m) ms gaps = gaps.
Proof.
  unfold upd_member.
  assert (H : forall (l : list (list nat)) s, map (fun ig : nat * list nat => if existsb (Nat.eqb (fst ig)) ms then update_gaps (snd ig) (repeat 0 m) else snd ig)
                        (combine (seq s (length l)) l) = l).
  { induction l as [|g l IH]; intro s; simpl; [reflexivity|].
    rewrite update_gaps_zeros. destruct (existsb _ ms); f_equal; apply IH. }
  apply H.
Qed.

Definition all_match (ops : list Z) : Prop := Forall (fun o => o = 0%Z) ops.

Lemma kinds_all_match ops : all_match ops -> map op_kind ops = repeat OM (length ops).
Proof. induction 1 as [|o ops E _ IH]; simpl; [reflexivity|]. subst o. rewrite IH. reflexivity. Qed.

Lemma make_seq_all_match ops ma mb gaps : all_match ops -> make_seq ops ma mb gaps = gaps.
Proof.
  intro H. unfold make_seq. rewrite (kinds_all_match ops H), gapvec_a_matches, gapvec_b_matches.
  change (0 :: repeat 0 (length ops)) with (repeat 0 (S (length ops))).
  rewrite !upd_member_zeros. reflexivity.
Qed.

(* C08, weave layer: if every merge of a run aligns its two groups column by column, no gap vector ever
   changes - whatever the guide tree *)
Theorem all_match_run_keeps_gaps : forall (tasks : list (nat * nat * nat * list Z)) st,
  Forall (fun t => all_match (snd t)) tasks ->
  w_gaps (fold_left (fun st t => let '(a, b, c, ops) := t in merge_step st a b c ops) tasks st) = w_gaps st.
Proof.
  induction tasks as [|[[[a b] c] ops] tasks IH]; intros st H; simpl; [reflexivity|].
  inversion H; subst. rewrite IH by assumption. unfold merge_step. cbn [w_gaps]. apply make_seq_all_match. assumption.
Qed.

Theorem all_match_run_no_gaps : forall seqs tasks,
  Forall (fun t => all_match (snd t)) tasks ->
  final_rows (run_merges (map (@length Z) seqs) tasks) seqs = seqs.
Proof.
  intros seqs tasks H. unfold final_rows, run_merges. rewrite all_match_run_keeps_gaps by assumption.
  unfold init_wstate. cbn [w_gaps]. rewrite map_map.
  induction seqs as [|s seqs IH]; simpl; [reflexivity|]. f_equal; [|exact IH].
  clear. change (0 :: repeat 0 (length s)) with (repeat 0 (S (length s))).
  induction s as [|c s IH]; simpl; [reflexivity|]. f_equal. exact IH.
Qed.

(* the diagonal raw path 1, 2, .., L against a side of the same length expands to matches only *)
Definition diag (L : nat) : list Z := map (fun i => (Z.of_nat i + 1)%Z) (seq 0 L).

Lemma rest_ops_consecutive : forall k b, (0 <= b)%Z ->
  rest_ops b (map (fun i => (b + 1 + Z.of_nat i)%Z) (seq 0 k)) = repeat 0%Z k.
Proof.
  induction k as [|k IH]; intros b Hb; [reflexivity|].
  cbn [seq map rest_ops]. rewrite Z.add_0_r.
  replace (b + 1 =? -1)%Z with false by (symmetry; apply Z.eqb_neq; lia).
  replace (b + 1 - 1 =? b)%Z with true by (symmetry; apply Z.eqb_eq; lia).
  cbn [negb andb app repeat]. f_equal.
  rewrite <- seq_shift, map_map. rewrite <- (IH (b + 1)%Z) by lia. f_equal. apply map_ext. intro i. lia.
Qed.

Lemma last_diag L : last (diag (S L)) (-1)%Z = Z.of_nat (S L).
Proof.
  unfold diag. rewrite seq_S, map_app. cbn [map]. rewrite last_last. lia.
Qed.

Lemma rev_zeros k : rev (repeat 0%Z k) = repeat 0%Z k.
Proof.
  induction k as [|k IH]; [reflexivity|]. simpl. rewrite IH. clear IH.
  induction k as [|k IH]; [reflexivity|]. simpl. rewrite IH. reflexivity.
Qed.

Lemma flag_leading_zeros k : flag_leading (repeat 0%Z k) = repeat 0%Z k.
Proof. destruct k; reflexivity. Qed.

Lemma raw_ops_diag L : raw_ops (Z.of_nat (S L)) (diag (S L)) = repeat 0%Z (S L).
Proof.
  unfold raw_ops.
  assert (D : diag (S L) = 1%Z :: map (fun i => (1 + 1 + Z.of_nat i)%Z) (seq 0 L)).
  { unfold diag. cbn [seq map]. f_equal. rewrite <- seq_shift, map_map. apply map_ext. intro i. lia. }
  unfold tail_ops. rewrite last_diag. rewrite D.
  cbn [first_ops Z.eqb Pos.eqb negb]. rewrite rest_ops_consecutive by lia.
  replace (Z.of_nat (S L) <? Z.of_nat (S L))%Z with false by (symmetry; apply Z.ltb_ge; lia).
  cbn [andb app]. rewrite app_nil_r. reflexivity.
Qed.

Theorem diagonal_path_all_match : forall L, (1 <= L)%nat ->
  add_gap_info (Z.of_nat L) (diag L) = Some (repeat 0%Z L).
Proof.
  intros [|L] H; [lia|]. unfold add_gap_info. rewrite raw_ops_diag.
  cbn [existsb repeat Z.eqb orb].
  change (0%Z :: repeat 0%Z L) with (repeat 0%Z (S L)).
  unfold flag_terminal. rewrite flag_leading_zeros, rev_zeros, flag_leading_zeros, rev_zeros. reflexivity.
Qed.

Lemma all_match_zeros k : all_match (repeat 0%Z k).
Proof. apply Forall_forall. intros x Hx. apply repeat_spec in Hx. exact Hx. Qed.

(* ---- C12: equal rows of one group stay equal ------------------------------------------------------------------ *)
Section Dup.
Variable seqs : list (list Z).
Notation n := (length seqs).

Theorem equal_rows_stay_equal : forall tasks st act,
  Inv seqs st act -> valid_run seqs st act tasks ->
  forall i j x, In x act -> In i (members st x) -> In j (members st x) ->
  row_of seqs st i = row_of seqs st j ->
  row_of seqs (run_from st tasks) i = row_of seqs (run_from st tasks) j.
Proof.
  induction tasks as [|t tasks IH]; intros st act HI HV i j x Hx Hi Hj E; [exact E|].
  inversion HV as [|? ? a b c ops rest wa wb Ha Hb Hab Hc Hcl Wa Wb Hfit HV']; subst.
  cbn [run_from fold_left]. fold (run_from (merge_step st a b c ops) tasks).
  pose proof (merge_step_inv seqs st act a b c ops wa wb HI Ha Hb Hab Hc Hcl Wa Wb Hfit) as HI'.
  pose proof HI as [Hlen Hglen Hmem Hdisj].
  assert (Hin : i < n) by eauto. assert (Hjn : j < n) by eauto.
  destruct (Nat.eq_dec x a) as [->|Hxa]; [|destruct (Nat.eq_dec x b) as [->|Hxb]].
  - apply (IH _ _ HI' HV' i j c).
    + apply in_act_after; auto.
    + rewrite members_step_c by assumption. apply in_or_app. left. apply -> in_rev. auto.
    + rewrite members_step_c by assumption. apply in_or_app. left. apply -> in_rev. auto.
    + rewrite !(merge_step_rows seqs st act a b c ops wa wb) by auto.
      rewrite (proj2 (memb_In i (members st a)) Hi), (proj2 (memb_In j (members st a)) Hj), E. reflexivity.
  - assert (Na : forall k, In k (members st b) -> memb k (members st a) = false).
    { intros k Hk. destruct (memb k (members st a)) eqn:Em; auto. apply memb_In in Em. exfalso. apply Hab. eapply Hdisj; eauto. }
    apply (IH _ _ HI' HV' i j c).
    + apply in_act_after; auto.
    + rewrite members_step_c by assumption. apply in_or_app. right. apply -> in_rev. auto.
    + rewrite members_step_c by assumption. apply in_or_app. right. apply -> in_rev. auto.
    + rewrite !(merge_step_rows seqs st act a b c ops wa wb) by auto.
      rewrite (Na i Hi), (Na j Hj), (proj2 (memb_In i (members st b)) Hi), (proj2 (memb_In j (members st b)) Hj), E. reflexivity.
  - assert (x <> c) as Hxc by (intro; subst; auto).
    apply (IH _ _ HI' HV' i j x).
    + apply in_act_after; auto.
    + rewrite members_step_other; auto.
    + rewrite members_step_other; auto.
    + rewrite !(merge_step_row_other seqs st act a b c ops wa wb x) by auto. exact E.
Qed.
End Dup.
