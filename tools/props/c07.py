"""C07 - the DP kernels return the optimum whenever it is certifiably unique."""
import json, os, re
from fractions import Fraction
import gen
from props import numcommon as nc

def alphabet_tables():
    txt = open(os.path.join(os.path.dirname(os.path.dirname(os.path.dirname(os.path.abspath(__file__)))), 'coq', 'Generated', 'Tables.v')).read()
    out = {}
    for name in ('alpha_defDNA', 'alpha_ambPROTEIN'):
        m = re.search(r'Definition %s : list Z := \[(.*?)\]' % name, txt, re.S)
        out[name] = [int(x.strip().strip('()')) for x in m.group(1).split(';')]
    return out

def codes(tab, amb_letter, s):
    amb = tab[ord(amb_letter)]
    return [tab[ord(c)] if tab[ord(c)] != -1 else amb for c in s]

TYPES = {'dna': [0, 1, 2, 5], 'protein': [3, 4, 5]}

def run(ck):
    ck.build(('omp',))
    ck.translate()
    ok = ck.prove()
    kvh = ck.harness('omp', 'kvh')
    rng = ck.rng
    quick = ck.tier == 'quick'
    ck.rule = ('(A) correspondence: two-sequence inputs and groups of 1..3 identical copies per side (sequence-sequence, sequence-profile and profile-profile kernels), all five types, default and '
               'user penalties, lengths 1..%d (and around the 500-row serial/parallel switch in the thorough tier): every merge\'s raw path and expanded path of the binary32 model (Flocq, extracted) '
               'vs the implementation. (B) witness search: planted alignments (substitutions, internal indels; ends aligned) whose unique optimality by a margin >= 1 + len/500 is certified by an '
               'exact full-matrix computation (rational arithmetic; best alignment through any edge off the planted path, competitors given the cheapest terminal-gap costing) must be returned exactly, '
               'also between groups of identical copies. Non-trivial = certified plant with at least one indel or substitution; distinct by (sequences, type, penalties, copies)' % (60 if quick else 200))
    tabs = alphabet_tables()
    # parameter sets through the implementation itself
    pcache = {}
    def params_for(bt, ty, pens):
        key = (bt, ty, tuple(pens))
        if key not in pcache:
            full = ck.run_lines(kvh, ['params_full %d %d' % (bt, ty)])[0]
            if not full.startswith('OK'):
                pcache[key] = None
            else:
                gpo, gpe, tgpe, mat = nc.decode_params(full)
                ov = [nc.bits_to_fraction(p) for p in pens]
                if ov[0] >= 0: gpo = ov[0]
                if ov[1] >= 0: gpe = ov[1]
                if ov[2] >= 0: tgpe = ov[2]
                pcache[key] = (gpo, gpe, tgpe, mat)
        return pcache[key]
    # ---- (A) correspondence --------------------------------------------------------------------------------
    cases = []
    N = 70 if quick else 500
    for k in range(N):
        kind = 'dna' if rng.chance(1, 2) else 'protein'
        alpha = gen.DNA if kind == 'dna' else gen.PROT
        L = rng.choice([1, 2, 3, 5, 8, 13, 21, 34, 60]) if quick else rng.choice([1, 2, 5, 13, 34, 60, 120, 200])
        a = gen.rand_seq(rng, alpha + ('' if kind == 'dna' else 'BZX'), L)
        b = gen.overhang(rng, gen.mutate(rng, a, alpha, 12, 8), alpha, max(2, L // 3)) if rng.chance(2, 3) else gen.rand_seq(rng, alpha, rng.range(1, L + 5))
        if kind == 'protein': a, b = a + 'WKW', b + 'WKW'
        ka, kb = rng.choice([1, 1, 2, 3]), rng.choice([1, 1, 2, 3])
        pens = [gen.NG] * 3
        if rng.chance(1, 3):
            pens = [gen.fbits(rng.choice([0.0, 0.5, 2.0, 5.5, 8.0, 30.0])) if rng.chance(1, 2) else gen.NG for _ in range(3)]
        cases.append({'kind': kind, 'seqs': [a] * ka + [b] * kb, 'type': rng.choice(TYPES[kind]), 'pens': pens, 'threads': rng.choice([1, 1, 4])})
        ck.count('kernel:%s' % ('seqseq' if ka == kb == 1 else 'seqprofile' if 1 in (ka, kb) else 'profileprofile'))
    # general families: profiles whose columns differ (gap columns), so that column-dependent costs matter
    for k in range(45 if quick else 300):
        kind = 'dna' if rng.chance(1, 2) else 'protein'
        fam, seqs = gen.family(rng, kind, small=True)
        seqs = [s for s in seqs if s]
        if len(seqs) < 3: continue
        pens = [gen.NG] * 3
        if rng.chance(1, 4):
            pens = [gen.fbits(rng.choice([0.0, 0.5, 2.0, 5.5, 8.0, 30.0])) if rng.chance(1, 2) else gen.NG for _ in range(3)]
        cases.append({'kind': kind, 'seqs': seqs, 'type': rng.choice(TYPES[kind]), 'pens': pens, 'threads': rng.choice([1, 1, 1, 4])})
        ck.count('kernel:mixed family ' + fam)
    # the parallel runner recursing into itself: both sequences beyond 1000 residues (the upper-left sub-problem of the first split
    # still has >= 500 rows), an indel next to the middle row (transitions 5/6/7 there) and a terminal overhang
    for k in range(1 if quick else 6):
        kind = 'protein' if k % 2 == 0 else 'dna'
        alpha = gen.PROT if kind == 'protein' else gen.DNA
        n = rng.choice([1040, 1088, 1100])
        core = gen.rand_seq(rng, alpha, n)
        ins = gen.rand_seq(rng, alpha, rng.range(8, 11))
        at = n // 2 - rng.range(0, 3)            # the middle row of x (the shorter sequence: the rows) lies inside the insertion
        x = core[:at] + ins + core[at:]
        over = gen.rand_seq(rng, alpha, rng.range(12, 16))
        y = (core + over) if k % 3 != 2 else (over + core)
        seqs = [x, y] if k % 2 == 0 else [y, x]
        cases.append({'kind': kind, 'seqs': seqs, 'type': 5, 'pens': [gen.NG] * 3, 'threads': rng.choice([1, 4])})
        ck.count('kernel:seqseq, both sequences > 1000 residues (nested parallel runner), indel at the middle row, terminal overhang')
    if not quick:
        for L in (495, 501, 520):
            a = gen.rand_seq(rng, gen.DNA, L); b = gen.mutate(rng, a, gen.DNA, 5, 3)
            cases.append({'kind': 'dna', 'seqs': [a, b], 'type': 5, 'pens': [gen.NG] * 3, 'threads': 4})
    res, dis = nc.correspond(ck, cases, 'Kernels/Pipeline (binary32) vs aln_seqseq/aln_seqprofile/aln_profileprofile/aln_controller/aln_setup: raw and expanded paths per merge')
    if res:
        c0, p0, m0 = res[0]
        ck.sample({'input': c0['seqs'], 'type': c0['type'], 'implementation_nodes': p0['nodes'], 'model_nodes': m0['nodes']})
    # ---- (B) planted, certified alignments ---------------------------------------------------------------------
    wit = []
    plants = []
    NP = 120 if quick else 1200
    def consider(kind, a, b, path, ty, pens, ka, kb, origin):
        bt = 1 if kind == 'dna' else 0
        pr = params_for(bt, ty, pens)
        if pr is None: return
        gpo, gpe, tgpe, mat = pr
        tab = tabs['alpha_defDNA'] if kind == 'dna' else tabs['alpha_ambPROTEIN']
        ca, cb = codes(tab, 'N' if kind == 'dna' else 'X', a), codes(tab, 'N' if kind == 'dna' else 'X', b)
        score, second = nc.certify(ca, cb, path, gpo, gpe, tgpe, mat)
        margin = Fraction(1) + Fraction(max(len(a), len(b)), 500)
        ck.count('plants generated (%s)' % origin)
        if second is None or score - second < margin:
            ck.count('plants not certified (no unique optimum by the margin)'); return
        ck.count('plants certified')
        plants.append({'kind': kind, 'a': a, 'b': b, 'path': path, 'type': ty, 'pens': pens, 'ka': ka, 'kb': kb, 'margin': float(score - second), 'origin': origin})
    # (B0) corpus of minimised past failures, run first (known_findings.json, fixed b57ad5d)
    consider('dna', 'AGTTCTGC', 'AGTTGAACTGC', list('MMMMAAAMMMM'), 5, [gen.NG] * 3, 1, 3, 'corpus')
    consider('protein', 'YYTTLGSNASMIHCWPARLD', 'YYTTLGSNASHCWPARLD', list('M' * 10 + 'BB' + 'M' * 8), 3,
             [1090519040, 1094713344, 1073741824], 3, 1, 'corpus')
    # (B1) a gap that crosses the middle row of the top-level Hirschberg split, both orientations, between groups of copies,
    # with terminal and internal gap extension far apart in both directions (the case split of the meetup's gb->gb candidate)
    for k in range(24 if quick else 120):
        kind = 'dna' if k % 2 == 0 else 'protein'
        alpha = gen.DNA if kind == 'dna' else gen.PROT
        n = rng.choice([10, 14, 21, 30]) if quick else rng.choice([10, 21, 44, 90])
        root = gen.rand_seq(rng, alpha, n)
        g = rng.range(1, 3)
        mid = n // 2 + rng.choice([-1, 0, 0, 1])
        lo = max(3, min(mid - rng.below(g + 1), n - 3 - g))
        short = root[:lo] + root[lo + g:]
        if rng.chance(1, 2):
            a, b, path = root, short, ['M'] * lo + ['B'] * g + ['M'] * (n - lo - g)
        else:
            a, b, path = short, root, ['M'] * lo + ['A'] * g + ['M'] * (n - lo - g)
        pens = rng.choice([[gen.NG] * 3, [gen.fbits(8.0), gen.fbits(12.0), gen.fbits(2.0)], [gen.fbits(8.0), gen.fbits(1.0), gen.fbits(9.0)],
                           [gen.NG, gen.NG, gen.fbits(0.0)]])
        ka, kb = rng.choice([(1, 1), (1, 3), (3, 1), (2, 2), (1, 2), (3, 3)])
        consider(kind, a, b, path, rng.choice(TYPES[kind]), pens, ka, kb, 'gap across the middle row')
    for k in range(NP):
        kind = 'dna' if rng.chance(1, 2) else 'protein'
        alpha = gen.DNA if kind == 'dna' else gen.PROT
        if rng.chance(1, 4):     # ambiguity codes take part in the scores like any other residue (N; B, Z, X)
            alpha = alpha + ('NN' if kind == 'dna' else 'BZXBZX')
        n = rng.choice([8, 12, 20, 30, 45]) if quick else rng.choice([8, 20, 45, 80, 140])
        a, b, path = nc.plant(rng, alpha, n, sub=rng.choice([0, 5, 15]), indel=rng.choice([0, 4, 8]))
        ty = rng.choice(TYPES[kind])
        pens = [gen.NG] * 3
        if rng.chance(1, 4):
            pens = [gen.fbits(rng.choice([2.0, 5.5, 8.0, 12.0])) if rng.chance(1, 2) else gen.NG for _ in range(3)]
        ka, kb = rng.choice([1, 1, 1, 2, 3]), rng.choice([1, 1, 1, 2, 3])
        consider(kind, a, b, path, ty, pens, ka, kb, 'random')
    lines = [nc.run_line([p['a']] * p['ka'] + [p['b']] * p['kb'], p['type'], p['pens'], rng.choice([1, 4]), flags=4) for p in plants]
    impl = ck.run_lines_sharded(kvh, lines, shards=8, timeout=3000)
    ck.evaluations += len(lines)
    for p, o in zip(plants, impl):
        r = nc.parse_impl(o)
        ra, rb = nc.rows_of(p['a'], p['b'], p['path'])
        want = [ra] * p['ka'] + [rb] * p['kb']
        if r['biotype'] is not None and r['biotype'] != (1 if p['kind'] == 'dna' else 0):
            ck.count('plants skipped: detected as the other kind'); continue
        if not r['ok']:
            wit.append({'kind': 'run-failed', 'plant': p, 'implementation': o[:300]}); continue
        if r['rows'] != want:
            wit.append({'kind': 'certified-unique-optimum-not-returned', 'a': p['a'], 'b': p['b'], 'copies': [p['ka'], p['kb']], 'type': p['type'], 'penalties_bits': p['pens'],
                        'certified_margin': p['margin'], 'planted_rows': [ra, rb], 'returned_rows': r['rows']})
        elif any(c != 'M' for c in p['path']) or p['a'] != p['b']:
            ck.nontriv((p['a'], p['b'], p['type'], tuple(p['pens']), p['ka'], p['kb']).__repr__())
    if plants:
        ck.sample({'planted': nc.rows_of(plants[0]['a'], plants[0]['b'], plants[0]['path']), 'type': plants[0]['type'], 'certified_margin': plants[0]['margin'], 'returned': nc.parse_impl(impl[0])['rows']})
    seen = {}
    for w in wit:
        seen[w['kind']] = seen.get(w['kind'], 0) + 1
        if seen[w['kind']] <= 2:
            ck.violation('witness', w)
    if not wit:
        if not ok:
            ck.violation('proof', {'what_no_longer_checks': ck.proof['failed']}, nofail=True)
        elif dis:
            ck.violation('correspondence', {'what_no_longer_checks': 'correspondence of the binary32 DP model (Kernels.v/Pipeline.v) with the implementation', 'first_disagreement': dis[0], 'disagreements': len(dis)}, nofail=True)

def replay(ck, obj):
    print(json.dumps(obj, indent=1)[:6000])
    return 0
