/* Implementation-side runner of the correspondence check: reads one case per line on stdin
   ("<command> <args...>"), runs the real kalign code (freshly built from /repo's working tree,
   hooks on), prints one canonical result line per case. */
#include <fcntl.h>
#include <stdarg.h>
#include "kvh_common.h"

/* kalign logs to stdout as well as stderr: results go to a private copy of the original stdout,
   fd 1 and 2 are pointed at /dev/null for the whole run. */
static FILE* kv_out = NULL;
#define printf(...) fprintf(kv_out, __VA_ARGS__)
#define KV_OUT kv_out

#define MAXARGS 4096
static char* args[MAXARGS];
static int nargs;

/* ---- C09 ------------------------------------------------------------------------------ */
static void cmd_params(void)
{
        if(nargs != 5){ printf("BADARGS\n"); return; }
        int bt = atoi(args[0]);
        int ty = atoi(args[1]);
        float g = bitsf((uint32_t)strtoul(args[2],NULL,10));
        float e = bitsf((uint32_t)strtoul(args[3],NULL,10));
        float t = bitsf((uint32_t)strtoul(args[4],NULL,10));
        struct aln_param* ap = NULL;
        struct aln_param* dp = NULL;
        quiet_on();
        int r = aln_param_init(&ap, bt, 1, ty, g, e, t);
        int rd = aln_param_init(&dp, bt, 1, ty, -1.0f, -1.0f, -1.0f);
        quiet_off();
        if(r != OK || !ap){
                printf("FAIL\n");
        }else if(rd != OK || !dp){
                printf("OK-but-default-fails\n");
        }else{
                int same = 1;
                for(int i = 0; i < 23;i++){ for(int j = 0; j < 23;j++){ if(fbits(ap->subm[i][j]) != fbits(dp->subm[i][j])){ same = 0; } } }
                printf("OK %u %u %u %s\n", fbits(ap->gpo), fbits(ap->gpe), fbits(ap->tgpe), same ? "subm=default" : "subm=DIFFERENT");
        }
        if(r == OK && ap){ aln_param_free(ap); }
        if(rd == OK && dp){ aln_param_free(dp); }
}

static void cmd_params_full(void)
{
        if(nargs != 2){ printf("BADARGS\n"); return; }
        struct aln_param* ap = NULL;
        quiet_on();
        int r = aln_param_init(&ap, atoi(args[0]), 1, atoi(args[1]), -1.0f, -1.0f, -1.0f);
        quiet_off();
        if(r != OK || !ap){ printf("FAIL\n"); return; }
        printf("OK %u %u %u ", fbits(ap->gpo), fbits(ap->gpe), fbits(ap->tgpe));
        for(int i = 0; i < 23;i++){
                for(int j = 0; j < 23;j++){ printf("%s%u", j ? ",":"", fbits(ap->subm[i][j])); }
                if(i != 22){ printf(";"); }
        }
        printf("\n");
        aln_param_free(ap);
}

static void cmd_ctype(void)
{
        int c = atoi(args[0]);
        printf("%d %d %d %d %d\n", isalpha(c) ? 1:0, ispunct(c) ? 1:0, isspace(c) ? 1:0, iscntrl(c) ? 1:0, toupper(c));
}

#include "kvh_cmds.inc"

struct cmd { const char* name; void (*f)(void); };
static struct cmd cmds[] = {
        {"params", cmd_params},
        {"params_full", cmd_params_full},
        {"ctype", cmd_ctype},
#include "kvh_table.inc"
        {NULL, NULL}
};

int main(void)
{
        char* line = NULL;
        size_t cap = 0;
        ssize_t n;
        kv_out = fdopen(dup(1), "w");
        {
                int nul = open("/dev/null", O_WRONLY);
                if(!getenv("KV_KEEP_STDERR")){ dup2(nul, 2); }
                dup2(nul, 1);
                close(nul);
        }
        while((n = getline(&line, &cap, stdin)) != -1){
                if(n && line[n-1] == '\n'){ line[n-1] = 0; }
                nargs = 0;
                char* save = NULL;
                char* cmd = strtok_r(line, " ", &save);
                if(!cmd){ printf("\n"); continue; }
                char* a;
                while((a = strtok_r(NULL, " ", &save)) && nargs < MAXARGS){ args[nargs++] = a; }
                int found = 0;
                for(int i = 0; cmds[i].name; i++){
                        if(strcmp(cmds[i].name, cmd) == 0){ cmds[i].f(); found = 1; break; }
                }
                if(!found){ printf("UNKNOWN-COMMAND %s\n", cmd); }
                fflush(kv_out);
        }
        free(line);
        return 0;
}
