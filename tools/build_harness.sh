#!/bin/bash
# Build a harness program against a library variant of the current /repo working tree.
# Usage: build_harness.sh <variant: omp|plain|asan> <program (harness/<program>.c)> [extra cc flags]
# Prints the path of the binary.
set -e
VERIF=$(cd "$(dirname "$0")/.." && pwd)
V=$1; P=$2; shift 2
LIBV=$V
B=$("$VERIF/tools/build_repo.sh" $LIBV)
OUT=$B/$V/$P
SRC=$VERIF/harness/$P.c
exec 8>"$B/.hlock"; flock 8
NEWER=$(find "$VERIF/harness" -maxdepth 1 -type f \( -name '*.inc' -o -name '*.h' \) -newer "$OUT" 2>/dev/null | head -1)
if [ ! -x "$OUT" ] || [ "$SRC" -nt "$OUT" ] || [ -n "$NEWER" ]; then
  VER=$(cat "$B/gen/VERSION")
  COMMON="-w -g -DKALIGN_VERIF -DKALIGN_PACKAGE_NAME=\"kalign\" -DKALIGN_PACKAGE_VERSION=\"$VER\" -I$B/gen -I$B/src/lib/include -I$B/src/lib/src -I$B/src/src -I$VERIF/harness -DKV_SRC_DIR=\"$B/src\""
  case $V in
    omp)   gcc -O1 -std=gnu11 $COMMON -mavx2 -DHAVE_AVX2 -DHAVE_OPENMP -fopenmp "$@" "$SRC" "$B/$V/libkalign.a" -lm -o "$OUT.tmp" ;;
    plain) gcc -O1 -std=gnu11 $COMMON "$@" "$SRC" "$B/$V/libkalign.a" -lm -o "$OUT.tmp" ;;
    asan)  clang -O1 -std=gnu11 $COMMON -mavx2 -DHAVE_AVX2 -fsanitize=address,undefined -fno-sanitize-recover=undefined -fno-omit-frame-pointer "$@" "$SRC" "$B/$V/libkalign.a" -lm -o "$OUT.tmp" ;;
  esac
  mv "$OUT.tmp" "$OUT"
fi
echo "$OUT"
