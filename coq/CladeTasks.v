(* C12 glue: the task list of a labelled guide tree with distinct labels keeps the merges of a subtree (a clade) among the
   labels of that subtree and writes every other merge elsewhere - the shape run_tasks_clade asks for.  Then: a clade of
   copies inside any guide tree is merged by diagonal, all-match merges (exact arithmetic). *)
From Coq Require Import ZArith List Bool Lia.
From KV Require Import Weave Kernels Pipeline DupProofs ExactDiag ExactDiagInst ExactDiagProf ExactDiagRun.
Import ListNotations.

Fixpoint ids (t : ltree) : list nat :=
  match t with LLeaf i => [i] | LNode c l r => c :: ids l ++ ids r end.
Inductive subtree (s : ltree) : ltree -> Prop :=
| sub_here : subtree s s
| sub_left c l r : subtree s l -> subtree s (LNode c l r)
| sub_right c l r : subtree s r -> subtree s (LNode c l r).

Lemma lid_in t : In (lid t) (ids t).
Proof. destruct t; cbn; auto. Qed.
Lemma subtree_incl s t : subtree s t -> incl (ids s) (ids t).
Proof.
  induction 1 as [|c l r _ IH|c l r _ IH]; [apply incl_refl| |]; intros i Hi; cbn [ids]; right; apply in_or_app; [left|right]; apply IH; exact Hi.
Qed.
Lemma tasks_in t : Forall (fun t3 => let '(a, b, c) := t3 in In a (ids t) /\ In b (ids t) /\ In c (ids t)) (tasks_of t).
Proof.
  induction t as [i|c l IHl r IHr]; cbn [tasks_of ids]; [constructor|].
  constructor.
  - split; [right; apply in_or_app; left; apply lid_in|]. split; [right; apply in_or_app; right; apply lid_in|left; reflexivity].
  - apply Forall_app. split; (eapply Forall_impl; [|eassumption]); intros [[a b] c'] (A & B & C); (split; [|split]); right; apply in_or_app; auto.
Qed.

Lemma NoDup_app_l {X} (a b : list X) : NoDup (a ++ b) -> NoDup a.
Proof. induction a as [|x a IH]; intros H; [constructor|]. cbn [app] in H. inversion H as [|? ? Hx Hr]; subst. constructor; [intros Q; apply Hx; apply in_or_app; left; exact Q|apply IH; exact Hr]. Qed.
Lemma NoDup_app_r {X} (a b : list X) : NoDup (a ++ b) -> NoDup b.
Proof. induction a as [|x a IH]; intros H; [exact H|]. cbn [app] in H. inversion H; subst. apply IH. assumption. Qed.
Lemma NoDup_app_disj {X} (a b : list X) x : NoDup (a ++ b) -> In x a -> In x b -> False.
Proof.
  induction a as [|y a IH]; intros H Ha Hb; [destruct Ha|]. cbn [app] in H. inversion H as [|? ? Hy Hr]; subst. destruct Ha as [->|Ha].
  - apply Hy. apply in_or_app. right. exact Hb.
  - apply IH; assumption.
Qed.

(* label_internal numbers the internal nodes upwards from [next]: with distinct leaves below [next] all labels are distinct *)
Fixpoint leaves (t : utree) : list nat := match t with ULeaf i => [i] | UNode l r => leaves l ++ leaves r end.
Lemma NoDup_app_intro {X} (a b : list X) : NoDup a -> NoDup b -> (forall x, In x a -> In x b -> False) -> NoDup (a ++ b).
Proof.
  induction a as [|y a IH]; intros Ha Hb Hd; [exact Hb|]. inversion Ha as [|? ? Hy Hr]; subst. cbn [app]. constructor.
  - intros Q. apply in_app_or in Q as [Q|Q]; [contradiction|]. apply (Hd y); [left; reflexivity|exact Q].
  - apply IH; [exact Hr|exact Hb|]. intros z Hz. apply Hd. right. exact Hz.
Qed.
Lemma label_spec : forall t next, 
  (next <= snd (label t next))%nat /\
  (forall i, In i (ids (fst (label t next))) -> In i (leaves t) \/ (next <= i < snd (label t next))%nat) /\
  (NoDup (leaves t) -> (forall i, In i (leaves t) -> (i < next)%nat) -> NoDup (ids (fst (label t next)))).
Proof.
  induction t as [i|l IHl r IHr]; intros next.
  - cbn [label fst snd ids leaves]. split; [lia|]. split; [intros j [->|[]]; left; left; reflexivity|]. intros _ _. constructor; [intros []|constructor].
  - cbn [label]. destruct (label l next) as [l' n1] eqn:El. destruct (label r n1) as [r' n2] eqn:Er. cbn [fst snd ids leaves].
    destruct (IHl next) as (A1 & A2 & A3). destruct (IHr n1) as (B1 & B2 & B3). rewrite El in A1, A2, A3. rewrite Er in B1, B2, B3. cbn [fst snd] in *.
    split; [lia|]. split.
    + intros i [<-|Hi]; [right; lia|]. apply in_app_or in Hi as [Hi|Hi].
      * destruct (A2 i Hi) as [Q|Q]; [left; apply in_or_app; left; exact Q|right; lia].
      * destruct (B2 i Hi) as [Q|Q]; [left; apply in_or_app; right; exact Q|right; lia].
    + intros Hnd Hlt. constructor.
      * intros Q. apply in_app_or in Q as [Q|Q].
        -- destruct (A2 _ Q) as [Q'|Q']; [specialize (Hlt n2 ltac:(apply in_or_app; left; exact Q')); lia|lia].
        -- destruct (B2 _ Q) as [Q'|Q']; [specialize (Hlt n2 ltac:(apply in_or_app; right; exact Q')); lia|lia].
      * apply NoDup_app_intro.
        -- apply A3; [apply (NoDup_app_l _ _ Hnd)|intros i Hi; apply Hlt; apply in_or_app; left; exact Hi].
        -- apply B3; [apply (NoDup_app_r _ _ Hnd)|intros i Hi; assert (i < next)%nat by (apply Hlt; apply in_or_app; right; exact Hi); lia].
        -- intros i Ha Hb. destruct (A2 i Ha) as [Qa|Qa]; destruct (B2 i Hb) as [Qb|Qb].
           ++ exact (NoDup_app_disj _ _ _ Hnd Qa Qb).
           ++ specialize (Hlt i ltac:(apply in_or_app; left; exact Qa)). lia.
           ++ specialize (Hlt i ltac:(apply in_or_app; right; exact Qb)). lia.
           ++ lia.
Qed.
Lemma label_nodup t n : NoDup (leaves t) -> (forall i, In i (leaves t) -> (i < n)%nat) -> NoDup (ids (fst (label t n))).
Proof. apply label_spec. Qed.

Definition marks (s : ltree) (i : nat) : bool := existsb (Nat.eqb i) (ids s).
Lemma marks_in s i : marks s i = true <-> In i (ids s).
Proof. unfold marks. rewrite existsb_exists. split; [intros (y & Hy & E); apply Nat.eqb_eq in E; subst; exact Hy|intros H; exists i; split; [exact H|apply Nat.eqb_refl]]. Qed.
Lemma marks_out s i : ~ In i (ids s) -> marks s i = false.
Proof. intros H. destruct (marks s i) eqn:E; [apply marks_in in E; contradiction|reflexivity]. Qed.

Section Clade.
Variable unit : Z.
Notation AXu := (AX unit).

Lemma subtree_clade_tasks s : forall t, NoDup (ids t) -> subtree s t -> clade_tasks (marks s) (tasks_of t).
Proof.
  intros t Hnd Hs. induction Hs as [|c l r Hs IH|c l r Hs IH].
  - (* the clade itself: every task stays inside *)
    unfold clade_tasks. eapply Forall_impl; [|apply tasks_in]. intros [[a b] c] (A & B & C). left. rewrite !marks_in. auto.
  - cbn [ids] in Hnd. inversion Hnd as [|? ? Hc Hrest]; subst. pose proof (NoDup_app_l _ _ Hrest) as Hl.
    cbn [tasks_of]. constructor.
    + right. apply marks_out. intros Q. apply Hc. apply in_or_app. left. apply (subtree_incl _ _ Hs). exact Q.
    + apply Forall_app. split; [apply IH; exact Hl|].
      eapply Forall_impl; [|apply tasks_in]. intros [[a b] c'] (_ & _ & C). right. apply marks_out. intros Q.
      apply (subtree_incl _ _ Hs) in Q. exact (NoDup_app_disj _ _ _ Hrest Q C).
  - cbn [ids] in Hnd. inversion Hnd as [|? ? Hc Hrest]; subst. pose proof (NoDup_app_r _ _ Hrest) as Hr.
    cbn [tasks_of]. constructor.
    + right. apply marks_out. intros Q. apply Hc. apply in_or_app. right. apply (subtree_incl _ _ Hs). exact Q.
    + apply Forall_app. split; [|apply IH; exact Hr].
      eapply Forall_impl; [|apply tasks_in]. intros [[a b] c'] (_ & _ & C). right. apply marks_out. intros Q.
      apply (subtree_incl _ _ Hs) in Q. exact (NoDup_app_disj _ _ _ Hrest C Q).
Qed.

Lemma insert_task_Forall (P : nat * nat * nat -> Prop) t l : P t -> Forall P l -> Forall P (insert_task t l).
Proof.
  intros Ht Hl. induction Hl as [|y l Hy Hl IH]; cbn [insert_task]; [constructor; [exact Ht|constructor]|].
  destruct (snd t <=? snd y)%nat; constructor; auto.
Qed.
Lemma sort_tasks_Forall (P : nat * nat * nat -> Prop) l : Forall P l -> Forall P (sort_tasks l).
Proof. induction 1 as [|t l Ht Hl IH]; cbn [sort_tasks fold_right]; [constructor|]. apply insert_task_Forall; assumption. Qed.

Variable S : list (list Z).
Variables gpo gpe tgpe gam : Z.
Variable dim : nat.
Variable mx : Z.
Hypothesis unit_pos : (0 <= unit)%Z.
Hypothesis Hok : scheme_ok unit S gpo gpe tgpe gam dim mx = true.
Hypothesis Hdim : (dim <= 23)%nat.
Variable x : list Z.
Hypothesis Hx : Forall (fun c => inr dim c = true) x.
Hypothesis HL : (1 <= length x)%nat.
Notation PXu := (PX unit S gpo gpe tgpe).

(* any input set, any labelled guide tree with distinct labels, any subtree s all of whose leaves are copies of x: the
   merges of s are diagonal and all-match, in task order sorted by label (TASK_ORDER_TREE) or as create_tasks leaves them *)
Theorem clade_in_tree codes t s out :
  NoDup (ids t) -> subtree s t ->
  (forall i, In i (ids s) -> (i < length codes)%nat -> nth i codes [] = x) ->
  progressive AXu PXu codes (sort_tasks (tasks_of t)) = Some out ->
  Forall (fun e => marks s (snd (fst (fst (fst e)))) = true -> diag_entry unit x e) out.
Proof.
  intros Hnd Hs Hleaves Hr. unfold progressive in Hr.
  apply (run_tasks_clade unit unit_pos S gpo gpe tgpe gam dim mx Hok Hdim x Hx HL (marks s) _ _ _) in Hr; [exact Hr| |].
  - intros i g Ci Hi. apply marks_in in Ci.
    destruct (Nat.ltb_spec i (length (map (fun c => Some (leaf_group AXu c)) codes))) as [Lt|Ge].
    + rewrite app_nth1 in Hi by exact Lt. rewrite map_length in Lt.
      rewrite (nth_indep _ None ((fun c => Some (leaf_group AXu c)) [])) in Hi by (rewrite map_length; exact Lt).
      rewrite (map_nth (fun c => Some (leaf_group AXu c))) in Hi. rewrite (Hleaves i Ci Lt) in Hi. inversion Hi; subst.
      exists 1%Z. split; [lia|]. unfold grpK, leaf_group. cbn [g_nsip g_len g_codes]. split; [reflexivity|]. split; [reflexivity|]. left. split; reflexivity.
    + rewrite app_nth2 in Hi by exact Ge. rewrite nth_repeat in Hi. discriminate.
  - apply sort_tasks_Forall. apply subtree_clade_tasks; assumption.
Qed.
End Clade.
