(* C08 - Identical sequences are aligned without gaps.
   PARTIAL.  Proved (pure lists, every guide tree, any number of copies): the diagonal raw path expands to
   matches only, and a run all of whose merges are all-match leaves every row gap-free - so the property
   reduces to "each kernel returns the diagonal on equal operands".
   Proved for that last step, in EXACT arithmetic (the kernel text of Kernels.v - both passes, the meetup with
   its tie-break, the Hirschberg controller - run over integers with minus infinity, every binary32 parameter
   taken at its real value): the sequence-sequence kernel returns the diagonal on two equal residue strings of
   every length, for every scoring scheme that passes a finite check, and kalign's five built-in schemes (as
   the built code has them now) pass it; so do the sequence-profile and the profile-profile kernel on groups
   of copies, whose profiles are followed through make_profile, set_gap_penalties and update_profile; hence
   the WHOLE progressive run of the model (do_align with its choice of kernel and mirroring, every task list,
   any number of copies) makes only diagonal, all-match merges and returns the input rows without a gap.
   NOT a theorem: that the binary32 run takes the same decisions as the exact one (rounding).  That is decided
   on every run by the bit-exact correspondence of the executable binary32 model with the implementation
   (every merge: raw path and every meetup maximum) and by end-to-end runs over residue compositions, lengths,
   copy numbers, types and thread counts (DESIGN C08). *)
From Coq Require Import ZArith List Bool Lia.
From KV Require Import Base FP Params Weave WeaveProofs WeaveCheck DupProofs Kernels Pipeline ExactDiag ExactDiagInst ExactDiagProf ExactDiagRun ExactDiagBuiltin.
Import ListNotations.

(* the raw path 1, 2, .., L against a side of length L is expanded by add_gap_info_to_path_n to L match
   operations (no gap op, no terminal flag) *)
Theorem C08_diagonal_path_expands_to_matches : forall L, (1 <= L)%nat ->
  add_gap_info (Z.of_nat L) (diag L) = Some (repeat 0%Z L).
Proof. exact diagonal_path_all_match. Qed.
Print Assumptions C08_diagonal_path_expands_to_matches.

(* whatever the guide tree and however many sequences: if every merge is all-match, the final rows are the
   input sequences themselves, without a single gap *)
Theorem C08_all_match_merges_insert_no_gaps : forall seqs (tasks : list (nat * nat * nat * list Z)),
  Forall (fun t => all_match (snd t)) tasks ->
  final_rows (run_merges (map (@length Z) seqs) tasks) seqs = seqs.
Proof. exact all_match_run_no_gaps. Qed.
Print Assumptions C08_all_match_merges_insert_no_gaps.

(* both together: diagonal raw paths at every merge give the input back *)
Theorem C08_diagonal_merges_give_no_gaps : forall (s : list Z) copies (tree : list (nat * nat * nat)),
  (1 <= length s)%nat ->
  let tasks := map (fun t => (t, repeat 0%Z (length s))) tree in
  (forall t, In t tasks -> add_gap_info (Z.of_nat (length s)) (diag (length s)) = Some (snd t)) /\
  final_rows (run_merges (map (@length Z) (repeat s copies)) tasks) (repeat s copies) = repeat s copies.
Proof.
  intros s copies tree H tasks. split.
  - intros t Ht. unfold tasks in Ht. apply in_map_iff in Ht as (x & <- & _). simpl. apply diagonal_path_all_match. exact H.
  - apply all_match_run_no_gaps. apply Forall_forall. intros t Ht. unfold tasks in Ht.
    apply in_map_iff in Ht as (x & <- & _). simpl. apply all_match_zeros.
Qed.
Print Assumptions C08_diagonal_merges_give_no_gaps.

(* Instances by evaluation (tests, not the unbounded claim): the binary32 model returns the diagonal for
   three copies of an all-ambiguity-code sequence under the 'dna' parameters, through the sequence-sequence
   and the sequence-profile kernel *)
Example C08_instance :
  let f := fun z => f32_of_Z z in
  let P := mkNP alg_f32 (f 8%Z) (f 6%Z) (f 0%Z) (map (fun i => map (fun j => if (i =? j)%nat then f 5%Z else f (-4)%Z) (seq 0 23)) (seq 0 23)) in
  let s := [4; 4; 4; 4; 4; 4; 4]%Z in
  option_map (map (fun r => snd (fst (fst r)))) (progressive alg_f32 P [s; s; s] [(0, 1, 3); (3, 2, 4)]%nat) =
  Some [diag 7; diag 7].
Proof. vm_compute. reflexivity. Qed.

(* ---- the kernel step in exact arithmetic ------------------------------------------------------------------ *)
(* One square sub-problem of the Hirschberg recursion, for ANY cost record (sequence or profile rows/columns): when
   the rows pair with the columns (dpair), a match never gains more than the two potentials and gains exactly their
   mean on a pair, and every gap step loses at least gam against the potential of what it skips, then the meetup of
   the forward and the backward pass picks transition 1 (match -> match) at the middle column.  The tie-break is any
   non-negative function that stays below gam at that column. *)
Theorem C08_meetup_of_a_square_picks_the_diagonal :
  forall (tb : Z -> Z -> Z -> Z), (forall a b i, (0 <= tb a b i)%Z) ->
  forall (R C : Type) (K : costs (alg_X tb) R C) (pR : R -> Z) (pC : C -> Z) (eR : R -> Z) (gam : Z) (dpair : R -> C -> Prop),
  (0 < gam)%Z ->
  (forall r c x u, ub2 x u -> ub2 (k_match (alg_X tb) R C K r c x) (u + pR r + pC c)) ->
  (forall r c v, dpair r c -> k_match (alg_X tb) R C K r c (Some v) = Some (v + eR r)%Z /\ (2 * eR r = pR r + pC c)%Z) ->
  (forall c, exists g1 g2 g3, k_ga_ext (alg_X tb) R C K c = Some g1 /\ k_ga_open (alg_X tb) R C K c = Some g2 /\ k_ga_text (alg_X tb) R C K c = Some g3 /\
     (2 * g1 <= pC c - 2 * gam)%Z /\ (2 * g2 <= pC c - 2 * gam)%Z /\ (2 * g3 <= pC c - 2 * gam)%Z) ->
  (forall r, exists g1 g2 g3, k_gb_ext (alg_X tb) R C K r = Some g1 /\ k_gb_open (alg_X tb) R C K r = Some g2 /\ k_gb_text (alg_X tb) R C K r = Some g3 /\
     (2 * g1 <= pR r - 2 * gam)%Z /\ (2 * g2 <= pR r - 2 * gam)%Z /\ (2 * g3 <= pR r - 2 * gam)%Z) ->
  (forall c, exists g, k_ga_to_a (alg_X tb) R C K c = Some g /\ (g <= 0)%Z) ->
  (forall r, exists g, k_gb_to_a (alg_X tb) R C K r = Some g /\ (g <= 0)%Z) ->
  forall M : mcosts (alg_X tb),
  (forall i, exists g, m_a_ga (alg_X tb) M i = Some g /\ (g <= 0)%Z) -> (exists g, m_a_gb (alg_X tb) M = Some g /\ (g <= 0)%Z) ->
  (forall i, exists g, m_ga_a (alg_X tb) M i = Some g /\ (g <= 0)%Z) -> (exists g, m_gb_gb_int (alg_X tb) M = Some g /\ (g <= 0)%Z) ->
  (exists g, m_gb_gb_term (alg_X tb) M = Some g /\ (g <= 0)%Z) -> (exists g, m_gb_a (alg_X tb) M = Some g /\ (g <= 0)%Z) ->
  forall (RF RB : list R) (CF CB : list C) (fi li fi' li' sz el : bool) (sb eb i0 : Z),
  (length RF + length RB = length CF)%nat -> (1 <= length RB)%nat -> map pC CB = map pC (rev CF) ->
  (forall t r c, nth_error RF t = Some r -> nth_error CF t = Some c -> dpair r c) ->
  (forall t r c, nth_error RB t = Some r -> nth_error CB t = Some c -> dpair r c) ->
  (tb sb eb (i0 + Z.of_nat (length RF)) < gam)%Z ->
  exists E, meet_scan (alg_X tb) M sz el sb eb i0 (pass (alg_X tb) R C K fi li (live tb) RF CF)
                      (rev (pass (alg_X tb) R C K fi' li' (live tb) RB CB)) (None, (-1)%Z, (-1)%Z)
            = (Some E, 1%Z, (i0 + Z.of_nat (length RF))%Z).
Proof. exact square_meet. Qed.
Print Assumptions C08_meetup_of_a_square_picks_the_diagonal.

(* the controller: a kernel whose meetup finds the middle of every square sub-problem writes the diagonal path *)
Theorem C08_controller_writes_the_diagonal :
  forall (tb : Z -> Z -> Z -> Z) (Kn : kernel (alg_X tb)) (n : Z),
  (forall o e, (0 <= o)%Z -> (o < e)%Z -> (e <= n)%Z -> let mid := ((e - o) / 2 + o)%Z in
     exists v, k_meetup (alg_X tb) Kn mid o e (k_forward (alg_X tb) Kn o mid o e (live0 (alg_X tb)))
                        (k_backward (alg_X tb) Kn mid e o e (live0 (alg_X tb))) = (v, 1%Z, mid)) ->
  (0 <= n)%Z -> raw_path (alg_X tb) Kn n n = Some (diag (Z.to_nat n)).
Proof. intros tb Kn n H Hn. rewrite <- seq1_diag. apply raw_path_diag; assumption. Qed.
Print Assumptions C08_controller_writes_the_diagonal.

(* the sequence-sequence kernel (accessors of aln_seqseq.c) on two equal strings, any length, any scheme that passes
   the finite check [scheme_ok]; [unit] is what 1/2000 measures in the integer scale *)
Theorem C08_seqseq_kernel_returns_the_diagonal_on_equal_strings :
  forall (unit : Z), (0 <= unit)%Z -> forall (S : list (list Z)) (gpo gpe tgpe gam : Z) (dim : nat) (mx : Z),
  scheme_ok unit S gpo gpe tgpe gam dim mx = true ->
  forall x : list Z, Forall (fun c => (Z.to_nat c <? dim)%nat = true) x ->
  raw_path (AX unit) (ss_kernel (AX unit) (PX unit S gpo gpe tgpe) x x) (Z.of_nat (length x)) (Z.of_nat (length x)) = Some (diag (length x)).
Proof. intros unit Hu S gpo gpe tgpe gam dim mx Hok x Hx. rewrite <- seq1_diag. exact (ss_identical_diagonal unit Hu S gpo gpe tgpe gam dim mx Hok x Hx). Qed.
Print Assumptions C08_seqseq_kernel_returns_the_diagonal_on_equal_strings.

(* kalign's five built-in schemes, read from the built code on this run (Generated/Tables.v) and taken at the real
   values of their binary32 entries, all pass the check (this is a finite computation, re-done on every run) ... *)
Theorem C08_builtin_schemes_pass_the_check :
  forallb default_scheme_ok [PS_DNA; PS_DNA_INTERNAL; PS_RNA; PS_PROTEIN; PS_GON] = true.
Proof. exact default_schemes_ok. Qed.
Print Assumptions C08_builtin_schemes_pass_the_check.

(* ... where "taken at the real values" is itself checked: on every entry of the five schemes the integer the decoder
   returns is 2000 * 2^40 times the value (-1)^s * m * 2^e that Flocq reads from the same binary32 bit pattern *)
Theorem C08_builtin_parameters_are_read_at_their_real_values :
  forallb (fun s => match pset_defaults s with Some p => params_decode_like_flocq p | None => false end)
          [PS_DNA; PS_DNA_INTERNAL; PS_RNA; PS_PROTEIN; PS_GON] = true.
Proof. exact builtin_entries_decode_like_flocq. Qed.
Print Assumptions C08_builtin_parameters_are_read_at_their_real_values.

(* ... hence: under each of them, two equal strings of any length over the residue codes of that alphabet are
   aligned on the diagonal, which add_gap_info expands to matches only *)
Theorem C08_equal_pair_has_no_gap_under_builtin_schemes : forall s m gpo gpe tgpe x,
  scheme_of s = Some (m, gpo, gpe, tgpe) ->
  Forall (fun c => (Z.to_nat c <? dim_of s)%nat = true) x -> (1 <= length x)%nat ->
  raw_path (AX unitX) (ss_kernel (AX unitX) (PX unitX m gpo gpe tgpe) x x) (Z.of_nat (length x)) (Z.of_nat (length x)) = Some (diag (length x)) /\
  add_gap_info (Z.of_nat (length x)) (diag (length x)) = Some (repeat 0%Z (length x)).
Proof.
  intros s m gpo gpe tgpe x Hs Hx Hl. split.
  - rewrite <- seq1_diag. exact (ss_identical_diagonal_default_schemes s m gpo gpe tgpe x Hs Hx).
  - apply diagonal_path_all_match. exact Hl.
Qed.
Print Assumptions C08_equal_pair_has_no_gap_under_builtin_schemes.

(* the premise is met: every built-in scheme decodes *)
Example C08_builtin_schemes_decode :
  forallb (fun s => match scheme_of s with Some _ => true | None => false end) [PS_DNA; PS_DNA_INTERNAL; PS_RNA; PS_PROTEIN; PS_GON] = true.
Proof. vm_compute. reflexivity. Qed.

(* ---- the profile kernels and the whole run, exact arithmetic ----------------------------------------------- *)
(* a group of k1 copies against a group of k2 copies (profile-profile kernel); profK describes the entries of the two
   prepared profiles that the kernel reads *)
Theorem C08_profile_profile_kernel_returns_the_diagonal_on_groups_of_copies :
  forall (unit : Z), (0 <= unit)%Z -> forall (S : list (list Z)) (gpo gpe tgpe gam : Z) (dim : nat) (mx : Z),
  scheme_ok unit S gpo gpe tgpe gam dim mx = true -> (dim <= 23)%nat ->
  forall x : list Z, Forall (fun c => inr dim c = true) x ->
  forall (k1 k2 : Z) (p1 p2 : list (column (AX unit))), (1 <= k1)%Z -> (1 <= k2)%Z ->
  profK unit S gpo gpe tgpe x k1 k2 p1 -> profK unit S gpo gpe tgpe x k2 k1 p2 ->
  raw_path (AX unit) (pp_kernel (AX unit) p1 p2) (Z.of_nat (length x)) (Z.of_nat (length x)) = Some (diag (length x)).
Proof. exact pp_identical_diagonal. Qed.
Print Assumptions C08_profile_profile_kernel_returns_the_diagonal_on_groups_of_copies.

(* a group of k copies (rows) against one more copy (columns): sequence-profile kernel *)
Theorem C08_sequence_profile_kernel_returns_the_diagonal_on_copies :
  forall (unit : Z), (0 <= unit)%Z -> forall (S : list (list Z)) (gpo gpe tgpe gam : Z) (dim : nat) (mx : Z),
  scheme_ok unit S gpo gpe tgpe gam dim mx = true -> (dim <= 23)%nat ->
  forall x : list Z, Forall (fun c => inr dim c = true) x ->
  forall (k : Z), (1 <= k)%Z -> forall p1 : list (column (AX unit)), profK unit S gpo gpe tgpe x k 1 p1 ->
  raw_path (AX unit) (sp_kernel (AX unit) (PX unit S gpo gpe tgpe) p1 x k) (Z.of_nat (length x)) (Z.of_nat (length x)) = Some (diag (length x)).
Proof. exact sp_identical_diagonal. Qed.
Print Assumptions C08_sequence_profile_kernel_returns_the_diagonal_on_copies.

(* the profile of a single sequence is the profile of one copy; preparing and adding profiles keeps the description *)
Theorem C08_profiles_of_copies :
  forall (unit : Z) (S : list (list Z)) (gpo gpe tgpe : Z) (dim : nat) (x : list Z),
  (dim <= 23)%nat -> Forall (fun c => inr dim c = true) x -> (1 <= length x)%nat ->
  rawK unit S gpo gpe tgpe x 1 (make_profile (AX unit) (PX unit S gpo gpe tgpe) x) /\
  (forall k n p, rawK unit S gpo gpe tgpe x k p ->
     profK unit S gpo gpe tgpe x k n (set_gap_penalties (AX unit) p n) /\ rawK unit S gpo gpe tgpe x k (set_gap_penalties (AX unit) p n)) /\
  (forall k1 k2 sa sb pa pb, rawK unit S gpo gpe tgpe x k1 pa -> rawK unit S gpo gpe tgpe x k2 pb ->
     rawK unit S gpo gpe tgpe x (k1 + k2) (update_profile (AX unit) (PX unit S gpo gpe tgpe) (repeat 0%Z (length x)) pa pb sa sb)).
Proof.
  intros unit S gpo gpe tgpe dim x Hd Hx HL. split; [exact (make_profile_raw unit S gpo gpe tgpe dim Hd x Hx HL)|]. split.
  - intros k n p Hp. eapply set_gap_penalties_prof; eassumption.
  - intros k1 k2 sa sb pa pb Ha Hb. eapply update_profile_raw; eassumption.
Qed.
Print Assumptions C08_profiles_of_copies.

(* THE RUN: n copies of x, any task list (guide tree), any scheme passing the check: whenever the model's progressive
   alignment returns, every merge has the diagonal raw path and all-match operations *)
Theorem C08_every_merge_of_copies_is_diagonal :
  forall (unit : Z), (0 <= unit)%Z -> forall (S : list (list Z)) (gpo gpe tgpe gam : Z) (dim : nat) (mx : Z),
  scheme_ok unit S gpo gpe tgpe gam dim mx = true -> (dim <= 23)%nat ->
  forall x : list Z, Forall (fun c => inr dim c = true) x -> (1 <= length x)%nat ->
  forall n tasks out, progressive (AX unit) (PX unit S gpo gpe tgpe) (repeat x n) tasks = Some out ->
  Forall (diag_entry unit x) out.
Proof. exact progressive_copies. Qed.
Print Assumptions C08_every_merge_of_copies_is_diagonal.

(* ... and with the weave layer: under each built-in scheme the rows that come out are the n input copies, without a gap *)
Theorem C08_identical_inputs_come_out_without_gaps_exact : forall s m gpo gpe tgpe x n tasks out,
  scheme_of s = Some (m, gpo, gpe, tgpe) ->
  Forall (fun c => (Z.to_nat c <? dim_of s)%nat = true) x -> (1 <= length x)%nat ->
  progressive (AX unitX) (PX unitX m gpo gpe tgpe) (repeat x n) tasks = Some out ->
  let merges := map (fun e => (fst (fst (fst e)), snd (fst e))) out in       (* (a, b, c, operations) of every merge *)
  Forall (fun t => snd t = repeat 0%Z (length x)) merges /\
  final_rows (run_merges (map (@length Z) (repeat x n)) merges) (repeat x n) = repeat x n.
Proof.
  intros s m gpo gpe tgpe x n tasks out Hs Hx HL Hr merges.
  pose proof (progressive_copies_default_schemes s m gpo gpe tgpe x n tasks out Hs Hx HL Hr) as D.
  assert (A : Forall (fun t => snd t = repeat 0%Z (length x)) merges).
  { unfold merges. apply Forall_forall. intros t Ht. apply in_map_iff in Ht as (e & <- & He). rewrite Forall_forall in D. destruct (D e He) as (_ & E). exact E. }
  split; [exact A|]. apply all_match_run_no_gaps. eapply Forall_impl; [|exact A]. intros t Et. rewrite Et. apply all_match_zeros.
Qed.
Print Assumptions C08_identical_inputs_come_out_without_gaps_exact.

(* the run does return: four copies with ambiguity codes, merged by the sequence-sequence kernel twice and then by the
   profile-profile kernel; and three copies merged by the sequence-sequence and then the sequence-profile kernel (both
   orders of the operands) - evaluated in exact arithmetic under the built-in nucleotide scheme *)
Example C08_exact_run_returns :
  match scheme_of PS_DNA with
  | Some (m, gpo, gpe, tgpe) =>
    let x := [0; 1; 4; 2; 3; 3; 4]%Z in
    let ops := fun r => option_map (map (fun e => (snd (fst (fst e)), snd (fst e)))) r in
    ops (progressive (AX unitX) (PX unitX m gpo gpe tgpe) [x; x; x; x] [(0, 1, 4); (2, 3, 5); (4, 5, 6)]%nat)
      = Some [(diag 7, repeat 0%Z 7); (diag 7, repeat 0%Z 7); (diag 7, repeat 0%Z 7)] /\
    ops (progressive (AX unitX) (PX unitX m gpo gpe tgpe) [x; x; x; x] [(0, 1, 4); (4, 2, 5); (3, 5, 6)]%nat)
      = Some [(diag 7, repeat 0%Z 7); (diag 7, repeat 0%Z 7); (diag 7, repeat 0%Z 7)]
  | None => False
  end.
Proof. vm_compute. split; reflexivity. Qed.
