(* Model of the weave layer: lib/src/weave_alignment.c (make_seq, update_gaps),
   lib/src/aln_setup.c (add_gap_info_to_path_n, mirror_path_n), lib/src/msa_op.c
   (make_linear_sequence / finalise_alignment) and the member-list bookkeeping of
   lib/src/aln_run.c (do_align).  Executable; no proofs here. *)
From KV Require Import Base.
Local Open Scope Z_scope.

Definition dash : Z := 45.

(* ---- make_linear_sequence: gap counts -> gapped row ---------------------------------------- *)
(* gaps has len+1 entries: gaps[i] = number of '-' before residue i, gaps[len] = trailing. *)
Fixpoint expand (g : list nat) (res : list Z) : list Z :=
  match res, g with
  | r :: res', gj :: g' => repeat dash gj ++ r :: expand g' res'
  | [], gl :: _ => repeat dash gl
  | _, [] => res
  end.

Definition sum_nat (l : list nat) : nat := fold_right Nat.add 0%nat l.

(* ---- update_gaps (weave_alignment.c:117) ----------------------------------------------------- *)
(* for i in 0..old_len: add = sum newgaps[rel_pos .. rel_pos+gis[i]]; rel_pos += gis[i]+1; gis[i] += add *)
Fixpoint update_gaps (gis : list nat) (ng : list nat) : list nat :=
  match gis with
  | [] => []
  | g :: gis' => (g + sum_nat (firstn (S g) ng))%nat :: update_gaps gis' (skipn (S g) ng)
  end.

(* ---- expanded path operations ------------------------------------------------------------------ *)
(* make_seq reads an op as: 0 -> both advance; bit 0 -> gap in a; bit 1 -> gap in b. *)
Inductive opk := OM | OGA | OGB | ONONE.

Definition op_kind (z : Z) : opk :=
  if z =? 0 then OM
  else if Z.land z 1 =? 1 then OGA
  else if Z.land z 2 =? 2 then OGB
  else ONONE.

(* gap_a[posa]: number of gap-in-a ops before a's column posa; one entry per column of a plus
   the trailing slot.  (The C array has path[0]+1 entries; those beyond len_a stay 0 and are
   never read by update_gaps.) *)
Fixpoint gapvec_a (ops : list opk) (c : nat) : list nat :=
  match ops with
  | [] => [c]
  | OM :: t => c :: gapvec_a t 0
  | OGA :: t => gapvec_a t (S c)
  | OGB :: t => c :: gapvec_a t 0
  | ONONE :: t => gapvec_a t c
  end.

Fixpoint gapvec_b (ops : list opk) (c : nat) : list nat :=
  match ops with
  | [] => [c]
  | OM :: t => c :: gapvec_b t 0
  | OGB :: t => gapvec_b t (S c)
  | OGA :: t => c :: gapvec_b t 0
  | ONONE :: t => gapvec_b t c
  end.

(* ---- add_gap_info_to_path_n (aln_setup.c:120) ---------------------------------------------------- *)
(* raw path: entries path[1..len_a]; -1 = residue of side 1 faces a gap, j>=1 = matched with j *)
Definition ones (n : Z) : list Z := repeat 1 (Z.to_nat n).

Definition first_ops (p1 : Z) : list Z :=
  if p1 =? -1 then [2]
  else if negb (p1 =? 1) then ones (p1 - 1) ++ [0]
  else [0].

Fixpoint rest_ops (b : Z) (ps : list Z) : list Z :=
  match ps with
  | [] => []
  | p :: ps' =>
    (if p =? -1 then [2]
     else if negb (p - 1 =? b) && negb (b =? -1) then ones (p - b - 1) ++ [0]
     else [0]) ++ rest_ops p ps'
  end.

Definition tail_ops (len_b : Z) (plast : Z) : list Z :=
  if (plast <? len_b) && negb (plast =? -1) then ones (len_b - plast) else [].

Definition raw_ops (len_b : Z) (path : list Z) : list Z :=
  match path with
  | [] => []
  | p1 :: ps => first_ops p1 ++ rest_ops p1 ps ++ tail_ops len_b (last path (-1))
  end.

(* terminal-gap flag 32 on every op before the first and after the last match (op 0);
   the loop that would set bits 4/8/16 never runs (it tests the terminator cell). *)
Fixpoint flag_leading (ops : list Z) : list Z :=
  match ops with
  | [] => []
  | o :: t => if o =? 0 then ops else Z.lor o 32 :: flag_leading t
  end.

Definition flag_terminal (ops : list Z) : list Z := rev (flag_leading (rev (flag_leading ops))).

(* Without a single match the C loops run past the terminator: that is a fault. *)
Definition add_gap_info (len_b : Z) (path : list Z) : option (list Z) :=
  let ops := raw_ops len_b path in
  if existsb (fun o => o =? 0) ops then Some (flag_terminal ops) else None.

(* ---- mirror_path_n (aln_setup.c:376): path over side 2's rows -> path over side 1's rows ------- *)
(* apath has len_b entries with values in 1..len_a or -1; result has len_a entries *)
Fixpoint set_nth {A} (n : nat) (x : A) (l : list A) : list A :=
  match n, l with
  | O, _ :: t => x :: t
  | S n', h :: t => h :: set_nth n' x t
  | _, [] => []
  end.

Fixpoint mirror_fill (i : Z) (apath : list Z) (acc : list Z) : list Z :=
  match apath with
  | [] => acc
  | p :: t => mirror_fill (i + 1) t (if p =? -1 then acc else set_nth (Z.to_nat (p - 1)) i acc)
  end.

Definition mirror_path (len_a : Z) (apath : list Z) : list Z :=
  mirror_fill 1 apath (repeat (-1) (Z.to_nat len_a)).

(* ---- make_seq + member lists (aln_run.c:258-272) ------------------------------------------------ *)
(* the alignment state: per sequence its gap vector; per node its member list *)
Record wstate := mkW { w_gaps : list (list nat); w_sip : list (list nat) }.

Definition upd_member (ng : list nat) (members : list nat) (gaps : list (list nat)) : list (list nat) :=
  map (fun ig => if existsb (Nat.eqb (fst ig)) members then update_gaps (snd ig) ng else snd ig)
      (combine (seq 0 (length gaps)) gaps).

Definition make_seq (ops : list Z) (ma mb : list nat) (gaps : list (list nat)) : list (list nat) :=
  let ks := map op_kind ops in
  upd_member (gapvec_b ks 0) mb (upd_member (gapvec_a ks 0) ma gaps).

Definition merge_step (st : wstate) (a b c : nat) (ops : list Z) : wstate :=
  let ma := nth a (w_sip st) [] in
  let mb := nth b (w_sip st) [] in
  mkW (make_seq ops ma mb (w_gaps st))
      (set_nth c (rev ma ++ rev mb) (w_sip st)).

Definition init_wstate (lens : list nat) : wstate :=
  let n := length lens in
  mkW (map (fun l => repeat 0%nat (S l)) lens)
      (map (fun i => [i]) (seq 0 n) ++ repeat [] (n - 1)).

Definition run_merges (lens : list nat) (tasks : list (nat * nat * nat * list Z)) : wstate :=
  fold_left (fun st t => let '(a, b, c, ops) := t in merge_step st a b c ops) tasks (init_wstate lens).

Definition final_rows (st : wstate) (seqs : list (list Z)) : list (list Z) :=
  map (fun gs => expand (fst gs) (snd gs)) (combine (w_gaps st) seqs).
