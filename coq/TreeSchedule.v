(* The serial schedule of the progressive run respects the guide tree, for EVERY guide tree.
   label_internal numbers the internal nodes in post-order from numseq, create_tasks lists one task (a, b, c) per
   internal node, sort_tasks(TASK_ORDER_TREE) orders them by c.  Theorem: in the sorted list every task finds both of
   its operands complete (a leaf, or the result of an EARLIER task), no operand is used twice, and every result label is
   fresh.  This is the structural half of the "valid task list" premise of C01/C10 and the serial instance of C02's
   "no merge starts before both groups are complete". *)
From Coq Require Import ZArith List Bool Lia Permutation Sorted.
From KV Require Import Weave WeaveProofs Kernels Pipeline CladeTasks.
Import ListNotations.

Definition tc (x : nat * nat * nat) : nat := snd x.
Definition kids (T : list (nat * nat * nat)) : list nat := flat_map (fun x => [fst (fst x); snd (fst x)]) T.

Lemma kids_app A B : kids (A ++ B) = kids A ++ kids B.
Proof. unfold kids. apply flat_map_app. Qed.

(* the root and the operands of all tasks are exactly the labels of the tree *)
Lemma root_kids_perm t : Permutation (lid t :: kids (tasks_of t)) (ids t).
Proof.
  induction t as [i|c l IHl r IHr]; [cbn; apply Permutation_refl|].
  cbn [tasks_of ids lid]. change (kids ((lid l, lid r, c) :: tasks_of l ++ tasks_of r)) with (lid l :: lid r :: kids (tasks_of l ++ tasks_of r)).
  rewrite kids_app. constructor.
  rewrite <- IHl, <- IHr. cbn [app].
  constructor. apply Permutation_middle.
Qed.

Lemma kids_nodup t : NoDup (ids t) -> NoDup (kids (tasks_of t)).
Proof.
  intros H. apply (Permutation_NoDup (Permutation_sym (root_kids_perm t))) in H. inversion H; assumption.
Qed.

Lemma tc_in_ids t : forall x, In x (tasks_of t) -> In (tc x) (ids t).
Proof.
  intros [[a b] c] Hx. pose proof (tasks_in t) as H. rewrite Forall_forall in H. specialize (H _ Hx). cbn in H. apply H.
Qed.

Lemma tcs_nodup t : NoDup (ids t) -> NoDup (map tc (tasks_of t)).
Proof.
  induction t as [i|c l IHl r IHr]; intros H; [constructor|].
  cbn [ids] in H. inversion H as [|? ? Hc Hrest]; subst.
  cbn [tasks_of map]. constructor.
  - intros Q. apply in_map_iff in Q as (x & E & Hx). apply in_app_or in Hx. apply Hc. apply in_or_app.
    assert (c = tc x) as -> by (rewrite E; reflexivity).
    destruct Hx as [Hx|Hx]; [left|right]; apply tc_in_ids; exact Hx.
  - rewrite map_app. apply NoDup_app_intro.
    + apply IHl. exact (NoDup_app_l _ _ Hrest).
    + apply IHr. exact (NoDup_app_r _ _ Hrest).
    + intros z Ha Hb. apply in_map_iff in Ha as (x & Ex & Hx). apply in_map_iff in Hb as (y & Ey & Hy).
      apply (NoDup_app_disj _ _ z Hrest); [rewrite <- Ex; apply tc_in_ids; exact Hx|rewrite <- Ey; apply tc_in_ids; exact Hy].
Qed.

Fixpoint lleaves (t : ltree) : list nat := match t with LLeaf i => [i] | LNode _ l r => lleaves l ++ lleaves r end.

Lemma root_leaf_or_task t : In (lid t) (lleaves t) \/ exists a b, In (a, b, lid t) (tasks_of t).
Proof. destruct t as [i|c l r]; [left; left; reflexivity|right; exists (lid l), (lid r); left; reflexivity]. Qed.

Lemma kid_leaf_or_task t : forall a, In a (kids (tasks_of t)) -> In a (lleaves t) \/ exists a1 a2, In (a1, a2, a) (tasks_of t).
Proof.
  induction t as [i|c l IHl r IHr]; intros a Ha; [destruct Ha|].
  cbn [tasks_of] in Ha. change (kids ((lid l, lid r, c) :: tasks_of l ++ tasks_of r)) with (lid l :: lid r :: kids (tasks_of l ++ tasks_of r)) in Ha.
  rewrite kids_app in Ha. cbn [lleaves tasks_of].
  assert (forall s, (In a (lleaves s) \/ exists a1 a2, In (a1, a2, a) (tasks_of s)) -> (s = l \/ s = r) ->
          In a (lleaves l ++ lleaves r) \/ exists a1 a2, In (a1, a2, a) ((lid l, lid r, c) :: tasks_of l ++ tasks_of r)) as K.
  { intros s [Q|(a1 & a2 & Q)] [->| ->].
    - left. apply in_or_app. left. exact Q.
    - left. apply in_or_app. right. exact Q.
    - right. exists a1, a2. right. apply in_or_app. left. exact Q.
    - right. exists a1, a2. right. apply in_or_app. right. exact Q. }
  destruct Ha as [<-|[<-|Ha]].
  - apply (K l); [apply root_leaf_or_task|left; reflexivity].
  - apply (K r); [apply root_leaf_or_task|right; reflexivity].
  - apply in_app_or in Ha as [Ha|Ha]; [apply (K l); [apply IHl; exact Ha|left; reflexivity]|apply (K r); [apply IHr; exact Ha|right; reflexivity]].
Qed.

(* post-order numbering: operands carry smaller labels than the result; results are numbered from [next] *)
Lemma label_leaves t : forall next, lleaves (fst (label t next)) = leaves t.
Proof.
  induction t as [i|l IHl r IHr]; intros next; [reflexivity|].
  cbn [label]. specialize (IHl next). destruct (label l next) as [l' n1]. specialize (IHr n1). destruct (label r n1) as [r' n2].
  cbn [fst lleaves leaves] in *. rewrite IHl, IHr. reflexivity.
Qed.

Lemma label_order t : forall next, (forall i, In i (leaves t) -> i < next) ->
  Forall (fun x => fst (fst x) < tc x /\ snd (fst x) < tc x /\ next <= tc x) (tasks_of (fst (label t next))).
Proof.
  induction t as [i|l IHl r IHr]; intros next Hlt; [constructor|].
  pose proof (label_spec l next) as (A1 & A2 & _).
  cbn [label]. specialize (IHl next). destruct (label l next) as [l' n1] eqn:El.
  pose proof (label_spec r n1) as (B1 & B2 & _).
  specialize (IHr n1). destruct (label r n1) as [r' n2] eqn:Er.
  cbn [fst snd] in *. cbn [tasks_of].
  assert (forall i, In i (leaves l) -> i < next) as Hl by (intros i Hi; apply Hlt; cbn [leaves]; apply in_or_app; left; exact Hi).
  assert (forall i, In i (leaves r) -> i < n1) as Hr.
  { intros i Hi. assert (i < next) by (apply Hlt; cbn [leaves]; apply in_or_app; right; exact Hi). lia. }
  constructor.
  - unfold tc. cbn [fst snd]. split; [|split; [|lia]].
    + destruct (A2 _ (lid_in l')) as [Q|Q]; [specialize (Hl _ Q); lia|lia].
    + destruct (B2 _ (lid_in r')) as [Q|Q]; [specialize (Hr _ Q); lia|lia].
  - apply Forall_app. split; [apply IHl; exact Hl|].
    eapply Forall_impl; [|apply IHr; exact Hr]. cbn beta. intros x (X1 & X2 & X3). repeat split; [exact X1|exact X2|lia].
Qed.

(* ---- insertion sort by result label ---- *)
Lemma insert_task_perm x l : Permutation (insert_task x l) (x :: l).
Proof.
  induction l as [|y l IH]; cbn [insert_task]; [apply Permutation_refl|].
  destruct (snd x <=? snd y)%nat; [apply Permutation_refl|].
  eapply Permutation_trans; [apply perm_skip; exact IH|apply perm_swap].
Qed.
Lemma sort_tasks_perm l : Permutation (sort_tasks l) l.
Proof.
  induction l as [|x l IH]; [apply Permutation_refl|]. cbn [sort_tasks fold_right].
  eapply Permutation_trans; [apply insert_task_perm|apply perm_skip; exact IH].
Qed.
Definition tle (x y : nat * nat * nat) : Prop := tc x <= tc y.
Lemma insert_task_sorted x l : StronglySorted tle l -> StronglySorted tle (insert_task x l).
Proof.
  induction 1 as [|y l Hs IH Hy]; cbn [insert_task]; [constructor; constructor|].
  destruct (Nat.leb_spec (snd x) (snd y)) as [Hle|Hgt].
  - constructor; [constructor; assumption|]. constructor; [exact Hle|].
    eapply Forall_impl; [|exact Hy]. unfold tle, tc in *. intros z Hz. lia.
  - constructor; [exact IH|]. apply (Permutation_Forall (Permutation_sym (insert_task_perm x l))).
    constructor; [unfold tle, tc; lia|exact Hy].
Qed.
Lemma sort_tasks_sorted l : StronglySorted tle (sort_tasks l).
Proof. induction l as [|x l IH]; [constructor|]. cbn [sort_tasks fold_right]. apply insert_task_sorted. exact IH. Qed.

Lemma sorted_split : forall pre x post, StronglySorted tle (pre ++ x :: post) -> Forall (fun y => tc x <= tc y) post.
Proof.
  induction pre as [|p pre IH]; intros x post H; cbn [app] in H; apply StronglySorted_inv in H as (Hs & Hf).
  - exact Hf.
  - apply IH. exact Hs.
Qed.

(* ---- the theorem ---- *)
Theorem tree_schedule_respects_dependencies : forall t n,
  NoDup (leaves t) -> (forall i, In i (leaves t) -> i < n) ->
  forall pre a b c post,
  sort_tasks (tasks_of (fst (label t n))) = pre ++ (a, b, c) :: post ->
  (a < n \/ exists a1 a2, In (a1, a2, a) pre) /\
  (b < n \/ exists b1 b2, In (b1, b2, b) pre) /\
  a <> b /\ n <= c /\
  (forall x y z, In (x, y, z) pre -> z <> c /\ x <> a /\ x <> b /\ y <> a /\ y <> b).
Proof.
  intros t n Hnd Hlt pre a b c post E.
  set (lt := fst (label t n)) in *. set (T := tasks_of lt) in *.
  assert (NoDup (ids lt)) as Hids by (apply label_nodup; assumption).
  pose proof (sort_tasks_perm T) as HP. rewrite E in HP.
  pose proof (sort_tasks_sorted T) as HS. rewrite E in HS.
  assert (In (a, b, c) T) as Hin by (apply (Permutation_in _ HP); apply in_or_app; right; left; reflexivity).
  pose proof (label_order t n Hlt) as Hord. fold lt in Hord. fold T in Hord. rewrite Forall_forall in Hord.
  pose proof (Hord _ Hin) as (Oa & Ob & Oc). unfold tc in Oa, Ob, Oc. cbn [fst snd] in Oa, Ob, Oc.
  (* NoDup of result labels and of operands along the sorted list *)
  assert (NoDup (map tc (pre ++ (a, b, c) :: post))) as Hcs.
  { apply (Permutation_NoDup (Permutation_map tc (Permutation_sym HP))). apply tcs_nodup. exact Hids. }
  assert (NoDup (kids (pre ++ (a, b, c) :: post))) as Hks.
  { unfold kids. eapply Permutation_NoDup; [apply Permutation_flat_map; apply Permutation_sym; exact HP|]. apply kids_nodup. exact Hids. }
  rewrite kids_app in Hks. change (kids ((a, b, c) :: post)) with (a :: b :: kids post) in Hks.
  (* an operand that is not a leaf was produced earlier *)
  assert (forall k, In k [a; b] -> k < n \/ exists k1 k2, In (k1, k2, k) pre) as Hprod.
  { intros k Hk. assert (In k (kids T)) as HkT.
    { unfold kids. apply in_flat_map. exists (a, b, c). split; [exact Hin|exact Hk]. }
    destruct (kid_leaf_or_task lt k HkT) as [Q|(k1 & k2 & Q)].
    - left. unfold lt in Q. rewrite label_leaves in Q. apply Hlt. exact Q.
    - right. exists k1, k2. fold T in Q. apply (Permutation_in _ (Permutation_sym HP)) in Q.
      apply in_app_or in Q as [Q|[Q|Q]]; [exact Q| |].
      + exfalso. inversion Q; subst. destruct Hk as [<-|[<-|[]]]; lia.
      + exfalso. pose proof (sorted_split _ _ _ HS) as Hpost. rewrite Forall_forall in Hpost. specialize (Hpost _ Q).
        unfold tc in Hpost. cbn [snd] in Hpost. destruct Hk as [<-|[<-|[]]]; lia. }
  split; [apply Hprod; left; reflexivity|]. split; [apply Hprod; right; left; reflexivity|].
  split.
  { pose proof (NoDup_app_r _ _ Hks) as Hks'. inversion Hks' as [|? ? Hn _]; subst. intros ->. apply Hn. left. reflexivity. }
  split; [exact Oc|].
  intros x y z Hxyz.
  assert (In x (kids pre) /\ In y (kids pre)) as (Kx & Ky).
  { unfold kids. split; apply in_flat_map; exists (x, y, z); (split; [exact Hxyz|cbn; auto]). }
  split.
  { rewrite map_app in Hcs. cbn [map] in Hcs. intros ->. apply NoDup_remove_2 in Hcs. apply Hcs. apply in_or_app. left.
    apply in_map_iff. exists (x, y, c). split; [reflexivity|exact Hxyz]. }
  assert (forall k, In k (kids pre) -> k <> a /\ k <> b) as Hfresh.
  { intros k Hk. split; intros ->.
    - apply (NoDup_app_disj _ _ a Hks Hk). left. reflexivity.
    - apply (NoDup_app_disj _ _ b Hks Hk). right. left. reflexivity. }
  destruct (Hfresh _ Kx). destruct (Hfresh _ Ky). auto.
Qed.

(* every label that is produced is consumed later, except the root: exactly one group remains *)
Theorem tree_schedule_is_complete : forall t n,
  NoDup (leaves t) -> (forall i, In i (leaves t) -> i < n) ->
  let L := sort_tasks (tasks_of (fst (label t n))) in
  length L = length (leaves t) - 1 /\
  Permutation (lid (fst (label t n)) :: kids L) (leaves t ++ map tc L).
Proof.
  intros t n Hnd Hlt L.
  set (lt := fst (label t n)) in *.
  assert (forall s, length (tasks_of s) = length (lleaves s) - 1 /\ 1 <= length (lleaves s)) as Hlen.
  { induction s as [i|c l (IHl & Ll) r (IHr & Lr)]; [cbn; lia|]. cbn [tasks_of lleaves length]. rewrite !app_length. lia. }
  assert (forall s, Permutation (ids s) (lleaves s ++ map tc (tasks_of s))) as Hids.
  { induction s as [i|c l IHl r IHr]; [cbn; apply Permutation_refl|].
    cbn [ids lleaves tasks_of map]. rewrite map_app. rewrite IHl, IHr.
    change (tc (lid l, lid r, c)) with c.
    eapply Permutation_trans; [|apply Permutation_middle]. constructor.
    rewrite <- !app_assoc. apply Permutation_app_head. rewrite !app_assoc. apply Permutation_app_tail. apply Permutation_app_comm. }
  split.
  - unfold L. rewrite (Permutation_length (sort_tasks_perm _)). fold lt. rewrite (proj1 (Hlen lt)). unfold lt. rewrite label_leaves. reflexivity.
  - pose proof (sort_tasks_perm (tasks_of lt)) as HP. fold L in HP.
    eapply Permutation_trans; [apply perm_skip; unfold kids; apply Permutation_flat_map; exact HP|].
    eapply Permutation_trans; [apply root_kids_perm|].
    eapply Permutation_trans; [apply Hids|]. unfold lt at 1. rewrite label_leaves.
    apply Permutation_app_head. apply Permutation_map. apply Permutation_sym. exact HP.
Qed.

(* ---- the same in the vocabulary of the assembly proofs: the list of active groups (WeaveProofs.act_after) ---- *)
Fixpoint sched_ok (act : list nat) (L : list (nat * nat * nat)) : Prop :=
  match L with
  | [] => True
  | (a, b, c) :: rest => In a act /\ In b act /\ a <> b /\ ~ In c act /\ sched_ok (act_after act a b c) rest
  end.
Definition acts (n : nat) (pre : list (nat * nat * nat)) : list nat :=
  fold_left (fun act x => act_after act (fst (fst x)) (snd (fst x)) (snd x)) pre (seq 0 n).

Lemma acts_snoc n pre a b c : acts n (pre ++ [(a, b, c)]) = act_after (acts n pre) a b c.
Proof. unfold acts. rewrite fold_left_app. reflexivity. Qed.

Lemma acts_only n : forall pre x, In x (acts n pre) -> x < n \/ In x (map tc pre).
Proof.
  induction pre as [|[[a b] c] pre IH] using rev_ind; intros x Hx.
  - left. unfold acts in Hx. cbn in Hx. apply in_seq in Hx. lia.
  - rewrite acts_snoc in Hx. apply in_act_after in Hx as [->|(Hx & _ & _)].
    + right. rewrite map_app. apply in_or_app. right. left. reflexivity.
    + destruct (IH _ Hx) as [Q|Q]; [left; exact Q|right; rewrite map_app; apply in_or_app; left; exact Q].
Qed.

Lemma acts_in n : forall pre x, x < n \/ In x (map tc pre) -> ~ In x (kids pre) -> In x (acts n pre).
Proof.
  induction pre as [|[[a b] c] pre IH] using rev_ind; intros x Hx Hk.
  - destruct Hx as [Hx|[]]. unfold acts. cbn. apply in_seq. lia.
  - rewrite acts_snoc. apply in_act_after. rewrite kids_app in Hk. cbn in Hk.
    destruct (Nat.eq_dec x c) as [->|Hxc]; [left; reflexivity|right].
    assert (~ In x (kids pre) /\ x <> a /\ x <> b) as (K1 & K2 & K3).
    { repeat split; intros Q; apply Hk; apply in_or_app; [left; exact Q|right; left; auto|right; right; left; auto]. }
    split; [|split; assumption]. apply IH; [|exact K1].
    destruct Hx as [Hx|Hx]; [left; exact Hx|right]. rewrite map_app in Hx. apply in_app_or in Hx as [Hx|[Hx|[]]]; [exact Hx|].
    unfold tc in Hx. cbn in Hx. congruence.
Qed.

Theorem tree_schedule_ok : forall t n,
  NoDup (leaves t) -> (forall i, In i (leaves t) -> i < n) ->
  sched_ok (seq 0 n) (sort_tasks (tasks_of (fst (label t n)))).
Proof.
  intros t n Hnd Hlt.
  pose proof (tree_schedule_respects_dependencies t n Hnd Hlt) as D.
  set (L := sort_tasks (tasks_of (fst (label t n)))) in *.
  assert (forall post pre, L = pre ++ post -> sched_ok (acts n pre) post) as G.
  { induction post as [|[[a b] c] post IH]; intros pre E; [exact I|].
    destruct (D pre a b c post E) as (Da & Db & Dab & Dc & Dpre).
    assert (forall k, (k < n \/ exists k1 k2, In (k1, k2, k) pre) -> (forall x y z, In (x, y, z) pre -> x <> k /\ y <> k) -> In k (acts n pre)) as Hin.
    { intros k Hk Hfresh. apply acts_in.
      - destruct Hk as [Hk|(k1 & k2 & Hk)]; [left; exact Hk|right]. apply in_map_iff. exists (k1, k2, k). split; [reflexivity|exact Hk].
      - unfold kids. intros Q. apply in_flat_map in Q as ([[x y] z] & Hx & Hq). destruct (Hfresh _ _ _ Hx) as (F1 & F2).
        cbn in Hq. destruct Hq as [Q|[Q|[]]]; congruence. }
    cbn [sched_ok]. split; [|split; [|split; [exact Dab|split]]].
    - apply Hin; [exact Da|]. intros x y z Hx. destruct (Dpre _ _ _ Hx) as (_ & ? & _ & ? & _). split; assumption.
    - apply Hin; [exact Db|]. intros x y z Hx. destruct (Dpre _ _ _ Hx) as (_ & _ & ? & _ & ?). split; assumption.
    - intros Q. apply acts_only in Q as [Q|Q]; [lia|]. apply in_map_iff in Q as ([[x y] z] & Ez & Hx).
      unfold tc in Ez. cbn in Ez. subst z. destruct (Dpre _ _ _ Hx) as (F & _). apply F. reflexivity.
    - rewrite <- acts_snoc. apply IH. rewrite <- app_assoc. exact E. }
  exact (G L [] eq_refl).
Qed.
