(* Model of lib/src/msa_io.c: read_file_stdin, detect_alignment_format, read_fasta, read_clu,
   read_msf, kalign_read_input (with merge_msa and check_for_sequences), detect_aligned,
   write_msa_fasta, write_msa_clu, write_msa_msf, parse_format_argument; msa_misc.c checksums.
   Files are byte lists.  A record keeps what the C struct keeps: name, residues, gaps[0..len].
   The sorted line buffer of the Clustal/MSF writers (qsort on (block, seq_id), all keys distinct)
   is modelled by its result: header lines, then block-major, sequence-minor order.
   Executable; no proofs here. *)
From KV Require Import Base Params Sort Detect Weave Cmp.
From Coq Require Import String.
Import Coq.Init.Datatypes.
Import ListNotations.
Local Open Scope list_scope.
Local Open Scope Z_scope.

(* ---- read_file_stdin: getline + cut at the first control byte -------------------------------- *)
Fixpoint getlines_aux (bytes cur : list Z) : list (list Z) :=
  match bytes with
  | [] => match cur with [] => [] | _ => [rev cur] end
  | b :: rest => if b =? 10 then rev cur :: getlines_aux rest [] else getlines_aux rest (b :: cur)
  end.

Fixpoint cut_cntrl (l : list Z) : list Z :=
  match l with
  | [] => []
  | c :: t => if iscntrl c then [] else c :: cut_cntrl t
  end.

Definition read_lines (bytes : list Z) : list (list Z) := map cut_cntrl (getlines_aux bytes []).

(* ---- records ---------------------------------------------------------------------------------- *)
Record rrec := mkRR { rr_name : list Z; rr_res : list Z; rr_gaps : list nat }.   (* gaps: len+1 entries *)
Definition empty_rec (name : list Z) : rrec := mkRR name [] [0%nat].

Fixpoint incr_last (l : list nat) : list nat :=
  match l with
  | [] => [1%nat]
  | [x] => [S x]
  | x :: t => x :: incr_last t
  end.

(* one byte of a sequence line: letters are residues, punctuation counts as gap before the next
   residue, everything else is dropped *)
Definition feed_byte (r : rrec) (c : Z) : rrec :=
  if isalpha c then mkRR (rr_name r) (rr_res r ++ [c]) (rr_gaps r ++ [0%nat])
  else if ispunct c then mkRR (rr_name r) (rr_res r) (incr_last (rr_gaps r))
  else r.

Definition feed_line (r : rrec) (l : list Z) : rrec := fold_left feed_byte l r.
Definition count_line (h : list Z) (l : list Z) : list Z := fold_left count_byte l h.

Record rmsa := mkM { m_recs : list rrec; m_freq : list Z }.

(* ---- detect_alignment_format -------------------------------------------------------------------- *)
Definition hint_fa (l : list Z) : bool := match l with c :: _ => c =? 62 | [] => false end.
Definition s_clu1 := "multiple sequence alignment"%string.
Definition s_clu2 := "CLUSTAL W"%string.
Definition s_clu3 := "CLUSTAL O"%string.
Definition s_msf1 := "!!AA_MULTIPLE_ALIGNMENT"%string.
Definition s_msf2 := "!!NA_MULTIPLE_ALIGNMENT"%string.
Definition s_msf3 := "MSF:"%string.
Definition hint_clu (l : list Z) : bool := has l s_clu1 || has l s_clu2 || has l s_clu3.
Definition hint_msf (l : list Z) : bool := has l s_msf1 || has l s_msf2 || has l s_msf3.

Definition detect_format (lines : list (list Z)) : Z :=
  let first := firstn 100 lines in
  let fa := existsb hint_fa first in
  let msf := existsb hint_msf first in
  let clu := existsb hint_clu first in
  (* later assignments override earlier ones *)
  if clu then FORMAT_CLU else if msf then FORMAT_MSF else if fa then FORMAT_FA else FORMAT_DETECT_FAIL.

(* ---- read_fasta ---------------------------------------------------------------------------------- *)
(* state: finished records (reversed), current record, histogram; None = error *)
Definition fasta_step (st : option (list rrec * option rrec * list Z)) (l : list Z)
  : option (list rrec * option rrec * list Z) :=
  match st with
  | None => None
  | Some (done, cur, h) =>
    if hint_fa l then
      Some (match cur with Some r => r :: done | None => done end, Some (empty_rec (tl l)), h)
    else
      let h' := count_line h l in
      match cur with
      | Some r => Some (done, Some (feed_line r l), h')
      | None => if existsb isalpha l then None else Some (done, None, h')
      end
  end.

Definition read_fasta (lines : list (list Z)) : option rmsa :=
  match fold_left fasta_step lines (Some ([], None, repeat 0 128)) with
  | None => None
  | Some (done, cur, h) => Some (mkM (rev (match cur with Some r => r :: done | None => done end)) h)
  end.

(* ---- read_clu ------------------------------------------------------------------------------------ *)
Fixpoint take_name (l : list Z) (n : nat) : list Z :=
  match n, l with
  | S n', c :: t => if isspace c then [] else c :: take_name t n'
  | _, _ => []
  end.

(* position of the first white-space byte within the first 255 bytes, 0 if there is none there
   (read_clu's j) *)
Fixpoint first_space (l : list Z) (i : nat) (fuel : nat) : nat :=
  match fuel, l with
  | S f, c :: t => if isspace c then i else first_space t (S i) f
  | O, _ :: _ => i            (* i == MSA_NAME_LEN-1 *)
  | _, [] => 0%nat
  end.

Fixpoint update_nth {A} (n : nat) (f : A -> A) (l : list A) : list A :=
  match n, l with
  | O, x :: t => f x :: t
  | S n', x :: t => x :: update_nth n' f t
  | _, [] => []
  end.

Fixpoint pad_recs (l : list rrec) (n : nat) : list rrec :=   (* sequences[] slots exist up to alloc *)
  if (length l <? n)%nat then l ++ repeat (empty_rec []) (n - length l) else l.

Definition clu_step (st : list rrec * nat * list Z) (l : list Z) : list rrec * nat * list Z :=
  let '(recs, active, h) := st in
  match l with
  | [] => (recs, 0%nat, h)
  | c :: _ =>
    if isspace c then st
    else
      let j := first_space l 0 255 in
      let name := firstn j l in
      let rest := skipn j l in
      let recs' := pad_recs recs (S active) in
      let recs'' := update_nth active (fun r => feed_line (mkRR name (rr_res r) (rr_gaps r)) rest) recs' in
      (recs'', S active, count_line h rest)
  end.

Definition read_clu (lines : list (list Z)) : option rmsa :=
  let '(recs, _, h) := fold_left clu_step (tl lines) ([], 0%nat, repeat 0 128) in
  Some (mkM recs h).

(* ---- read_msf ------------------------------------------------------------------------------------ *)
Fixpoint after (needle hay : list Z) : option (list Z) :=   (* strstr: the part from the needle on *)
  if is_prefix needle hay then Some hay
  else match hay with [] => None | _ :: t => after needle t end.

Fixpoint skip_spaces (l : list Z) : list Z :=
  match l with c :: t => if isspace c then skip_spaces t else l | [] => [] end.

Fixpoint msf_header (lines : list (list Z)) (recs : list rrec) : list rrec * list (list Z) :=
  match lines with
  | [] => (recs, [])
  | l :: rest =>
    if has l "//"%string then (recs, rest)
    else match after (bytes_of_string "Name:"%string) l with
         | Some p =>
           if has l "Len:"%string then
             let q := skip_spaces (skipn 5 p) in
             msf_header rest (recs ++ [empty_rec (take_name q (Nat.min (length l) 255))])
           else msf_header rest recs
         | None => msf_header rest recs
         end
  end.

Definition msf_step (st : option (list rrec * nat * list Z)) (l : list Z) : option (list rrec * nat * list Z) :=
  match st with
  | None => None
  | Some (recs, active, h) =>
    match l with
    | [] => Some (recs, 0%nat, h)
    | c :: _ =>
      if isspace c then st
      else if (length recs <=? active)%nat then None
      else
        let j := Nat.min (length (rr_name (nth active recs (empty_rec [])))) 256 in
        let rest := skipn j l in
        Some (update_nth active (fun r => feed_line r rest) recs, S active, count_line h rest)
    end
  end.

Definition read_msf (lines : list (list Z)) : option rmsa :=
  let '(recs, body) := msf_header lines [] in
  match fold_left msf_step body (Some (recs, 0%nat, repeat 0 128)) with
  | None => None
  | Some (recs', _, h) => Some (mkM recs' h)
  end.

(* ---- detect_aligned ------------------------------------------------------------------------------ *)
Definition row_len (r : rrec) : Z := Z.of_nat (length (rr_res r) + sum_nat (rr_gaps r)).
Definition detect_aligned (recs : list rrec) : Z :=
  let gaps := sum_nat (map (fun r => sum_nat (rr_gaps r)) recs) in
  let lens := map row_len recs in
  let mn := fold_right Z.min 2147483647 lens in
  let mx := fold_right Z.max 0 lens in
  if negb (gaps =? 0)%nat then (if mn =? mx then ALN_STATUS_ALIGNED else ALN_STATUS_UNKNOWN)
  else (if mn =? mx then ALN_STATUS_UNKNOWN else ALN_STATUS_UNALIGNED).

(* ---- kalign_read_input for a sequence of inputs (files / stdin) --------------------------------- *)
Record in_msa := mkI { i_recs : list rrec; i_freq : list Z; i_biotype : Z; i_aligned : Z }.

Inductive read_result := RErr | RNone | ROk (m : in_msa).

Definition read_one (bytes : list Z) : option (option rmsa) :=   (* None = error; Some None = nothing read *)
  let lines := read_lines bytes in
  match lines with
  | [] => Some None
  | l0 :: _ =>
    if (length l0 =? 1)%nat then Some None
    else
      let t := detect_format lines in
      if t =? FORMAT_FA then option_map Some (read_fasta lines)
      else if t =? FORMAT_MSF then option_map Some (read_msf lines)
      else if t =? FORMAT_CLU then option_map Some (read_clu lines)
      else Some None
  end.

Definition biotype_of (old : Z) (freq : list Z) : Z :=
  match detect_alphabet freq with Some b => b | None => old end.

(* fold over the inputs: accumulated msa (if any) *)
Definition read_step (acc : option (option in_msa)) (bytes : list Z) : option (option in_msa) :=
  match acc with
  | None => None
  | Some cur =>
    match read_one bytes with
    | None => None
    | Some None => Some cur
    | Some (Some m) =>
      let bt := biotype_of ALN_BIOTYPE_UNDEF (m_freq m) in
      match cur with
      | None =>
        if (length (m_recs m) <? 2)%nat then None
        else Some (Some (mkI (m_recs m) (m_freq m) bt (detect_aligned (m_recs m))))
      | Some d =>
        (* merge_msa: alphabets must agree when the destination's is defined *)
        if negb (i_biotype d =? ALN_BIOTYPE_UNDEF) && negb (i_biotype d =? bt) then None
        else
          let freq := map (fun ab => fst ab + snd ab) (combine (i_freq d) (m_freq m)) in
          let recs := i_recs d ++ m_recs m in
          if (length recs <? 2)%nat then None
          else Some (Some (mkI recs freq (biotype_of (i_biotype d) freq) (detect_aligned recs)))
      end
    end
  end.

Definition read_inputs (files : list (list Z)) : read_result :=
  match fold_left read_step files (Some None) with
  | None => RErr
  | Some None => RNone
  | Some (Some m) => ROk m
  end.

(* ---- writers -------------------------------------------------------------------------------------- *)
Definition nl : Z := 10.
Definition space : Z := 32.

Fixpoint chunks (fuel : nat) (k : nat) (l : list Z) : list (list Z) :=
  match fuel with
  | O => []
  | S f => match l with [] => [] | _ => firstn k l :: chunks f k (skipn k l) end
  end.
Definition chunk60 (row : list Z) : list (list Z) := chunks (S (length row)) 60 row.

Definition cname (name : list Z) : list Z := firstn 256 name.   (* strnlen(name, MSA_NAME_LEN) bytes *)

(* an alignment to write: (name, gapped row) in order; alnlen = length of the rows *)
Definition write_fasta (rows : list (list Z * list Z)) : list Z :=
  flat_map (fun nr => 62 :: fst nr ++ [nl] ++ flat_map (fun c => c ++ [nl]) (chunk60 (snd nr))) rows.

Definition max_name_len (rows : list (list Z * list Z)) : nat :=
  fold_right Nat.max 0%nat (map (fun nr => length (cname (fst nr))) rows).

Definition block_line (mx : nat) (name chunk : list Z) : list Z :=
  cname name ++ repeat space (mx + 5 - length (cname name)) ++ chunk.

(* blocks: the number of blocks is that of the rows (all of length alnlen) *)
Definition blocks (alnlen : nat) (rows : list (list Z * list Z)) : list (list Z) :=
  let mx := max_name_len rows in
  let nb := ((alnlen + 59) / 60)%nat in
  flat_map (fun b => map (fun nr => block_line mx (fst nr) (firstn 60 (skipn (60 * b) (firstn alnlen (snd nr))))) rows ++ [[nl]])
           (seq 0 nb).

Definition unlines (ls : list (list Z)) : list Z := flat_map (fun l => l ++ [nl]) ls.

Definition write_clu (version : list Z) (alnlen : nat) (rows : list (list Z * list Z)) : list Z :=
  unlines ((bytes_of_string "Kalign ("%string ++ version ++ bytes_of_string ") multiple sequence alignment"%string) :: [] :: blocks alnlen rows).

(* decimal printing *)
Fixpoint digits_fuel (fuel : nat) (n : Z) (acc : list Z) : list Z :=
  match fuel with
  | O => acc
  | S f => if n <? 10 then (48 + n) :: acc else digits_fuel f (n / 10) ((48 + n mod 10) :: acc)
  end.
Definition decimal (n : Z) : list Z := if n <? 0 then 45 :: digits_fuel 40 (- n) [] else digits_fuel 40 n [].
Definition pad_left (w : nat) (l : list Z) : list Z := repeat space (w - length l) ++ l.

Definition gcg_mult (alnlen : nat) (rows : list (list Z * list Z)) : Z :=
  fold_left (fun chk nr => (chk + gcg_checksum (firstn alnlen (snd nr))) mod 10000) rows 0.

Definition write_msf (basename date : list Z) (protein : bool) (alnlen : nat) (rows : list (list Z * list Z)) : list Z :=
  let mx := max_name_len rows in
  let header :=
    [bytes_of_string (if protein then "!!AA_MULTIPLE_ALIGNMENT 1.0"%string else "!!NA_MULTIPLE_ALIGNMENT 1.0"%string);
     [];
     [space] ++ basename ++ bytes_of_string "  MSF: "%string ++ decimal (Z.of_nat alnlen) ++ bytes_of_string "  Type: "%string ++
       [if protein then 80 else 78] ++ bytes_of_string "  "%string ++ date ++ bytes_of_string "  Check: "%string ++
       decimal (gcg_mult alnlen rows) ++ bytes_of_string "  .."%string;
     []] ++
    map (fun nr =>
           bytes_of_string " Name: "%string ++ firstn mx (fst nr) ++ repeat space (mx - length (firstn mx (fst nr))) ++
           bytes_of_string "  Len:  "%string ++ pad_left 5 (decimal (Z.of_nat alnlen)) ++
           bytes_of_string "  Check: "%string ++ pad_left 4 (decimal (gcg_checksum (firstn alnlen (snd nr)))) ++
           bytes_of_string "  Weight: 1.00"%string) rows ++
    [[]; bytes_of_string "//"%string; []] in
  unlines (header ++ blocks alnlen rows).

(* parse_format_argument *)
Definition parse_format (f : option (list Z)) : option Z :=
  match f with
  | None => Some FORMAT_FA
  | Some s => if has s "msf"%string then Some FORMAT_MSF else if has s "clu"%string then Some FORMAT_CLU
              else if has s "fasta"%string then Some FORMAT_FA else if has s "fa"%string then Some FORMAT_FA else None
  end.

(* the gapped rows of a read alignment (finalise_alignment) *)
Definition rows_of (recs : list rrec) : list (list Z * list Z) :=
  map (fun r => (rr_name r, expand (rr_gaps r) (rr_res r))) recs.
