#!/usr/bin/env python3
"""Developer helper: print the markdown table of DESIGN.md section 10 from seeded/*/meta.json."""
import json, glob, os
V = os.path.dirname(os.path.dirname(os.path.abspath(__file__)))
print('| id | breaks | needs, in order to manifest | caught by |')
print('|---|---|---|---|')
for f in sorted(glob.glob(os.path.join(V, 'seeded', '*', 'meta.json'))):
    m = json.load(open(f))
    print('| %s | %s | %s | %s |' % (m['id'], m['breaks_property'], m['needs_to_manifest'].replace('|', '/'), m['caught_by'].replace('|', '/')))
