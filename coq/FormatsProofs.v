From KV Require Import Base Params Sort Detect Weave WeaveProofs Cmp Formats.
From Coq Require String.
Local Open Scope Z_scope.

Arguments isalpha : simpl never.
Arguments ispunct : simpl never.
Arguments iscntrl : simpl never.
Arguments isspace : simpl never.

Lemma ispunct_dash : ispunct dash = true. Proof. vm_compute. reflexivity. Qed.
Lemma isalpha_dash' : isalpha dash = false. Proof. vm_compute. reflexivity. Qed.
Lemma iscntrl_nl : iscntrl 10 = true. Proof. vm_compute. reflexivity. Qed.

(* ---- one sequence line: the record state is the gapped row read so far ------------------------ *)
Definition row_of (r : rrec) : list Z := expand (rr_gaps r) (rr_res r).
Definition rec_wf (r : rrec) : Prop := length (rr_gaps r) = S (length (rr_res r)).

(* what a byte contributes to the row: letters stay, punctuation becomes a gap, the rest vanishes *)
Definition norm_byte (c : Z) : list Z := if isalpha c then [c] else if ispunct c then [dash] else [].
Definition norm (l : list Z) : list Z := flat_map norm_byte l.

Lemma incr_last_snoc : forall g k, incr_last (g ++ [k]) = g ++ [S k].
Proof.
  induction g as [|x g IH]; intros k; [reflexivity|].
  simpl. rewrite IH. destruct (g ++ [k]) eqn:E; [destruct g; discriminate|reflexivity].
Qed.

Lemma expand_snoc_letter : forall res g k c, length g = length res ->
  expand (g ++ [k] ++ [0%nat]) (res ++ [c]) = expand (g ++ [k]) res ++ [c].
Proof.
  induction res as [|r res IH]; intros [|g0 g] k c H; simpl in H; try lia.
  - reflexivity.
  - change ((g0 :: g) ++ [k] ++ [0%nat]) with (g0 :: (g ++ [k] ++ [0%nat])).
    change ((r :: res) ++ [c]) with (r :: (res ++ [c])).
    change ((g0 :: g) ++ [k]) with (g0 :: (g ++ [k])).
    rewrite !expand_cons_cons, IH by lia. rewrite <- app_assoc. reflexivity.
Qed.

Lemma expand_snoc_gap : forall res g k, length g = length res ->
  expand (g ++ [S k]) res = expand (g ++ [k]) res ++ [dash].
Proof.
  induction res as [|r res IH]; intros [|g0 g] k H; simpl in H; try lia.
  - simpl. change (dash :: repeat dash k) with (repeat dash (S k)).
    replace (S k) with (k + 1)%nat by lia. rewrite repeat_add. reflexivity.
  - change ((g0 :: g) ++ [S k]) with (g0 :: (g ++ [S k])).
    change ((g0 :: g) ++ [k]) with (g0 :: (g ++ [k])).
    rewrite !expand_cons_cons, IH by lia. rewrite <- app_assoc. reflexivity.
Qed.

Lemma rec_wf_split r : rec_wf r -> exists g k, rr_gaps r = g ++ [k] /\ length g = length (rr_res r).
Proof.
  unfold rec_wf. intro H. destruct (rr_gaps r) as [|x l] eqn:E using rev_ind; [simpl in H; lia|].
  exists l, x. split; auto. rewrite app_length in H. simpl in H. lia.
Qed.

Lemma feed_byte_row r c : rec_wf r ->
  rec_wf (feed_byte r c) /\ row_of (feed_byte r c) = row_of r ++ norm_byte c /\
  rr_name (feed_byte r c) = rr_name r /\
  rr_res (feed_byte r c) = rr_res r ++ (if isalpha c then [c] else []).
Proof.
  intro Hwf. destruct (rec_wf_split r Hwf) as (g & k & Hg & Hl).
  unfold feed_byte, norm_byte, row_of, rec_wf in *.
  destruct (isalpha c).
  - cbn [rr_gaps rr_res rr_name]. repeat split; auto.
    + rewrite !app_length. simpl. lia.
    + rewrite Hg, <- app_assoc. apply expand_snoc_letter. exact Hl.
  - destruct (ispunct c); cbn [rr_gaps rr_res rr_name]; rewrite ?app_nil_r; repeat split; auto.
    + rewrite Hg, incr_last_snoc, !app_length in *. simpl in *. lia.
    + rewrite Hg, incr_last_snoc. apply expand_snoc_gap. exact Hl.
Qed.

Theorem feed_line_row : forall l r, rec_wf r ->
  rec_wf (feed_line r l) /\ row_of (feed_line r l) = row_of r ++ norm l /\
  rr_name (feed_line r l) = rr_name r /\ rr_res (feed_line r l) = rr_res r ++ filter isalpha l.
Proof.
  unfold feed_line. induction l as [|c l IH]; intros r Hwf; simpl.
  - rewrite !app_nil_r. auto.
  - destruct (feed_byte_row r c Hwf) as (W & R & N & S).
    destruct (IH _ W) as (W' & R' & N' & S'). repeat split; auto.
    + rewrite R', R. unfold norm. simpl. rewrite <- app_assoc. reflexivity.
    + congruence.
    + rewrite S', S. destruct (isalpha c); simpl; rewrite <- app_assoc; reflexivity.
Qed.

(* rows made of letters and '-' are reproduced exactly *)
Definition rowchar (c : Z) : Prop := isalpha c = true \/ c = dash.

Lemma norm_rowchars l : Forall rowchar l -> norm l = l.
Proof.
  induction 1 as [|c l [Hc| ->] Hl IH]; [reflexivity| |]; unfold norm in *; cbn [flat_map]; unfold norm_byte at 1.
  - rewrite Hc. cbn [app]. f_equal. exact IH.
  - rewrite isalpha_dash', ispunct_dash. cbn [app]. f_equal. exact IH.
Qed.

Lemma empty_rec_wf n : rec_wf (empty_rec n). Proof. reflexivity. Qed.
Lemma empty_rec_row n : row_of (empty_rec n) = []. Proof. reflexivity. Qed.

(* C06/C04 core: feeding the pieces of a gapped row, however it is cut into lines, rebuilds the
   row (gaps in the same places) and keeps exactly its letters as residues *)
Theorem feed_chunks_row : forall chunks r, rec_wf r ->
  let r' := fold_left feed_line chunks r in
  rec_wf r' /\ row_of r' = row_of r ++ norm (concat chunks) /\ rr_name r' = rr_name r /\
  rr_res r' = rr_res r ++ filter isalpha (concat chunks).
Proof.
  induction chunks as [|ch chunks IH]; intros r Hwf; simpl.
  - rewrite !app_nil_r. auto.
  - destruct (feed_line_row ch r Hwf) as (W & R & N & S).
    destruct (IH _ W) as (W' & R' & N' & S'). cbv zeta in *. repeat split; auto.
    + rewrite R', R. unfold norm. rewrite flat_map_app, <- app_assoc. reflexivity.
    + congruence.
    + rewrite S', S, filter_app, <- app_assoc. reflexivity.
Qed.

(* ---- lines ----------------------------------------------------------------------------------------- *)
Definition clean_line (l : list Z) : Prop := Forall (fun c => iscntrl c = false) l.

Lemma cut_cntrl_clean l : clean_line l -> cut_cntrl l = l.
Proof. induction 1 as [|c l Hc Hl IH]; simpl; auto. rewrite Hc, IH. reflexivity. Qed.

Lemma clean_no_nl l : clean_line l -> Forall (fun c => c <> 10) l.
Proof.
  intro H. eapply Forall_impl; [|exact H]. simpl. intros c Hc E. subst. rewrite iscntrl_nl in Hc. discriminate.
Qed.

Lemma getlines_line : forall l rest cur, Forall (fun c => c <> 10) l ->
  getlines_aux (l ++ 10 :: rest) cur = (rev cur ++ l) :: getlines_aux rest [].
Proof.
  induction l as [|c l IH]; intros rest cur H; simpl.
  - rewrite app_nil_r. reflexivity.
  - inversion H as [|? ? Hc Hl]; subst. destruct (Z.eqb_spec c 10); [contradiction|].
    rewrite IH by assumption. simpl. rewrite <- app_assoc. reflexivity.
Qed.

Theorem read_lines_unlines : forall ls, Forall clean_line ls -> read_lines (unlines ls) = ls.
Proof.
  unfold read_lines, unlines. induction ls as [|l ls IH]; intro H; [reflexivity|].
  inversion H as [|? ? Hl Hls]; subst. simpl. rewrite <- app_assoc. simpl.
  rewrite getlines_line by (apply clean_no_nl; exact Hl).
  simpl. rewrite cut_cntrl_clean by exact Hl. f_equal. apply IH. exact Hls.
Qed.

(* ---- 60-column chunks ------------------------------------------------------------------------------- *)
Lemma chunks_concat : forall fuel k l, (0 < k)%nat -> (length l < fuel)%nat -> concat (chunks fuel k l) = l.
Proof.
  induction fuel as [|f IH]; intros k l Hk Hf; [lia|].
  destruct l as [|x l]; [reflexivity|]. cbn [chunks concat].
  rewrite IH; auto.
  - apply firstn_skipn.
  - rewrite skipn_length. cbn [length] in *. lia.
Qed.

Lemma chunks_props : forall fuel k l, (0 < k)%nat ->
  Forall (fun ch => ch <> [] /\ (length ch <= k)%nat /\ incl ch l) (chunks fuel k l).
Proof.
  induction fuel as [|f IH]; intros k l Hk; [constructor|].
  destruct l as [|x l]; [constructor|]. cbn [chunks]. constructor.
  - repeat split.
    + destruct k; [lia|]. simpl. discriminate.
    + rewrite firstn_length. lia.
    + intros a Ha. rewrite <- (firstn_skipn k (x :: l)). apply in_or_app. auto.
  - eapply Forall_impl; [|apply IH; exact Hk]. simpl. intros ch (A & B & C). repeat split; auto.
    intros a Ha. specialize (C a Ha). rewrite <- (firstn_skipn k (x :: l)). apply in_or_app. auto.
Qed.

Lemma chunk60_concat row : concat (chunk60 row) = row.
Proof. apply chunks_concat; lia. Qed.

(* ---- FASTA: reading what write_msa_fasta wrote ------------------------------------------------------ *)
Definition fasta_lines (rows : list (list Z * list Z)) : list (list Z) :=
  flat_map (fun nr => (62 :: fst nr) :: chunk60 (snd nr)) rows.

Lemma write_fasta_unlines rows : write_fasta rows = unlines (fasta_lines rows).
Proof.
  unfold write_fasta, unlines, fasta_lines. induction rows as [|[n r] rows IH]; [reflexivity|].
  cbn [flat_map fst snd]. rewrite flat_map_app. cbn [flat_map]. rewrite IH.
  rewrite <- !app_assoc. simpl. rewrite <- !app_assoc. reflexivity.
Qed.

Lemma count_chunks_fold : forall chs (st : list rrec * option rrec * list Z) done r h,
  st = (done, Some r, h) ->
  Forall (fun ch => hint_fa ch = false) chs ->
  fold_left fasta_step chs (Some st) =
  Some (done, Some (fold_left feed_line chs r), fold_left count_line chs h).
Proof.
  induction chs as [|ch chs IH]; intros st done r h -> Hh; [reflexivity|].
  inversion Hh as [|? ? H1 H2]; subst. cbn [fold_left fasta_step]. rewrite H1.
  apply IH; auto.
Qed.

Definition good_row (row : list Z) : Prop := Forall rowchar row.

Lemma rowchar_not_gt c : rowchar c -> (c =? 62) = false.
Proof.
  intros [H| ->]; [|reflexivity]. destruct (Z.eqb_spec c 62) as [->|]; [vm_compute in H; discriminate|reflexivity].
Qed.

Lemma chunk_no_hint row : good_row row -> Forall (fun ch => hint_fa ch = false) (chunk60 row).
Proof.
  intro Hg. pose proof (chunks_props (S (length row)) 60 row ltac:(lia)) as H.
  eapply Forall_impl; [|exact H]. simpl. intros ch (Hne & _ & Hin).
  destruct ch as [|c ch]; [congruence|]. unfold hint_fa.
  apply rowchar_not_gt. unfold good_row in Hg. rewrite Forall_forall in Hg. apply Hg. apply Hin. simpl; auto.
Qed.

(* the record read back from one written FASTA record *)
Definition rec_of (nr : list Z * list Z) : rrec := fold_left feed_line (chunk60 (snd nr)) (empty_rec (fst nr)).

Lemma rec_of_props nr : good_row (snd nr) ->
  rr_name (rec_of nr) = fst nr /\ row_of (rec_of nr) = snd nr /\ rr_res (rec_of nr) = filter isalpha (snd nr) /\
  rec_wf (rec_of nr).
Proof.
  intro Hg. unfold rec_of.
  destruct (feed_chunks_row (chunk60 (snd nr)) (empty_rec (fst nr)) (empty_rec_wf _)) as (W & R & N & S).
  cbv zeta in *. rewrite chunk60_concat in *. rewrite norm_rowchars in R by exact Hg.
  repeat split; auto.
Qed.

Definition closed (done : list rrec) (cur : option rrec) : list rrec :=
  match cur with Some r => r :: done | None => done end.

Lemma read_fasta_fold : forall rows done cur h,
  Forall (fun nr => good_row (snd nr)) rows ->
  exists done' cur' h',
    fold_left fasta_step (fasta_lines rows) (Some (done, cur, h)) = Some (done', cur', h') /\
    closed done' cur' = rev (map rec_of rows) ++ closed done cur.
Proof.
  induction rows as [|[n row] rows IH]; intros done cur h Hg.
  - exists done, cur, h. split; reflexivity.
  - inversion Hg as [|? ? Hrow Hrest]; subst. cbn [snd fst] in Hrow.
    cbn [fasta_lines flat_map fst snd]. rewrite <- app_comm_cons. cbn [fold_left].
    rewrite fold_left_app.
    assert (fasta_step (Some (done, cur, h)) (62 :: n) = Some (closed done cur, Some (empty_rec n), h)) as ->.
    { unfold fasta_step, hint_fa. rewrite Z.eqb_refl. destruct cur; reflexivity. }
    rewrite (count_chunks_fold (chunk60 row) _ (closed done cur) (empty_rec n) h eq_refl (chunk_no_hint row Hrow)).
    destruct (IH (closed done cur) (Some (fold_left feed_line (chunk60 row) (empty_rec n)))
                 (fold_left count_line (chunk60 row) h) Hrest) as (d' & c' & h' & E & C).
    exists d', c', h'. split; [exact E|].
    rewrite C. cbn [closed map rev]. rewrite <- app_assoc. reflexivity.
Qed.

(* C06 (FASTA), record level: the lines write_msa_fasta produces are read back as the same names,
   the same gapped rows and the letters of each row as residues *)
Theorem read_fasta_written rows :
  Forall (fun nr => good_row (snd nr)) rows ->
  exists h, read_fasta (fasta_lines rows) = Some (mkM (map rec_of rows) h).
Proof.
  intro Hg. unfold read_fasta.
  destruct (read_fasta_fold rows [] None (repeat 0 128) Hg) as (d & c & h & E & C).
  rewrite E. exists h. f_equal. f_equal.
  change (match c with Some r => r :: d | None => d end) with (closed d c).
  rewrite C. cbn [closed]. rewrite app_nil_r, rev_involutive. reflexivity.
Qed.

Theorem rows_of_read_back rows :
  Forall (fun nr => good_row (snd nr)) rows -> rows_of (map rec_of rows) = rows.
Proof.
  intro Hg. unfold rows_of. rewrite map_map. rewrite <- (map_id rows) at 2.
  apply map_ext_in. intros [n row] Hin. rewrite Forall_forall in Hg.
  destruct (rec_of_props (n, row) (Hg _ Hin)) as (N & R & _ & _).
  unfold row_of in R. rewrite N, R. reflexivity.
Qed.

(* ---- FASTA, file level ---------------------------------------------------------------------------- *)
(* table facts: residue letters are neither control bytes nor blank, '!', ':' or '>' *)
Lemma alpha_facts_b :
  forallb (fun c => if isalpha c then negb (iscntrl c) && negb (c =? 32) && negb (c =? 33) && negb (c =? 58) && negb (c =? 62) else true)
          (map (fun i => Z.of_nat i - 128) (seq 0 256)) = true.
Proof. vm_compute. reflexivity. Qed.

Lemma byte_has (l : list Z) (w : String.string) (c : Z) :
  In c (bytes_of_string w) -> ~ In c l -> has l w = false.
Proof.
  unfold has. intros Hc Hn. destruct (contains l (bytes_of_string w)) eqn:E; auto. exfalso.
  assert (forall needle hay, is_prefix needle hay = true -> forall x, In x needle -> In x hay) as P.
  { induction needle as [|a nd IHn]; intros [|b hay] H x Hx; simpl in *; try contradiction; try discriminate.
    apply andb_true_iff in H as [H1 H2]. apply Z.eqb_eq in H1. subst.
    destruct Hx as [<-|Hx]; auto. }
  assert (forall hay needle, contains hay needle = true -> forall x, In x needle -> In x hay) as Q.
  { induction hay as [|b hay IHh]; intros needle H x Hx; simpl in H.
    - rewrite orb_false_r in H. eapply P; eauto.
    - apply orb_true_iff in H as [H|H]; [eapply P; eauto|]. right. eapply IHh; eauto. }
  apply Hn. eapply Q; eauto.
Qed.

(* a line without blank, '!' and ':' carries no Clustal or MSF hint *)
Lemma no_hints l : ~ In 32 l -> ~ In 33 l -> ~ In 58 l -> hint_clu l = false /\ hint_msf l = false.
Proof.
  intros H32 H33 H58. unfold hint_clu, hint_msf.
  rewrite (byte_has l s_clu1 32), (byte_has l s_clu2 32), (byte_has l s_clu3 32),
          (byte_has l s_msf1 33), (byte_has l s_msf2 33), (byte_has l s_msf3 58);
    auto; vm_compute; tauto.
Qed.

(* names that survive line reading and cannot be mistaken for a format hint *)
Definition name_ok (n : list Z) : Prop :=
  n <> [] /\ clean_line n /\ ~ In 32 n /\ ~ In 33 n /\ ~ In 58 n.

Lemma rowchar_facts c : rowchar c -> iscntrl c = false /\ c <> 32 /\ c <> 33 /\ c <> 58 /\ c <> 62.
Proof.
  intros [H| ->]; [|vm_compute; repeat split; congruence].
  assert (-128 <= c < 128) as Hr.
  { unfold isalpha, ctype_lookup, nthZ in H. destruct (c + 128 <? 0) eqn:E; [discriminate|].
    apply Z.ltb_ge in E. destruct (Z_lt_dec c 128); [lia|]. exfalso.
    rewrite nth_overflow in H; [discriminate|]. vm_compute length. lia. }
  pose proof alpha_facts_b as T. rewrite forallb_forall in T.
  assert (In c (map (fun i => Z.of_nat i - 128) (seq 0 256))) as Hin.
  { apply in_map_iff. exists (Z.to_nat (c + 128)). split; [lia|]. apply in_seq. lia. }
  specialize (T c Hin). rewrite H in T.
  repeat (apply andb_true_iff in T as [T ?]).
  repeat match goal with E : negb _ = true |- _ => apply negb_true_iff in E end.
  repeat match goal with E : (_ =? _) = false |- _ => apply Z.eqb_neq in E end.
  repeat split; auto.
Qed.

Lemma good_row_chunks_facts row : good_row row ->
  Forall (fun ch => clean_line ch /\ ~ In 32 ch /\ ~ In 33 ch /\ ~ In 58 ch) (chunk60 row).
Proof.
  intro Hg. pose proof (chunks_props (S (length row)) 60 row ltac:(lia)) as H.
  eapply Forall_impl; [|exact H]. simpl. intros ch (_ & _ & Hin).
  unfold good_row in Hg. rewrite Forall_forall in Hg.
  assert (forall c, In c ch -> rowchar c) as Hc by (intros c Hc; apply Hg, Hin, Hc).
  repeat split.
  - apply Forall_forall. intros c Hi. apply (rowchar_facts c (Hc c Hi)).
  - intro Hi. destruct (rowchar_facts 32 (Hc _ Hi)) as (_ & E & _). congruence.
  - intro Hi. destruct (rowchar_facts 33 (Hc _ Hi)) as (_ & _ & E & _). congruence.
  - intro Hi. destruct (rowchar_facts 58 (Hc _ Hi)) as (_ & _ & _ & E & _). congruence.
Qed.

Lemma fasta_lines_facts rows :
  Forall (fun nr => name_ok (fst nr) /\ good_row (snd nr)) rows ->
  Forall (fun l => clean_line l /\ ~ In 32 l /\ ~ In 33 l /\ ~ In 58 l) (fasta_lines rows).
Proof.
  induction 1 as [|[n row] rows [(Hne & Hcl & H32 & H33 & H58) Hg] Hrest IH]; [constructor|].
  cbn [fasta_lines flat_map fst snd] in *. constructor.
  - repeat split.
    + constructor; [vm_compute; reflexivity|exact Hcl].
    + intros [E|E]; [discriminate|auto].
    + intros [E|E]; [discriminate|auto].
    + intros [E|E]; [discriminate|auto].
  - apply Forall_app. split; [apply good_row_chunks_facts; exact Hg|exact IH].
Qed.

Lemma existsb_firstn_false {A} (f : A -> bool) n l : Forall (fun x => f x = false) l -> existsb f (firstn n l) = false.
Proof.
  intro H. revert n. induction H as [|x l Hx Hl IH]; intros [|n]; simpl; auto. rewrite Hx, IH. reflexivity.
Qed.

(* C06 (FASTA), file level: kalign_read_input on the bytes write_msa_fasta produced *)
Theorem read_one_written_fasta rows :
  rows <> [] -> Forall (fun nr => name_ok (fst nr) /\ good_row (snd nr)) rows ->
  exists h, read_one (write_fasta rows) = Some (Some (mkM (map rec_of rows) h)).
Proof.
  intros Hne Hall.
  pose proof (fasta_lines_facts rows Hall) as Hf.
  assert (Forall (fun nr => good_row (snd nr)) rows) as Hg
    by (eapply Forall_impl; [|exact Hall]; simpl; tauto).
  destruct (read_fasta_written rows Hg) as (h & Hr). exists h.
  unfold read_one. rewrite write_fasta_unlines.
  rewrite read_lines_unlines by (eapply Forall_impl; [|exact Hf]; simpl; tauto).
  destruct rows as [|[n row] rows]; [congruence|].
  inversion Hall as [|? ? [(Hn & _) _] _]; subst. cbn [fst] in Hn.
  remember (fasta_lines ((n, row) :: rows)) as lines eqn:El.
  cbn [fasta_lines flat_map fst snd] in El. rewrite <- app_comm_cons in El.
  rewrite El at 1.
  assert (Nat.eqb (length (62 :: n)) 1 = false) as ->.
  { destruct n; [congruence|]. reflexivity. }
  assert (detect_format lines = FORMAT_FA) as ->.
  { unfold detect_format.
    rewrite (existsb_firstn_false hint_clu), (existsb_firstn_false hint_msf).
    - rewrite El. cbn [firstn existsb hint_fa]. rewrite Z.eqb_refl. reflexivity.
    - eapply Forall_impl; [|exact Hf]. simpl. intros l (_ & A & B & C). apply (no_hints l A B C).
    - eapply Forall_impl; [|exact Hf]. simpl. intros l (_ & A & B & C). apply (no_hints l A B C). }
  rewrite Z.eqb_refl. rewrite Hr. reflexivity.
Qed.

(* ---- C15: FASTA rows are wrapped at 60 columns ---------------------------------------------------- *)
Lemma chunks_full : forall fuel k l, (0 < k)%nat -> (length l < fuel)%nat ->
  forall pre last, chunks fuel k l = pre ++ [last] -> Forall (fun ch => length ch = k) pre /\ (1 <= length last <= k)%nat.
Proof.
  induction fuel as [|f IH]; intros k l Hk Hf pre last E; [lia|].
  destruct l as [|x l]; [destruct pre; discriminate|]. cbn [chunks] in E.
  destruct pre as [|p pre].
  - simpl in E. injection E as E1 E2. split; [constructor|].
    rewrite <- E1, firstn_length. cbn [length]. lia.
  - simpl in E. injection E as E1 E2.
    assert (chunks f k (skipn k (x :: l)) <> []) as Hne by (rewrite E2; destruct pre; discriminate).
    assert (k < length (x :: l))%nat as Hlen.
    { destruct (Nat.lt_ge_cases k (length (x :: l))); auto.
      rewrite skipn_all2 in Hne by lia. destruct f; simpl in Hne; congruence. }
    destruct (IH k (skipn k (x :: l)) Hk ltac:(rewrite skipn_length; cbn [length] in *; lia) pre last E2) as [A B].
    split; auto. constructor; auto. rewrite <- E1, firstn_length. lia.
Qed.

Theorem fasta_wrapped_at_60 row pre last :
  chunk60 row = pre ++ [last] -> Forall (fun ch => length ch = 60%nat) pre /\ (1 <= length last <= 60)%nat.
Proof. apply chunks_full; lia. Qed.

Theorem fasta_chunks_nonempty_iff row : chunk60 row = [] <-> row = [].
Proof.
  split; intro H.
  - rewrite <- (chunk60_concat row), H. reflexivity.
  - subst. reflexivity.
Qed.
