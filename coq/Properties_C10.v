(* C10 - Progressive merging never re-aligns a finished sub-alignment.
   Statements only; proofs are in WeaveProofs.v / AssemblyProofs.v. *)
From KV Require Import Base Weave WeaveProofs WeaveCheck AssemblyProofs.
From KV Require Pipeline CladeTasks TreeSchedule TreeAssembly TreePaths.
Local Open Scope nat_scope.

(* update_gaps (weave_alignment.c:117) is column insertion: for every gap vector, residue list
   and insertion vector, the row rebuilt from the updated gap counts is the old row with
   ng[j] gap columns inserted before column j. *)
Theorem C10_update_gaps_is_column_insertion : forall res g ng,
  length g = S (length res) ->
  length ng = S (length (expand g res)) ->
  expand (update_gaps g ng) res = expand ng (expand g res).
Proof. exact update_gaps_refines. Qed.
Print Assumptions C10_update_gaps_is_column_insertion.

(* One merge applies one and the same column insertion to every row of a group. *)
Theorem C10_merge_is_uniform : forall seqs st act a b c ops wa wb,
  Inv seqs st act -> In a act -> In b act -> a <> b ->
  width_ok seqs st a wa -> width_ok seqs st b wb -> ops_fit (map op_kind ops) wa wb ->
  forall i, i < length seqs ->
    row_of seqs (merge_step st a b c ops) i =
      if memb i (members st a) then weave_a (map op_kind ops) (row_of seqs st i)
      else if memb i (members st b) then weave_b (map op_kind ops) (row_of seqs st i)
      else row_of seqs st i.
Proof. exact merge_step_rows. Qed.
Print Assumptions C10_merge_is_uniform.

(* Main statement.  For every set of sequences, every valid continuation of the run (any guide
   tree in any child-before-parent order, any paths whose ops fit) and every block S of rows that
   lies inside one group: after the run, the rows of S with the columns that are gaps in all of
   them removed are what they were (stripped the same way) before. *)
Theorem C10_finished_blocks_are_preserved : forall seqs tasks st act,
  Inv seqs st act -> valid_run seqs st act tasks ->
  forall S x w, In x act -> incl S (members st x) -> width_ok seqs st x w ->
  strip_allgap (map (row_of seqs (run_from st tasks)) S) = strip_allgap (map (row_of seqs st) S).
Proof. exact run_preserves_blocks. Qed.
Print Assumptions C10_finished_blocks_are_preserved.

(* The same with the premises about the run discharged: for EVERY guide tree (kalign's serial schedule of it) and EVERY
   family of raw paths that are well-formed for the widths of the groups they join (TreePaths.build_tasks), stop the run
   after any number of merges: every block of rows inside a group that is active at that moment comes out of the
   finished run, stripped of its all-gap columns, exactly as it was.  (TreeSchedule/TreeAssembly/TreePaths.v) *)
Theorem C10_blocks_preserved_for_every_guide_tree_and_wf_path : forall seqs,
  Forall (Forall (fun c => c <> dash)) seqs ->
  forall t, NoDup (CladeTasks.leaves t) -> (forall i, In i (CladeTasks.leaves t) <-> i < length seqs) ->
  forall paths tasks,
  TreePaths.build_tasks seqs (st0 seqs) (Pipeline.sort_tasks (Pipeline.tasks_of (fst (Pipeline.label t (length seqs))))) paths = Some tasks ->
  forall t1 t2, tasks = (t1 ++ t2)%list ->
  let mid := run_from (st0 seqs) t1 in
  forall x S, In x (act_final (seq 0 (length seqs)) t1) -> incl S (members mid x) ->
  strip_allgap (map (row_of seqs (run_from (st0 seqs) tasks)) S) = strip_allgap (map (row_of seqs mid) S).
Proof. exact TreePaths.blocks_preserved_every_tree_every_wf_path. Qed.
Print Assumptions C10_blocks_preserved_for_every_guide_tree_and_wf_path.

(* Non-vacuity: a real run observed on the implementation (3 DNA sequences, two merges) satisfies
   the premises; the boolean validity check is the one proved sound in AssemblyProofs. *)
Definition ex_seqs : list (list Z) :=
  [[67;71;84;65;67;71;84;84;71;65;67;67;65;71;71]; [65;67;71;84;65;67;71;84;84;71;65;67;67;65];
   [65;67;71;84;67;71;84;84;84;71;65;67;65]]%Z.
Definition ex_tasks : list task :=
  [(0, 1, 3, [33;0;0;0;0;0;0;0;0;0;0;0;0;2;2;0]%Z); (3, 2, 4, [0;0;0;0;0;0;0;0;0;0;0;0;2;2;2;0]%Z)].
Example C10_nonvacuous :
  valid_runb ex_seqs (st0 ex_seqs) (seq 0 3) ex_tasks = true /\
  strip_allgap (map (row_of ex_seqs (run_from (st0 ex_seqs) ex_tasks)) [1; 0]) =
  map (row_of ex_seqs (run_from (st0 ex_seqs) (firstn 1 ex_tasks))) [1; 0].
Proof. vm_compute. split; reflexivity. Qed.
