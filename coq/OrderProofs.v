(* C03: the result does not depend on the order of the input records. *)
From KV Require Import Base Params Sort SortProofs Weave Api ApiProofs.
From Coq Require Import Permutation Sorted.
Local Open Scope Z_scope.

(* ---- strncmp is a strict weak order ---------------------------------------------------------- *)
Lemma strncmp_range n : forall a b, strncmp n a b = -1 \/ strncmp n a b = 0 \/ strncmp n a b = 1.
Proof.
  induction n as [|n IH]; intros a b; simpl; auto.
  destruct a as [|x a], b as [|y b]; auto.
  - destruct (uchar y =? 0); auto.
  - destruct (uchar x =? 0); auto.
  - destruct (uchar x <? uchar y); auto. destruct (uchar y <? uchar x); auto.
    destruct (uchar x =? 0); auto.
Qed.

Lemma uchar_nonneg c : 0 <= uchar c.
Proof. unfold uchar. apply Z.mod_pos_bound. lia. Qed.

Ltac uch := repeat match goal with
  | c : Z |- _ => lazymatch goal with | H : 0 <= uchar c |- _ => fail | _ => pose proof (uchar_nonneg c) end
  end.
Ltac cases_cmp := repeat match goal with
    | |- context [?u <? ?v] => let E := fresh "E" in destruct (Z.ltb_spec u v) as [E|E]
    | |- context [?u =? ?v] => let E := fresh "E" in destruct (Z.eqb_spec u v) as [E|E]
    end.

Lemma strncmp_antisym n : forall a b, strncmp n a b < 0 -> strncmp n b a > 0.
Proof.
  induction n as [|n IH]; intros a b; simpl; [lia|].
  destruct a as [|x a], b as [|y b]; try lia.
  - pose proof (uchar_nonneg y). destruct (uchar y =? 0) eqn:E; lia.
  - destruct (uchar x =? 0) eqn:E; lia.
  - destruct (uchar x <? uchar y) eqn:E1.
    + apply Z.ltb_lt in E1. intros _.
      destruct (uchar y <? uchar x) eqn:E2; [apply Z.ltb_lt in E2; lia|]. lia.
    + destruct (uchar y <? uchar x) eqn:E2; [lia|].
      apply Z.ltb_ge in E1, E2. assert (uchar x = uchar y) as Exy by lia. rewrite Exy.
      destruct (uchar y =? 0); [lia|]. apply IH.
Qed.

Lemma strncmp_flip n : forall a b, strncmp n a b = 1 -> strncmp n b a = -1.
Proof.
  induction n as [|n IH]; intros a b; simpl; [lia|].
  destruct a as [|p a], b as [|q b]; try lia; uch; cases_cmp; try lia.
  apply IH.
Qed.

Lemma strncmp_trans n : forall a b c, strncmp n a b < 0 -> strncmp n b c < 0 -> strncmp n a c < 0.
Proof.
  induction n as [|n IH]; intros a b c; simpl; [lia|].
  destruct a as [|x a], b as [|y b], c as [|z c]; try lia; uch; cases_cmp; try lia.
  apply IH.
Qed.

(* ---- records without ranks -------------------------------------------------------------------- *)
Definition strip (r : srec) : list Z * list Z := (r_name r, r_res r).
Definition plen (p : list Z * list Z) : Z := Z.of_nat (length (snd p)).
Definition cmp_p (x y : list Z * list Z) : Z :=
  if plen y <? plen x then -1
  else if plen x =? plen y then (if strncmp 256 (fst x) (fst y) <? 0 then -1 else 1)
  else 1.

Lemma cmp_strip x y : cmp_len_name x y = cmp_p (strip x) (strip y).
Proof. reflexivity. Qed.

Lemma cmp_p_trans x y z : cmp_p x y <= 0 -> cmp_p y z <= 0 -> cmp_p x z <= 0.
Proof.
  unfold cmp_p. intros H1 H2.
  destruct (Z.ltb_spec (plen y) (plen x)) as [A|A];
  destruct (Z.ltb_spec (plen z) (plen y)) as [B|B];
  destruct (Z.ltb_spec (plen z) (plen x)) as [C|C]; try lia.
  - destruct (Z.eqb_spec (plen y) (plen z)) as [D|D]; [|lia].
    lia.
  - destruct (Z.eqb_spec (plen x) (plen y)) as [D|D]; [|lia]. lia.
  - destruct (Z.eqb_spec (plen x) (plen y)) as [D|D]; [|lia].
    destruct (Z.eqb_spec (plen y) (plen z)) as [E|E]; [|lia].
    destruct (Z.eqb_spec (plen x) (plen z)) as [F|F]; [|lia].
    destruct (Z.ltb_spec (strncmp 256 (fst x) (fst y)) 0) as [G|G]; [|lia].
    destruct (Z.ltb_spec (strncmp 256 (fst y) (fst z)) 0) as [I|I]; [|lia].
    pose proof (strncmp_trans 256 _ _ _ G I) as J.
    destruct (Z.ltb_spec (strncmp 256 (fst x) (fst z)) 0); lia.
Qed.

Lemma cmp_p_asym x y : cmp_p x y <= 0 -> cmp_p y x <= 0 -> False.
Proof.
  unfold cmp_p. intros H1 H2.
  destruct (Z.ltb_spec (plen y) (plen x)) as [A|A];
  destruct (Z.ltb_spec (plen x) (plen y)) as [B|B]; try lia.
  - destruct (Z.eqb_spec (plen y) (plen x)); lia.
  - destruct (Z.eqb_spec (plen x) (plen y)); lia.
  - destruct (Z.eqb_spec (plen x) (plen y)) as [D|D]; [|lia].
    destruct (Z.eqb_spec (plen y) (plen x)) as [E|E]; [|lia].
    destruct (Z.ltb_spec (strncmp 256 (fst x) (fst y)) 0) as [G|G]; [|lia].
    destruct (Z.ltb_spec (strncmp 256 (fst y) (fst x)) 0) as [I|I]; [|lia].
    pose proof (strncmp_antisym 256 _ _ G). lia.
Qed.

(* the premise of C03: any two records of equal length have names that differ within the first
   256 bytes (that is what sort_by_len_name compares) *)
Definition distinguishable (x y : list Z * list Z) : Prop :=
  plen x = plen y -> strncmp 256 (fst x) (fst y) <> 0.

Lemma cmp_p_total x y : distinguishable x y -> cmp_p x y <= 0 \/ cmp_p y x <= 0.
Proof.
  unfold cmp_p, distinguishable. intro Hd.
  destruct (Z.ltb_spec (plen y) (plen x)) as [A|A]; [left; lia|].
  destruct (Z.ltb_spec (plen x) (plen y)) as [B|B]; [right; lia|].
  assert (plen x = plen y) as E by lia. specialize (Hd E).
  rewrite E, Z.eqb_refl.
  destruct (Z.ltb_spec (strncmp 256 (fst x) (fst y)) 0) as [G|G]; [left; lia|].
  right. destruct (Z.ltb_spec (strncmp 256 (fst y) (fst x)) 0) as [I|I]; [lia|].
  exfalso. destruct (strncmp_range 256 (fst x) (fst y)) as [R|[R|R]]; try lia.
  pose proof (strncmp_flip 256 _ _ R). lia.
Qed.

Definition pairwise_distinguishable (l : list (list Z * list Z)) : Prop :=
  ForallOrdPairs (fun x y => distinguishable x y /\ distinguishable y x) l.

Lemma fop_app_cross {A} (R : A -> A -> Prop) : forall l1 l2 x y,
  ForallOrdPairs R (l1 ++ l2) -> In x l1 -> In y l2 -> R x y.
Proof.
  induction l1 as [|a l1 IH]; intros l2 x y H Hx Hy; [contradiction|].
  simpl in H. inversion H as [|? ? Ha Hrest]; subst.
  destruct Hx as [<-|Hx].
  - rewrite Forall_forall in Ha. apply Ha. apply in_or_app; auto.
  - eapply IH; eauto.
Qed.

Lemma sorted_stripped (l : list (list Z * list Z)) :
  pairwise_distinguishable l ->
  StronglySorted (fun x y => cmp_p x y <= 0) (msort cmp_p l).
Proof.
  intro Hd. apply (msort_sorted cmp_p (fun _ => True)).
  - intros x y z _ _ _. apply cmp_p_trans.
  - apply Forall_forall. auto.
  - intros l1 l2 x y Hl Hx Hy. subst l.
    apply cmp_p_total. eapply (fop_app_cross _ l1 l2 x y Hd); eauto.
Qed.

Lemma fop_perm {A} (R : A -> A -> Prop) : (forall x y, R x y -> R y x) ->
  forall l l', Permutation l l' -> ForallOrdPairs R l -> ForallOrdPairs R l'.
Proof.
  intros Hsym l l' Hp. induction Hp; intro H; auto.
  - inversion H; subst. constructor; auto.
    eapply Permutation_Forall; eauto.
  - inversion H as [|? ? Hy H']; subst. inversion H' as [|? ? Hx H'']; subst.
    inversion Hy as [|? ? Hyx Hyl]; subst.
    constructor; [constructor; auto|]. constructor; auto.
Qed.

(* two orders of the same distinguishable records sort to the same list *)
Theorem canonical_order_unique l1 l2 :
  Permutation l1 l2 -> pairwise_distinguishable l1 -> msort cmp_p l1 = msort cmp_p l2.
Proof.
  intros Hp Hd.
  assert (pairwise_distinguishable l2) as Hd2.
  { eapply fop_perm; [|exact Hp|exact Hd]. intros x y [A B]; auto. }
  apply (sorted_perm_unique (fun x y => cmp_p x y <= 0)).
  - intros x y _ _ H1 H2. exfalso. eapply cmp_p_asym; eauto.
  - apply sorted_stripped; auto.
  - apply sorted_stripped; auto.
  - rewrite (msort_perm cmp_p l1), (msort_perm cmp_p l2). exact Hp.
  - auto.
Qed.

(* ---- the pipeline ------------------------------------------------------------------------------ *)
Lemma strip_msort l : map strip (sort_len_name l) = msort cmp_p (map strip l).
Proof.
  unfold sort_len_name.
  rewrite <- (map_id (msort cmp_p (map strip l))).
  apply (Forall2_map_eq (fun (r : srec) (p : list Z * list Z) => strip r = p) strip (fun p => p)).
  - intros x y H. exact H.
  - apply msort_Forall2.
    + intros x x' y y' <- <-. apply cmp_strip.
    + clear. induction l; simpl; constructor; auto.
Qed.

Lemma map_id_eq {A} (l : list A) : map (fun p => p) l = l.
Proof. apply map_id. Qed.

Lemma strip_with_ranks : forall recs i, map strip (with_ranks i recs) = recs.
Proof. induction recs as [|[n r] recs IH]; intros i; simpl; f_equal; auto. Qed.

Lemma filter_strip l : map strip (filter nonempty_rec l) =
  filter (fun p => match snd p with [] => false | _ => true end) (map strip l).
Proof.
  induction l as [|r l IH]; [reflexivity|].
  cbn [filter map]. unfold nonempty_rec at 1. unfold strip at 2. cbn [snd].
  destruct (r_res r) eqn:E; cbn [map]; rewrite IH; reflexivity.
Qed.

Definition mk_aligned (gr : list nat * srec) : srec :=
  mkS (r_rank (snd gr)) (r_name (snd gr)) (expand (fst gr) (r_res (snd gr))).

Lemma strip_aligned : forall s1 s2 (gaps : list (list nat)), map strip s1 = map strip s2 ->
  map strip (map mk_aligned (combine gaps s1)) = map strip (map mk_aligned (combine gaps s2)).
Proof.
  induction s1 as [|r s1 IH]; intros [|r' s2] gaps Hs; simpl in Hs; try discriminate.
  - destruct gaps; reflexivity.
  - destruct gaps as [|g gaps]; [reflexivity|]. cbn [combine map].
    inversion Hs as [[Hn Hr Hrest]].
    unfold mk_aligned at 1 3. unfold strip at 1 3. cbn [fst snd r_name r_res]. rewrite Hn, Hr.
    f_equal. apply IH. exact Hrest.
Qed.

Section Order.
Variable core : Z -> params -> list (list Z) -> list (list Z) -> list (list nat).

Definition nonempty_p (p : list Z * list Z) : bool := match snd p with [] => false | _ => true end.

Theorem order_invariance : forall bt ty gpo gpe tgpe recs1 recs2,
  Permutation recs1 recs2 ->
  pairwise_distinguishable (filter nonempty_p recs1) ->
  match kalign_run_model core bt ty gpo gpe tgpe recs1, kalign_run_model core bt ty gpo gpe tgpe recs2 with
  | Some o1, Some o2 => Permutation o1 o2
  | None, None => True
  | _, _ => False
  end.
Proof.
  intros bt ty gpo gpe tgpe recs1 recs2 Hp Hd. unfold kalign_run_model, essential_check.
  rewrite !(fun i recs => eq_trans (eq_sym (map_length strip (with_ranks i recs))) (f_equal (@length _) (strip_with_ranks recs i))).
  rewrite <- (Permutation_length Hp).
  destruct (length recs1 <=? 1)%nat; auto.
  set (k1 := filter nonempty_rec (with_ranks 0 recs1)).
  set (k2 := filter nonempty_rec (with_ranks 0 recs2)).
  assert (map strip k1 = filter nonempty_p recs1) as Hk1
    by (unfold k1; rewrite filter_strip, strip_with_ranks; reflexivity).
  assert (map strip k2 = filter nonempty_p recs2) as Hk2
    by (unfold k2; rewrite filter_strip, strip_with_ranks; reflexivity).
  assert (Permutation (map strip k1) (map strip k2)) as Hpk.
  { rewrite Hk1, Hk2. clear - Hp. induction Hp; simpl; auto.
    - destruct (nonempty_p x); auto.
    - destruct (nonempty_p x), (nonempty_p y); auto. constructor.
    - eapply Permutation_trans; eauto. }
  assert (length k1 = length k2) as Hlen.
  { rewrite <- (map_length strip k1), <- (map_length strip k2). apply Permutation_length. exact Hpk. }
  rewrite <- Hlen. destruct (length k1 <=? 1)%nat; auto.
  destruct (alphabets bt) as [[[ta tamb] [aa aamb]]|]; auto.
  destruct (init bt ty gpo gpe tgpe) as [p|]; auto.
  (* the canonical orders agree up to ranks *)
  assert (map strip (sort_len_name k1) = map strip (sort_len_name k2)) as Hs.
  { rewrite !strip_msort. apply canonical_order_unique; auto. rewrite Hk1. exact Hd. }
  set (s1 := sort_len_name k1) in *. set (s2 := sort_len_name k2) in *.
  assert (forall (f : list Z -> list Z), map (fun r => f (r_res r)) s1 = map (fun r => f (r_res r)) s2) as Hres.
  { intro f. change (fun r => f (r_res r)) with (fun r => (fun q : list Z * list Z => f (snd q)) (strip r)).
    rewrite <- !(map_map strip (fun q : list Z * list Z => f (snd q))). rewrite Hs. reflexivity. }
  rewrite (Hres (convert ta tamb)), (Hres (convert aa aamb)).
  set (gaps := core bt p _ _).
  change (fun gr : list nat * srec => mkS (r_rank (snd gr)) (r_name (snd gr)) (expand (fst gr) (r_res (snd gr)))) with mk_aligned.
  pose proof (strip_aligned s1 s2 gaps Hs) as Ha.
  set (mk := mk_aligned) in *.
  change (fun r : srec => (r_name r, r_res r)) with strip.
  rewrite (Permutation_map strip (msort_perm cmp_rank (map mk (combine gaps s1)))).
  rewrite (Permutation_map strip (msort_perm cmp_rank (map mk (combine gaps s2)))).
  rewrite Ha. reflexivity.
Qed.
End Order.
