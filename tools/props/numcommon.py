"""Shared by C07/C08/C12: correspondence of the numeric pipeline model (Kernels.v/Pipeline.v, binary32 via Flocq,
extracted) with the implementation, merge by merge, and an exact certifier of unique optimality (a test oracle)."""
import struct
from fractions import Fraction
import gen

FLAGS = 93      # NODE | PARAMS | TREE | SORTED | DP (every meetup: column, transition, maximum as binary32 bits)

def bits_to_fraction(b):
    x = struct.unpack('<f', struct.pack('<I', b))[0]
    return Fraction(x)

def run_line(seqs, ty, pens, threads=1, flags=FLAGS):
    return 'run %d %d %d %d %d %d %s' % (flags, threads, ty, pens[0], pens[1], pens[2], ' '.join(gen.hexs(s) for s in seqs))

def parse_impl(o):
    """-> dict(ok, rows, biotype, tree, nodes{c: (a, b, raw, ops)}, sorted)"""
    toks = o.split('|')
    head = toks[0].split()
    res = {'ok': o.startswith('OK'), 'rows': [], 'nodes': {}, 'tree': None, 'biotype': None, 'sorted': None}
    if res['ok'] and len(head) >= 3:
        res['rows'] = [bytes.fromhex(h).decode('latin-1') for h in head[2].split(',')]
    meets = []
    res['meets'] = {}
    for t in toks[1:]:
        f = t.split()
        if not f: continue
        if f[0] == 'MEET':
            meets.append('%s:%s:%s' % (f[1], f[2], f[3] if len(f) > 3 else '0'))
        elif f[0] == 'NODE':
            d = dict(x.split('=', 1) for x in f if '=' in x)
            res['nodes'][int(f[3])] = (int(f[1]), int(f[2]), d.get('raw', ''), d.get('ops', ''))
            res['meets'][int(f[3])] = ';'.join(meets); meets = []
        elif f[0] == 'TREE':
            res['tree'] = f[1] if len(f) > 1 else ''
        elif f[0] == 'PARAMS':
            d = dict(x.split('=', 1) for x in f if '=' in x)
            res['biotype'] = int(d['biotype']); res['params'] = d
        elif f[0] == 'SORTED':
            res['sorted'] = f[1] if len(f) > 1 else ''
    return res

def parse_model(o):
    res = {'ok': o.startswith('OK'), 'nodes': {}, 'tree': None, 'raw': o, 'meets': {}}
    for t in o.split('|')[1:]:
        f = t.split()
        if not f: continue
        if f[0] == 'NODE':
            d = dict(x.split('=', 1) for x in f if '=' in x)
            res['nodes'][int(f[3])] = (int(f[1]), int(f[2]), d.get('raw', ''), d.get('ops', ''))
            res['meets'][int(f[3])] = d.get('meets', '')
        elif f[0] == 'TREE':
            res['tree'] = f[1] if len(f) > 1 else ''
    return res

def correspond(ck, cases, label, own_tree=True):
    """cases: dicts with seqs, type, pens, threads.  Runs the implementation, then the model (a) with its own UPGMA tree
    (fewer than 100 sequences) and compares tree and every merge's raw path and expanded path."""
    kvh = ck.harness('omp', 'kvh')
    model = ck.model()
    impl = ck.run_lines_sharded(kvh, [run_line(c['seqs'], c['type'], c['pens'], c.get('threads', 1)) for c in cases], shards=8, timeout=3000)
    parsed = [parse_impl(o) for o in impl]
    mlines = []
    for c, p in zip(cases, parsed):
        bt = p['biotype'] if p['biotype'] is not None else (1 if c.get('kind') == 'dna' else 0)
        nlive = sum(1 for s in c['seqs'] if s)
        tasks = 'AUTO' if (own_tree and nlive < 100) else (p['tree'] or 'AUTO')
        mlines.append('pipeline %d %d %d %d %d %s %s' % (bt, c['type'], c['pens'][0], c['pens'][1], c['pens'][2], tasks, ' '.join(gen.hexs(s) for s in c['seqs'])))
    # the extracted binary32 model needs about 90 s for a pair of 1100 residues: generous per-case limit (the model does not hang)
    mod = ck.run_lines_sharded(model, mlines, shards=14, timeout=3000, case_timeout=900)
    ck.evaluations += len(cases)
    st = ck.corr.setdefault(label, {'cases': 0, 'disagreements': 0, 'merges_compared': 0})
    dis = []
    out = []
    for c, o, p, ml, m in zip(cases, impl, parsed, mlines, mod):
        pm = parse_model(m)
        st['cases'] += 1
        bad = None
        if not p['ok']:
            if pm['ok']: bad = 'implementation failed, model succeeded'
        elif not pm['ok']:
            bad = 'model failed (%s), implementation succeeded' % m[:80]
        else:
            if ml.split()[6] == 'AUTO' and pm['tree'] != p['tree']:
                bad = 'guide tree differs: implementation %s, model %s' % ((p['tree'] or '')[:200], (pm['tree'] or '')[:200])
            else:
                for cnode, v in p['nodes'].items():
                    st['merges_compared'] += 1
                    if pm['nodes'].get(cnode) != v:
                        bad = 'merge %d differs: implementation %r, model %r' % (cnode, v, pm['nodes'].get(cnode)); break
                    if c.get('threads', 1) == 1:      # one thread: the meetups logged before a NODE event belong to that merge
                        st['meetups_compared'] = st.get('meetups_compared', 0) + len(p['meets'].get(cnode, '').split(';'))
                        if pm['meets'].get(cnode) != p['meets'].get(cnode):
                            bad = 'merge %d: meetup sequence (column:transition:maximum bits) differs: implementation %s, model %s' % (cnode, p['meets'].get(cnode, '')[:300], (pm['meets'].get(cnode) or '')[:300]); break
        if bad:
            st['disagreements'] += 1
            dis.append({'case': {k: c[k] for k in ('seqs', 'type', 'pens') if k in c}, 'what': bad})
        out.append((c, p, pm))
    return out, dis

# ---- exact certifier (test oracle): is the planted alignment the unique optimum by a margin? -----------------------
def decode_params(line):
    """params_full line -> (gpo, gpe, tgpe, matrix) as Fractions"""
    f = line.split()
    gpo, gpe, tgpe = (bits_to_fraction(int(x)) for x in f[1:4])
    mat = [[bits_to_fraction(int(v)) for v in row.split(',')] for row in f[4].split(';')]
    return gpo, gpe, tgpe, mat

NEG = Fraction(-10**12)

def certify(ca, cb, path, gpo, gpe, tgpe, mat):
    """ca, cb: residue codes; path: list of columns 'M','A' (gap in a: consumes b),'B' (gap in b: consumes a), WITHOUT terminal gaps.
    Returns (score of the planted alignment, best score of any alignment using an edge off the planted path), competitors being
    given the cheapest admissible cost for terminal runs.  Nodes (i, j, s), s in M/A/B plus terminal-mode runs TA/TB."""
    n, m = len(ca), len(cb)
    S = ['M', 'A', 'B', 'TA', 'TB']
    def edges_from(i, j, s):
        """yield (i2, j2, s2, weight); START is (0,0,'M') by convention with s ignored"""
        out = []
        start = (i == 0 and j == 0)
        # match
        if i < n and j < m:
            w = mat[ca[i]][cb[j]]
            if start: out.append((i + 1, j + 1, 'M', w))
            elif s == 'M': out.append((i + 1, j + 1, 'M', w))
            elif s in ('A', 'B'): out.append((i + 1, j + 1, 'M', w - gpo))
            else: out.append((i + 1, j + 1, 'M', w))            # leaving a terminal-mode run: cheapest costing, no close charge
        # gap in a (consumes b_j)
        if j < m:
            if start:
                out.append((i, j + 1, 'A', -gpo)); out.append((i, j + 1, 'TA', -tgpe))
            elif s == 'M':
                out.append((i, j + 1, 'A', -gpo))
                if i == n: out.append((i, j + 1, 'TA', -tgpe))    # trailing run in terminal mode
            elif s == 'A': out.append((i, j + 1, 'A', -gpe))
            elif s == 'TA': out.append((i, j + 1, 'TA', -tgpe))
        if i < n:
            if start:
                out.append((i + 1, j, 'B', -gpo)); out.append((i + 1, j, 'TB', -tgpe))
            elif s == 'M':
                out.append((i + 1, j, 'B', -gpo))
                if j == m: out.append((i + 1, j, 'TB', -tgpe))
            elif s == 'B': out.append((i + 1, j, 'B', -gpe))
            elif s == 'TB': out.append((i + 1, j, 'TB', -tgpe))
        return out
    # leading terminal-mode runs must start at START; a terminal-mode run in the middle is not reachable by construction
    # (TA from START only while i == 0; TB while j == 0; trailing only when i == n / j == m)
    F = {}
    F[(0, 0, 'M')] = Fraction(0)
    order = [(i, j) for i in range(n + 1) for j in range(m + 1)]
    for (i, j) in order:
        for s in S:
            u = (i, j, s)
            if u not in F: continue
            if s in ('TA',) and i not in (0, n): continue
            if s in ('TB',) and j not in (0, m): continue
            for (i2, j2, s2, w) in edges_from(i, j, s):
                if s2 == 'TA' and not (i2 == 0 or i2 == n): continue
                if s2 == 'TB' and not (j2 == 0 or j2 == m): continue
                v = (i2, j2, s2)
                val = F[u] + w
                if v not in F or val > F[v]: F[v] = val
    # closing cost of an internal-mode run that reaches the end: charged (it is closed by the border), competitors get it free
    Bk = {}
    for s in S: Bk[(n, m, s)] = Fraction(0)
    for (i, j) in reversed(order):
        for s in S:
            u = (i, j, s)
            if (i, j) == (n, m): continue
            best = None
            for (i2, j2, s2, w) in edges_from(i, j, s):
                if s2 == 'TA' and not (i2 == 0 or i2 == n): continue
                if s2 == 'TB' and not (j2 == 0 or j2 == m): continue
                v = (i2, j2, s2)
                if v in Bk:
                    val = w + Bk[v]
                    if best is None or val > best: best = val
            if best is not None: Bk[u] = best
    # the planted path as a node sequence
    nodes = [(0, 0, 'M')]; i = j = 0; score = Fraction(0); prev = 'M'
    for col in path:
        if col == 'M':
            w = mat[ca[i]][cb[j]] - (gpo if prev in ('A', 'B') else 0); i += 1; j += 1; s = 'M'
        elif col == 'A':
            w = -(gpe if prev == 'A' else gpo); j += 1; s = 'A'
        else:
            w = -(gpe if prev == 'B' else gpo); i += 1; s = 'B'
        score += w; nodes.append((i, j, s)); prev = s
    on = set(zip(nodes[:-1], nodes[1:]))
    second = None
    for u in F:
        if u[2] in ('TA',) and u[0] not in (0, n): continue
        if u[2] in ('TB',) and u[1] not in (0, m): continue
        for (i2, j2, s2, w) in edges_from(*u):
            if s2 == 'TA' and not (i2 == 0 or i2 == n): continue
            if s2 == 'TB' and not (j2 == 0 or j2 == m): continue
            v = (i2, j2, s2)
            if (u, v) in on or v not in Bk: continue
            val = F[u] + w + Bk[v]
            if second is None or val > second: second = val
    return score, second

def plant(rng, alpha, n, sub=10, indel=6):
    """sequence a, derived b and the planted alignment (no terminal gaps: 3 identical residues at both ends)"""
    a = gen.rand_seq(rng, alpha, n)
    path = []; b = []
    i = 0
    while i < n:
        r = rng.below(100)
        inner = 3 <= i < n - 3
        if inner and r < indel // 2 and path and path[-1] == 'M':
            k = rng.range(1, 3)
            k = min(k, n - 3 - i)
            path += ['B'] * k; i += k                      # residues of a without partner
        elif inner and r < indel and path and path[-1] == 'M':
            k = rng.range(1, 3)
            ins = gen.rand_seq(rng, alpha, k); b.append(ins); path += ['A'] * k
            path.append('M'); b.append(a[i]); i += 1
        elif inner and r < indel + sub:
            path.append('M'); b.append(rng.choice([c for c in alpha if c != a[i]])); i += 1
        else:
            path.append('M'); b.append(a[i]); i += 1
    return a, ''.join(b), path

def rows_of(a, b, path):
    ra, rb, i, j = [], [], 0, 0
    for col in path:
        if col == 'M': ra.append(a[i]); rb.append(b[j]); i += 1; j += 1
        elif col == 'A': ra.append('-'); rb.append(b[j]); j += 1
        else: ra.append(a[i]); rb.append('-'); i += 1
    return ''.join(ra), ''.join(rb)
