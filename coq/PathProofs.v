(* add_gap_info_to_path_n turns a well-formed raw path into ops that fit the two widths. *)
From KV Require Import Base Weave WeaveProofs WeaveCheck.
Local Open Scope Z_scope.

Definition kinds (l : list Z) : list opk := map op_kind l.
Definition okop (o : Z) : Prop := o = 0 \/ o = 1 \/ o = 2 \/ o = 33 \/ o = 34.

Lemma cnt_app k a b : cnt k (a ++ b) = (cnt k a + cnt k b)%nat.
Proof. unfold cnt. rewrite filter_app, app_length. reflexivity. Qed.

Lemma kinds_app a b : kinds (a ++ b) = kinds a ++ kinds b.
Proof. apply map_app. Qed.

Lemma kinds_ones k : kinds (ones k) = repeat OGA (Z.to_nat k).
Proof. unfold ones, kinds. induction (Z.to_nat k) as [|m IH]; [reflexivity|]. cbn [repeat map]. rewrite IH. reflexivity. Qed.

Lemma cnt_repeat_GA m : cnt is_GA (repeat OGA m) = m /\ cnt is_M (repeat OGA m) = 0%nat /\
  cnt is_GB (repeat OGA m) = 0%nat /\ cnt is_NONE (repeat OGA m) = 0%nat.
Proof. unfold cnt. induction m; simpl; intuition. Qed.

Lemma okop_ones k : Forall okop (ones k).
Proof. unfold ones. induction (Z.to_nat k); simpl; constructor; auto. unfold okop; auto. Qed.

Lemma last_nonempty_default : forall (l : list Z) a d d', last (a :: l) d = last (a :: l) d'.
Proof.
  induction l as [|x l IH]; intros a d d'; [reflexivity|].
  change (last (a :: x :: l) d) with (last (x :: l) d).
  change (last (a :: x :: l) d') with (last (x :: l) d'). apply IH.
Qed.
Lemma last_cons (a d : Z) l : last (a :: l) d = last l a.
Proof.
  destruct l as [|x l]; [reflexivity|].
  change (last (a :: x :: l) d) with (last (x :: l) d). apply last_nonempty_default.
Qed.

Definition nmatched (ps : list Z) : nat := length (filter (fun p => negb (p =? -1)) ps).

Ltac cnt_simpl :=
  repeat rewrite ?kinds_app, ?cnt_app, ?kinds_ones;
  repeat match goal with
  | |- context [cnt _ (repeat OGA ?m)] =>
    let H := fresh in pose proof (cnt_repeat_GA m) as H; destruct H as (-> & -> & -> & ->)
  end.

Lemma rest_counts : forall ps lb cur b,
  0 <= cur -> (b <> -1 -> cur = b) -> wf_rest lb cur b ps = true ->
  let ops := rest_ops b ps ++ tail_ops lb (last ps b) in
  (cnt is_M (kinds ops) + cnt is_GB (kinds ops))%nat = length ps /\
  Z.of_nat (cnt is_M (kinds ops) + cnt is_GA (kinds ops)) = lb - cur /\
  cnt is_NONE (kinds ops) = 0%nat /\ cnt is_M (kinds ops) = nmatched ps /\ Forall okop ops.
Proof.
  induction ps as [|p ps IH]; intros lb cur b Hcur Hb Hwf ops; subst ops.
  - cbn [rest_ops last app wf_rest] in *. unfold tail_ops.
    destruct (b =? -1) eqn:Eb.
    + apply Z.eqb_eq in Eb. apply Z.eqb_eq in Hwf. subst.
      rewrite andb_false_r. simpl. repeat split; auto; lia.
    + apply Z.eqb_neq in Eb. apply Z.leb_le in Hwf. specialize (Hb Eb). subst cur.
      simpl negb. rewrite andb_true_r.
      destruct (b <? lb) eqn:El.
      * apply Z.ltb_lt in El. cnt_simpl. repeat split; auto using okop_ones.
        lia.
      * apply Z.ltb_ge in El. simpl. repeat split; auto; lia.
  - rewrite last_cons. cbn [rest_ops wf_rest] in *.
    destruct (p =? -1) eqn:Ep.
    + apply Z.eqb_eq in Ep. subst p.
      specialize (IH lb cur (-1) Hcur ltac:(intro; congruence) Hwf). cbv zeta in IH.
      destruct IH as (I1 & I2 & I3 & I4 & I5).
      rewrite <- app_assoc. cbn [app]. unfold kinds in *. cbn [map]. change (op_kind 2) with OGB.
      unfold cnt in *. cbn [filter is_M is_GB is_GA is_NONE length]. unfold nmatched. cbn [filter Z.eqb negb].
      repeat split; try lia; auto; try (constructor; auto; unfold okop; auto; fail); try (simpl; lia).
    + apply Z.eqb_neq in Ep.
      destruct (b =? -1) eqn:Eb.
      * apply andb_true_iff in Hwf as [Hp Hwf]. apply Z.eqb_eq in Hp.
        specialize (IH lb p p ltac:(lia) ltac:(auto) Hwf). cbv zeta in IH.
        destruct IH as (I1 & I2 & I3 & I4 & I5).
        rewrite andb_false_r. rewrite <- app_assoc. cbn [app]. unfold kinds in *. cbn [map]. change (op_kind 0) with OM.
        unfold cnt in *. cbn [filter is_M is_GB is_GA is_NONE length]. unfold nmatched. cbn [filter].
        apply Z.eqb_neq in Ep. rewrite Ep. cbn [negb length].
        repeat split; try lia; auto; try (constructor; auto; unfold okop; auto; fail); try (simpl; lia).
      * apply Z.eqb_neq in Eb. specialize (Hb Eb). subst cur.
        apply andb_true_iff in Hwf as [Hp Hwf]. apply Z.ltb_lt in Hp.
        specialize (IH lb p p ltac:(lia) ltac:(auto) Hwf). cbv zeta in IH.
        destruct IH as (I1 & I2 & I3 & I4 & I5).
        simpl negb. rewrite andb_true_r.
        assert (nmatched (p :: ps) = S (nmatched ps)) as Hnm.
        { unfold nmatched. cbn [filter]. apply Z.eqb_neq in Ep. rewrite Ep. reflexivity. }
        destruct (p - 1 =? b) eqn:Epb.
        -- apply Z.eqb_eq in Epb. cbn [negb]. rewrite <- app_assoc. cbn [app]. unfold kinds in *. cbn [map]. change (op_kind 0) with OM.
           unfold cnt in *. cbn [filter is_M is_GB is_GA is_NONE length]. rewrite Hnm.
           repeat split; try lia; auto. constructor; auto. unfold okop; auto.
        -- apply Z.eqb_neq in Epb. cbn [negb]. rewrite <- !app_assoc. cbn [app].
           rewrite Hnm.
           set (R := rest_ops p ps ++ tail_ops lb (last ps p)) in *.
           change (ones (p - b - 1) ++ 0 :: R) with (ones (p - b - 1) ++ [0] ++ R).
           cnt_simpl. change (kinds [0]) with [OM].
           change (cnt is_M [OM]) with 1%nat. change (cnt is_GB [OM]) with 0%nat.
           change (cnt is_GA [OM]) with 0%nat. change (cnt is_NONE [OM]) with 0%nat. cbn [length].
           repeat split; try lia.
           apply Forall_app. split; [apply okop_ones|]. constructor; auto. unfold okop; auto.
Qed.

Lemma raw_counts lb path :
  kpath_wfb lb path = true ->
  let ops := raw_ops lb path in
  (cnt is_M (kinds ops) + cnt is_GB (kinds ops))%nat = length path /\
  Z.of_nat (cnt is_M (kinds ops) + cnt is_GA (kinds ops)) = lb /\
  cnt is_NONE (kinds ops) = 0%nat /\ (0 < cnt is_M (kinds ops))%nat /\ Forall okop ops.
Proof.
  destruct path as [|p1 ps]; [discriminate|].
  unfold kpath_wfb. intro H. apply andb_true_iff in H as [Hex H].
  assert (0 < nmatched (p1 :: ps))%nat as Hnm.
  { unfold nmatched. apply existsb_exists in Hex as (x & Hin & Hx).
    assert (In x (filter (fun p => negb (p =? -1)) (p1 :: ps))) as Hf by (apply filter_In; auto).
    destruct (filter _ (p1 :: ps)); [contradiction|simpl; lia]. }
  cbv zeta. unfold raw_ops. rewrite last_cons.
  destruct (p1 =? -1) eqn:E1.
  - apply Z.eqb_eq in E1. subst p1.
    pose proof (rest_counts ps lb 0 (-1) ltac:(lia) ltac:(intro; congruence) H) as (I1 & I2 & I3 & I4 & I5).
    unfold first_ops. simpl (-1 =? -1). cbn [app]. unfold kinds in *. cbn [map]. change (op_kind 2) with OGB.
    unfold cnt in *. cbn [filter is_M is_GB is_GA is_NONE length].
    unfold nmatched in Hnm. cbn [filter] in Hnm. simpl (negb (-1 =? -1)) in Hnm. cbn iota in Hnm.
    repeat split; try lia; auto.
    + fold (nmatched ps) in Hnm. lia.
    + constructor; auto. unfold okop; auto.
  - apply andb_true_iff in H as [Hp H]. apply Z.leb_le in Hp.
    pose proof (rest_counts ps lb p1 p1 ltac:(lia) ltac:(auto) H) as (I1 & I2 & I3 & I4 & I5).
    unfold first_ops. rewrite E1.
    destruct (p1 =? 1) eqn:E11; cbn [negb].
    + apply Z.eqb_eq in E11. cbn [app]. unfold kinds in *. cbn [map]. change (op_kind 0) with OM.
      unfold cnt in *. cbn [filter is_M is_GB is_GA is_NONE length].
      repeat split; try lia; auto. constructor; auto. unfold okop; auto.
    + apply Z.eqb_neq in E11. rewrite <- app_assoc. cbn [app].
      set (R := rest_ops p1 ps ++ tail_ops lb (last ps p1)) in *.
      change (ones (p1 - 1) ++ 0 :: R) with (ones (p1 - 1) ++ [0] ++ R).
      cnt_simpl. change (kinds [0]) with [OM].
      change (cnt is_M [OM]) with 1%nat. change (cnt is_GB [OM]) with 0%nat.
      change (cnt is_GA [OM]) with 0%nat. change (cnt is_NONE [OM]) with 0%nat. cbn [length].
      repeat split; try lia.
      apply Forall_app. split; [apply okop_ones|]. constructor; auto. unfold okop; auto.
Qed.

(* the terminal flag does not change what make_seq reads *)


Lemma flag_leading_kinds l : Forall okop l -> kinds (flag_leading l) = kinds l /\ Forall okop (flag_leading l).
Proof.
  induction 1 as [|o l Ho Hl [IH1 IH2]]; [split; [reflexivity|constructor]|].
  cbn [flag_leading]. destruct (o =? 0) eqn:E.
  - split; [reflexivity|constructor; auto].
  - unfold kinds in *. cbn [map]. rewrite IH1.
    destruct Ho as [-> | [-> | [-> | [-> | ->]]]]; try discriminate E; (split; [reflexivity|constructor; auto; unfold okop; vm_compute; auto 10]).
Qed.

Lemma kinds_rev l : kinds (rev l) = rev (kinds l).
Proof. apply map_rev. Qed.

Lemma flag_terminal_kinds l : Forall okop l -> kinds (flag_terminal l) = kinds l.
Proof.
  intro H. unfold flag_terminal.
  destruct (flag_leading_kinds l H) as [K1 O1].
  assert (Forall okop (rev (flag_leading l))) as O2 by (apply Forall_rev; auto).
  destruct (flag_leading_kinds _ O2) as [K2 _].
  rewrite kinds_rev, K2, kinds_rev, rev_involutive. exact K1.
Qed.

Lemma existsb_zero_of_M l : (0 < cnt is_M (kinds l))%nat -> existsb (fun o => o =? 0) l = true.
Proof.
  unfold cnt, kinds. induction l as [|o l IH]; simpl; [lia|].
  unfold op_kind at 1. destruct (o =? 0) eqn:E; [reflexivity|].
  simpl. destruct (Z.land o 1 =? 1); simpl; auto. destruct (Z.land o 2 =? 2); simpl; auto.
Qed.

(* C01, path layer: a well-formed raw path expands to ops that cover every row of side 1 and
   every column of side 2 exactly once. *)
Theorem expand_path_counts lb path :
  kpath_wfb lb path = true ->
  exists ops, add_gap_info lb path = Some ops /\
    ops_fit (map op_kind ops) (length path) (Z.to_nat lb).
Proof.
  intro H. pose proof (raw_counts lb path H) as (C1 & C2 & C3 & C4 & C5).
  unfold add_gap_info. rewrite (existsb_zero_of_M _ C4).
  eexists. split; [reflexivity|].
  fold (kinds (flag_terminal (raw_ops lb path))). rewrite flag_terminal_kinds by assumption.
  repeat split; auto. apply Nat2Z.inj. rewrite C2. rewrite Z2Nat.id; [reflexivity|]. rewrite <- C2. apply Nat2Z.is_nonneg.
Qed.
