(* C11 - The bit-parallel distance kernel equals the edit distance it stands for.
   PARTIAL.  Proved: the one-word routine bpm() - as restated bit by bit in BpmBits.v, with '+' as binary
   addition with carry propagation modulo 2^64 - returns, for every text and every pattern of 1..63 symbols,
   exactly the value of the column recurrence D[i][j] = min(D[i-1][j-1] + [p_i <> t_j], D[i-1][j] + 1,
   D[i][j-1] + 1), D[0][j] = 0, D[i][0] = i minimised over the columns (Sellers' semi-global edit-distance
   recurrence, [sed]).  The proof is the Myers/Hyyro argument made explicit: the cell function on delta
   encodings, a row-serial column step equal to the recurrence, and the word-level formulas equal to the
   row-serial step because the adder's carry chain is the chain of "horizontal delta = -1".
   NOT yet theorems (full statements kept below as Definitions): the blocked routine (carries between 64-row
   blocks, wildcard padding of the last block and the text padding), the 256-bit variant (lane-wise add256),
   and that the column recurrence equals the minimum over substrings of the Levenshtein distance.  They are
   decided on every run by comparing the executable models (bit-list and N-based, all three routines) and the
   implementation (AVX2 and scalar builds) with each other and with [sed]: exhaustively for small alphabets
   and lengths, at random around every multiple of 64 up to the 1024 cap. *)
From KV Require Import Base Bpm BpmProofs BpmBits BpmBitsProofs.
Local Open Scope Z_scope.

Theorem C11_bpm64_is_the_column_recurrence : forall t p, (1 <= length p <= 63)%nat ->
  bpm64_bits t p = sed t p.
Proof. intros t p H. apply bpm64_bits_is_sed. exact H. Qed.
Print Assumptions C11_bpm64_is_the_column_recurrence.

(* the three layers of the argument, each for all inputs *)
Theorem C11_cell_function : forall (e vp vn hp hn : bool) (a : Z), vp && vn = false -> hp && hn = false ->
  let up := a + dv vp vn in
  let l := a + dv hp hn in
  let d := Z.min (Z.min (a + (if e then 0 else 1)) (up + 1)) (l + 1) in
  let r := cellf e vp vn hp hn in
  fst (fst r) && snd (fst r) = false /\ fst (snd r) && snd (snd r) = false /\
  dv (fst (fst r)) (snd (fst r)) = d - l /\ dv (fst (snd r)) (snd (snd r)) = d - up.
Proof. exact cell_spec. Qed.

Theorem C11_word_formulas_are_the_serial_step : forall Eq VP VN hpin hnin,
  length VP = length Eq -> length VN = length Eq -> valid VP VN ->
  word_step Eq VP VN hnin hpin hnin = serial Eq VP VN hpin hnin.
Proof. exact word_step_serial. Qed.
Print Assumptions C11_word_formulas_are_the_serial_step.

Definition symbols13 (l : list Z) : Prop := Forall (fun c => 0 <= c < 13) l.

Definition C11_block_full_statement : Prop := forall t p,
  symbols13 t -> symbols13 p -> (1 <= length p <= length t)%nat ->
  bpm_block_bits t p = sed t (firstn 1024 p).
Definition C11_bpm256_full_statement : Prop := forall t p,
  symbols13 t -> symbols13 p -> (1 <= length p <= 255)%nat -> (length p <= length t)%nat ->
  bpm256 t p = sed t p.

(* the specification at its two ends *)
Theorem C11_spec_upper_bound : forall t p, sed t p <= Z.of_nat (length p).
Proof. exact sed_le_pattern_length. Qed.
Theorem C11_spec_empty_text : forall p, sed [] p = Z.of_nat (length p).
Proof. exact sed_empty_text. Qed.

(* instances of the open statements, by evaluation (tests of the statements, not proofs of them) *)
Example C11_instances :
  let t := [0;1;2;3;4;5;6;0;1;2;3;4;5;6;7;8;9;10;11;12;0;0;1;1;2] in
  let p := [2;3;9;5;6;0;1] in
  bpm_block_bits t p = sed t p /\ bpm_block t p = sed t p /\ bpm64 t p = sed t p /\ bpm256 t p = sed t p /\
  let p2 := (p ++ p ++ p ++ p ++ p ++ p ++ p ++ p ++ p ++ p)%list in
  let t2 := (t ++ t ++ t ++ t)%list in
  bpm_block_bits t2 p2 = sed t2 p2 /\ bpm256 t2 p2 = sed t2 p2.
Proof. vm_compute. repeat split; reflexivity. Qed.
