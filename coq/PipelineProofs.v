(* The three kernel instances meet the controller's premise, for every arithmetic. *)
From Coq Require Import ZArith List Bool Lia.
From KV Require Import Base FP Params Weave Kernels Pipeline KernelProofs.
Import ListNotations.
Local Open Scope Z_scope.

Section Inst.
Variable A : alg.
Variable P : nparams A.

Lemma slice_length {X} (l : list X) a b : 0 <= a -> a <= b -> b <= Z.of_nat (length l) ->
  Z.of_nat (length (slice l a b)) = b - a.
Proof.
  intros Ha Hab Hb. unfold slice. rewrite firstn_length, skipn_length. lia.
Qed.

Lemma combine_length_Z {X Y} (l : list X) (r : list Y) : length l = length r -> length (combine l r) = length l.
Proof. intro H. rewrite combine_length, H. apply Nat.min_id. Qed.

(* generic: a kernel whose passes are [pass]/[rev pass] over column lists of the sub-problem's width and
   whose meetup is [meetup] satisfies the premise *)
Lemma generic_meet_ok (M : mcosts A) sz el startb endb (fs bs : list (cell A)) :
  startb < endb -> Z.of_nat (length fs) = endb - startb + 1 -> length bs = length fs ->
  okbest A startb endb (meetup A M sz el startb endb fs bs).
Proof. apply meetup_range. Qed.

Theorem ss_meet_ok seq1 seq2 : forall starta mid enda startb endb f0 b0,
  0 <= startb -> startb < endb -> endb <= Z.of_nat (length seq2) ->
  okbest A startb endb (k_meetup A (ss_kernel A P seq1 seq2) mid startb endb
     (k_forward A (ss_kernel A P seq1 seq2) starta mid startb endb f0)
     (k_backward A (ss_kernel A P seq1 seq2) mid enda startb endb b0)).
Proof.
  intros starta mid enda startb endb f0 b0 H0 H1 H2. unfold ss_kernel. cbn [k_meetup k_forward k_backward].
  apply generic_meet_ok; [exact H1| |].
  - rewrite pass_length. rewrite Nat2Z.inj_succ, slice_length by lia. lia.
  - rewrite rev_length, !pass_length, rev_length. reflexivity.
Qed.

Theorem sp_meet_ok prof1 seq2 sip : forall starta mid enda startb endb f0 b0,
  0 <= startb -> startb < endb -> endb <= Z.of_nat (length seq2) ->
  okbest A startb endb (k_meetup A (sp_kernel A P prof1 seq2 sip) mid startb endb
     (k_forward A (sp_kernel A P prof1 seq2 sip) starta mid startb endb f0)
     (k_backward A (sp_kernel A P prof1 seq2 sip) mid enda startb endb b0)).
Proof.
  intros starta mid enda startb endb f0 b0 H0 H1 H2. unfold sp_kernel. cbn [k_meetup k_forward k_backward].
  apply generic_meet_ok; [exact H1| |].
  - rewrite pass_length. rewrite Nat2Z.inj_succ, slice_length by lia. lia.
  - rewrite rev_length, !pass_length, rev_length. reflexivity.
Qed.

Theorem pp_meet_ok prof1 prof2 : (2 <= length prof2)%nat -> forall starta mid enda startb endb f0 b0,
  0 <= startb -> startb < endb -> endb <= Z.of_nat (length prof2) - 2 ->
  okbest A startb endb (k_meetup A (pp_kernel A prof1 prof2) mid startb endb
     (k_forward A (pp_kernel A prof1 prof2) starta mid startb endb f0)
     (k_backward A (pp_kernel A prof1 prof2) mid enda startb endb b0)).
Proof.
  intros L2 starta mid enda startb endb f0 b0 H0 H1 H2. unfold pp_kernel. cbn [k_meetup k_forward k_backward].
  assert (LF : Z.of_nat (length (cols_fwd A prof2 startb endb)) = endb - startb).
  { unfold cols_fwd. assert (E : length (slice prof2 (startb + 1) (endb + 1)) = length (slice prof2 startb endb)).
    { apply Nat2Z.inj. rewrite !slice_length by lia. lia. }
    apply eq_trans with (Z.of_nat (length (slice prof2 (startb + 1) (endb + 1)))).
    - f_equal. apply combine_length_Z. exact E.
    - rewrite slice_length by lia. lia. }
  assert (LBk : Z.of_nat (length (cols_bwd A prof2 startb endb)) = endb - startb).
  { unfold cols_bwd. rewrite rev_length.
    assert (E : length (slice prof2 (startb + 1) (endb + 1)) = length (slice prof2 (startb + 2) (endb + 2))).
    { apply Nat2Z.inj. rewrite !slice_length by lia. lia. }
    apply eq_trans with (Z.of_nat (length (slice prof2 (startb + 1) (endb + 1)))).
    - f_equal. apply combine_length_Z. exact E.
    - rewrite slice_length by lia. lia. }
  apply generic_meet_ok; [exact H1| |].
  - rewrite pass_length. lia.
  - rewrite rev_length, !pass_length. lia.
Qed.

(* aln_runner on a fresh aln_mem always ends and leaves a path, for each kernel, all operands and ALL
   parameter values of the arithmetic *)
Theorem ss_total seq1 seq2 :
  exists p, raw_path A (ss_kernel A P seq1 seq2) (Z.of_nat (length seq1)) (Z.of_nat (length seq2)) = Some p.
Proof. apply raw_path_total; try lia. apply ss_meet_ok. Qed.

Theorem sp_total prof1 seq2 sip len_a : 0 <= len_a ->
  exists p, raw_path A (sp_kernel A P prof1 seq2 sip) len_a (Z.of_nat (length seq2)) = Some p.
Proof. intro H. apply raw_path_total; try lia. apply sp_meet_ok. Qed.

Theorem pp_total prof1 prof2 len_a : 0 <= len_a -> (2 <= length prof2)%nat ->
  exists p, raw_path A (pp_kernel A prof1 prof2) len_a (Z.of_nat (length prof2) - 2) = Some p.
Proof. intros H L. apply raw_path_total; try lia. apply pp_meet_ok. exact L. Qed.
End Inst.
