"""C14 - letter case and RNA/DNA spelling do not influence the alignment."""
import json
import gen
from props import weavecommon as wc

def respell(rng, s, kind):
    out = []
    for c in s:
        if kind == 'dna' and c in 'TtUu' and rng.chance(1, 2):
            c = {'T': 'U', 't': 'u', 'U': 'T', 'u': 't'}[c]
        if rng.chance(1, 2):
            c = c.swapcase()
        out.append(c)
    return ''.join(out)

def run(ck):
    ck.build(('omp',))
    ck.translate()
    ok = ck.prove()
    kvh = ck.harness('omp', 'kvh')
    model = ck.model()
    rng = ck.rng
    ck.rule = ('correspondence: internal codes (three alphabets) of original and respelled inputs, model vs implementation (prep); '
               'witness search: kalign() on an input and on a random respelling (case anywhere; T<->U for nucleotides), gap patterns must coincide and '
               'letters must be the respelled ones; all types. Non-trivial = respelling differs from the original and the alignment has a gap')
    cases = wc.make_cases(ck, 200 if ck.tier == 'quick' else 2500, small=True)
    # long nucleotide sequences with the default type (no --type): any rule that picks parameters from the data must not tell an
    # all-T spelling from one with U, nor upper from lower case (lengths on both sides of 1000)
    for k in range(3 if ck.tier == 'quick' else 12):
        L = ck.rng.choice([980, 1010, 1150, 1250])
        root = gen.rand_seq(ck.rng, 'ACGT', L)
        fam = [gen.mutate(ck.rng, root, 'ACGT', 12, 6) for _ in range(ck.rng.range(3, 6))]
        cases.append({'kind': 'dna', 'family': 'long-default-type', 'seqs': fam, 'type': 5, 'pens': [gen.NG] * 3, 'threads': 1})
        ck.count('family:nucleotide sequences around 1000 residues, default type')
    lines, meta, plines = [], [], []
    for c in cases:
        seqs = [s for s in c['seqs'] if s]
        if len(seqs) < 2:
            continue
        # nucleotide inputs must stay inside A C G T U N so that both spellings are detected as nucleotide (C13 premise 1)
        if c['kind'] == 'dna':
            seqs = [''.join(ch if ch.upper() in 'ACGTUN' else 'N' for ch in s) for s in seqs]
        alt = [respell(rng, s, c['kind']) for s in seqs]
        a = dict(c, seqs=seqs); b = dict(c, seqs=alt)
        lines.append(wc.run_line(a, flags=32)); lines.append(wc.run_line(b, flags=32))
        meta.append((a, b))
        plines.append('prep ' + ' '.join('n%d:%s' % (i, gen.hexs(s)) for i, s in enumerate(seqs)))
        plines.append('prep ' + ' '.join('n%d:%s' % (i, gen.hexs(s)) for i, s in enumerate(alt)))
    plines = [l.replace('n%d:' % i, '%s:' % gen.hexs('n%d' % i)) for l in plines for i in [0]] if False else plines
    # names must be hex too
    def fixnames(l):
        parts = l.split(' ')
        out = [parts[0]]
        for p in parts[1:]:
            n, s = p.split(':')
            out.append('%s:%s' % (gen.hexs(n), s))
        return ' '.join(out)
    plines = [fixnames(l) for l in plines]
    dis, pi, pm = ck.correspond('Api.convert (codes of both spellings) vs convert_msa_to_internal', plines, kvh)
    # codes of the two spellings must coincide (model side of the theorem's premise, on the implementation's codes)
    code_diff = []
    for k in range(0, len(pi), 2):
        kind = meta[k // 2][0]['kind']
        def rel(line):
            f = dict(t.split('=', 1) for t in line.split() if '=' in t)
            return (f.get('ranks'), f.get('dna')) if kind == 'dna' else (f.get('ranks'), f.get('red'), f.get('amb'))
        if rel(pi[k]) != rel(pi[k + 1]):
            code_diff.append((plines[k], pi[k], pi[k + 1]))
    impl = ck.run_lines(kvh, lines, timeout=1200)
    ck.evaluations += len(lines)
    wit = []
    for k, (a, b) in enumerate(meta):
        ra, rb = impl[2 * k], impl[2 * k + 1]
        if not (ra.startswith('OK') and rb.startswith('OK')):
            if ra.startswith('OK') != rb.startswith('OK'):
                wit.append({'kind': 'accepted-vs-rejected', 'a': a, 'b': b, 'impl_a': ra[:200], 'impl_b': rb[:200]})
            continue
        rows_a = [bytes.fromhex(h).decode('latin-1') for h in ra.split('|')[0].split()[2].split(',')]
        rows_b = [bytes.fromhex(h).decode('latin-1') for h in rb.split('|')[0].split()[2].split(',')]
        pat = lambda rows: [''.join('-' if ch == '-' else 'x' for ch in r) for r in rows]
        if pat(rows_a) != pat(rows_b):
            wit.append({'kind': 'gap-pattern-differs', 'a': a, 'b': b, 'rows_a': rows_a, 'rows_b': rows_b})
        elif [r.replace('-', '') for r in rows_b] != b['seqs']:
            wit.append({'kind': 'letters-not-respelled', 'b': b, 'rows_b': rows_b})
        elif a['seqs'] != b['seqs'] and any('-' in r for r in rows_a):
            ck.nontriv({'a': a['seqs'], 't': a['type']})
    # ---- the file entry point, with records that share name AND length (nothing but the residues could order them):
    #      the canonical order, hence the gap pattern, must not look at the spelling; also several input files
    import os, tempfile, shutil
    tmpd = tempfile.mkdtemp(prefix='kv_c14_')
    try:
        flines, fmeta = [], []
        for k in range(60 if ck.tier == 'quick' else 300):
            kind = 'dna' if k % 2 == 0 else 'protein'
            alpha = 'ACGTN' if kind == 'dna' else gen.PROT
            L = rng.range(12, 40)
            root = gen.rand_seq(rng, alpha, L)
            tail = '' if kind == 'dna' else 'WKW'
            def fit(x):
                x = x[:L]
                return x + gen.rand_seq(rng, alpha, L - len(x))
            twins = [fit(gen.mutate(rng, root, alpha, 25, 12)) + tail, fit(gen.rand_seq(rng, alpha, 3) + gen.mutate(rng, root, alpha, 25, 12)) + tail]
            others = [gen.mutate(rng, root, alpha, 12, 8) + tail for _ in range(rng.range(2, 6))]
            names = ['twin', 'twin'] + ['o%d' % i for i in range(len(others))]
            seqs = twins + others
            order = list(range(len(seqs))); rng.shuffle(order)
            names = [names[i] for i in order]; seqs = [seqs[i] for i in order]
            alt = [respell(rng, x, kind) for x in seqs]
            # the twins' first residues in the two spellings: upper/upper in one, lower/upper in the other (byte order A < C < a):
            # anything that orders equal-name records by their raw residues sees the two spellings differently
            ti = [i for i, n in enumerate(names) if n == 'twin']
            if len(ti) == 2 and seqs[ti[0]][0].upper() != seqs[ti[1]][0].upper():
                lo, hi = sorted(ti, key=lambda i: seqs[i][0].upper())
                seqs[lo] = seqs[lo][0].upper() + seqs[lo][1:]; seqs[hi] = seqs[hi][0].upper() + seqs[hi][1:]
                alt[lo] = alt[lo][0].lower() + alt[lo][1:]; alt[hi] = alt[hi][0].upper() + alt[hi][1:]
            if kind == 'dna' and k % 3 == 2:
                # several input files and IUPAC ambiguity codes in lower case (about 8% of the residues): the histograms of the
                # files are merged and the kind is detected again; the all-upper spelling must be treated alike
                def amb(x):
                    x = list(x)
                    for i in range(len(x)):
                        if rng.chance(2, 25): x[i] = rng.choice('rykmswdhv')
                    return ''.join(x)
                seqs = [amb(x) for x in seqs]
                alt = [x.upper() for x in seqs]
            for tag, ss in (('a', seqs), ('b', alt)):
                if k % 3 == 2:      # split over two input files
                    cut = len(ss) // 2
                    ins = [os.path.join(tmpd, 'in%d%s_%d.fa' % (k, tag, j)) for j in (0, 1)]
                    open(ins[0], 'w').write(gen.fasta(names[:cut], ss[:cut])); open(ins[1], 'w').write(gen.fasta(names[cut:], ss[cut:]))
                else:
                    ins = [os.path.join(tmpd, 'in%d%s.fa' % (k, tag))]
                    open(ins[0], 'w').write(gen.fasta(names, ss))
                outp = os.path.join(tmpd, 'out%d%s.fa' % (k, tag))
                flines.append('runfile 0 %d 5 %d %d %d fasta %s %s' % (rng.choice([1, 4]), gen.NG, gen.NG, gen.NG, outp, ' '.join(ins)))
            fmeta.append((kind, names, seqs, alt, os.path.join(tmpd, 'out%da.fa' % k), os.path.join(tmpd, 'out%db.fa' % k)))
            ck.count('file entry point: twins (same name and length)%s' % (', two files' if k % 3 == 2 else ''))
        fres = ck.run_lines(kvh, flines, timeout=1200)
        ck.evaluations += len(flines)
        for k, (kind, names, seqs, alt, oa, ob) in enumerate(fmeta):
            ra, rb = fres[2 * k], fres[2 * k + 1]
            if not (ra.startswith('OK') and rb.startswith('OK') and os.path.exists(oa) and os.path.exists(ob)):
                if ra.startswith('OK') != rb.startswith('OK'):
                    wit.append({'kind': 'accepted-vs-rejected', 'entry': 'file', 'names': names, 'a': seqs, 'b': alt, 'impl_a': ra[:200], 'impl_b': rb[:200]})
                continue
            rows_a = gen.parse_fasta(open(oa, encoding='latin-1').read())[1]; rows_b = gen.parse_fasta(open(ob, encoding='latin-1').read())[1]
            pat = lambda rows: [''.join('-' if ch == '-' else 'x' for ch in r) for r in rows]
            if pat(rows_a) != pat(rows_b):
                wit.append({'kind': 'gap-pattern-differs', 'entry': 'file', 'names': names, 'a': seqs, 'b': alt, 'rows_a': rows_a, 'rows_b': rows_b})
    finally:
        shutil.rmtree(tmpd, ignore_errors=True)
    if meta:
        ck.sample({'original': meta[0][0]['seqs'], 'respelled': meta[0][1]['seqs'], 'implementation_original': impl[0][:200], 'implementation_respelled': impl[1][:200]})
    for w in wit[:3]:
        ck.violation('witness', w)
    if not wit:
        if not ok:
            ck.violation('proof', {'what_no_longer_checks': ck.proof['failed']}, nofail=True)
        elif dis:
            ln, x, y = dis[0]
            ck.violation('correspondence', {'what_no_longer_checks': 'correspondence of Api.convert with convert_msa_to_internal', 'first_disagreement': {'case': ln[:1500], 'implementation': x[:800], 'model': y[:800]}}, nofail=True)
        elif code_diff:
            ck.violation('premise', {'what_no_longer_checks': 'the implementation assigns different internal codes to the two spellings (premise of C14_respell_invariance)', 'case': code_diff[0][0][:1500]}, nofail=True)

def replay(ck, obj):
    print(json.dumps(obj, indent=1)[:4000])
    return 0
