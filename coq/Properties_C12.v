(* C12 - Duplicate input sequences receive identical rows.
   PARTIAL.  Proved (pure lists, every guide tree, every family of fitting paths): two rows of one group that
   are equal stay equal through every later merge (the merge applies one insertion vector to the whole
   group).  Hence, once the copies of a sequence form one group with equal rows - which is the case when
   they are merged with each other first (a clade of the guide tree) by all-match paths (C08) - they come
   out identical.  Proved in EXACT arithmetic (kernel text over integers with minus infinity, binary32
   parameters at their real values): inside ANY run of the model, the merges that stay within a clade of
   copies are all diagonal and all-match, whatever the other merges do (C12_clade_of_copies_exact).
   NOT theorems: that UPGMA makes the copies a clade under the containment premise, and that the binary32
   run decides like the exact one (rounding): the clade premise is MONITORED on every guide tree of every
   run, the tree and every merge are compared bit-exactly between the executable binary32 model and the
   implementation (DESIGN C12). *)
From Coq Require Import ZArith List Bool Lia.
From KV Require Import Base Weave WeaveProofs WeaveCheck AssemblyProofs DupProofs Kernels Pipeline ExactDiag ExactDiagInst ExactDiagProf ExactDiagRun CladeTasks Bpm BpmBits BpmBitsProofs SellersProofs.
Import ListNotations.
Local Open Scope nat_scope.

Theorem C12_equal_rows_of_a_group_stay_equal : forall seqs tasks st act,
  Inv seqs st act -> valid_run seqs st act tasks ->
  forall i j x, In x act -> In i (members st x) -> In j (members st x) ->
  row_of seqs st i = row_of seqs st j ->
  row_of seqs (run_from st tasks) i = row_of seqs (run_from st tasks) j.
Proof. exact equal_rows_stay_equal. Qed.
Print Assumptions C12_equal_rows_of_a_group_stay_equal.

(* Non-vacuity: a run observed on the implementation (sequences 0 and 1 are copies, merged first by an
   all-match path, then merged with a third sequence that forces gaps): the premises hold at the state after
   the first merge and the two rows are equal at the end *)
Definition dup_seqs : list (list Z) := [[65;67;84;65;67;71;71]; [65;67;71;84;65;67]; [65;67;71;84;65;67]]%Z.
Definition dup_tasks : list task := [(1, 2, 3, [0;0;0;0;0;0]%Z); (0, 3, 4, [0;0;2;0;0;0;0]%Z)].
Example C12_nonvacuous :
  valid_runb dup_seqs (st0 dup_seqs) (seq 0 3) dup_tasks = true /\
  let st1 := run_from (st0 dup_seqs) (firstn 1 dup_tasks) in
  In 1 (members st1 3) /\ In 2 (members st1 3) /\ row_of dup_seqs st1 1 = row_of dup_seqs st1 2 /\
  row_of dup_seqs (run_from (st0 dup_seqs) dup_tasks) 1 = row_of dup_seqs (run_from (st0 dup_seqs) dup_tasks) 2 /\
  row_of dup_seqs (run_from (st0 dup_seqs) dup_tasks) 1 = [65;67;45;71;84;65;67]%Z.
Proof. vm_compute. repeat split; auto. Qed.

(* The containment premise, in terms of the number the code computes: the bit-parallel distance kernel (bpm_block, C11) returns 0
   exactly when the pattern - its first 1024 symbols - occurs in the text.  So copies are at distance 0 from each other, and a
   sequence is at distance >= 1 from the copies unless one contains the other: the premise of C12 is the statement that no other
   pair of the input is as close as the copies are. *)
Theorem C12_distance_zero_iff_contained : forall (t p : list Z), (1 <= length p)%nat ->
  (bpm_block_bits t p = 0%Z <-> exists pre post, t = (pre ++ firstn 1024 p ++ post)%list).
Proof. intros t p H. rewrite (bpm_block_bits_is_sed t p H). apply sed_zero_iff_contained. Qed.
Print Assumptions C12_distance_zero_iff_contained.

(* The clade step in exact arithmetic.  [cp] marks the indices of the groups of the clade: at the start each marked
   group present is a group of copies of x (a single copy, or a profile of k copies); every task either stays inside
   the marked indices or writes to an unmarked one.  Then - for every scheme that passes the finite check of C08,
   every other content of the run, every task list - each marked merge has the diagonal raw path and all-match
   operations, so the copies enter the rest of the run as one group with equal rows. *)
Theorem C12_clade_of_copies_exact :
  forall (unit : Z), (0 <= unit)%Z -> forall (S : list (list Z)) (gpo gpe tgpe gam : Z) (dim : nat) (mx : Z),
  scheme_ok unit S gpo gpe tgpe gam dim mx = true -> (dim <= 23)%nat ->
  forall x : list Z, Forall (fun c => inr dim c = true) x -> (1 <= length x)%nat ->
  forall (cp : nat -> bool) tasks groups out,
  (forall i g, cp i = true -> nth i groups None = Some g -> exists k, (1 <= k)%Z /\ grpK unit S gpo gpe tgpe x k g) ->
  clade_tasks cp tasks ->
  run_tasks (AX unit) (PX unit S gpo gpe tgpe) groups tasks = Some out ->
  Forall (fun e => cp (snd (fst (fst (fst e)))) = true -> diag_entry unit x e) out.
Proof. intros unit Hu S gpo gpe tgpe gam dim mx Hok Hd x Hx HL cp. exact (run_tasks_clade unit Hu S gpo gpe tgpe gam dim mx Hok Hd x Hx HL cp). Qed.
Print Assumptions C12_clade_of_copies_exact.

(* ... and this is the shape every guide tree gives: for ANY input set, ANY guide tree (labelled by label_internal,
   whose labels are distinct - C12_labels_are_distinct) and ANY subtree s whose leaves are copies of x, the task list of
   the tree (sorted by label as sort_tasks does) keeps the merges of s inside s, so they are diagonal and all-match: the
   copies leave the clade as one group with equal rows, and C12_equal_rows_of_a_group_stay_equal takes over. *)
Theorem C12_clade_of_copies_in_any_guide_tree_exact :
  forall (unit : Z) (S : list (list Z)) (gpo gpe tgpe gam : Z) (dim : nat) (mx : Z),
  (0 <= unit)%Z -> scheme_ok unit S gpo gpe tgpe gam dim mx = true -> (dim <= 23)%nat ->
  forall x : list Z, Forall (fun c => inr dim c = true) x -> (1 <= length x)%nat ->
  forall (codes : list (list Z)) (t s : ltree) out,
  NoDup (ids t) -> subtree s t ->
  (forall i, In i (ids s) -> (i < length codes)%nat -> nth i codes [] = x) ->
  progressive (AX unit) (PX unit S gpo gpe tgpe) codes (sort_tasks (tasks_of t)) = Some out ->
  Forall (fun e => marks s (snd (fst (fst (fst e)))) = true -> diag_entry unit x e) out.
Proof. intros unit S gpo gpe tgpe gam dim mx Hu Hok Hd x Hx HL. exact (clade_in_tree unit S gpo gpe tgpe gam dim mx Hu Hok Hd x Hx HL). Qed.
Print Assumptions C12_clade_of_copies_in_any_guide_tree_exact.

Theorem C12_labels_are_distinct : forall (t : utree) (n : nat),
  NoDup (leaves t) -> (forall i, In i (leaves t) -> (i < n)%nat) -> NoDup (ids (fst (label t n))).
Proof. exact label_nodup. Qed.
Print Assumptions C12_labels_are_distinct.

(* Non-vacuity, evaluated in exact arithmetic under a nucleotide scheme written out here (match 5, mismatch -4, gap
   open 8, extension 6, terminal 0, scaled by 2000; unit 1): the scheme passes the check; sequences 1, 2 and 4 are copies
   and form a clade (tasks (1,2,5) and (5,4,6)); sequences 0 and 3 differ and are merged outside it; the marked merges
   are diagonal, the run returns, and the other merges are not all-match (terminal gaps are free under this scheme) *)
Definition c12_m : list (list Z) := map (fun i => map (fun j => if (i =? j)%nat then 10000%Z else (-8000)%Z) (seq 0 5)) (seq 0 5).
Example C12_clade_instance :
  scheme_ok 1 c12_m 16000 12000 0 5000 5 10000 = true /\
  let x := [0; 1; 4; 2; 3; 3; 4; 1]%Z in
  let y := [0; 1; 2; 3; 3; 1; 0]%Z in let z := [2; 2; 0; 1; 3; 3; 1; 1; 0]%Z in
  option_map (map (fun e => (snd (fst (fst (fst e))), snd (fst e))))
    (progressive (AX 1) (PX 1 c12_m 16000 12000 0) [y; x; x; z; x] [(1, 2, 5); (0, 3, 7); (5, 4, 6); (6, 7, 8)]%nat)
  = Some [(5%nat, repeat 0%Z 8); (7%nat, [33; 33; 0; 0; 0; 0; 0; 0; 0]%Z); (6%nat, repeat 0%Z 8); (8%nat, (repeat 33 8 ++ [0] ++ repeat 34 7)%Z)].
Proof. vm_compute. split; reflexivity. Qed.
