"""C01 - alignment integrity."""
import json
import gen
from props import weavecommon as wc

def run(ck):
    ck.build(('omp',))
    ck.translate()
    ok = ck.prove()
    n = 260 if ck.tier == 'quick' else 2500
    cases = wc.make_cases(ck, n, small=True)
    if ck.tier == 'thorough':
        cases += wc.make_cases(ck, 250, small=False)
    ck.rule = ('end-to-end runs of kalign() (array API) and read+run+write (file API, 3 formats) on structured sequence families; '
               'model weave layer replayed on the implementation-observed task list and raw paths (path expansion, every merge, final rows '
               'compared); extracted integrity_b evaluated on the implementation output; premises kpath_wfb/ops_fitb/path dimensions (TreePaths.build_tasks) monitored on every '
               'observed path. Non-trivial = accepted input whose alignment contains at least one gap; distinct by input+settings')
    res = wc.campaign(ck, cases)
    corr_bad, wit, prem_bad = [], [], []
    # a run that fails is a violation only if the input is ACCEPTED: the property quantifies over accepted inputs, and kalign
    # rejects a set whose detected alphabet contradicts the requested type (aln_param.c).  Whether it does is decided by the
    # model of detect_alphabet and of aln_param_init (both tied to the code by C13/C09), not by the generator's intent.
    failed = [(c, o) for c, o, d, v in res if not o.startswith('OK') and sum(1 for s in c['seqs'] if s) >= 2]
    rejected = set()
    if failed:
        model = ck.model()
        det = ck.run_lines(model, ['detect ' + ' '.join(gen.hexs(s) for s in c['seqs'] if s) for c, o in failed], timeout=600)
        bts = [dict(t.split('=', 1) for t in r.split() if '=' in t).get('biotype') for r in det]
        par = ck.run_lines(model, ['params %s %d %d %d %d' % (bt if bt in ('0', '1') else '0', c['type'], c['pens'][0], c['pens'][1], c['pens'][2])
                                   for (c, o), bt in zip(failed, bts)], timeout=600)
        for (c, o), bt, pr in zip(failed, bts, par):
            if bt in ('0', '1') and pr.startswith('FAIL'):
                rejected.add(id(c))
                ck.count('rejected: detected alphabet contradicts requested type (model predicts the rejection)')
    for c, o, d, v in res:
        if not o.startswith('OK'):
            if sum(1 for s in c['seqs'] if s) >= 2 and id(c) not in rejected:
                wit.append({'kind': 'run-failed-on-accepted-input', 'case': c, 'implementation': o[:200]})
            continue
        if '2d' in o.split('|')[0]:
            ck.nontriv({'s': c['seqs'], 't': c['type'], 'p': c['pens']})
        for key in ('expand', 'weave', 'final'):
            if d.get(key) != 'ok':
                corr_bad.append((key, c, v))
        for key in ('wf', 'fit', 'dims'):
            if d.get(key) != 'ok':
                prem_bad.append((key, c, v))
        if d.get('integrity') != 'ok':
            wit.append({'kind': 'integrity', 'case': c, 'verdict': v, 'implementation': o.split('|')[0][:400]})
    ck.corr['Weave (path expansion, merges, final rows) vs aln_setup.c/weave_alignment.c/msa_op.c'] = {'cases': len(res), 'disagreements': len(corr_bad)}
    fres = wc.file_api_cases(ck, wc.late_punct_cases(ck, 3 if ck.tier == 'quick' else 20) + cases, 43 if ck.tier == 'quick' else 320)
    for c, fmt, good, detail, names in fres:
        if sum(1 for s in c['seqs'] if s) < 2:
            continue
        if not good:
            wit.append({'kind': 'file-api-integrity', 'format': fmt, 'case': c, 'names': names, 'detail': detail})
    ck.count('file api runs', len(fres))
    # extreme length ratios: one sequence of 66000..140000 residues and short fragments of it - a merge then inserts a run of more
    # than 65535 (resp. 131071) consecutive gap columns into one side (gap counters are C ints).  Checked by the independent Python
    # reading of the property (the extracted integrity_b counts in unary naturals and is not meant for such lengths).
    import os, tempfile, shutil
    tmp = tempfile.mkdtemp(prefix='kv_c01_huge_')
    try:
        kvh = ck.harness('omp', 'kvh')
        hl, hm = [], []
        for k in range(2 if ck.tier == 'quick' else 8):
            kind = 'protein' if k % 2 == 0 else 'dna'
            alpha = gen.PROT if kind == 'protein' else gen.DNA
            L = ck.rng.choice([66000, 67000, 70000] if (ck.tier == 'quick' or k < 5) else [132000, 140000])
            big = gen.rand_seq(ck.rng, alpha, L)
            a = ck.rng.below(L - 500); frag = big[:ck.rng.range(120, 400)] if k % 3 != 2 else big[L - ck.rng.range(120, 400):]
            seqs = [big, frag, big[a:a + ck.rng.range(150, 450)]]
            if k % 2: seqs = [seqs[1], seqs[0], seqs[2]]
            names = ['h%d_%d' % (k, i) for i in range(len(seqs))]
            inp = os.path.join(tmp, 'huge%d.fa' % k); outp = os.path.join(tmp, 'huge%d.out' % k)
            open(inp, 'w').write(gen.fasta(names, seqs, 60))
            hl.append('runfile 0 %d %d %d %d %d fasta %s %s' % (ck.rng.choice([1, 4]), 5, gen.NG, gen.NG, gen.NG, outp, inp))
            hm.append((names, seqs, outp, kind, L))
            ck.count('extreme length ratio (one sequence of %d residues, fragments of 120..450)' % L)
        ho = ck.run_lines(kvh, hl, timeout=1200)
        ck.evaluations += len(hl)
        for (names, seqs, outp, kind, L), o in zip(hm, ho):
            problem = None
            if not o.startswith('OK') or not os.path.exists(outp):
                problem = 'run failed: ' + o[:100]
            else:
                onames, rows = gen.parse_fasta(open(outp, encoding='latin-1').read())
                if onames != names: problem = 'names differ: %r' % (onames,)
                elif len(set(len(r) for r in rows)) != 1: problem = 'row lengths differ: %r' % ([len(r) for r in rows],)
                elif any(r.replace('-', '') != s for r, s in zip(rows, seqs)): problem = 'a degapped row is not the input sequence'
                elif any(all(r[j] == '-' for r in rows) for j in range(len(rows[0]))): problem = 'all-gap column'
            if problem:
                wit.append({'kind': 'integrity-extreme-length-ratio', 'detail': problem, 'kind_of_sequence': kind, 'long_length': L,
                            'fragments': seqs[1:] if len(seqs[0]) > 1000 else [seqs[0], seqs[2]], 'note': 'the long sequence is random over the alphabet; see the replay for lengths'})
    finally:
        shutil.rmtree(tmp, ignore_errors=True)
    c0, o0, d0, v0 = res[0]
    ck.sample({'input': c0, 'implementation_rows': o0.split('|')[0][:300], 'model_verdict': v0})
    if len(res) > 5:
        c1, o1, d1, v1 = res[5]
        ck.sample({'input': c1, 'model_verdict': v1})
    seen = {}
    for w in wit:
        seen[w['kind']] = seen.get(w['kind'], 0) + 1
        if seen[w['kind']] <= 2:
            ck.violation('witness', w)
    if not wit:
        if not ok:
            ck.violation('proof', {'what_no_longer_checks': ck.proof['failed']}, nofail=True)
        elif corr_bad:
            key, c, v = corr_bad[0]
            ck.violation('correspondence', {'what_no_longer_checks': 'correspondence of Model Weave (%s) with the implementation' % key,
                                            'first_disagreement': {'case': c, 'verdict': v}, 'disagreements': len(corr_bad)}, nofail=True)
        elif prem_bad:
            key, c, v = prem_bad[0]
            ck.violation('premise', {'what_no_longer_checks': 'monitored premise %s of C01_assembly_integrity / C01_path_expansion_fits does not hold on an observed path or tree' % key,
                                     'case': c, 'verdict': v}, nofail=True)

def replay(ck, obj):
    print(json.dumps(obj, indent=1)[:3000])
    return 0
