(* Definitions shared by DetectProofs.v and the extracted model (exact margins of detect_alphabet's tables, letter
   classes, histogram helpers).  No proofs and no evaluation of generated tables here. *)
From KV Require Import Base FP Detect.
Local Open Scope Z_scope.

Definition f64_scaled (b : N) : Z :=
  let z := Z.of_N b in
  let sign := z / 2 ^ 63 in
  let e := (z / 2 ^ 52) mod 2 ^ 11 in
  let m := z mod 2 ^ 52 in
  let v := if e =? 0 then m else (2 ^ 52 + m) * 2 ^ (e - 1) in
  if sign =? 1 then - v else v.
Definition is_finite64 (b : N) : bool := negb ((Z.of_N b / 2 ^ 52) mod 2 ^ 11 =? 2047).
Definition margins : list Z :=
  map (fun dp => f64_scaled (fst dp) - f64_scaled (snd dp)) (combine detect_DNA detect_protein).
Definition unit1074 : Z := 2 ^ 1074.
Definition lower c := if (65 <=? c) && (c <=? 90) then c + 32 else c.
Definition is_nuc_letter (c : Z) : bool :=
  let l := lower c in (l =? 97) || (l =? 99) || (l =? 103) || (l =? 116) || (l =? 110). (* a c g t n *)
Definition is_u_letter (c : Z) : bool := lower c =? 117.
Definition is_protein_only (c : Z) : bool :=
  let l := lower c in
  existsb (Z.eqb l) [100;101;102;104;105;107;108;109;112;113;114;115;118;119;121]. (* d e f h i k l m p q r s v w y *)
Definition is_other_letter (c : Z) : bool :=
  isalpha c && negb (is_nuc_letter c) && negb (is_u_letter c) && negb (is_protein_only c).
Definition idx128 := map Z.of_nat (seq 0 128).
Definition margin_at (c : Z) : Z := nthZ 0 margins c.
Fixpoint exact_loop (i : Z) (freq : list Z) (ms : list Z) : Z :=
  match freq, ms with
  | c :: freq', m :: ms' => (if negb (c =? 0) && isalpha i then c * m else 0) + exact_loop (i + 1) freq' ms'
  | _, _ => 0
  end.
Definition exact_margin (freq : list Z) : Z := exact_loop 0 freq margins.
Fixpoint hist_only (good : Z -> bool) (i : Z) (freq : list Z) : Prop :=
  match freq with
  | [] => True
  | c :: freq' => 0 <= c /\ (c <> 0 -> isalpha i = true -> good i = true) /\ hist_only good (i + 1) freq'
  end.
Fixpoint total_letters (i : Z) (freq : list Z) : Z :=
  match freq with
  | [] => 0
  | c :: freq' => (if isalpha i then c else 0) + total_letters (i + 1) freq'
  end.
Definition nuc_or_u c := is_nuc_letter c || is_u_letter c.
Fixpoint class_count (cls : Z -> bool) (i : Z) (freq : list Z) : Z :=
  match freq with
  | [] => 0
  | c :: freq' => (if isalpha i && cls i then c else 0) + class_count cls (i + 1) freq'
  end.
Fixpoint hist_nonneg (freq : list Z) : Prop :=
  match freq with [] => True | c :: t => 0 <= c /\ hist_nonneg t end.
Definition only_u c := is_u_letter c && negb (is_nuc_letter c).
Definition only_po c := is_protein_only c && negb (is_nuc_letter c) && negb (is_u_letter c).
