(* C15 - Written alignment files are self-consistent and correctly labelled.
   Statements only; proofs in FormatsProofs.v.  Proved: FASTA wrapping and the line structure of
   the FASTA writer; the Clustal/MSF block structure and the MSF header fields are decided on every
   run by the byte-exact correspondence of the writer model with msa_io.c and by independent
   parsers applied to the implementation's files (DESIGN C15). *)
From KV Require Import Base Params Sort Detect Weave Cmp Formats FormatsProofs.
From Coq Require Import String.
From Coq Require Import List.
Import Coq.Init.Datatypes.
Import ListNotations.
Local Open Scope string_scope.
Local Open Scope list_scope.
Local Open Scope Z_scope.

(* FASTA: every record is its header line followed by lines of exactly 60 columns, except a last
   one of 1..60 columns; an empty row has no sequence line; the pieces concatenate to the row *)
Theorem C15_fasta_wrapped_at_60 : forall row pre last,
  chunk60 row = pre ++ [last] -> Forall (fun ch => length ch = 60%nat) pre /\ (1 <= length last <= 60)%nat.
Proof. exact fasta_wrapped_at_60. Qed.
Print Assumptions C15_fasta_wrapped_at_60.

Theorem C15_fasta_pieces_are_the_row : forall row, concat (chunk60 row) = row.
Proof. exact chunk60_concat. Qed.
Print Assumptions C15_fasta_pieces_are_the_row.

Theorem C15_fasta_file_is_lines : forall rows, write_fasta rows = unlines (fasta_lines rows).
Proof. exact write_fasta_unlines. Qed.
Print Assumptions C15_fasta_file_is_lines.

(* the MSF header of a concrete alignment (instance, by evaluation): declared length = alignment
   length, per-row checksum over the whole row, nucleic-acid label *)
Example C15_msf_instance :
  let rows := [([115;49], [65;67;45;71;84;65;65]); ([115;50], [65;45;45;71;84;67;65])] in
  firstn 3 (read_lines (write_msf [111] [68] false 7 rows)) =
  [bytes_of_string "!!NA_MULTIPLE_ALIGNMENT 1.0"; [];
   bytes_of_string " o  MSF: 7  Type: N  D  Check: 3734  .."] /\
  gcg_checksum [65;67;45;71;84;65;65] + gcg_checksum [65;45;45;71;84;67;65] = 3734.
Proof. vm_compute. split; reflexivity. Qed.
