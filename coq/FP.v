(* Floating-point glue over Flocq: binary32/binary64 values are carried as bit patterns (N) at the
   model's interfaces and as Flocq [binary_float]s inside computations. *)
From Coq Require Import ZArith NArith List.
From Flocq Require Import Core IEEE754.BinarySingleNaN IEEE754.Binary IEEE754.Bits.
Local Open Scope Z_scope.

Definition f64 := binary64.
Definition f32 := binary32.

Definition f64_of_bits (b : N) : f64 := b64_of_bits (Z.of_N b).
Definition bits_of_f64 (x : f64) : N := Z.to_N (bits_of_b64 x).
Definition f32_of_bits (b : N) : f32 := b32_of_bits (Z.of_N b).
Definition bits_of_f32 (x : f32) : N := Z.to_N (bits_of_b32 x).

Definition f64_add : f64 -> f64 -> f64 := b64_plus mode_NE.
Definition f64_mul : f64 -> f64 -> f64 := b64_mult mode_NE.
Definition f64_div : f64 -> f64 -> f64 := b64_div mode_NE.
Definition f32_add : f32 -> f32 -> f32 := b32_plus mode_NE.
Definition f32_sub : f32 -> f32 -> f32 := b32_minus mode_NE.
Definition f32_mul : f32 -> f32 -> f32 := b32_mult mode_NE.
Definition f32_div : f32 -> f32 -> f32 := b32_div mode_NE.

(* (double) of a C int, (float) of a C int: exact or correctly rounded *)
Definition f64_of_Z (z : Z) : f64 := binary_normalize 53 1024 (eq_refl _) (eq_refl _) mode_NE z 0 false.
Definition f32_of_Z (z : Z) : f32 := binary_normalize 24 128 (eq_refl _) (eq_refl _) mode_NE z 0 false.

(* C comparisons: false whenever a NaN is involved *)
Definition f64_gt (x y : f64) : bool := match b64_compare x y with Some Gt => true | _ => false end.
Definition f64_eq (x y : f64) : bool := match b64_compare x y with Some Eq => true | _ => false end.
Definition f32_gt (x y : f32) : bool := match b32_compare x y with Some Gt => true | _ => false end.
Definition f32_lt (x y : f32) : bool := match b32_compare x y with Some Lt => true | _ => false end.
Definition f32_eq (x y : f32) : bool := match b32_compare x y with Some Eq => true | _ => false end.

Definition f64_zero : f64 := f64_of_bits 0.
Definition f32_zero : f32 := f32_of_bits 0.
