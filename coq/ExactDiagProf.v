(* C08 in exact arithmetic, profile kernels: a group of k copies of one string has an explicit profile; on two such
   groups the profile-profile kernel (and on a string and a group the sequence-profile kernel) returns the diagonal.
   Built on square_meet / raw_path_diag of ExactDiag.v; the rows and columns of a pass are restricted to the ones a
   profile of copies can contain by running the generic lemma over a subset type (pass_comap). *)
From Coq Require Import ZArith List Bool Lia.
From KV Require Import Kernels Pipeline DupProofs ExactDiag ExactDiagInst.
Import ListNotations.
Local Open Scope Z_scope.

(* ---- a pass only looks at its rows and columns through the cost record ------------------------------------------------- *)
Section Comap.
Variable A : alg.
Variables R C R' C' : Type.
Variable K : costs A R C.
Variable f : R' -> R.
Variable g : C' -> C.
Definition comap : costs A R' C' :=
  mkCosts A R' C' (fun r c x => k_match A R C K (f r) (g c) x)
          (fun c => k_ga_to_a A R C K (g c)) (fun r => k_gb_to_a A R C K (f r))
          (fun c => k_ga_ext A R C K (g c)) (fun c => k_ga_open A R C K (g c)) (fun c => k_ga_text A R C K (g c))
          (fun r => k_gb_ext A R C K (f r)) (fun r => k_gb_open A R C K (f r)) (fun r => k_gb_text A R C K (f r)).

Lemma init_cells_comap bi : forall cols prev, init_cells A R' C' comap bi prev cols = init_cells A R C K bi prev (map g cols).
Proof.
  induction cols as [|c cols IH]; intros prev; [reflexivity|]. destruct cols as [|c2 cols]; [reflexivity|].
  change (map g (c :: c2 :: cols)) with (g c :: g c2 :: map g cols).
  cbn [init_cells]. cbn [init_cells] in IH. f_equal. rewrite IH. reflexivity.
Qed.

Lemma row_cells_comap li r : forall old cols pa pga pgb xa xga,
  row_cells A R' C' comap li r pa pga pgb xa xga old cols = row_cells A R C K li (f r) pa pga pgb xa xga old (map g cols).
Proof.
  induction old as [|o old IH]; intros cols pa pga pgb xa xga; [reflexivity|].
  destruct cols as [|c cols]; [destruct old; reflexivity|].
  destruct old as [|o2 old]; destruct cols as [|c2 cols]; try reflexivity.
  change (map g (c :: c2 :: cols)) with (g c :: g c2 :: map g cols).
  cbn [row_cells]. cbn [row_cells] in IH. f_equal. rewrite (IH (c2 :: cols)). reflexivity.
Qed.

Lemma row_step_comap fi li cells cols r :
  row_step A R' C' comap fi li cells cols r = row_step A R C K fi li cells (map g cols) (f r).
Proof. destruct cells as [|o0 old]; [reflexivity|]. cbn [row_step]. rewrite row_cells_comap. reflexivity. Qed.

Lemma pass_comap fi li s0 rows cols :
  pass A R' C' comap fi li s0 rows cols = pass A R C K fi li s0 (map f rows) (map g cols).
Proof.
  unfold pass. rewrite init_cells_comap. generalize (s0 :: init_cells A R C K fi s0 (map g cols)).
  induction rows as [|r rows IH]; intros cells; [reflexivity|]. cbn [fold_left map]. rewrite row_step_comap. apply IH.
Qed.
End Comap.

(* a list all of whose elements satisfy P is the image of a list over the subset type *)
Lemma sig_list {X} (P : X -> Prop) : forall l, Forall P l -> exists l' : list {x | P x}, map (@proj1_sig X P) l' = l.
Proof.
  induction l as [|x l IH]; intros H; [exists []; reflexivity|]. inversion H as [|? ? Hx Hl]; subst.
  destruct (IH Hl) as (l' & E). exists (exist P x Hx :: l'). cbn [map proj1_sig]. rewrite E. reflexivity.
Qed.

Lemma sig_nth {X} (P : X -> Prop) (l' : list {x | P x}) l t r : map (@proj1_sig X P) l' = l -> nth_error l' t = Some r -> nth_error l t = Some (proj1_sig r).
Proof. intros <- H. apply map_nth_error. exact H. Qed.

Lemma map_by_code {X} (h : Z -> Z) (code : X -> Z) l1 l2 : map code l1 = map code l2 -> map (fun s => h (code s)) l1 = map (fun s => h (code s)) l2.
Proof. intros H. rewrite <- !(map_map code h). rewrite H. reflexivity. Qed.

(* ---- list plumbing -------------------------------------------------------------------------------------------------- *)
Lemma slice_as_map {X} (d : X) (l : list X) a b : (a <= b)%nat -> (b <= length l)%nat ->
  slice l (Z.of_nat a) (Z.of_nat b) = map (fun j => nth j l d) (seq a (b - a)).
Proof.
  intros H1 H2. unfold slice. rewrite Nat2Z.id. replace (Z.to_nat (Z.of_nat b - Z.of_nat a)) with (b - a)%nat by lia.
  revert l b H1 H2. induction a as [|a IH]; intros l b H1 H2.
  - cbn [skipn]. rewrite Nat.sub_0_r. revert l H2. clear. induction b as [|b IH]; intros l H; [reflexivity|].
    destruct l as [|x l]; [cbn [length] in H; lia|]. cbn [firstn seq map nth]. f_equal. rewrite <- seq_shift, map_map. apply IH. cbn [length] in H. lia.
  - destruct l as [|x l]; [cbn [length] in H2; lia|]. destruct b as [|b]; [lia|]. cbn [skipn Nat.sub].
    rewrite (IH l b) by (cbn [length] in H2; lia). rewrite <- seq_shift, map_map. reflexivity.
Qed.

Lemma combine_map_seq {X Y} (F : nat -> X) (G : nat -> Y) n : forall a a',
  combine (map F (seq a n)) (map G (seq a' n)) = map (fun t => (F (a + t)%nat, G (a' + t)%nat)) (seq 0 n).
Proof.
  induction n as [|n IH]; intros a a'; [reflexivity|]. cbn [seq map combine]. rewrite !Nat.add_0_r. f_equal.
  rewrite IH. rewrite <- seq_shift, map_map. apply map_ext. intros t. rewrite !Nat.add_succ_r. reflexivity.
Qed.

Lemma rev_map_seq0 {X} (F : nat -> X) n : rev (map F (seq 0 n)) = map (fun t => F (n - 1 - t)%nat) (seq 0 n).
Proof.
  apply (nth_ext _ _ (F 0%nat) (F 0%nat)); [rewrite rev_length, !map_length; reflexivity|].
  intros t Ht. rewrite rev_length, map_length, seq_length in Ht.
  rewrite rev_nth by (rewrite map_length, seq_length; exact Ht). rewrite map_length, seq_length.
  rewrite (nth_indep _ (F 0%nat) (F (0 + 0)%nat)) by (rewrite map_length, seq_length; lia).
  change (F (0 + 0)%nat) with ((fun t => F t) (0 + 0)%nat).
  rewrite (map_nth F), seq_nth by lia.
  rewrite (nth_indep _ (F 0%nat) ((fun t => F (n - 1 - t)%nat) (n - 1)%nat)) by (rewrite map_length, seq_length; lia).
  rewrite (map_nth (fun t => F (n - 1 - t)%nat)). rewrite (nth_indep _ (n-1)%nat 0%nat) by (rewrite seq_length; lia). rewrite seq_nth by lia.
  f_equal. lia.
Qed.

Lemma nth_error_map_seq0 {X} (F : nat -> X) n t x : nth_error (map F (seq 0 n)) t = Some x -> (t < n)%nat /\ x = F t.
Proof.
  intros H. assert (Lt : (t < n)%nat) by (assert (Q : nth_error (map F (seq 0 n)) t <> None) by congruence; apply nth_error_Some in Q; rewrite map_length, seq_length in Q; exact Q).
  split; [exact Lt|]. rewrite nth_error_map in H. rewrite (nth_error_nth' _ 0%nat) in H by (rewrite seq_length; exact Lt). rewrite seq_nth in H by exact Lt.
  cbn in H. congruence.
Qed.

(* ---- profiles of copies ------------------------------------------------------------------------------------------------ *)
Section Copies.
Variable unit : Z.
Hypothesis unit_pos : 0 <= unit.
Variable S : list (list Z).
Variables gpo gpe tgpe gam : Z.
Variable dim : nat.
Variable mx : Z.
Hypothesis Hok : scheme_ok unit S gpo gpe tgpe gam dim mx = true.
Hypothesis Hdim : (dim <= 23)%nat.
Notation AXu := (AX unit).
Notation PXu := (PX unit S gpo gpe tgpe).
Notation scS := (sc S).
Notation potS := (pot S gam dim mx).
Notation inrS := (inr dim).
Notation colX := (column AXu).

(* what the kernels read of a column of the profile of k copies, prepared for another side of n members *)
Definition gapsK (k n : Z) (col : colX) : Prop :=
  pget AXu col 27 = Some (- (k * gpo) * n) /\ pget AXu col 28 = Some (- (k * gpe) * n) /\ pget AXu col 29 = Some (- (k * tgpe) * n).
Definition resK (k : Z) (c : nat) (col : colX) : Prop :=
  (forall j, (j < 23)%nat -> pget AXu col j = Some (if (j =? c)%nat then k else 0)) /\
  (forall j, (j < 23)%nat -> pget AXu col (32 + j) = Some (k * scS c j)).

(* a row/column of a pass as the profile kernels see it: (own column, neighbour column), tagged with its residue code *)
Definition okRow (k n : Z) (cr : Z * RowP AXu) : Prop :=
  inrS (fst cr) = true /\ resK k (Z.to_nat (fst cr)) (fst (snd cr)) /\ gapsK k n (fst (snd cr)) /\ gapsK k n (snd (snd cr)).

Lemma filter_eqb c n a : (a <= c < a + n)%nat -> filter (fun j => (j =? c)%nat) (seq a n) = [c].
Proof.
  revert a; induction n as [|n IH]; intros a H; [lia|]. cbn [seq filter]. destruct (Nat.eqb_spec a c) as [->|N].
  - f_equal. clear. generalize (Datatypes.S c) (Nat.lt_succ_diag_r c). intros b Hb. revert b Hb; induction n as [|n IH]; intros b Hb; [reflexivity|].
    cbn [seq filter]. destruct (Nat.eqb_spec b c); [lia|]. apply IH. lia.
  - apply IH. lia.
Qed.

Lemma pp_match_ok k1 k2 c1 c2 (own1 own2 : colX) (nb1 nb2 : colX) v : k1 <> 0 -> (c1 < 23)%nat ->
  resK k1 c1 own1 -> resK k2 c2 own2 ->
  pp_match AXu (own1, nb1) (own2, nb2) v = xadd v (Some (k1 * (k2 * scS c2 c1))).
Proof.
  intros Hk Hc (Q1 & _) (_ & Q2). unfold pp_match. cbn [fst].
  assert (Ef : filter (fun j => nonzero AXu (pget AXu own1 j)) (seq 0 23) = [c1]).
  { rewrite <- (filter_eqb c1 23 0) by lia. apply filter_ext_in. intros j Hj. apply in_seq in Hj. rewrite Q1 by lia.
    cbn [nonzero AX alg_X xnonzero]. destruct (Nat.eqb_spec j c1); [destruct k1; try reflexivity; congruence|reflexivity]. }
  rewrite Ef. cbn [rev app fold_left]. rewrite Q1 by exact Hc. rewrite Nat.eqb_refl. rewrite Q2 by exact Hc. reflexivity.
Qed.

(* rows and columns of the profile kernels as maps over indices *)
Lemma rows_fwd_map (p : list colX) a b : (a <= b)%nat -> (b + 2 <= length p)%nat ->
  rows_fwd AXu p (Z.of_nat a) (Z.of_nat b) = map (fun t => (nth (a + 1 + t) p [], nth (a + t) p [])) (seq 0 (b - a)).
Proof.
  intros H1 H2. unfold rows_fwd. replace (Z.of_nat a + 1) with (Z.of_nat (a + 1)) by lia. replace (Z.of_nat b + 1) with (Z.of_nat (b + 1)) by lia.
  rewrite (@slice_as_map colX [] p (a + 1) (b + 1)) by lia. rewrite (@slice_as_map colX [] p a b) by lia.
  replace (b + 1 - (a + 1))%nat with (b - a)%nat by lia. apply combine_map_seq.
Qed.
Lemma rows_bwd_map (p : list colX) a b : (a <= b)%nat -> (b + 2 <= length p)%nat ->
  rows_bwd AXu p (Z.of_nat a) (Z.of_nat b) = map (fun t => (nth (a + 1 + (b - a - 1 - t)) p [], nth (a + 2 + (b - a - 1 - t)) p [])) (seq 0 (b - a)).
Proof.
  intros H1 H2. unfold rows_bwd. replace (Z.of_nat a + 1) with (Z.of_nat (a + 1)) by lia. replace (Z.of_nat b + 1) with (Z.of_nat (b + 1)) by lia.
  replace (Z.of_nat a + 2) with (Z.of_nat (a + 2)) by lia. replace (Z.of_nat b + 2) with (Z.of_nat (b + 2)) by lia.
  rewrite (@slice_as_map colX [] p (a + 1) (b + 1)) by lia. rewrite (@slice_as_map colX [] p (a + 2) (b + 2)) by lia.
  replace (b + 1 - (a + 1))%nat with (b - a)%nat by lia. replace (b + 2 - (a + 2))%nat with (b - a)%nat by lia.
  rewrite combine_map_seq. apply (rev_map_seq0 (fun t => (nth (a + 1 + t) p [], nth (a + 2 + t) p []))).
Qed.
Lemma cols_fwd_map (p : list colX) a b : (a <= b)%nat -> (b + 2 <= length p)%nat ->
  cols_fwd AXu p (Z.of_nat a) (Z.of_nat b) = map (fun t => (nth (a + 1 + t) p [], nth (a + t) p [])) (seq 0 (b - a)).
Proof. exact (rows_fwd_map p a b). Qed.
Lemma cols_bwd_map (p : list colX) a b : (a <= b)%nat -> (b + 2 <= length p)%nat ->
  cols_bwd AXu p (Z.of_nat a) (Z.of_nat b) = map (fun t => (nth (a + 1 + (b - a - 1 - t)) p [], nth (a + 2 + (b - a - 1 - t)) p [])) (seq 0 (b - a)).
Proof. exact (rows_bwd_map p a b). Qed.

Variable x : list Z.
Hypothesis Hx : Forall (fun c => inrS c = true) x.
Definition profK (k n : Z) (p : list colX) : Prop :=
  length p = (length x + 2)%nat /\ (forall j, (j < length x + 2)%nat -> gapsK k n (nth j p [])) /\
  (forall j, (j < length x)%nat -> resK k (Z.to_nat (nth j x 0)) (nth (Datatypes.S j) p [])).

(* the tagged rows of a forward / backward pass over a profile of copies are okRows *)
Definition tag_fwd (p : list colX) (a : nat) (t : nat) : Z * RowP AXu := (nth (a + t) x 0, (nth (a + 1 + t) p [], nth (a + t) p [])).
Definition tag_bwd (p : list colX) (a b : nat) (t : nat) : Z * RowP AXu :=
  (nth (b - 1 - t) x 0, (nth (a + 1 + (b - a - 1 - t)) p [], nth (a + 2 + (b - a - 1 - t)) p [])).

Lemma code_inr j : (j < length x)%nat -> inrS (nth j x 0) = true.
Proof. intros H. rewrite Forall_forall in Hx. apply Hx. apply nth_In. exact H. Qed.

Lemma tag_fwd_ok k n p a b : profK k n p -> (a <= b)%nat -> (b <= length x)%nat ->
  Forall (okRow k n) (map (tag_fwd p a) (seq 0 (b - a))).
Proof.
  intros (Lp & G & Rk) H1 H2. apply Forall_forall. intros cr Hin. apply in_map_iff in Hin as (t & <- & Ht). apply in_seq in Ht.
  unfold okRow, tag_fwd. cbn [fst snd]. split; [apply code_inr; lia|]. split; [|split; apply G; lia].
  replace (a + 1 + t)%nat with (Datatypes.S (a + t)) by lia. apply Rk. lia.
Qed.
Lemma tag_bwd_ok k n p a b : profK k n p -> (a <= b)%nat -> (b <= length x)%nat ->
  Forall (okRow k n) (map (tag_bwd p a b) (seq 0 (b - a))).
Proof.
  intros (Lp & G & Rk) H1 H2. apply Forall_forall. intros cr Hin. apply in_map_iff in Hin as (t & <- & Ht). apply in_seq in Ht.
  unfold okRow, tag_bwd. cbn [fst snd]. split; [apply code_inr; lia|]. split; [|split; apply G; lia].
  replace (a + 1 + (b - a - 1 - t))%nat with (Datatypes.S (b - 1 - t)) by lia. apply Rk. lia.
Qed.


Lemma prof_gap_nonpos k n p j : profK k n p -> 0 <= k -> 0 <= n -> 0 <= gpo -> 0 <= gpe -> 0 <= tgpe ->
  (exists g, pget AXu (nth j p []) 27 = Some g /\ g <= 0) /\ (exists g, pget AXu (nth j p []) 28 = Some g /\ g <= 0) /\
  (exists g, pget AXu (nth j p []) 29 = Some g /\ g <= 0).
Proof.
  intros (Lp & G & _) Hk Hn H1 H2 H3. destruct (Nat.ltb_spec j (length x + 2)) as [Lt|Ge].
  - destruct (G j Lt) as (A1 & A2 & A3). rewrite A1, A2, A3. repeat split; eexists; (split; [reflexivity|nia]).
  - rewrite nth_overflow by lia. unfold pget. cbn [nth zero AX alg_X]. repeat split; exists 0; split; try reflexivity; lia.
Qed.

Lemma codes_rev (P1 P2 : Z * RowP AXu -> Prop) (CF : list {cr | P1 cr}) (CB : list {cr | P2 cr}) (pf pb : list colX) a b :
  (a <= b)%nat ->
  map (@proj1_sig _ _) CF = map (tag_fwd pf a) (seq 0 (b - a)) ->
  map (@proj1_sig _ _) CB = map (tag_bwd pb a b) (seq 0 (b - a)) ->
  map (fun s => fst (proj1_sig s)) CB = rev (map (fun s => fst (proj1_sig s)) CF).
Proof.
  intros Hab EF EB.
  transitivity (map fst (map (@proj1_sig _ _) CB)); [rewrite map_map; reflexivity|].
  replace (map (fun s => fst (proj1_sig s)) CF) with (map fst (map (@proj1_sig _ _) CF)) by (rewrite map_map; reflexivity).
  rewrite EF, EB, !map_map. cbn [tag_fwd tag_bwd fst].
  rewrite (rev_map_seq0 (fun t => nth (a + t) x 0)). apply map_ext_in. intros t Ht. apply in_seq in Ht. f_equal. lia.
Qed.

(* ---- the profile-profile kernel on two groups of copies ------------------------------------------------------------------ *)
Section PP.
Variables k1 k2 : Z.
Hypothesis Hk1 : 1 <= k1.
Hypothesis Hk2 : 1 <= k2.
Variables p1 p2 : list colX.
Hypothesis Hp1 : profK k1 k2 p1.
Hypothesis Hp2 : profK k2 k1 p2.
Let q := k1 * k2.
Definition R1 := {cr : Z * RowP AXu | okRow k1 k2 cr}.
Definition C2 := {cr : Z * RowP AXu | okRow k2 k1 cr}.
Definition rowof1 (s : R1) : RowP AXu := snd (proj1_sig s).
Definition rowof2 (s : C2) : RowP AXu := snd (proj1_sig s).
Definition KP : costs AXu R1 C2 := comap AXu _ _ _ _ (pp_costs AXu) rowof1 rowof2.

Lemma q_pos : 1 <= q. Proof. unfold q. nia. Qed.

Lemma gaps_scaled k n g : 0 <= k -> 0 <= n -> 0 <= g -> - (k * g) * n <= 0.
Proof. intros. nia. Qed.

Lemma pp_square o e : 0 <= o -> o < e -> e <= Z.of_nat (length x) ->
  let Kn := pp_kernel AXu p1 p2 in
  let mid := (e - o) / 2 + o in
  exists v, k_meetup AXu Kn mid o e (k_forward AXu Kn o mid o e (live0 AXu)) (k_backward AXu Kn mid e o e (live0 AXu)) = (v, 1, mid).
Proof.
  intros Ho Hoe He. cbv zeta. set (mid := (e - o) / 2 + o).
  assert (Hmid : o <= mid < e) by (unfold mid; pose proof (Z.div_pos (e - o) 2); pose proof (Z.mul_div_le (e - o) 2); pose proof (Z.mul_succ_div_gt (e - o) 2); lia).
  destruct (ok_facts unit S gpo gpe tgpe gam dim mx Hok) as (G1 & G2 & G3 & (G4 & G4') & G5 & G6 & F).
  pose proof q_pos as Hq.
  destruct Hp1 as (Lp1 & Gp1 & Rp1). destruct Hp2 as (Lp2 & Gp2 & Rp2).
  set (oN := Z.to_nat o). set (mN := Z.to_nat mid). set (eN := Z.to_nat e).
  assert (Eo : o = Z.of_nat oN) by lia. assert (Em : mid = Z.of_nat mN) by lia. assert (Ee : e = Z.of_nat eN) by lia.
  assert (Hn : (oN <= mN < eN)%nat /\ (eN <= length x)%nat) by lia. destruct Hn as (Hn1 & Hn2).
  cbn [pp_kernel k_meetup k_forward k_backward]. unfold meetup.
  change (negmax AXu, -1, -1) with (@None Z, -1, -1). change (live0 AXu) with (live (tbk unit)).
  rewrite Eo, Em, Ee.
  rewrite (rows_fwd_map p1 oN mN) by lia. rewrite (cols_fwd_map p2 oN eN) by lia.
  rewrite (rows_bwd_map p1 mN eN) by lia. rewrite (cols_bwd_map p2 oN eN) by lia.
  (* tagged lists over the subset types *)
  destruct (sig_list (okRow k1 k2) _ (tag_fwd_ok k1 k2 p1 oN mN (conj Lp1 (conj Gp1 Rp1)) ltac:(lia) ltac:(lia))) as (RF & ERF).
  destruct (sig_list (okRow k1 k2) _ (tag_bwd_ok k1 k2 p1 mN eN (conj Lp1 (conj Gp1 Rp1)) ltac:(lia) ltac:(lia))) as (RB & ERB).
  destruct (sig_list (okRow k2 k1) _ (tag_fwd_ok k2 k1 p2 oN eN (conj Lp2 (conj Gp2 Rp2)) ltac:(lia) ltac:(lia))) as (CF & ECF).
  destruct (sig_list (okRow k2 k1) _ (tag_bwd_ok k2 k1 p2 oN eN (conj Lp2 (conj Gp2 Rp2)) ltac:(lia) ltac:(lia))) as (CB & ECB).
  assert (MRF : map rowof1 RF = map (fun t => (nth (oN + 1 + t) p1 [], nth (oN + t) p1 [])) (seq 0 (mN - oN))).
  { transitivity (map snd (map (@proj1_sig _ (okRow k1 k2)) RF)); [rewrite map_map; reflexivity|rewrite ERF, map_map; reflexivity]. }
  assert (MRB : map rowof1 RB = map (fun t => (nth (mN + 1 + (eN - mN - 1 - t)) p1 [], nth (mN + 2 + (eN - mN - 1 - t)) p1 [])) (seq 0 (eN - mN))).
  { transitivity (map snd (map (@proj1_sig _ (okRow k1 k2)) RB)); [rewrite map_map; reflexivity|rewrite ERB, map_map; reflexivity]. }
  assert (MCF : map rowof2 CF = map (fun t => (nth (oN + 1 + t) p2 [], nth (oN + t) p2 [])) (seq 0 (eN - oN))).
  { transitivity (map snd (map (@proj1_sig _ (okRow k2 k1)) CF)); [rewrite map_map; reflexivity|rewrite ECF, map_map; reflexivity]. }
  assert (MCB : map rowof2 CB = map (fun t => (nth (oN + 1 + (eN - oN - 1 - t)) p2 [], nth (oN + 2 + (eN - oN - 1 - t)) p2 [])) (seq 0 (eN - oN))).
  { transitivity (map snd (map (@proj1_sig _ (okRow k2 k1)) CB)); [rewrite map_map; reflexivity|rewrite ECB, map_map; reflexivity]. }
  rewrite <- MRF, <- MRB, <- MCF, <- MCB.
  rewrite <- !(pass_comap AXu _ _ R1 C2 (pp_costs AXu) rowof1 rowof2). fold KP.
  assert (LRF : @length R1 RF = (mN - oN)%nat) by (pose proof (f_equal (@length _) ERF) as Q; rewrite !map_length, seq_length in Q; exact Q).
  assert (LRB : @length R1 RB = (eN - mN)%nat) by (pose proof (f_equal (@length _) ERB) as Q; rewrite !map_length, seq_length in Q; exact Q).
  assert (LCF : @length C2 CF = (eN - oN)%nat) by (pose proof (f_equal (@length _) ECF) as Q; rewrite !map_length, seq_length in Q; exact Q).
  (* codes of the tagged elements *)
  assert (codeF1 : forall t r, nth_error RF t = Some r -> (t < mN - oN)%nat /\ fst (proj1_sig r) = nth (oN + t) x 0).
  { intros t r H. pose proof (sig_nth _ _ _ _ _ ERF H) as H'. apply nth_error_map_seq0 in H' as (Lt & E). split; [exact Lt|]. rewrite E. reflexivity. }
  assert (codeB1 : forall t r, nth_error RB t = Some r -> (t < eN - mN)%nat /\ fst (proj1_sig r) = nth (eN - 1 - t) x 0).
  { intros t r H. pose proof (sig_nth _ _ _ _ _ ERB H) as H'. apply nth_error_map_seq0 in H' as (Lt & E). split; [exact Lt|]. rewrite E. reflexivity. }
  assert (codeF2 : forall t r, nth_error CF t = Some r -> (t < eN - oN)%nat /\ fst (proj1_sig r) = nth (oN + t) x 0).
  { intros t r H. pose proof (sig_nth _ _ _ _ _ ECF H) as H'. apply nth_error_map_seq0 in H' as (Lt & E). split; [exact Lt|]. rewrite E. reflexivity. }
  assert (codeB2 : forall t r, nth_error CB t = Some r -> (t < eN - oN)%nat /\ fst (proj1_sig r) = nth (eN - 1 - t) x 0).
  { intros t r H. pose proof (sig_nth _ _ _ _ _ ECB H) as H'. apply nth_error_map_seq0 in H' as (Lt & E). split; [exact Lt|]. rewrite E. reflexivity. }
  set (len_b := Z.of_nat (length p2) - 2).
  destruct (square_meet (tbk unit) (tbk_nonneg unit unit_pos) R1 C2 KP
              (fun r => q * potS (fst (proj1_sig r))) (fun c => q * potS (fst (proj1_sig c)))
              (fun r => q * scS (Z.to_nat (fst (proj1_sig r))) (Z.to_nat (fst (proj1_sig r)))) (q * gam)
              (fun r c => fst (proj1_sig r) = fst (proj1_sig c))) with
    (M := pp_meet AXu p1 p2 (Z.of_nat mN)) (RF := RF) (RB := RB) (CF := CF) (CB := CB)
    (fi := negb (Z.of_nat oN =? 0)) (li := negb (Z.of_nat eN =? len_b)) (fi' := negb (Z.of_nat eN =? len_b)) (li' := negb (Z.of_nat oN =? 0))
    (sz := (Z.of_nat oN =? 0)) (el := (Z.of_nat eN =? len_b)) (sb := Z.of_nat oN) (eb := Z.of_nat eN) (i0 := Z.of_nat oN) as (E & HE).
  - nia.
  - (* match step bounded *)
    intros [[cr rr] (Ir & Rr & Gr)] [[cc rc] (Ic & Rc & Gc)] v u Hu. cbn [k_match KP comap rowof1 rowof2 proj1_sig snd fst pp_costs] in *.
    destruct rr as [own1 nb1]. destruct rc as [own2 nb2]. cbn [fst snd] in *.
    assert (Hc1 : (Z.to_nat cr < 23)%nat) by (unfold inr in Ir; apply Nat.ltb_lt in Ir; lia).
    rewrite (pp_match_ok k1 k2 (Z.to_nat cr) (Z.to_nat cc) own1 own2 nb1 nb2 v ltac:(lia) Hc1 Rr Rc).
    destruct v as [v|]; [|exact I]. cbn [xadd ub2] in *.
    pose proof (match_ub unit unit_pos S gpo gpe tgpe gam dim mx Hok cc cr) as MU. fold q. nia.
  - (* match step exact on a pair *)
    intros [[cr rr] (Ir & Rr & Gr)] [[cc rc] (Ic & Rc & Gc)] v Hd. cbn [proj1_sig fst] in Hd. subst cc.
    cbn [k_match KP comap rowof1 rowof2 proj1_sig snd fst pp_costs] in *.
    destruct rr as [own1 nb1]. destruct rc as [own2 nb2]. cbn [fst snd] in *.
    assert (Hc1 : (Z.to_nat cr < 23)%nat) by (unfold inr in Ir; apply Nat.ltb_lt in Ir; lia).
    rewrite (pp_match_ok k1 k2 (Z.to_nat cr) (Z.to_nat cr) own1 own2 nb1 nb2 (Some v) ltac:(lia) Hc1 Rr Rc).
    cbn [xadd]. split; [f_equal; unfold q; ring|]. unfold pot. rewrite Ir. unfold q. ring.
  - (* gap steps along a row: costs of the column *)
    intros [[cc [own2 nb2]] (Ic & Rc & (A1 & A2 & A3) & Gn)]. cbn [k_ga_ext k_ga_open k_ga_text KP comap rowof2 proj1_sig snd fst pp_costs]. cbn [fst snd] in *.
    rewrite A1, A2, A3. eexists _, _, _. split; [reflexivity|]. split; [reflexivity|]. split; [reflexivity|].
    pose proof (pot_gap unit S gpo gpe tgpe gam dim mx Hok cc gpo ltac:(auto)) as Q1.
    pose proof (pot_gap unit S gpo gpe tgpe gam dim mx Hok cc gpe ltac:(auto)) as Q2.
    pose proof (pot_gap unit S gpo gpe tgpe gam dim mx Hok cc tgpe ltac:(auto)) as Q3.
    fold q. repeat split; nia.
  - intros [[cr [own1 nb1]] (Ir & Rr & (A1 & A2 & A3) & Gn)]. cbn [k_gb_ext k_gb_open k_gb_text KP comap rowof1 proj1_sig snd fst pp_costs]. cbn [fst snd] in *.
    rewrite A1, A2, A3. eexists _, _, _. split; [reflexivity|]. split; [reflexivity|]. split; [reflexivity|].
    pose proof (pot_gap unit S gpo gpe tgpe gam dim mx Hok cr gpo ltac:(auto)) as Q1.
    pose proof (pot_gap unit S gpo gpe tgpe gam dim mx Hok cr gpe ltac:(auto)) as Q2.
    pose proof (pot_gap unit S gpo gpe tgpe gam dim mx Hok cr tgpe ltac:(auto)) as Q3.
    fold q. repeat split; nia.
  - intros [[cc [own2 nb2]] (Ic & Rc & Go & (A1 & A2 & A3))]. cbn [k_ga_to_a KP comap rowof2 proj1_sig snd fst pp_costs]. cbn [fst snd] in *. rewrite A1. eexists. split; [reflexivity|nia].
  - intros [[cr [own1 nb1]] (Ir & Rr & Go & (A1 & A2 & A3))]. cbn [k_gb_to_a KP comap rowof1 proj1_sig snd fst pp_costs]. cbn [fst snd] in *. rewrite A1. eexists. split; [reflexivity|nia].
  - intros i. apply (prof_gap_nonpos k2 k1 p2 (Z.to_nat (i + 1)) (conj Lp2 (conj Gp2 Rp2))); lia.
  - apply (prof_gap_nonpos k1 k2 p1 (Z.to_nat (Z.of_nat mN + 1)) (conj Lp1 (conj Gp1 Rp1))); lia.
  - intros i. apply (prof_gap_nonpos k2 k1 p2 (Z.to_nat i) (conj Lp2 (conj Gp2 Rp2))); lia.
  - apply (prof_gap_nonpos k1 k2 p1 (Z.to_nat (Z.of_nat mN + 1)) (conj Lp1 (conj Gp1 Rp1))); lia.
  - apply (prof_gap_nonpos k1 k2 p1 (Z.to_nat (Z.of_nat mN + 1)) (conj Lp1 (conj Gp1 Rp1))); lia.
  - apply (prof_gap_nonpos k1 k2 p1 (Z.to_nat (Z.of_nat mN)) (conj Lp1 (conj Gp1 Rp1))); lia.
  - etransitivity; [|symmetry; exact LCF]. etransitivity; [apply f_equal2; [exact LRF|exact LRB]|lia].
  - etransitivity; [|apply Nat.eq_le_incl; symmetry; exact LRB]. lia.
  - (* potentials of the backward columns *)
    apply (map_by_code (fun c => q * potS c) (fun s : C2 => fst (proj1_sig s))).
    etransitivity; [apply (codes_rev _ _ CF CB p2 p2 oN eN ltac:(lia) ECF ECB)|symmetry; apply map_rev].
  - intros t r c Hr Hc. destruct (codeF1 t r Hr) as (_ & ->). destruct (codeF2 t c Hc) as (_ & ->). reflexivity.
  - intros t r c Hr Hc. destruct (codeB1 t r Hr) as (_ & ->). destruct (codeB2 t c Hc) as (_ & ->). reflexivity.
  - rewrite LRF. unfold tbk. replace (Z.of_nat oN + Z.of_nat (mN - oN)) with mid by lia. rewrite <- Eo, <- Ee.
    assert (Hab : Z.abs (e + o - 2 * mid) <= 1) by (unfold mid; pose proof (Z.mul_div_le (e - o) 2); pose proof (Z.mul_succ_div_gt (e - o) 2); lia).
    assert (Hu : unit * Z.abs (e + o - 2 * mid) <= unit * 1) by (apply Z.mul_le_mono_nonneg_l; [exact unit_pos|exact Hab]). nia.
  - exists (Some E). etransitivity; [exact HE|]. rewrite LRF. replace (Z.of_nat oN + Z.of_nat (mN - oN)) with (Z.of_nat mN) by lia. reflexivity.
Qed.
End PP.

Theorem pp_identical_diagonal k1 k2 p1 p2 : 1 <= k1 -> 1 <= k2 -> profK k1 k2 p1 -> profK k2 k1 p2 ->
  let n := Z.of_nat (length x) in
  raw_path AXu (pp_kernel AXu p1 p2) n n = Some (diag (length x)).
Proof.
  intros H1 H2 P1 P2. cbv zeta. rewrite <- seq1_diag. rewrite <- (Nat2Z.id (length x)) at 3. apply (raw_path_diag (tbk unit)); [|lia].
  intros o e Ho Hoe He. apply (pp_square k1 k2 H1 H2 p1 p2 P1 P2); assumption.
Qed.

(* ---- the sequence-profile kernel on a group of copies (rows) and one more copy (columns) --------------------------------- *)
Lemma seq_as_map a n : seq a n = map (fun t => (a + t)%nat) (seq 0 n).
Proof. revert a; induction n as [|n IH]; intros a; [reflexivity|]. cbn [seq map]. rewrite Nat.add_0_r. f_equal. rewrite IH, <- seq_shift, map_map. apply map_ext. intros t. lia. Qed.

Section SP.
Variable k : Z.
Hypothesis Hk : 1 <= k.
Variable p1 : list colX.
Hypothesis Hp1 : profK k 1 p1.
Definition Cz := {c : Z | inrS c = true}.
Definition KSP : costs AXu (R1 k 1) Cz := comap AXu _ _ _ _ (sp_costs AXu PXu k) (rowof1 k 1) (@proj1_sig _ _).

Lemma sp_square o e : 0 <= o -> o < e -> e <= Z.of_nat (length x) ->
  let Kn := sp_kernel AXu PXu p1 x k in
  let mid := (e - o) / 2 + o in
  exists v, k_meetup AXu Kn mid o e (k_forward AXu Kn o mid o e (live0 AXu)) (k_backward AXu Kn mid e o e (live0 AXu)) = (v, 1, mid).
Proof.
  intros Ho Hoe He. cbv zeta. set (mid := (e - o) / 2 + o).
  assert (Hmid : o <= mid < e) by (unfold mid; pose proof (Z.div_pos (e - o) 2); pose proof (Z.mul_div_le (e - o) 2); pose proof (Z.mul_succ_div_gt (e - o) 2); lia).
  destruct (ok_facts unit S gpo gpe tgpe gam dim mx Hok) as (G1 & G2 & G3 & (G4 & G4') & G5 & G6 & F).
  destruct Hp1 as (Lp1 & Gp1 & Rp1).
  set (oN := Z.to_nat o). set (mN := Z.to_nat mid). set (eN := Z.to_nat e).
  assert (Eo : o = Z.of_nat oN) by lia. assert (Em : mid = Z.of_nat mN) by lia. assert (Ee : e = Z.of_nat eN) by lia.
  assert (Hn : (oN <= mN < eN)%nat /\ (eN <= length x)%nat) by lia. destruct Hn as (Hn1 & Hn2).
  cbn [sp_kernel k_meetup k_forward k_backward]. unfold meetup.
  change (negmax AXu, -1, -1) with (@None Z, -1, -1). change (live0 AXu) with (live (tbk unit)).
  rewrite Eo, Em, Ee.
  rewrite (rows_fwd_map p1 oN mN) by lia. rewrite (rows_bwd_map p1 mN eN) by lia.
  rewrite (@slice_as_map Z 0 x oN eN) by lia. rewrite (seq_as_map oN), map_map.
  rewrite (rev_map_seq0 (fun t => nth (oN + t) x 0)).
  destruct (sig_list (okRow k 1) _ (tag_fwd_ok k 1 p1 oN mN (conj Lp1 (conj Gp1 Rp1)) ltac:(lia) ltac:(lia))) as (RF & ERF).
  destruct (sig_list (okRow k 1) _ (tag_bwd_ok k 1 p1 mN eN (conj Lp1 (conj Gp1 Rp1)) ltac:(lia) ltac:(lia))) as (RB & ERB).
  destruct (sig_list (fun c => inrS c = true) (map (fun t => nth (oN + t) x 0) (seq 0 (eN - oN)))) as (CF & ECF).
  { apply Forall_forall. intros c Hc. apply in_map_iff in Hc as (t & <- & Ht). apply in_seq in Ht. apply code_inr. lia. }
  destruct (sig_list (fun c => inrS c = true) (map (fun t => nth (oN + (eN - oN - 1 - t)) x 0) (seq 0 (eN - oN)))) as (CB & ECB).
  { apply Forall_forall. intros c Hc. apply in_map_iff in Hc as (t & <- & Ht). apply in_seq in Ht. apply code_inr. lia. }
  assert (MRF : map (rowof1 k 1) RF = map (fun t => (nth (oN + 1 + t) p1 [], nth (oN + t) p1 [])) (seq 0 (mN - oN))).
  { transitivity (map snd (map (@proj1_sig _ (okRow k 1)) RF)); [rewrite map_map; reflexivity|rewrite ERF, map_map; reflexivity]. }
  assert (MRB : map (rowof1 k 1) RB = map (fun t => (nth (mN + 1 + (eN - mN - 1 - t)) p1 [], nth (mN + 2 + (eN - mN - 1 - t)) p1 [])) (seq 0 (eN - mN))).
  { transitivity (map snd (map (@proj1_sig _ (okRow k 1)) RB)); [rewrite map_map; reflexivity|rewrite ERB, map_map; reflexivity]. }
  rewrite <- MRF, <- MRB, <- ECF, <- ECB.
  rewrite <- !(pass_comap AXu _ _ (R1 k 1) Cz (sp_costs AXu PXu k) (rowof1 k 1) (@proj1_sig _ _)). fold KSP.
  assert (LRF : @length (R1 k 1) RF = (mN - oN)%nat) by (pose proof (f_equal (@length _) ERF) as Q; rewrite !map_length, seq_length in Q; exact Q).
  assert (LRB : @length (R1 k 1) RB = (eN - mN)%nat) by (pose proof (f_equal (@length _) ERB) as Q; rewrite !map_length, seq_length in Q; exact Q).
  assert (LCF : @length Cz CF = (eN - oN)%nat) by (pose proof (f_equal (@length _) ECF) as Q; rewrite !map_length, seq_length in Q; exact Q).
  assert (codeF1 : forall t r, nth_error RF t = Some r -> (t < mN - oN)%nat /\ fst (proj1_sig r) = nth (oN + t) x 0).
  { intros t r H. pose proof (sig_nth _ _ _ _ _ ERF H) as H'. apply nth_error_map_seq0 in H' as (Lt & E). split; [exact Lt|]. rewrite E. reflexivity. }
  assert (codeB1 : forall t r, nth_error RB t = Some r -> (t < eN - mN)%nat /\ fst (proj1_sig r) = nth (eN - 1 - t) x 0).
  { intros t r H. pose proof (sig_nth _ _ _ _ _ ERB H) as H'. apply nth_error_map_seq0 in H' as (Lt & E). split; [exact Lt|]. rewrite E. reflexivity. }
  assert (codeF2 : forall t c, nth_error CF t = Some c -> (t < eN - oN)%nat /\ proj1_sig c = nth (oN + t) x 0).
  { intros t r H. pose proof (sig_nth _ _ _ _ _ ECF H) as H'. apply nth_error_map_seq0 in H' as (Lt & E). split; [exact Lt|exact E]. }
  assert (codeB2 : forall t c, nth_error CB t = Some c -> (t < eN - oN)%nat /\ proj1_sig c = nth (oN + (eN - oN - 1 - t)) x 0).
  { intros t r H. pose proof (sig_nth _ _ _ _ _ ECB H) as H'. apply nth_error_map_seq0 in H' as (Lt & E). split; [exact Lt|exact E]. }
  set (len_b := Z.of_nat (length x)).
  destruct (square_meet (tbk unit) (tbk_nonneg unit unit_pos) (R1 k 1) Cz KSP
              (fun r => k * potS (fst (proj1_sig r))) (fun c => k * potS (proj1_sig c))
              (fun r => k * scS (Z.to_nat (fst (proj1_sig r))) (Z.to_nat (fst (proj1_sig r)))) (k * gam)
              (fun r c => fst (proj1_sig r) = proj1_sig c)) with
    (M := sp_meet AXu PXu k p1 (Z.of_nat mN)) (RF := RF) (RB := RB) (CF := CF) (CB := CB)
    (fi := negb (Z.of_nat oN =? 0)) (li := negb (Z.of_nat eN =? len_b)) (fi' := negb (Z.of_nat eN =? len_b)) (li' := negb (Z.of_nat oN =? 0))
    (sz := (Z.of_nat oN =? 0)) (el := (Z.of_nat eN =? len_b)) (sb := Z.of_nat oN) (eb := Z.of_nat eN) (i0 := Z.of_nat oN) as (E & HE).
  - nia.
  - (* match step bounded *)
    intros [[cr [own1 nb1]] (Ir & Rr & Gr)] [cc Ic] v u Hu. cbn [k_match KSP comap rowof1 proj1_sig snd fst sp_costs] in *. cbn [fst snd] in *.
    assert (Hc2 : (Z.to_nat cc < 23)%nat) by (unfold inr in Ic; apply Nat.ltb_lt in Ic; lia).
    destruct Rr as (_ & Q2). rewrite (Q2 _ Hc2).
    destruct v as [v|]; [|exact I]. cbn [add AX alg_X xadd ub2] in *.
    pose proof (match_ub unit unit_pos S gpo gpe tgpe gam dim mx Hok cr cc) as MU. nia.
  - intros [[cr [own1 nb1]] (Ir & Rr & Gr)] [cc Ic] v Hd. cbn [proj1_sig fst] in Hd. subst cc.
    cbn [k_match KSP comap rowof1 proj1_sig snd fst sp_costs] in *. cbn [fst snd] in *.
    assert (Hc2 : (Z.to_nat cr < 23)%nat) by (unfold inr in Ir; apply Nat.ltb_lt in Ir; lia).
    destruct Rr as (_ & Q2). rewrite (Q2 _ Hc2). cbn [add AX alg_X xadd]. split; [reflexivity|]. unfold pot. rewrite Ir. ring.
  - intros [cc Ic]. cbn [k_ga_ext k_ga_open k_ga_text KSP comap proj1_sig sp_costs PX n_gpo n_gpe n_tgpe]. 
    exists (- (gpe * k)), (- (gpo * k)), (- (tgpe * k)). split; [reflexivity|]. split; [reflexivity|]. split; [reflexivity|].
    pose proof (pot_gap unit S gpo gpe tgpe gam dim mx Hok cc gpo ltac:(auto)) as Q1.
    pose proof (pot_gap unit S gpo gpe tgpe gam dim mx Hok cc gpe ltac:(auto)) as Q2.
    pose proof (pot_gap unit S gpo gpe tgpe gam dim mx Hok cc tgpe ltac:(auto)) as Q3.
    repeat split; nia.
  - intros [[cr [own1 nb1]] (Ir & Rr & (A1 & A2 & A3) & Gn)]. cbn [k_gb_ext k_gb_open k_gb_text KSP comap rowof1 proj1_sig snd fst sp_costs]. cbn [fst snd] in *.
    rewrite A1, A2, A3. eexists _, _, _. split; [reflexivity|]. split; [reflexivity|]. split; [reflexivity|].
    pose proof (pot_gap unit S gpo gpe tgpe gam dim mx Hok cr gpo ltac:(auto)) as Q1.
    pose proof (pot_gap unit S gpo gpe tgpe gam dim mx Hok cr gpe ltac:(auto)) as Q2.
    pose proof (pot_gap unit S gpo gpe tgpe gam dim mx Hok cr tgpe ltac:(auto)) as Q3.
    repeat split; nia.
  - intros [cc Ic]. cbn [k_ga_to_a KSP comap proj1_sig sp_costs PX n_gpo]. exists (- (gpo * k)). split; [reflexivity|nia].
  - intros [[cr [own1 nb1]] (Ir & Rr & Go & (A1 & A2 & A3))]. cbn [k_gb_to_a KSP comap rowof1 proj1_sig snd fst sp_costs]. cbn [fst snd] in *. rewrite A1. eexists. split; [reflexivity|nia].
  - intros i. cbn [m_a_ga sp_meet PX n_gpo]. exists (- (gpo * k)). split; [reflexivity|nia].
  - cbn [m_a_gb sp_meet]. apply (prof_gap_nonpos k 1 p1 (Z.to_nat (Z.of_nat mN + 1)) (conj Lp1 (conj Gp1 Rp1))); lia.
  - intros i. cbn [m_ga_a sp_meet PX n_gpo]. exists (- (gpo * k)). split; [reflexivity|nia].
  - cbn [m_gb_gb_int sp_meet]. apply (prof_gap_nonpos k 1 p1 (Z.to_nat (Z.of_nat mN + 1)) (conj Lp1 (conj Gp1 Rp1))); lia.
  - cbn [m_gb_gb_term sp_meet]. apply (prof_gap_nonpos k 1 p1 (Z.to_nat (Z.of_nat mN + 1)) (conj Lp1 (conj Gp1 Rp1))); lia.
  - cbn [m_gb_a sp_meet]. apply (prof_gap_nonpos k 1 p1 (Z.to_nat (Z.of_nat mN)) (conj Lp1 (conj Gp1 Rp1))); lia.
  - rewrite LRF, LRB, LCF. lia.
  - rewrite LRB. lia.
  - apply (map_by_code (fun c => k * potS c) (fun s : Cz => proj1_sig s)).
    etransitivity; [exact ECB|]. etransitivity; [|symmetry; apply map_rev]. 
    change (map (fun s : Cz => proj1_sig s) CF) with (map (@proj1_sig _ _) CF). rewrite ECF.
    symmetry. apply (rev_map_seq0 (fun t => nth (oN + t) x 0)).
  - intros t r c Hr Hc. destruct (codeF1 t r Hr) as (_ & ->). destruct (codeF2 t c Hc) as (_ & ->). reflexivity.
  - intros t r c Hr Hc. destruct (codeB1 t r Hr) as (Lt & ->). destruct (codeB2 t c Hc) as (_ & ->). f_equal. lia.
  - rewrite LRF. unfold tbk. replace (Z.of_nat oN + Z.of_nat (mN - oN)) with mid by lia. rewrite <- Eo, <- Ee.
    assert (Hab : Z.abs (e + o - 2 * mid) <= 1) by (unfold mid; pose proof (Z.mul_div_le (e - o) 2); pose proof (Z.mul_succ_div_gt (e - o) 2); lia).
    assert (Hu : unit * Z.abs (e + o - 2 * mid) <= unit * 1) by (apply Z.mul_le_mono_nonneg_l; [exact unit_pos|exact Hab]). nia.
  - exists (Some E). etransitivity; [exact HE|]. rewrite LRF. replace (Z.of_nat oN + Z.of_nat (mN - oN)) with (Z.of_nat mN) by lia. reflexivity.
Qed.

Theorem sp_identical_diagonal :
  let n := Z.of_nat (length x) in
  raw_path AXu (sp_kernel AXu PXu p1 x k) n n = Some (diag (length x)).
Proof.
  cbv zeta. rewrite <- seq1_diag. rewrite <- (Nat2Z.id (length x)) at 3. apply (raw_path_diag (tbk unit)); [|lia].
  intros o e Ho Hoe He. apply sp_square; assumption.
Qed.
End SP.
End Copies.
