(* C08 - Identical sequences are aligned without gaps.
   PARTIAL.  Proved (pure lists, every guide tree, any number of copies): the diagonal raw path expands to
   matches only, and a run all of whose merges are all-match leaves every row gap-free - so the property
   reduces to "each kernel returns the diagonal on equal operands".  That last step is a statement about
   binary32 dynamic programming; it is not yet a theorem and is decided on every run by the bit-exact
   correspondence of the executable binary32 model with the implementation (every merge: raw path and
   every meetup maximum) and by end-to-end runs over residue compositions, lengths, copy numbers, types
   and thread counts (DESIGN C08). *)
From Coq Require Import ZArith List Bool Lia.
From KV Require Import Base FP Params Weave WeaveProofs WeaveCheck DupProofs Kernels Pipeline.
Import ListNotations.

(* the raw path 1, 2, .., L against a side of length L is expanded by add_gap_info_to_path_n to L match
   operations (no gap op, no terminal flag) *)
Theorem C08_diagonal_path_expands_to_matches : forall L, (1 <= L)%nat ->
  add_gap_info (Z.of_nat L) (diag L) = Some (repeat 0%Z L).
Proof. exact diagonal_path_all_match. Qed.
Print Assumptions C08_diagonal_path_expands_to_matches.

(* whatever the guide tree and however many sequences: if every merge is all-match, the final rows are the
   input sequences themselves, without a single gap *)
Theorem C08_all_match_merges_insert_no_gaps : forall seqs (tasks : list (nat * nat * nat * list Z)),
  Forall (fun t => all_match (snd t)) tasks ->
  final_rows (run_merges (map (@length Z) seqs) tasks) seqs = seqs.
Proof. exact all_match_run_no_gaps. Qed.
Print Assumptions C08_all_match_merges_insert_no_gaps.

(* both together: diagonal raw paths at every merge give the input back *)
Theorem C08_diagonal_merges_give_no_gaps : forall (s : list Z) copies (tree : list (nat * nat * nat)),
  (1 <= length s)%nat ->
  let tasks := map (fun t => (t, repeat 0%Z (length s))) tree in
  (forall t, In t tasks -> add_gap_info (Z.of_nat (length s)) (diag (length s)) = Some (snd t)) /\
  final_rows (run_merges (map (@length Z) (repeat s copies)) tasks) (repeat s copies) = repeat s copies.
Proof.
  intros s copies tree H tasks. split.
  - intros t Ht. unfold tasks in Ht. apply in_map_iff in Ht as (x & <- & _). simpl. apply diagonal_path_all_match. exact H.
  - apply all_match_run_no_gaps. apply Forall_forall. intros t Ht. unfold tasks in Ht.
    apply in_map_iff in Ht as (x & <- & _). simpl. apply all_match_zeros.
Qed.
Print Assumptions C08_diagonal_merges_give_no_gaps.

(* Instances by evaluation (tests, not the unbounded claim): the binary32 model returns the diagonal for
   three copies of an all-ambiguity-code sequence under the 'dna' parameters, through the sequence-sequence
   and the sequence-profile kernel *)
Example C08_instance :
  let f := fun z => f32_of_Z z in
  let P := mkNP alg_f32 (f 8%Z) (f 6%Z) (f 0%Z) (map (fun i => map (fun j => if (i =? j)%nat then f 5%Z else f (-4)%Z) (seq 0 23)) (seq 0 23)) in
  let s := [4; 4; 4; 4; 4; 4; 4]%Z in
  option_map (map (fun r => snd (fst (fst r)))) (progressive alg_f32 P [s; s; s] [(0, 1, 3); (3, 2, 4)]%nat) =
  Some [diag 7; diag 7].
Proof. vm_compute. reflexivity. Qed.
