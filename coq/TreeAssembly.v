(* C01, assembly layer instantiated to EVERY guide tree: the structural conjuncts of valid_runb (operands active and
   distinct, result label free and inside the sip table) are discharged by TreeSchedule.v for the serial schedule of any
   guide tree; what is left as a premise is that the edit operations of every merge fit the two groups they join. *)
From Coq Require Import ZArith List Bool Lia Permutation.
From KV Require Import Base Weave WeaveProofs WeaveCheck AssemblyProofs Pipeline CladeTasks TreeSchedule.
Import ListNotations.
Local Open Scope nat_scope.

Definition strip (x : task) : nat * nat * nat := fst x.

Section TA.
Variable seqs : list (list Z).
Notation n := (length seqs).

(* the part of valid_runb that depends on the edit operations *)
Fixpoint fits_runb (st : wstate) (tasks : list task) : bool :=
  match tasks with
  | [] => true
  | (a, b, c, ops) :: rest =>
    widths_okb seqs st a && widths_okb seqs st b &&
    negb (Nat.eqb (length (members st a)) 0) && negb (Nat.eqb (length (members st b)) 0) &&
    ops_fitb (map op_kind ops) (width_of seqs st a) (width_of seqs st b) &&
    fits_runb (merge_step st a b c ops) rest
  end.

Lemma merge_step_sip_length st a b c ops : length (w_sip (merge_step st a b c ops)) = length (w_sip st).
Proof. unfold merge_step. cbn [w_sip]. apply set_nth_length. Qed.

Lemma valid_of_sched : forall tasks st act,
  sched_ok act (map strip tasks) ->
  Forall (fun x => tc (strip x) < length (w_sip st)) tasks ->
  fits_runb st tasks = true ->
  valid_runb seqs st act tasks = true.
Proof.
  induction tasks as [|[[[a b] c] ops] rest IH]; intros st act Hs Hc Hf; [reflexivity|].
  cbn [map strip fst sched_ok] in Hs. destruct Hs as (Ha & Hb & Hab & Hnc & Hrest).
  inversion Hc as [|? ? Hc1 Hc2]; subst. unfold tc, strip in Hc1. cbn [fst snd] in Hc1.
  cbn [fits_runb] in Hf. repeat (apply andb_true_iff in Hf as [Hf ?]).
  cbn [valid_runb].
  assert (negb (Nat.eqb a b) = true) as E1 by (apply negb_true_iff; apply Nat.eqb_neq; exact Hab).
  assert (negb (memb c act) = true) as E2 by (apply negb_true_iff; destruct (memb c act) eqn:E; [apply memb_In in E; contradiction|reflexivity]).
  assert (Nat.ltb c (length (w_sip st)) = true) as E3 by (apply Nat.ltb_lt; exact Hc1).
  rewrite (proj2 (memb_In a act) Ha), (proj2 (memb_In b act) Hb), E1, E2, E3.
  repeat match goal with Q : _ = true |- _ => rewrite Q; clear Q end. cbn [andb].
  apply IH; [exact Hrest| |assumption].
  eapply Forall_impl; [|exact Hc2]. cbn beta. intros x Hx. rewrite merge_step_sip_length. exact Hx.
Qed.

Lemma act_final_acts : forall tasks act,
  act_final act tasks = fold_left (fun act x => act_after act (fst (fst x)) (snd (fst x)) (snd x)) (map strip tasks) act.
Proof.
  induction tasks as [|[[[a b] c] ops] rest IH]; intros act; [reflexivity|]. cbn [act_final map strip fst snd fold_left]. apply IH.
Qed.
End TA.

(* ---- what remains active at the end of the schedule of a guide tree: the root and nothing else ---- *)
Lemma label_bound t : forall next, snd (label t next) = next + (length (leaves t) - 1) /\ 1 <= length (leaves t).
Proof.
  induction t as [i|l IHl r IHr]; intros next; [cbn; lia|].
  cbn [label]. destruct (IHl next) as (A & A'). destruct (label l next) as [l' n1]. destruct (IHr n1) as (B & B'). destruct (label r n1) as [r' n2].
  cbn [fst snd leaves] in *. rewrite app_length. lia.
Qed.

Lemma remove_nodup x l : NoDup l -> NoDup (remove Nat.eq_dec x l).
Proof.
  induction 1 as [|y l Hy Hl IH]; cbn [remove]; [constructor|]. destruct (Nat.eq_dec x y); [exact IH|].
  constructor; [|exact IH]. intros Q. apply in_remove in Q as [Q _]. contradiction.
Qed.
Lemma act_after_nodup act a b c : NoDup act -> ~ In c act -> NoDup (act_after act a b c).
Proof.
  intros H Hc. unfold act_after. constructor.
  - intros Q. apply in_remove in Q as [Q _]. apply in_remove in Q as [Q _]. contradiction.
  - apply remove_nodup. apply remove_nodup. exact H.
Qed.

Lemma sorted_split_pre : forall pre x post, Sorted.StronglySorted tle (pre ++ x :: post) -> Forall (fun y => tc y <= tc x) pre.
Proof.
  induction pre as [|p pre IH]; intros x post H; [constructor|]. cbn [app] in H. apply Sorted.StronglySorted_inv in H as (Hs & Hf).
  constructor; [|exact (IH _ _ Hs)]. rewrite Forall_forall in Hf. apply (Hf x). apply in_or_app. right. left. reflexivity.
Qed.

Lemma result_above_operands : forall t n, (forall i, In i (leaves t) -> i < n) ->
  forall pre a b c post, sort_tasks (tasks_of (fst (label t n))) = pre ++ (a, b, c) :: post ->
  a < c /\ b < c /\ forall x y z, In (x, y, z) pre -> x < c /\ y < c.
Proof.
  intros t n Hlt pre a b c post E.
  pose proof (sort_tasks_perm (tasks_of (fst (label t n)))) as HP. rewrite E in HP.
  pose proof (sort_tasks_sorted (tasks_of (fst (label t n)))) as HS. rewrite E in HS.
  pose proof (label_order t n Hlt) as Hord. rewrite Forall_forall in Hord.
  assert (forall q, In q (pre ++ (a, b, c) :: post) -> fst (fst q) < tc q /\ snd (fst q) < tc q) as Hq.
  { intros q Hin. apply (Permutation_in _ HP) in Hin. destruct (Hord _ Hin) as (? & ? & _). split; assumption. }
  destruct (Hq (a, b, c)) as (A & B); [apply in_or_app; right; left; reflexivity|]. unfold tc in A, B. cbn [fst snd] in A, B.
  split; [exact A|split; [exact B|]]. intros x y z Hin.
  destruct (Hq (x, y, z)) as (X & Y); [apply in_or_app; left; exact Hin|]. unfold tc in X, Y. cbn [fst snd] in X, Y.
  pose proof (sorted_split_pre _ _ _ HS) as Hpre. rewrite Forall_forall in Hpre. specialize (Hpre _ Hin). unfold tc in Hpre. cbn [snd] in Hpre. lia.
Qed.

Lemma singleton_list (l : list nat) r : NoDup l -> In r l -> (forall x, In x l -> x = r) -> l = [r].
Proof.
  intros Hnd Hr Hall. destruct l as [|x l]; [destruct Hr|]. assert (x = r) as -> by (apply Hall; left; reflexivity).
  destruct l as [|y l]; [reflexivity|]. exfalso. assert (y = r) as -> by (apply Hall; right; left; reflexivity).
  inversion Hnd as [|? ? Hn _]; subst. apply Hn. left. reflexivity.
Qed.

Theorem tree_final_act : forall t n,
  NoDup (leaves t) -> (forall i, In i (leaves t) <-> i < n) ->
  acts n (sort_tasks (tasks_of (fst (label t n)))) = [lid (fst (label t n))].
Proof.
  intros t n Hnd Hlv. assert (forall i, In i (leaves t) -> i < n) as Hlt by (intros i; apply Hlv).
  pose proof (tree_schedule_respects_dependencies t n Hnd Hlt) as D.
  pose proof (result_above_operands t n Hlt) as R.
  pose proof (tree_schedule_is_complete t n Hnd Hlt) as (_ & HC). cbn zeta in HC.
  set (lt := fst (label t n)) in *. set (L := sort_tasks (tasks_of lt)) in *.
  assert (forall pre post, L = pre ++ post -> NoDup (acts n pre) /\ forall x, In x (acts n pre) -> ~ In x (kids pre)) as G.
  { induction pre as [|[[a b] c] pre IH] using rev_ind; intros post E.
    - split; [unfold acts; cbn; apply seq_NoDup|intros x _ []].
    - rewrite <- app_assoc in E. cbn [app] in E. destruct (IH _ E) as (IH1 & IH2).
      destruct (D pre a b c post E) as (_ & _ & _ & Dc & Dpre). destruct (R pre a b c post E) as (Ra & Rb & Rpre).
      rewrite acts_snoc. split.
      + apply act_after_nodup; [exact IH1|]. intros Q. apply acts_only in Q as [Q|Q]; [lia|].
        apply in_map_iff in Q as ([[x y] z] & Ez & Hx). unfold tc in Ez. cbn in Ez. subst z. destruct (Dpre _ _ _ Hx) as (F & _). apply F. reflexivity.
      + intros x Hx. rewrite kids_app. cbn. intros Q. apply in_act_after in Hx as [->|(Hx & Hxa & Hxb)].
        * apply in_app_or in Q as [Q|[Q|[Q|[]]]]; [|lia|lia]. unfold kids in Q. apply in_flat_map in Q as ([[x y] z] & Hin & Hq).
          destruct (Rpre _ _ _ Hin). cbn in Hq. destruct Hq as [Hq|[Hq|[]]]; lia.
        * apply in_app_or in Q as [Q|[Q|[Q|[]]]]; [exact (IH2 _ Hx Q)|congruence|congruence]. }
  destruct (G L [] (eq_sym (app_nil_r L))) as (G1 & G2).
  assert (NoDup (lid lt :: kids L)) as Hrk.
  { assert (NoDup (ids lt)) as Hids by (apply label_nodup; assumption).
    apply (Permutation_NoDup (Permutation_sym (root_kids_perm lt))) in Hids.
    eapply Permutation_NoDup; [|exact Hids]. constructor. unfold kids. apply Permutation_flat_map. apply Permutation_sym. apply sort_tasks_perm. }
  apply singleton_list; [exact G1| |].
  - apply acts_in.
    + assert (In (lid lt) (leaves t ++ map tc L)) as Q by (apply (Permutation_in _ HC); left; reflexivity).
      apply in_app_or in Q as [Q|Q]; [left; apply Hlt; exact Q|right; exact Q].
    + inversion Hrk; assumption.
  - intros x Hx. pose proof (G2 _ Hx) as Hk.
    assert (In x (leaves t ++ map tc L)) as Q.
    { apply in_or_app. destruct (acts_only _ _ _ Hx) as [Q|Q]; [left; apply Hlv; exact Q|right; exact Q]. }
    apply (Permutation_in _ (Permutation_sym HC)) in Q. destruct Q as [Q|Q]; [symmetry; exact Q|contradiction].
Qed.

(* ---- C01 for every guide tree: only "the ops of every merge fit" is left as a premise ---- *)
Theorem assembly_integrity_any_tree : forall seqs,
  Forall (Forall (fun c => c <> dash)) seqs ->
  forall t, NoDup (leaves t) -> (forall i, In i (leaves t) <-> i < length seqs) ->
  forall tasks,
  map strip tasks = sort_tasks (tasks_of (fst (label t (length seqs)))) ->
  fits_runb seqs (st0 seqs) tasks = true ->
  let final := run_from (st0 seqs) tasks in
  (forall i, i < length seqs -> degap (row_of seqs final i) = nth i seqs []) /\
  exists w, (forall i, i < length seqs -> length (row_of seqs final i) = w) /\
            (forall j, j < w -> exists i, i < length seqs /\ nth j (row_of seqs final i) dash <> dash).
Proof.
  intros seqs Hd t Hnd Hlv tasks Hs Hf final.
  assert (forall i, In i (leaves t) -> i < length seqs) as Hlt by (intros i; apply Hlv).
  assert (valid_runb seqs (st0 seqs) (seq 0 (length seqs)) tasks = true) as Hv.
  { apply valid_of_sched; [rewrite Hs; apply tree_schedule_ok; assumption| |exact Hf].
    rewrite st0_sip_length.
    assert (Forall (fun q => tc q < length seqs + (length seqs - 1)) (map strip tasks)) as Hb.
    { rewrite Hs. apply sort_tasks_Forall. pose proof (tasks_in (fst (label t (length seqs)))) as Hin.
      eapply Forall_impl; [|exact Hin]. intros [[a b] c] (_ & _ & Hc). unfold tc. cbn [snd].
      pose proof (label_spec t (length seqs)) as (_ & H2 & _). pose proof (label_bound t (length seqs)) as (Hb1 & Hb2).
      assert (length (leaves t) <= length seqs) as Hle.
      { apply NoDup_incl_length with (l' := seq 0 (length seqs)) in Hnd; [rewrite seq_length in Hnd; exact Hnd|].
        intros i Hi. apply in_seq. specialize (Hlt _ Hi). lia. }
      destruct (H2 _ Hc) as [Q|Q]; [specialize (Hlt _ Q); lia|lia]. }
    rewrite Forall_map in Hb. exact Hb. }
  pose proof (assembly_integrity seqs Hd tasks Hv) as (A1 & A2). split; [exact A1|].
  apply (A2 (lid (fst (label t (length seqs))))).
  rewrite act_final_acts, Hs. apply tree_final_act; assumption.
Qed.
