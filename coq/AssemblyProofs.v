(* The whole progressive assembly: invariants of a valid run (coverage, equal widths, no
   all-gap column), the boolean validity checker and its soundness, the initial state. *)
From KV Require Import Base Weave WeaveProofs WeaveCheck.
Local Open Scope nat_scope.

Lemma weave_col : forall ops j, j < length ops -> cnt is_NONE ops = 0 ->
  (exists ja, ja < cnt is_M ops + cnt is_GB ops /\
     forall row, length row = cnt is_M ops + cnt is_GB ops -> nth j (weave_a ops row) dash = nth ja row dash) \/
  (exists jb, jb < cnt is_M ops + cnt is_GA ops /\
     forall row, length row = cnt is_M ops + cnt is_GA ops -> nth j (weave_b ops row) dash = nth jb row dash).
Proof.
  unfold cnt.
  induction ops as [|o ops IH]; intros j Hj HN; [simpl in Hj; lia|].
  destruct o; cbn [filter is_M is_GA is_GB is_NONE length] in *; try lia.
  - (* match *)
    destruct j as [|j].
    + left. exists 0. split; [lia|]. intros [|x r] Hr; [simpl in Hr; lia|reflexivity].
    + destruct (IH j ltac:(lia) HN) as [(ja & Hja & Ha)|(jb & Hjb & Hb)].
      * left. exists (S ja). split; [lia|]. intros [|x r] Hr; [simpl in Hr; lia|].
        cbn [weave_a nth]. apply Ha. simpl in Hr. lia.
      * right. exists (S jb). split; [lia|]. intros [|x r] Hr; [simpl in Hr; lia|].
        cbn [weave_b nth]. apply Hb. simpl in Hr. lia.
  - (* gap in a: the column comes from b *)
    destruct j as [|j].
    + right. exists 0. split; [lia|]. intros [|x r] Hr; [simpl in Hr; lia|reflexivity].
    + destruct (IH j ltac:(lia) HN) as [(ja & Hja & Ha)|(jb & Hjb & Hb)].
      * left. exists ja. split; [lia|]. intros row Hr. cbn [weave_a nth]. apply Ha. lia.
      * right. exists (S jb). split; [lia|]. intros [|x r] Hr; [simpl in Hr; lia|].
        cbn [weave_b nth]. apply Hb. simpl in Hr. lia.
  - (* gap in b: the column comes from a *)
    destruct j as [|j].
    + left. exists 0. split; [lia|]. intros [|x r] Hr; [simpl in Hr; lia|reflexivity].
    + destruct (IH j ltac:(lia) HN) as [(ja & Hja & Ha)|(jb & Hjb & Hb)].
      * left. exists (S ja). split; [lia|]. intros [|x r] Hr; [simpl in Hr; lia|].
        cbn [weave_a nth]. apply Ha. simpl in Hr. lia.
      * right. exists jb. split; [lia|]. intros row Hr. cbn [weave_b nth]. apply Hb. lia.
Qed.

Section Run.
Variable seqs : list (list Z).
Notation n := (length seqs).

(* every column of an active group holds at least one residue *)
Definition no_allgap (st : wstate) (x w : nat) : Prop :=
  forall j, j < w -> exists i, In i (members st x) /\ nth j (row_of seqs st i) dash <> dash.

Record Inv2 (st : wstate) (act : list nat) : Prop := {
  inv2_inv : Inv seqs st act;
  inv2_cover : forall i, i < n -> exists x, In x act /\ In i (members st x);
  inv2_width : forall x, In x act -> exists w, width_ok seqs st x w /\ no_allgap st x w
}.

Lemma merge_step_inv2 st act a b c ops wa wb :
  Inv2 st act -> In a act -> In b act -> a <> b -> ~ In c act -> c < length (w_sip st) ->
  width_ok seqs st a wa -> width_ok seqs st b wb -> ops_fit (map op_kind ops) wa wb ->
  members st a <> [] -> members st b <> [] ->
  Inv2 (merge_step st a b c ops) (act_after act a b c).
Proof.
  intros [HI Hcov Hw] Ha Hb Hab Hc Hcl Wa Wb Hfit Hna Hnb.
  pose proof (merge_step_inv seqs st act a b c ops wa wb HI Ha Hb Hab Hc Hcl Wa Wb Hfit) as HI'.
  pose proof (merge_step_width seqs st act a b c ops wa wb HI Ha Hb Hab Hc Hcl Wa Wb Hfit) as Wc.
  pose proof HI as [Hlen Hglen Hmem Hdisj].
  pose proof Hfit as (F1 & F2 & F3).
  assert (c <> a) as Hca by (intro; subst; auto).
  assert (c <> b) as Hcb by (intro; subst; auto).
  constructor; auto.
  - intros j Hj. destruct (Hcov j Hj) as (x & Hx & Hjx).
    destruct (Nat.eq_dec x a) as [->|Hxa]; [|destruct (Nat.eq_dec x b) as [->|Hxb]].
    + exists c. split; [apply in_act_after; auto|].
      rewrite members_step_c by assumption. apply in_or_app. left. apply -> in_rev. exact Hjx.
    + exists c. split; [apply in_act_after; auto|].
      rewrite members_step_c by assumption. apply in_or_app. right. apply -> in_rev. exact Hjx.
    + exists x. split; [apply in_act_after; auto|].
      rewrite members_step_other; auto. intro; subst; auto.
  - intros x Hx. apply in_act_after in Hx as [->|(Hx & Hxa & Hxb)].
    + exists (length ops). split; [exact Wc|].
      intros j Hj.
      destruct (Hw a Ha) as (wa' & Wa' & NGa). destruct (Hw b Hb) as (wb' & Wb' & NGb).
      assert (wa' = wa) as ->.
      { destruct (members st a) as [|i0 l] eqn:E; [contradiction|].
        rewrite <- (Wa i0), <- (Wa' i0); auto; rewrite E; simpl; auto. }
      assert (wb' = wb) as ->.
      { destruct (members st b) as [|i0 l] eqn:E; [contradiction|].
        rewrite <- (Wb i0), <- (Wb' i0); auto; rewrite E; simpl; auto. }
      destruct (weave_col (map op_kind ops) j ltac:(rewrite map_length; exact Hj) F3)
        as [(ja & Hja & Hcol)|(jb & Hjb & Hcol)].
      * destruct (NGa ja ltac:(lia)) as (i & Hi & Hne).
        exists i. split.
        -- rewrite members_step_c by assumption. apply in_or_app. left. apply -> in_rev. exact Hi.
        -- rewrite (merge_step_rows seqs st act a b c ops wa wb); eauto.
           rewrite (proj2 (memb_In i (members st a)) Hi).
           rewrite Hcol; auto. rewrite (Wa i Hi). lia.
      * destruct (NGb jb ltac:(lia)) as (i & Hi & Hne).
        exists i. split.
        -- rewrite members_step_c by assumption. apply in_or_app. right. apply -> in_rev. exact Hi.
        -- rewrite (merge_step_rows seqs st act a b c ops wa wb); eauto.
           assert (memb i (members st a) = false) as ->.
           { destruct (memb i (members st a)) eqn:E; auto. apply memb_In in E. exfalso. apply Hab. eapply Hdisj; eauto. }
           rewrite (proj2 (memb_In i (members st b)) Hi).
           rewrite Hcol; auto. rewrite (Wb i Hi). lia.
    + assert (x <> c) as Hxc by (intro; subst; auto).
      destruct (Hw x Hx) as (w & Wx & NGx). exists w. split.
      * intros i Hi. rewrite members_step_other in Hi by auto.
        rewrite (merge_step_row_other seqs st act a b c ops wa wb x i); auto.
      * intros j Hj. destruct (NGx j Hj) as (i & Hi & Hne). exists i. split.
        -- rewrite members_step_other; auto.
        -- rewrite (merge_step_row_other seqs st act a b c ops wa wb x i); auto.
Qed.

(* ---- executable validity check of a task list against the evolving state ---- *)
Definition width_of (st : wstate) (x : nat) : nat :=
  match members st x with i :: _ => length (row_of seqs st i) | [] => 0 end.
Definition widths_okb (st : wstate) (x : nat) : bool :=
  forallb (fun i => Nat.eqb (length (row_of seqs st i)) (width_of st x)) (members st x).

Fixpoint valid_runb (st : wstate) (act : list nat) (tasks : list task) : bool :=
  match tasks with
  | [] => true
  | (a, b, c, ops) :: rest =>
    memb a act && memb b act && negb (Nat.eqb a b) && negb (memb c act) && Nat.ltb c (length (w_sip st)) &&
    widths_okb st a && widths_okb st b &&
    negb (Nat.eqb (length (members st a)) 0) && negb (Nat.eqb (length (members st b)) 0) &&
    ops_fitb (map op_kind ops) (width_of st a) (width_of st b) &&
    valid_runb (merge_step st a b c ops) (act_after act a b c) rest
  end.

Fixpoint act_final (act : list nat) (tasks : list task) : list nat :=
  match tasks with
  | [] => act
  | (a, b, c, _) :: rest => act_final (act_after act a b c) rest
  end.

Lemma widths_okb_ok st x : widths_okb st x = true -> width_ok seqs st x (width_of st x).
Proof.
  unfold widths_okb, width_ok. rewrite forallb_forall. intros H i Hi.
  apply Nat.eqb_eq. apply H; auto.
Qed.

Lemma valid_runb_ok : forall tasks st act, valid_runb st act tasks = true -> valid_run seqs st act tasks.
Proof.
  induction tasks as [|[[[a b] c] ops] rest IH]; intros st act H; [constructor|].
  cbn [valid_runb] in H.
  repeat (apply andb_true_iff in H as [H ?]).
  apply memb_In in H.
  repeat match goal with
  | E : memb _ _ = true |- _ => apply memb_In in E
  | E : negb (Nat.eqb _ _) = true |- _ => apply negb_true_iff in E; apply Nat.eqb_neq in E
  | E : negb (memb _ _) = true |- _ => apply negb_true_iff in E
  | E : Nat.ltb _ _ = true |- _ => apply Nat.ltb_lt in E
  | E : widths_okb _ _ = true |- _ => apply widths_okb_ok in E
  | E : ops_fitb _ _ _ = true |- _ => apply ops_fitb_ok in E
  end.
  econstructor; eauto.
  intro Hin. apply memb_In in Hin. congruence.
Qed.

(* a valid run keeps the strong invariant *)
Lemma valid_runb_inv2 : forall tasks st act,
  Inv2 st act -> valid_runb st act tasks = true ->
  Inv2 (run_from st tasks) (act_final act tasks).
Proof.
  induction tasks as [|[[[a b] c] ops] rest IH]; intros st act HI H; [exact HI|].
  cbn [valid_runb] in H.
  repeat (apply andb_true_iff in H as [H ?]).
  apply memb_In in H.
  repeat match goal with
  | E : memb _ _ = true |- _ => apply memb_In in E
  | E : negb (Nat.eqb _ _) = true |- _ => apply negb_true_iff in E; apply Nat.eqb_neq in E
  | E : negb (memb _ _) = true |- _ => apply negb_true_iff in E
  | E : Nat.ltb _ _ = true |- _ => apply Nat.ltb_lt in E
  | E : widths_okb _ _ = true |- _ => apply widths_okb_ok in E
  | E : ops_fitb _ _ _ = true |- _ => apply ops_fitb_ok in E
  end.
  cbn [run_from fold_left act_final]. fold (run_from (merge_step st a b c ops) rest).
  apply IH; auto.
  eapply merge_step_inv2; eauto.
  - intro Hin. apply memb_In in Hin. congruence.
  - intro E. rewrite E in *. simpl in *. congruence.
  - intro E. rewrite E in *. simpl in *. congruence.
Qed.

(* ---- the initial state ---- *)
Hypothesis seqs_nodash : Forall (Forall (fun c => c <> dash)) seqs.
Hypothesis seqs_nonempty : Forall (fun s => s <> []) seqs.

Definition st0 : wstate := init_wstate (map (@length Z) seqs).

Lemma expand_zero : forall res, expand (repeat 0 (S (length res))) res = res.
Proof.
  induction res as [|r res IH]; [reflexivity|].
  change (repeat 0 (S (length (r :: res)))) with (0 :: repeat 0 (S (length res))).
  rewrite expand_cons_cons, IH. reflexivity.
Qed.

Lemma nth_map_in {A B} (f : A -> B) : forall l i d d', i < length l -> nth i (map f l) d' = f (nth i l d).
Proof. induction l as [|x l IH]; intros [|i] d d' H; simpl in *; try lia; auto. apply IH. lia. Qed.

Lemma st0_gaps_nth i : i < n -> nth i (w_gaps st0) [] = repeat 0 (S (length (nth i seqs []))).
Proof.
  intro Hi. unfold st0, init_wstate. cbn [w_gaps].
  rewrite (nth_map_in _ _ i 0) by (rewrite map_length; exact Hi).
  rewrite (nth_map_in _ _ i []) by exact Hi. reflexivity.
Qed.

Lemma st0_members x : x < n -> members st0 x = [x].
Proof.
  intro Hx. unfold members, st0, init_wstate. cbn [w_sip]. rewrite map_length.
  rewrite app_nth1 by (rewrite map_length, seq_length; exact Hx).
  rewrite (nth_map_in _ _ x 0) by (rewrite seq_length; exact Hx).
  rewrite seq_nth by exact Hx. reflexivity.
Qed.

Lemma st0_row i : i < n -> row_of seqs st0 i = nth i seqs [].
Proof. intro Hi. unfold row_of. rewrite st0_gaps_nth by exact Hi. apply expand_zero. Qed.

Lemma st0_sip_length : length (w_sip st0) = n + (n - 1).
Proof. unfold st0, init_wstate. cbn [w_sip]. rewrite app_length, !map_length, seq_length, repeat_length. reflexivity. Qed.

Lemma st0_inv2 : Inv2 st0 (seq 0 n).
Proof.
  constructor; [constructor|..].
  - unfold st0, init_wstate. cbn [w_gaps]. rewrite !map_length. reflexivity.
  - intros i Hi. rewrite st0_gaps_nth by exact Hi. apply repeat_length.
  - intros x i Hx Hin. apply in_seq in Hx. rewrite st0_members in Hin by lia.
    destruct Hin as [<-|[]]. lia.
  - intros x y i Hx Hy Hix Hiy. apply in_seq in Hx, Hy.
    rewrite st0_members in Hix, Hiy by lia.
    destruct Hix as [<-|[]]. destruct Hiy as [<-|[]]. reflexivity.
  - intros i Hi. exists i. split; [apply in_seq; lia|]. rewrite st0_members by exact Hi. simpl; auto.
  - intros x Hx. apply in_seq in Hx. exists (length (nth x seqs [])). split.
    + intros i Hin. rewrite st0_members in Hin by lia. destruct Hin as [<-|[]].
      rewrite st0_row by lia. reflexivity.
    + intros j Hj. exists x. split; [rewrite st0_members by lia; simpl; auto|].
      rewrite st0_row by lia.
      rewrite Forall_forall in seqs_nodash.
      assert (In (nth x seqs []) seqs) as Hin by (apply nth_In; lia).
      specialize (seqs_nodash _ Hin). rewrite Forall_forall in seqs_nodash.
      apply seqs_nodash. apply nth_In. exact Hj.
Qed.

Lemma degap_id (s : list Z) : Forall (fun c => c <> dash) s -> degap s = s.
Proof.
  induction 1 as [|c s Hc Hs IH]; [reflexivity|].
  rewrite degap_cons. unfold is_dash. destruct (Z.eqb_spec c dash); [contradiction|]. simpl. rewrite IH. reflexivity.
Qed.

(* C01, assembly layer.  For every task list that is valid for the evolving state (any binary
   tree in any child-before-parent order, any fitting ops): every row keeps exactly its residues;
   and when a single group remains, all rows have one length and no column is all gaps. *)
Theorem assembly_integrity : forall tasks,
  valid_runb st0 (seq 0 n) tasks = true ->
  let final := run_from st0 tasks in
  (forall i, i < n -> degap (row_of seqs final i) = nth i seqs []) /\
  (forall r, act_final (seq 0 n) tasks = [r] ->
     exists w, (forall i, i < n -> length (row_of seqs final i) = w) /\
               (forall j, j < w -> exists i, i < n /\ nth j (row_of seqs final i) dash <> dash)).
Proof.
  intros tasks Hv final. pose proof st0_inv2 as HI0.
  pose proof (valid_runb_ok tasks st0 (seq 0 n) Hv) as HV.
  split.
  - intros i Hi. unfold final.
    rewrite (run_preserves_residues seqs tasks st0 (seq 0 n)); auto.
    + rewrite st0_row by exact Hi. apply degap_id.
      rewrite Forall_forall in seqs_nodash. apply seqs_nodash. apply nth_In. exact Hi.
    + apply HI0.
    + apply HI0.
  - intros r Hr. pose proof (valid_runb_inv2 tasks st0 (seq 0 n) HI0 Hv) as [HIf Hcov Hw].
    fold final in HIf, Hcov, Hw. rewrite Hr in *.
    destruct (Hw r ltac:(simpl; auto)) as (w & Ww & NG).
    exists w. split.
    + intros i Hi. destruct (Hcov i Hi) as (x & [<-|[]] & Hin). apply Ww. exact Hin.
    + intros j Hj. destruct (NG j Hj) as (i & Hin & Hne). exists i. split; auto.
      destruct HIf as [_ _ Hmem _]. eapply Hmem; [|exact Hin]. simpl; auto.
Qed.

End Run.
