(* C11: the one-word bit-parallel routine computes the column DP (Myers 1999 / Hyyro 2001), proved
   bit by bit: (A) the cell function on delta encodings, (B) a row-serial column step and its relation
   to the column DP next_col, (C) the word-level formulas of bpm() equal the row-serial step - the
   adder's carry chain IS the chain of "horizontal delta = -1" -, (D) the invariant over the text. *)
From Coq Require Import ZArith List Bool Lia.
From KV Require Import Base Bpm BpmBits.
Import ListNotations.
Local Open Scope Z_scope.

(* ---- (A) one cell ------------------------------------------------------------------------------------- *)
Definition dv (p n : bool) : Z := b2z p - b2z n.

(* e: p_i = t_j; (vp, vn): old vertical delta D[i][j-1]-D[i-1][j-1]; (hp, hn): horizontal delta of the row above
   D[i-1][j]-D[i-1][j-1].  Returns ((new vertical delta), (horizontal delta of this row)). *)
Definition cellf (e vp vn hp hn : bool) : (bool * bool) * (bool * bool) :=
  let d0 := e || vn || hn in
  ((hn || negb (d0 || hp), hp && d0), (vn || negb (d0 || vp), vp && d0)).

Lemma cell_spec : forall (e vp vn hp hn : bool) (a : Z), vp && vn = false -> hp && hn = false ->
  let up := a + dv vp vn in
  let l := a + dv hp hn in
  let d := Z.min (Z.min (a + (if e then 0 else 1)) (up + 1)) (l + 1) in
  let r := cellf e vp vn hp hn in
  fst (fst r) && snd (fst r) = false /\ fst (snd r) && snd (snd r) = false /\
  dv (fst (fst r)) (snd (fst r)) = d - l /\ dv (fst (snd r)) (snd (snd r)) = d - up.
Proof.
  intros e vp vn hp hn a V H.
  destruct e, vp, vn, hp, hn; try discriminate; cbn; unfold dv, b2z; repeat split; lia.
Qed.

(* ---- (B) a column, row by row ---------------------------------------------------------------------------- *)
Fixpoint serial (eqs vps vns : list bool) (hp hn : bool) : (list bool * list bool) * (list bool * list bool) :=
  match eqs, vps, vns with
  | e :: eqs', vp :: vps', vn :: vns' =>
    let r := cellf e vp vn hp hn in
    let rest := serial eqs' vps' vns' (fst (snd r)) (snd (snd r)) in
    ((fst (fst r) :: fst (fst rest), snd (fst r) :: snd (fst rest)),
     (fst (snd r) :: fst (snd rest), snd (snd r) :: snd (snd rest)))
  | _, _, _ => (([], []), ([], []))
  end.

(* column values from the value above the first row and the vertical deltas *)
Fixpoint vals (a : Z) (vps vns : list bool) : list Z :=
  match vps, vns with
  | vp :: vps', vn :: vns' => (a + dv vp vn) :: vals (a + dv vp vn) vps' vns'
  | _, _ => []
  end.
Fixpoint valid (ps ns : list bool) : Prop :=
  match ps, ns with
  | p :: ps', n :: ns' => p && n = false /\ valid ps' ns'
  | _, _ => True
  end.
Fixpoint zipdv (ps ns : list bool) : list Z :=
  match ps, ns with p :: ps', n :: ns' => dv p n :: zipdv ps' ns' | _, _ => [] end.
Fixpoint zipsub (a b : list Z) : list Z :=
  match a, b with x :: a', y :: b' => (x - y) :: zipsub a' b' | _, _ => [] end.

Lemma serial_next_col : forall c p vps vns hp hn diag,
  length vps = length p -> length vns = length p -> valid vps vns -> hp && hn = false ->
  let r := serial (map (fun pi => pi =? c) p) vps vns hp hn in
  let new := next_col c p (vals diag vps vns) diag (diag + dv hp hn) in
  new = vals (diag + dv hp hn) (fst (fst r)) (snd (fst r)) /\
  valid (fst (fst r)) (snd (fst r)) /\
  zipdv (fst (snd r)) (snd (snd r)) = zipsub new (vals diag vps vns) /\
  length (fst (fst r)) = length p /\ length (snd (fst r)) = length p /\
  length (fst (snd r)) = length p /\ length (snd (snd r)) = length p.
Proof.
  intros c p. induction p as [|pi p IH]; intros vps vns hp hn diag L1 L2 V H.
  - destruct vps; [|discriminate]. destruct vns; [|discriminate]. cbn. repeat split; reflexivity.
  - destruct vps as [|vp vps]; [discriminate|]. destruct vns as [|vn vns]; [discriminate|].
    cbn [length] in L1, L2. injection L1 as L1. injection L2 as L2. destruct V as [V0 V].
    cbn [map serial vals next_col].
    pose proof (cell_spec (pi =? c) vp vn hp hn diag V0 H) as (C1 & C2 & C3 & C4).
    set (r0 := cellf (pi =? c) vp vn hp hn) in *.
    set (up := diag + dv vp vn) in *.
    set (d := Z.min (Z.min (diag + (if pi =? c then 0 else 1)) (up + 1)) (diag + dv hp hn + 1)) in *.
    specialize (IH vps vns (fst (snd r0)) (snd (snd r0)) up L1 L2 V C2).
    cbn zeta in IH.
    assert (E : up + dv (fst (snd r0)) (snd (snd r0)) = d) by lia.
    rewrite E in IH. destruct IH as (I1 & I2 & I3 & I4 & I5 & I6 & I7).
    cbn [fst snd].
    split; [|split; [|split; [|split; [|split; [|split]]]]].
    + cbn [vals]. rewrite I1. f_equal; [lia|]. f_equal. lia.
    + cbn [valid]. split; assumption.
    + cbn [zipdv zipsub]. rewrite I3. f_equal. exact C4.
    + cbn [length]. f_equal. exact I4.
    + cbn [length]. f_equal. exact I5.
    + cbn [length]. f_equal. exact I6.
    + cbn [length]. f_equal. exact I7.
Qed.

(* rows are processed top-down: the first k rows do not depend on the rows below *)
Lemma serial_firstn : forall k eqs vps vns hp hn,
  let r := serial eqs vps vns hp hn in
  serial (firstn k eqs) (firstn k vps) (firstn k vns) hp hn =
  ((firstn k (fst (fst r)), firstn k (snd (fst r))), (firstn k (fst (snd r)), firstn k (snd (snd r)))).
Proof.
  induction k as [|k IH]; intros eqs vps vns hp hn; [reflexivity|].
  destruct eqs as [|e eqs]; [reflexivity|]. destruct vps as [|vp vps]; [reflexivity|]. destruct vns as [|vn vns]; [reflexivity|].
  cbn [firstn serial fst snd]. rewrite IH. reflexivity.
Qed.

(* ---- (C) the word-level formulas are the row-serial step --------------------------------------------------- *)
Definition word_step (Eq VP VN : word) (cin hpin hnin : bool) : (word * word) * (word * word) :=
  let X := wor Eq VN in
  let D0 := wor (wxor (wadd_c VP (wand X VP) cin) VP) X in
  let HN := wand VP D0 in
  let HP := wor VN (wnotb (wor VP D0)) in
  let X1 := wshl_in HP hpin in
  let VN' := wand X1 D0 in
  let VP' := wor (wshl_in HN hnin) (wnotb (wor X1 D0)) in
  ((VP', VN'), (HP, HN)).

Lemma word_step_cons e Eq vp VP vn VN cin hpin hnin :
  word_step (e :: Eq) (vp :: VP) (vn :: VN) cin hpin hnin =
  let x := e || vn in
  let d0 := xorb (xorb (xorb vp (x && vp)) cin) vp || x in
  let hn := vp && d0 in
  let hp := vn || negb (vp || d0) in
  let rest := word_step Eq VP VN (maj vp (x && vp) cin) hp hn in
  (((hnin || negb (hpin || d0)) :: fst (fst rest), (hpin && d0) :: snd (fst rest)),
   (hp :: fst (snd rest), hn :: snd (snd rest))).
Proof. reflexivity. Qed.

Lemma word_step_serial : forall Eq VP VN hpin hnin, length VP = length Eq -> length VN = length Eq ->
  valid VP VN -> word_step Eq VP VN hnin hpin hnin = serial Eq VP VN hpin hnin.
Proof.
  induction Eq as [|e Eq IH]; intros VP VN hpin hnin L1 L2 V.
  - destruct VP; [|discriminate]. destruct VN; [|discriminate]. reflexivity.
  - destruct VP as [|vp VP]; [discriminate|]. destruct VN as [|vn VN]; [discriminate|].
    cbn [length] in L1, L2. injection L1 as L1. injection L2 as L2. destruct V as [V0 V].
    rewrite word_step_cons. cbn zeta. cbn [serial].
    (* with the adder's carry-in equal to the hn input: d0, hp, hn and the carry-out are the cell function's *)
    assert (D0 : xorb (xorb (xorb vp ((e || vn) && vp)) hnin) vp || (e || vn) = e || vn || hnin)
      by (destruct e, vp, vn, hnin; try discriminate; reflexivity).
    rewrite D0.
    assert (CARRY : maj vp ((e || vn) && vp) hnin = vp && (e || vn || hnin))
      by (destruct e, vp, vn, hnin; try discriminate; reflexivity).
    rewrite CARRY.
    unfold cellf. cbn [fst snd].
    replace (vn || negb (vp || (e || vn || hnin))) with (vn || negb (e || vn || hnin || vp))
      by (destruct e, vp, vn, hnin; reflexivity).
    replace (hnin || negb (hpin || (e || vn || hnin))) with (hnin || negb (e || vn || hnin || hpin))
      by (destruct e, vn, hnin, hpin; reflexivity).
    rewrite (IH VP VN (vn || negb (e || vn || hnin || vp)) (vp && (e || vn || hnin)) L1 L2 V).
    reflexivity.
Qed.

(* ---- (D) the text loop ------------------------------------------------------------------------------------- *)
Lemma serial_length : forall eqs vps vns hp hn, length vps = length eqs -> length vns = length eqs ->
  let r := serial eqs vps vns hp hn in
  length (fst (fst r)) = length eqs /\ length (snd (fst r)) = length eqs /\
  length (fst (snd r)) = length eqs /\ length (snd (snd r)) = length eqs.
Proof.
  induction eqs as [|e eqs IH]; intros vps vns hp hn L1 L2.
  - destruct vps; [|discriminate]. destruct vns; [|discriminate]. cbn. auto.
  - destruct vps as [|vp vps]; [discriminate|]. destruct vns as [|vn vns]; [discriminate|].
    cbn [length] in L1, L2. injection L1 as L1. injection L2 as L2.
    cbn [serial fst snd length].
    destruct (IH vps vns (fst (snd (cellf e vp vn hp hn))) (snd (snd (cellf e vp vn hp hn))) L1 L2) as (A & B & C & D).
    cbn zeta in *. rewrite A, B, C, D. auto.
Qed.

Lemma serial_valid : forall eqs vps vns hp hn, valid vps vns -> hp && hn = false ->
  valid (fst (fst (serial eqs vps vns hp hn))) (snd (fst (serial eqs vps vns hp hn))).
Proof.
  induction eqs as [|e eqs IH]; intros vps vns hp hn V H; [exact I|].
  destruct vps as [|vp vps]; [exact I|]. destruct vns as [|vn vns]; [exact I|].
  destruct V as [V0 V]. cbn [serial fst snd valid].
  destruct (cell_spec e vp vn hp hn 0 V0 H) as (C1 & C2 & _). split; [exact C1|]. apply IH; assumption.
Qed.

Lemma eq_rows : forall (c : Z) p,
  map (fun i => match nth_error p i with Some x => x =? c | None => false end) (seq 0 (length p)) = map (fun x => x =? c) p.
Proof.
  intros c p. induction p as [|x p IH]; [reflexivity|].
  cbn [length seq map nth_error]. f_equal. rewrite <- seq_shift, map_map. cbn [nth_error]. exact IH.
Qed.

Lemma firstn_seq0 : forall m k, (m <= k)%nat -> firstn m (seq 0 k) = seq 0 m.
Proof.
  intros m k H. replace k with (m + (k - m))%nat by lia. rewrite seq_app, firstn_app, seq_length.
  replace (m - m)%nat with 0%nat by lia. cbn [firstn]. rewrite app_nil_r.
  rewrite <- (seq_length m 0) at 1. apply firstn_all.
Qed.

Lemma eq_word_firstn c p : (length p <= W)%nat -> firstn (length p) (eq_word c p) = map (fun x => x =? c) p.
Proof.
  intro H. unfold eq_word. rewrite firstn_map, firstn_seq0 by exact H. apply eq_rows.
Qed.

Lemma nth_zipdv : forall ps ns i, (i < length ps)%nat -> length ns = length ps ->
  nth i (zipdv ps ns) 0 = dv (nth i ps false) (nth i ns false).
Proof.
  induction ps as [|p ps IH]; intros ns i Hi L; [simpl in Hi; lia|].
  destruct ns as [|n ns]; [discriminate|]. destruct i; [reflexivity|]. cbn [zipdv nth]. apply IH; simpl in *; lia.
Qed.
Lemma nth_zipsub : forall a b i, (i < length a)%nat -> length b = length a ->
  nth i (zipsub a b) 0 = nth i a 0 - nth i b 0.
Proof.
  induction a as [|x a IH]; intros b i Hi L; [simpl in Hi; lia|].
  destruct b as [|y b]; [discriminate|]. destruct i; [reflexivity|]. cbn [zipsub nth]. apply IH; simpl in *; lia.
Qed.
Lemma last_nth : forall (l : list Z) d, last l d = nth (length l - 1) l d.
Proof.
  induction l as [|x l IH]; intro d; [reflexivity|]. destruct l as [|y l]; [reflexivity|].
  change (last (x :: y :: l) d) with (last (y :: l) d). rewrite IH. cbn [length].
  replace (S (S (length l)) - 1)%nat with (S (length l)) by lia.
  replace (S (length l) - 1)%nat with (length l) by lia. reflexivity.
Qed.
Lemma vals_length : forall vps vns a, length vns = length vps -> length (vals a vps vns) = length vps.
Proof.
  induction vps as [|vp vps IH]; intros vns a L; [reflexivity|]. destruct vns as [|vn vns]; [discriminate|].
  cbn [vals length]. f_equal. apply IH. simpl in L. lia.
Qed.
Lemma valid_firstn : forall k ps ns, valid ps ns -> valid (firstn k ps) (firstn k ns).
Proof.
  induction k as [|k IH]; intros ps ns V; [exact I|]. destruct ps as [|p ps]; [exact I|]. destruct ns as [|n ns]; [exact I|].
  destruct V as [V0 V]. cbn [firstn valid]. split; [exact V0|apply IH; exact V].
Qed.

Lemma nth_firstn_lt {X} : forall k i (l : list X) d, (i < k)%nat -> nth i (firstn k l) d = nth i l d.
Proof.
  induction k as [|k IH]; intros i l d H; [lia|]. destruct l as [|x l]; [destruct i; reflexivity|].
  destruct i; [reflexivity|]. cbn [firstn nth]. apply IH. lia.
Qed.

Strategy 1000 [eq_word serial word_step W].

Section Text.
Variable p : list Z.
Let m := length p.
Hypothesis Hm : (1 <= m <= 63)%nat.

Definition Inv64 (st : word * word * Z * Z) (cb : list Z * Z) : Prop :=
  let '(VP, VN, diff, k) := st in
  let '(col, best) := cb in
  length VP = W /\ length VN = W /\ valid VP VN /\
  col = vals 0 (firstn m VP) (firstn m VN) /\ diff = nth (m - 1) col 0 /\ k = best.

Lemma bpm_step_is_word_step c VP VN diff k :
  bpm_step p m (VP, VN, diff, k) c =
  let r := word_step (eq_word c p) VP VN false false false in
  let diff' := diff + b2z (wbit (fst (snd r)) (m - 1)) - b2z (wbit (snd (snd r)) (m - 1)) in
  (fst (fst r), snd (fst r), diff', if diff' <? k then diff' else k).
Proof. reflexivity. Qed.

Lemma step_inv : forall st cb c, Inv64 st cb ->
  Inv64 (bpm_step p m st c)
        (let col' := next_col c p (fst cb) 0 0 in (col', Z.min (snd cb) (last col' 0))).
Proof.
  intros [[[VP VN] diff] k] [col best] c (L1 & L2 & V & Hc & Hd & Hk).
  rewrite bpm_step_is_word_step.
  assert (LE : length (eq_word c p) = W) by (unfold eq_word; rewrite map_length, seq_length; reflexivity).
  rewrite (word_step_serial (eq_word c p) VP VN false false) by (rewrite ?LE; assumption).
  set (r := serial (eq_word c p) VP VN false false).
  destruct (serial_length (eq_word c p) VP VN false false) as (A1 & A2 & A3 & A4); try (rewrite LE; assumption).
  fold r in A1, A2, A3, A4. rewrite LE in A1, A2, A3, A4.
  pose proof (serial_valid (eq_word c p) VP VN false false V eq_refl) as V'. fold r in V'.
  pose proof (serial_firstn m (eq_word c p) VP VN false false) as F. cbn zeta in F. fold r in F.
  assert (mW : (m <= W)%nat) by (unfold W; lia).
  unfold m in F at 1. rewrite (eq_word_firstn c p mW) in F. fold m in F.
  assert (Lp1 : length (firstn m VP) = length p) by (rewrite firstn_length; fold m; lia).
  assert (Lp2 : length (firstn m VN) = length p) by (rewrite firstn_length; fold m; lia).
  pose proof (serial_next_col c p (firstn m VP) (firstn m VN) false false 0 Lp1 Lp2 (valid_firstn m VP VN V) eq_refl) as S.
  assert (Z0 : 0 + dv false false = 0) by reflexivity.
  cbn zeta in S. rewrite F in S. cbn [fst snd] in S. rewrite !Z0 in S. rewrite <- Hc in S.
  destruct S as (S1 & S2 & S3 & S4 & S5 & S6 & S7).
  assert (Lnew : length (next_col c p col 0 0) = m).
  { rewrite S1. rewrite vals_length; [rewrite S4; reflexivity|rewrite S5, S4; reflexivity]. }
  assert (Lcol : length col = m) by (rewrite Hc; rewrite vals_length; [exact Lp1|rewrite Lp2, Lp1; reflexivity]).
  pose proof (f_equal (fun l => nth (m - 1) l 0) S3) as E. cbn beta in E.
  rewrite nth_zipdv in E by (rewrite ?S6, ?S7; fold m; lia).
  rewrite nth_zipsub in E by (rewrite ?Lnew, ?Lcol; lia).
  rewrite !nth_firstn_lt in E by lia.
  unfold dv in E.
  set (d' := diff + b2z (wbit (fst (snd r)) (m - 1)) - b2z (wbit (snd (snd r)) (m - 1))).
  assert (D' : d' = nth (m - 1) (next_col c p col 0 0) 0) by (unfold d', wbit; lia).
  cbn [fst snd]. unfold Inv64. split; [exact A1|]. split; [exact A2|]. split; [exact V'|].
  split; [exact S1|]. split; [exact D'|].
  rewrite Hk, last_nth, Lnew, <- D'. subst d'.
  match goal with |- (if ?x <? _ then _ else _) = _ => destruct (Z.ltb_spec x best) as [Hlt|Hge] end.
  - rewrite Z.min_r; [reflexivity|apply Z.lt_le_incl; exact Hlt].
  - rewrite Z.min_l; [reflexivity|exact Hge].
Qed.

Lemma init_inv : Inv64 (repeat true m ++ repeat false (W - m), repeat false W, Z.of_nat m, Z.of_nat m)
                       (map (fun i => Z.of_nat i + 1) (seq 0 m), Z.of_nat m).
Proof.
  unfold Inv64. assert (mW : (m <= W)%nat) by (unfold W; lia).
  split; [|split; [|split; [|split; [|split; [|reflexivity]]]]].
  - rewrite app_length, !repeat_length. lia.
  - apply repeat_length.
  - (* valid: the minus word is all zero *)
    assert (G : forall (ps : list bool) k, (length ps <= k)%nat -> valid ps (repeat false k)).
    { induction ps as [|x ps IH]; intros k Hk; [exact I|]. destruct k; [simpl in Hk; lia|].
      cbn [repeat valid]. split; [apply andb_false_r|apply IH; simpl in Hk; lia]. }
    apply G. rewrite app_length, !repeat_length. lia.
  - rewrite firstn_app, repeat_length. replace (m - m)%nat with 0%nat by lia. cbn [firstn]. rewrite app_nil_r.
    rewrite firstn_all2 by (rewrite repeat_length; lia).
    replace (firstn m (repeat false W)) with (repeat false m).
    2:{ clear -mW. revert mW. generalize W. induction m as [|k IH]; intros w Hw; [reflexivity|]. destruct w; [lia|]. cbn [repeat firstn]. f_equal. apply IH. lia. }
    assert (G : forall k a, vals a (repeat true k) (repeat false k) = map (fun i => a + Z.of_nat i + 1) (seq 0 k)).
    { induction k as [|k IH]; intro a; [reflexivity|]. cbn [repeat vals seq map]. unfold dv at 1. cbn [b2z].
      f_equal; [lia|]. rewrite IH. rewrite <- seq_shift, map_map. apply map_ext. intro i. unfold dv. cbn [b2z]. lia. }
    rewrite G. apply map_ext. intro i. lia.
  - rewrite (nth_indep _ 0 (Z.of_nat (m - 1) + 1)) by (rewrite map_length, seq_length; lia).
    rewrite (map_nth (fun i => Z.of_nat i + 1)). rewrite seq_nth by lia. lia.
Qed.

Theorem bpm64_bits_is_sed : forall t, bpm64_bits t p = sed t p.
Proof.
  intro t. unfold bpm64_bits, sed.
  assert (P63 : firstn 63 p = p) by (apply firstn_all2; fold m; lia).
  rewrite P63. fold m.
  assert (G : forall t st cb, Inv64 st cb ->
    Inv64 (fold_left (bpm_step p m) t st)
          (fold_left (fun st c => let '(col, best) := st in let col' := next_col c p col 0 0 in (col', Z.min best (last col' 0))) t cb)).
  { induction t0 as [|c t0 IH]; intros st cb H; [exact H|]. cbn [fold_left]. apply IH.
    destruct cb as [col best]. apply (step_inv st (col, best) c H). }
  specialize (G t _ _ init_inv).
  destruct (fold_left (bpm_step p m) t _) as [[[VP VN] diff] k].
  destruct (fold_left _ t (map _ _, Z.of_nat m)) as [col best].
  destruct G as (_ & _ & _ & _ & _ & E). exact E.
Qed.
End Text.

(* ================================================================================================================ *)
(* The blocked routine.  Part E: one block = the row-serial step with the border delta as input.                       *)
(* ================================================================================================================ *)

(* the column recurrence with an arbitrary match flag per row *)
Fixpoint next_col_g (eqs : list bool) (prev : list Z) (diag left : Z) : list Z :=
  match eqs, prev with
  | e :: eqs', up :: prev' =>
    let v := Z.min (Z.min (diag + (if e then 0 else 1)) (up + 1)) (left + 1) in
    v :: next_col_g eqs' prev' up v
  | _, _ => []
  end.

Lemma next_col_is_g : forall c p prev diag left, next_col c p prev diag left = next_col_g (map (fun pi => pi =? c) p) prev diag left.
Proof.
  intros c p. induction p as [|pi p IH]; intros prev diag left; [reflexivity|].
  destruct prev as [|up prev]; [reflexivity|]. cbn [next_col map next_col_g]. f_equal. apply IH.
Qed.

Lemma serial_next_col_g : forall eqs vps vns hp hn diag,
  length vps = length eqs -> length vns = length eqs -> valid vps vns -> hp && hn = false ->
  let r := serial eqs vps vns hp hn in
  let new := next_col_g eqs (vals diag vps vns) diag (diag + dv hp hn) in
  new = vals (diag + dv hp hn) (fst (fst r)) (snd (fst r)) /\
  valid (fst (fst r)) (snd (fst r)) /\ valid (fst (snd r)) (snd (snd r)) /\
  zipdv (fst (snd r)) (snd (snd r)) = zipsub new (vals diag vps vns).
Proof.
  induction eqs as [|e eqs IH]; intros vps vns hp hn diag L1 L2 V H.
  - destruct vps; [|discriminate]. destruct vns; [|discriminate]. cbn. repeat split; reflexivity.
  - destruct vps as [|vp vps]; [discriminate|]. destruct vns as [|vn vns]; [discriminate|].
    cbn [length] in L1, L2. injection L1 as L1. injection L2 as L2. destruct V as [V0 V].
    cbn [serial vals next_col_g].
    pose proof (cell_spec e vp vn hp hn diag V0 H) as (C1 & C2 & C3 & C4).
    set (r0 := cellf e vp vn hp hn) in *.
    set (up := diag + dv vp vn) in *.
    set (d := Z.min (Z.min (diag + (if e then 0 else 1)) (up + 1)) (diag + dv hp hn + 1)) in *.
    specialize (IH vps vns (fst (snd r0)) (snd (snd r0)) up L1 L2 V C2).
    cbn zeta in IH.
    assert (E : up + dv (fst (snd r0)) (snd (snd r0)) = d) by lia.
    rewrite E in IH. destruct IH as (I1 & I2 & I3 & I4).
    cbn [fst snd].
    split; [|split; [|split]].
    + cbn [vals]. rewrite I1. f_equal; [lia|]. f_equal. lia.
    + cbn [valid]. split; [exact C1|exact I2].
    + cbn [valid]. split; [exact C2|exact I3].
    + cbn [zipdv zipsub]. rewrite I4. f_equal. exact C4.
Qed.

(* Myers' formulation of one block with an explicit carry-in instead of the "Eq |= 1" trick *)
Definition adv_gen (Eq Pv Mv : word) (cin hpin hnin : bool) : (word * word) * (word * word) :=
  let Xv := wor Eq Mv in
  let Xh := wor (wxor (wadd_c (wand Eq Pv) Pv cin) Pv) Eq in
  let Ph := wor Mv (wnotb (wor Xh Pv)) in
  let Mh := wand Pv Xh in
  let Ph1 := wshl_in Ph hpin in
  let Mh1 := wshl_in Mh hnin in
  ((wor Mh1 (wnotb (wor Xv Ph1)), wand Ph1 Xv), (Ph, Mh)).

Lemma adv_gen_cons e Eq pv Pv mv Mv cin hpin hnin :
  adv_gen (e :: Eq) (pv :: Pv) (mv :: Mv) cin hpin hnin =
  let xh := xorb (xorb (xorb (e && pv) pv) cin) pv || e in
  let ph := mv || negb (xh || pv) in
  let mh := pv && xh in
  let rest := adv_gen Eq Pv Mv (maj (e && pv) pv cin) ph mh in
  (((hnin || negb ((e || mv) || hpin)) :: fst (fst rest), (hpin && (e || mv)) :: snd (fst rest)),
   (ph :: fst (snd rest), mh :: snd (snd rest))).
Proof. reflexivity. Qed.

Lemma adv_gen_serial : forall Eq Pv Mv hpin hnin, length Pv = length Eq -> length Mv = length Eq ->
  valid Pv Mv -> hpin && hnin = false ->
  adv_gen Eq Pv Mv hnin hpin hnin = serial Eq Pv Mv hpin hnin.
Proof.
  induction Eq as [|e Eq IH]; intros Pv Mv hpin hnin L1 L2 V H.
  - destruct Pv; [|discriminate]. destruct Mv; [|discriminate]. reflexivity.
  - destruct Pv as [|pv Pv]; [discriminate|]. destruct Mv as [|mv Mv]; [discriminate|].
    cbn [length] in L1, L2. injection L1 as L1. injection L2 as L2. destruct V as [V0 V].
    rewrite adv_gen_cons. cbn zeta. cbn [serial]. unfold cellf. cbn [fst snd].
    assert (XH : xorb (xorb (xorb (e && pv) pv) hnin) pv || e = e || hnin)
      by (destruct e, pv, hnin; reflexivity).
    rewrite XH.
    assert (CARRY : maj (e && pv) pv hnin = pv && (e || hnin)) by (destruct e, pv, hnin; reflexivity).
    rewrite CARRY.
    (* the h-outputs of this row, in the cell function's form (they differ only where (pv, mv) would be invalid) *)
    assert (PH : mv || negb (e || hnin || pv) = mv || negb (e || mv || hnin || pv))
      by (destruct e, pv, mv, hnin; try discriminate; reflexivity).
    assert (MH : pv && (e || hnin) = pv && (e || mv || hnin))
      by (destruct e, pv, mv, hnin; try discriminate; reflexivity).
    rewrite PH, MH.
    assert (Hnext : (mv || negb (e || mv || hnin || pv)) && (pv && (e || mv || hnin)) = false)
      by (destruct e, pv, mv, hnin; try discriminate; reflexivity).
    rewrite (IH Pv Mv (mv || negb (e || mv || hnin || pv)) (pv && (e || mv || hnin)) L1 L2 V Hnext).
    replace (hnin || negb (e || mv || hpin)) with (hnin || negb (e || mv || hnin || hpin))
      by (destruct e, mv, hnin, hpin; reflexivity).
    replace (hpin && (e || mv)) with (hpin && (e || mv || hnin))
      by (destruct e, mv, hnin, hpin; try discriminate; reflexivity).
    reflexivity.
Qed.

(* setting bit 0 of Eq for a negative carry is the same as feeding the adder a carry-in *)
Lemma set_bit0_is_carry : forall (e : bool) (Eq : word) (pv : bool) (Pv : word) (mv : bool) (Mv : word) (hpin hnin : bool),
  let Eq' := if hnin then set_bit0 (e :: Eq) else (e :: Eq) in
  let Xv := wor (e :: Eq) (mv :: Mv) in
  let Xh := wor (wxor (wadd_c (wand Eq' (pv :: Pv)) (pv :: Pv) false) (pv :: Pv)) Eq' in
  let Ph := wor (mv :: Mv) (wnotb (wor Xh (pv :: Pv))) in
  let Mh := wand (pv :: Pv) Xh in
  let Ph1 := wshl_in Ph hpin in
  let Mh1 := wshl_in Mh hnin in
  ((wor Mh1 (wnotb (wor Xv Ph1)), wand Ph1 Xv), (Ph, Mh)) = adv_gen (e :: Eq) (pv :: Pv) (mv :: Mv) hnin hpin hnin.
Proof.
  intros. unfold adv_gen. destruct hnin; [|reflexivity].
  subst Eq' Xv Xh Ph Mh Ph1 Mh1. cbn [set_bit0].
  cbn [wor wand wxor wzip wadd_c wnotb map wshl_in].
  destruct e, pv; reflexivity.
Qed.

(* ---- Part F: bpm_advance_block is the row-serial step ------------------------------------------------------------- *)
Lemma advance_bits_serial : forall Eq0 Pv Mv hIn, (1 <= length Eq0)%nat ->
  length Pv = length Eq0 -> length Mv = length Eq0 -> valid Pv Mv ->
  advance_bits Eq0 hIn Pv Mv =
  let r := serial Eq0 Pv Mv (0 <? hIn) (hIn <? 0) in
  (fst (fst r), snd (fst r), b2z (wbit (fst (snd r)) 63) - b2z (wbit (snd (snd r)) 63)).
Proof.
  intros Eq0 Pv Mv hIn L0 L1 L2 V.
  destruct Eq0 as [|e Eq]; [simpl in L0; lia|].
  destruct Pv as [|pv Pv]; [discriminate|]. destruct Mv as [|mv Mv]; [discriminate|].
  assert (H : (0 <? hIn) && (hIn <? 0) = false).
  { destruct (Z.ltb_spec 0 hIn), (Z.ltb_spec hIn 0); try reflexivity; lia. }
  rewrite <- (adv_gen_serial (e :: Eq) (pv :: Pv) (mv :: Mv) (0 <? hIn) (hIn <? 0) L1 L2 V H).
  rewrite <- (set_bit0_is_carry e Eq pv Pv mv Mv (0 <? hIn) (hIn <? 0)).
  reflexivity.
Qed.

(* ---- Part G: a column of blocks ------------------------------------------------------------------------------------- *)
Lemma last_consZ : forall (l : list Z) x d, last (x :: l) d = last l x.
Proof. induction l as [|y l IH]; intros x d; [reflexivity|]. change (last (x :: y :: l) d) with (last (y :: l) d). rewrite !IH. reflexivity. Qed.

Lemma next_col_g_app : forall e1 c1 e2 c2 d l, length c1 = length e1 ->
  next_col_g (e1 ++ e2) (c1 ++ c2) d l =
  let n1 := next_col_g e1 c1 d l in n1 ++ next_col_g e2 c2 (last c1 d) (last n1 l).
Proof.
  induction e1 as [|e e1 IH]; intros c1 e2 c2 d l L.
  - destruct c1; [reflexivity|discriminate].
  - destruct c1 as [|up c1]; [discriminate|]. cbn [length] in L. injection L as L.
    cbn [app next_col_g]. rewrite IH by exact L. cbn zeta.
    rewrite !last_consZ. reflexivity.
Qed.

Definition blk_ok (a : Z) (b : bblk) : Prop :=
  length (bbP b) = W /\ length (bbM b) = W /\ valid (bbP b) (bbM b) /\ bbScore b = last (vals a (bbP b) (bbM b)) a.
Fixpoint blocks_ok (a : Z) (bs : list bblk) : Prop :=
  match bs with [] => True | b :: bs' => blk_ok a b /\ blocks_ok (bbScore b) bs' end.
Fixpoint colvals (a : Z) (bs : list bblk) : list Z :=
  match bs with [] => [] | b :: bs' => vals a (bbP b) (bbM b) ++ colvals (bbScore b) bs' end.

Lemma last_zip_delta : forall (hp hn : list bool) (new old : list Z) l a,
  zipdv hp hn = zipsub new old -> length hp = W -> length hn = W -> length new = W -> length old = W ->
  b2z (wbit hp 63) - b2z (wbit hn 63) = last new l - last old a.
Proof.
  intros hp hn new old l a E L1 L2 L3 L4.
  pose proof (f_equal (fun x => nth 63 x 0) E) as E'. cbn beta in E'.
  rewrite nth_zipdv in E' by (rewrite ?L1, ?L2; unfold W; lia).
  rewrite nth_zipsub in E' by (rewrite ?L3, ?L4; unfold W; lia).
  rewrite (last_nth new), (last_nth old), L3, L4. unfold W. cbn [Nat.sub].
  unfold wbit, dv in *.
  rewrite (nth_indep new l 0) by (rewrite L3; unfold W; lia).
  rewrite (nth_indep old a 0) by (rewrite L4; unfold W; lia). exact E'.
Qed.

Lemma column_bits_dp : forall eqs blocks a l,
  length eqs = length blocks -> Forall (fun e => length e = W) eqs -> blocks_ok a blocks ->
  (-1 <= l - a <= 1) ->
  let r := column_bits eqs blocks (l - a) in
  blocks_ok l (fst r) /\ colvals l (fst r) = next_col_g (concat eqs) (colvals a blocks) a l /\
  length (fst r) = length blocks.
Proof.
  induction eqs as [|e eqs IH]; intros blocks a l L FE OK Hc.
  - destruct blocks; [|discriminate]. cbn. auto.
  - destruct blocks as [|b blocks]; [discriminate|]. cbn [length] in L. injection L as L.
    inversion FE as [|? ? Le FE']; subst. destruct OK as [(P1 & P2 & PV & PS) OK'].
    cbn [column_bits].
    rewrite (advance_bits_serial e (bbP b) (bbM b) (l - a)) by (rewrite ?Le, ?P1, ?P2; unfold W; lia || assumption).
    cbn zeta.
    set (r := serial e (bbP b) (bbM b) (0 <? l - a) (l - a <? 0)).
    assert (H : (0 <? l - a) && (l - a <? 0) = false).
    { destruct (Z.ltb_spec 0 (l - a)), (Z.ltb_spec (l - a) 0); try reflexivity; lia. }
    assert (DV : a + dv (0 <? l - a) (l - a <? 0) = l).
    { unfold dv, b2z. destruct (Z.ltb_spec 0 (l - a)), (Z.ltb_spec (l - a) 0); lia. }
    pose proof (serial_next_col_g e (bbP b) (bbM b) (0 <? l - a) (l - a <? 0) a) as S.
    rewrite P1, P2, Le in S. specialize (S eq_refl eq_refl PV H). cbn zeta in S. fold r in S. rewrite DV in S.
    destruct S as (S1 & S2 & S3 & S4).
    destruct (serial_length e (bbP b) (bbM b) (0 <? l - a) (l - a <? 0)) as (A1 & A2 & A3 & A4); try (rewrite ?P1, ?P2, Le; reflexivity).
    fold r in A1, A2, A3, A4. rewrite Le in A1, A2, A3, A4.
    assert (Lold : length (vals a (bbP b) (bbM b)) = W) by (rewrite vals_length; [exact P1|rewrite P2, P1; reflexivity]).
    assert (Lnew : length (next_col_g e (vals a (bbP b) (bbM b)) a l) = W).
    { rewrite S1. rewrite vals_length; [exact A1|rewrite A2, A1; reflexivity]. }
    pose proof (last_zip_delta _ _ _ _ l a S4 A3 A4 Lnew Lold) as HD.
    set (h := b2z (wbit (fst (snd r)) 63) - b2z (wbit (snd (snd r)) 63)) in *.
    (* the block's new score is the new value at its last row; the carry handed down is new - old there *)
    assert (NS : bbScore b + h = last (next_col_g e (vals a (bbP b) (bbM b)) a l) l) by (rewrite PS; lia).
    assert (HR : -1 <= h <= 1).
    { unfold h, b2z. destruct (wbit (fst (snd r)) 63), (wbit (snd (snd r)) 63); lia. }
    specialize (IH blocks (bbScore b) (bbScore b + h) L FE' OK').
    replace (bbScore b + h - bbScore b) with h in IH by lia. specialize (IH HR). cbn zeta in IH.
    destruct (column_bits eqs blocks h) as [rest c'] eqn:ER. cbn [fst snd] in *.
    destruct IH as (I1 & I2 & I3).
    split; [|split].
    + cbn [blocks_ok bbScore]. split; [|exact I1].
      unfold blk_ok. cbn [bbP bbM bbScore]. split; [exact A1|]. split; [exact A2|]. split; [exact S2|].
      rewrite <- S1. exact NS.
    + cbn [colvals bbP bbM bbScore concat]. rewrite next_col_g_app by (rewrite Lold, Le; reflexivity). cbn zeta.
      rewrite <- S1. f_equal. rewrite I2. f_equal; [exact PS|exact NS].
    + cbn [length]. f_equal. exact I3.
Qed.

(* ---- Part H: the text loop of bpm_block = the column recurrence over the wildcard-padded pattern ------------------- *)
Definition sedg (rowsf : Z -> list bool) (M : nat) (k0 : Z) (text : list Z) : Z :=
  snd (fold_left (fun st c => let '(col, best) := st in
                              let col' := next_col_g (rowsf c) col 0 0 in (col', Z.min best (last col' 0)))
                 text (map (fun i => Z.of_nat i + 1) (seq 0 M), k0)).

Lemma vals_last_le : forall vps vns a, length vns = length vps -> last (vals a vps vns) a <= a + Z.of_nat (length vps).
Proof.
  induction vps as [|vp vps IH]; intros vns a L; [simpl; lia|].
  destruct vns as [|vn vns]; [discriminate|]. cbn [vals]. rewrite last_consZ.
  specialize (IH vns (a + dv vp vn)). cbn [length] in *. injection L as L. specialize (IH L).
  unfold dv, b2z in *. destruct vp, vn; lia.
Qed.

Lemma last_app_ne : forall (l1 l2 : list Z) d, l2 <> [] -> last (l1 ++ l2) d = last l2 d.
Proof.
  induction l1 as [|x l1 IH]; intros l2 d H; [reflexivity|].
  cbn [app]. destruct (l1 ++ l2) eqn:E.
  - destruct l1; [simpl in E; subst; contradiction|discriminate].
  - rewrite <- E. change (last (x :: l1 ++ l2) d) with (match l1 ++ l2 with [] => x | _ => last (l1 ++ l2) d end).
    rewrite E. rewrite <- E. apply IH. exact H.
Qed.

Lemma vals_nonempty : forall vps vns a, (1 <= length vps)%nat -> length vns = length vps -> vals a vps vns <> [].
Proof. intros [|vp vps] [|vn vns] a H L; simpl in *; try lia; discriminate. Qed.

(* the score of the last block is the last value of the column, and it is at most 64 per block *)
Lemma blocks_last : forall bs a, bs <> [] -> blocks_ok a bs ->
  nth (length bs - 1) (map bbScore bs) 0 = last (colvals a bs) a /\
  last (colvals a bs) a <= a + 64 * Z.of_nat (length bs).
Proof.
  induction bs as [|b bs IH]; intros a Hne OK; [contradiction|].
  destruct OK as [(P1 & P2 & PV & PS) OK'].
  assert (NE : vals a (bbP b) (bbM b) <> []) by (apply vals_nonempty; [rewrite P1; unfold W; lia|rewrite P2, P1; reflexivity]).
  pose proof (vals_last_le (bbP b) (bbM b) a) as LE. rewrite P1 in LE. specialize (LE P2). rewrite <- PS in LE.
  destruct bs as [|b2 bs].
  - cbn [length map nth colvals]. rewrite app_nil_r. split; [simpl; exact PS|].
    rewrite <- PS. unfold W in LE. cbn [length]. lia.
  - assert (Hne2 : b2 :: bs <> []) by discriminate.
    destruct (IH (bbScore b) Hne2 OK') as (I1 & I2).
    cbn [colvals]. cbn [colvals] in I1, I2.
    assert (NE2 : vals (bbScore b) (bbP b2) (bbM b2) ++ colvals (bbScore b2) bs <> []).
    { destruct OK' as [(Q1 & Q2 & _) _]. intro E. apply app_eq_nil in E as [E _].
      revert E. apply vals_nonempty; [rewrite Q1; unfold W; lia|rewrite Q2, Q1; reflexivity]. }
    rewrite last_app_ne by exact NE2.
    (* last with default a vs default (bbScore b): the list is non-empty *)
    assert (LD : forall (l : list Z) d d', l <> [] -> last l d = last l d').
    { induction l as [|x l IHl]; intros d d' Hl; [contradiction|]. rewrite !last_consZ. reflexivity. }
    rewrite (LD _ a (bbScore b) NE2).
    split.
    + cbn [length]. replace (S (S (length bs)) - 1)%nat with (S (length bs)) by lia.
      cbn [map nth]. cbn [length] in I1. replace (S (length bs) - 0)%nat with (S (length bs)) in I1 by lia.
      replace (S (length bs) - 1)%nat with (length bs) in I1 by lia. exact I1.
    + cbn [length] in *. unfold W in LE. lia.
Qed.

Lemma shrink_noop : forall fuel scores y lim, (1 <= fuel)%nat -> nth y scores 0 < lim -> shrink fuel scores y lim = y.
Proof.
  intros [|f] scores y lim H Hn; [lia|]. cbn [shrink].
  destruct (Z.leb_spec lim (nth y scores 0)); [lia|reflexivity].
Qed.

Lemma div_ceil_facts m : (1 <= m)%nat ->
  (1 <= div_ceil m 64)%nat /\ (m <= 64 * div_ceil m 64)%nat /\ (64 * div_ceil m 64 < m + 64)%nat.
Proof.
  intro H. unfold div_ceil. destruct (Nat.eqb_spec m 0); [lia|].
  pose proof (Nat.div_mod m 64 ltac:(lia)) as D. pose proof (Nat.mod_upper_bound m 64 ltac:(lia)) as U.
  destruct (Nat.eqb_spec (m mod 64) 0); lia.
Qed.

Lemma init_blocks_ok : forall k a0,
  let bs := map (fun b => mkBB (repeat true W) (repeat false W) (Z.of_nat ((b + 1) * 64))) (seq a0 k) in
  blocks_ok (Z.of_nat (a0 * 64)) bs /\
  colvals (Z.of_nat (a0 * 64)) bs = map (fun i => Z.of_nat i + 1) (seq (a0 * 64) (64 * k)).
Proof.
  assert (G : forall k a, vals a (repeat true k) (repeat false k) = map (fun i => a + Z.of_nat i + 1) (seq 0 k)).
  { induction k as [|k IH]; intro a; [reflexivity|]. cbn [repeat vals seq map]. unfold dv at 1. cbn [b2z].
    f_equal; [lia|]. rewrite IH. rewrite <- seq_shift, map_map. apply map_ext. intro i. unfold dv. cbn [b2z]. lia. }
  assert (V : forall k, valid (repeat true k) (repeat false k)).
  { induction k; cbn [repeat valid]; [exact I|]. split; [reflexivity|assumption]. }
  induction k as [|k IH]; intro a0; cbn zeta.
  - cbn. split; [exact I|reflexivity].
  - cbn [seq map blocks_ok colvals bbP bbM bbScore].
    specialize (IH (S a0)). cbn zeta in IH. destruct IH as (I1 & I2).
    assert (LAST : last (vals (Z.of_nat (a0 * 64)) (repeat true W) (repeat false W)) (Z.of_nat (a0 * 64)) = Z.of_nat ((a0 + 1) * 64)).
    { rewrite G. unfold W. rewrite last_nth, map_length, seq_length.
      rewrite (nth_indep _ _ (Z.of_nat (a0 * 64) + Z.of_nat 63 + 1)) by (rewrite map_length, seq_length; lia).
      rewrite (map_nth (fun i => Z.of_nat (a0 * 64) + Z.of_nat i + 1)). rewrite seq_nth by lia. lia. }
    split.
    + split.
      * unfold blk_ok. cbn [bbP bbM bbScore]. rewrite !repeat_length. split; [reflexivity|]. split; [reflexivity|].
        split; [apply V|]. symmetry. exact LAST.
      * replace ((a0 + 1) * 64)%nat with (S a0 * 64)%nat by lia. exact I1.
    + rewrite G. replace ((a0 + 1) * 64)%nat with (S a0 * 64)%nat by lia. rewrite I2.
      replace (64 * S k)%nat with (64 + 64 * k)%nat by lia. rewrite seq_app, map_app. f_equal.
      * unfold W.
        assert (SH : forall n s, seq s n = map (fun i => (s + i)%nat) (seq 0 n)).
        { induction n as [|n IHn]; intro s0; [reflexivity|]. cbn [seq map]. f_equal; [lia|].
          rewrite (IHn (S s0)). rewrite <- (seq_shift n 0), map_map. apply map_ext. intro i. lia. }
        rewrite (SH 64%nat (a0 * 64)%nat). rewrite map_map. apply map_ext. intro i. lia.
      * f_equal. f_equal. lia.
Qed.

Section BlockText.
Variable p : list Z.
Let m := Nat.min (length p) 1024.
Let b_max := div_ceil m 64.
Hypothesis Hm : (1 <= m)%nat.

(* the match flags of the wildcard-padded pattern for text symbol c: one word per block *)
Definition rows_pad (c : Z) : list bool := concat (map (fun b => peq_word c p m b) (seq 0 b_max)).

Definition InvB (st : list bblk * nat * Z) (cb : list Z * Z) : Prop :=
  let '(blocks, y, k) := st in
  let '(col, best) := cb in
  y = (b_max - 1)%nat /\ length blocks = b_max /\ blocks_ok 0 blocks /\ colvals 0 blocks = col /\ k = best.

Lemma peq_words_len c : Forall (fun e => length e = W) (map (fun b => peq_word c p m b) (seq 0 b_max)).
Proof. apply Forall_forall. intros e He. apply in_map_iff in He as (b & <- & _). unfold peq_word. rewrite map_length, seq_length. reflexivity. Qed.

Lemma block_step_inv : forall blocks y k col best c, InvB (blocks, y, k) (col, best) ->
  let eqs := map (fun b => peq_word c p m b) (seq 0 (S y)) in
  let '(act, carry) := column_bits eqs (firstn (S y) blocks) 0 in
  let blocks' := act ++ skipn (S y) blocks in
  let y' := shrink (S y) (map bbScore blocks') y (Z.of_nat m + 64) in
  let sy := nth y' (map bbScore blocks') 0 in
  InvB (blocks', y', if sy <? k then sy else k)
       (let col' := next_col_g (rows_pad c) col 0 0 in (col', Z.min best (last col' 0))).
Proof.
  intros blocks y k col best c (Hy & Hl & OK & Hc & Hk).
  destruct (div_ceil_facts m Hm) as (B1 & B2 & B3). fold b_max in B1, B2, B3.
  assert (SY : S y = b_max) by lia.
  cbn zeta. rewrite SY. rewrite firstn_all2 by lia. rewrite skipn_all2 by lia.
  pose proof (column_bits_dp (map (fun b => peq_word c p m b) (seq 0 b_max)) blocks 0 0) as D.
  rewrite map_length, seq_length in D. specialize (D (eq_sym Hl) (peq_words_len c) OK ltac:(lia)).
  cbn zeta in D. replace (0 - 0) with 0 in D by lia.
  destruct (column_bits _ blocks 0) as [act carry]. cbn [fst snd] in D. destruct D as (D1 & D2 & D3).
  rewrite app_nil_r.
  assert (NE : act <> []) by (destruct act; [simpl in D3; lia|discriminate]).
  destruct (blocks_last act 0 NE D1) as (L1 & L2).
  rewrite D3, Hl in L1, L2.
  assert (SC : nth y (map bbScore act) 0 < Z.of_nat m + 64).
  { rewrite Hy. rewrite L1. lia. }
  rewrite (shrink_noop b_max (map bbScore act) y (Z.of_nat m + 64)) by (lia || exact SC).
  unfold InvB. split; [exact Hy|]. split; [rewrite D3; exact Hl|]. split; [exact D1|].
  fold (rows_pad c) in D2. rewrite Hc in D2. split; [exact D2|].
  rewrite Hy, L1, D2, Hk.
  match goal with |- (if ?x <? _ then _ else _) = _ => destruct (Z.ltb_spec x best) as [Hlt|Hge] end.
  - rewrite Z.min_r; [reflexivity|apply Z.lt_le_incl; exact Hlt].
  - rewrite Z.min_l; [reflexivity|exact Hge].
Qed.

Theorem bpm_block_bits_is_padded_dp : forall t,
  bpm_block_bits t p = sedg rows_pad (64 * b_max) (Z.of_nat m) (t ++ repeat 0 (64 * b_max - m)).
Proof.
  intro t. unfold bpm_block_bits, sedg. fold m. fold b_max.
  destruct (div_ceil_facts m Hm) as (B1 & B2 & B3). fold b_max in B1, B2, B3.
  replace (S (b_max - 1)) with b_max by lia.
  set (step := fun (st : list bblk * nat * Z) (c : Z) =>
    let '(blocks, y, k) := st in
    let eqs := map (fun b => peq_word c p m b) (seq 0 (S y)) in
    let '(act, carry) := column_bits eqs (firstn (S y) blocks) 0 in
    let blocks' := act ++ skipn (S y) blocks in
    let y' := shrink (S y) (map bbScore blocks') y (Z.of_nat m + 64) in
    let sy := nth y' (map bbScore blocks') 0 in
    (blocks', y', if sy <? k then sy else k)).
  assert (G : forall text st cb, InvB st cb ->
    InvB (fold_left step text st)
         (fold_left (fun st c => let '(col, best) := st in let col' := next_col_g (rows_pad c) col 0 0 in (col', Z.min best (last col' 0))) text cb)).
  { induction text as [|c text IH]; intros st cb H; [exact H|]. cbn [fold_left]. apply IH.
    destruct st as [[blocks y] k]. destruct cb as [col best].
    pose proof (block_step_inv blocks y k col best c H) as HS. cbn zeta in HS.
    unfold step. destruct (column_bits _ (firstn (S y) blocks) 0) as [act carry]. exact HS. }
  pose proof (init_blocks_ok b_max 0) as (I1 & I2). cbn zeta in I1, I2. rewrite Nat.mul_0_l in I1, I2.
  specialize (G (t ++ repeat 0 (64 * b_max - m))
                (map (fun b => mkBB (repeat true W) (repeat false W) (Z.of_nat ((b + 1) * 64))) (seq 0 b_max), (b_max - 1)%nat, Z.of_nat m)
                (map (fun i => Z.of_nat i + 1) (seq 0 (64 * b_max)), Z.of_nat m)).
  assert (I0 : InvB (map (fun b => mkBB (repeat true W) (repeat false W) (Z.of_nat ((b + 1) * 64))) (seq 0 b_max), (b_max - 1)%nat, Z.of_nat m)
                    (map (fun i => Z.of_nat i + 1) (seq 0 (64 * b_max)), Z.of_nat m)).
  { unfold InvB. split; [reflexivity|]. split; [rewrite map_length, seq_length; reflexivity|]. split; [exact I1|]. split; [exact I2|reflexivity]. }
  specialize (G I0).
  destruct (fold_left step _ _) as [[blocks y] k].
  destruct (fold_left _ (t ++ repeat 0 (64 * b_max - m)) (map _ _, Z.of_nat m)) as [col best].
  destruct G as (_ & _ & _ & _ & E). exact E.
Qed.
End BlockText.

(* ================================================================================================================ *)
(* Part I: the wildcard rows and the text padding are neutral.                                                          *)
(* ================================================================================================================ *)
Definition minl (x : Z) (l : list Z) : Z := fold_left Z.min l x.

Lemma minl_le_init : forall l x, minl x l <= x.
Proof. induction l as [|y l IH]; intro x; simpl; [lia|]. etransitivity; [apply IH|]. lia. Qed.
Lemma minl_le_elem : forall l x y, In y l -> minl x l <= y.
Proof.
  induction l as [|z l IH]; intros x y H; [contradiction|]. simpl. destruct H as [->|H].
  - etransitivity; [apply minl_le_init|]. lia.
  - apply IH. exact H.
Qed.
Lemma minl_ge : forall l x b, b <= x -> (forall y, In y l -> b <= y) -> b <= minl x l.
Proof.
  induction l as [|z l IH]; intros x b Hx H; simpl; [exact Hx|].
  apply IH; [|intros y Hy; apply H; right; exact Hy]. specialize (H z (or_introl eq_refl)). lia.
Qed.

(* the wildcard rows below a row whose values along the text are A 0, A 1, ..: Wm r j is the value r rows below *)
Section Wild.
Variable A : nat -> Z.
Fixpoint Wm (r : nat) : nat -> Z :=
  match r with
  | O => A
  | S r' => fix row (j : nat) : Z :=
      match j with
      | O => A 0%nat + Z.of_nat (S r')
      | S j' => Z.min (Z.min (Wm r' j' + 0) (row j' + 1)) (Wm r' (S j') + 1)
      end
  end.

Lemma Wm_S_S r j : Wm (S r) (S j) = Z.min (Z.min (Wm r j + 0) (Wm (S r) j + 1)) (Wm r (S j) + 1).
Proof. reflexivity. Qed.
Lemma Wm_S_0 r : Wm (S r) 0 = A 0%nat + Z.of_nat (S r).
Proof. reflexivity. Qed.

(* following the diagonal through the wildcards costs nothing *)
Lemma Wm_diag : forall r j, Wm r (j + r) <= A j.
Proof.
  induction r as [|r IH]; intro j; [rewrite Nat.add_0_r; simpl; lia|].
  replace (j + S r)%nat with (S (j + r)) by lia. rewrite Wm_S_S. specialize (IH j). lia.
Qed.

(* lower bound: with mu below every A j up to column n, and A never dropping by more than 1 per column *)
Variable n : nat.
Variable mu : Z.
Hypothesis A_lb : forall j, (j <= n)%nat -> mu <= A j.
Hypothesis A_step : forall j, A j - 1 <= A (S j).
Hypothesis A0_lb : mu <= A 0%nat.

Lemma A_far : forall j, mu - Z.max 0 (Z.of_nat j - Z.of_nat n) <= A j.
Proof.
  induction j as [|j IH]; [pose proof A0_lb; lia|].
  destruct (Nat.le_gt_cases (S j) n) as [H|H]; [pose proof (A_lb (S j) H); lia|].
  pose proof (A_step j). lia.
Qed.

Lemma Wm_lb : forall r j, mu - Z.max 0 (Z.of_nat j - Z.of_nat n - Z.of_nat r) <= Wm r j.
Proof.
  induction r as [|r IHr]; intro j.
  - simpl. pose proof (A_far j). lia.
  - induction j as [|j IHj].
    + rewrite Wm_S_0. pose proof A0_lb. lia.
    + rewrite Wm_S_S. pose proof (IHr j). pose proof (IHr (S j)). lia.
Qed.
End Wild.

(* the wildcard part of a padded column evolves as Wm says *)
Lemma wild_rows_step : forall (A : nat -> Z) j k r0,
  next_col_g (repeat true k) (map (fun r => Wm A (S r) j) (seq r0 k)) (Wm A r0 j) (Wm A r0 (S j)) =
  map (fun r => Wm A (S r) (S j)) (seq r0 k).
Proof.
  intros A j. induction k as [|k IH]; intro r0; [reflexivity|].
  cbn [repeat seq map next_col_g]. rewrite <- Wm_S_S. f_equal. apply IH.
Qed.

(* a fold that carries (column, running minimum of the last entry) is the fold of the columns plus a minimum over prefixes *)
Lemma fold_min_prefixes : forall (f : list Z -> Z -> list Z) T c0 b0,
  fold_left (fun st c => let '(col, best) := st in let col' := f col c in (col', Z.min best (last col' 0))) T (c0, b0) =
  (fold_left f T c0, minl b0 (map (fun j => last (fold_left f (firstn j T) c0) 0) (seq 1 (length T)))).
Proof.
  intros f T. induction T as [|c T IH] using rev_ind; intros c0 b0; [reflexivity|].
  rewrite fold_left_app. rewrite IH. cbn [fold_left]. rewrite fold_left_app. cbn [fold_left]. f_equal.
  rewrite app_length. cbn [length]. rewrite Nat.add_1_r. rewrite seq_S, map_app. unfold minl. rewrite fold_left_app.
  cbn [map fold_left]. f_equal.
  - f_equal. apply map_ext_in. intros j Hj. apply in_seq in Hj. rewrite firstn_app.
    replace (j - length T)%nat with 0%nat by lia. cbn [firstn]. rewrite app_nil_r. reflexivity.
  - rewrite firstn_all2 by (rewrite app_length; simpl; lia). rewrite fold_left_app. reflexivity.
Qed.

Lemma sedg_as_min rows M k0 text :
  sedg rows M k0 text =
  minl k0 (map (fun j => last (fold_left (fun col c => next_col_g (rows c) col 0 0) (firstn j text) (map (fun i => Z.of_nat i + 1) (seq 0 M))) 0)
               (seq 1 (length text))).
Proof.
  unfold sedg.
  exact (f_equal snd (fold_min_prefixes (fun col c => next_col_g (rows c) col 0 0) text (map (fun i => Z.of_nat i + 1) (seq 0 M)) k0)).
Qed.

Lemma sed_as_min t q :
  sed t q =
  minl (Z.of_nat (length q))
       (map (fun j => last (fold_left (fun col c => next_col c q col 0 0) (firstn j t) (map (fun i => Z.of_nat i + 1) (seq 0 (length q)))) 0)
            (seq 1 (length t))).
Proof.
  change (sed t q) with (let '(_, best) := fold_left (fun st c => let '(col, best) := st in let col' := next_col c q col 0 0 in (col', Z.min best (last col' 0))) t
                                                   (map (fun i => Z.of_nat i + 1) (seq 0 (length q)), Z.of_nat (length q)) in best).
  pose proof (fold_min_prefixes (fun col c => next_col c q col 0 0) t (map (fun i => Z.of_nat i + 1) (seq 0 (length q))) (Z.of_nat (length q))) as H.
  cbv beta in H. rewrite H. reflexivity.
Qed.

Section Neutral.
Variable q : list Z.
Let m := length q.
Hypothesis Hm : (1 <= m)%nat.
Variable Wd : nat.                 (* number of wildcard rows = number of padding columns *)
Variable t : list Z.
Let n := length t.
Let T := t ++ repeat 0 Wd.

Definition rowsR (c : Z) : list bool := map (fun x => x =? c) q.
Definition rowsP (c : Z) : list bool := rowsR c ++ repeat true Wd.
Definition col0 : list Z := map (fun i => Z.of_nat i + 1) (seq 0 m).
Definition stepR (col : list Z) (c : Z) : list Z := next_col_g (rowsR c) col 0 0.
Definition stepP (col : list Z) (c : Z) : list Z := next_col_g (rowsP c) col 0 0.
Definition Rcol (T' : list Z) : list Z := fold_left stepR T' col0.
Definition A (j : nat) : Z := last (Rcol (firstn j T)) 0.

Lemma next_col_g_length : forall eqs prev d l, length prev = length eqs -> length (next_col_g eqs prev d l) = length eqs.
Proof.
  induction eqs as [|e eqs IH]; intros prev d l L; [reflexivity|]. destruct prev as [|u prev]; [discriminate|].
  cbn [next_col_g length]. f_equal. apply IH. simpl in L. lia.
Qed.

Lemma Rcol_length : forall T', length (Rcol T') = m.
Proof.
  intro T'. unfold Rcol. induction T' as [|c T' IH] using rev_ind.
  - unfold col0. cbn [fold_left]. rewrite map_length, seq_length. reflexivity.
  - rewrite fold_left_app. cbn [fold_left]. unfold stepR at 1. rewrite next_col_g_length; unfold rowsR; rewrite map_length; [reflexivity|exact IH].
Qed.

(* every real column is delta-encodable, and its last entry drops by at most one per text symbol *)
Lemma Rcol_encodable : forall T', exists vps vns, Rcol T' = vals 0 vps vns /\ length vps = m /\ length vns = m /\ valid vps vns.
Proof.
  intro T'. unfold Rcol. induction T' as [|c T' IH] using rev_ind.
  - exists (repeat true m), (repeat false m). cbn [fold_left]. rewrite !repeat_length. split; [|split; [reflexivity|split; [reflexivity|]]].
    + unfold col0. assert (G : forall k a, vals a (repeat true k) (repeat false k) = map (fun i => a + Z.of_nat i + 1) (seq 0 k)).
      { induction k as [|k IHk]; intro a; [reflexivity|]. cbn [repeat vals seq map]. unfold dv at 1. cbn [b2z].
        f_equal; [lia|]. rewrite IHk. rewrite <- seq_shift, map_map. apply map_ext. intro i. unfold dv. cbn [b2z]. lia. }
      rewrite G. apply map_ext. intro i. lia.
    + clear. induction m as [|k IHk]; cbn [repeat valid]; [exact I|]. split; [reflexivity|exact IHk].
  - destruct IH as (vps & vns & E & L1 & L2 & V). rewrite fold_left_app. cbn [fold_left]. unfold stepR at 1. rewrite E.
    pose proof (serial_next_col_g (rowsR c) vps vns false false 0) as S.
    unfold rowsR in S at 1 2. rewrite map_length in S. fold m in S. specialize (S L1 L2 V eq_refl). cbn zeta in S.
    assert (Z0 : 0 + dv false false = 0) by reflexivity. rewrite !Z0 in S. destruct S as (S1 & S2 & _ & _).
    destruct (serial_length (rowsR c) vps vns false false) as (A1 & A2 & _ & _); try (unfold rowsR; rewrite map_length; assumption).
    unfold rowsR in A1, A2. rewrite map_length in A1, A2.
    eexists _, _. split; [exact S1|]. split; [exact A1|]. split; [exact A2|exact S2].
Qed.

Lemma A_step : forall j, A j - 1 <= A (S j).
Proof.
  intro j. unfold A.
  destruct (Nat.le_gt_cases (length T) j) as [H|H].
  - rewrite !firstn_all2 by lia. lia.
  - (* firstn (S j) T = firstn j T ++ [c] *)
    assert (E : firstn (S j) T = firstn j T ++ [nth j T 0]).
    { clear -H. revert j H. induction T as [|x l IH]; intros j H; [simpl in H; lia|].
      destruct j; [reflexivity|]. cbn [firstn nth app]. f_equal. apply IH. simpl in H. lia. }
    rewrite E. unfold Rcol at 2. rewrite fold_left_app. cbn [fold_left]. fold (Rcol (firstn j T)).
    destruct (Rcol_encodable (firstn j T)) as (vps & vns & EV & L1 & L2 & V).
    unfold stepR. rewrite EV.
    pose proof (serial_next_col_g (rowsR (nth j T 0)) vps vns false false 0) as S.
    unfold rowsR in S at 1 2. rewrite map_length in S. fold m in S. specialize (S L1 L2 V eq_refl). cbn zeta in S.
    assert (Z0 : 0 + dv false false = 0) by reflexivity. rewrite !Z0 in S. destruct S as (S1 & _ & _ & S4).
    set (new := next_col_g (rowsR (nth j T 0)) (vals 0 vps vns) 0 0) in *.
    assert (Lold : length (vals 0 vps vns) = m) by (rewrite vals_length; [exact L1|rewrite L2, L1; reflexivity]).
    assert (Lnew : length new = m).
    { unfold new. rewrite next_col_g_length; unfold rowsR; rewrite map_length; [reflexivity|exact Lold]. }
    pose proof (f_equal (fun l => nth (m - 1) l 0) S4) as E4. cbn beta in E4.
    assert (LR : length (rowsR (nth j T 0)) = m) by (unfold rowsR; apply map_length).
    destruct (serial_length (rowsR (nth j T 0)) vps vns false false) as (_ & _ & A3 & A4); try (rewrite LR; assumption).
    rewrite LR in A3, A4.
    rewrite nth_zipdv in E4 by (rewrite ?A3, ?A4; lia).
    rewrite nth_zipsub in E4 by (rewrite ?Lnew, ?Lold; lia).
    rewrite (last_nth new), (last_nth (vals 0 vps vns)), Lnew, Lold.
    unfold dv, b2z in E4.
    destruct (nth (m - 1) (fst (snd (serial (rowsR (nth j T 0)) vps vns false false))) false),
             (nth (m - 1) (snd (snd (serial (rowsR (nth j T 0)) vps vns false false))) false); lia.
Qed.

(* the padded column is the real column followed by the wildcard rows Wm *)
Definition colP0 : list Z := map (fun i => Z.of_nat i + 1) (seq 0 (m + Wd)).

Lemma A0 : A 0 = Z.of_nat m.
Proof.
  unfold A, Rcol. cbn [firstn fold_left]. unfold col0. rewrite last_nth, map_length, seq_length.
  rewrite (nth_indep _ 0 (Z.of_nat (m - 1) + 1)) by (rewrite map_length, seq_length; lia).
  rewrite (map_nth (fun i => Z.of_nat i + 1)). rewrite seq_nth by lia. lia.
Qed.

Lemma Rcol_snoc T' c : Rcol (T' ++ [c]) = stepR (Rcol T') c.
Proof. unfold Rcol. rewrite fold_left_app. reflexivity. Qed.

Lemma Pcol_split : forall j, (j <= length T)%nat ->
  fold_left stepP (firstn j T) colP0 = Rcol (firstn j T) ++ map (fun r => Wm A (S r) j) (seq 0 Wd).
Proof.
  induction j as [|j IH]; intro Hj.
  - cbn [firstn fold_left]. unfold Rcol. cbn [fold_left]. unfold colP0, col0. rewrite seq_app, map_app. f_equal.
    assert (SH : forall k s, seq s k = map (fun i => (s + i)%nat) (seq 0 k)).
    { induction k as [|k IHk]; intro s0; [reflexivity|]. cbn [seq map]. f_equal; [lia|].
      rewrite (IHk (S s0)). rewrite <- (seq_shift k 0), map_map. apply map_ext. intro i. lia. }
    rewrite (SH Wd (0 + m)%nat). rewrite map_map. apply map_ext. intro r. rewrite Wm_S_0, A0. lia.
  - assert (E : firstn (S j) T = firstn j T ++ [nth j T 0]).
    { clear -Hj. revert j Hj. induction T as [|x l IHl]; intros j Hj; [simpl in Hj; lia|].
      destruct j; [reflexivity|]. cbn [firstn nth app]. f_equal. apply IHl. simpl in Hj. lia. }
    rewrite E. rewrite fold_left_app. cbn [fold_left]. rewrite IH by lia.
    unfold stepP at 1. unfold rowsP.
    rewrite next_col_g_app by (rewrite Rcol_length; unfold rowsR; rewrite map_length; reflexivity).
    cbn zeta. rewrite Rcol_snoc. unfold stepR.
    f_equal.
    assert (Ej : last (Rcol (firstn j T)) 0 = Wm A 0 j) by reflexivity.
    assert (ESj : last (next_col_g (rowsR (nth j T 0)) (Rcol (firstn j T)) 0 0) 0 = Wm A 0 (S j)).
    { cbn [Wm]. unfold A. rewrite E. rewrite Rcol_snoc. reflexivity. }
    rewrite Ej, ESj. apply wild_rows_step.
Qed.

Lemma last_app_map : forall (R : list Z) (g : nat -> Z) k d, last R d = g 0%nat ->
  last (R ++ map (fun r => g (S r)) (seq 0 k)) d = g k.
Proof.
  intros R g [|k] d H; [cbn [seq map]; rewrite app_nil_r; exact H|].
  rewrite seq_S, map_app, app_assoc. cbn [map]. apply last_last.
Qed.

Lemma last_Pcol : forall j, (j <= length T)%nat -> last (fold_left stepP (firstn j T) colP0) 0 = Wm A Wd j.
Proof.
  intros j Hj. rewrite Pcol_split by exact Hj.
  apply (last_app_map (Rcol (firstn j T)) (fun r => Wm A r j) Wd 0). reflexivity.
Qed.

Theorem padding_neutral :
  sedg rowsP (m + Wd) (Z.of_nat m) T = sed t q.
Proof.
  rewrite sedg_as_min, sed_as_min. fold m. fold colP0. fold col0. fold n.
  change (fun col c => next_col_g (rowsP c) col 0 0) with stepP.
  assert (SR : forall l c0, fold_left (fun col c => next_col c q col 0 0) l c0 = fold_left stepR l c0).
  { induction l as [|c l IHl]; intro c0; [reflexivity|]. cbn [fold_left]. rewrite IHl. f_equal.
    unfold stepR, rowsR. apply next_col_is_g. }
  (* A agrees with the real columns over t *)
  assert (AT : forall j, (j <= n)%nat -> last (fold_left (fun col c => next_col c q col 0 0) (firstn j t) col0) 0 = A j).
  { intros j Hj. rewrite SR. unfold A, Rcol, T. rewrite firstn_app. replace (j - length t)%nat with 0%nat by (unfold n in Hj; lia).
    cbn [firstn]. rewrite app_nil_r. reflexivity. }
  assert (MU : map (fun j => last (fold_left (fun col c => next_col c q col 0 0) (firstn j t) col0) 0) (seq 1 n) = map A (seq 1 n)).
  { apply map_ext_in. intros j Hj. apply in_seq in Hj. apply AT. lia. }
  rewrite MU.
  assert (LT : length T = (n + Wd)%nat) by (unfold T; rewrite app_length, repeat_length; reflexivity).
  assert (PL : map (fun j => last (fold_left stepP (firstn j T) colP0) 0) (seq 1 (length T)) = map (Wm A Wd) (seq 1 (n + Wd))).
  { rewrite LT. apply map_ext_in. intros j Hj. apply in_seq in Hj. apply last_Pcol. lia. }
  rewrite PL.
  apply Z.le_antisymm.
  - (* <= : every candidate of the real minimum is matched by a padded column *)
    apply minl_ge; [apply minl_le_init|].
    intros y Hy. apply in_map_iff in Hy as (j & <- & Hj). apply in_seq in Hj.
    etransitivity; [|apply (Wm_diag A Wd j)].
    apply minl_le_elem. apply in_map_iff. exists (j + Wd)%nat. split; [reflexivity|]. apply in_seq. lia.
  - (* >= : no padded column gets below the real minimum *)
    apply minl_ge; [apply minl_le_init|].
    intros y Hy. apply in_map_iff in Hy as (j & <- & Hj). apply in_seq in Hj.
    pose proof (Wm_lb A n (minl (Z.of_nat m) (map A (seq 1 n)))) as LB.
    assert (H1 : forall j0, (j0 <= n)%nat -> minl (Z.of_nat m) (map A (seq 1 n)) <= A j0).
    { intros j0 Hj0. destruct j0 as [|j0]; [rewrite A0; apply minl_le_init|].
      apply minl_le_elem. apply in_map_iff. exists (S j0). split; [reflexivity|]. apply in_seq. lia. }
    assert (H3 : minl (Z.of_nat m) (map A (seq 1 n)) <= A 0) by (rewrite A0; apply minl_le_init).
    specialize (LB H1 A_step H3 Wd j). lia.
Qed.
End Neutral.

(* ---- the blocked routine, end to end ------------------------------------------------------------------------------- *)
Lemma concat_blocks : forall (g : nat -> bool) k,
  concat (map (fun b => map (fun i => g (64 * b + i)%nat) (seq 0 W)) (seq 0 k)) = map g (seq 0 (64 * k)).
Proof.
  intros g k. induction k as [|k IH]; [reflexivity|].
  rewrite seq_S, map_app, concat_app, IH. cbn [map concat]. rewrite app_nil_r.
  replace (64 * S k)%nat with (64 * k + 64)%nat by lia. rewrite seq_app, map_app. f_equal.
  cbn [Nat.add]. unfold W.
  assert (SH : forall n s, seq s n = map (fun i => (s + i)%nat) (seq 0 n)).
  { induction n as [|n IHn]; intro s0; [reflexivity|]. cbn [seq map]. f_equal; [lia|].
    rewrite (IHn (S s0)). rewrite <- (seq_shift n 0), map_map. apply map_ext. intro i. lia. }
  rewrite (SH 64%nat (64 * k)%nat). rewrite map_map. reflexivity.
Qed.

Lemma nth_error_firstn_lt {X} : forall k i (l : list X), (i < k)%nat -> nth_error (firstn k l) i = nth_error l i.
Proof.
  induction k as [|k IH]; intros i l H; [lia|]. destruct l as [|x l]; [destruct i; reflexivity|].
  destruct i; [reflexivity|]. cbn [firstn nth_error]. apply IH. lia.
Qed.

Lemma map_true_seq : forall k s, map (fun _ : nat => true) (seq s k) = repeat true k.
Proof. induction k as [|k IH]; intro s; [reflexivity|]. cbn [seq map repeat]. f_equal. apply IH. Qed.

Lemma sedg_ext : forall r1 r2 M k0 text, (forall c, r1 c = r2 c) -> sedg r1 M k0 text = sedg r2 M k0 text.
Proof.
  intros r1 r2 M k0 text H. unfold sedg. f_equal.
  generalize (map (fun i => Z.of_nat i + 1) (seq 0 M), k0).
  induction text as [|c text IH]; intro st; [reflexivity|]. cbn [fold_left]. destruct st as [col best].
  rewrite H. apply IH.
Qed.

Theorem bpm_block_bits_is_sed : forall t p, (1 <= length p)%nat ->
  bpm_block_bits t p = sed t (firstn 1024 p).
Proof.
  intros t p Hp.
  set (m := Nat.min (length p) 1024).
  assert (Hm : (1 <= m)%nat) by (unfold m; lia).
  rewrite (bpm_block_bits_is_padded_dp p Hm t). fold m.
  set (b_max := div_ceil m 64).
  destruct (div_ceil_facts m Hm) as (B1 & B2 & B3). fold b_max in B1, B2, B3.
  set (q := firstn 1024 p).
  assert (Lq : length q = m) by (unfold q, m; rewrite firstn_length; lia).
  set (Wd := (64 * b_max - m)%nat).
  assert (EM : (64 * b_max = length q + Wd)%nat) by (rewrite Lq; unfold Wd; lia).
  assert (Hq : (1 <= length q)%nat) by (rewrite Lq; exact Hm).
  rewrite <- (padding_neutral q Hq Wd t). rewrite EM. rewrite <- Lq.
  apply sedg_ext. intro c.
  (* the match flags: concatenated block words = real rows followed by wildcards *)
  unfold rows_pad. fold m. fold b_max. unfold peq_word.
  pose proof (concat_blocks (fun pos => (m <=? pos)%nat || match nth_error p pos with Some x => x =? c | None => false end) b_max) as CB.
  cbv beta in CB. etransitivity; [exact CB|]. clear CB.
  rewrite EM, seq_app, map_app. unfold rowsP. f_equal.
  - unfold rowsR. rewrite <- (eq_rows c q). apply map_ext_in. intros i Hi. apply in_seq in Hi.
    replace (m <=? i)%nat with false by (symmetry; apply Nat.leb_gt; lia). cbn [orb].
    unfold q. rewrite nth_error_firstn_lt by (unfold m in *; lia). reflexivity.
  - cbn [Nat.add]. rewrite <- (map_true_seq Wd (length q)). apply map_ext_in. intros i Hi. apply in_seq in Hi.
    replace (m <=? i)%nat with true by (symmetry; apply Nat.leb_le; lia). reflexivity.
Qed.
