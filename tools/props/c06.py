"""C06 - alignments survive a write/read round trip in every format."""
import json, os, tempfile, shutil
import gen
from props import fmtcommon as fc

def run(ck):
    ck.build(('omp',))
    ck.translate()
    ok = ck.prove()
    kvh = ck.harness('omp', 'kvh')
    model = ck.model()
    rng = ck.rng
    ck.rule = ('alignments (2..40 rows, every tenth 93..130 rows; widths 1..600 incl. multiples of 60; names of 1..200 characters from [A-Za-z0-9_.|-] incl. all-punctuation names and '
               'names that are prefixes of each other; upper/lower case) taken through write(f1) -> read -> finalise -> write(f2) -> read for all nine ordered '
               'format pairs; correspondence: every written file (bytes) and every read result (names, residues, gap vectors), model vs implementation; '
               'witness: final names and rows equal the original. Non-trivial = width > 60 or name longer than 10 characters; distinct by alignment x format pair')
    tmp = tempfile.mkdtemp(prefix='kv_c06_')
    wit, dis = [], []
    try:
        N = 40 if ck.tier == 'quick' else 400
        ver = open(os.path.join(ck.bdir, 'gen', 'VERSION')).read().strip()
        cases = []
        for k in range(N):
            kind, names, rows = fc.gen_alignment(rng)
            if k % 10 == 7:     # many rows: the header of an MSF file (one Name line per row) and the first block of a Clustal
                                # file grow past the 100 lines the format sniffer looks at
                nrow = rng.choice([93, 94, 95, 96, 99, 100, 101, 130])
                w = min(len(rows[0]), 75)
                rows = [rows[i % len(rows)][:w] for i in range(nrow)]
                rows = [r if any(ch.isalpha() for ch in r) else 'A' + r[1:] for r in rows]
                names = ['r%03d_%s' % (i, names[i % len(names)][:20]) for i in range(nrow)]
                ck.count('alignments of 93..130 rows')
            if k % 10 == 3:     # rows whose 512th / 1024th residue is followed (or preceded) by gaps: the readers grow the sequence and
                                # gap arrays at these residue counts
                R = rng.choice([512, 512, 1024])
                alpha = gen.DNA if kind == 'dna' else gen.PROT
                rows, tot = [], R + rng.range(20, 90)
                for i in range(rng.range(2, 4)):
                    cut = R + rng.choice([-1, 0, 0, 1]); g = rng.range(1, 9)
                    body = gen.rand_seq(rng, alpha, cut) + '-' * g + gen.rand_seq(rng, alpha, max(1, tot - cut - g))
                    rows.append(body[:tot].ljust(tot, '-'))
                names = ['b%d_%d' % (R, i) for i in range(len(rows))]
                ck.count('rows with gaps at the %d-residue boundary' % R)
            if k % 10 == 5:     # a wide alignment (>= 1024 columns) whose other rows are short sequences: they are all gaps in most blocks
                                # (finalisation grows a row buffer from the residue count to the alignment width); names made of digits
                                # and punctuation only, which a block reader must still take for names
                alpha = gen.DNA if kind == 'dna' else gen.PROT
                W = rng.choice([1030, 1100, 1300, 2100])
                long_row = gen.rand_seq(rng, alpha, W)
                rows = [long_row]
                for i in range(rng.range(3, 6)):
                    L = rng.choice([60, 90, 130, 300, 600]); at = rng.below(W - L)
                    rows.append('-' * at + gen.rand_seq(rng, alpha, L) + '-' * (W - at - L))
                names = ['7', '4_1', '2024-06.5|7', '12', '0.5', '3-3', '99|1'][:len(rows)]
                rng.shuffle(names)
                ck.count('>= 1024 columns with rows of 60..600 residues, numeric names')
            src = os.path.join(tmp, 's%d.fa' % k)
            open(src, 'w').write(gen.fasta(names, rows))
            cases.append((k, kind, names, rows, src))
        # stage 1: source -> f1
        st1 = []
        for (k, kind, names, rows, src) in cases:
            for f1 in ('fasta', 'msf', 'clu'):
                st1.append((k, f1, src, os.path.join(tmp, 'i_%d_%s' % (k, f1)), os.path.join(tmp, 'm_%d_%s' % (k, f1))))
        def rewrite(stage):
            il = ['rewrite %s %s %s' % (src, f, oi) for (_, f, src, oi, om) in [(s[0], s[1], s[2], s[3], s[4]) for s in stage]]
            ml = ['rewrite %s %s %s %s %s' % (s[2], s[1], s[4], gen.hexs(os.path.basename(s[3])), gen.hexs(ver)) for s in stage]
            ri = ck.run_lines(kvh, il, timeout=900); rm = ck.run_lines(model, ml, timeout=900)
            ck.evaluations += len(il)
            for s, a, b in zip(stage, ri, rm):
                ti, tm = fc.read_text(s[3]), fc.read_text(s[4])
                if a != b or (ti is not None and fc.mask_date(ti) != tm):
                    dis.append(('write ' + s[1], s[2], a, b))
            return ri
        r1 = rewrite(st1)
        # stage 2: f1 file (the implementation's) -> f2
        st2 = []
        for (k, f1, src, oi, om), r in zip(st1, r1):
            if not r.startswith('OK'):
                wit.append({'kind': 'write-failed', 'format': f1, 'case': k, 'implementation': r}); continue
            for f2 in ('fasta', 'msf', 'clu'):
                st2.append((k, f2, oi, os.path.join(tmp, 'i_%d_%s_%s' % (k, f1, f2)), os.path.join(tmp, 'm_%d_%s_%s' % (k, f1, f2)), f1))
        r2 = rewrite(st2)
        # stage 3: read the final files
        rl = ['readfiles %s' % s[3] for s in st2]
        ri = ck.run_lines(kvh, rl, timeout=900); rm = ck.run_lines(model, rl, timeout=900)
        ck.evaluations += len(rl)
        bycase = {c[0]: c for c in cases}
        for s, w, a, b in zip(st2, r2, ri, rm):
            k, f2, _, oi, om, f1 = s
            _, kind, names, rows, src = bycase[k]
            if a != b:
                dis.append(('read ' + f2, oi, a[:300], b[:300]))
            if not w.startswith('OK') or not a.startswith('OK'):
                wit.append({'kind': 'roundtrip-failed', 'pair': [f1, f2], 'names': names, 'rows': rows, 'write': w, 'read': a[:300]}); continue
            recs = a.split('recs=', 1)[1].split(';')
            got_names, got_rows = [], []
            for rec in recs:
                nm, res, gaps = rec.split(':')
                nm = '' if nm == '-' else bytes.fromhex(nm).decode('latin-1')
                res = '' if res == '-' else bytes.fromhex(res).decode('latin-1')
                g = [int(x) for x in gaps.split(',')]
                row = ''.join('-' * g[i] + res[i] for i in range(len(res))) + '-' * g[len(res)]
                got_names.append(nm); got_rows.append(row)
            if got_names != names or got_rows != rows:
                wit.append({'kind': 'roundtrip-changed-alignment', 'pair': [f1, f2], 'names': names, 'rows': rows, 'names_after': got_names, 'rows_after': got_rows})
            if len(rows[0]) > 60 or max(len(n) for n in names) > 10:
                ck.nontriv({'n': names[:2], 'r': rows[:1], 'p': [f1, f2]})
            ck.count('pair:%s->%s' % (f1, f2))
        ck.corr['Formats writers+readers vs msa_io.c'] = {'cases': len(st1) + len(st2) + len(rl), 'disagreements': len(dis)}
        ck.sample({'names': cases[0][2][:3], 'rows': [r[:70] for r in cases[0][3][:3]], 'final_read': ri[0][:300]})
    finally:
        shutil.rmtree(tmp, ignore_errors=True)
    seen = {}
    for w in wit:
        seen[w['kind']] = seen.get(w['kind'], 0) + 1
        if seen[w['kind']] <= 2:
            ck.violation('witness', w)
    if not wit:
        if not ok:
            ck.violation('proof', {'what_no_longer_checks': ck.proof['failed']}, nofail=True)
        elif dis:
            ck.violation('correspondence', {'what_no_longer_checks': 'correspondence of Formats (%s) with msa_io.c' % dis[0][0], 'first_disagreement': {'file': dis[0][1], 'implementation': dis[0][2], 'model': dis[0][3]}, 'disagreements': len(dis)}, nofail=True)

def replay(ck, obj):
    print(json.dumps(obj, indent=1)[:5000])
    return 0
