(* C08 in exact arithmetic: the kernel text of Kernels.v (passes, meetup, Hirschberg controller), run over integers
   extended with -infinity instead of binary32, returns the DIAGONAL on identical operands - for every length, whenever
   every residue's self-score outweighs the gap costs (2*gamma <= s(y,y) + 2*g for a gamma > 0) and the matrix satisfies
   2*s(x,y) <= s(x,x) + s(y,y).  The proof is a potential argument that never multiplies two unknowns. *)
From Coq Require Import ZArith List Bool Lia.
From KV Require Import Kernels KernelProofs CostProofs.
Import ListNotations.
Local Open Scope Z_scope.

(* ---- integers with -infinity ---------------------------------------------------------------------------------------- *)
Definition XT := option Z.
Definition xadd (x y : XT) : XT := match x, y with Some a, Some b => Some (a + b) | _, _ => None end.
Definition xmul (x y : XT) : XT := match x, y with Some a, Some b => Some (a * b) | _, _ => None end.
Definition xneg (x : XT) : XT := match x with Some a => Some (- a) | None => None end.
Definition xgt (x y : XT) : bool := match x, y with Some a, Some b => b <? a | Some _, None => true | None, _ => false end.
Definition xnonzero (x : XT) : bool := match x with Some 0 => false | _ => true end.

Notation "x +! y" := (xadd x y) (at level 50, left associativity).

(* the tie-break term of the meetup is any non-negative function of (startb, endb, i); kalign's is
   |(endb - startb)/2 + startb - i| / 1000, i.e. |endb + startb - 2 i| in units of 1/2000 *)
Section TB.
Variable tb : Z -> Z -> Z -> Z.
Hypothesis tb_nonneg : forall a b i, 0 <= tb a b i.
Definition alg_X : alg := mkAlg XT xadd xmul xneg xgt xnonzero (Some 0) None (fun z => Some z) (fun a b i => Some (tb a b i)).


(* 2*x <= u  (with -infinity below everything) *)
Definition ub2 (x : XT) (u : Z) : Prop := match x with None => True | Some v => 2 * v <= u end.

Lemma ub2_mono x u u' : ub2 x u -> u <= u' -> ub2 x u'.
Proof. unfold ub2. destruct x; intros; [lia|trivial]. Qed.
Lemma ub2_mx x y u : ub2 x u -> ub2 y u -> ub2 (mx alg_X x y) u.
Proof. unfold mx. cbn [gt alg_X]. destruct (xgt x y); trivial. Qed.
Lemma ub2_add x g u : ub2 x u -> ub2 (x +! Some g) (u + 2 * g).
Proof. unfold ub2, xadd. destruct x; intros; [lia|trivial]. Qed.
Lemma ub2_none u : ub2 None u. Proof. exact I. Qed.

Lemma mx_first v y : ub2 y (2 * v) -> exists w, mx alg_X (Some v) y = Some w /\ w = v.
Proof.
  intros H. unfold mx. cbn [gt alg_X xgt]. destruct y as [b|]; unfold ub2 in H.
  - destruct (Z.ltb_spec b v); [exists v; split; reflexivity|]. exists b. split; [reflexivity|lia].
  - exists v. split; reflexivity.
Qed.


Lemma Forall2_nth_intro {X Y} (P : X -> Y -> Prop) (d1 : X) (d2 : Y) : forall l1 l2, length l1 = length l2 ->
  (forall t, (t < length l1)%nat -> P (nth t l1 d1) (nth t l2 d2)) -> Forall2 P l1 l2.
Proof.
  induction l1 as [|x l1 IH]; intros [|y l2] L H; try discriminate; [constructor|].
  constructor; [apply (H 0%nat); cbn [length]; lia|]. apply IH; [cbn [length] in L; lia|]. intros t Ht. apply (H (S t)). cbn [length]. lia.
Qed.
Lemma nth_firstn_lt' {X} : forall k i (l : list X) d, (i < k)%nat -> nth i (firstn k l) d = nth i l d.
Proof.
  induction k as [|k IH]; intros i l d H; [lia|]. destruct l as [|x l]; [destruct i; reflexivity|].
  destruct i; [reflexivity|]. cbn [firstn nth]. apply IH. lia.
Qed.
Lemma nth_skipn' {X} : forall s t (l : list X) d, nth t (skipn s l) d = nth (s + t) l d.
Proof. induction s as [|s IH]; intros t l d; [reflexivity|]. destruct l as [|x l]; [destruct t; reflexivity|]. cbn [skipn Nat.add nth]. apply IH. Qed.
Lemma nth_error_skipn' {X} : forall s t (l : list X), nth_error (skipn s l) t = nth_error l (s + t).
Proof. induction s as [|s IH]; intros t l; [reflexivity|]. destruct l as [|x l]; [destruct t; reflexivity|]. cbn [skipn Nat.add nth_error]. apply IH. Qed.
Lemma split_at_nth {X} (d : X) : forall m (l : list X), (m < length l)%nat -> l = firstn m l ++ nth m l d :: skipn (S m) l.
Proof.
  induction m as [|m IH]; intros [|x l] Hl; cbn [length] in Hl; try lia; [reflexivity|].
  cbn [firstn nth skipn app]. f_equal. apply IH. lia.
Qed.
Lemma nth_error_firstn_lt {X} : forall k i (l : list X), (i < k)%nat -> nth_error (firstn k l) i = nth_error l i.
Proof.
  induction k as [|k IH]; intros i l H; [lia|]. destruct l as [|x l]; [destruct i; reflexivity|].
  destruct i; [reflexivity|]. cbn [firstn nth_error]. apply IH. lia.
Qed.

Section Diag.
Variables R C : Type.
Variable K : costs alg_X R C.
Variable pR : R -> Z.
Variable pC : C -> Z.
Variable eR : R -> Z.
Variable gam : Z.
Variable dpair : R -> C -> Prop.
Hypothesis Hgam : 0 < gam.
Hypothesis Hmatch_ub : forall r c x u, ub2 x u -> ub2 (k_match alg_X R C K r c x) (u + pR r + pC c).
Hypothesis Hmatch_dg : forall r c v, dpair r c -> k_match alg_X R C K r c (Some v) = Some (v + eR r) /\ 2 * eR r = pR r + pC c.
Hypothesis Hga : forall c, exists g1 g2 g3, k_ga_ext alg_X R C K c = Some g1 /\ k_ga_open alg_X R C K c = Some g2 /\ k_ga_text alg_X R C K c = Some g3 /\
  2 * g1 <= pC c - 2 * gam /\ 2 * g2 <= pC c - 2 * gam /\ 2 * g3 <= pC c - 2 * gam.
Hypothesis Hgb : forall r, exists g1 g2 g3, k_gb_ext alg_X R C K r = Some g1 /\ k_gb_open alg_X R C K r = Some g2 /\ k_gb_text alg_X R C K r = Some g3 /\
  2 * g1 <= pR r - 2 * gam /\ 2 * g2 <= pR r - 2 * gam /\ 2 * g3 <= pR r - 2 * gam.
Hypothesis Hga_a : forall c, exists g, k_ga_to_a alg_X R C K c = Some g /\ g <= 0.
Hypothesis Hgb_a : forall r, exists g, k_gb_to_a alg_X R C K r = Some g /\ g <= 0.

Notation cellX := (cell alg_X).

(* a cell at row i, column j, with potential B *)
Definition cellP (i j : nat) (B : Z) (cl : cellX) : Prop :=
  ub2 (c_a alg_X cl) (B - (if (i =? j)%nat then 0 else 2 * gam)) /\ ub2 (c_ga alg_X cl) (B - 2 * gam) /\ ub2 (c_gb alg_X cl) (B - 2 * gam) /\
  (i = j -> exists e, c_a alg_X cl = Some e /\ 2 * e = B).

Fixpoint bnds_ok (b : Z) (cols : list C) (bnds : list Z) : Prop :=
  match cols, bnds with
  | c :: cols', b' :: bnds' => b' = b + pC c /\ bnds_ok b' cols' bnds'
  | [], [] => True
  | _, _ => False
  end.

Fixpoint row_ok (i j : nat) (PRi : Z) (bnds : list Z) (cells : list cellX) : Prop :=
  match cells, bnds with
  | cl :: cells', b :: bnds' => cellP i j (PRi + b) cl /\ row_ok i (S j) PRi bnds' cells'
  | [], [] => True
  | _, _ => False
  end.

Lemma cellP_dead i j B : i <> j -> cellP i j B (dead alg_X).
Proof. intros H. repeat split; try exact I. intro E; contradiction. Qed.

(* the three-way max in front of a match: bounded, and exact on the diagonal *)
Lemma mx3_bound i j B pa pga pgb g1 g2 : cellP i j B (pa, pga, pgb) -> g1 <= 0 -> g2 <= 0 ->
  ub2 (mx3 alg_X pa (pga +! Some g1) (pgb +! Some g2)) (B - (if (i =? j)%nat then 0 else 2 * gam)) /\
  (i = j -> exists e, mx3 alg_X pa (pga +! Some g1) (pgb +! Some g2) = Some e /\ 2 * e = B).
Proof.
  intros (Ha & Hga' & Hgb' & Hd) G1 G2. unfold c_a, c_ga, c_gb in *. cbn [fst snd] in *.
  assert (U1 : ub2 (pga +! Some g1) (B - 2 * gam)) by (eapply ub2_mono; [apply ub2_add; exact Hga'|lia]).
  assert (U2 : ub2 (pgb +! Some g2) (B - 2 * gam)) by (eapply ub2_mono; [apply ub2_add; exact Hgb'|lia]).
  split.
  - unfold mx3. apply ub2_mx; [apply ub2_mx|].
    + exact Ha.
    + eapply ub2_mono; [exact U1|]. destruct (i =? j)%nat; lia.
    + eapply ub2_mono; [exact U2|]. destruct (i =? j)%nat; lia.
  - intros E. destruct (Hd E) as (e & Ee & E2). rewrite Ee. unfold mx3.
    destruct (mx_first e (pga +! Some g1)) as (w & Ew & ->); [eapply ub2_mono; [exact U1|lia]|]. rewrite Ew.
    destruct (mx_first e (pgb +! Some g2)) as (w & Ew' & ->); [eapply ub2_mono; [exact U2|lia]|]. rewrite Ew'.
    exists e. split; [reflexivity|exact E2].
Qed.

(* one interior cell of the new row *)
Lemma new_cell_ok i' jm b c r PRo PRi pa pga pgb xa xga (o : cellX) (terminal : bool) :
  PRi = PRo + pR r ->
  cellP i' jm (PRo + b) (pa, pga, pgb) -> cellP i' (S jm) (PRo + b + pC c) o ->
  ub2 xa (PRi + b) -> ub2 xga (PRi + b - 2 * gam) ->
  (i' = jm -> dpair r c) ->
  let na := k_match alg_X R C K r c (mx3 alg_X pa (pga +! k_ga_to_a alg_X R C K c) (pgb +! k_gb_to_a alg_X R C K r)) in
  let nga := mx alg_X (xga +! k_ga_ext alg_X R C K c) (xa +! k_ga_open alg_X R C K c) in
  let ngb := if terminal then mx alg_X (c_gb alg_X o) (c_a alg_X o) +! k_gb_text alg_X R C K r
             else mx alg_X (c_gb alg_X o +! k_gb_ext alg_X R C K r) (c_a alg_X o +! k_gb_open alg_X R C K r) in
  cellP (S i') (S jm) (PRi + b + pC c) (na, nga, ngb) /\ cellP (S i') (S jm) (PRi + b + pC c) (na, None, ngb).
Proof.
  intros EP Hp Ho Hxa Hxga Hd. cbv zeta.
  destruct (Hga_a c) as (g1 & E1 & G1). destruct (Hgb_a r) as (g2 & E2 & G2). rewrite E1, E2.
  destruct (mx3_bound i' jm (PRo + b) pa pga pgb g1 g2 Hp G1 G2) as [MB MD].
  destruct (Hga c) as (a1 & a2 & a3 & A1 & A2 & A3 & L1 & L2 & L3). destruct (Hgb r) as (b1 & b2 & b3 & B1 & B2 & B3 & M1 & M2 & M3).
  rewrite A1, A2, B1, B2, B3.
  destruct Ho as (Oa & Oga & Ogb & _).
  assert (Eq : (S i' =? S jm)%nat = (i' =? jm)%nat) by reflexivity.
  assert (NA : ub2 (k_match alg_X R C K r c (mx3 alg_X pa (pga +! Some g1) (pgb +! Some g2))) (PRi + b + pC c - (if (S i' =? S jm)%nat then 0 else 2 * gam))).
  { rewrite Eq. eapply ub2_mono; [apply Hmatch_ub; exact MB|]. lia. }
  assert (NG : ub2 (mx alg_X (xga +! Some a1) (xa +! Some a2)) (PRi + b + pC c - 2 * gam)).
  { apply ub2_mx; (eapply ub2_mono; [apply ub2_add; eassumption|lia]). }
  assert (NB : ub2 (if terminal then mx alg_X (c_gb alg_X o) (c_a alg_X o) +! Some b3
                    else mx alg_X (c_gb alg_X o +! Some b1) (c_a alg_X o +! Some b2)) (PRi + b + pC c - 2 * gam)).
  { assert (Oa' : ub2 (c_a alg_X o) (PRo + b + pC c)) by (eapply ub2_mono; [exact Oa|]; destruct (i' =? S jm)%nat; lia).
    destruct terminal.
    - assert (M : ub2 (mx alg_X (c_gb alg_X o) (c_a alg_X o)) (PRo + b + pC c)) by (apply ub2_mx; [eapply ub2_mono; [exact Ogb|lia]|exact Oa']).
      eapply ub2_mono; [apply ub2_add; exact M|lia].
    - apply ub2_mx; (eapply ub2_mono; [apply ub2_add; eassumption|lia]). }
  assert (ND : S i' = S jm -> exists e, k_match alg_X R C K r c (mx3 alg_X pa (pga +! Some g1) (pgb +! Some g2)) = Some e /\ 2 * e = PRi + b + pC c).
  { intros E. injection E as E. destruct (MD E) as (e & Ee & E2'). rewrite Ee.
    destruct (Hmatch_dg r c e (Hd E)) as (Em & Ed). rewrite Em. exists (e + eR r). split; [reflexivity|lia]. }
  split; (split; [exact NA|split; [first [exact NG|exact I]|split; [exact NB|exact ND]]]).
Qed.

Lemma cellP_a_ub i j B a ga gb : cellP i j B (a, ga, gb) -> ub2 a B /\ ub2 ga (B - 2 * gam).
Proof. intros (Ha & Hg & _). unfold c_a, c_ga in *. cbn [fst snd] in *. split; [eapply ub2_mono; [exact Ha|]; destruct (i =? j)%nat; lia|exact Hg]. Qed.

Lemma row_cells_ok : forall cols old bnds i' jm b r PRo PRi li pa pga pgb xa xga,
  PRi = PRo + pR r ->
  bnds_ok b cols bnds -> row_ok i' (S jm) PRo bnds old ->
  cellP i' jm (PRo + b) (pa, pga, pgb) -> ub2 xa (PRi + b) -> ub2 xga (PRi + b - 2 * gam) ->
  (forall k c, nth_error cols k = Some c -> i' = (jm + k)%nat -> dpair r c) ->
  row_ok (S i') (S jm) PRi bnds (row_cells alg_X R C K li r pa pga pgb xa xga old cols).
Proof.
  induction cols as [|c cols IH]; intros old bnds i' jm b r PRo PRi li pa pga pgb xa xga EP Hb Ho Hp Hxa Hxga Hd.
  - destruct bnds; [|contradiction]. destruct old; [exact I|contradiction].
  - destruct bnds as [|b' bnds]; [contradiction|]. destruct Hb as [-> Hb].
    destruct old as [|o old]; [contradiction|]. destruct Ho as [Ho Hold].
    assert (Hd0 : i' = jm -> dpair r c) by (intros E; apply (Hd 0%nat c eq_refl); lia).
    replace (PRo + (b + pC c)) with (PRo + b + pC c) in Ho by lia.
    destruct cols as [|c2 cols'].
    + destruct bnds; [|contradiction]. destruct old; [|contradiction].
      cbn [row_cells].
      destruct (new_cell_ok i' jm b c r PRo PRi pa pga pgb xa xga o (negb li) EP Hp Ho Hxa Hxga Hd0) as [_ N2].
      cbv zeta in N2. cbn [row_ok]. split; [|exact I].
      replace (PRi + (b + pC c)) with (PRi + b + pC c) by lia.
      destruct li; exact N2.
    + destruct old as [|o2 old']; [destruct bnds; contradiction|].
      rewrite row_cells_cons. cbv zeta.
      destruct (new_cell_ok i' jm b c r PRo PRi pa pga pgb xa xga o false EP Hp Ho Hxa Hxga Hd0) as [N1 _].
      cbv zeta in N1. cbn [row_ok]. split; [replace (PRi + (b + pC c)) with (PRi + b + pC c) by lia; exact N1|].
      destruct o as [[oa oga] ogb]. unfold c_a, c_ga, c_gb. cbn [fst snd].
      destruct (cellP_a_ub _ _ _ _ _ _ N1) as [U1 U2].
      apply (IH (o2 :: old') bnds i' (S jm) (b + pC c) r PRo PRi li oa oga ogb); try assumption.
      * replace (PRo + (b + pC c)) with (PRo + b + pC c) by lia. exact Ho.
      * replace (PRi + (b + pC c)) with (PRi + b + pC c) by lia. exact U1.
      * replace (PRi + (b + pC c) - 2 * gam) with (PRi + b + pC c - 2 * gam) by lia. exact U2.
      * intros k c' Hk E. apply (Hd (S k) c' Hk). lia.
Qed.

Lemma row_step_ok cells cols bnds i' r PRo PRi fi li :
  PRi = PRo + pR r -> bnds_ok 0 cols bnds -> row_ok i' 0 PRo (0 :: bnds) cells ->
  (forall c, nth_error cols i' = Some c -> dpair r c) ->
  row_ok (S i') 0 PRi (0 :: bnds) (row_step alg_X R C K fi li cells cols r).
Proof.
  intros EP Hb Hc Hd. destruct cells as [|o0 old]; [contradiction|]. destruct Hc as [H0 Hold]. unfold row_step.
  destruct (Hgb r) as (b1 & b2 & b3 & B1 & B2 & B3 & M1 & M2 & M3). rewrite B1, B2, B3.
  cbn [row_ok]. split.
  - rewrite Z.add_0_r in *. destruct H0 as (Oa & Oga & Ogb & _).
    assert (Oa' : ub2 (c_a alg_X o0) PRo) by (eapply ub2_mono; [exact Oa|]; destruct (i' =? 0)%nat; lia).
    split; [exact I|split; [exact I|split; [|intro E; discriminate]]]. unfold c_gb at 1. cbn [snd].
    destruct fi.
    + apply ub2_mx; (eapply ub2_mono; [apply ub2_add; eassumption|lia]).
    + assert (M : ub2 (mx alg_X (c_gb alg_X o0) (c_a alg_X o0)) PRo) by (apply ub2_mx; [eapply ub2_mono; [exact Ogb|lia]|exact Oa']).
      eapply ub2_mono; [apply ub2_add; exact M|lia].
  - destruct o0 as [[oa oga] ogb]. unfold c_a, c_ga, c_gb. cbn [fst snd].
    apply (row_cells_ok cols old bnds i' 0%nat 0 r PRo PRi li oa oga ogb None None EP Hb Hold H0); try exact I.
    intros k c Hk E. cbn [Nat.add] in E. subst k. apply Hd. exact Hk.
Qed.

(* the border row: s[startb] = (0, -inf, -inf), then a gap run along the border *)
Lemma init_cells_ok : forall cols bnds b fi prev j, bnds_ok b cols bnds ->
  ub2 (c_a alg_X prev) b -> ub2 (c_ga alg_X prev) (b - 2 * gam) ->
  row_ok 0 (S j) 0 bnds (init_cells alg_X R C K fi prev cols).
Proof.
  induction cols as [|c cols IH]; intros bnds b fi prev j Hb Ha Hg.
  - destruct bnds; [exact I|contradiction].
  - destruct bnds as [|b' bnds]; [contradiction|]. destruct Hb as [-> Hb].
    destruct (Hga c) as (a1 & a2 & a3 & A1 & A2 & A3 & L1 & L2 & L3).
    destruct cols as [|c2 cols'].
    + destruct bnds; [|contradiction]. cbn [init_cells row_ok]. split; [|exact I]. apply cellP_dead. discriminate.
    + cbn [init_cells]. rewrite A1, A2, A3.
      set (ga := if fi then mx alg_X (c_ga alg_X prev +! Some a1) (c_a alg_X prev +! Some a2) else mx alg_X (c_ga alg_X prev) (c_a alg_X prev) +! Some a3).
      assert (G : ub2 ga (0 + (b + pC c) - 2 * gam)).
      { unfold ga. destruct fi.
        - apply ub2_mx; (eapply ub2_mono; [apply ub2_add; eassumption|lia]).
        - assert (M : ub2 (mx alg_X (c_ga alg_X prev) (c_a alg_X prev)) b) by (apply ub2_mx; [eapply ub2_mono; [exact Hg|lia]|exact Ha]).
          eapply ub2_mono; [apply ub2_add; exact M|lia]. }
      cbn [row_ok]. split.
      * split; [exact I|split; [exact G|split; [exact I|intro E; discriminate]]].
      * apply (IH bnds (b + pC c) fi (None, ga, None) (S j) Hb); unfold c_a, c_ga; cbn [fst snd]; [exact I|]. eapply ub2_mono; [exact G|lia].
Qed.

Lemma pass_ok : forall rows cols bnds fi li i' PRo cells,
  bnds_ok 0 cols bnds -> row_ok i' 0 PRo (0 :: bnds) cells ->
  (forall k r c, nth_error rows k = Some r -> nth_error cols (i' + k) = Some c -> dpair r c) ->
  row_ok (i' + length rows) 0 (PRo + fold_right (fun r acc => pR r + acc) 0 rows) (0 :: bnds)
         (fold_left (fun cells r => row_step alg_X R C K fi li cells cols r) rows cells).
Proof.
  induction rows as [|r rows IH]; intros cols bnds fi li i' PRo cells Hb Hc Hd.
  - cbn [fold_left fold_right length]. rewrite Nat.add_0_r, Z.add_0_r. exact Hc.
  - cbn [fold_left fold_right length].
    replace (i' + S (length rows))%nat with (S i' + length rows)%nat by lia.
    replace (PRo + (pR r + fold_right (fun r0 acc => pR r0 + acc) 0 rows)) with ((PRo + pR r) + fold_right (fun r0 acc => pR r0 + acc) 0 rows) by lia.
    apply IH; [exact Hb| |].
    + apply (row_step_ok cells cols bnds i' r PRo (PRo + pR r) fi li eq_refl Hb Hc).
      intros c Hk. apply (Hd 0%nat r c eq_refl). rewrite Nat.add_0_r. exact Hk.
    + intros k r' c Hr Hk. apply (Hd (S k) r' c Hr). replace (i' + S k)%nat with (S i' + k)%nat by lia. exact Hk.
Qed.

(* ---- reading a row by index ---------------------------------------------------------------------------------------- *)
Definition sumC (l : list C) : Z := fold_right (fun c acc => pC c + acc) 0 l.
Definition sumR (l : list R) : Z := fold_right (fun r acc => pR r + acc) 0 l.

Lemma sumC_app a b : sumC (a ++ b) = sumC a + sumC b.
Proof. unfold sumC. induction a as [|x a IH]; cbn [app fold_right]; [lia|]. rewrite IH. lia. Qed.
Lemma sumC_cons x l : sumC (x :: l) = pC x + sumC l.
Proof. reflexivity. Qed.
Lemma sumC_rev l : sumC (rev l) = sumC l.
Proof. induction l as [|x l IH]; [reflexivity|]. cbn [rev]. rewrite sumC_app, IH, !sumC_cons. unfold sumC at 2. cbn [fold_right]. lia. Qed.
Lemma sumC_split j l : sumC (firstn j l) + sumC (skipn j l) = sumC l.
Proof. rewrite <- sumC_app, firstn_skipn. reflexivity. Qed.
Lemma sumR_app a b : sumR (a ++ b) = sumR a + sumR b.
Proof. unfold sumR. induction a as [|x a IH]; cbn [app fold_right]; [lia|]. rewrite IH. lia. Qed.
Lemma sumR_cons x l : sumR (x :: l) = pR x + sumR l.
Proof. reflexivity. Qed.
Lemma sumR_rev l : sumR (rev l) = sumR l.
Proof. induction l as [|x l IH]; [reflexivity|]. cbn [rev]. rewrite sumR_app, IH, !sumR_cons. unfold sumR at 2. cbn [fold_right]. lia. Qed.

Lemma row_ok_nth : forall cells bnds cols i j0 PR b, bnds_ok b cols bnds -> row_ok i j0 PR bnds cells ->
  length cells = length cols /\ forall t, (t < length cells)%nat ->
    cellP i (j0 + t) (PR + b + sumC (firstn (S t) cols)) (nth t cells (dead alg_X)).
Proof.
  induction cells as [|cl cells IH]; intros bnds cols i j0 PR b Hb Hr.
  - destruct bnds; [|contradiction]. destruct cols; [|contradiction]. split; [reflexivity|]. intros t Ht. cbn [length] in Ht. lia.
  - destruct bnds as [|b' bnds]; [contradiction|]. destruct cols as [|c cols]; [contradiction|]. destruct Hb as [-> Hb]. destruct Hr as [H0 Hr].
    destruct (IH bnds cols i (S j0) PR (b + pC c) Hb Hr) as [L N]. split; [cbn [length]; rewrite L; reflexivity|].
    intros [|t] Ht.
    + cbn [nth firstn]. rewrite sumC_cons. unfold sumC. cbn [fold_right]. rewrite Nat.add_0_r. replace (PR + b + (pC c + 0)) with (PR + (b + pC c)) by lia. exact H0.
    + cbn [nth]. cbn [length] in Ht. specialize (N t ltac:(lia)). replace (j0 + S t)%nat with (S j0 + t)%nat by lia.
      replace (PR + b + sumC (firstn (S (S t)) (c :: cols))) with (PR + (b + pC c) + sumC (firstn (S t) cols)); [exact N|].
      change (firstn (S (S t)) (c :: cols)) with (c :: firstn (S t) cols). rewrite sumC_cons. lia.
Qed.

(* a full row (border cell first) by index *)
Lemma full_row_nth cells bnds cols i PR : bnds_ok 0 cols bnds -> row_ok i 0 PR (0 :: bnds) cells ->
  length cells = S (length cols) /\ forall t, (t <= length cols)%nat -> cellP i t (PR + sumC (firstn t cols)) (nth t cells (dead alg_X)).
Proof.
  intros Hb Hr. destruct cells as [|c0 cells]; [contradiction|]. destruct Hr as [H0 Hr].
  destruct (row_ok_nth cells bnds cols i 1%nat PR 0 Hb Hr) as [L N]. split; [cbn [length]; rewrite L; reflexivity|].
  intros [|t] Ht.
  - cbn [nth firstn]. unfold sumC. cbn [fold_right]. rewrite Z.add_0_r in *. exact H0.
  - cbn [nth]. specialize (N t ltac:(lia)). cbn [Nat.add] in N. rewrite Z.add_0_r in N. exact N.
Qed.
(* ---- the meetup on a diagonal square --------------------------------------------------------------------------------- *)
Lemma ub2_xadd x y u v : ub2 x u -> ub2 y v -> ub2 (x +! y) (u + v).
Proof. unfold ub2, xadd. destruct x, y; intros; try trivial. lia. Qed.

Section MeetDiag.
Variable M : mcosts alg_X.
Hypothesis M1 : forall i, exists g, m_a_ga alg_X M i = Some g /\ g <= 0.
Hypothesis M2 : exists g, m_a_gb alg_X M = Some g /\ g <= 0.
Hypothesis M3 : forall i, exists g, m_ga_a alg_X M i = Some g /\ g <= 0.
Hypothesis M4 : exists g, m_gb_gb_int alg_X M = Some g /\ g <= 0.
Hypothesis M5 : exists g, m_gb_gb_term alg_X M = Some g /\ g <= 0.
Hypothesis M6 : exists g, m_gb_a alg_X M = Some g /\ g <= 0.

Definition bval (best : XT * Z * Z) : XT := fst (fst best).

(* a cell seen only through its three upper bounds *)
Definition cell_ub (cl : cellX) (Ba Bg : Z) : Prop := ub2 (c_a alg_X cl) Ba /\ ub2 (c_ga alg_X cl) Bg /\ ub2 (c_gb alg_X cl) Bg.

Lemma better_weak cand code i best U : ub2 cand U -> ub2 (bval best) U -> ub2 (bval (better alg_X cand code i best)) U.
Proof. intros Hc Hb. unfold better. destruct best as [[mxv tr] c]. cbn [gt alg_X]. destruct (xgt cand mxv); cbn [bval fst]; assumption. Qed.

Lemma better_keep cand code i v tr c U : ub2 cand U -> U < 2 * v -> better alg_X cand code i (Some v, tr, c) = (Some v, tr, c).
Proof.
  intros Hc Hu. unfold better. destruct cand as [w|]; cbn [gt alg_X xgt]; [|reflexivity]. unfold ub2 in Hc.
  destruct (Z.ltb_spec v w); [lia|reflexivity].
Qed.

Lemma ub2_sub x s u : 0 <= s -> ub2 x u -> ub2 (x +! xneg (Some s)) u.
Proof. unfold ub2, xadd, xneg. destruct x; intros; [lia|trivial]. Qed.

(* all candidates of a column whose cells are bounded are bounded *)
Ltac cand_ub Hs := apply ub2_sub; [exact Hs|]; eapply ub2_mono; [first [apply ub2_add, ub2_xadd; eassumption | apply ub2_xadd; eassumption]|lia].

Lemma meet_col_weak flag s i f b best Fa Fg Ba Bg U : 0 <= s ->
  cell_ub f Fa Fg -> cell_ub b Ba Bg ->
  Fa + Ba <= U -> Fa + Bg <= U -> Fg + Ba <= U -> Fg + Bg <= U ->
  ub2 (bval best) U -> ub2 (bval (meet_col alg_X M flag (Some s) i f b best)) U.
Proof.
  intros Hs (F1 & F2 & F3) (B1 & B2 & B3) L1 L2 L3 L4 Hb. unfold meet_col. cbn [neg add alg_X].
  destruct (M1 i) as (g1 & E1 & G1). destruct M2 as (g2 & E2 & G2). destruct (M3 i) as (g3 & E3 & G3).
  destruct M4 as (g4 & E4 & G4). destruct M5 as (g5 & E5 & G5). destruct M6 as (g6 & E6 & G6).
  rewrite E1, E2, E3, E6.
  apply better_weak; [cand_ub Hs|].
  apply better_weak; [destruct flag; [rewrite E5|rewrite E4]; cand_ub Hs|].
  apply better_weak; [cand_ub Hs|].
  apply better_weak; [cand_ub Hs|].
  apply better_weak; [cand_ub Hs|].
  apply better_weak; [cand_ub Hs|exact Hb].
Qed.

Lemma meet_col_keep flag s i f b v tr c Fa Fg Ba Bg U : 0 <= s ->
  cell_ub f Fa Fg -> cell_ub b Ba Bg ->
  Fa + Ba <= U -> Fa + Bg <= U -> Fg + Ba <= U -> Fg + Bg <= U -> U < 2 * v ->
  meet_col alg_X M flag (Some s) i f b (Some v, tr, c) = (Some v, tr, c).
Proof.
  intros Hs (F1 & F2 & F3) (B1 & B2 & B3) L1 L2 L3 L4 Hv. unfold meet_col. cbn [neg add alg_X].
  destruct (M1 i) as (g1 & E1 & G1). destruct M2 as (g2 & E2 & G2). destruct (M3 i) as (g3 & E3 & G3).
  destruct M4 as (g4 & E4 & G4). destruct M5 as (g5 & E5 & G5). destruct M6 as (g6 & E6 & G6).
  rewrite E1, E2, E3, E6.
  rewrite (better_keep _ 1 i v tr c U) by first [exact Hv|cand_ub Hs].
  rewrite (better_keep _ 2 i v tr c U) by first [exact Hv|cand_ub Hs].
  rewrite (better_keep _ 3 i v tr c U) by first [exact Hv|cand_ub Hs].
  rewrite (better_keep _ 5 i v tr c U) by first [exact Hv|cand_ub Hs].
  rewrite (better_keep _ 6 i v tr c U) by first [exact Hv|destruct flag; [rewrite E5|rewrite E4]; cand_ub Hs].
  apply (better_keep _ 7 i v tr c U); [cand_ub Hs|exact Hv].
Qed.

(* the diagonal column: candidate 1 is exact and wins *)
Lemma meet_col_diag flag s i f b best ea eb Fg Bg U : 0 <= s ->
  c_a alg_X f = Some ea -> c_a alg_X b = Some eb -> ub2 (c_ga alg_X f) Fg -> ub2 (c_gb alg_X f) Fg -> ub2 (c_ga alg_X b) Bg -> ub2 (c_gb alg_X b) Bg ->
  2 * ea + Bg <= U -> Fg + 2 * eb <= U -> Fg + Bg <= U -> U < 2 * (ea + eb - s) -> ub2 (bval best) U ->
  meet_col alg_X M flag (Some s) i f b best = (Some (ea + eb - s), 1, i).
Proof.
  intros Hs Ea Eb F2 F3 B2 B3 L2 L3 L4 Hv Hb. unfold meet_col. cbn [neg add alg_X]. rewrite Ea, Eb.
  destruct (M1 i) as (g1 & E1 & G1). destruct M2 as (g2 & E2 & G2). destruct (M3 i) as (g3 & E3 & G3).
  destruct M4 as (g4 & E4 & G4). destruct M5 as (g5 & E5 & G5). destruct M6 as (g6 & E6 & G6).
  rewrite E1, E2, E3, E6.
  assert (B1 : better alg_X (Some ea +! Some eb +! xneg (Some s)) 1 i best = (Some (ea + eb - s), 1, i)).
  { unfold better. destruct best as [[mxv tr] c]. cbn [gt alg_X xgt xadd xneg bval fst] in *. replace (ea + eb + - s) with (ea + eb - s) by lia.
    destruct mxv as [w|]; [|reflexivity].
    unfold ub2 in Hb. destruct (Z.ltb_spec w (ea + eb - s)); [reflexivity|lia]. }
  rewrite B1.
  assert (U1 : ub2 (Some ea) (2 * ea)) by (unfold ub2; lia). assert (U2 : ub2 (Some eb) (2 * eb)) by (unfold ub2; lia).
  rewrite (better_keep _ 2 i (ea + eb - s) 1 i U) by first [exact Hv|cand_ub Hs].
  rewrite (better_keep _ 3 i (ea + eb - s) 1 i U) by first [exact Hv|cand_ub Hs].
  rewrite (better_keep _ 5 i (ea + eb - s) 1 i U) by first [exact Hv|cand_ub Hs].
  rewrite (better_keep _ 6 i (ea + eb - s) 1 i U) by first [exact Hv|destruct flag; [rewrite E5|rewrite E4]; cand_ub Hs].
  apply (better_keep _ 7 i (ea + eb - s) 1 i U); [cand_ub Hs|exact Hv].
Qed.

Lemma meet_last_weak flag s i f b best Fa Fg Ba Bg U : 0 <= s ->
  cell_ub f Fa Fg -> cell_ub b Ba Bg -> Fa + Bg <= U -> Fg + Bg <= U ->
  ub2 (bval best) U -> ub2 (bval (meet_last alg_X M flag (Some s) i f b best)) U.
Proof.
  intros Hs (F1 & F2 & F3) (B1 & B2 & B3) L2 L4 Hb. unfold meet_last. cbn [neg add alg_X].
  destruct M2 as (g2 & E2 & G2). destruct M4 as (g4 & E4 & G4). destruct M5 as (g5 & E5 & G5). rewrite E2.
  apply better_weak; [destruct flag; [rewrite E5|rewrite E4]; cand_ub Hs|].
  apply better_weak; [cand_ub Hs|exact Hb].
Qed.

Lemma meet_last_keep flag s i f b v tr c Fa Fg Ba Bg U : 0 <= s ->
  cell_ub f Fa Fg -> cell_ub b Ba Bg -> Fa + Bg <= U -> Fg + Bg <= U -> U < 2 * v ->
  meet_last alg_X M flag (Some s) i f b (Some v, tr, c) = (Some v, tr, c).
Proof.
  intros Hs (F1 & F2 & F3) (B1 & B2 & B3) L2 L4 Hv. unfold meet_last. cbn [neg add alg_X].
  destruct M2 as (g2 & E2 & G2). destruct M4 as (g4 & E4 & G4). destruct M5 as (g5 & E5 & G5). rewrite E2.
  rewrite (better_keep _ 3 i v tr c U) by first [exact Hv|cand_ub Hs].
  apply (better_keep _ 6 i v tr c U); [destruct flag; [rewrite E5|rewrite E4]; cand_ub Hs|exact Hv].
Qed.

(* a column off the diagonal / the diagonal column, relative to the threshold U and the value E kept from the diagonal *)
Variable U : Z.
Variable E : Z.
Hypothesis HUE : U < 2 * E.
Definition off_col (f b : cellX) : Prop :=
  exists Fa Fg Ba Bg, cell_ub f Fa Fg /\ cell_ub b Ba Bg /\ Fa + Ba <= U /\ Fa + Bg <= U /\ Fg + Ba <= U /\ Fg + Bg <= U.
Definition diag_col (s : Z) (f b : cellX) : Prop :=
  exists ea eb Fg Bg, c_a alg_X f = Some ea /\ c_a alg_X b = Some eb /\ ea + eb - s = E /\
    ub2 (c_ga alg_X f) Fg /\ ub2 (c_gb alg_X f) Fg /\ ub2 (c_ga alg_X b) Bg /\ ub2 (c_gb alg_X b) Bg /\
    2 * ea + Bg <= U /\ Fg + 2 * eb <= U /\ Fg + Bg <= U.

Lemma scan_keep sz el sb eb : forall fs bs i tr c, Forall2 off_col fs bs ->
  meet_scan alg_X M sz el sb eb i fs bs (Some E, tr, c) = (Some E, tr, c).
Proof.
  induction fs as [|f fs IH]; intros bs i tr c H; inversion H as [|? b ? bs' Hc Hr]; subst; [reflexivity|].
  destruct Hc as (Fa & Fg & Ba & Bg & Cf & Cb & L1 & L2 & L3 & L4).
  destruct fs as [|f2 fs'].
  - inversion Hr; subst. cbn [meet_scan tiebreak alg_X]. apply (meet_last_keep el _ i f b E tr c Fa Fg Ba Bg U); try assumption. apply tb_nonneg.
  - inversion Hr as [|? b2 ? bs'' Hc2 Hr2]; subst.
    change (meet_scan alg_X M sz el sb eb i (f :: f2 :: fs') (b :: b2 :: bs'') (Some E, tr, c))
      with (meet_scan alg_X M sz el sb eb (i + 1) (f2 :: fs') (b2 :: bs'') (meet_col alg_X M (i =? 0) (Some (tb sb eb i)) i f b (Some E, tr, c))).
    rewrite (meet_col_keep (i =? 0) _ i f b E tr c Fa Fg Ba Bg U) by first [assumption|apply tb_nonneg]. apply IH. exact Hr.
Qed.

Lemma scan_find sz el sb eb : forall pf pb i fd bd qf qb best, Forall2 off_col pf pb ->
  diag_col (tb sb eb (i + Z.of_nat (length pf))) fd bd -> Forall2 off_col qf qb -> qf <> [] ->
  ub2 (bval best) U ->
  meet_scan alg_X M sz el sb eb i (pf ++ fd :: qf) (pb ++ bd :: qb) best = (Some E, 1, i + Z.of_nat (length pf)).
Proof.
  induction pf as [|f pf IH]; intros pb i fd bd qf qb best Hp Hd Hq Hne Hb; inversion Hp as [|? b ? pb' Hc Hr]; subst.
  - cbn [app length Z.of_nat] in *. rewrite Z.add_0_r in *.
    destruct qf as [|f2 qf']; [congruence|]. inversion Hq as [|? b2 ? qb' Hc2 Hr2]; subst.
    change (meet_scan alg_X M sz el sb eb i (fd :: f2 :: qf') (bd :: b2 :: qb') best)
      with (meet_scan alg_X M sz el sb eb (i + 1) (f2 :: qf') (b2 :: qb') (meet_col alg_X M (i =? 0) (Some (tb sb eb i)) i fd bd best)).
    destruct Hd as (ea & eb' & Fg & Bg & Ea & Eb & Es & F2 & F3 & B2 & B3 & L2 & L3 & L4).
    rewrite (meet_col_diag (i =? 0) _ i fd bd best ea eb' Fg Bg U) by first [apply tb_nonneg|assumption|lia]. rewrite Es.
    apply scan_keep. exact Hq.
  - cbn [app length]. destruct Hc as (Fa & Fg & Ba & Bg & Cf & Cb & L1 & L2 & L3 & L4).
    assert (Hcons : exists f2 r2 b2 s2, pf ++ fd :: qf = f2 :: r2 /\ pb' ++ bd :: qb = b2 :: s2).
    { destruct pf; inversion Hr; subst; cbn [app]; eexists _, _, _, _; split; reflexivity. }
    destruct Hcons as (f2 & r2 & b2 & s2 & Ef & Eb). 
    change (meet_scan alg_X M sz el sb eb i (f :: pf ++ fd :: qf) (b :: pb' ++ bd :: qb) best)
      with (meet_scan alg_X M sz el sb eb i (f :: (pf ++ fd :: qf)) (b :: (pb' ++ bd :: qb)) best).
    rewrite Ef, Eb.
    change (meet_scan alg_X M sz el sb eb i (f :: f2 :: r2) (b :: b2 :: s2) best)
      with (meet_scan alg_X M sz el sb eb (i + 1) (f2 :: r2) (b2 :: s2) (meet_col alg_X M (i =? 0) (Some (tb sb eb i)) i f b best)).
    rewrite <- Ef, <- Eb.
    assert (EI : i + 1 + Z.of_nat (length pf) = i + Z.of_nat (S (length pf))) by (rewrite Nat2Z.inj_succ; lia).
    rewrite (IH pb' (i + 1) fd bd qf qb _ Hr).
    + f_equal. exact EI.
    + rewrite EI. exact Hd.
    + exact Hq.
    + exact Hne.
    + apply (meet_col_weak (i =? 0) _ i f b best Fa Fg Ba Bg U); first [assumption|apply tb_nonneg].
Qed.
End MeetDiag.

(* ---- one square sub-problem on the diagonal: the meetup picks (match -> match, middle column) ---------------------------- *)
Section Square.
Variable M : mcosts alg_X.
Hypothesis M1 : forall i, exists g, m_a_ga alg_X M i = Some g /\ g <= 0.
Hypothesis M2 : exists g, m_a_gb alg_X M = Some g /\ g <= 0.
Hypothesis M3 : forall i, exists g, m_ga_a alg_X M i = Some g /\ g <= 0.
Hypothesis M4 : exists g, m_gb_gb_int alg_X M = Some g /\ g <= 0.
Hypothesis M5 : exists g, m_gb_gb_term alg_X M = Some g /\ g <= 0.
Hypothesis M6 : exists g, m_gb_a alg_X M = Some g /\ g <= 0.

Definition live : cellX := (Some 0, None, None).

Lemma bnds_exists : forall cols b, exists bnds, bnds_ok b cols bnds.
Proof. induction cols as [|c cols IH]; intros b; [exists []; exact I|]. destruct (IH (b + pC c)) as (bn & H). exists ((b + pC c) :: bn). split; [reflexivity|exact H]. Qed.

(* a pass from the live corner over rows that pair with the leading columns *)
Lemma pass_from_corner rows cols fi li :
  (forall t r c, nth_error rows t = Some r -> nth_error cols t = Some c -> dpair r c) ->
  let cells := pass alg_X R C K fi li live rows cols in
  length cells = S (length cols) /\
  forall t, (t <= length cols)%nat -> cellP (length rows) t (sumR rows + sumC (firstn t cols)) (nth t cells (dead alg_X)).
Proof.
  intros P. cbv zeta. destruct (bnds_exists cols 0) as (bnds & Hb).
  assert (H0 : row_ok 0 0 0 (0 :: bnds) (live :: init_cells alg_X R C K fi live cols)).
  { cbn [row_ok]. split.
    - split; [cbn; lia|split; [exact I|split; [exact I|intros _; exists 0; split; reflexivity]]].
    - apply (init_cells_ok cols bnds 0 fi live 0%nat Hb); cbn; [lia|exact I]. }
  pose proof (pass_ok rows cols bnds fi li 0%nat 0 _ Hb H0) as PO. cbn [Nat.add] in PO.
  specialize (PO ltac:(intros k r c Hr Hc; apply (P k r c Hr Hc))).
  rewrite Z.add_0_l in PO. fold (sumR rows) in PO. unfold pass.
  apply (full_row_nth _ bnds cols (length rows) (sumR rows) Hb PO).
Qed.

Lemma nth_error_rev {X} (l : list X) t x : nth_error (rev l) t = Some x -> (t < length l)%nat /\ nth_error l (length l - 1 - t) = Some x.
Proof.
  intros H. assert (Lt : (t < length l)%nat) by (rewrite <- rev_length; apply nth_error_Some; congruence). split; [exact Lt|].
  rewrite (nth_error_nth' (rev l) x) in H by (rewrite rev_length; lia). rewrite rev_nth in H by lia.
  rewrite (nth_error_nth' l x) by lia. rewrite <- H. do 2 f_equal. lia.
Qed.

Lemma sumC_by_map a b : map pC a = map pC b -> sumC a = sumC b.
Proof.
  revert b; induction a as [|x a IH]; intros [|y b] H; try discriminate; [reflexivity|]. cbn [map] in H. inversion H as [[H1 H2]].
  rewrite !sumC_cons, H1, (IH b H2). reflexivity.
Qed.

(* forward rows RF over columns CF, backward rows RB over columns CB (both in processing order); the backward columns
   carry the potentials of the forward columns in reverse; rows pair with the leading columns on both sides *)
Theorem square_meet RF RB CF CB fi li fi' li' sz el sb eb i0 :
  (length RF + length RB = length CF)%nat -> (1 <= length RB)%nat -> map pC CB = map pC (rev CF) ->
  (forall t r c, nth_error RF t = Some r -> nth_error CF t = Some c -> dpair r c) ->
  (forall t r c, nth_error RB t = Some r -> nth_error CB t = Some c -> dpair r c) ->
  let m1 := length RF in
  let fs := pass alg_X R C K fi li live RF CF in
  let bs := rev (pass alg_X R C K fi' li' live RB CB) in
  tb sb eb (i0 + Z.of_nat m1) < gam ->
  exists E, meet_scan alg_X M sz el sb eb i0 fs bs (None, -1, -1) = (Some E, 1, i0 + Z.of_nat m1).
Proof.
  intros L K1 HCB PF PB. cbv zeta. set (k := length CF) in *. set (m1 := length RF) in *. intros Htb.
  assert (LCB : length CB = k) by (apply (f_equal (@length _)) in HCB; rewrite !map_length, rev_length in HCB; exact HCB).
  assert (Hm : (m1 < k)%nat) by lia.
  assert (LRB : length RB = (k - m1)%nat) by lia.
  destruct (pass_from_corner RF CF fi li PF) as [LF NF]. fold m1 in NF. fold k in LF, NF.
  destruct (pass_from_corner RB CB fi' li' PB) as [LB NB]. rewrite LRB, LCB in *.
  set (fsl := pass alg_X R C K fi li live RF CF) in *.
  set (bpl := pass alg_X R C K fi' li' live RB CB) in *.
  set (Tot := sumR RF + sumR RB + sumC CF).
  assert (TCj : forall j, (j <= k)%nat -> sumC (firstn j CF) + sumC (firstn (k - j) CB) = sumC CF).
  { intros j Hj. rewrite (sumC_by_map (firstn (k - j) CB) (firstn (k - j) (rev CF))) by (rewrite <- !firstn_map, HCB; reflexivity).
    rewrite firstn_rev, sumC_rev. fold k. replace (k - (k - j))%nat with j by lia. apply sumC_split. }
  assert (NBj : forall j, (j <= k)%nat -> nth j (rev bpl) (dead alg_X) = nth (k - j) bpl (dead alg_X)).
  { intros j Hj. rewrite rev_nth by (rewrite LB; lia). rewrite LB. f_equal; lia. }
  destruct (NF m1 ltac:(lia)) as (_ & FG1 & FG2 & FD). destruct (FD eq_refl) as (ea & Ea & E2a).
  destruct (NB (k - m1)%nat ltac:(lia)) as (_ & BG1 & BG2 & BD). destruct (BD eq_refl) as (eb' & Eb & E2b).
  exists (ea + eb' - tb sb eb (i0 + Z.of_nat m1)).
  assert (Sf : fsl = firstn m1 fsl ++ nth m1 fsl (dead alg_X) :: skipn (S m1) fsl) by (apply split_at_nth; rewrite LF; lia).
  assert (Sb : rev bpl = firstn m1 (rev bpl) ++ nth m1 (rev bpl) (dead alg_X) :: skipn (S m1) (rev bpl)) by (apply split_at_nth; rewrite rev_length, LB; lia).
  rewrite Sf, Sb.
  assert (OFF : forall j, (j <= k)%nat -> j <> m1 -> off_col (Tot - 2 * gam) (nth j fsl (dead alg_X)) (nth j (rev bpl) (dead alg_X))).
  { intros j Hj Nj. rewrite NBj by exact Hj.
    destruct (NF j ltac:(lia)) as (A1 & A2 & A3 & _). destruct (NB (k - j)%nat ltac:(lia)) as (B1 & B2 & B3 & _).
    destruct (Nat.eqb_spec m1 j) as [Q|_]; [congruence|]. destruct (Nat.eqb_spec (k - m1) (k - j)) as [Q|_]; [lia|].
    pose proof (TCj j Hj) as TJ.
    exists (sumR RF + sumC (firstn j CF) - 2 * gam), (sumR RF + sumC (firstn j CF) - 2 * gam),
           (sumR RB + sumC (firstn (k - j) CB) - 2 * gam), (sumR RB + sumC (firstn (k - j) CB) - 2 * gam).
    repeat split; try assumption; unfold Tot; lia. }
  assert (LP : length (firstn m1 fsl) = m1) by (rewrite firstn_length, LF; lia).
  pose proof (tb_nonneg sb eb (i0 + Z.of_nat m1)) as Hnn.
  eapply eq_trans; [apply (scan_find M M1 M2 M3 M4 M5 M6 (Tot - 2 * gam) (ea + eb' - tb sb eb (i0 + Z.of_nat m1)))|rewrite LP; reflexivity].
  - pose proof (TCj m1 ltac:(lia)). unfold Tot. lia.
  - apply Forall2_nth_intro with (d1 := dead alg_X) (d2 := dead alg_X).
    + rewrite !firstn_length, rev_length, LF, LB. reflexivity.
    + intros t Ht. rewrite firstn_length, LF in Ht. rewrite !nth_firstn_lt' by lia. apply OFF; lia.
  - rewrite LP. rewrite NBj by lia. exists ea, eb', (sumR RF + sumC (firstn m1 CF) - 2 * gam), (sumR RB + sumC (firstn (k - m1) CB) - 2 * gam).
    pose proof (TCj m1 ltac:(lia)). repeat split; try assumption; unfold Tot; lia.
  - apply Forall2_nth_intro with (d1 := dead alg_X) (d2 := dead alg_X).
    + rewrite !skipn_length, rev_length, LF, LB. reflexivity.
    + intros t Ht. rewrite skipn_length, LF in Ht. rewrite !nth_skipn'. apply OFF; lia.
  - intro Q. apply (f_equal (@length _)) in Q. rewrite skipn_length, LF in Q. cbn [length] in Q. lia.
  - exact I.
Qed.
End Square.
End Diag.

(* ---- the Hirschberg controller on a kernel that finds the diagonal of every square sub-problem ---------------------- *)
Section Ctl.
Variable Kn : kernel alg_X.
Variable n : Z.
Hypothesis Hsq : forall o e, 0 <= o -> o < e -> e <= n ->
  let mid := (e - o) / 2 + o in
  exists v, k_meetup alg_X Kn mid o e (k_forward alg_X Kn o mid o e (live0 alg_X)) (k_backward alg_X Kn mid e o e (live0 alg_X)) = (v, 1, mid).

Definition diag_writes (o e : Z) (ws : list (Z * Z)) : Prop :=
  Forall (fun w => fst w = snd w /\ o <= fst w <= Z.max o e) ws /\ forall i, o < i <= e -> In (i, i) ws.

Lemma runner_diag : forall fuel o e, 0 <= o -> e <= n -> (Z.to_nat (e - o) < fuel)%nat ->
  exists ws, runner alg_X Kn fuel o e o e (live0 alg_X) (live0 alg_X) = Some ws /\ diag_writes o e ws.
Proof.
  induction fuel as [|fu IH]; intros o e Ho He Hf; [lia|].
  cbn [runner]. destruct (Z.leb_spec e o) as [Le|Lt].
  - cbn [orb]. exists []. split; [reflexivity|]. split; [constructor|]. intros i Hi. lia.
  - cbn [orb]. destruct (Hsq o e Ho Lt He) as (v & Hm). cbv zeta in Hm. set (mid := (e - o) / 2 + o) in *. rewrite Hm.
    cbn [Z.eqb Pos.eqb].
    assert (Hmid : o <= mid < e) by (unfold mid; pose proof (Z.div_pos (e - o) 2); pose proof (Z.mul_div_le (e - o) 2); pose proof (Z.mul_succ_div_gt (e - o) 2); lia).
    destruct (IH o (mid - 1) Ho ltac:(lia) ltac:(lia)) as (w1 & R1 & F1 & I1).
    destruct (IH (mid + 1) e ltac:(lia) He ltac:(lia)) as (w2 & R2 & F2 & I2).
    rewrite R1, R2. eexists. split; [reflexivity|]. split.
    + constructor; [cbn [fst snd]; lia|]. constructor; [cbn [fst snd]; lia|].
      apply Forall_app. split; (eapply Forall_impl; [|eassumption]); intros w (Q1 & Q2); (split; [exact Q1|lia]).
    + intros i Hi. destruct (Z.eq_dec i mid) as [->|N1]; [left; reflexivity|]. destruct (Z.eq_dec i (mid + 1)) as [->|N2]; [right; left; reflexivity|].
      right; right. cbn [app]. apply in_or_app. destruct (Z.ltb_spec i mid); [left; apply I1; lia|right; apply I2; lia].
Qed.

(* applying diagonal writes to a fresh path gives 1..n *)
Lemma set_nthZ_length : forall l i v, length (set_nthZ l i v) = length l.
Proof. induction l as [|x l IH]; intros [|i] v; cbn [set_nthZ length]; try reflexivity. rewrite IH. reflexivity. Qed.
Lemma set_nthZ_same : forall l i v, (i < length l)%nat -> nth i (set_nthZ l i v) (-1) = v.
Proof. induction l as [|x l IH]; intros [|i] v H; cbn [length] in H; try lia; cbn [set_nthZ nth]; [reflexivity|]. apply IH. lia. Qed.
Lemma set_nthZ_other : forall l i j v, i <> j -> nth j (set_nthZ l i v) (-1) = nth j l (-1).
Proof. induction l as [|x l IH]; intros [|i] [|j] v H; cbn [set_nthZ nth]; try reflexivity; try congruence. apply IH. congruence. Qed.

Definition apply_writes (ws : list (Z * Z)) (p : list Z) : list Z :=
  fold_left (fun p w => if (0 <=? fst w) then set_nthZ p (Z.to_nat (fst w)) (snd w) else p) ws p.

Lemma apply_writes_diag : forall ws p, Forall (fun w => fst w = snd w /\ 0 <= fst w /\ (Z.to_nat (fst w) < length p)%nat) ws ->
  length (apply_writes ws p) = length p /\
  forall j, (j < length p)%nat ->
    (nth j p (-1) = Z.of_nat j \/ In (Z.of_nat j, Z.of_nat j) ws -> nth j (apply_writes ws p) (-1) = Z.of_nat j).
Proof.
  induction ws as [|[a b] ws IH]; intros p H.
  - split; [reflexivity|]. intros j Hj [Q|[]]. exact Q.
  - inversion H as [|? ? Hw Hr]; subst. cbn [fst snd] in Hw. destruct Hw as (-> & Hb & Hl).
    unfold apply_writes. cbn [fold_left fst snd]. destruct (Z.leb_spec 0 b); [|lia]. fold (apply_writes ws (set_nthZ p (Z.to_nat b) b)).
    destruct (IH (set_nthZ p (Z.to_nat b) b)) as (L & Hn).
    { eapply Forall_impl; [|exact Hr]. intros w (Q1 & Q2 & Q3). rewrite set_nthZ_length. auto. }
    rewrite set_nthZ_length in L, Hn. split; [exact L|]. intros j Hj Q. apply Hn; [exact Hj|].
    destruct (Nat.eq_dec (Z.to_nat b) j) as [Ej|Nj].
    + left. subst j. rewrite set_nthZ_same by exact Hl. lia.
    + destruct Q as [Q|[Q|Q]].
      * left. rewrite set_nthZ_other by exact Nj. exact Q.
      * inversion Q. lia.
      * right. exact Q.
Qed.

Theorem raw_path_diag : 0 <= n ->
  raw_path alg_X Kn n n = Some (map Z.of_nat (seq 1 (Z.to_nat n))).
Proof.
  intros Hn. unfold raw_path.
  destruct (runner_diag (Z.to_nat (n + n + 2)) 0 n ltac:(lia) ltac:(lia) ltac:(lia)) as (ws & Rw & Fw & Iw). rewrite Rw. f_equal.
  fold (apply_writes ws (repeat (-1) (Z.to_nat (Z.max n n + 2)))). rewrite Z.max_id.
  set (p0 := repeat (-1) (Z.to_nat (n + 2))).
  assert (Lp : length p0 = Z.to_nat (n + 2)) by apply repeat_length.
  destruct (apply_writes_diag ws p0) as (L & Hj).
  { eapply Forall_impl; [|exact Fw]. intros w (Q1 & Q2). rewrite Lp. split; [exact Q1|]. lia. }
  set (full := apply_writes ws p0) in *.
  apply (nth_ext _ _ (-1) (-1)).
  - rewrite firstn_length, map_length, seq_length. destruct full as [|x full']; cbn [length tl] in *; lia.
  - intros t Ht. rewrite firstn_length in Ht.
    assert (Lt : (t < Z.to_nat n)%nat) by lia.
    rewrite nth_firstn_lt' by lia.
    assert (E1 : nth t (tl full) (-1) = nth (S t) full (-1)) by (destruct full; [destruct t; reflexivity|reflexivity]). rewrite E1.
    rewrite Hj by (try lia; right; apply Iw; lia).
    rewrite (nth_indep _ (-1) (Z.of_nat 0)) by (rewrite map_length, seq_length; lia).
    rewrite map_nth, seq_nth by lia. reflexivity.
Qed.
End Ctl.
End TB.
