"""C08 - identical sequences are aligned without gaps."""
import json
import gen
from props import numcommon as nc

DNA_ALL = 'ACGTUNRYSWKMBDHV'
PROT_ALL = 'ACDEFGHIKLMNPQRSTVWYBZX'
TYPES = {'dna': [0, 1, 2, 5], 'protein': [3, 4, 5]}

def compositions(rng, kind, L):
    if kind == 'dna':
        pool = [('ACGT', gen.rand_seq(rng, 'ACGT', L)), ('iupac', gen.rand_seq(rng, DNA_ALL, L)), ('all-N', 'N' * L), ('all-A', 'A' * L),
                ('periodic', ('ACG' * L)[:L]), ('lower', gen.rand_seq(rng, 'acgtn', L)), ('ambiguity-only', gen.rand_seq(rng, 'RYSWKMBDHVN', L))]
    else:
        pool = [('20aa', gen.rand_seq(rng, gen.PROT, L)), ('all-X', 'X' * L), ('BZX', gen.rand_seq(rng, 'BZX', L)), ('all-W', 'W' * L),
                ('periodic', ('KLM' * L)[:L]), ('mixed-amb', gen.rand_seq(rng, PROT_ALL, L)), ('lower', gen.rand_seq(rng, 'klmwfpx', L))]
    return pool

def run(ck):
    ck.build(('omp',))
    ck.translate()
    ok = ck.prove()
    kvh = ck.harness('omp', 'kvh')
    rng = ck.rng
    quick = ck.tier == 'quick'
    ck.rule = ('n copies of one string: residue compositions (plain, IUPAC ambiguity codes, all-N, all-X, B/Z/X only, periodic, lower case), lengths 1,2,3,59..61,127..129,499..501'
               + ('' if quick else ',1024,5000') + ', copies 2,3,5,99,100,101' + ('' if quick else ',500') + ', every admissible type, threads 1 and 16, both entry points: no returned row may contain a gap. '
               'Correspondence (small cases): the binary32 model must take the same (diagonal) path and meetup maxima as the implementation at every merge. Kind detection is left to the '
               'implementation: an input it classifies as the other kind is aligned with the types of that kind. Non-trivial = length >= 2 and the type is not the default; distinct by (string, copies, type)')
    wit = []
    # ---- correspondence on small cases ------------------------------------------------------------------------
    cases = []
    for k in range(40 if quick else 300):
        kind = 'dna' if rng.chance(1, 2) else 'protein'
        L = rng.choice([1, 2, 3, 5, 8, 13, 21, 34, 60])
        fam, s = rng.choice(compositions(rng, kind, L))
        n = rng.choice([2, 2, 3, 4, 6])
        cases.append({'kind': kind, 'seqs': [s] * n, 'type': 5, 'pens': [gen.NG] * 3, 'threads': 1, 'fam': fam})
    res, dis = nc.correspond(ck, cases, 'Kernels/Pipeline (binary32) vs the implementation on identical inputs: tree, raw paths, meetup maxima')
    for c, p, pm in res:
        if p['ok']:
            L = len(c['seqs'][0])
            for cnode, (a, b, raw, ops) in p['nodes'].items():
                if raw != ','.join(str(i + 1) for i in range(L)):
                    wit.append({'kind': 'non-diagonal-path-on-identical-operands', 'string': c['seqs'][0], 'copies': len(c['seqs']), 'merge': [a, b, cnode], 'raw_path': raw})
    # ---- end to end ---------------------------------------------------------------------------------------------
    lens = [1, 2, 3, 59, 60, 61, 127, 128, 129, 499, 500, 501] + ([] if quick else [1024, 5000])
    copies = [2, 3, 5, 99, 100, 101] + ([] if quick else [500])
    jobs = []
    for kind in ('dna', 'protein'):
        for L in lens:
            for fam, s in compositions(rng, kind, L):
                if quick and rng.chance(1, 2) and L not in (1, 60, 500): continue
                n = rng.choice(copies if L <= 200 else [2, 3, 5])
                if L >= 1024: n = 2
                jobs.append((kind, fam, s, n, rng.choice(TYPES[kind]), rng.choice([1, 16])))
        for n in copies:
            fam, s = rng.choice(compositions(rng, kind, rng.choice([20, 60, 90])))
            jobs.append((kind, fam, s, n, rng.choice(TYPES[kind]), rng.choice([1, 16])))
    # many copies of a long string: the scores of the last merges grow like members x members x columns x match score (the
    # default nucleotide set scores some hundred per match) - beyond 2^24 (float mantissa) and 2^31 (int)
    for (nn, LL) in ([(160, 1200)] if quick else [(160, 1200), (200, 1000), (260, 800)]):
        fam, s = 'plain', gen.rand_seq(rng, gen.DNA, LL)
        jobs.append(('dna', 'many-long-copies', s, nn, 5, rng.choice([4, 16])))
    lines = [nc.run_line([s] * n, 5, [gen.NG] * 3, thr, flags=4) for (kind, fam, s, n, ty, thr) in jobs]
    first = ck.run_lines_sharded(kvh, lines, shards=14, timeout=3000)
    # second pass with an explicit type admissible for the DETECTED kind
    lines2, meta2 = [], []
    for (kind, fam, s, n, ty, thr), o in zip(jobs, first):
        r = nc.parse_impl(o)
        ck.count('composition:%s:%s' % (kind, fam)); ck.count('copies:%d' % n)
        if not r['ok']:
            wit.append({'kind': 'run-failed-on-identical-input', 'string': s[:200], 'length': len(s), 'copies': n, 'implementation': o[:200]}); continue
        if any('-' in row for row in r['rows']) or r['rows'] != [s] * n:
            wit.append({'kind': 'gap-in-alignment-of-identical-sequences', 'string': s[:300], 'length': len(s), 'copies': n, 'type': 5, 'threads': thr,
                        'rows_with_gaps': [row[:200] for row in r['rows'] if '-' in row][:3]})
        dk = 'dna' if r['biotype'] == 1 else 'protein'
        for t in TYPES[dk][:-1]:
            lines2.append(nc.run_line([s] * n, t, [gen.NG] * 3, thr, flags=0)); meta2.append((s, n, t, thr))
    second = ck.run_lines_sharded(kvh, lines2, shards=14, timeout=3000)
    ck.evaluations += len(lines) + len(lines2)
    for (s, n, t, thr), o in zip(meta2, second):
        r = nc.parse_impl(o)
        if not r['ok']:
            wit.append({'kind': 'run-failed-on-identical-input', 'string': s[:200], 'length': len(s), 'copies': n, 'type': t, 'implementation': o[:200]})
        elif r['rows'] != [s] * n:
            wit.append({'kind': 'gap-in-alignment-of-identical-sequences', 'string': s[:300], 'length': len(s), 'copies': n, 'type': t, 'threads': thr,
                        'rows_with_gaps': [row[:200] for row in r['rows'] if '-' in row][:3]})
        elif len(s) >= 2:
            ck.nontriv((s[:80], len(s), n, t).__repr__())
    # ---- the file entry point: the same copies read from a FASTA file (with / without a final newline, CRLF), written in three formats ----
    import os, tempfile, shutil
    tmpd = tempfile.mkdtemp(prefix='kv_c08_')
    try:
        flines, fmeta = [], []
        for k in range(18 if quick else 120):
            kind = 'dna' if rng.chance(1, 2) else 'protein'
            L = rng.choice([1, 2, 3, 7, 30, 60, 61, 120, 200])
            fam, sq = rng.choice(compositions(rng, kind, L))
            n = rng.choice([2, 3, 5, 12])
            text = gen.fasta(['c%d' % i for i in range(n)], [sq] * n, rng.choice([60, 17, 1000]))
            pres = rng.choice(['plain', 'no-final-newline', 'crlf'])
            if pres == 'no-final-newline': text = text.rstrip('\n')
            elif pres == 'crlf': text = text.replace('\n', '\r\n')
            inp = os.path.join(tmpd, 'in%d.fa' % k); open(inp, 'w', newline='').write(text)
            fmt = rng.choice(['fasta', 'msf', 'clu'])
            outp = os.path.join(tmpd, 'out%d.%s' % (k, fmt))
            flines.append('runfile 0 %d 5 %d %d %d %s %s %s' % (rng.choice([1, 4]), gen.NG, gen.NG, gen.NG, fmt, outp, inp))
            fmeta.append((sq, n, pres, fmt, outp))
            ck.count('file entry point: %s' % pres)
        fres = ck.run_lines(kvh, flines, timeout=1200)
        ck.evaluations += len(flines)
        for (sq, n, pres, fmt, outp), o in zip(fmeta, fres):
            rows = None
            if o.startswith('OK') and os.path.exists(outp):
                texto = open(outp, encoding='latin-1').read()
                if fmt == 'fasta': rows = gen.parse_fasta(texto)[1]
                elif fmt == 'clu': rows = gen.parse_clustal(texto)[2]
                else: rows = [r.replace('.', '-') for r in gen.parse_msf(texto)[2]]
            if rows is None:
                wit.append({'kind': 'run-failed-on-identical-input', 'entry': 'file', 'presentation': pres, 'string': sq[:200], 'copies': n, 'implementation': o[:200]})
            elif [r.upper() for r in rows] != [sq.upper()] * n and rows != [sq] * n:
                wit.append({'kind': 'gap-in-alignment-of-identical-sequences', 'entry': 'file', 'presentation': pres, 'format': fmt, 'string': sq[:300], 'copies': n,
                            'rows': [r[:200] for r in rows][:4]})
    finally:
        shutil.rmtree(tmpd, ignore_errors=True)
    # ---- the degenerate input of the bisecting k-means: >= 100 identical copies, many lengths (tree building only) -----
    kl, kmeta = [], []
    for k in range(42 if quick else 400):
        n = rng.choice([100, 128, 150, 199, 199, 250])
        L = rng.choice([rng.range(1, 300), rng.range(300, 2000), rng.range(2000, 5000), rng.range(2000, 5000)])
        s = gen.rand_seq(rng, 'ACGT', L)
        kl.append('ktree %d %s' % (n, gen.hexs(s))); kmeta.append((n, L, s))
    kres = ck.run_lines_sharded(kvh, kl, shards=14, timeout=240, env=dict(__import__('os').environ, OMP_NUM_THREADS='2'))
    ck.evaluations += len(kl)
    for (n, L, sq), r in zip(kmeta, kres):
        ck.count('k-means tree of identical copies: %s' % ('ok' if r.startswith('OK') and r.endswith('valid=1') else 'BAD'))
        if not (r.startswith('OK') and r.endswith('valid=1') and r.split()[1] == str(n - 1)):
            wit.append({'kind': 'guide-tree-construction-fails-on-identical-copies', 'copies': n, 'length': L, 'string': sq, 'implementation': r[:200],
                        'note': 'build_tree_kmeans on n identical sequences (random ACGT string of that length) crashed, hung or gave an invalid task list'})
    if jobs:
        ck.sample({'string': jobs[0][2][:80], 'copies': jobs[0][3], 'implementation_rows': nc.parse_impl(first[0])['rows'][:2]})
    seen = {}
    for w in wit:
        seen[w['kind']] = seen.get(w['kind'], 0) + 1
        if seen[w['kind']] <= 2:
            ck.violation('witness', w)
    if not wit:
        if not ok:
            ck.violation('proof', {'what_no_longer_checks': ck.proof['failed']}, nofail=True)
        elif dis:
            ck.violation('correspondence', {'what_no_longer_checks': 'correspondence of the binary32 DP model with the implementation on identical inputs', 'first_disagreement': dis[0], 'disagreements': len(dis)}, nofail=True)

def replay(ck, obj):
    print(json.dumps(obj, indent=1)[:6000])
    return 0
