(* C17, the floating-point end: *score = 100.0 * a / b (binary64), stored into a float.
   With a = b > 0 the stored value is exactly 100.0f; with 0 <= a <= b it is a finite float in [0, 100].
   Both for all counter values below 2^46 (the counters are C ints, < 2^31). *)
From Coq Require Import ZArith NArith List Reals Lra Lia.
From Flocq Require Import Core IEEE754.BinarySingleNaN IEEE754.Binary IEEE754.Bits.
From KV Require Import Base FP Cmp CmpProofs.
Local Open Scope Z_scope.

Definition c100 : f64 := f64_of_bits 4636737291354636288.

Local Notation fexp64 := (SpecFloat.fexp 53 1024).
Local Notation fexp32 := (SpecFloat.fexp 24 128).
Local Notation rnd := (round_mode mode_NE).

Lemma fmt64 z : Z.abs z < 2 ^ 53 -> generic_format radix2 fexp64 (IZR z).
Proof.
  intros H. apply generic_format_FLT. apply FLT_spec with (f := Float radix2 z 0).
  - unfold F2R. simpl. ring.
  - exact H.
  - vm_compute. intro; discriminate.
Qed.
Lemma fmt32 z : Z.abs z < 2 ^ 24 -> generic_format radix2 fexp32 (IZR z).
Proof.
  intros H. apply generic_format_FLT. apply FLT_spec with (f := Float radix2 z 0).
  - unfold F2R. simpl. ring.
  - exact H.
  - vm_compute. intro; discriminate.
Qed.

Lemma c100_val : B2R 53 1024 c100 = 100%R /\ is_finite 53 1024 c100 = true /\ Bsign 53 1024 c100 = false.
Proof.
  split; [|split; reflexivity].
  unfold c100, f64_of_bits. set (x := b64_of_bits _). vm_compute in x. subst x.
  unfold B2R, F2R, Fnum, Fexp, cond_Zopp. simpl.
  change (Z.pow_pos 2 46) with 70368744177664. lra.
Qed.

(* (double) n for 0 <= n < 2^53: exact *)
Lemma of_Z_exact n : 0 <= n < 2 ^ 53 ->
  B2R 53 1024 (f64_of_Z n) = IZR n /\ is_finite 53 1024 (f64_of_Z n) = true /\
  (0 < n -> Bsign 53 1024 (f64_of_Z n) = false).
Proof.
  intros Hn. unfold f64_of_Z.
  pose proof (binary_normalize_correct 53 1024 (eq_refl _) (eq_refl _) mode_NE n 0 false) as H.
  assert (E : F2R (Float radix2 n 0) = IZR n) by (unfold F2R; simpl; ring).
  rewrite E in H. rewrite round_generic in H; [|apply valid_rnd_N|apply fmt64; lia].
  rewrite Rlt_bool_true in H.
  - destruct H as (A & B & C). split; [exact A|split; [exact B|]].
    intros Hp. rewrite C. rewrite Rcompare_Gt; [reflexivity|]. apply IZR_lt. exact Hp.
  - rewrite Rabs_pos_eq by (apply IZR_le; lia). change (bpow radix2 1024) with (IZR (2 ^ 1024)).
    apply IZR_lt. assert (2 ^ 53 < 2 ^ 1024) by (apply Z.pow_lt_mono_r; lia). lia.
Qed.

Lemma bpow1024 : bpow radix2 1024 = IZR (2 ^ 1024).
Proof. reflexivity. Qed.

Lemma small_lt_max z : Z.abs z < 2 ^ 53 -> (Rabs (IZR z) < bpow radix2 1024)%R.
Proof.
  intros H. rewrite <- abs_IZR, bpow1024. apply IZR_lt.
  assert (2 ^ 53 < 2 ^ 1024) by (apply Z.pow_lt_mono_r; lia). lia.
Qed.

(* 100.0 * (double) n, exact below 2^46 *)
Lemma mul100_exact a n : 0 < n < 2 ^ 46 ->
  B2R 53 1024 a = IZR n -> is_finite 53 1024 a = true -> Bsign 53 1024 a = false ->
  B2R 53 1024 (f64_mul c100 a) = IZR (100 * n) /\ is_finite 53 1024 (f64_mul c100 a) = true /\
  Bsign 53 1024 (f64_mul c100 a) = false.
Proof.
  intros Hn Ha Fa Sa. destruct c100_val as (Hc & Fc & Sc).
  unfold f64_mul, b64_mult.
  match goal with |- context [Bmult ?p ?e ?h1 ?h2 ?nan ?m ?x ?y] => pose proof (Bmult_correct p e h1 h2 nan m x y) as H end.
  rewrite Hc, Ha, <- mult_IZR in H.
  assert (Hs : Z.abs (100 * n) < 2 ^ 53) by (change (2 ^ 53) with (128 * 2 ^ 46); lia).
  rewrite round_generic in H; [|apply valid_rnd_N|apply fmt64; exact Hs].
  rewrite Rlt_bool_true in H by (apply small_lt_max; exact Hs).
  destruct H as (A & B & C). rewrite Fc, Fa in B. split; [exact A|split; [exact B|]].
  rewrite C; [rewrite Sc, Sa; reflexivity|].
  match goal with |- is_nan _ _ ?x = false => destruct x; try discriminate; reflexivity end.
Qed.

(* p / q for integers 0 <= p, 0 < q below 2^53: correctly rounded, finite, non-negative *)
Lemma div_correct m b p q : 0 <= p < 2 ^ 53 -> 0 < q < 2 ^ 53 ->
  B2R 53 1024 m = IZR p -> is_finite 53 1024 m = true -> Bsign 53 1024 m = false ->
  B2R 53 1024 b = IZR q -> Bsign 53 1024 b = false ->
  B2R 53 1024 (f64_div m b) = round radix2 fexp64 rnd (IZR p / IZR q) /\
  is_finite 53 1024 (f64_div m b) = true /\ Bsign 53 1024 (f64_div m b) = false.
Proof.
  intros Hp Hq Hm Fm Sm Hb Sb. unfold f64_div, b64_div.
  match goal with |- context [Bdiv ?pr ?e ?h1 ?h2 ?nan ?md ?x ?y] => pose proof (Bdiv_correct pr e h1 h2 nan md x y) as H end.
  rewrite Hm, Hb in H.
  assert (Q0 : (0 < IZR q)%R) by (apply IZR_lt; lia).
  assert (P0 : (0 <= IZR p)%R) by (apply IZR_le; lia).
  specialize (H (Rgt_not_eq _ _ Q0)).
  assert (Hr : (0 <= round radix2 fexp64 rnd (IZR p / IZR q) <= IZR p)%R).
  { split.
    - rewrite <- (round_0 radix2 fexp64 rnd). apply round_le; [apply FLT_exp_valid; reflexivity|apply valid_rnd_N|].
      apply Rmult_le_pos; [exact P0|]. left. apply Rinv_0_lt_compat. exact Q0.
    - rewrite <- (round_generic radix2 fexp64 rnd (IZR p)) at 2; [|apply fmt64; lia].
      apply round_le; [apply FLT_exp_valid; reflexivity|apply valid_rnd_N|].
      assert (1 <= IZR q)%R by (apply IZR_le; lia).
      unfold Rdiv. rewrite <- (Rmult_1_r (IZR p)) at 2. apply Rmult_le_compat_l; [exact P0|].
      rewrite <- Rinv_1. apply Rinv_le_contravar; lra. }
  rewrite Rlt_bool_true in H.
  - destruct H as (A & B & C). rewrite Fm in B. split; [exact A|split; [exact B|]].
    rewrite C; [rewrite Sm, Sb; reflexivity|].
    match goal with |- is_nan _ _ ?x = false => destruct x; try discriminate; reflexivity end.
  - rewrite Rabs_pos_eq by apply Hr. eapply Rle_lt_trans; [apply Hr|].
    rewrite <- (Rabs_pos_eq (IZR p)) by exact P0. apply small_lt_max. lia.
Qed.

(* (float) of a double in [0, 100] *)
Lemma to_f32_range d : is_finite 53 1024 d = true -> (0 <= B2R 53 1024 d <= 100)%R ->
  is_finite 24 128 (f32_of_f64 d) = true /\ (0 <= B2R 24 128 (f32_of_f64 d) <= 100)%R.
Proof.
  intros Fd Hd. destruct d as [s|s|s pl e0|s m e Hb]; try discriminate.
  - cbn. split; [reflexivity|lra].
  - unfold f32_of_f64.
    pose proof (binary_normalize_correct 24 128 (eq_refl _) (eq_refl _) mode_NE (cond_Zopp s (Zpos m)) e s) as H.
    change (F2R (Float radix2 (cond_Zopp s (Zpos m)) e)) with (B2R 53 1024 (B754_finite 53 1024 s m e Hb)) in H.
    set (x := B2R 53 1024 (B754_finite 53 1024 s m e Hb)) in *.
    assert (Hr : (0 <= round radix2 fexp32 rnd x <= 100)%R).
    { split.
      - rewrite <- (round_0 radix2 fexp32 rnd). apply round_le; [apply FLT_exp_valid; reflexivity|apply valid_rnd_N|apply Hd].
      - rewrite <- (round_generic radix2 fexp32 rnd 100%R); [|apply (fmt32 100); reflexivity].
        apply round_le; [apply FLT_exp_valid; reflexivity|apply valid_rnd_N|apply Hd]. }
    rewrite Rlt_bool_true in H.
    + destruct H as (A & B & _). split; [exact B|]. rewrite A. exact Hr.
    + rewrite Rabs_pos_eq by apply Hr. eapply Rle_lt_trans; [apply Hr|].
      change (bpow radix2 128) with (IZR (2 ^ 128)). apply (IZR_lt 100). reflexivity.
Qed.


(* a = b > 0: exactly 100.0f (0x42C80000) *)
Theorem score_equal_is_100 c : ident_total c = ref_total c -> (0 < ref_total c < 2 ^ 46)%N ->
  score_of c = 1120403456%N.
Proof.
  intros E R. unfold score_of. fold (ident_total c) (ref_total c). rewrite E.
  set (n := Z.of_N (ref_total c)). assert (Hn : 0 < n < 2 ^ 46) by (unfold n; change (2 ^ 46) with (Z.of_N (2 ^ 46)); lia).
  unfold f64_of_N. fold n. fold c100.
  destruct (of_Z_exact n) as (A & B & C); [change (2 ^ 53) with (128 * 2 ^ 46); lia|]. specialize (C (proj1 Hn)).
  destruct (mul100_exact (f64_of_Z n) n Hn A B C) as (MA & MB & MC).
  destruct (div_correct (f64_mul c100 (f64_of_Z n)) (f64_of_Z n) (100 * n) n) as (DA & DB & DC); try assumption.
  - change (2 ^ 53) with (128 * 2 ^ 46). lia.
  - change (2 ^ 53) with (128 * 2 ^ 46). lia.
  - assert (Hq : (IZR (100 * n) / IZR n = 100)%R).
    { rewrite mult_IZR. field. apply Rgt_not_eq. apply IZR_lt. lia. }
    rewrite Hq in DA. rewrite round_generic in DA; [|apply valid_rnd_N|apply (fmt64 100); reflexivity].
    destruct c100_val as (Hc & Fc & Sc).
    assert (Ed : f64_div (f64_mul c100 (f64_of_Z n)) (f64_of_Z n) = c100).
    { apply B2R_Bsign_inj; [exact DB|exact Fc|rewrite DA, Hc; reflexivity|rewrite DC, Sc; reflexivity]. }
    rewrite Ed. vm_compute. reflexivity.
Qed.

(* 0 <= a <= b, b > 0: a finite float in [0, 100] *)
Theorem score_in_range c : (ident_total c <= ref_total c)%N -> (0 < ref_total c < 2 ^ 46)%N ->
  exists x : f32, score_of c = bits_of_f32 x /\ is_finite 24 128 x = true /\ (0 <= B2R 24 128 x <= 100)%R.
Proof.
  intros L R. unfold score_of. fold (ident_total c) (ref_total c).
  set (a := Z.of_N (ident_total c)). set (b := Z.of_N (ref_total c)).
  assert (Hb : 0 < b < 2 ^ 46) by (unfold b; change (2 ^ 46) with (Z.of_N (2 ^ 46)); lia).
  assert (Ha : 0 <= a <= b) by (unfold a, b; lia).
  unfold f64_of_N. fold a b. fold c100.
  eexists. split; [reflexivity|].
  destruct (of_Z_exact b) as (A & B & C); [change (2 ^ 53) with (128 * 2 ^ 46); lia|]. specialize (C (proj1 Hb)).
  apply to_f32_range.
  - (* finite *)
    destruct (Z.eq_dec a 0) as [->|Hnz].
    + (* 100.0 * 0.0 / b *)
      unfold f64_div, b64_div.
      match goal with |- context [Bdiv ?pr ?e ?h1 ?h2 ?nan ?md ?x ?y] => pose proof (Bdiv_correct pr e h1 h2 nan md x y) as H end.
      rewrite A in H. specialize (H (Rgt_not_eq _ _ (IZR_lt 0 b (proj1 Hb)))).
      replace (B2R 53 1024 (f64_mul c100 (f64_of_Z 0))) with 0%R in H by (vm_compute; reflexivity).
      unfold Rdiv in H. rewrite Rmult_0_l in H. rewrite round_0 in H by apply valid_rnd_N. rewrite Rabs_R0, Rlt_bool_true in H by (apply bpow_gt_0).
      destruct H as (_ & F & _). rewrite F. vm_compute. reflexivity.
    + destruct (of_Z_exact a) as (A' & B' & C'); [change (2 ^ 53) with (128 * 2 ^ 46); lia|].
      assert (Ha' : 0 < a < 2 ^ 46) by lia. specialize (C' (proj1 Ha')).
      destruct (mul100_exact (f64_of_Z a) a Ha' A' B' C') as (MA & MB & MC).
      destruct (div_correct (f64_mul c100 (f64_of_Z a)) (f64_of_Z b) (100 * a) b) as (DA & DB & DC); try assumption;
        try (change (2 ^ 53) with (128 * 2 ^ 46); lia).
  - (* value *)
    destruct (Z.eq_dec a 0) as [->|Hnz].
    + unfold f64_div, b64_div.
      match goal with |- context [Bdiv ?pr ?e ?h1 ?h2 ?nan ?md ?x ?y] => pose proof (Bdiv_correct pr e h1 h2 nan md x y) as H end.
      rewrite A in H. specialize (H (Rgt_not_eq _ _ (IZR_lt 0 b (proj1 Hb)))).
      replace (B2R 53 1024 (f64_mul c100 (f64_of_Z 0))) with 0%R in H by (vm_compute; reflexivity).
      unfold Rdiv in H. rewrite Rmult_0_l in H. rewrite round_0 in H by apply valid_rnd_N. rewrite Rabs_R0, Rlt_bool_true in H by (apply bpow_gt_0).
      destruct H as (V & _ & _). rewrite V. lra.
    + destruct (of_Z_exact a) as (A' & B' & C'); [change (2 ^ 53) with (128 * 2 ^ 46); lia|].
      assert (Ha' : 0 < a < 2 ^ 46) by lia. specialize (C' (proj1 Ha')).
      destruct (mul100_exact (f64_of_Z a) a Ha' A' B' C') as (MA & MB & MC).
      destruct (div_correct (f64_mul c100 (f64_of_Z a)) (f64_of_Z b) (100 * a) b) as (DA & DB & DC); try assumption;
        try (change (2 ^ 53) with (128 * 2 ^ 46); lia).
      rewrite DA. split.
      * rewrite <- (round_0 radix2 fexp64 rnd). apply round_le; [apply FLT_exp_valid; reflexivity|apply valid_rnd_N|].
        apply Rmult_le_pos; [apply IZR_le; lia|]. left. apply Rinv_0_lt_compat. apply IZR_lt. lia.
      * rewrite <- (round_generic radix2 fexp64 rnd 100%R); [|apply (fmt64 100); reflexivity].
        apply round_le; [apply FLT_exp_valid; reflexivity|apply valid_rnd_N|].
        assert (0 < IZR b)%R by (apply IZR_lt; lia).
        apply (Rmult_le_reg_r (IZR b)); [assumption|]. unfold Rdiv. rewrite Rmult_assoc, Rinv_l, Rmult_1_r by lra.
        rewrite <- (mult_IZR 100 b). apply IZR_le. lia.
Qed.
