(* C15 - Written alignment files are self-consistent and correctly labelled.
   Statements only; proofs in FormatsProofs.v and FormatsProofs2.v.  Proved: FASTA wrapping and the line
   structure of the FASTA writer; for Clustal and MSF: every block lists every sequence in order under its
   name, the blocks are 60 columns wide except the last (1..60), and the chunks of a row concatenate to the row;
   the MSF header declares the alignment length, the per-row checksum over the whole row and the molecule type,
   and its decimal fields mean the numbers they print.  That the writer model is msa_io.c is the byte-exact
   correspondence checked on every run, together with independent parsers applied to the implementation's
   files (DESIGN C15). *)
From KV Require Import Base Params Sort Detect Weave Cmp Formats FormatsProofs FormatsProofs2.
From Coq Require Import String.
From Coq Require Import List.
Import Coq.Init.Datatypes.
Import ListNotations.
Local Open Scope string_scope.
Local Open Scope list_scope.
Local Open Scope Z_scope.

(* FASTA: every record is its header line followed by lines of exactly 60 columns, except a last
   one of 1..60 columns; an empty row has no sequence line; the pieces concatenate to the row *)
Theorem C15_fasta_wrapped_at_60 : forall row pre last,
  chunk60 row = pre ++ [last] -> Forall (fun ch => length ch = 60%nat) pre /\ (1 <= length last <= 60)%nat.
Proof. exact fasta_wrapped_at_60. Qed.
Print Assumptions C15_fasta_wrapped_at_60.

Theorem C15_fasta_pieces_are_the_row : forall row, concat (chunk60 row) = row.
Proof. exact chunk60_concat. Qed.
Print Assumptions C15_fasta_pieces_are_the_row.

Theorem C15_fasta_file_is_lines : forall rows, write_fasta rows = unlines (fasta_lines rows).
Proof. exact write_fasta_unlines. Qed.
Print Assumptions C15_fasta_file_is_lines.

(* Clustal and MSF body: one line per sequence per block, in input order, name first *)
Theorem C15_body_lists_every_sequence_in_every_block : forall alnlen rows,
  blocks alnlen rows =
  flat_map (fun b => map (fun nr => block_line (max_name_len rows) (fst nr) (chunk_of alnlen b (snd nr))) rows ++ [[nl]])
           (seq 0 ((alnlen + 59) / 60)).
Proof. exact body_structure. Qed.
Print Assumptions C15_body_lists_every_sequence_in_every_block.

(* a block line is the name, at least five blanks, and the block's columns of that row *)
Theorem C15_block_line_shape : forall alnlen mx b nr, row_ok alnlen mx nr ->
  line_of mx alnlen b nr = fst nr ++ 32 :: (repeat space (mx + 4 - length (fst nr)) ++ chunk_of alnlen b (snd nr)).
Proof. exact line_shape. Qed.
Print Assumptions C15_block_line_shape.

(* blocks are at most 60 columns wide - exactly 60 except the last - and never empty *)
Theorem C15_blocks_at_most_60_columns : forall alnlen row b, length row = alnlen -> (b < (alnlen + 59) / 60)%nat ->
  (1 <= length (chunk_of alnlen b row) <= 60)%nat /\
  (length (chunk_of alnlen b row) = 60%nat \/ S b = ((alnlen + 59) / 60)%nat).
Proof. exact block_widths. Qed.
Print Assumptions C15_blocks_at_most_60_columns.

(* ... and together they are the row: every column is written exactly once, in order *)
Theorem C15_blocks_cover_the_row : forall alnlen row, length row = alnlen ->
  List.concat (map (fun b => chunk_of alnlen b row) (seq 0 ((alnlen + 59) / 60))) = row.
Proof. exact blocks_cover_row. Qed.
Print Assumptions C15_blocks_cover_the_row.

(* the MSF file: type line by molecule kind, "MSF: <alnlen>", "Check: <sum of row checksums mod 10000>", one
   Name line per row with "Len: <alnlen>" and "Check: <GCG checksum of the whole row>", "//", then the body *)
Theorem C15_msf_header_declares : forall basename date protein alnlen rows,
  exists body, write_msf basename date protein alnlen rows =
    unlines ([bytes_of_string (if protein then "!!AA_MULTIPLE_ALIGNMENT 1.0"%string else "!!NA_MULTIPLE_ALIGNMENT 1.0"%string); [];
              [space] ++ basename ++ bytes_of_string "  MSF: "%string ++ decimal (Z.of_nat alnlen) ++ bytes_of_string "  Type: "%string ++
                [if protein then 80 else 78] ++ bytes_of_string "  "%string ++ date ++ bytes_of_string "  Check: "%string ++
                decimal (gcg_mult alnlen rows) ++ bytes_of_string "  .."%string; []] ++
             map (fun nr => bytes_of_string " Name: "%string ++ firstn (max_name_len rows) (fst nr) ++
                            repeat space (max_name_len rows - length (firstn (max_name_len rows) (fst nr))) ++
                            bytes_of_string "  Len:  "%string ++ pad_left 5 (decimal (Z.of_nat alnlen)) ++
                            bytes_of_string "  Check: "%string ++ pad_left 4 (decimal (gcg_checksum (firstn alnlen (snd nr)))) ++
                            bytes_of_string "  Weight: 1.00"%string) rows ++
             [[]; bytes_of_string "//"%string; []] ++ body) /\ body = blocks alnlen rows.
Proof. exact msf_header_declares. Qed.
Print Assumptions C15_msf_header_declares.

(* a decimal field denotes the number printed *)
Theorem C15_decimal_fields_mean_their_numbers : forall n, 0 <= n < 10 ^ 40 -> undecimal (decimal n) = n.
Proof. exact decimal_value. Qed.
Print Assumptions C15_decimal_fields_mean_their_numbers.

(* the MSF header of a concrete alignment (instance, by evaluation): declared length = alignment
   length, per-row checksum over the whole row, nucleic-acid label *)
Example C15_msf_instance :
  let rows := [([115;49], [65;67;45;71;84;65;65]); ([115;50], [65;45;45;71;84;67;65])] in
  firstn 3 (read_lines (write_msf [111] [68] false 7 rows)) =
  [bytes_of_string "!!NA_MULTIPLE_ALIGNMENT 1.0"; [];
   bytes_of_string " o  MSF: 7  Type: N  D  Check: 3734  .."] /\
  gcg_checksum [65;67;45;71;84;65;65] + gcg_checksum [65;45;45;71;84;67;65] = 3734.
Proof. vm_compute. split; reflexivity. Qed.
