(* Model of qsort as glibc 2.36 implements it for these calls (msort.c: top-down merge sort,
   n1 = n/2, take from the left run when cmp <= 0), and of kalign's comparators
   (lib/src/msa_sort.c, lib/src/msa_check.c).  Executable; no proofs here. *)
From KV Require Import Base.
Local Open Scope Z_scope.

Section MergeSort.
Context {A : Type}.
Variable cmp : A -> A -> Z.

Fixpoint merge (l1 : list A) : list A -> list A :=
  fix merge_aux (l2 : list A) : list A :=
    match l1, l2 with
    | [], _ => l2
    | _, [] => l1
    | x :: t1, y :: t2 => if cmp x y <=? 0 then x :: merge t1 l2 else y :: merge_aux t2
    end.

Fixpoint msort_fuel (fuel : nat) (l : list A) : list A :=
  match fuel with
  | O => l
  | S f =>
    if (length l <=? 1)%nat then l
    else let n1 := (length l / 2)%nat in
         merge (msort_fuel f (firstn n1 l)) (msort_fuel f (skipn n1 l))
  end.

Definition msort (l : list A) : list A := msort_fuel (length l) l.
End MergeSort.

(* strncmp(a, b, n) on NUL-terminated byte strings given as lists without the NUL;
   bytes compare as unsigned char *)
Definition uchar (c : Z) : Z := c mod 256.

Fixpoint strncmp (n : nat) (a b : list Z) : Z :=
  match n with
  | O => 0
  | S n' =>
    match a, b with
    | [], [] => 0
    | [], y :: _ => if uchar y =? 0 then 0 else -1
    | x :: _, [] => if uchar x =? 0 then 0 else 1
    | x :: a', y :: b' =>
      if uchar x <? uchar y then -1 else if uchar y <? uchar x then 1
      else if uchar x =? 0 then 0 else strncmp n' a' b'
    end
  end.

(* a sequence record as the sort sees it *)
Record srec := mkS { r_rank : Z; r_name : list Z; r_res : list Z }.

Definition rlen (r : srec) : Z := Z.of_nat (length (r_res r)).

(* sort_by_len_name (msa_sort.c:62): never returns 0 *)
Definition cmp_len_name (x y : srec) : Z :=
  if rlen y <? rlen x then -1
  else if rlen x =? rlen y then (if strncmp 256 (r_name x) (r_name y) <? 0 then -1 else 1)
  else 1.

(* sort_by_rank (msa_sort.c:82) *)
Definition cmp_rank (x y : srec) : Z := if r_rank y <? r_rank x then 1 else -1.

Definition sort_len_name := msort cmp_len_name.
Definition sort_rank := msort cmp_rank.
