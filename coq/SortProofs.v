From KV Require Import Base Sort.
From Coq Require Import Permutation Sorted.
Local Open Scope Z_scope.

Section MS.
Context {A : Type}.
Variable cmp : A -> A -> Z.
Notation le x y := (cmp x y <= 0).

Lemma merge_nil_r l : merge cmp l [] = l.
Proof. destruct l; reflexivity. Qed.
Lemma merge_nil_l l : merge cmp [] l = l.
Proof. destruct l; reflexivity. Qed.

Lemma merge_cons x t1 y t2 :
  merge cmp (x :: t1) (y :: t2) =
  if cmp x y <=? 0 then x :: merge cmp t1 (y :: t2) else y :: merge cmp (x :: t1) t2.
Proof. reflexivity. Qed.

Lemma merge_perm : forall l1 l2, Permutation (merge cmp l1 l2) (l1 ++ l2).
Proof.
  induction l1 as [|x t1 IH1]; intros l2; [rewrite merge_nil_l; reflexivity|].
  induction l2 as [|y t2 IH2]; [rewrite merge_nil_r, app_nil_r; reflexivity|].
  rewrite merge_cons. destruct (cmp x y <=? 0).
  - simpl. constructor. apply IH1.
  - rewrite IH2. apply Permutation_middle.
Qed.

Lemma msort_fuel_perm : forall f l, Permutation (msort_fuel cmp f l) l.
Proof.
  induction f as [|f IH]; intros l; [reflexivity|].
  cbn [msort_fuel]. destruct (length l <=? 1)%nat; [reflexivity|].
  rewrite merge_perm, !IH, firstn_skipn. reflexivity.
Qed.

Theorem msort_perm l : Permutation (msort cmp l) l.
Proof. apply msort_fuel_perm. Qed.

(* sortedness, for comparators that are transitive and total on the elements being sorted *)
Variable P : A -> Prop.                       (* the elements we sort *)
Hypothesis le_trans : forall x y z, P x -> P y -> P z -> le x y -> le y z -> le x z.

Lemma merge_sorted : forall l1 l2,
  Forall P l1 -> Forall P l2 ->
  (forall x y, In x l1 -> In y l2 -> le x y \/ le y x) ->
  StronglySorted (fun x y => le x y) l1 -> StronglySorted (fun x y => le x y) l2 ->
  StronglySorted (fun x y => le x y) (merge cmp l1 l2).
Proof.
  induction l1 as [|x t1 IH1]; intros l2 P1 P2 Tot S1 S2; [rewrite merge_nil_l; exact S2|].
  induction l2 as [|y t2 IH2]; [rewrite merge_nil_r; exact S1|].
  rewrite merge_cons.
  inversion S1 as [|? ? S1' F1]; subst. inversion S2 as [|? ? S2' F2]; subst.
  inversion P1 as [|? ? Px P1']; subst. inversion P2 as [|? ? Py P2']; subst.
  destruct (cmp x y <=? 0) eqn:E.
  - apply Z.leb_le in E. constructor.
    + apply IH1; auto. intros a b Ha Hb. apply Tot; simpl; auto.
    + rewrite (merge_perm t1 (y :: t2)). apply Forall_app. split; [exact F1|].
      constructor; [exact E|].
      rewrite Forall_forall in F2, P2' |- *. intros z Hz.
      apply (le_trans x y z); auto.
  - apply Z.leb_gt in E.
    assert (le y x) as Hyx by (destruct (Tot x y ltac:(simpl; auto) ltac:(simpl; auto)); [lia|assumption]).
    constructor.
    + apply IH2; auto. intros a b Ha Hb. apply Tot; simpl; auto.
    + rewrite (merge_perm (x :: t1) t2). apply Forall_app. split; [|exact F2].
      constructor; [exact Hyx|].
      rewrite Forall_forall in F1, P1' |- *. intros z Hz.
      apply (le_trans y x z); auto.
Qed.

Lemma msort_fuel_sorted : forall f l,
  (length l <= f)%nat -> Forall P l ->
  (forall l1 l2 x y, l = l1 ++ l2 -> In x l1 -> In y l2 -> le x y \/ le y x) ->
  StronglySorted (fun x y => le x y) (msort_fuel cmp f l).
Proof.
  induction f as [|f IH]; intros l Hf HP Tot.
  - destruct l; [constructor|simpl in Hf; lia].
  - cbn [msort_fuel]. destruct (length l <=? 1)%nat eqn:E.
    + apply Nat.leb_le in E. destruct l as [|a [|b l]]; simpl in E; try lia; repeat constructor.
    + apply Nat.leb_gt in E.
      set (n1 := (length l / 2)%nat).
      assert (n1 < length l)%nat as Hn1 by (apply Nat.div_lt; lia).
      assert (0 < n1)%nat as Hn1' by (unfold n1; apply Nat.div_str_pos; lia).
      assert (l = firstn n1 l ++ skipn n1 l) as Hsplit by (symmetry; apply firstn_skipn).
      apply merge_sorted.
      * rewrite Forall_forall in *. intros x Hx. apply HP.
        apply (Permutation_in x (msort_fuel_perm f _)) in Hx. rewrite Hsplit. apply in_or_app; auto.
      * rewrite Forall_forall in *. intros x Hx. apply HP.
        apply (Permutation_in x (msort_fuel_perm f _)) in Hx. rewrite Hsplit. apply in_or_app; auto.
      * intros x y Hx Hy.
        apply (Permutation_in x (msort_fuel_perm f _)) in Hx.
        apply (Permutation_in y (msort_fuel_perm f _)) in Hy.
        apply (Tot (firstn n1 l) (skipn n1 l)); auto.
      * apply IH.
        -- rewrite firstn_length. lia.
        -- rewrite Hsplit in HP. apply Forall_app in HP. tauto.
        -- intros l1 l2 x y Hl Hx Hy. apply (Tot l1 (l2 ++ skipn n1 l)); auto.
           ++ rewrite app_assoc, <- Hl. exact Hsplit.
           ++ apply in_or_app; auto.
      * apply IH.
        -- rewrite skipn_length. lia.
        -- rewrite Hsplit in HP. apply Forall_app in HP. tauto.
        -- intros l1 l2 x y Hl Hx Hy. apply (Tot (firstn n1 l ++ l1) l2); auto.
           ++ rewrite <- app_assoc, <- Hl. exact Hsplit.
           ++ apply in_or_app; auto.
Qed.

Theorem msort_sorted l :
  Forall P l ->
  (forall l1 l2 x y, l = l1 ++ l2 -> In x l1 -> In y l2 -> le x y \/ le y x) ->
  StronglySorted (fun x y => le x y) (msort cmp l).
Proof. intros. apply msort_fuel_sorted; auto. Qed.

End MS.

(* two sorted permutations of each other are equal when the order is antisymmetric *)
Lemma sorted_perm_unique {A} (R : A -> A -> Prop) :
  forall l1 l2,
  (forall x y, In x l1 -> In y l1 -> R x y -> R y x -> x = y) ->
  StronglySorted R l1 -> StronglySorted R l2 -> Permutation l1 l2 ->
  (forall x, In x l1 -> ~ R x x \/ True) -> l1 = l2.
Proof.
  induction l1 as [|x l1 IH]; intros l2 Anti S1 S2 Hp _.
  - apply Permutation_nil in Hp. subst; reflexivity.
  - destruct l2 as [|y l2]; [symmetry in Hp; apply Permutation_nil in Hp; discriminate|].
    inversion S1 as [|? ? S1' F1]; subst. inversion S2 as [|? ? S2' F2]; subst.
    assert (x = y) as ->.
    { assert (In y (x :: l1)) as Hy by (apply (Permutation_in y (Permutation_sym Hp)); simpl; auto).
      assert (In x (y :: l2)) as Hx by (apply (Permutation_in x Hp); simpl; auto).
      destruct Hy as [Hy|Hy]; [auto|]. destruct Hx as [Hx|Hx]; [auto|].
      rewrite Forall_forall in F1, F2.
      apply Anti; simpl; auto. }
    f_equal. apply IH; auto.
    + intros a b Ha Hb. apply Anti; simpl; auto.
    + apply Permutation_cons_inv in Hp. exact Hp.
Qed.

(* ---- a canonical order: every permutation of the list sorts to the same result ------------------- *)
Lemma fop_app_cross' {A} (R : A -> A -> Prop) : forall l1 l2 x y,
  ForallOrdPairs R (l1 ++ l2) -> In x l1 -> In y l2 -> R x y.
Proof.
  induction l1 as [|a l1 IH]; intros l2 x y H Hx Hy; [contradiction|].
  simpl in H. inversion H as [|? ? Ha Hrest]; subst.
  destruct Hx as [<-|Hx].
  - rewrite Forall_forall in Ha. apply Ha. apply in_or_app; auto.
  - eapply IH; eauto.
Qed.

Lemma fop_perm' {A} (R : A -> A -> Prop) : (forall x y, R x y -> R y x) ->
  forall l l', Permutation l l' -> ForallOrdPairs R l -> ForallOrdPairs R l'.
Proof.
  intros Hsym l l' Hp. induction Hp; intro H; auto.
  - inversion H; subst. constructor; auto. eapply Permutation_Forall; eauto.
  - inversion H as [|? ? Hy H']; subst. inversion H' as [|? ? Hx H'']; subst.
    inversion Hy as [|? ? Hyx Hyl]; subst.
    constructor; [constructor; auto|]. constructor; auto.
Qed.

Theorem msort_canonical {A} (cmp : A -> A -> Z) (l l' : list A) :
  (forall x y z, In x l -> In y l -> In z l -> cmp x y <= 0 -> cmp y z <= 0 -> cmp x z <= 0) ->
  (forall x y, In x l -> In y l -> cmp x y <= 0 -> cmp y x <= 0 -> False) ->
  ForallOrdPairs (fun x y => cmp x y <= 0 \/ cmp y x <= 0) l ->
  Permutation l l' -> msort cmp l = msort cmp l'.
Proof.
  intros Htr Has Htot Hp.
  assert (forall x, In x l' -> In x l) as Hin' by (intros x Hx; eapply Permutation_in; [apply Permutation_sym; exact Hp|exact Hx]).
  assert (ForallOrdPairs (fun x y => cmp x y <= 0 \/ cmp y x <= 0) l') as Htot'.
  { eapply fop_perm'; [|exact Hp|exact Htot]. intros x y [H|H]; auto. }
  apply (sorted_perm_unique (fun x y => cmp x y <= 0)).
  - intros x y Hx Hy H1 H2. exfalso.
    apply (Has x y); auto; eapply Permutation_in; try apply (msort_perm cmp l); auto.
  - apply (msort_sorted cmp (fun x => In x l)).
    + intros x y z. apply Htr.
    + apply Forall_forall. auto.
    + intros l1 l2 x y Hl Hx Hy. subst l. apply (fop_app_cross' _ l1 l2 x y Htot); auto.
  - apply (msort_sorted cmp (fun x => In x l)).
    + intros x y z. apply Htr.
    + apply Forall_forall. auto.
    + intros l1 l2 x y Hl Hx Hy. subst l'. apply (fop_app_cross' _ l1 l2 x y Htot'); auto.
  - rewrite (msort_perm cmp l), (msort_perm cmp l'). exact Hp.
  - auto.
Qed.
