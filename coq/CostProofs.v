(* C07: a necessary condition of Hirschberg's optimality that is about the kernel TEXT, for every arithmetic: the meetup
   must charge a gap that crosses the middle row exactly what the two passes charge for the same step - in particular it
   must use the terminal gap extension at exactly the columns where the passes do.  (The defect repaired by b57ad5d was
   a violation of this: the meetup used the terminal extension at every column of a sub-problem starting at column 0.) *)
From Coq Require Import ZArith List Bool Lia.
From KV Require Import Kernels KernelProofs.
Import ListNotations.
Local Open Scope Z_scope.

Section PassCosts.
Variable A : alg.
Variables R C : Type.
Variable K : costs A R C.
Notation "x +. y" := (add A x y) (at level 50, left associativity).

(* the gb update of one cell (a row consumed without a column), in its two costings *)
Definition gb_update (terminal : bool) (o : cell A) (r : R) : T A :=
  if terminal then mx A (c_gb A o) (c_a A o) +. k_gb_text A R C K r
  else mx A (c_gb A o +. k_gb_ext A R C K r) (c_a A o +. k_gb_open A R C K r).

(* which cells of a row are costed as terminal: the first one of a pass that starts at the left border, the last one of a
   pass that ends at the right border *)
Definition pass_terminal (fi li : bool) (n j : nat) : bool := ((j =? 0)%nat && negb fi) || ((j =? n)%nat && negb li).

Lemma row_cells_cons li r pa pga pgb xa xga o o2 old' c c2 cols' :
  row_cells A R C K li r pa pga pgb xa xga (o :: o2 :: old') (c :: c2 :: cols') =
  (let na := k_match A R C K r c (mx3 A pa (pga +. k_ga_to_a A R C K c) (pgb +. k_gb_to_a A R C K r)) in
   let nga := mx A (xga +. k_ga_ext A R C K c) (xa +. k_ga_open A R C K c) in
   let ngb := mx A (c_gb A o +. k_gb_ext A R C K r) (c_a A o +. k_gb_open A R C K r) in
   (na, nga, ngb) :: row_cells A R C K li r (c_a A o) (c_ga A o) (c_gb A o) na nga (o2 :: old') (c2 :: cols')).
Proof. reflexivity. Qed.

Lemma row_cells_gb : forall cols old li r pa pga pgb xa xga j, length old = length cols -> (j < length cols)%nat ->
  c_gb A (nth j (row_cells A R C K li r pa pga pgb xa xga old cols) (dead A)) =
  gb_update ((S j =? length cols)%nat && negb li) (nth j old (dead A)) r.
Proof.
  induction cols as [|c cols IH]; intros old li r pa pga pgb xa xga j L J; [cbn [length] in J; lia|].
  destruct old as [|o old]; [discriminate|]. cbn [length] in L. injection L as L.
  destruct cols as [|c2 cols'].
  - destruct old; [|discriminate]. assert (j = 0%nat) as -> by (cbn [length] in J; lia).
    cbn [row_cells nth length Nat.eqb andb]. unfold gb_update, c_gb. cbn [snd]. destruct li; reflexivity.
  - destruct old as [|o2 old']; [discriminate|]. rewrite row_cells_cons. cbv zeta. destruct j as [|j].
    + cbn [nth length]. unfold gb_update, c_gb. cbn [snd Nat.eqb andb]. reflexivity.
    + cbn [nth]. rewrite (IH (o2 :: old')) by (cbn [length] in *; lia). cbn [length]. reflexivity.
Qed.

Theorem row_step_gb : forall cells cols fi li r j, length cells = S (length cols) -> (1 <= length cols)%nat -> (j <= length cols)%nat ->
  c_gb A (nth j (row_step A R C K fi li cells cols r) (dead A)) =
  gb_update (pass_terminal fi li (length cols) j) (nth j cells (dead A)) r.
Proof.
  intros cells cols fi li r j L N J. destruct cells as [|o0 old]; [discriminate|]. cbn [length] in L. injection L as L.
  unfold row_step. destruct j as [|j].
  - cbn [nth]. unfold pass_terminal. destruct cols as [|c cols']; [cbn [length] in N; lia|]. cbn [length Nat.eqb andb orb].
    rewrite orb_false_r. unfold gb_update, c_gb. cbn [snd]. destruct fi; reflexivity.
  - cbn [nth]. rewrite row_cells_gb by lia. unfold pass_terminal. cbn [Nat.eqb andb orb]. reflexivity.
Qed.
End PassCosts.

(* cell j of the array of a sub-problem is column startb + j; the flags the three kernels pass are
   first_internal = (startb <> 0), last_internal = (endb <> len_b) for the forward pass *)
Definition pass_terminal_col (startb endb len_b i : Z) : bool :=
  pass_terminal (negb (startb =? 0)) (negb (endb =? len_b)) (Z.to_nat (endb - startb)) (Z.to_nat (i - startb)).

(* what the meetup uses for the gb -> gb candidate at column i (meet_scan: meet_col (i =? 0) below endb, meet_last at endb) *)
Definition meet_terminal_col (endb len_b i : Z) : bool := if i <? endb then (i =? 0) else (endb =? len_b).

Theorem meetup_and_passes_agree_on_terminal_columns : forall startb endb len_b i,
  0 <= startb -> startb < endb -> endb <= len_b -> startb <= i <= endb ->
  meet_terminal_col endb len_b i = pass_terminal_col startb endb len_b i.
Proof.
  intros startb endb len_b i H0 H1 H2 H3. unfold meet_terminal_col, pass_terminal_col, pass_terminal.
  rewrite !negb_involutive.
  destruct (Z.ltb_spec i endb) as [L|G].
  - destruct (Nat.eqb_spec (Z.to_nat (i - startb)) (Z.to_nat (endb - startb))) as [E|_]; [lia|]. cbn [andb]. rewrite orb_false_r.
    destruct (Nat.eqb_spec (Z.to_nat (i - startb)) 0) as [E|N]; destruct (Z.eqb_spec i 0), (Z.eqb_spec startb 0); cbn [andb]; try reflexivity; lia.
  - assert (i = endb) as -> by lia.
    destruct (Nat.eqb_spec (Z.to_nat (endb - startb)) 0) as [E|_]; [lia|]. cbn [andb orb]. rewrite Nat.eqb_refl. reflexivity.
Qed.

(* the meetup really is that scan: below endb it hands (i =? 0) to meet_col, at endb it calls meet_last *)
Lemma meet_scan_flags (A : alg) (M : mcosts A) : forall sz el startb endb i f b fs bs best,
  fs <> [] -> bs <> [] ->
  meet_scan A M sz el startb endb i (f :: fs) (b :: bs) best =
  meet_scan A M sz el startb endb (i + 1) fs bs (meet_col A M (i =? 0) (tiebreak A startb endb i) i f b best).
Proof. intros sz el startb endb i f b fs bs best Hf Hb. destruct fs; [congruence|]. destruct bs; [congruence|]. reflexivity. Qed.

(* the condition the C text used before fix b57ad5d - "the sub-problem starts at column 0" - is NOT the passes' condition *)
Example old_meetup_condition_refuted :
  exists startb endb len_b i, 0 <= startb /\ startb < endb /\ endb <= len_b /\ startb <= i < endb /\
    (startb =? 0) <> pass_terminal_col startb endb len_b i.
Proof. exists 0, 2, 2, 1. repeat split; try lia. vm_compute. discriminate. Qed.
