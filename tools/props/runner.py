"""Helpers to drive the implementation through the file API (kvh runfile) in bulk."""
import os, tempfile, shutil
import gen

class FileRunner:
    def __init__(self, ck, variant='omp'):
        self.ck = ck
        self.kvh = ck.harness(variant, 'kvh')
        self.tmp = tempfile.mkdtemp(prefix='kv_run_')
        self.jobs = []

    def add(self, texts, fmt='fasta', threads=1, ty=5, pens=(gen.NG, gen.NG, gen.NG), flags=0, tag=None):
        """texts: list of input file contents (bytes or str)"""
        idx = len(self.jobs)
        paths = []
        for k, t in enumerate(texts):
            p = os.path.join(self.tmp, 'in%d_%d' % (idx, k))
            with open(p, 'wb') as f:
                f.write(t if isinstance(t, bytes) else t.encode('latin-1'))
            paths.append(p)
        outp = os.path.join(self.tmp, 'out%d' % idx)
        line = 'runfile %d %d %d %d %d %d %s %s %s' % (flags, threads, ty, pens[0], pens[1], pens[2], fmt, outp, ' '.join(paths))
        self.jobs.append({'line': line, 'out': outp, 'fmt': fmt, 'tag': tag})
        return idx

    def run(self, timeout=1800):
        lines = [j['line'] for j in self.jobs]
        res = self.ck.run_lines(self.kvh, lines, timeout=timeout)
        self.ck.evaluations += len(lines)
        out = []
        for j, r in zip(self.jobs, res):
            text = None
            if r.startswith('OK') and os.path.exists(j['out']):
                text = open(j['out'], 'rb').read().decode('latin-1')
            out.append({'status': r, 'text': text, 'fmt': j['fmt'], 'tag': j['tag']})
        return out

    def close(self):
        shutil.rmtree(self.tmp, ignore_errors=True)

def parse_out(fmt, text):
    if fmt == 'fasta':
        return gen.parse_fasta(text)
    if fmt == 'msf':
        _, n, r = gen.parse_msf(text)
        return n, r
    _, n, r = gen.parse_clustal(text)
    return n, r
