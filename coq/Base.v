(* Base definitions shared by all model files: bytes, C ctype (tables generated from libc),
   binary32 bit-pattern helpers that need no float library. *)
From Coq Require Export ZArith NArith List Bool Lia.
From KV Require Export Generated.Tables.
Export ListNotations.
Local Open Scope Z_scope.

(* A C [char] on this target is signed: -128..127. *)
Definition byte := Z.

Definition nthZ {A} (d : A) (l : list A) (i : Z) : A :=
  if i <? 0 then d else nth (Z.to_nat i) l d.

Definition ctype_lookup (t : list bool) (c : byte) : bool := nthZ false t (c + 128).

Definition isalpha (c : byte) : bool := ctype_lookup ctype_isalpha c.
Definition ispunct (c : byte) : bool := ctype_lookup ctype_ispunct c.
Definition isspace (c : byte) : bool := ctype_lookup ctype_isspace c.
Definition iscntrl (c : byte) : bool := ctype_lookup ctype_iscntrl c.
Definition toupper (c : byte) : Z := nthZ c ctype_toupper (c + 128).

(* ---- binary32 as bit patterns ------------------------------------------------------- *)
(* [x >= 0.0] for a binary32 with bit pattern [b] (promotion to double is exact):
   true for +0, -0, positive finite, +inf; false for negatives and every NaN. *)
Definition f32_ge0 (b : N) : bool :=
  (N.leb b 2139095040 (* 0x7f800000 = +inf *) || N.eqb b 2147483648 (* -0.0 *))%N.

(* binary32 encoding of an integer of magnitude below 2^24 (exact). *)
Definition f32_of_pos (p : positive) : N :=
  let e := Z.log2 (Zpos p) in          (* 0 <= e <= 23 *)
  let m := (Zpos p) * 2 ^ (23 - e) - 2 ^ 23 in
  Z.to_N ((e + 127) * 2 ^ 23 + m).
Definition f32_of_Z (z : Z) : N :=
  match z with
  | Z0 => 0%N
  | Zpos p => f32_of_pos p
  | Zneg p => (2147483648 + f32_of_pos p)%N
  end.

(* Decoding of integer-valued bit patterns (the inverse on the sampled range). *)
Definition f32_int_value (b : N) : option Z :=
  match find (fun zb => N.eqb (snd zb) b) f32_of_int_samples with
  | Some zb => Some (fst zb)
  | None => None
  end.

Lemma f32_of_Z_matches_C :
  forallb (fun zb => N.eqb (f32_of_Z (fst zb)) (snd zb)) f32_of_int_samples = true.
Proof. vm_compute. reflexivity. Qed.

(* small list helpers *)
Fixpoint list_eqb {A} (eqb : A -> A -> bool) (a b : list A) : bool :=
  match a, b with
  | [], [] => true
  | x :: a', y :: b' => eqb x y && list_eqb eqb a' b'
  | _, _ => false
  end.

Lemma list_eqb_eq {A} (eqb : A -> A -> bool) :
  (forall x y, eqb x y = true -> x = y) ->
  forall a b, list_eqb eqb a b = true -> a = b.
Proof.
  intros H a; induction a as [|x a IH]; intros [|y b] E; simpl in E; try discriminate; auto.
  apply andb_true_iff in E as [E1 E2]. f_equal; auto.
Qed.

Lemma list_eqb_refl {A} (eqb : A -> A -> bool) :
  (forall x, eqb x x = true) -> forall a, list_eqb eqb a a = true.
Proof. intros H a; induction a; simpl; auto. rewrite H, IHa; reflexivity. Qed.
