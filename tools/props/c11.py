"""C11 - the bit-parallel distance kernel equals the edit distance it stands for."""
import json, itertools

def hx(l):
    return ''.join('%02x' % c for c in l)

def run(ck):
    ck.build(('omp', 'plain'))
    ck.translate()
    ok = ck.prove()
    rng = ck.rng
    ck.rule = ('bpm_block/bpm/bpm_256 on (text, pattern) pairs, pattern not longer than the text, 13 symbols: exhaustive for alphabets {2,3} and small lengths; '
               'random with lengths around every multiple of 64 up to the 1024 cap, patterns equal to / contained in / disjoint from / a mutation of a text window; '
               'both the AVX2+OpenMP build and the scalar build. Correspondence: the three model kernels vs the implementation; witness: implementation vs the '
               'extracted specification sed (plain semi-global DP). Non-trivial = distance strictly between 0 and the pattern length; distinct by (text, pattern)')
    cases = []
    # exhaustive small
    for sigma, nmax, mmax in ((2, 6, 4), (3, 5, 3)):
        for n in range(1, nmax + 1):
            for m in range(1, min(mmax, n) + 1):
                for t in itertools.product(range(sigma), repeat=n):
                    for p in itertools.product(range(sigma), repeat=m):
                        cases.append((list(t), list(p)))
    ck.count('exhaustive small cases', len(cases))
    N = 260 if ck.tier == 'quick' else 4000
    bounds = [1, 2, 31, 32, 33, 62, 63, 64, 65, 127, 128, 129, 191, 192, 193, 254, 255, 256, 257, 319, 320, 511, 512, 513, 1023, 1024, 1025, 1100]
    for k in range(N):
        big = (k % 13 == 0)
        m = rng.choice(bounds if big or ck.tier == 'thorough' else bounds[:19])
        if ck.tier == 'quick' and m > 520 and k % 39 != 0:
            m = rng.choice(bounds[:16])
        sigma = rng.choice([2, 4, 13, 13])
        n = m + rng.choice([0, 0, 1, 5, 64, 200]) if not big else m + rng.choice([0, 1, 70])
        t = [rng.below(sigma) for _ in range(n)]
        kind = rng.below(5)
        if kind == 0:
            p = [rng.below(sigma) for _ in range(m)]
        elif kind == 1:      # contained
            a = rng.below(n - m + 1); p = t[a:a + m]
        elif kind == 2:      # mutated window
            a = rng.below(n - m + 1); p = list(t[a:a + m])
            for _ in range(rng.range(1, max(1, m // 8))):
                p[rng.below(m)] = rng.below(sigma)
        elif kind == 3:      # window with an indel, ends in symbol 0 (the padding symbol)
            a = rng.below(n - m + 1); p = list(t[a:a + m]); q = rng.below(m); p = (p[:q] + p[q + 1:] + [0])[:m]
        else:                # disjoint alphabet
            p = [12 - c if sigma < 7 else c for c in [rng.below(sigma) for _ in range(m)]]
        if len(p) > len(t) or not p:
            continue
        cases.append((t, p))
        ck.count('pattern length %s' % ('<=63' if len(p) <= 63 else '<=255' if len(p) <= 255 else '<=1024' if len(p) <= 1024 else '>1024'))
    # dense family at the word boundaries of the single-word kernels: the score bit is bit (m-1) mod 64 of lane (m-1) div 64,
    # so m = 64k and m = 64k+1 exercise a shift count of 63 resp. 0 in every lane; an error there shows on a few percent of
    # random pairs only, hence many pairs per length (small alphabets make the delta vectors dense)
    for m in (1, 2, 63, 64, 65, 66, 127, 128, 129, 130, 191, 192, 193, 194, 254, 255):
        for k in range(36 if ck.tier == 'quick' else 200):
            sigma = rng.choice([2, 3, 4, 4, 13])
            n = m + rng.choice([0, 1, 7, 64, 146])
            t = [rng.below(sigma) for _ in range(n)]
            if k % 3 == 0:
                p = [rng.below(sigma) for _ in range(m)]
            else:
                a = rng.below(n - m + 1); p = list(t[a:a + m])
                for _ in range(rng.range(1, max(2, m // 5))):
                    p[rng.below(m)] = rng.below(sigma)
            cases.append((t, p))
        ck.count('dense word-boundary family, pattern length %d' % m)
    lines = ['bpm %s %s' % (hx(t), hx(p)) for t, p in cases]
    model = ck.model()
    mod = ck.run_lines_sharded(model, lines, shards=14, timeout=3000)
    wit, dis = [], []
    for variant in ('omp', 'plain'):
        impl = ck.run_lines(ck.harness(variant, 'kvh'), lines, timeout=1200)
        ck.evaluations += len(lines)
        nd = 0
        for (t, p), ln, r, m in zip(cases, lines, impl, mod):
            fi = dict(x.split('=') for x in r.split() if '=' in x)
            fm = dict(x.split('=') for x in m.split() if '=' in x)
            mlen = len(p)
            # correspondence: model kernels vs implementation
            keys = ['block', 'b64'] + (['b256'] if fi.get('b256', '-') != '-' else [])
            for key in keys:
                if key == 'b64' and mlen > 63: continue      # int8_t result only meaningful up to 63
                if key == 'b256' and mlen > 255: continue
                if fi.get(key) != fm.get(key):
                    nd += 1
                    dis.append((variant, key, ln, r, m))
            # the bit-list model (BpmBits.v: the one the theorems are about) against the same implementation results
            for key, mk in (('block', 'bblock'), ('b64', 'bb64')):
                if key == 'b64' and mlen > 63: continue
                if fi.get(key) != fm.get(mk):
                    nd += 1
                    dis.append((variant, mk, ln, r, m))
            # witness: implementation vs specification
            spec = {'block': fm.get('sed1024'), 'b64': fm.get('sed63'), 'b256': fm.get('sed255')}
            for key in keys:
                if key == 'b64' and mlen > 63: continue
                if key == 'b256' and mlen > 255: continue
                if fi.get(key) != spec[key]:
                    wit.append({'kind': 'kernel-differs-from-edit-distance', 'build': variant, 'kernel': {'block': 'bpm_block', 'b64': 'bpm', 'b256': 'bpm_256'}[key],
                                'text': t, 'pattern': p, 'implementation': fi.get(key), 'specification': spec[key]})
            if fm.get('sed') not in ('0', str(mlen)):
                ck.nontriv(ln)
        ck.corr['Bpm model vs bpm.c (%s build)' % variant] = {'cases': len(lines), 'disagreements': nd}
    ck.sample({'case': lines[-1][:300], 'model': mod[-1]})
    ck.sample({'case': lines[5], 'model': mod[5]})
    seen = {}
    for w in wit:
        key = (w['kernel'], w['build'])
        seen[key] = seen.get(key, 0) + 1
        if seen[key] <= 1:
            ck.violation('witness', w)
    if not wit:
        if not ok:
            ck.violation('proof', {'what_no_longer_checks': ck.proof['failed']}, nofail=True)
        elif dis:
            variant, key, ln, r, m = dis[0]
            ck.violation('correspondence', {'what_no_longer_checks': 'correspondence of Model Bpm (%s) with bpm.c, %s build' % (key, variant),
                                            'first_disagreement': {'case': ln[:3000], 'implementation': r, 'model': m}, 'disagreements': len(dis)}, nofail=True)

def replay(ck, obj):
    print(json.dumps(obj, indent=1)[:4000])
    return 0
