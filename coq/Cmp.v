(* Model of lib/src/msa_cmp.c (kalign_msa_compare, compare_pair) and kalign_sort_msa
   (msa_check.c:29).  Counters are unsigned 64-bit in C; here N (no run reaches 2^64).
   Executable; no proofs here. *)
From KV Require Import Base FP Sort.
Local Open Scope Z_scope.

(* codes1: for every residue of x, the index (among y's residues) of the residue of y in the same
   column, or -1 when y has no residue there.  p2 = number of residues of y seen so far. *)
Fixpoint codes1 (x y : list Z) (p2 : Z) : list Z :=
  match x, y with
  | a :: x', b :: y' =>
    let p2' := if isalpha b then p2 + 1 else p2 in
    if isalpha a then (if isalpha b then p2 else -1) :: codes1 x' y' p2' else codes1 x' y' p2'
  | _, _ => []
  end.

Record counters := mkC { ref_aligned : N; ref_gap : N; test_aligned : N; test_gap : N;
                         ident_aligned : N; ident_gap : N }.

(* (aligned pairs counted twice, residue-gap pairs) of one pair of rows *)
Fixpoint pair_totals (x y : list Z) : N * N :=
  match x, y with
  | a :: x', b :: y' =>
    let '(al, gp) := pair_totals x' y' in
    if isalpha a && isalpha b then (al + 2, gp)%N
    else if isalpha a || isalpha b then (al, gp + 1)%N
    else (al, gp)
  | _, _ => (0, 0)%N
  end.

(* the two final loops of compare_pair, for one direction *)
Fixpoint agree (ca cb : list Z) : N * N :=
  match ca, cb with
  | a :: ca', b :: cb' =>
    let '(ia, ig) := agree ca' cb' in
    if negb (a =? -1) then (if a =? b then ((ia + 1)%N, ig) else (ia, ig))
    else (if a =? b then (ia, (ig + 1)%N) else (ia, ig))
  | _, _ => (0, 0)%N
  end.

Definition compare_pair (c : counters) (xa ya xb yb : list Z) : counters :=
  let '(ra, rg) := pair_totals xa ya in
  let '(ta, tg) := pair_totals xb yb in
  let '(i1, g1) := agree (codes1 xa ya 0) (codes1 xb yb 0) in
  let '(i2, g2) := agree (codes1 ya xa 0) (codes1 yb xb 0) in
  mkC (ref_aligned c + ra)%N (ref_gap c + rg)%N (test_aligned c + ta)%N (test_gap c + tg)%N
      (ident_aligned c + i1 + i2)%N (ident_gap c + g1 + g2)%N.

(* all pairs i < j, rows of r and t matched by position *)
Fixpoint pairs_from (c : counters) (xa xb : list Z) (ra rb : list (list Z)) : counters :=
  match ra, rb with
  | ya :: ra', yb :: rb' => pairs_from (compare_pair c xa ya xb yb) xa xb ra' rb'
  | _, _ => c
  end.

Fixpoint all_pairs (c : counters) (ra rb : list (list Z)) : counters :=
  match ra, rb with
  | xa :: ra', xb :: rb' => all_pairs (pairs_from c xa xb ra' rb') ra' rb'
  | _, _ => c
  end.

(* kalign_sort_msa: by name (strncmp 256), then checksum descending; never 0 *)
Definition gcg_checksum (s : list Z) : Z :=
  fst (fold_left (fun st c => let '(chk, i) := st in ((chk + (i mod 57 + 1) * toupper c) mod 10000, i + 1)) s (0, 0)).

Record crow := mkR { c_name : list Z; c_row : list Z; c_chk : Z }.

Definition cmp_both (x y : crow) : Z :=
  if strncmp 256 (c_name x) (c_name y) <? 0 then -1
  else if strncmp 256 (c_name x) (c_name y) =? 0 then (if c_chk y <? c_chk x then -1 else 1)
  else 1.

Definition zero_counters := mkC 0 0 0 0 0 0.

Definition compare_counters (r t : list crow) : counters :=
  all_pairs zero_counters (map c_row (msort cmp_both r)) (map c_row (msort cmp_both t)).

(* *score = 100.0 * a / b  (double), stored into a float *)
Definition f64_of_N (n : N) : f64 := f64_of_Z (Z.of_N n).
Definition f32_of_f64 (x : f64) : f32 :=
  match x with
  | Flocq.IEEE754.Binary.B754_zero _ _ s => Flocq.IEEE754.Binary.B754_zero 24 128 s
  | Flocq.IEEE754.Binary.B754_infinity _ _ s => Flocq.IEEE754.Binary.B754_infinity 24 128 s
  | Flocq.IEEE754.Binary.B754_nan _ _ s _ _ => f32_of_bits (if s then 4290772992 else 2143289344)
  | Flocq.IEEE754.Binary.B754_finite _ _ s m e _ =>
    Flocq.IEEE754.Binary.binary_normalize 24 128 (eq_refl _) (eq_refl _)
      Flocq.IEEE754.BinarySingleNaN.mode_NE (Flocq.Core.Zaux.cond_Zopp s (Zpos m)) e s
  end.

Definition score_of (c : counters) : N :=
  let a := f64_of_N (ident_aligned c + ident_gap c)%N in
  let b := f64_of_N (ref_aligned c + ref_gap c)%N in
  bits_of_f32 (f32_of_f64 (f64_div (f64_mul (f64_of_bits 4636737291354636288 (* 100.0 *)) a) b)).

(* a row as it sits in the msa after reading/finalising: seq holds the gapped row, len is still
   the ungapped length, and kalign_sort_msa checksums the first len bytes *)
Definition mk_crow (name row : list Z) : crow :=
  mkR name row (gcg_checksum (firstn (length (filter isalpha row)) row)).

Definition compare_model (r t : list (list Z * list Z)) : counters * N :=
  let c := compare_counters (map (fun p => mk_crow (fst p) (snd p)) r) (map (fun p => mk_crow (fst p) (snd p)) t) in
  (c, score_of c).
