From KV Require Import Base Params Sort SortProofs Weave WeaveProofs Api.
From Coq Require Import Permutation Sorted.
Local Open Scope Z_scope.

(* ---- merge sort commutes with a comparator-preserving relation ------------------------------- *)
Section SortRel.
Context {A B : Type}.
Variable R : A -> B -> Prop.
Variable cmpA : A -> A -> Z.
Variable cmpB : B -> B -> Z.
Hypothesis cmp_resp : forall x x' y y', R x x' -> R y y' -> cmpA x y = cmpB x' y'.

Lemma merge_Forall2 : forall l1 l1', Forall2 R l1 l1' -> forall l2 l2', Forall2 R l2 l2' ->
  Forall2 R (merge cmpA l1 l2) (merge cmpB l1' l2').
Proof.
  induction 1 as [|x x' t1 t1' Hx H1 IH1]; intros l2 l2' H2.
  - rewrite !merge_nil_l. exact H2.
  - induction H2 as [|y y' t2 t2' Hy H2 IH2].
    + rewrite !merge_nil_r. constructor; auto.
    + rewrite !merge_cons. rewrite <- (cmp_resp x x' y y' Hx Hy).
      destruct (cmpA x y <=? 0).
      * constructor; [exact Hx | apply IH1; constructor; auto].
      * constructor; [exact Hy | exact IH2].
Qed.

Lemma Forall2_firstn : forall n l l', Forall2 R l l' -> Forall2 R (firstn n l) (firstn n l').
Proof. induction n; intros l l' H; [constructor|]. destruct H; simpl; constructor; auto. Qed.
Lemma Forall2_skipn : forall n l l', Forall2 R l l' -> Forall2 R (skipn n l) (skipn n l').
Proof. induction n; intros l l' H; [exact H|]. destruct H; simpl; [constructor|auto]. Qed.
Lemma Forall2_len : forall l l', Forall2 R l l' -> length l = length l'.
Proof. induction 1; simpl; congruence. Qed.

Lemma msort_fuel_Forall2 : forall f l l', Forall2 R l l' ->
  Forall2 R (msort_fuel cmpA f l) (msort_fuel cmpB f l').
Proof.
  induction f as [|f IH]; intros l l' H; [exact H|].
  cbn [msort_fuel]. rewrite <- (Forall2_len l l' H).
  destruct (length l <=? 1)%nat; [exact H|].
  apply merge_Forall2; apply IH; [apply Forall2_firstn|apply Forall2_skipn]; exact H.
Qed.

Lemma msort_Forall2 l l' : Forall2 R l l' -> Forall2 R (msort cmpA l) (msort cmpB l').
Proof. intro H. unfold msort. rewrite <- (Forall2_len l l' H). apply msort_fuel_Forall2. exact H. Qed.
End SortRel.

Lemma Forall2_map_eq {A B C} (R : A -> B -> Prop) (f : A -> C) (g : B -> C) :
  (forall x y, R x y -> f x = g y) -> forall l l', Forall2 R l l' -> map f l = map g l'.
Proof. intros H l l'. induction 1; simpl; f_equal; auto. Qed.

Lemma Forall2_filter {A B} (R : A -> B -> Prop) (p : A -> bool) (q : B -> bool) :
  (forall x y, R x y -> p x = q y) -> forall l l', Forall2 R l l' -> Forall2 R (filter p l) (filter q l').
Proof.
  intros H l l'. induction 1 as [|x y l l' Hxy Hl IH]; simpl; [constructor|].
  rewrite <- (H x y Hxy). destruct (p x); [constructor|]; auto.
Qed.

Lemma Forall2_combine_same {A B C} (R : B -> C -> Prop) : forall (g : list A) l l',
  Forall2 R l l' -> Forall2 (fun a b => fst a = fst b /\ R (snd a) (snd b)) (combine g l) (combine g l').
Proof.
  induction g as [|a g IH]; intros l l' H; [constructor|].
  destruct H; simpl; constructor; auto.
Qed.

Lemma Forall2_map2 {A B C D} (R : A -> B -> Prop) (Q : C -> D -> Prop) (f : A -> C) (g : B -> D) :
  (forall x y, R x y -> Q (f x) (g y)) -> forall l l', Forall2 R l l' -> Forall2 Q (map f l) (map g l').
Proof. intros H l l'. induction 1; simpl; constructor; auto. Qed.

(* ---- C14: respelling ----------------------------------------------------------------------- *)
Section Respell.
Variable core : Z -> params -> list (list Z) -> list (list Z) -> list (list nat).
Variable bt : Z.
Variables ta aa : list Z.
Variables tamb aamb : Z.
Hypothesis Halpha : alphabets bt = Some ((ta, tamb), (aa, aamb)).

(* two bytes that the alignment cannot tell apart: same code in both alphabets, and neither or
   both are the gap character *)
Definition equiv_byte (c c' : Z) : Prop :=
  code_of ta tamb c = code_of ta tamb c' /\ code_of aa aamb c = code_of aa aamb c' /\
  (c =? dash) = (c' =? dash).

Definition respelled (r r' : list Z * list Z) : Prop :=
  fst r = fst r' /\ Forall2 equiv_byte (snd r) (snd r').

Definition rec_rel (r r' : srec) : Prop :=
  r_rank r = r_rank r' /\ r_name r = r_name r' /\ Forall2 equiv_byte (r_res r) (r_res r').

Lemma with_ranks_rel : forall recs recs' i, Forall2 respelled recs recs' ->
  Forall2 rec_rel (with_ranks i recs) (with_ranks i recs').
Proof.
  intros recs recs' i H. revert i. induction H as [|[n r] [n' r'] l l' [Hn Hr] Hl IH]; intros i; simpl; constructor; auto.
  simpl in *. repeat split; auto.
Qed.

Lemma rec_rel_len r r' : rec_rel r r' -> rlen r = rlen r'.
Proof. intros (_ & _ & H). unfold rlen. f_equal. eapply Forall2_len; eauto. Qed.

Lemma rec_rel_nonempty r r' : rec_rel r r' -> nonempty_rec r = nonempty_rec r'.
Proof. intros (_ & _ & H). unfold nonempty_rec. destruct H; reflexivity. Qed.

Lemma rec_rel_cmp x x' y y' : rec_rel x x' -> rec_rel y y' -> cmp_len_name x y = cmp_len_name x' y'.
Proof.
  intros Hx Hy. unfold cmp_len_name.
  rewrite (rec_rel_len _ _ Hx), (rec_rel_len _ _ Hy).
  destruct Hx as (_ & -> & _). destruct Hy as (_ & -> & _). reflexivity.
Qed.

Lemma essential_rel l l' : Forall2 rec_rel l l' ->
  match essential_check l, essential_check l' with
  | Some k, Some k' => Forall2 rec_rel k k'
  | None, None => True
  | _, _ => False
  end.
Proof.
  intro H. unfold essential_check. rewrite <- (Forall2_len _ l l' H).
  destruct (length l <=? 1)%nat; auto.
  pose proof (Forall2_filter rec_rel nonempty_rec nonempty_rec rec_rel_nonempty l l' H) as Hf.
  rewrite <- (Forall2_len _ _ _ Hf). destruct (length (filter nonempty_rec l) <=? 1)%nat; auto.
Qed.

Definition same_shape (row row' : list Z) : Prop :=
  Forall2 (fun c c' => (c =? dash) = (c' =? dash)) row row'.

Lemma expand_shape : forall res res', Forall2 equiv_byte res res' -> forall g,
  same_shape (expand g res) (expand g res') /\
  Forall2 (fun c c' => c = c' \/ equiv_byte c c') (expand g res) (expand g res').
Proof.
  assert (forall k, Forall2 (fun c c' => (c =? dash) = (c' =? dash)) (repeat dash k) (repeat dash k)) as Hrep
    by (induction k; simpl; constructor; auto).
  assert (forall k, Forall2 (fun c c' => c = c' \/ equiv_byte c c') (repeat dash k) (repeat dash k)) as Hrep2
    by (induction k; simpl; constructor; auto).
  induction 1 as [|c c' res res' Hc Hres IH]; intros g.
  - destruct g as [|gl g]; cbn [expand]; unfold same_shape; split; try apply Hrep; try apply Hrep2; constructor.
  - destruct g as [|g0 g]; cbn [expand].
    + split; constructor; auto.
      * apply Hc.
      * clear - Hres. induction Hres; constructor; auto. apply H.
      * clear - Hres. induction Hres; constructor; auto.
    + destruct (IH g) as [I1 I2]. split.
      * apply Forall2_app; [apply Hrep|]. constructor; [apply Hc|exact I1].
      * apply Forall2_app; [apply Hrep2|]. constructor; auto.
Qed.

(* the result relation: same names in the same order, same gap pattern in every row *)
Definition out_rel (o o' : list Z * list Z) : Prop := fst o = fst o' /\ same_shape (snd o) (snd o').

Theorem respell_invariance : forall ty gpo gpe tgpe recs recs',
  Forall2 respelled recs recs' ->
  match kalign_run_model core bt ty gpo gpe tgpe recs, kalign_run_model core bt ty gpo gpe tgpe recs' with
  | Some o, Some o' => Forall2 out_rel o o'
  | None, None => True
  | _, _ => False
  end.
Proof.
  intros ty gpo gpe tgpe recs recs' H. unfold kalign_run_model.
  pose proof (essential_rel _ _ (with_ranks_rel recs recs' 0 H)) as He.
  destruct (essential_check (with_ranks 0 recs)) as [k|], (essential_check (with_ranks 0 recs')) as [k'|]; try contradiction; auto.
  rewrite Halpha. destruct (init bt ty gpo gpe tgpe) as [p|]; auto.
  pose proof (msort_Forall2 rec_rel cmp_len_name cmp_len_name rec_rel_cmp k k' He) as Hs.
  fold (sort_len_name k) in Hs. fold (sort_len_name k') in Hs.
  set (s := sort_len_name k) in *. set (s' := sort_len_name k') in *.
  assert (map (fun r => convert ta tamb (r_res r)) s = map (fun r => convert ta tamb (r_res r)) s') as ->.
  { apply (Forall2_map_eq rec_rel); auto. intros x y (_ & _ & Hr). unfold convert.
    apply (Forall2_map_eq equiv_byte); auto. intros a b Hab. apply Hab. }
  assert (map (fun r => convert aa aamb (r_res r)) s = map (fun r => convert aa aamb (r_res r)) s') as ->.
  { apply (Forall2_map_eq rec_rel); auto. intros x y (_ & _ & Hr). unfold convert.
    apply (Forall2_map_eq equiv_byte); auto. intros a b Hab. apply Hab. }
  set (gaps := core bt p _ _).
  set (mk := fun gr : list nat * srec => mkS (r_rank (snd gr)) (r_name (snd gr)) (expand (fst gr) (r_res (snd gr)))).
  set (arel := fun r r' : srec => r_rank r = r_rank r' /\ r_name r = r_name r' /\ same_shape (r_res r) (r_res r')).
  assert (Forall2 arel (map mk (combine gaps s)) (map mk (combine gaps s'))) as Ha.
  { apply (Forall2_map2 (fun a b : list nat * srec => fst a = fst b /\ rec_rel (snd a) (snd b))).
    - intros [g r] [g' r'] [Hg (Hrk & Hnm & Hres)]. simpl in *. subst g'. unfold arel, mk. simpl.
      repeat split; auto. apply expand_shape. exact Hres.
    - apply Forall2_combine_same. exact Hs. }
  assert (forall x x' y y', arel x x' -> arel y y' -> cmp_rank x y = cmp_rank x' y') as Hcr.
  { intros x x' y y' (Hx & _) (Hy & _). unfold cmp_rank. rewrite Hx, Hy. reflexivity. }
  pose proof (msort_Forall2 arel cmp_rank cmp_rank Hcr _ _ Ha) as Hfin.
  apply (Forall2_map2 arel); [|exact Hfin].
  intros x y (_ & Hn & Hsh). split; simpl; auto.
Qed.

End Respell.

(* ---- the alphabets: case and T/U spelling are invisible (tables regenerated on every run) ---- *)
Definition upper_lower_pairs : list (Z * Z) := map (fun i => (65 + Z.of_nat i, 97 + Z.of_nat i)) (seq 0 26).

Definition codes_agree (bt c c' : Z) : bool :=
  match alphabets bt with
  | Some ((ta, tamb), (aa, aamb)) =>
    (code_of ta tamb c =? code_of ta tamb c') && (code_of aa aamb c =? code_of aa aamb c') &&
    Bool.eqb (c =? dash) (c' =? dash)
  | None => false
  end.

Lemma alphabet_case_b :
  forallb (fun bt => forallb (fun p => codes_agree bt (fst p) (snd p)) upper_lower_pairs)
          [ALN_BIOTYPE_DNA; ALN_BIOTYPE_PROTEIN] = true.
Proof. vm_compute. reflexivity. Qed.

Lemma alphabet_TU_b :
  codes_agree ALN_BIOTYPE_DNA 84 85 = true /\ codes_agree ALN_BIOTYPE_DNA 116 117 = true /\
  codes_agree ALN_BIOTYPE_DNA 84 117 = true /\ codes_agree ALN_BIOTYPE_DNA 116 85 = true.
Proof. vm_compute. repeat split; reflexivity. Qed.

Lemma codes_agree_equiv bt ta tamb aa aamb c c' :
  alphabets bt = Some ((ta, tamb), (aa, aamb)) -> codes_agree bt c c' = true ->
  equiv_byte ta aa tamb aamb c c'.
Proof.
  intros Ha H. unfold codes_agree in H. rewrite Ha in H.
  apply andb_true_iff in H as [H H3]. apply andb_true_iff in H as [H1 H2].
  apply Z.eqb_eq in H1, H2. apply Bool.eqb_prop in H3. repeat split; auto.
Qed.

(* every residue letter the readers accept gets a defined class in each alphabet (C05) *)
Lemma residue_codes_defined_b :
  forallb (fun c => if isalpha c then
     (0 <=? code_of alpha_defDNA (nthZ (-1) alpha_defDNA 78) c) && (code_of alpha_defDNA (nthZ (-1) alpha_defDNA 78) c <? 5) &&
     (0 <=? code_of alpha_redPROTEIN (nthZ (-1) alpha_redPROTEIN 88) c) && (code_of alpha_redPROTEIN (nthZ (-1) alpha_redPROTEIN 88) c <? 13) &&
     (0 <=? code_of alpha_ambPROTEIN (nthZ (-1) alpha_ambPROTEIN 88) c) && (code_of alpha_ambPROTEIN (nthZ (-1) alpha_ambPROTEIN 88) c <? 23)
     else true) (map (fun i => Z.of_nat i - 128) (seq 0 256)) = true.
Proof. vm_compute. reflexivity. Qed.
