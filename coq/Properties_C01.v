(* C01 - Alignment integrity: every input sequence is reproduced exactly.
   Statements only; proofs are in WeaveProofs.v / PathProofs.v / AssemblyProofs.v.
   Layer 1 (this file): for EVERY guide tree and EVERY well-formed raw path.  The premises
   (well-formed raw paths, valid task list) are evaluated on every path and tree the
   implementation produces during the correspondence runs (monitored premises, DESIGN C01). *)
From KV Require Import Base Params Sort Weave WeaveProofs WeaveCheck PathProofs AssemblyProofs Api RunIntegrityProofs.
From KV Require Pipeline CladeTasks TreeSchedule TreeAssembly TreePaths.
Local Open Scope nat_scope.

(* make_linear_sequence: deleting the gap characters of the row built from any gap vector gives
   back the residues. *)
Theorem C01_linear_row_reproduces_residues : forall res g,
  length g = S (length res) -> Forall (fun c => c <> dash) res -> degap (expand g res) = res.
Proof. exact degap_expand. Qed.
Print Assumptions C01_linear_row_reproduces_residues.

Theorem C01_linear_row_length : forall res g,
  length g = S (length res) -> length (expand g res) = length res + sum_nat g.
Proof. exact expand_length. Qed.
Print Assumptions C01_linear_row_length.

(* add_gap_info_to_path_n: a well-formed raw path expands to ops that consume every residue of
   side 1 and every residue of side 2 exactly once. *)
Theorem C01_path_expansion_fits : forall lb path,
  kpath_wfb lb path = true ->
  exists ops, add_gap_info lb path = Some ops /\
    ops_fit (map op_kind ops) (length path) (Z.to_nat lb).
Proof. exact expand_path_counts. Qed.
Print Assumptions C01_path_expansion_fits.

(* The progressive assembly.  For every set of non-empty, dash-free sequences and every task
   list that is valid for the evolving state: every row keeps exactly its residues; when one
   group remains all rows have one length and no column consists of gaps only. *)
Theorem C01_assembly_integrity : forall seqs,
  Forall (Forall (fun c => c <> dash)) seqs ->
  forall tasks,
  valid_runb seqs (st0 seqs) (seq 0 (length seqs)) tasks = true ->
  let final := run_from (st0 seqs) tasks in
  (forall i, i < length seqs -> degap (row_of seqs final i) = nth i seqs []) /\
  (forall r, act_final (seq 0 (length seqs)) tasks = [r] ->
     exists w, (forall i, i < length seqs -> length (row_of seqs final i) = w) /\
               (forall j, j < w -> exists i, i < length seqs /\ nth j (row_of seqs final i) dash <> dash)).
Proof. intros seqs H. exact (assembly_integrity seqs H). Qed.
Print Assumptions C01_assembly_integrity.

(* The whole run (kalign_run / kalign as modelled in Api.v: essential check, canonical sort, conversion, numeric core,
   linearisation, rank sort).  WHATEVER the numeric core returns - as long as it is one vector of len+1 gap counters
   per sequence - the result has one row per non-empty input sequence, in input order, under the input name, and
   deleting the gap characters of a row gives back that sequence's residues.  (Equal row lengths and the absence of
   all-gap columns are the business of C01_assembly_integrity.) *)
Theorem C01_run_reproduces_every_sequence : forall core,
  (forall bt p t a, length t = length a -> Forall2 (fun (g : list nat) (s : list Z) => length g = S (length s)) (core bt p t a) a) ->
  forall bt ty gpo gpe tgpe recs out,
  Forall (fun nr => Forall (fun c => c <> dash) (snd nr)) recs ->
  kalign_run_model core bt ty gpo gpe tgpe recs = Some out ->
  let kept := filter (fun nr : list Z * list Z => match snd nr with [] => false | _ => true end) recs in
  map fst out = map fst kept /\ map (fun o => degap (snd o)) out = map snd kept /\ 2 <= length out.
Proof. intros core Hc bt ty gpo gpe tgpe recs out Hd H. exact (run_model_integrity core Hc bt ty gpo gpe tgpe recs out Hd H). Qed.
Print Assumptions C01_run_reproduces_every_sequence.

(* the premise on the core is satisfiable, and it is what the weave layer maintains: gap vectors start as len+1 zeros
   and update_gaps maps over the old vector, so their length never changes *)
Example C01_core_premise_nonvacuous :
  (forall (bt : Z) (p : params) (t a : list (list Z)), length t = length a ->
     Forall2 (fun (g : list nat) (s : list Z) => length g = S (length s)) ((fun (_ : Z) (_ : params) (_ a0 : list (list Z)) => map (fun s => repeat 0 (S (length s))) a0) bt p t a) a) /\
  (forall gis ng, length (update_gaps gis ng) = length gis).
Proof.
  split.
  - intros _ _ _ a _. induction a as [|s a IH]; cbn [map]; constructor; [apply repeat_length|exact IH].
  - induction gis as [|g gis IH]; intros ng; [reflexivity|]. cbn [update_gaps length]. f_equal. apply IH.
Qed.

(* the mechanism behind it: sorting by the recorded rank undoes any reordering *)
Theorem C01_rank_restores_input_order : forall kept aligned sorted,
  Sorted.StronglySorted (fun x y => (r_rank x < r_rank y)%Z) kept ->
  Permutation.Permutation sorted kept -> Forall2 came_from aligned sorted ->
  Forall2 came_from (sort_rank aligned) kept.
Proof. exact rank_restores_order. Qed.
Print Assumptions C01_rank_restores_input_order.

(* Non-vacuity: an observed run (see Properties_C10) meets the premises, and a well-formed raw
   path with leading/trailing/internal gaps exists. *)
Example C01_nonvacuous :
  kpath_wfb 14 [2;3;4;5;6;7;8;9;10;11;12;13;-1;-1;14]%Z = true /\
  add_gap_info 14 [2;3;4;5;6;7;8;9;10;11;12;13;-1;-1;14]%Z = Some [33;0;0;0;0;0;0;0;0;0;0;0;0;2;2;0]%Z /\
  kpath_wfb 6 [-1;1;3;-1;4]%Z = true /\
  add_gap_info 6 [-1;1;3;-1;4]%Z = Some [34;0;1;0;2;0;33;33]%Z.
Proof. vm_compute. repeat split; reflexivity. Qed.

(* The structural half of the premise [valid_runb] of C01_assembly_integrity, discharged for every guide tree.
   label_internal numbers the internal nodes of the guide tree in post-order from numseq, create_tasks emits one task
   (a, b, c) per internal node, sort_tasks(TASK_ORDER_TREE) orders them by c.  For EVERY guide tree over distinct
   leaves: at every position of that serial schedule both operands are complete (an input sequence, or the result of
   an EARLIER task), the two operands differ, no earlier task has consumed either of them or produced c, and c is a
   fresh internal label.  (TreeSchedule.v) *)
Theorem C01_schedule_respects_the_guide_tree : forall t n,
  NoDup (CladeTasks.leaves t) -> (forall i, In i (CladeTasks.leaves t) -> i < n) ->
  forall pre a b c post,
  Pipeline.sort_tasks (Pipeline.tasks_of (fst (Pipeline.label t n))) = (pre ++ (a, b, c) :: post)%list ->
  (a < n \/ exists a1 a2, In (a1, a2, a) pre) /\
  (b < n \/ exists b1 b2, In (b1, b2, b) pre) /\
  a <> b /\ n <= c /\
  (forall x y z, In (x, y, z) pre -> z <> c /\ x <> a /\ x <> b /\ y <> a /\ y <> b).
Proof. exact TreeSchedule.tree_schedule_respects_dependencies. Qed.
Print Assumptions C01_schedule_respects_the_guide_tree.

(* ... and the schedule is complete: one task per internal node (leaves - 1 of them), and every label - input or
   produced - is consumed exactly once except the root, which is what remains. *)
Theorem C01_schedule_is_complete : forall t n,
  NoDup (CladeTasks.leaves t) -> (forall i, In i (CladeTasks.leaves t) -> i < n) ->
  let L := Pipeline.sort_tasks (Pipeline.tasks_of (fst (Pipeline.label t n))) in
  length L = length (CladeTasks.leaves t) - 1 /\
  Permutation.Permutation (Pipeline.lid (fst (Pipeline.label t n)) :: TreeSchedule.kids L)
                          (CladeTasks.leaves t ++ map TreeSchedule.tc L).
Proof. exact TreeSchedule.tree_schedule_is_complete. Qed.
Print Assumptions C01_schedule_is_complete.

(* The same in the vocabulary of C01_assembly_integrity: along the schedule of ANY guide tree every task finds its two
   operands in the list of active groups (act_after, as in valid_run), distinct, and its result label not active. *)
Theorem C01_guide_tree_schedule_is_valid : forall t n,
  NoDup (CladeTasks.leaves t) -> (forall i, In i (CladeTasks.leaves t) -> i < n) ->
  TreeSchedule.sched_ok (seq 0 n) (Pipeline.sort_tasks (Pipeline.tasks_of (fst (Pipeline.label t n)))).
Proof. exact TreeSchedule.tree_schedule_ok. Qed.
Print Assumptions C01_guide_tree_schedule_is_valid.

(* C01_assembly_integrity with its structural premise discharged: for EVERY guide tree over the input sequences, run
   in kalign's serial order, and every family of edit operations that fit the groups they join (fits_runb: the part of
   valid_runb that speaks about the operations; monitored on every observed merge), every row keeps exactly its residues,
   all rows have one length and no column consists of gaps only - and exactly one group, the root, is left. *)
Theorem C01_assembly_integrity_for_every_guide_tree : forall seqs,
  Forall (Forall (fun c => c <> dash)) seqs ->
  forall t, NoDup (CladeTasks.leaves t) -> (forall i, In i (CladeTasks.leaves t) <-> i < length seqs) ->
  forall tasks,
  map TreeAssembly.strip tasks = Pipeline.sort_tasks (Pipeline.tasks_of (fst (Pipeline.label t (length seqs)))) ->
  TreeAssembly.fits_runb seqs (st0 seqs) tasks = true ->
  let final := run_from (st0 seqs) tasks in
  (forall i, i < length seqs -> degap (row_of seqs final i) = nth i seqs []) /\
  exists w, (forall i, i < length seqs -> length (row_of seqs final i) = w) /\
            (forall j, j < w -> exists i, i < length seqs /\ nth j (row_of seqs final i) dash <> dash).
Proof. exact TreeAssembly.assembly_integrity_any_tree. Qed.
Print Assumptions C01_assembly_integrity_for_every_guide_tree.

(* non-vacuity: the observed run of Properties_C10 (tree ((0,1),2), labels 3 and 4) meets the premises *)
Example C01_every_guide_tree_nonvacuous :
  let seqs := [[67;71;84;65;67;71;84;84;71;65;67;67;65;71;71]; [65;67;71;84;65;67;71;84;84;71;65;67;67;65];
               [65;67;71;84;67;71;84;84;84;71;65;67;65]]%Z in
  let tasks := [(0, 1, 3, [33;0;0;0;0;0;0;0;0;0;0;0;0;2;2;0]%Z); (3, 2, 4, [0;0;0;0;0;0;0;0;0;0;0;0;2;2;2;0]%Z)] in
  let t := Pipeline.UNode (Pipeline.UNode (Pipeline.ULeaf 0) (Pipeline.ULeaf 1)) (Pipeline.ULeaf 2) in
  map TreeAssembly.strip tasks = Pipeline.sort_tasks (Pipeline.tasks_of (fst (Pipeline.label t 3))) /\
  TreeAssembly.fits_runb seqs (st0 seqs) tasks = true /\ CladeTasks.leaves t = [0; 1; 2].
Proof. vm_compute. repeat split; reflexivity. Qed.

(* One more step towards the code: the task list is BUILT (TreePaths.build_tasks) from the schedule of the guide tree
   and one raw path per merge - what the DP kernels hand to add_gap_info - each required only to be well-formed
   (kpath_wfb) for the widths the two groups have at that moment.  For EVERY guide tree and EVERY such family of raw
   paths the alignment reproduces every sequence, has rows of one length and no all-gap column.  The only premise left
   about the numeric core is kpath_wfb with the right dimensions; it is monitored on every merge of every observed run
   (keys wf / dims of the correspondence). *)
Theorem C01_integrity_for_every_guide_tree_and_wf_path : forall seqs,
  Forall (Forall (fun c => c <> dash)) seqs ->
  forall t, NoDup (CladeTasks.leaves t) -> (forall i, In i (CladeTasks.leaves t) <-> i < length seqs) ->
  forall paths tasks,
  TreePaths.build_tasks seqs (st0 seqs) (Pipeline.sort_tasks (Pipeline.tasks_of (fst (Pipeline.label t (length seqs))))) paths = Some tasks ->
  let final := run_from (st0 seqs) tasks in
  (forall i, i < length seqs -> degap (row_of seqs final i) = nth i seqs []) /\
  exists w, (forall i, i < length seqs -> length (row_of seqs final i) = w) /\
            (forall j, j < w -> exists i, i < length seqs /\ nth j (row_of seqs final i) dash <> dash).
Proof. exact TreePaths.integrity_every_tree_every_wf_path. Qed.
Print Assumptions C01_integrity_for_every_guide_tree_and_wf_path.

(* non-vacuity: the raw paths of the observed run (Properties_C10) build exactly its task list *)
Example C01_build_tasks_nonvacuous :
  let seqs := [[67;71;84;65;67;71;84;84;71;65;67;67;65;71;71]; [65;67;71;84;65;67;71;84;84;71;65;67;67;65];
               [65;67;71;84;67;71;84;84;84;71;65;67;65]]%Z in
  let t := Pipeline.UNode (Pipeline.UNode (Pipeline.ULeaf 0) (Pipeline.ULeaf 1)) (Pipeline.ULeaf 2) in
  TreePaths.build_tasks seqs (st0 seqs) (Pipeline.sort_tasks (Pipeline.tasks_of (fst (Pipeline.label t 3))))
    [[2;3;4;5;6;7;8;9;10;11;12;13;-1;-1;14]; [1;2;3;4;5;6;7;8;9;10;11;12;-1;-1;-1;13]]%Z =
  Some [(0, 1, 3, [33;0;0;0;0;0;0;0;0;0;0;0;0;2;2;0]%Z); (3, 2, 4, [0;0;0;0;0;0;0;0;0;0;0;0;2;2;2;0]%Z)].
Proof. vm_compute. reflexivity. Qed.

Example C01_schedule_nonvacuous :
  let t := Pipeline.UNode (Pipeline.UNode (Pipeline.ULeaf 3) (Pipeline.ULeaf 0)) (Pipeline.UNode (Pipeline.ULeaf 2) (Pipeline.UNode (Pipeline.ULeaf 1) (Pipeline.ULeaf 4))) in
  Pipeline.tasks_of (fst (Pipeline.label t 5)) = [(5, 7, 8); (3, 0, 5); (2, 6, 7); (1, 4, 6)] /\
  Pipeline.sort_tasks (Pipeline.tasks_of (fst (Pipeline.label t 5))) = [(3, 0, 5); (1, 4, 6); (2, 6, 7); (5, 7, 8)].
Proof. vm_compute. split; reflexivity. Qed.
