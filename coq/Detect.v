(* Model of detect_alphabet (lib/src/msa_op.c:142): the two log-likelihood sums over the
   character histogram in binary64, in index order, and the comparison.  The per-character
   tables are what the running code holds (Generated/Tables.v, captured through a hook). *)
From KV Require Import Base FP.
Local Open Scope Z_scope.

(* histogram: 128 counts (C ints) *)
Fixpoint detect_loop (i : Z) (freq : list Z) (dna prot : list N) (sd sp : f64) : f64 * f64 :=
  match freq, dna, prot with
  | c :: freq', d :: dna', p :: prot' =>
    if negb (c =? 0) && isalpha i then
      detect_loop (i + 1) freq' dna' prot'
        (f64_add sd (f64_mul (f64_of_bits d) (f64_of_Z c)))
        (f64_add sp (f64_mul (f64_of_bits p) (f64_of_Z c)))
    else detect_loop (i + 1) freq' dna' prot' sd sp
  | _, _, _ => (sd, sp)
  end.

Definition detect_sums (freq : list Z) : f64 * f64 :=
  detect_loop 0 freq detect_DNA detect_protein f64_zero f64_zero.

(* result: Some biotype, or None when the sums compare equal (biotype left as it was) *)
Definition detect_alphabet (freq : list Z) : option Z :=
  let '(sd, sp) := detect_sums freq in
  if f64_eq sd sp then None
  else if f64_gt sd sp then Some ALN_BIOTYPE_DNA
  else if f64_gt sp sd then Some ALN_BIOTYPE_PROTEIN
  else None.

(* histogram of the residue bytes of a set of sequences (kalign_arr_to_msa; the readers count
   every non-negative byte of a sequence line, but only letters enter the sums) *)
Fixpoint bump (l : list Z) (i : nat) : list Z :=
  match l, i with
  | x :: t, O => (x + 1) :: t
  | x :: t, S i' => x :: bump t i'
  | [], _ => []
  end.

Definition count_byte (h : list Z) (c : Z) : list Z :=
  if (0 <=? c) && (c <? 128) then bump h (Z.to_nat c) else h.

Definition histogram (seqs : list (list Z)) : list Z :=
  fold_left (fun h s => fold_left count_byte s h) seqs (repeat 0 128).
