(* Driver for the extracted model: reads one case per line on stdin ("<command> <args...>"),
   prints one result line per case.  Only converts between text and the extracted datatypes. *)
open Kvmodel
type string = Stdlib.String.t
module String = Stdlib.String
module List = Stdlib.List
module Printf = Stdlib.Printf
module Hashtbl = Stdlib.Hashtbl
let length = Stdlib.List.length

let rec pos_of_int n =
  if n = 1 then XH else if n land 1 = 0 then XO (pos_of_int (n lsr 1)) else XI (pos_of_int (n lsr 1))
let z_of_int n = if n = 0 then Z0 else if n > 0 then Zpos (pos_of_int n) else Zneg (pos_of_int (-n))
let n_of_int n = if n = 0 then N0 else Npos (pos_of_int n)
let rec int_of_pos = function XH -> 1 | XO p -> 2 * int_of_pos p | XI p -> 2 * int_of_pos p + 1
let int_of_z = function Z0 -> 0 | Zpos p -> int_of_pos p | Zneg p -> - (int_of_pos p)
let int_of_n = function N0 -> 0 | Npos p -> int_of_pos p
let rec nat_of_int n = if n <= 0 then O else S (nat_of_int (n - 1))
let rec int_of_nat = function O -> 0 | S n -> 1 + int_of_nat n

(* unsigned 64-bit (and wider) values travel as hex strings *)
let n_of_hex (s : string) : n =
  let bits = ref [] in
  String.iter (fun c ->
    let v = int_of_string ("0x" ^ String.make 1 c) in
    bits := (v land 1 <> 0) :: (v land 2 <> 0) :: (v land 4 <> 0) :: (v land 8 <> 0) :: !bits) s;
  (* !bits is least significant first *)
  let rec build = function
    | [] -> None
    | b :: rest ->
      (match build rest with
       | None -> if b then Some XH else None
       | Some p -> Some (if b then XI p else XO p)) in
  match build !bits with None -> N0 | Some p -> Npos p
let hex_of_n (x : n) : string =
  match x with
  | N0 -> "0"
  | Npos p ->
    let rec bits p = match p with XH -> [true] | XO q -> false :: bits q | XI q -> true :: bits q in
    let bl = bits p in
    let rec nibbles l = match l with
      | [] -> []
      | _ ->
        let take k l = let rec go k l acc = if k = 0 then (List.rev acc, l) else
                         (match l with [] -> go (k-1) [] (false :: acc) | x :: r -> go (k-1) r (x :: acc)) in go k l [] in
        let (nb, rest) = take 4 l in
        let v = List.fold_right (fun b acc -> acc * 2 + (if b then 1 else 0)) nb 0 in
        v :: nibbles rest in
    let ns = List.rev (nibbles bl) in
    let s = String.concat "" (List.map (Printf.sprintf "%x") ns) in
    (* strip leading zeros *)
    let i = ref 0 in
    while !i < String.length s - 1 && s.[!i] = '0' do incr i done;
    String.sub s !i (String.length s - !i)

let bytes_of_hexstr (s : string) : z list =
  let n = String.length s / 2 in
  List.init n (fun i ->
    let v = int_of_string ("0x" ^ String.sub s (2 * i) 2) in
    z_of_int (if v >= 128 then v - 256 else v))
let hexstr_of_bytes (l : z list) : string =
  String.concat "" (List.map (fun z -> Printf.sprintf "%02x" ((int_of_z z) land 255)) l)

let split_ws s = List.filter (fun x -> x <> "") (String.split_on_char ' ' s)
let ints_of_csv s = if s = "-" || s = "" then [] else List.map int_of_string (String.split_on_char ',' s)
let csv_of_ints l = if l = [] then "-" else String.concat "," (List.map string_of_int l)

let handlers : (string, string list -> string) Hashtbl.t = Hashtbl.create 64
let register name f = Hashtbl.replace handlers name f

(* ---- C09: params ------------------------------------------------------------------- *)
let () = register "params" (fun args ->
  match args with
  | [bt; ty; g; e; t] ->
    let r = init (z_of_int (int_of_string bt)) (z_of_int (int_of_string ty))
        (n_of_int (int_of_string g)) (n_of_int (int_of_string e)) (n_of_int (int_of_string t)) in
    let d = init (z_of_int (int_of_string bt)) (z_of_int (int_of_string ty))
        (n_of_int 3212836864) (n_of_int 3212836864) (n_of_int 3212836864) in
    (match r, d with
     | Some p, Some dp ->
       Printf.sprintf "OK %d %d %d %s" (int_of_n p.p_gpo) (int_of_n p.p_gpe) (int_of_n p.p_tgpe)
         (if p.p_subm = dp.p_subm then "subm=default" else "subm=DIFFERENT")
     | Some _, None -> "OK-but-default-fails"
     | None, _ -> "FAIL")
  | _ -> "BADARGS")

let () = register "params_full" (fun args ->
  match args with
  | [bt; ty] ->
    let ng = n_of_int 3212836864 in
    (match init (z_of_int (int_of_string bt)) (z_of_int (int_of_string ty)) ng ng ng with
     | Some p ->
       Printf.sprintf "OK %d %d %d %s" (int_of_n p.p_gpo) (int_of_n p.p_gpe) (int_of_n p.p_tgpe)
         (String.concat ";" (List.map (fun row -> String.concat "," (List.map (fun x -> string_of_int (int_of_n x)) row)) p.p_subm))
     | None -> "FAIL")
  | _ -> "BADARGS")

let () = register "doc_params" (fun args ->
  match args with
  | [bt; ty] ->
    (match fits (z_of_int (int_of_string bt)) (z_of_int (int_of_string ty)) with
     | Some s ->
       let p = doc_params s in
       Printf.sprintf "OK %d %d %d %s" (int_of_n p.p_gpo) (int_of_n p.p_gpe) (int_of_n p.p_tgpe)
         (String.concat ";" (List.map (fun row -> String.concat "," (List.map (fun x -> string_of_int (int_of_n x)) row)) p.p_subm))
     | None -> "FAIL")
  | _ -> "BADARGS")

let () = register "typeword" (fun args ->
  let w = match args with
    | ["NULL"] -> None
    | [h] -> Some (bytes_of_hexstr h)
    | [] -> Some []
    | _ -> Some [] in
  match set_aln_type w with
  | Some t -> Printf.sprintf "OK %d" (int_of_z t)
  | None -> "FAIL")

let () = register "ctype" (fun args ->
  match args with
  | [c] ->
    let z = z_of_int (int_of_string c) in
    let b f = if f z then 1 else 0 in
    Printf.sprintf "%d %d %d %d %d" (b isalpha) (b ispunct) (b isspace) (b iscntrl) (int_of_z (toupper z))
  | _ -> "BADARGS")

(* ---- C01/C10: weave layer fed with implementation-observed tasks and raw paths ------------ *)
let zl_of_csv s = List.map z_of_int (ints_of_csv s)
let bytes_list_of_csv s = if s = "" then [] else List.map (fun h -> if h = "-" then [] else bytes_of_hexstr h) (String.split_on_char ',' s)
let field pref tok =
  let n = String.length pref in
  if String.length tok >= n && String.sub tok 0 n = pref then Some (String.sub tok n (String.length tok - n)) else None
let find_field pref toks =
  let rec go = function [] -> "" | t :: r -> (match field pref t with Some v -> v | None -> go r) in go toks

type node = { na : int; nb : int; nc : int; nla : int; nlb : int; raw : int list; ops : int list; p0 : int;
              mem : int list; nrows : z list list }

let parse_node sec =
  match split_ws sec with
  | "NODE" :: a :: b :: c :: la :: lb :: rest ->
    { na = int_of_string a; nb = int_of_string b; nc = int_of_string c; nla = int_of_string la; nlb = int_of_string lb;
      raw = ints_of_csv (find_field "raw=" rest); ops = ints_of_csv (find_field "ops=" rest);
      p0 = int_of_string (find_field "p0=" rest); mem = ints_of_csv (find_field "mem=" rest);
      nrows = bytes_list_of_csv (find_field "rows=" rest) }
  | _ -> failwith "bad NODE section"

let weave_check (inputs : z list list) (impl : string) : string =
  let secs = String.split_on_char '|' impl in
  match secs with
  | [] -> "impl=EMPTY"
  | head :: evs ->
    (match split_ws head with
     | "OK" :: _alnlen :: rest ->
       let rows = bytes_list_of_csv (match rest with [r] -> r | _ -> "") in
       let sorted = ref [] and nodes = ref [] in
       List.iter (fun sec ->
           match split_ws sec with
           | "SORTED" :: [l] -> sorted := ints_of_csv l
           | "NODE" :: _ -> nodes := parse_node sec :: !nodes
           | _ -> ()) evs;
       let nodes = List.rev !nodes and sorted = !sorted in
       let inputs_a = Array.of_list inputs in
       let seqs_sorted = List.map (fun r -> inputs_a.(r)) sorted in
       let lens = List.map (fun s -> nat_of_int (List.length s)) seqs_sorted in
       (* rank -> position among final rows *)
       let ranks_sorted = List.sort compare sorted in
       let pos_of_rank r = let rec go i = function [] -> -1 | x :: t -> if x = r then i else go (i + 1) t in go 0 ranks_sorted in
       let rows_a = Array.of_list rows in
       let final_sorted = List.map (fun r -> let p = pos_of_rank r in if p >= 0 && p < Array.length rows_a then rows_a.(p) else []) sorted in
       let out = Buffer.create 64 in
       let add k v = Buffer.add_string out (Printf.sprintf "%s=%s " k v) in
       (* 1. path expansion, 2. wf premise *)
       let exp_bad = ref "" and wf_bad = ref "" in
       List.iter (fun nd ->
           (match add_gap_info (z_of_int nd.nlb) (List.map z_of_int nd.raw) with
            | Some o -> let o' = List.map int_of_z o in
              if (o' <> nd.ops || nd.p0 <> List.length o') && !exp_bad = "" then exp_bad := string_of_int nd.nc
            | None -> if !exp_bad = "" then exp_bad := string_of_int nd.nc ^ "(model:fault)");
           if not (kpath_wfb (z_of_int nd.nlb) (List.map z_of_int nd.raw)) && !wf_bad = "" then wf_bad := string_of_int nd.nc) nodes;
       add "expand" (if !exp_bad = "" then "ok" else "DIFF@" ^ !exp_bad);
       add "wf" (if !wf_bad = "" then "ok" else "VIOLATED@" ^ !wf_bad);
       (* 3. weave per merge *)
       let st = ref (init_wstate lens) in
       let seqs_arr = Array.of_list seqs_sorted in
       let weave_bad = ref "" and fit_bad = ref "" and dims_bad = ref "" in
       List.iter (fun nd ->
           let sip = Array.of_list !st.w_sip and gaps = Array.of_list !st.w_gaps in
           let width x = match (if x < Array.length sip then sip.(x) else []) with
             | i :: _ -> let i = int_of_nat i in List.length (expand gaps.(i) seqs_arr.(i))
             | [] -> -1 in
           let ks = List.map (fun o -> op_kind (z_of_int o)) nd.ops in
           if not (ops_fitb ks (nat_of_int (width nd.na)) (nat_of_int (width nd.nb))) && !fit_bad = "" then fit_bad := string_of_int nd.nc;
           (* the premise of C01_integrity_for_every_guide_tree_and_wf_path (TreePaths.build_tasks): the raw path has one entry per
              column of group a and was produced for the width of group b, both as the model's state has them *)
           if (nd.nlb <> width nd.nb || List.length nd.raw <> width nd.na) && !dims_bad = "" then dims_bad := string_of_int nd.nc;
           st := merge_step !st (nat_of_int nd.na) (nat_of_int nd.nb) (nat_of_int nd.nc) (List.map z_of_int nd.ops);
           let sip' = Array.of_list !st.w_sip and gaps' = Array.of_list !st.w_gaps in
           let mem' = List.map int_of_nat (if nd.nc < Array.length sip' then sip'.(nd.nc) else []) in
           let rows' = List.map (fun i -> expand gaps'.(i) seqs_arr.(i)) mem' in
           if (mem' <> nd.mem || rows' <> nd.nrows) && !weave_bad = "" then weave_bad := string_of_int nd.nc) nodes;
       add "fit" (if !fit_bad = "" then "ok" else "VIOLATED@" ^ !fit_bad);
       add "dims" (if !dims_bad = "" then "ok" else "VIOLATED@" ^ !dims_bad);
       add "weave" (if !weave_bad = "" then "ok" else "DIFF@" ^ !weave_bad);
       (* 4. final rows *)
       let model_final = final_rows !st seqs_sorted in
       add "final" (if model_final = final_sorted then "ok" else "DIFF");
       (* 5./6. property predicates on the implementation's own output *)
       add "integrity" (if integrity_b inputs rows then "ok" else "VIOLATED");
       let c10_bad = ref "" in
       List.iter (fun nd ->
           if not (subalignment_b final_sorted (List.map nat_of_int nd.mem, nd.nrows)) && !c10_bad = "" then c10_bad := string_of_int nd.nc) nodes;
       add "c10" (if !c10_bad = "" then "ok" else "VIOLATED@" ^ !c10_bad);
       add "nodes" (string_of_int (List.length nodes));
       String.trim (Buffer.contents out)
     | "FAIL" :: _ -> "impl=FAIL"
     | _ -> "impl=" ^ (if String.length head > 40 then String.sub head 0 40 else head))

let () = register "integrity" (fun args ->
  match args with
  | [inputs; rows] -> if integrity_b (bytes_list_of_csv inputs) (bytes_list_of_csv rows) then "ok" else "VIOLATED"
  | _ -> "BADARGS")

let () = register "weave_check" (fun args ->
  match args with
  | inputs :: rest -> weave_check (bytes_list_of_csv inputs) (String.concat " " rest)
  | _ -> "BADARGS")

(* ---- prep / detect ---------------------------------------------------------------------------- *)
let () = register "prep" (fun args ->
  let recs = List.map (fun a ->
      match String.split_on_char ':' a with
      | [n; s] -> ((if n = "-" then [] else bytes_of_hexstr n), (if s = "-" then [] else bytes_of_hexstr s))
      | _ -> failwith "bad prep arg") args in
  match essential_check (with_ranks Z0 recs) with
  | None -> "FAIL essential"
  | Some kept ->
    let sorted = sort_len_name kept in
    let codes alpha amb = String.concat ";" (List.map (fun r -> hexstr_of_bytes (convert alpha amb r.r_res)) sorted) in
    let amb a c = nthZ (z_of_int (-1)) a (z_of_int c) in
    Printf.sprintf "OK ranks=%s dna=%s red=%s amb=%s"
      (String.concat "," (List.map (fun r -> string_of_int (int_of_z r.r_rank)) sorted))
      (codes alpha_defDNA (amb alpha_defDNA 78)) (codes alpha_redPROTEIN (amb alpha_redPROTEIN 88))
      (codes alpha_ambPROTEIN (amb alpha_ambPROTEIN 88)))

let () = register "detect" (fun args ->
  let seqs = List.map (fun h -> if h = "-" then [] else bytes_of_hexstr h) args in
  let h = histogram seqs in
  let (sd, sp) = detect_sums h in
  let bt = match detect_alphabet h with Some b -> string_of_int (int_of_z b) | None -> "undecided" in
  let em = exact_margin h in
  let sgn = match em with Z0 -> "zero" | Zpos _ -> "pos" | Zneg _ -> "neg" in
  let tot = int_of_z (total_letters Z0 h) and po = int_of_z (class_count only_po Z0 h)
  and uc = int_of_z (class_count only_u Z0 h) and nuc = int_of_z (class_count is_nuc_letter Z0 h) in
  Printf.sprintf "biotype=%s dna=%s prot=%s exact=%s total=%d po=%d u=%d nuc=%d" bt (hex_of_n (bits_of_f64 sd)) (hex_of_n (bits_of_f64 sp)) sgn tot po uc nuc)

let () = register "detecth" (fun args ->
  let tbl = Array.make 128 0 in
  List.iter (fun a -> match String.split_on_char ':' a with
      | [c; v] -> let c = int_of_string c in if c >= 0 && c < 128 then tbl.(c) <- int_of_string v
      | _ -> failwith "bad count") args;
  let h = List.map z_of_int (Array.to_list tbl) in
  let (sd, sp) = detect_sums h in
  let bt = match detect_alphabet h with Some b -> string_of_int (int_of_z b) | None -> "undecided" in
  let em = exact_margin h in
  let sgn = match em with Z0 -> "zero" | Zpos _ -> "pos" | Zneg _ -> "neg" in
  Printf.sprintf "biotype=%s dna=%s prot=%s exact=%s" bt (hex_of_n (bits_of_f64 sd)) (hex_of_n (bits_of_f64 sp)) sgn)

(* ---- C17: comparison score ------------------------------------------------------------------------- *)
let parse_named s = List.map (fun a ->
    match String.split_on_char ':' a with
    | [n; r] -> (bytes_of_hexstr n, (if r = "-" then [] else bytes_of_hexstr r))
    | _ -> failwith "bad named row") (String.split_on_char ',' s)

let () = register "cmp" (fun args ->
  match args with
  | [r; t] ->
    let (c, sc) = compare_model (parse_named r) (parse_named t) in
    Printf.sprintf "OK %d ra=%d rg=%d ta=%d tg=%d ia=%d ig=%d" (int_of_n sc)
      (int_of_n c.ref_aligned) (int_of_n c.ref_gap) (int_of_n c.test_aligned) (int_of_n c.test_gap)
      (int_of_n c.ident_aligned) (int_of_n c.ident_gap)
  | _ -> "BADARGS")

(* ---- C11: bit-parallel distance kernels ------------------------------------------------------------ *)
let () = register "bpm" (fun args ->
  match args with
  | [t; p] ->
    let t = bytes_of_hexstr t and p = bytes_of_hexstr p in
    Printf.sprintf "block=%d b64=%d b256=%d bblock=%d bb64=%d sed=%d sed1024=%d sed63=%d sed255=%d" (int_of_z (bpm_block t p)) (int_of_z (bpm64 t p)) (int_of_z (bpm256 t p))
      (int_of_z (bpm_block_bits t p)) (int_of_z (bpm64_bits t p))
      (int_of_z (sed t p)) (int_of_z (sed t (firstn (nat_of_int 1024) p))) (int_of_z (sed t (firstn (nat_of_int 63) p))) (int_of_z (sed t (firstn (nat_of_int 255) p)))
  | _ -> "BADARGS")

(* ---- formats: readers and writers ------------------------------------------------------------------- *)
let read_file_bytes path =
  let ic = open_in_bin path in
  let n = in_channel_length ic in
  let b = really_input_string ic n in
  close_in ic;
  List.init n (fun i -> let v = Char.code b.[i] in z_of_int (if v >= 128 then v - 256 else v))

let string_of_bytes (l : z list) = String.concat "" (List.map (fun z -> String.make 1 (Char.chr ((int_of_z z) land 255))) l)
let hexn l = if l = [] then "-" else hexstr_of_bytes l

let () = register "readfiles" (fun args ->
  match read_inputs (List.map read_file_bytes args) with
  | RErr -> "ERR"
  | RNone -> "NONE"
  | ROk m ->
    Printf.sprintf "OK biotype=%d aligned=%d n=%d recs=%s" (int_of_z m.i_biotype) (int_of_z m.i_aligned) (List.length m.i_recs)
      (String.concat ";" (List.map (fun r -> Printf.sprintf "%s:%s:%s" (hexn r.rr_name) (hexn r.rr_res)
                                       (String.concat "," (List.map (fun g -> string_of_int (int_of_nat g)) r.rr_gaps))) m.i_recs)))

(* rewrite <infile> <format> <outfile> <basename hex> <version hex>: model output written to <outfile> *)
let () = register "rewrite" (fun args ->
  match args with
  | [infile; fmt; outfile; base; ver] ->
    (match read_inputs [read_file_bytes infile] with
     | ROk m ->
       if int_of_z m.i_aligned <> 2 then Printf.sprintf "FAIL not-an-alignment status=%d" (int_of_z m.i_aligned)
       else
         let rows = rows_of m.i_recs in
         let alnlen = match rows with (_, r) :: _ -> List.length r | [] -> 0 in
         let fmtb = List.map (fun c -> z_of_int (Char.code c)) (List.init (String.length fmt) (String.get fmt)) in
         (match parse_format (Some fmtb) with
          | None -> "FAIL write"
          | Some f ->
            let f = int_of_z f in
            let protein = (int_of_z m.i_biotype = 0) in
            let date = List.map (fun c -> z_of_int (Char.code c)) (List.init 4 (String.get "DATE")) in
            let out = if f = 1 then write_fasta rows
              else if f = 2 then write_msf (bytes_of_hexstr base) date protein (nat_of_int alnlen) rows
              else write_clu (bytes_of_hexstr ver) (nat_of_int alnlen) rows in
            let oc = open_out_bin outfile in
            output_string oc (string_of_bytes out); close_out oc;
            Printf.sprintf "OK biotype=%d alnlen=%d" (int_of_z m.i_biotype) alnlen)
     | _ -> "FAIL read")
  | _ -> "BADARGS")

(* cli <version> <showw> <help> <nthreads> <format hex|NULL> <type hex|NULL> <gpo bits> <gpe bits> <tgpe bits> <write_ok 0|1> <path|STDIN-EMPTY|MISSING:path>...
   the exit status main() is modelled to produce; inputs that do not exist make their read stage fail *)
let () = register "cli" (fun args ->
  match args with
  | v :: w :: h :: nt :: fmt :: ty :: g :: e :: t :: wok :: files ->
    let opt x = if x = "NULL" then None else Some (if x = "-" then [] else bytes_of_hexstr x) in
    let a = { a_version = (v = "1"); a_showw = (w = "1"); a_help = (h = "1"); a_nthreads = z_of_int (int_of_string nt);
              a_ninputs = nat_of_int (List.length files); a_format = opt fmt; a_type = opt ty } in
    let missing = List.exists (fun f -> String.length f > 8 && String.sub f 0 8 = "MISSING:") files in
    (* run_kalign reads in order and stops at the first failure: inputs before a missing file are read *)
    let rec upto = function [] -> [] | f :: r -> if String.length f > 8 && String.sub f 0 8 = "MISSING:" then [] else f :: upto r in
    let contents = List.map (fun f -> if f = "STDIN-EMPTY" then [] else read_file_bytes f) (upto files) in
    let tyc = match set_aln_type (opt ty) with Some x -> x | None -> z_of_int 5 in
    let (rd, rn) = predicted_run_stage contents tyc (n_of_int (int_of_string g)) (n_of_int (int_of_string e)) (n_of_int (int_of_string t)) in
    let rd = if missing then SFail else rd in
    let wr = if wok = "1" then SOk else SFail in
    let r = cli_main a [rd] rn wr in
    Printf.sprintf "exit=%d %s" (int_of_z (exit_code r)) (match r with Exit0_info -> "info" | Exit1 -> "failure" | Exit0_written -> "written")
  | _ -> "BADARGS")

(* pipeline <bt> <type> <gpo bits> <gpe bits> <tgpe bits> <tasks a:b:c,..|AUTO> <seq hex>...
   the numeric pipeline on the sequences in INPUT order: canonical sort, codes, guide tree (model's own UPGMA when
   AUTO, else the given task list), progressive alignment; prints TREE and one NODE per merge *)
let () = register "pipeline" (fun args ->
  match args with
  | bt :: ty :: g :: e :: t :: tasks :: seqs ->
    let bt = z_of_int (int_of_string bt) in
    let seqs = List.map (fun h -> if h = "-" then [] else bytes_of_hexstr h) seqs in
    let recs = List.mapi (fun i s -> (List.map (fun c -> z_of_int (Char.code c)) (List.init (String.length (Printf.sprintf "Seq_%d" (i+1))) (String.get (Printf.sprintf "Seq_%d" (i+1)))), s)) seqs in
    (match essential_check (with_ranks Z0 recs) with
     | None -> "FAIL essential"
     | Some kept ->
       let sorted = sort_len_name kept in
       (match alphabets bt with
        | None -> "FAIL alphabet"
        | Some ((ta, tamb), (aa, aamb)) ->
          (match init bt (z_of_int (int_of_string ty)) (n_of_int (int_of_string g)) (n_of_int (int_of_string e)) (n_of_int (int_of_string t)) with
           | None -> "FAIL params"
           | Some p ->
             let tcodes = List.map (fun r -> convert ta tamb r.r_res) sorted in
             let acodes = List.map (fun r -> convert aa aamb r.r_res) sorted in
             let tl = if tasks = "AUTO" then guide_tasks tcodes
               else Some (List.map (fun x -> match String.split_on_char ':' x with
                   | [a; b; c] -> ((nat_of_int (int_of_string a), nat_of_int (int_of_string b)), nat_of_int (int_of_string c))
                   | _ -> failwith "task") (String.split_on_char ',' tasks)) in
             (match tl with
              | None -> "FAIL tree"
              | Some tl ->
                let tree_s = String.concat "," (List.map (fun ((a, b), c) -> Printf.sprintf "%d:%d:%d" (int_of_nat a) (int_of_nat b) (int_of_nat c)) tl) in
                (match progressive alg_f32 (np_of_params p) acodes (sort_tasks tl) with
                 | None -> "FAIL progressive |TREE " ^ tree_s
                 | Some nodes ->
                   "OK |TREE " ^ tree_s ^
                   String.concat "" (List.map (fun (((((a, b), c), raw), ops), meets) ->
                       Printf.sprintf "|NODE %d %d %d raw=%s ops=%s meets=%s" (int_of_nat a) (int_of_nat b) (int_of_nat c)
                         (String.concat "," (List.map (fun z -> string_of_int (int_of_z z)) raw))
                         (String.concat "," (List.map (fun z -> string_of_int (int_of_z z)) ops))
                         (String.concat ";" (List.map (fun ((mx, tr), mt) -> Printf.sprintf "%d:%d:%d" (int_of_z mt) (int_of_z tr) (int_of_n (bits_of_f32 (Obj.magic mx)))) meets))) nodes))))))
  | _ -> "BADARGS")

(* dmat <seq hex>...: the distance matrix of the model (nucleotide codes), binary32 bits row-major *)
let () = register "dmat" (fun args ->
  let seqs = List.map bytes_of_hexstr args in
  let amb = nthZ (z_of_int (-1)) alpha_defDNA (z_of_int 78) in
  let codes = List.map (fun s -> convert alpha_defDNA amb s) seqs in
  "OK " ^ String.concat "," (List.concat (List.map (fun row -> List.map (fun x -> string_of_int (int_of_n (bits_of_f32 x))) row) (distance_matrix codes))))

let main () =
  try
    while true do
      let line = input_line stdin in
      match split_ws line with
      | [] -> print_endline ""
      | cmd :: args ->
        (match Hashtbl.find_opt handlers cmd with
         | Some f -> print_endline (try f args with e -> "MODEL-EXCEPTION " ^ Printexc.to_string e)
         | None -> print_endline ("UNKNOWN-COMMAND " ^ cmd))
    done
  with End_of_file -> ()

let () = if not !Sys.interactive then main ()
