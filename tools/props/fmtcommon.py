"""Shared helpers of C04/C06/C15: alignment generators and the rewrite/readfiles runners."""
import os, re
import gen

NAMECH = 'ABCDEFGHIJKLMNOPQRSTUVWXYZabcdefghijklmnopqrstuvwxyz0123456789_.|-'

def gen_names(rng, n):
    style = rng.choice(['short', 'len2', 'mid', 'long200', 'punct', 'prefix', 'mixed', 'marker'])
    out = []
    for i in range(n):
        if style == 'short':
            nm = NAMECH[i % 52]
        elif style == 'len2':
            nm = NAMECH[i % 52] + NAMECH[(i * 7 + 3) % len(NAMECH)]
        elif style == 'mid':
            nm = 'seq_%d.%s' % (i, gen.rand_seq(rng, NAMECH, rng.range(1, 50)))
        elif style == 'long200':
            nm = ('%03d' % i) + gen.rand_seq(rng, NAMECH, 197)
        elif style == 'punct':
            nm = ['-', '...', '|_|', '_', '.-.', '||', '-_-', '._|', '--', '|'][i % 10] + ('' if i < 10 else str(i))
        elif style == 'marker':     # the words the format sniffer and the header parsers look for, inside names
            nm = ['CLUSTALW_ref_%d', 'my_CLUSTAL.run_%d', 'CLUSTAL_O_%d', 'PileUp.MSF_%d', 'MSF-%d', 'multiple_sequence_alignment_%d',
                  'Name_%d', 'Len_%d', 'AA_MULTIPLE_ALIGNMENT_%d', 'Check_%d..'][(i * 3 + rng.below(10)) % 10] % i
        elif style == 'prefix':
            nm = 'p' + 'q' * i
        else:
            nm = gen.rand_seq(rng, NAMECH, rng.range(1, 60)) + str(i)
        out.append(nm)
    # unique
    seen = set(); res = []
    for i, nm in enumerate(out):
        while nm in seen:
            nm = nm + str(i)
        seen.add(nm); res.append(nm)
    return res

def gen_alignment(rng, kind=None, nrows=None, width=None):
    kind = kind or ('dna' if rng.chance(1, 2) else 'protein')
    alpha = gen.DNA if kind == 'dna' else gen.PROT
    n = nrows or rng.choice([2, 2, 3, 5, 8, 17, 40])
    w = width or rng.choice([1, 2, 7, 59, 60, 61, 119, 120, 121, 180, 600])
    rows = []
    for i in range(n):
        style = rng.choice(['dense', 'gappy', 'lead', 'trail', 'nogap'])
        r = []
        for j in range(w):
            p = {'dense': 10, 'gappy': 60, 'lead': 90 if j < w // 2 else 5, 'trail': 5 if j < w // 2 else 90, 'nogap': 0}[style]
            ch = '-' if rng.below(100) < p else alpha[rng.below(len(alpha))]
            if rng.chance(1, 5) and ch != '-':
                ch = ch.lower()
            r.append(ch)
        if all(c == '-' for c in r):
            r[rng.below(w)] = alpha[rng.below(len(alpha))]
        rows.append(''.join(r))
    if kind == 'protein':       # keep the kind recognisable: a protein-only letter in every row
        rows = [r if any(c in 'DEFHIKLMPQRSVWYdefhiklmpqrsvwy' for c in r) else ('W' + r[1:]) for r in rows]
    if not any('-' in r for r in rows):
        if w >= 2:
            r = rows[-1]; rows[-1] = '-' + r[1:] if sum(1 for c in r if c != '-') > 1 else r
        if not any('-' in r for r in rows):
            rows = [r + '-' for r in rows[:-1]] + [rows[-1] + rows[-1][0]]
    return kind, gen_names(rng, n), rows

def mask_date(text):
    return re.sub(r'(  Type: .  ).*(  Check:)', r'\1DATE\2', text)

def read_text(path):
    return open(path, 'rb').read().decode('latin-1') if os.path.exists(path) else None
